import GlotaranProofs.Props.C19
import GlotaranProofs.Props.C02
import GlotaranProofs.Props.C03
import GlotaranProofs.Props.C15
