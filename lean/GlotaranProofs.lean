import GlotaranProofs.Props.C19
import GlotaranProofs.Props.C02
import GlotaranProofs.Props.C03
import GlotaranProofs.Props.C15
import GlotaranProofs.Props.C12
import GlotaranProofs.Props.C09
import GlotaranProofs.Props.C20
import GlotaranProofs.Props.C11
