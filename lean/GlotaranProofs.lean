import GlotaranProofs.Props.C19
