/-
C20 — helper lemmas: `collectM`, membership characterisations of the per-attribute issue
functions, hypotheses used by the property theorems.
-/
import GlotaranModel.C20
import GlotaranModel.Generated.C20
import GlotaranModel.Generated.C20Validators
import GlotaranModel.Generated.C20Walker
namespace Glotaran.C20

deriving instance DecidableEq for Except

/-! ### collectM -/

theorem collectM_ok_cons {α β : Type} {f : α → Except Err (List β)} {a : α} {as : List α}
    {r : List β} (h : collectM f (a :: as) = .ok r) :
    ∃ bs cs, f a = .ok bs ∧ collectM f as = .ok cs ∧ r = bs ++ cs := by
  simp only [collectM] at h
  split at h
  · cases h
  · rename_i bs hbs
    split at h
    · cases h
    · rename_i cs hcs
      cases h
      exact ⟨bs, cs, hbs, hcs, rfl⟩

theorem collectM_mem {α β : Type} {f : α → Except Err (List β)} :
    ∀ {l : List α} {r : List β}, collectM f l = .ok r →
      ∀ b, b ∈ r ↔ ∃ a ∈ l, ∃ bs, f a = .ok bs ∧ b ∈ bs := by
  intro l
  induction l with
  | nil =>
    intro r h b
    simp only [collectM] at h
    cases h
    simp
  | cons a as ih =>
    intro r h b
    obtain ⟨bs, cs, hbs, hcs, rfl⟩ := collectM_ok_cons h
    rw [List.mem_append, ih hcs b]
    constructor
    · rintro (hb | ⟨a', ha', bs', hf, hb⟩)
      · exact ⟨a, by simp, bs, hbs, hb⟩
      · exact ⟨a', by simp [ha'], bs', hf, hb⟩
    · rintro ⟨a', ha', bs', hf, hb⟩
      rcases List.mem_cons.mp ha' with rfl | ha'
      · rw [hbs] at hf; cases hf; exact Or.inl hb
      · exact Or.inr ⟨a', ha', bs', hf, hb⟩

theorem collectM_each {α β : Type} {f : α → Except Err (List β)} :
    ∀ {l : List α} {r : List β}, collectM f l = .ok r → ∀ a ∈ l, ∃ bs, f a = .ok bs := by
  intro l
  induction l with
  | nil => intro r _ a ha; cases ha
  | cons a as ih =>
    intro r h a' ha'
    obtain ⟨bs, cs, hbs, hcs, _⟩ := collectM_ok_cons h
    rcases List.mem_cons.mp ha' with rfl | ha'
    · exact ⟨bs, hbs⟩
    · exact ih hcs a' ha'

theorem collectM_isOk {α β : Type} {f : α → Except Err (List β)} :
    ∀ {l : List α}, (∀ a ∈ l, ∃ bs, f a = .ok bs) → ∃ r, collectM f l = .ok r := by
  intro l
  induction l with
  | nil => intro _; exact ⟨[], rfl⟩
  | cons a as ih =>
    intro h
    obtain ⟨bs, hbs⟩ := h a (by simp)
    obtain ⟨cs, hcs⟩ := ih (fun x hx => h x (by simp [hx]))
    exact ⟨bs ++ cs, by simp [collectM, hbs, hcs]⟩

theorem collectM_nil_of {α β : Type} {f : α → Except Err (List β)} {l : List α} {r : List β}
    (h : collectM f l = .ok r) (hn : ∀ a ∈ l, ∀ bs, f a = .ok bs → bs = []) : r = [] := by
  apply List.eq_nil_iff_forall_not_mem.mpr
  intro b hb
  obtain ⟨a, ha, bs, hf, hbb⟩ := (collectM_mem h b).mp hb
  rw [hn a ha bs hf] at hbb
  cases hbb

/-! ### collections -/

theorem findColl_mem {m : Model} {c : String} {x : Coll} (h : findColl m c = some x) : x ∈ m :=
  List.mem_of_find?_eq_some h

theorem findItem_mem {c : Coll} {l : String} {t : Item} (h : c.findItem l = some t) :
    t ∈ c.items := List.mem_of_find?_eq_some h

theorem findItem_label {c : Coll} {l : String} {t : Item} (h : c.findItem l = some t) :
    t.label = l := by
  have := List.find?_some h
  simpa using this

theorem mem_allItems {m : Model} {c : Coll} {t : Item} (hc : c ∈ m) (ht : t ∈ c.items) :
    t ∈ allItems m := by
  simp only [allItems, List.mem_flatMap]
  exact ⟨c, hc, ht⟩

theorem findItem_of_hasLabel {c : Coll} {l : String} (h : c.hasLabel l = true) :
    ∃ t, c.findItem l = some t := by
  simp only [Coll.hasLabel, List.any_eq_true] at h
  obtain ⟨t, ht, hl⟩ := h
  cases hfi : c.findItem l with
  | some t' => exact ⟨t', rfl⟩
  | none =>
    simp only [Coll.findItem] at hfi
    have := List.find?_eq_none.mp hfi t ht
    exact absurd hl this

/-! ### hypotheses of the property theorems -/

/-- the values a validator predicate reads have the shape it expects -/
def PredShapeOK (it : Item) (a : AttrSpec) : VPred → Prop
  | .resolved _ _ _ _ => it.valOf a.name = .none ∨ ∃ ls, it.valOf a.name = .list ls
  | .lengthsEqual as => ∀ x ∈ as, ∃ n, lenOf it x = .ok n
  | .definedIn _ _ => ∃ ls, plainLabels it a.name = .ok ls
  | .opaque _ => True
  | .untranslatable _ => True

/-- the value of every reference attribute has the declared structure; the values the
    validators read have the shape they expect -/
def ShapeOK (vt : VTable) (it : Item) (a : AttrSpec) : Prop :=
  (a.kind ≠ .plain → ∃ ls, it.labels a = .ok ls) ∧
  (∀ n, a.validator = .named n → PredShapeOK it a (predOf vt n))

def WellShaped (vt : VTable) (sch : Schema) (m : Model) : Prop :=
  ∀ it ∈ allItems m, ∀ a ∈ (specOf sch it.spec).attrs, ShapeOK vt it a

/-- the collection a validator predicate looks labels up in -/
def predColl : VPred → Option String
  | .resolved c _ _ _ => some c
  | .definedIn c _ => some c
  | _ => none

/-- every collection the schema and the validators refer to exists in the model
    (`getattr(model, name)` / `model.<name>`) -/
def Closed (vt : VTable) (sch : Schema) (m : Model) : Prop :=
  ∀ it ∈ allItems m, ∀ a ∈ (specOf sch it.spec).attrs,
    (∀ c, a.kind = .item c → ∃ x, findColl m c = some x) ∧
    (∀ n c, a.validator = .named n → predColl (predOf vt n) = some c → ∃ x, findColl m c = some x)

/-- a validator that resolves labels guards against `None` and skips undefined labels (the code
    after fix D11); a table entry without these raises `TypeError` / `KeyError` on some models -/
def predSafe : VPred → Bool
  | .resolved _ g s _ => g && s
  | _ => true

def tableSafe (vt : VTable) : Bool := vt.all (fun e => predSafe e.2)

theorem predOf_safe {vt : VTable} (h : tableSafe vt = true) (n : String) :
    predSafe (predOf vt n) = true := by
  unfold predOf
  cases hf : vt.find? (fun p => p.1 = n) with
  | none => rfl
  | some e =>
    simp only [tableSafe, List.all_eq_true] at h
    exact h e (List.mem_of_find?_eq_some hf)

/-- executable forms (used to show that the hypotheses are satisfiable) -/
def predShapeOKB (it : Item) (a : AttrSpec) : VPred → Bool
  | .resolved _ _ _ _ => (match it.valOf a.name with
      | .none => true
      | .list _ => true
      | _ => false)
  | .lengthsEqual as => as.all (fun x => (lenOf it x).isOk)
  | .definedIn _ _ => (plainLabels it a.name).isOk
  | _ => true

def shapeOKB (vt : VTable) (it : Item) (a : AttrSpec) : Bool :=
  (decide (a.kind = .plain) || (it.labels a).isOk) &&
  (match a.validator with
    | .named n => predShapeOKB it a (predOf vt n)
    | .none => true)

def wellShapedB (vt : VTable) (sch : Schema) (m : Model) : Bool :=
  (allItems m).all fun it => (specOf sch it.spec).attrs.all fun a => shapeOKB vt it a

theorem isOk_ok {α : Type} {x : Except Err α} (h : x.isOk = true) : ∃ r, x = .ok r := by
  cases x with
  | ok r => exact ⟨r, rfl⟩
  | error e => simp [Except.isOk, Except.toBool] at h

theorem predShapeOK_of_check {it : Item} {a : AttrSpec} {p : VPred}
    (h : predShapeOKB it a p = true) : PredShapeOK it a p := by
  cases p with
  | resolved c g s rs =>
    simp only [predShapeOKB] at h
    simp only [PredShapeOK]
    cases hval : it.valOf a.name with
    | none => exact Or.inl rfl
    | list ls => exact Or.inr ⟨ls, rfl⟩
    | scalar l => simp [hval] at h
    | dict kvs => simp [hval] at h
  | lengthsEqual as =>
    simp only [predShapeOKB, List.all_eq_true] at h
    intro x hx
    exact isOk_ok (h x hx)
  | definedIn c r => exact isOk_ok h
  | «opaque» n => trivial
  | untranslatable r => trivial

theorem wellShaped_of_check {vt : VTable} {sch : Schema} {m : Model}
    (h : wellShapedB vt sch m = true) : WellShaped vt sch m := by
  intro it hit a ha
  simp only [wellShapedB, List.all_eq_true] at h
  have hb := h it hit a ha
  simp only [shapeOKB, Bool.and_eq_true, Bool.or_eq_true, decide_eq_true_eq] at hb
  obtain ⟨h1, h2⟩ := hb
  refine ⟨?_, ?_⟩
  · intro hk
    rcases h1 with h1 | h1
    · exact absurd h1 hk
    · exact isOk_ok h1
  · intro n hv
    rw [hv] at h2
    exact predShapeOK_of_check h2

/-! ### per-attribute functions -/

theorem attrItemIssues_isOk {vt : VTable} {m : Model} {it : Item} {a : AttrSpec} (hs : ShapeOK vt it a)
    (hc : ∀ c, a.kind = .item c → ∃ x, findColl m c = some x) :
    ∃ r, attrItemIssues m it a = .ok r := by
  unfold attrItemIssues
  cases hk : a.kind with
  | item coll =>
    obtain ⟨ls, hls⟩ := hs.1 (by simp [hk])
    obtain ⟨x, hx⟩ := hc coll hk
    cases ls with
    | nil => simp [hls]
    | cons l ls => simp [hls, hx]
  | param => simp
  | plain => simp

/-- what an issue of `get_item_model_issues` says -/
theorem attrItemIssues_mem {m : Model} {it : Item} {a : AttrSpec} {r : List Issue}
    (h : attrItemIssues m it a = .ok r) (i : Issue) :
    i ∈ r ↔ ∃ coll ls l c, a.kind = .item coll ∧ it.labels a = .ok ls ∧ l ∈ ls ∧
      findColl m coll = some c ∧ c.hasLabel l = false ∧ i = .missingItem coll l := by
  unfold attrItemIssues at h
  cases hk : a.kind with
  | item coll =>
    simp only [hk] at h
    cases hl : it.labels a with
    | error e => simp [hl] at h
    | ok ls =>
      cases ls with
      | nil =>
        simp only [hl] at h
        cases h
        simp
      | cons l ls =>
        simp only [hl] at h
        cases hc : findColl m coll with
        | none => simp [hc] at h
        | some c =>
          simp only [hc] at h
          cases h
          simp only [List.mem_map, List.mem_filter]
          constructor
          · rintro ⟨x, ⟨hx, hnl⟩, rfl⟩
            exact ⟨coll, l :: ls, x, c, rfl, rfl, hx, hc, by simpa using hnl, rfl⟩
          · rintro ⟨coll', ls', x, c', hk', hls', hx, hc', hnl, rfl⟩
            cases hk'
            cases hls'
            rw [hc] at hc'
            cases hc'
            exact ⟨x, ⟨hx, by simp [hnl]⟩, rfl⟩
  | param =>
    simp only [hk] at h
    cases h
    simp
  | plain =>
    simp only [hk] at h
    cases h
    simp

theorem attrParamIssues_isOk {vt : VTable} {ps : List String} {it : Item} {a : AttrSpec}
    (hs : ShapeOK vt it a) :
    ∃ r, attrParamIssues ps it a = .ok r := by
  unfold attrParamIssues
  cases hk : a.kind with
  | param =>
    obtain ⟨ls, hls⟩ := hs.1 (by simp [hk])
    simp [hls]
  | item c => simp
  | plain => simp

theorem attrParamIssues_mem {ps : List String} {it : Item} {a : AttrSpec} {r : List Issue}
    (h : attrParamIssues ps it a = .ok r) (i : Issue) :
    i ∈ r ↔ ∃ ls l, a.kind = .param ∧ it.labels a = .ok ls ∧ l ∈ ls ∧ l ∉ ps ∧
      i = .missingParam l := by
  unfold attrParamIssues at h
  cases hk : a.kind with
  | param =>
    simp only [hk] at h
    cases hl : it.labels a with
    | error e => simp [hl] at h
    | ok ls =>
      simp only [hl] at h
      cases h
      simp only [List.mem_map, List.mem_filter]
      constructor
      · rintro ⟨x, ⟨hx, hn⟩, rfl⟩
        exact ⟨ls, x, by first | rfl | trivial, rfl, hx, by simpa using hn, rfl⟩
      · rintro ⟨ls', x, _, hls', hx, hn, rfl⟩
        cases hls'
        exact ⟨x, ⟨hx, by simpa using hn⟩, rfl⟩
  | item c =>
    simp only [hk] at h
    cases h
    simp
  | plain =>
    simp only [hk] at h
    cases h
    simp

/-! ### the rules of `get_megacomplex_issues` -/

/-- what a rule list demands of the resolved megacomplexes, as a specification: a megacomplex whose
    class carries the flag of a rule is counted at most `bound` times -/
def RulesOK (sch : Schema) (rules : List McRule) (mcs : List Item) : Prop :=
  ∀ mc ∈ mcs, ∀ r ∈ rules, flagOf sch r.flag mc = true → countOf mcs mc r.count ≤ r.bound

theorem ruleIssues_nil_iff (sch : Schema) (rules : List McRule) (mcs : List Item) :
    ruleIssues sch rules mcs = [] ↔ RulesOK sch rules mcs := by
  simp only [ruleIssues, List.flatMap_eq_nil_iff, List.map_eq_nil_iff, List.filter_eq_nil_iff,
    RulesOK, ruleFires]
  constructor
  · intro h mc hmc r hr hf
    have := h mc hmc r hr
    simp only [hf, Bool.true_and, decide_eq_true_eq] at this
    omega
  · intro h mc hmc r hr
    have := h mc hmc r hr
    simp only [Bool.and_eq_true, decide_eq_true_eq, not_and]
    intro hf
    have := this hf
    omega

theorem ruleIssues_kind {sch : Schema} {rules : List McRule} {mcs : List Item} {i : Issue}
    (h : i ∈ ruleIssues sch rules mcs) :
    (∃ l t, i = .exclusive l t) ∨ (∃ l t, i = .unique l t) := by
  simp only [ruleIssues, List.mem_flatMap, List.mem_map] at h
  obtain ⟨mc, _, r, _, rfl⟩ := h
  cases hr : r.issue with
  | exclusive => exact Or.inl ⟨_, _, rfl⟩
  | unique => exact Or.inr ⟨_, _, rfl⟩

/-- the two rules of the code: exclusive megacomplexes stand alone, unique ones once per class -/
def stdRules : List McRule :=
  [⟨.exclusive, .all, 1, .exclusive⟩, ⟨.unique, .sameClass, 1, .unique⟩]

/-- the rule of `get_megacomplex_issues`, as a specification -/
def ExclusiveUniqueOK (sch : Schema) (mcs : List Item) : Prop :=
  ∀ mc ∈ mcs,
    ((specOf sch mc.spec).exclusive = true → mcs.length ≤ 1) ∧
    ((specOf sch mc.spec).unique = true →
      (mcs.filter (fun x => x.spec = mc.spec)).length ≤ 1)

theorem rulesOK_std_iff (sch : Schema) (mcs : List Item) :
    RulesOK sch stdRules mcs ↔ ExclusiveUniqueOK sch mcs := by
  simp only [RulesOK, stdRules, ExclusiveUniqueOK, List.mem_cons, List.not_mem_nil, or_false]
  constructor
  · intro h mc hmc
    exact ⟨fun he => h mc hmc _ (Or.inl rfl) he, fun hu => h mc hmc _ (Or.inr rfl) hu⟩
  · intro h mc hmc r hr hf
    rcases hr with rfl | rfl
    · exact (h mc hmc).1 hf
    · exact (h mc hmc).2 hf

theorem resolveLabels_ok {c : Coll} {coll : String} {skip : Bool} :
    ∀ {ls : List String} {mcs : List Item}, resolveLabels c coll skip ls = .ok mcs →
      mcs = ls.filterMap c.findItem := by
  cases skip with
  | true =>
    intro ls mcs h
    simp only [resolveLabels, if_true, Except.ok.injEq] at h
    exact h.symm
  | false =>
    intro ls
    induction ls with
    | nil =>
      intro mcs h
      simp [resolveLabels, collectM] at h
      simp [h]
    | cons l ls ih =>
      intro mcs h
      simp only [resolveLabels, Bool.false_eq_true, if_false] at h ih
      obtain ⟨bs, cs, hbs, hcs, rfl⟩ := collectM_ok_cons h
      cases hf : c.findItem l with
      | none => simp [hf] at hbs
      | some t =>
        simp only [hf, Except.ok.injEq] at hbs
        subst hbs
        simp [hf, ih hcs]

theorem allSame_false_iff (lens : List Nat) :
    allSame lens = false ↔ ∃ x ∈ lens, ∃ y ∈ lens, x ≠ y := by
  cases lens with
  | nil => simp [allSame]
  | cons n ns =>
    simp only [allSame]
    constructor
    · intro h
      simp only [List.all_eq_false, decide_eq_true_eq] at h
      obtain ⟨k, hk, hne⟩ := h
      exact ⟨k, by simp [hk], n, by simp, hne⟩
    · rintro ⟨x, hx, y, hy, hne⟩
      apply Bool.eq_false_iff.mpr
      intro hall
      simp only [List.all_eq_true, decide_eq_true_eq] at hall
      have hxn : x = n := by
        rcases List.mem_cons.mp hx with h | h
        · exact h
        · exact hall x h
      have hyn : y = n := by
        rcases List.mem_cons.mp hy with h | h
        · exact h
        · exact hall y h
      exact hne (hxn.trans hyn.symm)

/-! ### the interpreter of the validator predicates -/

/-- when a validator has something to complain about — a specification that does not mention the
    interpreter: the resolved megacomplexes break a rule / two measured lengths differ / a stored
    label is not a label of the collection -/
def Violated (sch : Schema) (m : Model) (it : Item) (a : AttrSpec) : VPred → Prop
  | .resolved coll _ _ rules => ∃ ls c, it.valOf a.name = .list ls ∧ findColl m coll = some c ∧
      ¬ RulesOK sch rules (ls.filterMap c.findItem)
  | .lengthsEqual as => ∃ lens, collectM (lenOf it) as = .ok lens ∧ ∃ x ∈ lens, ∃ y ∈ lens, x ≠ y
  | .definedIn coll _ => ∃ ls c l, plainLabels it a.name = .ok ls ∧ findColl m coll = some c ∧
      l ∈ ls ∧ c.hasLabel l = false
  | .opaque _ => False
  | .untranslatable _ => False

theorem interpPred_isOk {cv : CustomValidators} {sch : Schema} {m : Model} {it : Item}
    {a : AttrSpec} {p : VPred} (hs : PredShapeOK it a p)
    (hc : ∀ c, predColl p = some c → ∃ x, findColl m c = some x) (hsafe : predSafe p = true) :
    ∃ r, interpPred cv sch m it a p = .ok r := by
  cases p with
  | resolved coll g s rules =>
    simp only [predSafe, Bool.and_eq_true] at hsafe
    obtain ⟨hg, hsk⟩ := hsafe
    subst hg hsk
    obtain ⟨x, hx⟩ := hc coll rfl
    rcases hs with h | ⟨ls, h⟩
    · simp [interpPred, h]
    · simp [interpPred, h, hx, resolveLabels]
  | lengthsEqual as =>
    obtain ⟨lens, hl⟩ := collectM_isOk (f := lenOf it) (l := as) (fun x hx => hs x hx)
    simp [interpPred, hl]
  | definedIn coll r =>
    obtain ⟨ls, hls⟩ := hs
    obtain ⟨x, hx⟩ := hc coll rfl
    simp [interpPred, hls, hx]
  | «opaque» n => simp [interpPred]
  | untranslatable r => simp [interpPred]

/-- **the interpreter meets the specification**: a translated validator returns issues exactly
    when it is violated -/
theorem interpPred_nonempty_iff {cv : CustomValidators} {sch : Schema} {m : Model} {it : Item}
    {a : AttrSpec} {p : VPred} {r : List Issue} (ht : p.translated = true)
    (h : interpPred cv sch m it a p = .ok r) : r ≠ [] ↔ Violated sch m it a p := by
  cases p with
  | resolved coll g s rules =>
    simp only [interpPred] at h
    simp only [Violated]
    cases hval : it.valOf a.name with
    | none =>
      simp only [hval] at h
      split at h
      · cases h; simp
      · cases h
    | scalar l => simp [hval] at h
    | dict kvs => simp [hval] at h
    | list ls =>
      simp only [hval] at h
      cases hcc : findColl m coll with
      | none => simp [hcc] at h
      | some c =>
        simp only [hcc] at h
        cases hr : resolveLabels c coll s ls with
        | error e => simp [hr] at h
        | ok mcs =>
          simp only [hr, Except.ok.injEq] at h
          subst h
          have hm := resolveLabels_ok hr
          subst hm
          rw [Ne, ruleIssues_nil_iff]
          constructor
          · intro hbad
            exact ⟨ls, c, rfl, rfl, hbad⟩
          · rintro ⟨ls', c', hl', hc', hbad⟩
            cases hl'
            cases hc'
            exact hbad
  | lengthsEqual as =>
    simp only [interpPred] at h
    simp only [Violated]
    cases hl : collectM (lenOf it) as with
    | error e => simp [hl] at h
    | ok lens =>
      simp only [hl, Except.ok.injEq] at h
      subst h
      cases hs : allSame lens with
      | true =>
        simp only [if_true, ne_eq, not_true_eq_false, false_iff]
        rintro ⟨lens', hl', hx⟩
        cases hl'
        have := (allSame_false_iff lens).mpr hx
        rw [hs] at this
        cases this
      | false =>
        simp only [Bool.false_eq_true, if_false, ne_eq, List.cons_ne_nil, not_false_eq_true, true_iff]
        exact ⟨lens, rfl, (allSame_false_iff lens).mp hs⟩
  | definedIn coll rep =>
    simp only [interpPred] at h
    simp only [Violated]
    cases hl : plainLabels it a.name with
    | error e => simp [hl] at h
    | ok ls =>
      simp only [hl] at h
      cases hcc : findColl m coll with
      | none => simp [hcc] at h
      | some c =>
        simp only [hcc, Except.ok.injEq] at h
        subst h
        constructor
        · intro hne
          obtain ⟨i, hi⟩ := List.exists_mem_of_ne_nil _ hne
          simp only [List.mem_map, List.mem_filter] at hi
          obtain ⟨l, ⟨hl', hno⟩, _⟩ := hi
          exact ⟨ls, c, l, rfl, rfl, hl', by simpa using hno⟩
        · rintro ⟨ls', c', l, hls', hc', hl', hno⟩
          cases hls'
          cases hc'
          intro hnil
          have : Issue.missingItem rep l ∈
              ((ls.filter (fun x => !c.hasLabel x)).map (Issue.missingItem rep)) :=
            List.mem_map.mpr ⟨l, List.mem_filter.mpr ⟨hl', by simp [hno]⟩, rfl⟩
          rw [hnil] at this
          cases this
  | «opaque» n => simp [VPred.translated] at ht
  | untranslatable r => simp [VPred.translated] at ht

/-- the validators never produce "missing parameter" issues -/
theorem interpPred_noParam {cv : CustomValidators} {sch : Schema} {m : Model} {it : Item}
    {a : AttrSpec} {p : VPred} {r : List Issue} (h : interpPred cv sch m it a p = .ok r)
    {i : Issue} (hi : i ∈ r) : ∀ l, i ≠ .missingParam l := by
  cases p with
  | resolved coll g s rules =>
    simp only [interpPred] at h
    split at h
    · split at h
      · cases h; cases hi
      · cases h
    · split at h
      · cases h
      · split at h
        · cases h
        · cases h
          rcases ruleIssues_kind hi with ⟨l, t, rfl⟩ | ⟨l, t, rfl⟩ <;> simp
    · cases h
  | lengthsEqual as =>
    simp only [interpPred] at h
    split at h
    · cases h
    · cases h
      split at hi
      · cases hi
      · simp at hi; subst hi; simp
  | definedIn coll rep =>
    simp only [interpPred] at h
    split at h
    · cases h
    · split at h
      · cases h
      · cases h
        simp only [List.mem_map] at hi
        obtain ⟨x, _, rfl⟩ := hi
        simp
  | «opaque» n =>
    simp only [interpPred, Except.ok.injEq] at h
    subst h
    simp only [List.mem_map] at hi
    obtain ⟨x, _, rfl⟩ := hi
    simp
  | untranslatable n =>
    simp only [interpPred, Except.ok.injEq] at h
    subst h
    simp only [List.mem_map] at hi
    obtain ⟨x, _, rfl⟩ := hi
    simp

theorem attrValidatorIssues_isOk {cv : CustomValidators} {vt : VTable} {sch : Schema} {m : Model}
    {it : Item} {a : AttrSpec} (hs : ShapeOK vt it a)
    (hc : ∀ n c, a.validator = .named n → predColl (predOf vt n) = some c →
      ∃ x, findColl m c = some x) (hsafe : tableSafe vt = true) :
    ∃ r, attrValidatorIssues cv vt sch m it a = .ok r := by
  unfold attrValidatorIssues
  cases hv : a.validator with
  | none => exact ⟨[], rfl⟩
  | named n => exact interpPred_isOk (hs.2 n hv) (fun c hcc => hc n c hv hcc) (predOf_safe hsafe n)

theorem attrValidatorIssues_kind {cv : CustomValidators} {vt : VTable} {sch : Schema} {m : Model}
    {it : Item} {a : AttrSpec} {r : List Issue} (h : attrValidatorIssues cv vt sch m it a = .ok r)
    {i : Issue} (hi : i ∈ r) : ∀ l, i ≠ .missingParam l := by
  unfold attrValidatorIssues at h
  cases hv : a.validator with
  | none => simp only [hv] at h; cases h; cases hi
  | named n =>
    simp only [hv] at h
    exact interpPred_noParam h hi

/-! ### items -/

/-- decomposition of `get_item_issues` -/
theorem itemIssues_ok {cv : CustomValidators} {vt : VTable} {sch : Schema} {m : Model}
    {ps : Option (List String)} {it : Item} {r : List Issue}
    (h : itemIssues cv vt sch m ps it = .ok r) :
    ∃ i1 i2 i3,
      collectM (attrItemIssues m it) (specOf sch it.spec).attrs = .ok i1 ∧
      collectM (attrValidatorIssues cv vt sch m it) (specOf sch it.spec).attrs = .ok i2 ∧
      (match ps with
        | none => i3 = []
        | some P => collectM (attrParamIssues P it) (specOf sch it.spec).attrs = .ok i3) ∧
      r = i1 ++ i2 ++ i3 := by
  simp only [itemIssues] at h
  split at h
  · cases h
  · rename_i i1 h1
    split at h
    · cases h
    · rename_i i2 h2
      cases ps with
      | none =>
        simp only at h
        cases h
        exact ⟨i1, i2, [], h1, h2, rfl, by simp⟩
      | some P =>
        simp only at h
        split at h
        · cases h
        · rename_i i3 h3
          cases h
          exact ⟨i1, i2, i3, h1, h2, h3, rfl⟩

theorem itemIssues_isOk {cv : CustomValidators} {vt : VTable} {sch : Schema} {m : Model}
    {ps : Option (List String)} {it : Item}
    (hs : ∀ a ∈ (specOf sch it.spec).attrs, ShapeOK vt it a)
    (hc : ∀ a ∈ (specOf sch it.spec).attrs,
      (∀ c, a.kind = .item c → ∃ x, findColl m c = some x) ∧
      (∀ n c, a.validator = .named n → predColl (predOf vt n) = some c →
        ∃ x, findColl m c = some x)) (hsafe : tableSafe vt = true) :
    ∃ r, itemIssues cv vt sch m ps it = .ok r := by
  obtain ⟨i1, h1⟩ := collectM_isOk (f := attrItemIssues m it)
    (fun a ha => attrItemIssues_isOk (hs a ha) (hc a ha).1)
  obtain ⟨i2, h2⟩ := collectM_isOk (f := attrValidatorIssues cv vt sch m it)
    (fun a ha => attrValidatorIssues_isOk (hs a ha) (hc a ha).2 hsafe)
  cases ps with
  | none => exact ⟨i1 ++ i2, by simp [itemIssues, h1, h2]⟩
  | some P =>
    obtain ⟨i3, h3⟩ := collectM_isOk (f := attrParamIssues P it)
      (fun a ha => attrParamIssues_isOk (hs a ha))
    exact ⟨i1 ++ i2 ++ i3, by simp [itemIssues, h1, h2, h3]⟩

/-! ### schema-level checks (decided on the generated table) -/

def schemaClosed (vt : VTable) (sch : Schema) (colls : List String) : Bool :=
  sch.all fun s => s.attrs.all fun a =>
    (match a.kind with
      | .item c => colls.contains c
      | _ => true) &&
    (match a.validator with
      | .named n => (match predColl (predOf vt n) with
          | some c => colls.contains c
          | none => true)
      | .none => true)

theorem specOf_mem_or_empty (sch : Schema) (key : String) :
    specOf sch key ∈ sch ∨ (specOf sch key).attrs = [] := by
  unfold specOf
  cases h : sch.find? (fun s => s.key = key) with
  | some s => exact Or.inl (List.mem_of_find?_eq_some h)
  | none => exact Or.inr rfl

theorem closed_of_schemaClosed {vt : VTable} {sch : Schema} {colls : List String} {m : Model}
    (h : schemaClosed vt sch colls = true) (hm : ∀ c ∈ colls, ∃ x, findColl m c = some x) :
    Closed vt sch m := by
  intro it _ a ha
  rcases specOf_mem_or_empty sch it.spec with hs | hs
  · simp only [schemaClosed, List.all_eq_true, Bool.and_eq_true] at h
    obtain ⟨h1, h2⟩ := h _ hs a ha
    constructor
    · intro c hk
      rw [hk] at h1
      exact hm c (by simpa using h1)
    · intro n c hv hcc
      rw [hv] at h2
      simp only [hcc] at h2
      exact hm c (by simpa using h2)
  · rw [hs] at ha; cases ha

/-- keyed collections of the generated model class -/
def Generated.keyed : List String :=
  (Generated.collections.filter (·.2)).map (·.1)

/-- a rank of collections that decreases along every item reference of the schema -/
def schemaRanked (sch : Schema) (rk : String → Nat) : Bool :=
  sch.all fun s => s.attrs.all fun a =>
    match a.kind with
    | .item c => decide (rk c < rk s.coll)
    | _ => true

def rankOf (tbl : List (String × Nat)) (c : String) : Nat :=
  match tbl.find? (fun p => p.1 = c) with
  | some p => p.2
  | none => 0

end Glotaran.C20
