/-
C20 — helper lemmas: `collectM`, membership characterisations of the per-attribute issue
functions, hypotheses used by the property theorems.
-/
import GlotaranModel.C20
import GlotaranModel.Generated.C20
namespace Glotaran.C20

deriving instance DecidableEq for Except

/-! ### collectM -/

theorem collectM_ok_cons {α β : Type} {f : α → Except Err (List β)} {a : α} {as : List α}
    {r : List β} (h : collectM f (a :: as) = .ok r) :
    ∃ bs cs, f a = .ok bs ∧ collectM f as = .ok cs ∧ r = bs ++ cs := by
  simp only [collectM] at h
  split at h
  · cases h
  · rename_i bs hbs
    split at h
    · cases h
    · rename_i cs hcs
      cases h
      exact ⟨bs, cs, hbs, hcs, rfl⟩

theorem collectM_mem {α β : Type} {f : α → Except Err (List β)} :
    ∀ {l : List α} {r : List β}, collectM f l = .ok r →
      ∀ b, b ∈ r ↔ ∃ a ∈ l, ∃ bs, f a = .ok bs ∧ b ∈ bs := by
  intro l
  induction l with
  | nil =>
    intro r h b
    simp only [collectM] at h
    cases h
    simp
  | cons a as ih =>
    intro r h b
    obtain ⟨bs, cs, hbs, hcs, rfl⟩ := collectM_ok_cons h
    rw [List.mem_append, ih hcs b]
    constructor
    · rintro (hb | ⟨a', ha', bs', hf, hb⟩)
      · exact ⟨a, by simp, bs, hbs, hb⟩
      · exact ⟨a', by simp [ha'], bs', hf, hb⟩
    · rintro ⟨a', ha', bs', hf, hb⟩
      rcases List.mem_cons.mp ha' with rfl | ha'
      · rw [hbs] at hf; cases hf; exact Or.inl hb
      · exact Or.inr ⟨a', ha', bs', hf, hb⟩

theorem collectM_each {α β : Type} {f : α → Except Err (List β)} :
    ∀ {l : List α} {r : List β}, collectM f l = .ok r → ∀ a ∈ l, ∃ bs, f a = .ok bs := by
  intro l
  induction l with
  | nil => intro r _ a ha; cases ha
  | cons a as ih =>
    intro r h a' ha'
    obtain ⟨bs, cs, hbs, hcs, _⟩ := collectM_ok_cons h
    rcases List.mem_cons.mp ha' with rfl | ha'
    · exact ⟨bs, hbs⟩
    · exact ih hcs a' ha'

theorem collectM_isOk {α β : Type} {f : α → Except Err (List β)} :
    ∀ {l : List α}, (∀ a ∈ l, ∃ bs, f a = .ok bs) → ∃ r, collectM f l = .ok r := by
  intro l
  induction l with
  | nil => intro _; exact ⟨[], rfl⟩
  | cons a as ih =>
    intro h
    obtain ⟨bs, hbs⟩ := h a (by simp)
    obtain ⟨cs, hcs⟩ := ih (fun x hx => h x (by simp [hx]))
    exact ⟨bs ++ cs, by simp [collectM, hbs, hcs]⟩

theorem collectM_nil_of {α β : Type} {f : α → Except Err (List β)} {l : List α} {r : List β}
    (h : collectM f l = .ok r) (hn : ∀ a ∈ l, ∀ bs, f a = .ok bs → bs = []) : r = [] := by
  apply List.eq_nil_iff_forall_not_mem.mpr
  intro b hb
  obtain ⟨a, ha, bs, hf, hbb⟩ := (collectM_mem h b).mp hb
  rw [hn a ha bs hf] at hbb
  cases hbb

/-! ### collections -/

theorem findColl_mem {m : Model} {c : String} {x : Coll} (h : findColl m c = some x) : x ∈ m :=
  List.mem_of_find?_eq_some h

theorem findItem_mem {c : Coll} {l : String} {t : Item} (h : c.findItem l = some t) :
    t ∈ c.items := List.mem_of_find?_eq_some h

theorem findItem_label {c : Coll} {l : String} {t : Item} (h : c.findItem l = some t) :
    t.label = l := by
  have := List.find?_some h
  simpa using this

theorem mem_allItems {m : Model} {c : Coll} {t : Item} (hc : c ∈ m) (ht : t ∈ c.items) :
    t ∈ allItems m := by
  simp only [allItems, List.mem_flatMap]
  exact ⟨c, hc, ht⟩

theorem findItem_of_hasLabel {c : Coll} {l : String} (h : c.hasLabel l = true) :
    ∃ t, c.findItem l = some t := by
  simp only [Coll.hasLabel, List.any_eq_true] at h
  obtain ⟨t, ht, hl⟩ := h
  cases hfi : c.findItem l with
  | some t' => exact ⟨t', rfl⟩
  | none =>
    simp only [Coll.findItem] at hfi
    have := List.find?_eq_none.mp hfi t ht
    exact absurd hl this

/-! ### hypotheses of the property theorems -/

/-- the value of every reference attribute has the declared structure; the lists the
    validators measure are lists -/
def ShapeOK (it : Item) (a : AttrSpec) : Prop :=
  (a.kind ≠ .plain → ∃ ls, it.labels a = .ok ls) ∧
  (a.validator = .megacomplexes →
    it.valOf a.name = .none ∨ ∃ ls, it.valOf a.name = .list ls) ∧
  (∀ as, a.validator = .sameLength as → ∀ x ∈ as, ∃ n, lenOf it x = .ok n)

def WellShaped (sch : Schema) (m : Model) : Prop :=
  ∀ it ∈ allItems m, ∀ a ∈ (specOf sch it.spec).attrs, ShapeOK it a

/-- every collection the schema refers to exists in the model (`getattr(model, name)`) -/
def Closed (sch : Schema) (m : Model) : Prop :=
  ∀ it ∈ allItems m, ∀ a ∈ (specOf sch it.spec).attrs,
    (∀ c, a.kind = .item c → ∃ x, findColl m c = some x) ∧
    (a.validator = .megacomplexes → ∃ x, findColl m "megacomplex" = some x)

/-- executable form of `ShapeOK` (used to show that the hypotheses are satisfiable) -/
def shapeOKB (it : Item) (a : AttrSpec) : Bool :=
  (decide (a.kind = .plain) || (it.labels a).isOk) &&
  (match a.validator with
    | .megacomplexes => (match it.valOf a.name with
        | .none => true
        | .list _ => true
        | _ => false)
    | .sameLength as => as.all (fun x => (lenOf it x).isOk)
    | _ => true)

def wellShapedB (sch : Schema) (m : Model) : Bool :=
  (allItems m).all fun it => (specOf sch it.spec).attrs.all fun a => shapeOKB it a

theorem isOk_ok {α : Type} {x : Except Err α} (h : x.isOk = true) : ∃ r, x = .ok r := by
  cases x with
  | ok r => exact ⟨r, rfl⟩
  | error e => simp [Except.isOk, Except.toBool] at h

theorem wellShaped_of_check {sch : Schema} {m : Model} (h : wellShapedB sch m = true) :
    WellShaped sch m := by
  intro it hit a ha
  simp only [wellShapedB, List.all_eq_true] at h
  have hb := h it hit a ha
  simp only [shapeOKB, Bool.and_eq_true, Bool.or_eq_true, decide_eq_true_eq] at hb
  obtain ⟨h1, h2⟩ := hb
  refine ⟨?_, ?_, ?_⟩
  · intro hk
    rcases h1 with h1 | h1
    · exact absurd h1 hk
    · exact isOk_ok h1
  · intro hv
    rw [hv] at h2
    cases hval : it.valOf a.name with
    | none => exact Or.inl rfl
    | list ls => exact Or.inr ⟨ls, rfl⟩
    | scalar l => simp [hval] at h2
    | dict kvs => simp [hval] at h2
  · intro as hv x hx
    rw [hv] at h2
    simp only [List.all_eq_true] at h2
    exact isOk_ok (h2 x hx)

/-! ### per-attribute functions -/

theorem attrItemIssues_isOk {m : Model} {it : Item} {a : AttrSpec} (hs : ShapeOK it a)
    (hc : ∀ c, a.kind = .item c → ∃ x, findColl m c = some x) :
    ∃ r, attrItemIssues m it a = .ok r := by
  unfold attrItemIssues
  cases hk : a.kind with
  | item coll =>
    obtain ⟨ls, hls⟩ := hs.1 (by simp [hk])
    obtain ⟨x, hx⟩ := hc coll hk
    cases ls with
    | nil => simp [hls]
    | cons l ls => simp [hls, hx]
  | param => simp
  | plain => simp

/-- what an issue of `get_item_model_issues` says -/
theorem attrItemIssues_mem {m : Model} {it : Item} {a : AttrSpec} {r : List Issue}
    (h : attrItemIssues m it a = .ok r) (i : Issue) :
    i ∈ r ↔ ∃ coll ls l c, a.kind = .item coll ∧ it.labels a = .ok ls ∧ l ∈ ls ∧
      findColl m coll = some c ∧ c.hasLabel l = false ∧ i = .missingItem coll l := by
  unfold attrItemIssues at h
  cases hk : a.kind with
  | item coll =>
    simp only [hk] at h
    cases hl : it.labels a with
    | error e => simp [hl] at h
    | ok ls =>
      cases ls with
      | nil =>
        simp only [hl] at h
        cases h
        simp
      | cons l ls =>
        simp only [hl] at h
        cases hc : findColl m coll with
        | none => simp [hc] at h
        | some c =>
          simp only [hc] at h
          cases h
          simp only [List.mem_map, List.mem_filter]
          constructor
          · rintro ⟨x, ⟨hx, hnl⟩, rfl⟩
            exact ⟨coll, l :: ls, x, c, rfl, rfl, hx, hc, by simpa using hnl, rfl⟩
          · rintro ⟨coll', ls', x, c', hk', hls', hx, hc', hnl, rfl⟩
            cases hk'
            cases hls'
            rw [hc] at hc'
            cases hc'
            exact ⟨x, ⟨hx, by simp [hnl]⟩, rfl⟩
  | param =>
    simp only [hk] at h
    cases h
    simp
  | plain =>
    simp only [hk] at h
    cases h
    simp

theorem attrParamIssues_isOk {ps : List String} {it : Item} {a : AttrSpec} (hs : ShapeOK it a) :
    ∃ r, attrParamIssues ps it a = .ok r := by
  unfold attrParamIssues
  cases hk : a.kind with
  | param =>
    obtain ⟨ls, hls⟩ := hs.1 (by simp [hk])
    simp [hls]
  | item c => simp
  | plain => simp

theorem attrParamIssues_mem {ps : List String} {it : Item} {a : AttrSpec} {r : List Issue}
    (h : attrParamIssues ps it a = .ok r) (i : Issue) :
    i ∈ r ↔ ∃ ls l, a.kind = .param ∧ it.labels a = .ok ls ∧ l ∈ ls ∧ l ∉ ps ∧
      i = .missingParam l := by
  unfold attrParamIssues at h
  cases hk : a.kind with
  | param =>
    simp only [hk] at h
    cases hl : it.labels a with
    | error e => simp [hl] at h
    | ok ls =>
      simp only [hl] at h
      cases h
      simp only [List.mem_map, List.mem_filter]
      constructor
      · rintro ⟨x, ⟨hx, hn⟩, rfl⟩
        exact ⟨ls, x, by first | rfl | trivial, rfl, hx, by simpa using hn, rfl⟩
      · rintro ⟨ls', x, _, hls', hx, hn, rfl⟩
        cases hls'
        exact ⟨x, ⟨hx, by simpa using hn⟩, rfl⟩
  | item c =>
    simp only [hk] at h
    cases h
    simp
  | plain =>
    simp only [hk] at h
    cases h
    simp

theorem attrValidatorIssues_isOk {cv : CustomValidators} {sch : Schema} {m : Model} {it : Item}
    {a : AttrSpec} (hs : ShapeOK it a)
    (hc : a.validator = .megacomplexes → ∃ x, findColl m "megacomplex" = some x) :
    ∃ r, attrValidatorIssues cv sch m it a = .ok r := by
  unfold attrValidatorIssues
  cases hv : a.validator with
  | none => simp
  | megacomplexes =>
    obtain ⟨x, hx⟩ := hc hv
    simp only [megacomplexValidator]
    rcases hs.2.1 hv with h | ⟨ls, h⟩
    · simp [h]
    · simp [h, hx]
  | sameLength as =>
    obtain ⟨lens, hl⟩ := collectM_isOk (f := lenOf it) (l := as) (fun x hx => hs.2.2 as hv x hx)
    simp [hl]
  | custom n => simp

/-- the validators never produce "missing item" / "missing parameter" issues -/
theorem megacomplexIssues_kind {sch : Schema} {mcs : List Item} {i : Issue}
    (h : i ∈ megacomplexIssues sch mcs) :
    (∃ l t, i = .exclusive l t) ∨ (∃ l t, i = .unique l t) := by
  simp only [megacomplexIssues, List.mem_flatMap, List.mem_append] at h
  obtain ⟨mc, _, h | h⟩ := h
  · split at h
    · simp at h; exact Or.inl ⟨_, _, h⟩
    · cases h
  · split at h
    · simp at h; exact Or.inr ⟨_, _, h⟩
    · cases h

theorem attrValidatorIssues_kind {cv : CustomValidators} {sch : Schema} {m : Model} {it : Item}
    {a : AttrSpec} {r : List Issue} (h : attrValidatorIssues cv sch m it a = .ok r) {i : Issue}
    (hi : i ∈ r) : (∀ c l, i ≠ .missingItem c l) ∧ (∀ l, i ≠ .missingParam l) := by
  unfold attrValidatorIssues at h
  cases hv : a.validator with
  | none => simp only [hv] at h; cases h; cases hi
  | megacomplexes =>
    simp only [hv, megacomplexValidator] at h
    split at h
    · cases h; cases hi
    · split at h
      · cases h
      · cases h
        rcases megacomplexIssues_kind hi with ⟨l, t, rfl⟩ | ⟨l, t, rfl⟩ <;> simp
    · cases h
  | sameLength as =>
    simp only [hv] at h
    split at h
    · cases h
    · cases h
      split at hi
      · cases hi
      · simp at hi; subst hi; simp
  | custom n =>
    simp only [hv] at h
    cases h
    simp only [List.mem_map] at hi
    obtain ⟨x, _, rfl⟩ := hi
    simp

/-! ### items -/

/-- decomposition of `get_item_issues` -/
theorem itemIssues_ok {cv : CustomValidators} {sch : Schema} {m : Model}
    {ps : Option (List String)} {it : Item} {r : List Issue}
    (h : itemIssues cv sch m ps it = .ok r) :
    ∃ i1 i2 i3,
      collectM (attrItemIssues m it) (specOf sch it.spec).attrs = .ok i1 ∧
      collectM (attrValidatorIssues cv sch m it) (specOf sch it.spec).attrs = .ok i2 ∧
      (match ps with
        | none => i3 = []
        | some P => collectM (attrParamIssues P it) (specOf sch it.spec).attrs = .ok i3) ∧
      r = i1 ++ i2 ++ i3 := by
  simp only [itemIssues] at h
  split at h
  · cases h
  · rename_i i1 h1
    split at h
    · cases h
    · rename_i i2 h2
      cases ps with
      | none =>
        simp only at h
        cases h
        exact ⟨i1, i2, [], h1, h2, rfl, by simp⟩
      | some P =>
        simp only at h
        split at h
        · cases h
        · rename_i i3 h3
          cases h
          exact ⟨i1, i2, i3, h1, h2, h3, rfl⟩

theorem itemIssues_isOk {cv : CustomValidators} {sch : Schema} {m : Model}
    {ps : Option (List String)} {it : Item}
    (hs : ∀ a ∈ (specOf sch it.spec).attrs, ShapeOK it a)
    (hc : ∀ a ∈ (specOf sch it.spec).attrs,
      (∀ c, a.kind = .item c → ∃ x, findColl m c = some x) ∧
      (a.validator = .megacomplexes → ∃ x, findColl m "megacomplex" = some x)) :
    ∃ r, itemIssues cv sch m ps it = .ok r := by
  obtain ⟨i1, h1⟩ := collectM_isOk (f := attrItemIssues m it)
    (fun a ha => attrItemIssues_isOk (hs a ha) (hc a ha).1)
  obtain ⟨i2, h2⟩ := collectM_isOk (f := attrValidatorIssues cv sch m it)
    (fun a ha => attrValidatorIssues_isOk (hs a ha) (hc a ha).2)
  cases ps with
  | none => exact ⟨i1 ++ i2, by simp [itemIssues, h1, h2]⟩
  | some P =>
    obtain ⟨i3, h3⟩ := collectM_isOk (f := attrParamIssues P it)
      (fun a ha => attrParamIssues_isOk (hs a ha))
    exact ⟨i1 ++ i2 ++ i3, by simp [itemIssues, h1, h2, h3]⟩

/-! ### exclusive / unique -/

/-- the rule of `get_megacomplex_issues`, as a specification -/
def ExclusiveUniqueOK (sch : Schema) (mcs : List Item) : Prop :=
  ∀ mc ∈ mcs,
    ((specOf sch mc.spec).exclusive = true → mcs.length ≤ 1) ∧
    ((specOf sch mc.spec).unique = true →
      (mcs.filter (fun x => x.spec = mc.spec)).length ≤ 1)

theorem megacomplexIssues_nil_iff (sch : Schema) (mcs : List Item) :
    megacomplexIssues sch mcs = [] ↔ ExclusiveUniqueOK sch mcs := by
  simp only [megacomplexIssues, List.flatMap_eq_nil_iff, List.append_eq_nil_iff, ExclusiveUniqueOK]
  constructor
  · intro h mc hmc
    obtain ⟨h1, h2⟩ := h mc hmc
    constructor
    · intro he
      by_cases hl : mcs.length > 1
      · simp [he, hl] at h1
      · omega
    · intro hu
      by_cases hl : (mcs.filter (fun x => x.spec = mc.spec)).length > 1
      · simp [hu, hl] at h2
      · omega
  · intro h mc hmc
    obtain ⟨h1, h2⟩ := h mc hmc
    constructor
    · split
      · rename_i hc
        simp only [Bool.and_eq_true, decide_eq_true_eq] at hc
        have := h1 hc.1
        omega
      · rfl
    · split
      · rename_i hc
        simp only [Bool.and_eq_true, decide_eq_true_eq] at hc
        have := h2 hc.1
        omega
      · rfl

/-! ### schema-level checks (decided on the generated table) -/

def schemaClosed (sch : Schema) (colls : List String) : Bool :=
  sch.all fun s => s.attrs.all fun a =>
    (match a.kind with
      | .item c => colls.contains c
      | _ => true) &&
    (match a.validator with
      | .megacomplexes => colls.contains "megacomplex"
      | _ => true)

theorem specOf_mem_or_empty (sch : Schema) (key : String) :
    specOf sch key ∈ sch ∨ (specOf sch key).attrs = [] := by
  unfold specOf
  cases h : sch.find? (fun s => s.key = key) with
  | some s => exact Or.inl (List.mem_of_find?_eq_some h)
  | none => exact Or.inr rfl

theorem closed_of_schemaClosed {sch : Schema} {colls : List String} {m : Model}
    (h : schemaClosed sch colls = true) (hm : ∀ c ∈ colls, ∃ x, findColl m c = some x) :
    Closed sch m := by
  intro it _ a ha
  rcases specOf_mem_or_empty sch it.spec with hs | hs
  · simp only [schemaClosed, List.all_eq_true, Bool.and_eq_true] at h
    obtain ⟨h1, h2⟩ := h _ hs a ha
    constructor
    · intro c hk
      rw [hk] at h1
      exact hm c (by simpa using h1)
    · intro hv
      rw [hv] at h2
      exact hm "megacomplex" (by simpa using h2)
  · rw [hs] at ha; cases ha

/-- keyed collections of the generated model class -/
def Generated.keyed : List String :=
  (Generated.collections.filter (·.2)).map (·.1)

/-- a rank of collections that decreases along every item reference of the schema -/
def schemaRanked (sch : Schema) (rk : String → Nat) : Bool :=
  sch.all fun s => s.attrs.all fun a =>
    match a.kind with
    | .item c => decide (rk c < rk s.coll)
    | _ => true

def rankOf (tbl : List (String × Nat)) (c : String) : Nat :=
  match tbl.find? (fun p => p.1 = c) with
  | some p => p.2
  | none => 0

end Glotaran.C20
