/-
C04 — bridge between the model's index functions / lists and Mathlib's `Matrix (Fin n) (Fin n) ℝ`;
denotation of the concentration terms.
-/
import GlotaranProofs.Lemmas.C04
import GlotaranProofs.Lemmas.C04Exp
import GlotaranProofs.Lemmas.C04Seq
import GlotaranProofs.Lemmas.C04Red
import GlotaranProofs.Lemmas.C04Mega
namespace Glotaran.C04

open Matrix

/-- the `n × n` real matrix tabulated from an index function -/
def toMat (n : ℕ) (f : ℕ → ℕ → ℝ) : Matrix (Fin n) (Fin n) ℝ := Matrix.of fun i j => f i j
/-- the vector of the first `n` values of an index function -/
def toVec (n : ℕ) (v : ℕ → ℝ) : Fin n → ℝ := fun i => v i

/-- denotation of a printed term `[(coefficient, exponent), …]`: `Σ coefficient · exp(exponent)` -/
noncomputable def evalTerm (t : List (ℝ × ℝ)) : ℝ := (t.map fun p => p.1 * Real.exp p.2).sum

theorem evalTerm_concTerm (rs : List ℝ) (A : ℕ → ℕ → ℝ) (t : ℝ) (c : ℕ) :
    evalTerm (concTerm rs A t c)
      = ∑ l ∈ Finset.range rs.length, A l c * Real.exp ((- listFn rs l) * t) := by
  simp [evalTerm, concTerm, List.map_map, Function.comp_def, sum_map_range]

theorem listFn_map_neg (xs : List ℝ) (l : ℕ) : listFn (xs.map fun x => -x) l = - listFn xs l := by
  simp only [listFn, List.getD_eq_getElem?_getD, List.getElem?_map]
  cases xs[l]? <;> simp

theorem toMat_mul_apply (n : ℕ) (A B : ℕ → ℕ → ℝ) (i j : Fin n) :
    (toMat n A * toMat n B) i j = matMulAt n A B i j := by
  rw [matMulAt_eq, Matrix.mul_apply, Finset.sum_range]
  rfl

theorem toMat_mulVec_apply (n : ℕ) (A : ℕ → ℕ → ℝ) (v : ℕ → ℝ) (i : Fin n) :
    (toMat n A *ᵥ toVec n v) i = mulVecAt n A v i := by
  rw [mulVecAt_eq, Matrix.mulVec, dotProduct, Finset.sum_range]
  rfl

/-- the entrywise eigen certificate is `K V = V diag λ` -/
theorem toMat_eigen (n : ℕ) (K V : ℕ → ℕ → ℝ) (lam : ℕ → ℝ)
    (h : ∀ i < n, ∀ l < n, matMulAt n K V i l = V i l * lam l) :
    toMat n K * toMat n V = toMat n V * diagonal (toVec n lam) := by
  ext i l
  rw [toMat_mul_apply, h i i.2 l l.2, Matrix.mul_diagonal]
  rfl

theorem toMat_solve (n : ℕ) (V : ℕ → ℕ → ℝ) (g j : ℕ → ℝ)
    (h : ∀ i < n, mulVecAt n V g i = j i) : toMat n V *ᵥ toVec n g = toVec n j := by
  ext i
  rw [toMat_mulVec_apply, h i i.2]
  rfl

end Glotaran.C04
