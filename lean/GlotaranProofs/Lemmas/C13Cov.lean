/-
C13 — the covariance matrix: `Vᵀ · diag(a) · V` ("sandwich") algebra over ℚ with Mathlib matrices,
the Penrose conditions, and the bridge from the list model `covarianceWith` to `Matrix`.
-/
import GlotaranModel.C13
import Mathlib.Data.Matrix.Mul
import Mathlib.Data.Matrix.Diagonal
import Mathlib.Algebra.BigOperators.Fin
import Mathlib.Algebra.Order.BigOperators.Ring.Finset
import Mathlib.Algebra.Order.Ring.Rat
import Mathlib.Tactic.Ring
import Mathlib.Tactic.Linarith
import Mathlib.Tactic.FieldSimp
import Mathlib.Tactic.NoncommRing
set_option linter.unusedSectionVars false
namespace Glotaran.C13
open Matrix Glotaran.LinAlg

section abstract
variable {r n m : Type} [Fintype r] [Fintype n] [Fintype m] [DecidableEq r] [DecidableEq n] [DecidableEq m]

/-- `Vᵀ · diag(a) · V` -/
def sandwich (V : Matrix r n ℚ) (a : r → ℚ) : Matrix n n ℚ := Vᵀ * diagonal a * V

theorem sandwich_apply (V : Matrix r n ℚ) (a : r → ℚ) (i j : n) :
    sandwich V a i j = ∑ k, V k i * a k * V k j := by
  unfold sandwich
  rw [Matrix.mul_apply]
  simp only [Matrix.mul_diagonal, Matrix.transpose_apply]

theorem sandwich_transpose (V : Matrix r n ℚ) (a : r → ℚ) : (sandwich V a)ᵀ = sandwich V a := by
  ext i j
  rw [Matrix.transpose_apply, sandwich_apply, sandwich_apply]
  exact Finset.sum_congr rfl (fun k _ => by ring)

/-- rows of `V` orthonormal: products of sandwiches are sandwiches of the pointwise products -/
theorem sandwich_mul (V : Matrix r n ℚ) (hV : V * Vᵀ = 1) (a b : r → ℚ) :
    sandwich V a * sandwich V b = sandwich V (fun k => a k * b k) := by
  unfold sandwich
  calc Vᵀ * diagonal a * V * (Vᵀ * diagonal b * V)
      = Vᵀ * diagonal a * (V * Vᵀ) * diagonal b * V := by simp only [Matrix.mul_assoc]
    _ = Vᵀ * (diagonal a * diagonal b) * V := by rw [hV]; simp only [Matrix.mul_one, Matrix.mul_assoc]
    _ = Vᵀ * diagonal (fun k => a k * b k) * V := by rw [Matrix.diagonal_mul_diagonal]

/-- the quadratic form of a sandwich is a weighted sum of squares -/
theorem sandwich_quadratic (V : Matrix r n ℚ) (a : r → ℚ) (x : n → ℚ) :
    x ⬝ᵥ (sandwich V a *ᵥ x) = ∑ k, a k * ((V *ᵥ x) k * (V *ᵥ x) k) := by
  have h1 : sandwich V a *ᵥ x = Vᵀ *ᵥ (diagonal a *ᵥ (V *ᵥ x)) := by
    simp [sandwich, Matrix.mulVec_mulVec, Matrix.mul_assoc]
  rw [h1, Matrix.dotProduct_mulVec, Matrix.vecMul_transpose]
  simp only [dotProduct, Matrix.mulVec_diagonal]
  exact Finset.sum_congr rfl (fun k _ => by ring)

theorem sandwich_psd (V : Matrix r n ℚ) (a : r → ℚ) (ha : ∀ k, 0 ≤ a k) (x : n → ℚ) :
    0 ≤ x ⬝ᵥ (sandwich V a *ᵥ x) := by
  rw [sandwich_quadratic]
  exact Finset.sum_nonneg (fun k _ => mul_nonneg (ha k) (mul_self_nonneg _))

/-- `J = U · diag(s) · V` with orthonormal columns of `U`: `JᵀJ = Vᵀ · diag(s²) · V` -/
theorem jtj_sandwich (U : Matrix m r ℚ) (V : Matrix r n ℚ) (s : r → ℚ) (hU : Uᵀ * U = 1) :
    (U * diagonal s * V)ᵀ * (U * diagonal s * V) = sandwich V (fun k => s k * s k) := by
  unfold sandwich
  calc (U * diagonal s * V)ᵀ * (U * diagonal s * V)
      = Vᵀ * diagonal s * (Uᵀ * U) * diagonal s * V := by
        simp only [Matrix.transpose_mul, Matrix.diagonal_transpose, Matrix.mul_assoc]
    _ = Vᵀ * (diagonal s * diagonal s) * V := by rw [hU]; simp only [Matrix.mul_one, Matrix.mul_assoc]
    _ = Vᵀ * diagonal (fun k => s k * s k) * V := by rw [Matrix.diagonal_mul_diagonal]

/-- with orthonormal rows of `V` the diagonal can be read back from the sandwich -/
theorem sandwich_injective (V : Matrix r n ℚ) (hV : V * Vᵀ = 1) (a b : r → ℚ)
    (h : sandwich V a = sandwich V b) : a = b := by
  have key : ∀ a : r → ℚ, V * sandwich V a * Vᵀ = diagonal a := by
    intro a
    unfold sandwich
    calc V * (Vᵀ * diagonal a * V) * Vᵀ = (V * Vᵀ) * diagonal a * (V * Vᵀ) := by
          simp only [Matrix.mul_assoc]
      _ = diagonal a := by rw [hV]; simp
  have h2 := key a
  rw [h, key b] at h2
  exact (Matrix.diagonal_injective h2).symm

/-- the four Penrose conditions: `C` is a Moore–Penrose pseudo-inverse of `A` -/
def IsPinv (A C : Matrix n n ℚ) : Prop :=
  A * C * A = A ∧ C * A * C = C ∧ (A * C)ᵀ = A * C ∧ (C * A)ᵀ = C * A

/-- the pseudo-inverse is unique -/
theorem isPinv_unique (A B C : Matrix n n ℚ) (hB : IsPinv A B) (hC : IsPinv A C) : B = C := by
  obtain ⟨b1, b2, b3, b4⟩ := hB
  obtain ⟨c1, c2, c3, c4⟩ := hC
  have e1 : A * B = A * C := by
    calc A * B = (A * B)ᵀ := b3.symm
      _ = Bᵀ * Aᵀ := Matrix.transpose_mul _ _
      _ = Bᵀ * (A * C * A)ᵀ := by rw [c1]
      _ = (A * B)ᵀ * (A * C)ᵀ := by simp only [Matrix.transpose_mul, Matrix.mul_assoc]
      _ = A * B * (A * C) := by rw [b3, c3]
      _ = A * B * A * C := by simp only [Matrix.mul_assoc]
      _ = A * C := by rw [b1]
  have e2 : B * A = C * A := by
    calc B * A = (B * A)ᵀ := b4.symm
      _ = Aᵀ * Bᵀ := Matrix.transpose_mul _ _
      _ = (A * C * A)ᵀ * Bᵀ := by rw [c1]
      _ = (C * A)ᵀ * (B * A)ᵀ := by simp only [Matrix.transpose_mul, Matrix.mul_assoc]
      _ = C * A * (B * A) := by rw [b4, c4]
      _ = C * (A * B * A) := by simp only [Matrix.mul_assoc]
      _ = C * A := by rw [b1]
  calc B = B * A * B := b2.symm
    _ = C * A * B := by rw [e2]
    _ = C * (A * B) := Matrix.mul_assoc _ _ _
    _ = C * (A * C) := by rw [e1]
    _ = C * A * C := (Matrix.mul_assoc _ _ _).symm
    _ = C := c2

/-- weight of a singular value in the covariance: `1/s²` if kept, else `0` -/
def cw (keep : ℚ → Bool) (s : ℚ) : ℚ := if keep s then 1 / (s * s) else 0

/-- squared singular value if kept, else `0` -/
def tw (keep : ℚ → Bool) (s : ℚ) : ℚ := if keep s then s * s else 0

theorem cw_nonneg (keep : ℚ → Bool) (s : ℚ) : 0 ≤ cw keep s := by
  unfold cw; split
  · exact div_nonneg zero_le_one (mul_self_nonneg s)
  · exact le_refl 0

/-- **`Vᵀ diag(mask/s²) V` is the pseudo-inverse of the truncated `Vᵀ diag(mask·s²) V`** whenever the rows of `V`
    are orthonormal and no kept singular value is zero -/
theorem sandwich_isPinv (V : Matrix r n ℚ) (hV : V * Vᵀ = 1) (s : r → ℚ) (keep : ℚ → Bool)
    (hk : ∀ k, keep (s k) = true → s k ≠ 0) :
    IsPinv (sandwich V (fun k => tw keep (s k))) (sandwich V (fun k => cw keep (s k))) := by
  have p1 : ∀ k, tw keep (s k) * cw keep (s k) * tw keep (s k) = tw keep (s k) := by
    intro k; unfold tw cw
    by_cases h : keep (s k) = true
    · have := hk k h; simp only [h, if_true]; field_simp
    · simp [h]
  have p2 : ∀ k, cw keep (s k) * tw keep (s k) * cw keep (s k) = cw keep (s k) := by
    intro k; unfold tw cw
    by_cases h : keep (s k) = true
    · have := hk k h; simp only [h, if_true]; field_simp
    · simp [h]
  refine ⟨?_, ?_, ?_, ?_⟩
  · rw [sandwich_mul V hV, sandwich_mul V hV]; congr 1; funext k; exact p1 k
  · rw [sandwich_mul V hV, sandwich_mul V hV]; congr 1; funext k; exact p2 k
  · rw [sandwich_mul V hV, sandwich_transpose]
  · rw [sandwich_mul V hV, sandwich_transpose]

/-- nothing is truncated when every non-zero singular value is kept -/
theorem tw_eq_sq (s : r → ℚ) (keep : ℚ → Bool) (hall : ∀ k, s k ≠ 0 → keep (s k) = true) :
    (fun k => tw keep (s k)) = fun k => s k * s k := by
  funext k; unfold tw
  by_cases h : s k = 0
  · simp [h]
  · simp [hall k h]

end abstract

/-! ### bridge: the list model as a `Matrix` -/

/-- the singular values that have a row of `Vt` (numpy returns equally many of both) -/
def sigmaFn (sv : Vec) (vt : Mat) : Fin (sv.zip vt).length → ℚ := fun k => ((sv.zip vt)[k]).1

/-- `Vt` as a matrix with `n` columns (entries past a short row read as `0`) -/
def vtMatrix (sv : Vec) (vt : Mat) (n : Nat) : Matrix (Fin (sv.zip vt).length) (Fin n) ℚ :=
  fun k i => ((sv.zip vt)[k]).2.getD i 0

theorem sum_filter_map {α} (l : List α) (p : α → Bool) (f : α → ℚ) :
    ((l.filter p).map f).sum = (l.map (fun a => if p a then f a else 0)).sum := by
  induction l with
  | nil => rfl
  | cons a l ih =>
    by_cases h : p a = true
    · simp [h, ih]
    · simp [h, ih]

theorem sum_map_eq_finsum {α} (l : List α) (f : α → ℚ) :
    (l.map f).sum = ∑ k : Fin l.length, f l[k] := by
  induction l with
  | nil => simp
  | cons a l ih =>
    rw [List.map_cons, List.sum_cons, ih]
    simp [Fin.sum_univ_succ]

/-- **entry (i, j) of the model's covariance matrix is entry (i, j) of `Vᵀ · diag(mask/s²) · V`** -/
theorem covarianceWith_entry (keep : ℚ → Bool) (sv : Vec) (vt : Mat) (n : Nat) (i j : Fin n) :
    ((covarianceWith keep sv vt n).getD i []).getD j 0 =
      sandwich (vtMatrix sv vt n) (fun k => cw keep (sigmaFn sv vt k)) i j := by
  have hi : (i : Nat) < n := i.2
  have hj : (j : Nat) < n := j.2
  simp only [covarianceWith, keptRows, List.getD_eq_getElem?_getD, List.getElem?_map,
    List.getElem?_range hi, List.getElem?_range hj, Option.map_some, Option.getD_some]
  rw [sum_filter_map, sum_map_eq_finsum, sandwich_apply]
  apply Finset.sum_congr rfl
  intro k _
  simp only [vtMatrix, sigmaFn, cw, List.getD_eq_getElem?_getD, Fin.getElem_fin]
  by_cases h : keep (sv.zip vt)[(k : Nat)].1 = true
  · simp only [h, if_true]; ring
  · simp only [h]; simp

/-! ### the cut-off -/

theorem foldl_maxstep_ge (l : Vec) (a : ℚ) : a ≤ l.foldl (fun a b => if a < b then b else a) a := by
  induction l generalizing a with
  | nil => exact le_refl a
  | cons b l ih =>
    simp only [List.foldl_cons]
    by_cases h : a < b
    · simp only [h, if_true]; exact le_trans (le_of_lt h) (ih b)
    · simp only [h, if_false]; exact ih a

theorem svMax_nonneg (sv : Vec) : 0 ≤ svMax sv := foldl_maxstep_ge sv 0

theorem machEps_pos : 0 < machEps := by unfold machEps; norm_num

theorem threshold_nonneg (sv : Vec) (m n : Nat) : 0 ≤ threshold sv m n := by
  unfold threshold
  exact mul_nonneg (mul_nonneg (le_of_lt machEps_pos) (Nat.cast_nonneg _)) (svMax_nonneg sv)

/-- a singular value that passes `s > threshold` is not zero -/
theorem kept_ne_zero (sv : Vec) (m n : Nat) (s : ℚ) (h : decide (s > threshold sv m n) = true) : s ≠ 0 := by
  have h' : threshold sv m n < s := by simpa using h
  have := threshold_nonneg sv m n
  exact ne_of_gt (lt_of_le_of_lt this h')

theorem foldl_maxstep_scale (c : ℚ) (hc : 0 < c) (l : Vec) (a : ℚ) :
    (l.map (c * ·)).foldl (fun a b => if a < b then b else a) (c * a) =
      c * l.foldl (fun a b => if a < b then b else a) a := by
  induction l generalizing a with
  | nil => rfl
  | cons b l ih =>
    simp only [List.map_cons, List.foldl_cons]
    by_cases h : a < b
    · have : c * a < c * b := mul_lt_mul_of_pos_left h hc
      simp only [h, this, if_true]; exact ih b
    · have : ¬ c * a < c * b := fun h' => h (lt_of_mul_lt_mul_left h' (le_of_lt hc))
      simp only [h, this, if_false]; exact ih a

theorem svMax_scale (c : ℚ) (hc : 0 < c) (sv : Vec) : svMax (sv.map (c * ·)) = c * svMax sv := by
  have := foldl_maxstep_scale c hc sv 0
  simpa [svMax] using this

theorem threshold_scale (c : ℚ) (hc : 0 < c) (sv : Vec) (m n : Nat) :
    threshold (sv.map (c * ·)) m n = c * threshold sv m n := by
  unfold threshold; rw [svMax_scale c hc]; ring

theorem sum_map_mul_left (l : List (ℚ × Vec)) (f : ℚ × Vec → ℚ) (a : ℚ) :
    (l.map (fun p => a * f p)).sum = a * (l.map f).sum := by
  induction l with
  | nil => simp
  | cons p l ih => simp only [List.map_cons, List.sum_cons, ih]; ring

/-- rescaling the singular values by `c > 0` (the Jacobian, i.e. the data, by `c`) rescales every entry of the
    covariance matrix by `1/c²`: the mask does not change -/
theorem covariance_scale (c : ℚ) (hc : 0 < c) (sv : Vec) (vt : Mat) (m n : Nat) :
    covariance (sv.map (c * ·)) vt m n =
      (covariance sv vt m n).map (fun row => row.map (fun x => 1 / (c * c) * x)) := by
  have hk : keptRows (fun s => decide (s > threshold (sv.map (c * ·)) m n)) (sv.map (c * ·)) vt =
      (keptRows (fun s => decide (s > threshold sv m n)) sv vt).map (fun p => (c * p.1, p.2)) := by
    unfold keptRows
    rw [threshold_scale c hc, List.zip_map_left, List.filter_map]
    congr 1
    apply List.filter_congr
    intro p _
    simp only [Function.comp, Prod.map_fst, gt_iff_lt, decide_eq_decide]
    constructor
    · intro h; exact lt_of_mul_lt_mul_left h (le_of_lt hc)
    · intro h; exact mul_lt_mul_of_pos_left h hc
  unfold covariance covarianceWith
  simp only [hk, List.map_map]
  apply List.map_congr_left
  intro i _
  simp only [Function.comp, List.map_map]
  apply List.map_congr_left
  intro j _
  simp only [Function.comp]
  rw [← sum_map_mul_left]
  congr 1
  apply List.map_congr_left
  intro p _
  have hc' : c ≠ 0 := ne_of_gt hc
  show List.getD p.2 i 0 / (c * p.1 * (c * p.1)) * List.getD p.2 j 0 =
    1 / (c * c) * (List.getD p.2 i 0 / (p.1 * p.1) * List.getD p.2 j 0)
  by_cases hp : p.1 = 0
  · simp [hp]
  · field_simp

end Glotaran.C13
