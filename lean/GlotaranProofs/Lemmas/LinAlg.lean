/-
List-level linear algebra lemmas about `Glotaran.LinAlg` (dot products as sums, associativity
of `matMul`/`mulVec`, masks).  Helper lemmas only.
-/
import GlotaranModel.LinAlg
import Mathlib.Tactic.Ring
namespace Glotaran.LinAlg

/-! ### `dot` -/

theorem foldl_add_acc (l : List Rat) (a : Rat) : l.foldl (· + ·) a = a + l.foldl (· + ·) 0 := by
  induction l generalizing a with
  | nil => simp
  | cons x t ih =>
    simp only [List.foldl_cons]
    rw [ih (a + x), ih (0 + x)]
    ring

@[simp] theorem dot_nil_left (v : Vec) : dot [] v = 0 := by simp [dot]
@[simp] theorem dot_nil_right (v : Vec) : dot v [] = 0 := by simp [dot]

theorem dot_cons (a b : Rat) (r v : Vec) : dot (a :: r) (b :: v) = a * b + dot r v := by
  simp only [dot, List.zipWith_cons_cons, List.foldl_cons]
  rw [foldl_add_acc]
  ring

theorem dot_zeros_left (n : Nat) (v : Vec) : dot (zeros n) v = 0 := by
  induction n generalizing v with
  | zero => simp [zeros]
  | succ n ih =>
    cases v with
    | nil => simp
    | cons b v =>
      have : zeros (n + 1) = 0 :: zeros n := by simp [zeros, List.replicate_succ]
      rw [this, dot_cons, ih]; ring

theorem dot_vadd (p q v : Vec) (h : p.length = q.length) :
    dot (vadd p q) v = dot p v + dot q v := by
  induction p generalizing q v with
  | nil =>
    cases q with
    | nil => simp [vadd]
    | cons _ _ => simp at h
  | cons a p ih =>
    cases q with
    | nil => simp at h
    | cons b q =>
      cases v with
      | nil => simp
      | cons c v =>
        have hl : p.length = q.length := by simpa using h
        have : vadd (a :: p) (b :: q) = (a + b) :: vadd p q := by simp [vadd]
        rw [this, dot_cons, dot_cons, dot_cons, ih q v hl]
        ring

theorem dot_vscale (k : Rat) (p v : Vec) : dot (vscale k p) v = k * dot p v := by
  induction p generalizing v with
  | nil => simp [vscale]
  | cons a p ih =>
    cases v with
    | nil => simp
    | cons c v =>
      have : vscale k (a :: p) = (k * a) :: vscale k p := by simp [vscale]
      rw [this, dot_cons, dot_cons, ih]
      ring

/-- replacing one entry of the left factor -/
theorem dot_set (r w : Vec) (j : Nat) (v : Rat) (hj : j < r.length) :
    dot (r.set j v) w = dot r w + (v - r.getD j 0) * w.getD j 0 := by
  induction r generalizing j w with
  | nil => simp at hj
  | cons a r ih =>
    cases w with
    | nil => simp
    | cons b w =>
      cases j with
      | zero => simp [dot_cons]; ring
      | succ j =>
        have hj' : j < r.length := by simpa using hj
        simp only [List.set_cons_succ, dot_cons, ih w j hj', List.getD_cons_succ]
        ring

/-! ### `col`, `transpose`, `matMul` -/

theorem map_getD_range (b : Vec) : (List.range b.length).map (fun j => b.getD j 0) = b := by
  apply List.ext_getElem
  · simp
  · intro i h1 h2
    simp at h1
    simp [List.getD_eq_getElem?_getD, h1]

theorem col_cons (b : Vec) (B : Mat) (j : Nat) : col (b :: B) j = b.getD j 0 :: col B j := by
  simp [col]

/-- `(r · B) · v = r · (B v)` for a list-of-rows matrix whose rows have length `k` -/
theorem dot_transpose_assoc (B : Mat) (k : Nat) (hB : ∀ b ∈ B, b.length = k) (r v : Vec) :
    dot ((transpose B k).map (fun c => dot r c)) v = dot r (mulVec B v) := by
  induction B generalizing r with
  | nil =>
    have : (transpose [] k).map (fun c => dot r c) = zeros k := by
      simp only [transpose, zeros]
      apply List.ext_getElem
      · simp
      · intro i h1 h2
        simp [col]
    rw [this, dot_zeros_left]; simp [mulVec]
  | cons b B ih =>
    cases r with
    | nil =>
      have : (transpose (b :: B) k).map (fun c => dot [] c) = zeros k := by
        simp [transpose, zeros]
        apply List.ext_getElem <;> simp
      rw [this, dot_zeros_left]; simp
    | cons a r =>
      have hb : b.length = k := hB b (by simp)
      have hB' : ∀ b' ∈ B, b'.length = k := fun b' h => hB b' (by simp [h])
      have : (transpose (b :: B) k).map (fun c => dot (a :: r) c) =
          vadd (vscale a b) ((transpose B k).map (fun c => dot r c)) := by
        subst hb
        apply List.ext_getElem
        · simp [transpose, vadd, vscale]
        · intro i h1 h2
          simp [transpose] at h1
          simp [transpose, vadd, vscale, col_cons, dot_cons, List.getD_eq_getElem?_getD, h1]
      rw [this, dot_vadd _ _ _ (by simp [vscale, transpose, hb]), dot_vscale, ih hB' r]
      simp [mulVec, dot_cons]

theorem mulVec_matMul (A B : Mat) (k : Nat) (hB : ∀ b ∈ B, b.length = k) (v : Vec) :
    mulVec (matMul A B k) v = mulVec A (mulVec B v) := by
  simp only [mulVec, matMul, List.map_map]
  apply List.map_congr_left
  intro r _
  exact dot_transpose_assoc B k hB r v

theorem matMul_length (A B : Mat) (k : Nat) : (matMul A B k).length = A.length := by
  simp [matMul]

theorem matMul_row_length (A B : Mat) (k : Nat) : ∀ r ∈ matMul A B k, r.length = k := by
  intro r hr
  simp only [matMul, List.mem_map] at hr
  obtain ⟨_, _, rfl⟩ := hr
  simp [transpose]

/-! ### identity rows -/

def idRow (n i : Nat) : Vec := (List.range n).map (fun j => if i = j then 1 else 0)

theorem idRow_length (n i : Nat) : (idRow n i).length = n := by simp [idRow]

theorem idRow_getD (n i j : Nat) (h : i ≠ j) : (idRow n i).getD j 0 = 0 := by
  simp only [idRow, List.getD_eq_getElem?_getD, List.getElem?_map]
  by_cases hj : j < n
  · simp [List.getElem?_range hj, h]
  · simp [List.getElem?_eq_none (l := List.range n) (by simpa using hj)]

theorem dot_range'_ite (s n i : Nat) (w : Vec) (hi : s ≤ i) (hi2 : i < s + n) :
    dot ((List.range' s n).map (fun j => if i = j then (1 : Rat) else 0)) w = w.getD (i - s) 0 := by
  induction n generalizing s w with
  | zero => omega
  | succ n ih =>
    cases w with
    | nil => simp
    | cons b w =>
      simp only [List.range'_succ, List.map_cons, dot_cons]
      by_cases h : i = s
      · subst h
        -- the rest is a zero vector
        have hz : (List.range' (i + 1) n).map (fun j => if i = j then (1 : Rat) else 0) = zeros n := by
          apply List.ext_getElem
          · simp [zeros]
          · intro k h1 h2
            simp at h1
            simp [zeros]
            omega
        rw [hz, dot_zeros_left]; simp
      · have h1 : s + 1 ≤ i := by omega
        rw [ih (s + 1) w h1 (by omega)]
        have : i - s = (i - (s + 1)) + 1 := by omega
        rw [this, List.getD_cons_succ]
        simp [h]

theorem dot_idRow (n i : Nat) (w : Vec) (hi : i < n) : dot (idRow n i) w = w.getD i 0 := by
  have := dot_range'_ite 0 n i w (Nat.zero_le _) (by omega)
  simpa [idRow, List.range_eq_range'] using this

/-! ### masks: picking and expanding -/

/-- inverse of picking by a mask: entries of `c` at the kept positions, `0` elsewhere -/
def expandMask : List Bool → Vec → Vec
  | [], _ => []
  | true :: ks, c => c.headD 0 :: expandMask ks c.tail
  | false :: ks, c => 0 :: expandMask ks c

theorem expandMask_length (k : List Bool) (c : Vec) : (expandMask k c).length = k.length := by
  induction k generalizing c with
  | nil => simp [expandMask]
  | cons b ks ih => cases b <;> simp [expandMask, ih]

theorem expandMask_false (k : List Bool) (c : Vec) (i : Nat) (h : k[i]? = some false) :
    (expandMask k c).getD i 0 = 0 := by
  induction k generalizing c i with
  | nil => simp at h
  | cons b ks ih =>
    cases i with
    | zero =>
      simp at h; subst h; simp [expandMask]
    | succ i =>
      simp at h
      cases b
      · simpa [expandMask] using ih c i h
      · simpa [expandMask] using ih c.tail i h

end Glotaran.LinAlg
