/-
C04 — the closed-form solution of a sequential scheme (`a_matrix_sequential`): product formula over
`Finset`s, the two-term recurrence, and the Lagrange identity `Σ_i a[i,c] = δ_{c0}`.
-/
import GlotaranProofs.Lemmas.C04
import Mathlib.LinearAlgebra.Lagrange
namespace Glotaran.C04

variable {F : Type} [Field F]

theorem prod_map_filter_eq (l : List ℕ) (p : ℕ → Bool) (f : ℕ → F) :
    ((l.filter p).map f).prod = (l.map fun m => if p m then f m else 1).prod := by
  induction l with
  | nil => simp
  | cons a l ih =>
    by_cases h : p a <;> simp [h, ih]

/-- the product formula of `a_matrix_sequential` in `Finset` form (it also covers column 0) -/
theorem aSeqAt_eq (r : ℕ → F) (i j : ℕ) :
    aSeqAt r i j = if j < i then 0 else
      (∏ m ∈ Finset.range j, r m) / ∏ m ∈ (Finset.range (j + 1)).erase i, (r m - r i) := by
  have hden : (((List.range (j + 1)).filter (fun m => decide (m ≠ i))).map (fun m => r m - r i)).prod
      = ∏ m ∈ (Finset.range (j + 1)).erase i, (r m - r i) := by
    rw [prod_map_filter_eq, prod_map_range, ← Finset.filter_ne', Finset.prod_filter]
    apply Finset.prod_congr rfl
    intro m _
    by_cases h : m = i <;> simp [h]
  unfold aSeqAt
  by_cases hj : j = 0
  · subst hj
    by_cases hi : i = 0
    · subst hi; simp
    · have : 0 < i := Nat.pos_of_ne_zero hi
      simp [hi, this]
  · simp only [hj, if_false, gt_iff_lt]
    rw [hden, prod_map_range]

theorem aSeqAt_of_lt (r : ℕ → F) {i j : ℕ} (h : j < i) : aSeqAt r i j = 0 := by
  rw [aSeqAt_eq, if_pos h]

theorem aSeqAt_zero_col (r : ℕ → F) (i : ℕ) : aSeqAt r i 0 = if i = 0 then 1 else 0 := by
  simp [aSeqAt]

/-- two-term recurrence of the closed form -/
theorem aSeq_recurrence (r : ℕ → F) (i j : ℕ) (hij : i ≤ j) (hne : r (j + 1) ≠ r i) :
    aSeqAt r i (j + 1) * (r (j + 1) - r i) = r j * aSeqAt r i j := by
  rw [aSeqAt_eq, aSeqAt_eq, if_neg (by omega), if_neg (by omega)]
  have hd : r (j + 1) - r i ≠ 0 := sub_ne_zero.mpr hne
  have hins : (Finset.range (j + 1 + 1)).erase i = insert (j + 1) ((Finset.range (j + 1)).erase i) := by
    rw [Finset.range_add_one (n := j + 1), Finset.erase_insert_of_ne (by omega)]
  have hnot : j + 1 ∉ (Finset.range (j + 1)).erase i := by simp
  rw [hins, Finset.prod_insert hnot, Finset.prod_range_succ]
  field_simp

/-- Lagrange: the coefficients of column `c` sum to `δ_{c0}` (the solution starts in `e₀`) -/
theorem aSeq_colsum (r : ℕ → F) (c : ℕ) (hinj : Set.InjOn r (Finset.range (c + 1) : Set ℕ)) :
    ∑ i ∈ Finset.range (c + 1), aSeqAt r i c = if c = 0 then 1 else 0 := by
  by_cases hc : c = 0
  · subst hc; simp [aSeqAt]
  · rw [if_neg hc]
    have hv : Set.InjOn (fun m => - r m) (Finset.range (c + 1) : Set ℕ) := by
      intro a ha b hb hab
      exact hinj ha hb (neg_injective hab)
    have hdeg : (Polynomial.C (∏ m ∈ Finset.range c, r m) : Polynomial F).degree
        < (Finset.range (c + 1)).card := by
      rw [Finset.card_range]
      exact lt_of_le_of_lt Polynomial.degree_C_le (by exact_mod_cast Nat.succ_pos c)
    have h := Lagrange.coeff_eq_sum (s := Finset.range (c + 1)) (v := fun m => - r m) hv hdeg
    rw [Finset.card_range, Nat.add_sub_cancel, Polynomial.coeff_C, if_neg hc] at h
    rw [h]
    apply Finset.sum_congr rfl
    intro i hi
    rw [aSeqAt_eq, if_neg (by have := Finset.mem_range.mp hi; omega), Polynomial.eval_C]
    congr 1
    apply Finset.prod_congr rfl
    intro m _
    ring

end Glotaran.C04
