/-
C01 — the Boolean tests `isQRof` / `diagNonzero` of the executable ℚ model are the instance at `K = ℚ` of the
field-generic predicates `Abs.IsCompactQR` / `Abs.DiagNonzero` (Lemmas/C01QR.lean), for which existence over ℝ
is proved.
-/
import GlotaranProofs.Lemmas.C01
import GlotaranProofs.Lemmas.C01QR
namespace Glotaran.C01
open Glotaran.LinAlg
open scoped Matrix

theorem toV_hvec (qr : Mat) (k : Nat) (m : Nat) (hm : qr.length = m) (i : Fin m) :
    toV m (hvec qr k) i = if (i : Nat) < k then 0 else if (i : Nat) = k then 1 else (qr.getD i []).getD k 0 := by
  have hi : (i : Nat) < qr.length := by rw [hm]; exact i.isLt
  simp [toV_apply, hvec, List.getD_eq_getElem?_getD, List.getElem?_map, List.getElem?_range hi]

/-- `Qᵀ A = [R; 0]` in matrix form, from the column-by-column Boolean test -/
theorem QTm_mul_of_qrData (qr : Mat) (tau : Vec) (a : Mat) (hq : QRData qr tau a) :
    Abs.QTm ((reflectors qr tau).map (toH a.length)) * toM a.length (ncols a) a =
      toM a.length (ncols a) (rFull qr (ncols a)) := by
  set m := a.length with hm
  set n := ncols a with hn
  have hv : ∀ h ∈ reflectors qr tau, h.1.length = m := by
    intro h hh; rw [hm, ← hq.qrlen]; exact reflectors_length qr tau h hh
  have hrl : (rFull qr n).length = m := by rw [rFull_length, hq.qrlen]
  ext i j
  have hc := hq.cols j j.isLt
  have h1 : toV m (applyQT (reflectors qr tau) (col a j)) =
      Abs.QTm ((reflectors qr tau).map (toH m)) *ᵥ toV m (col a j) :=
    toV_applyQT (reflectors qr tau) (col a j) m hv (by simp [col, ← hm])
  rw [hc, toV_col a m n hm.symm j, toV_col (rFull qr n) m n hrl j] at h1
  have := congrFun h1 i
  simp only [Matrix.mulVec, dotProduct] at this
  simp only [Matrix.mul_apply]
  rw [this]

/-- **`isQRof` and `diagNonzero` are `IsCompactQR` and `DiagNonzero` at `K = ℚ`.** -/
theorem compactQR_of_isQRof (qr : Mat) (tau : Vec) (a : Mat) (hq : isQRof qr tau a = true)
    (hd : diagNonzero qr (ncols a) = true) :
    Abs.IsCompactQR (toM a.length (ncols a) a) ((reflectors qr tau).map (toH a.length))
      (toM a.length (ncols a) (rFull qr (ncols a))) ∧
    Abs.DiagNonzero (toM a.length (ncols a) (rFull qr (ncols a))) := by
  have hd' := qrData_of_isQRof qr tau a hq
  have hv : ∀ h ∈ reflectors qr tau, h.1.length = a.length := by
    intro h hh; rw [← hd'.qrlen]; exact reflectors_length qr tau h hh
  refine ⟨⟨?_, ?_, ?_, QTm_mul_of_qrData qr tau a hd', ?_⟩, ?_⟩
  · simp [reflectors, hd'.taulen]
  · intro h hh
    simp only [List.mem_map] at hh
    obtain ⟨h0, hh0, rfl⟩ := hh
    exact HOK_of_reflectorOK h0 a.length (hv h0 hh0) (hd'.ok h0 hh0)
  · intro k hk i
    have hk' : k < tau.length := by simpa [reflectors] using hk
    have e : (((reflectors qr tau).map (toH a.length))[k]).1 = toV a.length (hvec qr k) := by
      simp [reflectors, toH]
    rw [e, toV_hvec qr k a.length hd'.qrlen i]
    constructor
    · intro h; simp [h]
    · intro h; simp [h]
  · intro i j hji
    rw [toM_apply, rFull_entry qr _ i j (by rw [hd'.qrlen]; exact i.isLt) j.isLt]
    have : ¬ (i : Nat) ≤ j := by omega
    simp [this]
  · intro i j hij
    rw [toM_apply, rFull_entry qr _ i j (by rw [hd'.qrlen]; exact i.isLt) j.isLt]
    simp only [hij, le_refl, if_true]
    simp only [diagNonzero, List.all_eq_true, List.mem_range] at hd
    have := hd j j.isLt
    simpa [hij] using this

end Glotaran.C01
