/-
C10 — the evaluation programs of the optimisation objects are well defined ("every container is overwritten before it
is read") for EVERY scheme structure: any number of groups, datasets, global-axis points, aligned points, any mix of
linked / unlinked groups, full models and weights.
-/
import GlotaranProofs.Lemmas.C10
namespace Glotaran.C10

theorem wd_map {α : Type} (f : α → Instr) : ∀ (xs : List α) (D : List Loc),
    (∀ x, x ∈ xs → wellDefined D [f x] = true) → wellDefined D (xs.map f) = true := by
  intro xs
  induction xs with
  | nil => intros; rfl
  | cons x xs ih =>
    intro D h
    have : (x :: xs).map f = [f x] ++ xs.map f := rfl
    rw [this]
    apply wd_append _ _ _ (h x (List.mem_cons_self ..))
    apply wd_mono _ D _ (fun l hl => List.mem_append_right _ hl)
    exact ih D (fun y hy => h y (List.mem_cons_of_mem _ hy))

theorem defs_map_assign {α : Type} (dst : α → Loc) (f : α → String) (rs : α → List Loc) (xs : List α) :
    defs (xs.map (fun x => Instr.assign (dst x) (f x) (rs x))) = xs.map dst := by
  induction xs with
  | nil => rfl
  | cons x xs ih => simp [defs, ih]

/-! ### `set_parameters` -/

theorem defs_map_alias {α : Type} (dst : α → Loc) (f : α → String) (src : α → Loc) (xs : List α) :
    defs (xs.map (fun x => Instr.alias (dst x) (f x) (src x))) = xs.map dst := by
  induction xs with
  | nil => rfl
  | cons x xs ih => simp [defs, ih]

theorem wd_setParametersFrom (src : Loc) (hs : src ∈ paramSources) (g : Nat) (gs : GroupSpec) (D : List Loc)
    (hp : src ∈ D) : wellDefined D (setParametersFrom src g gs) = true := by
  unfold setParametersFrom
  have h1 : wellDefined D [Instr.alias (.groupParams g) "parameters" src] = true := by
    simp only [wellDefined, Bool.and_eq_true, decide_eq_true_eq, Bool.and_true]
    exact ⟨⟨by simp, hs⟩, hp⟩
  have : ∀ (l : List Instr) (i : Instr), i :: l = [i] ++ l := fun _ _ => rfl
  rw [this]
  apply wd_append _ _ _ h1
  apply wd_map
  intro d _
  simp only [wellDefined, Bool.and_eq_true, decide_eq_true_eq, Bool.and_true]
  exact ⟨⟨by simp, hs⟩, List.mem_append_right _ hp⟩

theorem wd_setParameters (g : Nat) (gs : GroupSpec) (D : List Loc) (hp : Loc.params ∈ D) :
    wellDefined D (setParameters g gs) = true :=
  wd_setParametersFrom .params (by simp [paramSources]) g gs D hp

theorem defs_setParameters (g : Nat) (gs : GroupSpec) :
    defs (setParameters g gs) = .groupParams g :: gs.datasets.map (fun d => Loc.datasetModel g d.label) := by
  unfold setParameters setParametersFrom
  simp only [defs]
  rw [defs_map_alias (fun d : DatasetSpec => Loc.datasetModel g d.label) (fun _ => "fill_item") (fun _ => Loc.params)]

theorem gp_mem_setParameters (g : Nat) (gs : GroupSpec) : Loc.groupParams g ∈ defs (setParameters g gs) := by
  rw [defs_setParameters]; exact List.mem_cons_self ..

theorem dm_mem_setParameters (g : Nat) (gs : GroupSpec) {d : DatasetSpec} (hd : d ∈ gs.datasets) :
    Loc.datasetModel g d.label ∈ defs (setParameters g gs) := by
  rw [defs_setParameters]
  exact List.mem_cons_of_mem _ (List.mem_map.mpr ⟨d, hd, rfl⟩)

/-! ### dataset matrices -/

theorem wd_datasetMatrices (g : Nat) (gs : GroupSpec) (D : List Loc)
    (hdm : ∀ d, d ∈ gs.datasets → Loc.datasetModel g d.label ∈ D) :
    wellDefined D (datasetMatrices g gs) = true := by
  unfold datasetMatrices
  apply wd_flatMap
  intro d hd
  simp [wellDefined, mem_paramSources, hdm d hd]

theorem matrix_mem_datasetMatrices (g : Nat) (gs : GroupSpec) {d : DatasetSpec} (hd : d ∈ gs.datasets) :
    Loc.matrix g d.label ∈ defs (datasetMatrices g gs) := by
  unfold datasetMatrices
  apply mem_defs_flatMap _ _ hd
  simp [defs]

/-! ### unlinked groups -/

theorem wd_globalMatrices (g : Nat) (gs : GroupSpec) (D : List Loc)
    (hdm : ∀ d, d ∈ gs.datasets → Loc.datasetModel g d.label ∈ D) :
    wellDefined D (globalMatrices g gs) = true := by
  unfold globalMatrices
  apply wd_flatMap
  intro d hd
  by_cases hf : d.full = true
  · simp [hf, wellDefined, hdm d hd]
  · simp [hf, wellDefined]

theorem gmat_mem_globalMatrices (g : Nat) (gs : GroupSpec) {d : DatasetSpec} (hd : d ∈ gs.datasets)
    (hf : d.full = true) : Loc.globalMatrix g d.label ∈ defs (globalMatrices g gs) := by
  unfold globalMatrices
  apply mem_defs_flatMap _ _ hd
  simp [hf, defs]

theorem wd_preparedMatrices (g : Nat) (gs : GroupSpec) (D : List Loc)
    (hdm : ∀ d, d ∈ gs.datasets → Loc.datasetModel g d.label ∈ D)
    (hm : ∀ d, d ∈ gs.datasets → Loc.matrix g d.label ∈ D) (hgp : Loc.groupParams g ∈ D) :
    wellDefined D (preparedMatrices g gs) = true := by
  unfold preparedMatrices
  apply wd_flatMap
  intro d hd
  by_cases hf : d.full = true
  · simp [hf, wellDefined]
  · by_cases hw : d.weighted = true
    · simp [hf, hw, wellDefined, hdm d hd, hm d hd, hgp]
    · simp [hf, hw, wellDefined, hdm d hd, hm d hd, hgp]

theorem prepared_mem_preparedMatrices (g : Nat) (gs : GroupSpec) {d : DatasetSpec} (hd : d ∈ gs.datasets)
    (hf : d.full = false) : Loc.prepared g d.label ∈ defs (preparedMatrices g gs) := by
  unfold preparedMatrices
  apply mem_defs_flatMap _ _ hd
  simp [hf, defs]

theorem wd_fullMatrices (g : Nat) (gs : GroupSpec) (D : List Loc)
    (hgm : ∀ d, d ∈ gs.datasets → d.full = true → Loc.globalMatrix g d.label ∈ D)
    (hm : ∀ d, d ∈ gs.datasets → Loc.matrix g d.label ∈ D) :
    wellDefined D (fullMatrices g gs) = true := by
  unfold fullMatrices
  apply wd_flatMap
  intro d hd
  by_cases hf : d.full = true
  · simp [hf, wellDefined, hgm d hd hf, hm d hd]
  · simp [hf, wellDefined]

theorem full_mem_fullMatrices (g : Nat) (gs : GroupSpec) {d : DatasetSpec} (hd : d ∈ gs.datasets)
    (hf : d.full = true) : Loc.fullMatrix g d.label ∈ defs (fullMatrices g gs) := by
  unfold fullMatrices
  apply mem_defs_flatMap _ _ hd
  simp [hf, defs]

theorem wd_estimationIndex (g : Nat) (d : DatasetSpec) (D : List Loc)
    (h1 : Loc.clps g d.label ∈ D) (h2 : Loc.residuals g d.label ∈ D) (h3 : Loc.prepared g d.label ∈ D)
    (h4 : Loc.matrix g d.label ∈ D) (h5 : Loc.groupParams g ∈ D) :
    wellDefined D (estimationIndex g d) = true := by
  simp [estimationIndex, wellDefined, mem_paramSources, h1, h2, h3, h4, h5]

theorem defs_estimationLoop (g : Nat) (d : DatasetSpec) (n : Nat) :
    defs ((List.range n).flatMap (fun _ => estimationIndex g d)) = [] := by
  rw [defs_flatMap]
  simp [estimationIndex, defs]

theorem wd_estimateDataset (g : Nat) (d : DatasetSpec) (D : List Loc)
    (hpen : Loc.clpPenalty g ∈ D)
    (hfull : d.full = true → Loc.fullMatrix g d.label ∈ D)
    (hprep : d.full = false → Loc.prepared g d.label ∈ D)
    (hm : Loc.matrix g d.label ∈ D) (hgp : Loc.groupParams g ∈ D) :
    wellDefined D (estimateDataset g d) = true := by
  unfold estimateDataset
  by_cases hf : d.full = true
  · simp [hf, wellDefined, hfull hf]
  · have hf' : d.full = false := by simpa using hf
    simp only [hf, Bool.false_eq_true, if_false]
    have hc : wellDefined D [Instr.clear (.clps g d.label), Instr.clear (.residuals g d.label)] = true := by
      simp [wellDefined, mem_paramSources]
    have hD1 : ∀ l, l ∈ D → l ∈ defs [Instr.clear (.clps g d.label), Instr.clear (.residuals g d.label)] ++ D :=
      fun l hl => List.mem_append_right _ hl
    rw [List.append_assoc]
    apply wd_append _ _ _ hc
    apply wd_append
    · apply wd_flatMap
      intro _ _
      apply wd_estimationIndex
      · simp [defs]
      · simp [defs]
      · exact hD1 _ (hprep hf')
      · exact hD1 _ hm
      · exact hD1 _ hgp
    · rw [defs_estimationLoop]
      simp [wellDefined, mem_paramSources, defs, hpen, hm, hgp]

theorem defs_estimateDataset_res (g : Nat) (d : DatasetSpec) :
    Loc.residuals g d.label ∈ defs (estimateDataset g d) := by
  unfold estimateDataset
  by_cases hf : d.full = true
  · simp [hf, defs]
  · simp [hf, defs, defs_append]

theorem wd_estimateUnlinked (g : Nat) (gs : GroupSpec) (D : List Loc)
    (hfull : ∀ d, d ∈ gs.datasets → d.full = true → Loc.fullMatrix g d.label ∈ D)
    (hprep : ∀ d, d ∈ gs.datasets → d.full = false → Loc.prepared g d.label ∈ D)
    (hm : ∀ d, d ∈ gs.datasets → Loc.matrix g d.label ∈ D) (hgp : Loc.groupParams g ∈ D) :
    wellDefined D (estimateUnlinked g gs) = true := by
  unfold estimateUnlinked
  have : ∀ (l : List Instr) (i : Instr), i :: l = [i] ++ l := fun _ _ => rfl
  rw [this]
  apply wd_append _ _ _ (by simp [wellDefined, mem_paramSources])
  apply wd_flatMap
  intro d hd
  have hD1 : ∀ l, l ∈ D → l ∈ defs [Instr.clear (.clpPenalty g)] ++ D := fun l hl => List.mem_append_right _ hl
  apply wd_estimateDataset
  · simp [defs]
  · exact fun hf => hD1 _ (hfull d hd hf)
  · exact fun hf => hD1 _ (hprep d hd hf)
  · exact hD1 _ (hm d hd)
  · exact hD1 _ hgp

theorem pen_mem_estimateUnlinked (g : Nat) (gs : GroupSpec) : Loc.clpPenalty g ∈ defs (estimateUnlinked g gs) := by
  simp [estimateUnlinked, defs]

theorem res_mem_estimateUnlinked (g : Nat) (gs : GroupSpec) {d : DatasetSpec} (hd : d ∈ gs.datasets) :
    Loc.residuals g d.label ∈ defs (estimateUnlinked g gs) := by
  unfold estimateUnlinked
  simp only [defs]
  exact List.mem_cons_of_mem _ (mem_defs_flatMap _ _ hd (defs_estimateDataset_res g d))

/-! ### linked groups -/

theorem mem_zipIdx_lt {α : Type} {xs : List α} {x : α} {i : Nat} (h : (x, i) ∈ xs.zipIdx) : i < xs.length := by
  have := List.mem_zipIdx h
  omega

theorem mem_zipIdx_mem {α : Type} {xs : List α} {x : α} {i : Nat} (h : (x, i) ∈ xs.zipIdx) : x ∈ xs := by
  have := List.mem_zipIdx h
  rw [this.2.2]
  exact List.getElem_mem ..

theorem zipIdx_mem_of_lt {α : Type} (xs : List α) {i : Nat} (h : i < xs.length) : (xs[i], i) ∈ xs.zipIdx := by
  rw [List.mem_zipIdx_iff_getElem?]
  simp [h]

theorem wd_alignedMatrices (g : Nat) (gs : GroupSpec) (D : List Loc)
    (hall : ∀ ds, ds ∈ gs.aligned → ∀ l, l ∈ ds → Loc.matrix g l ∈ D ∧ Loc.datasetModel g l ∈ D)
    (hm : ∀ d, d ∈ gs.datasets → Loc.matrix g d.label ∈ D) (hgp : Loc.groupParams g ∈ D) :
    wellDefined D (alignedMatrices g gs) = true := by
  unfold alignedMatrices
  apply wd_flatMap
  intro ⟨ds, i⟩ hx
  have hds := mem_zipIdx_mem hx
  simp only [wellDefined, Bool.and_eq_true, Bool.and_true, decide_eq_true_eq]
  refine ⟨⟨by simp, all_mem_iff.mpr ?_⟩, ⟨by simp, all_mem_iff.mpr ?_⟩⟩
  · intro r hr
    obtain ⟨d, hd, rfl⟩ := List.mem_map.mp hr
    exact hm d hd
  · intro r hr
    rcases List.mem_append.mp hr with hr | hr
    · rcases List.mem_append.mp hr with hr | hr
      · obtain ⟨l, hl, rfl⟩ := List.mem_map.mp hr
        exact List.mem_cons_of_mem _ ((hall ds hds l hl).1)
      · obtain ⟨l, hl, rfl⟩ := List.mem_map.mp hr
        exact List.mem_cons_of_mem _ ((hall ds hds l hl).2)
    · rw [List.mem_singleton.mp hr]
      exact List.mem_cons_of_mem _ hgp

theorem amat_mem_alignedMatrices (g : Nat) (gs : GroupSpec) {i : Nat} (hi : i < gs.aligned.length) :
    Loc.alignedMatrix g i ∈ defs (alignedMatrices g gs) ∧ Loc.alignedLabels g i ∈ defs (alignedMatrices g gs) := by
  unfold alignedMatrices
  constructor
  · apply mem_defs_flatMap _ _ (zipIdx_mem_of_lt gs.aligned hi); simp [defs]
  · apply mem_defs_flatMap _ _ (zipIdx_mem_of_lt gs.aligned hi); simp [defs]

theorem wd_estimateLinked (g : Nat) (gs : GroupSpec) (D : List Loc)
    (ham : ∀ i, i < gs.aligned.length → Loc.alignedMatrix g i ∈ D ∧ Loc.alignedLabels g i ∈ D)
    (hgp : Loc.groupParams g ∈ D) :
    wellDefined D (estimateLinked g gs) = true := by
  unfold estimateLinked
  apply wd_append
  · apply wd_flatMap
    intro i hi
    have hi' : i < gs.aligned.length := List.mem_range.mp hi
    simp [wellDefined, mem_paramSources, (ham i hi').1, (ham i hi').2, hgp]
  · simp only [wellDefined, Bool.and_true]
    apply all_mem_iff.mpr
    intro r hr
    rcases List.mem_cons.mp hr with hr | hr
    · rw [hr]
      exact List.mem_append_right _ hgp
    · rcases List.mem_append.mp hr with hr | hr
      · obtain ⟨i, hi, rfl⟩ := List.mem_map.mp hr
        exact List.mem_append_right _ (ham i (List.mem_range.mp hi)).2
      · obtain ⟨i, hi, rfl⟩ := List.mem_map.mp hr
        apply List.mem_append_left
        apply mem_defs_flatMap _ _ hi
        simp [defs]

theorem lres_mem_estimateLinked (g : Nat) (gs : GroupSpec) {i : Nat} (hi : i < gs.aligned.length) :
    Loc.lresiduals g i ∈ defs (estimateLinked g gs) := by
  unfold estimateLinked
  rw [defs_append]
  apply List.mem_append_left
  apply mem_defs_flatMap _ _ (List.mem_range.mpr hi)
  simp [defs]

theorem pen_mem_estimateLinked (g : Nat) (gs : GroupSpec) : Loc.clpPenalty g ∈ defs (estimateLinked g gs) := by
  unfold estimateLinked
  rw [defs_append]
  apply List.mem_append_right
  simp [defs]

/-! ### a group, a sweep, `calculate_penalty` -/

/-- the labels of every aligned point are labels of datasets of the group -/
def GroupSpec.WF (gs : GroupSpec) : Prop :=
  ∀ ds, ds ∈ gs.aligned → ∀ l, l ∈ ds → ∃ d, d ∈ gs.datasets ∧ d.label = l

theorem wd_groupCalculate (g : Nat) (gs : GroupSpec) (hwf : gs.WF) (D : List Loc) (hp : Loc.params ∈ D) :
    wellDefined D (groupCalculate g gs) = true := by
  unfold groupCalculate
  rw [List.append_assoc]
  apply wd_append _ _ _ (wd_setParameters g gs D hp)
  have hgp1 : Loc.groupParams g ∈ defs (setParameters g gs) ++ D :=
    List.mem_append_left _ (gp_mem_setParameters g gs)
  have hdm1 : ∀ d, d ∈ gs.datasets → Loc.datasetModel g d.label ∈ defs (setParameters g gs) ++ D :=
    fun d hd => List.mem_append_left _ (dm_mem_setParameters g gs hd)
  apply wd_append _ _ _ (wd_datasetMatrices g gs _ hdm1)
  have hm2 : ∀ d, d ∈ gs.datasets →
      Loc.matrix g d.label ∈ defs (datasetMatrices g gs) ++ (defs (setParameters g gs) ++ D) :=
    fun d hd => List.mem_append_left _ (matrix_mem_datasetMatrices g gs hd)
  have up2 : ∀ l, l ∈ defs (setParameters g gs) ++ D →
      l ∈ defs (datasetMatrices g gs) ++ (defs (setParameters g gs) ++ D) := fun l hl => List.mem_append_right _ hl
  by_cases hl : gs.linked = true
  · simp only [hl, if_true]
    apply wd_append
    · apply wd_alignedMatrices
      · intro ds hds l hlm
        obtain ⟨d, hd, rfl⟩ := hwf ds hds l hlm
        exact ⟨hm2 d hd, up2 _ (hdm1 d hd)⟩
      · exact hm2
      · exact up2 _ hgp1
    · apply wd_estimateLinked
      · intro i hi
        exact ⟨List.mem_append_left _ (amat_mem_alignedMatrices g gs hi).1,
               List.mem_append_left _ (amat_mem_alignedMatrices g gs hi).2⟩
      · exact List.mem_append_right _ (up2 _ hgp1)
  · simp only [hl, Bool.false_eq_true, if_false]
    rw [List.append_assoc, List.append_assoc]
    apply wd_append _ _ _ (wd_globalMatrices g gs _ (fun d hd => up2 _ (hdm1 d hd)))
    apply wd_append
    · apply wd_preparedMatrices
      · exact fun d hd => List.mem_append_right _ (up2 _ (hdm1 d hd))
      · exact fun d hd => List.mem_append_right _ (hm2 d hd)
      · exact List.mem_append_right _ (up2 _ hgp1)
    apply wd_append
    · apply wd_fullMatrices
      · exact fun d hd hf => List.mem_append_right _ (List.mem_append_left _ (gmat_mem_globalMatrices g gs hd hf))
      · exact fun d hd => List.mem_append_right _ (List.mem_append_right _ (hm2 d hd))
    · apply wd_estimateUnlinked
      · exact fun d hd hf => List.mem_append_left _ (full_mem_fullMatrices g gs hd hf)
      · exact fun d hd hf =>
          List.mem_append_right _ (List.mem_append_left _ (prepared_mem_preparedMatrices g gs hd hf))
      · exact fun d hd =>
          List.mem_append_right _ (List.mem_append_right _ (List.mem_append_right _ (hm2 d hd)))
      · exact List.mem_append_right _ (List.mem_append_right _ (List.mem_append_right _ (up2 _ hgp1)))

/-- what `get_full_penalty` of the group reads has been overwritten by `calculate` of the group -/
theorem mem_defs_append_right (p : List Instr) {q : List Instr} {l : Loc} (h : l ∈ defs q) : l ∈ defs (p ++ q) := by
  rw [defs_append]; exact List.mem_append_right _ h

theorem groupPenalty_reads (g : Nat) (gs : GroupSpec) :
    ∃ f rs, groupPenalty g gs = .assign (.groupPenalty g) f rs ∧ ∀ r, r ∈ rs → r ∈ defs (groupCalculate g gs) := by
  unfold groupPenalty groupCalculate
  by_cases hl : gs.linked = true
  · simp only [hl, if_true]
    refine ⟨_, _, rfl, ?_⟩
    intro r hr
    apply mem_defs_append_right
    apply mem_defs_append_right
    rcases List.mem_append.mp hr with hr | hr
    · obtain ⟨i, hi, rfl⟩ := List.mem_map.mp hr
      exact lres_mem_estimateLinked g gs (List.mem_range.mp hi)
    · rw [List.mem_singleton.mp hr]
      exact pen_mem_estimateLinked g gs
  · simp only [hl, Bool.false_eq_true, if_false]
    refine ⟨_, _, rfl, ?_⟩
    intro r hr
    apply mem_defs_append_right
    apply mem_defs_append_right
    rcases List.mem_append.mp hr with hr | hr
    · obtain ⟨d, hd, rfl⟩ := List.mem_map.mp hr
      exact res_mem_estimateUnlinked g gs hd
    · rw [List.mem_singleton.mp hr]
      exact pen_mem_estimateUnlinked g gs

/-- every group of the scheme is well formed -/
def Spec.WF (spec : Spec) : Prop := ∀ gs, gs ∈ spec → gs.WF

theorem wd_sweep (spec : Spec) (hwf : Spec.WF spec) (D : List Loc) (hp : Loc.params ∈ D) :
    wellDefined D (sweep spec) = true := by
  unfold sweep
  apply wd_flatMap
  intro ⟨gs, g⟩ hx
  exact wd_groupCalculate g gs (hwf gs (mem_zipIdx_mem hx)) D hp

theorem wd_collect (spec : Spec) (D : List Loc) (hp : Loc.params ∈ D)
    (hsw : ∀ l, l ∈ defs (sweep spec) → l ∈ D) : wellDefined D (collect spec) = true := by
  unfold collect
  rw [List.append_assoc]
  apply wd_append
  · simp [wellDefined, mem_paramSources, hp]
  apply wd_append
  · apply wd_map
    intro ⟨gs, g⟩ hx
    obtain ⟨f, rs, he, hr⟩ := groupPenalty_reads g gs
    simp only [he, wellDefined, Bool.and_true, Bool.and_eq_true, decide_eq_true_eq]
    refine ⟨by simp, all_mem_iff.mpr ?_⟩
    intro r hrm
    apply List.mem_append_right
    apply hsw
    unfold sweep
    exact mem_defs_flatMap (fun (x : GroupSpec × Nat) => groupCalculate x.2 x.1) _ hx (hr r hrm)
  · simp only [wellDefined, Bool.and_true, Bool.and_eq_true, decide_eq_true_eq]
    refine ⟨by simp, all_mem_iff.mpr ?_⟩
    intro r hr
    obtain ⟨g, hg, rfl⟩ := List.mem_map.mp hr
    have hg' : g < spec.length := List.mem_range.mp hg
    apply List.mem_append_left
    have hmem := zipIdx_mem_of_lt spec hg'
    have : Loc.groupPenalty g ∈ (spec.zipIdx.map (fun (x : GroupSpec × Nat) => groupPenalty x.2 x.1)).map
        (fun i => match i with | .assign d _ _ => d | _ => Loc.out) := by
      apply List.mem_map.mpr
      refine ⟨groupPenalty g spec[g], List.mem_map.mpr ⟨(spec[g], g), hmem, rfl⟩, ?_⟩
      obtain ⟨f, rs, he, _⟩ := groupPenalty_reads g spec[g]
      rw [he]
    revert this
    generalize spec.zipIdx = zs
    intro this
    induction zs with
    | nil => simp at this
    | cons z zs ih =>
      obtain ⟨f, rs, he, _⟩ := groupPenalty_reads z.2 z.1
      simp only [List.map_cons, List.mem_cons, he] at this
      simp only [List.map_cons, defs, he, List.mem_cons]
      rcases this with e | e
      · exact Or.inl e
      · exact Or.inr (ih e)

theorem wd_calculatePenalty (spec : Spec) (hwf : Spec.WF spec) (D : List Loc) (hp : Loc.params ∈ D) :
    wellDefined D (calculatePenalty spec) = true := by
  unfold calculatePenalty
  apply wd_append _ _ _ (wd_sweep spec hwf D hp)
  exact wd_collect spec _ (List.mem_append_right _ hp) (fun l hl => List.mem_append_left _ hl)

/-- `out` is overwritten by `calculate_penalty` -/
theorem out_mem_defs_collect (spec : Spec) : Loc.out ∈ defs (collect spec) := by
  unfold collect
  simp only [defs_append]
  apply List.mem_append_right
  simp [defs]

theorem out_mem_defs (spec : Spec) : Loc.out ∈ defs (calculatePenalty spec) := by
  unfold calculatePenalty
  rw [defs_append]
  exact List.mem_append_right _ (out_mem_defs_collect spec)

end Glotaran.C10
