/-
C11 — helper lemmas: frames preserved by expression updates and by keyed updates, the
filter/map description of the array loop, the real-number instance of `Num`.
-/
import GlotaranModel.C11
import Mathlib.Analysis.SpecialFunctions.Log.Basic
import Mathlib.Data.List.Nodup
namespace Glotaran.C11

variable {α : Type}

/-! ### what a parameter *is* apart from its value -/

/-- everything but the value: label, bounds, flags, expression definition, standard error -/
def Parameter.defn (p : Parameter α) :
    String × Ext α × Ext α × Bool × Bool × Option String × Ext α :=
  (p.label, p.min, p.max, p.nonNeg, p.vary, p.expr, p.stderr)

/-- the frame of a `set` that lists `labels`: the definition of every parameter, and the value of
    every parameter that is neither listed nor defined by an expression -/
def Parameter.frame (labels : List String) (p : Parameter α) :
    (String × Ext α × Ext α × Bool × Bool × Option String × Ext α) × Option (Ext α) :=
  (p.defn, if p.expr.isSome ∨ p.label ∈ labels then none else some p.value)

/-- `selected excl p` ⇔ `not exclude_non_vary or parameter.vary` -/
def selected (excl : Bool) (p : Parameter α) : Bool := !excl || p.vary

theorem selected_true : (selected true : Parameter α → Bool) = fun p => p.vary := by
  funext p; simp [selected]

theorem selected_false : (selected false : Parameter α → Bool) = fun _ => true := by
  funext p; simp [selected]

theorem zip_fst_sublist {β γ : Type} : ∀ (l : List β) (r : List γ),
    List.Sublist ((l.zip r).map (·.1)) l := by
  intro l
  induction l with
  | nil => intro r; simp
  | cons x xs ih =>
    intro r
    cases r with
    | nil => simp
    | cons y ys => simpa using (ih ys).cons_cons x

/-- parameter sets the constructor produces: a non-empty expression means `vary = false` -/
def WellFormed (ps : List (Parameter α)) : Prop :=
  ∀ p ∈ ps, ∀ e, p.expr = some e → e ≠ "" → p.vary = false

/-! ### expression update touches only values of expression parameters -/

theorem updateGo_map {β : Type} (f : Parameter α → β)
    (hf : ∀ (p : Parameter α) (e : String) (v : Ext α), p.expr = some e → f { p with value := v } = f p)
    (ev : Eval α) :
    ∀ (todo done : List (Parameter α)),
      (updateGo ev done todo).map f = done.map f ++ todo.map f := by
  intro todo
  induction todo with
  | nil => intro done; simp [updateGo]
  | cons p rest ih =>
    intro done
    simp only [updateGo]
    rw [ih]
    cases hp : p.expr with
    | none => simp
    | some e => simpa [hp] using hf p e (ev (done ++ p :: rest) e) hp

theorem updateExpr_map {β : Type} (f : Parameter α → β)
    (hf : ∀ (p : Parameter α) (e : String) (v : Ext α), p.expr = some e → f { p with value := v } = f p)
    (ev : Eval α) (ps : List (Parameter α)) :
    (updateExpr ev ps).map f = ps.map f := by
  simpa [updateExpr] using updateGo_map f hf ev ps []

theorem updateExpr_map_defn (ev : Eval α) (ps : List (Parameter α)) :
    (updateExpr ev ps).map Parameter.defn = ps.map Parameter.defn :=
  updateExpr_map _ (fun _ _ _ _ => rfl) ev ps

theorem updateExpr_map_frame (ev : Eval α) (L : List String) (ps : List (Parameter α)) :
    (updateExpr ev ps).map (Parameter.frame L) = ps.map (Parameter.frame L) :=
  updateExpr_map _ (fun p e v h => by simp [Parameter.frame, Parameter.defn, h]) ev ps

theorem updateExpr_map_label_sel (ev : Eval α) (excl : Bool) (ps : List (Parameter α)) :
    (updateExpr ev ps).map (fun p => (p.label, selected excl p)) =
      ps.map (fun p => (p.label, selected excl p)) :=
  updateExpr_map _ (fun _ _ _ _ => rfl) ev ps

/-- filtering on a property and projecting, when both only depend on a projection `g` -/
theorem filter_map_of_map_eq {β γ : Type} (g : Parameter α → β) (c : β → Bool) (h : β → γ) :
    ∀ (xs ys : List (Parameter α)), xs.map g = ys.map g →
      (xs.filter (fun p => c (g p))).map (fun p => h (g p)) =
        (ys.filter (fun p => c (g p))).map (fun p => h (g p)) := by
  intro xs
  induction xs with
  | nil => intro ys h; cases ys <;> simp_all
  | cons x xs ih =>
    intro ys hxy
    cases ys with
    | nil => simp at hxy
    | cons y ys =>
      simp only [List.map_cons, List.cons.injEq] at hxy
      have := ih ys hxy.2
      simp only [List.filter_cons, hxy.1]
      split <;> simp [this, hxy.1]

/-! ### the array loop is filter + map -/

theorem arraysLoop_spec [Num α] (excl : Bool) :
    ∀ (ps : List (Parameter α)) (acc : Arrays α),
      arraysLoop excl ps acc =
        ⟨acc.labels ++ (ps.filter (selected excl)).map (·.label),
         acc.values ++ (ps.filter (selected excl)).map (fun p => (toOpt p).value),
         acc.lower ++ (ps.filter (selected excl)).map (fun p => (toOpt p).lower),
         acc.upper ++ (ps.filter (selected excl)).map (fun p => (toOpt p).upper)⟩ := by
  intro ps
  induction ps with
  | nil => intro acc; simp [arraysLoop]
  | cons p rest ih =>
    intro acc
    simp only [arraysLoop]
    by_cases h : (!excl || p.vary) = true
    · simp [h, ih, selected]
    · simp [h, ih, selected]

theorem arrays_spec [Num α] (ev : Eval α) (excl : Bool) (ps : List (Parameter α)) :
    arrays ev excl ps =
      ⟨((updateExpr ev ps).filter (selected excl)).map (·.label),
       ((updateExpr ev ps).filter (selected excl)).map (fun p => (toOpt p).value),
       ((updateExpr ev ps).filter (selected excl)).map (fun p => (toOpt p).lower),
       ((updateExpr ev ps).filter (selected excl)).map (fun p => (toOpt p).upper)⟩ := by
  simp [arrays, arraysLoop_spec]

/-- the labels handed over are those of the selected parameters of `ps` itself, in order -/
theorem arrays_labels [Num α] (ev : Eval α) (excl : Bool) (ps : List (Parameter α)) :
    (arrays ev excl ps).labels = (ps.filter (selected excl)).map (·.label) := by
  rw [arrays_spec]
  exact filter_map_of_map_eq (fun p => (p.label, selected excl p)) (fun b => b.2) (fun b => b.1)
    _ _ (updateExpr_map_label_sel ev excl ps)

/-! ### keyed updates -/

theorem label_setFromOpt [Num α] (q : Parameter α) (x : Ext α) : (q.setFromOpt x).label = q.label := rfl

theorem setOne_frame [Num α] (L : List String) (ps : List (Parameter α)) (l : String) (x : Ext α)
    (hl : l ∈ L) : (setOne ps l x).map (Parameter.frame L) = ps.map (Parameter.frame L) := by
  simp only [setOne, List.map_map]
  apply List.map_congr_left
  intro q _
  by_cases h : q.label = l
  · simp [h, Parameter.frame, Parameter.defn, Parameter.setFromOpt, hl]
  · simp [h]

theorem setLoop_frame [Num α] (L : List String) :
    ∀ (pairs : List (String × Ext α)) (ps : List (Parameter α)), (∀ pr ∈ pairs, pr.1 ∈ L) →
      (setLoop ps pairs).1.map (Parameter.frame L) = ps.map (Parameter.frame L) := by
  intro pairs
  induction pairs with
  | nil => intro ps _; simp [setLoop]
  | cons pr rest ih =>
    intro ps h
    obtain ⟨l, x⟩ := pr
    simp only [setLoop]
    split
    · rw [ih _ (fun pr hp => h pr (List.mem_cons_of_mem _ hp))]
      exact setOne_frame L ps l x (h (l, x) (List.mem_cons_self ..))
    · rfl

/-- setting every listed parameter to a value that maps back to its own value changes nothing -/
theorem setLoop_id [Num α] (ps : List (Parameter α)) (hN : (ps.map (·.label)).Nodup) :
    ∀ (sel : List (Parameter α)),
      (∀ p ∈ sel, p ∈ ps ∧ fromOpt p.nonNeg (toOpt p).value = p.value) →
      setLoop ps (sel.map (fun p => (p.label, (toOpt p).value))) = (ps, .ok) := by
  intro sel
  induction sel with
  | nil => intro _; simp [setLoop]
  | cons p rest ih =>
    intro h
    have hp := h p (List.mem_cons_self ..)
    have hfound : (ps.any fun q => decide (q.label = p.label)) = true := by
      simp only [List.any_eq_true, decide_eq_true_eq]
      exact ⟨p, hp.1, rfl⟩
    have hone : setOne ps p.label (toOpt p).value = ps := by
      simp only [setOne]
      conv => rhs; rw [← List.map_id ps]
      apply List.map_congr_left
      intro q hq
      by_cases hql : q.label = p.label
      · have : q = p := List.inj_on_of_nodup_map hN hq hp.1 hql
        subst this
        simp [Parameter.setFromOpt, hp.2]
      · simp [hql]
    simp only [List.map_cons, setLoop, hfound, if_true, hone]
    exact ih (fun q hq => h q (List.mem_cons_of_mem _ hq))

theorem set_get_identity_of_roundtrip [Num α] (ev : Eval α) (excl : Bool) (ps : List (Parameter α))
    (hN : (ps.map (·.label)).Nodup) (hU : updateExpr ev ps = ps)
    (hR : ∀ p ∈ ps, selected excl p = true → fromOpt p.nonNeg (toOpt p).value = p.value) :
    setFromArrays ev ps (arrays ev excl ps).labels (arrays ev excl ps).values = (ps, .ok) := by
  rw [arrays_spec, hU]
  simp only [setFromArrays, List.length_map, ne_eq, not_true_eq_false, if_false]
  have hz : ((ps.filter (selected excl)).map (·.label)).zip
      ((ps.filter (selected excl)).map (fun p => (toOpt p).value)) =
      (ps.filter (selected excl)).map (fun p => (p.label, (toOpt p).value)) := by
    rw [List.zip_map']
  rw [hz, setLoop_id ps hN]
  · simp [hU]
  · intro p hp
    have := List.mem_filter.mp hp
    exact ⟨this.1, hR p this.1 this.2⟩

/-! ### standard-error loop -/

theorem seOne_getElem? [Num α] (qs : List (Parameter α)) (l : String) (e : α) (k : Nat) :
    (seOne qs l e)[k]? =
      (qs[k]?).map (fun q => if q.label = l then { q with stderr := seValue q e } else q) := by
  simp [seOne]

theorem foldl_seOne_untouched [Num α] :
    ∀ (pairs : List (String × α)) (qs : List (Parameter α)) (k : Nat) (q : Parameter α),
      qs[k]? = some q → q.label ∉ pairs.map (·.1) →
      (pairs.foldl (fun acc le => seOne acc le.1 le.2) qs)[k]? = some q := by
  intro pairs
  induction pairs with
  | nil => intro qs k q h _; simpa using h
  | cons pr rest ih =>
    intro qs k q h hn
    simp only [List.map_cons, List.mem_cons, not_or] at hn
    simp only [List.foldl_cons]
    apply ih _ k q _ hn.2
    rw [seOne_getElem?, h]
    simp [hn.1]

theorem foldl_seOne_hit [Num α] :
    ∀ (pairs : List (String × α)) (qs : List (Parameter α)) (k i : Nat) (q : Parameter α) (l : String) (e : α),
      (pairs.map (·.1)).Nodup → pairs[i]? = some (l, e) → qs[k]? = some q → q.label = l →
      (pairs.foldl (fun acc le => seOne acc le.1 le.2) qs)[k]? = some { q with stderr := seValue q e } := by
  intro pairs
  induction pairs with
  | nil => intro qs k i q l e _ h; simp at h
  | cons pr rest ih =>
    intro qs k i q l e hN hi hk hl
    simp only [List.map_cons, List.nodup_cons] at hN
    simp only [List.foldl_cons]
    cases i with
    | zero =>
      simp only [List.getElem?_cons_zero, Option.some.injEq] at hi
      subst hi
      apply foldl_seOne_untouched rest _ k _ _ (by simpa [hl] using hN.1)
      rw [seOne_getElem?, hk]
      simp [hl]
    | succ j =>
      simp only [List.getElem?_cons_succ] at hi
      have hmem : l ∈ rest.map (·.1) := by
        have := List.mem_of_getElem? hi
        exact List.mem_map.mpr ⟨(l, e), this, rfl⟩
      have hne : q.label ≠ pr.1 := by
        intro h
        exact hN.1 (by rw [← h, hl]; exact hmem)
      apply ih _ k j q l e hN.2 hi _ hl
      rw [seOne_getElem?, hk]
      simp [hne]

/-! ### the real-number instance -/

noncomputable instance realNum : Num ℝ where
  ofRat q := (q : ℝ)
  add a b := a + b
  sub a b := a - b
  mul a b := a * b
  abs a := |a|
  log := Real.log
  exp := Real.exp
  ifEq a b c d := if a = b then c else d
  ifLt a b c d := if a < b then c else d

/-- the guard constant as a real number -/
theorem eps_real : ((eps : ℚ) : ℝ) = 1 / 10000000000 := by
  simp [eps]

theorem logFin_real (v : ℝ) : logFin v = Real.log (if v = 1 then v + 1 / 10000000000 else v) := by
  simp only [logFin, Num.log, Num.ifEq, Num.add, Num.ofRat, eps_real]
  simp

/-- order on doubles-as-extended-reals; `nan` compares with nothing -/
def Ext.le : Ext ℝ → Ext ℝ → Prop
  | .fin a, .fin b => a ≤ b
  | .ninf, .ninf => True
  | .ninf, .fin _ => True
  | .ninf, .pinf => True
  | .fin _, .pinf => True
  | .pinf, .pinf => True
  | _, _ => False

end Glotaran.C11
