import GlotaranModel.C03
import Mathlib.Tactic.Ring
import Mathlib.Tactic.FieldSimp
namespace Glotaran.C03
open Glotaran.LinAlg Glotaran.C02

/-- entry (i, j) of a list-of-rows matrix; `none` when the position does not exist -/
def entry? (m : Mat) (i j : Nat) : Option Rat := (m[i]?).bind (fun r => r[j]?)

theorem entry?_eq_some_iff (m : Mat) (i j : Nat) (x : Rat) :
    entry? m i j = some x ↔ ∃ (hi : i < m.length) (hj : j < m[i].length), m[i][j] = x := by
  unfold entry?
  constructor
  · intro h
    obtain ⟨r, hr, hx⟩ := Option.bind_eq_some_iff.mp h
    obtain ⟨hi, rfl⟩ := List.getElem?_eq_some_iff.mp hr
    obtain ⟨hj, rfl⟩ := List.getElem?_eq_some_iff.mp hx
    exact ⟨hi, hj, rfl⟩
  · rintro ⟨hi, hj, rfl⟩
    simp [List.getElem?_eq_getElem hi, List.getElem?_eq_getElem hj]

theorem entry?_zipWith (f : Rat → Rat → Rat) (a b : Mat) (i j : Nat) :
    entry? (List.zipWith (fun r s => List.zipWith f r s) a b) i j =
      match entry? a i j, entry? b i j with
      | some x, some y => some (f x y)
      | _, _ => none := by
  unfold entry?
  rw [List.getElem?_zipWith]
  cases ha : a[i]? with
  | none => simp
  | some r =>
    cases hb : b[i]? with
    | none =>
      simp only [Option.bind_some, Option.bind_none]
      cases r[j]? <;> rfl
    | some s =>
      simp only [Option.bind_some, List.getElem?_zipWith]
      cases r[j]? <;> cases s[j]? <;> rfl

theorem entry?_subMat (a b : Mat) (i j : Nat) (x y : Rat)
    (hx : entry? a i j = some x) (hy : entry? b i j = some y) :
    entry? (subMat a b) i j = some (x - y) := by
  unfold subMat; rw [entry?_zipWith, hx, hy]

theorem entry?_divMat (a b : Mat) (i j : Nat) (x y : Rat)
    (hx : entry? a i j = some x) (hy : entry? b i j = some y) :
    entry? (divMat a b) i j = some (x / y) := by
  unfold divMat; rw [entry?_zipWith, hx, hy]

/-! ### whole matrices -/

/-- entrywise sum -/
def addMat (a b : Mat) : Mat := List.zipWith (fun r s => List.zipWith (· + ·) r s) a b

/-- the row lengths of a matrix -/
def shape (a : Mat) : List Nat := a.map List.length

theorem vec_sub_add (x y : Vec) (h : x.length = y.length) :
    List.zipWith (· + ·) (List.zipWith (· - ·) x y) y = x := by
  induction x generalizing y with
  | nil => simp
  | cons a x ih =>
    cases y with
    | nil => simp at h
    | cons b y =>
      simp only [List.length_cons, Nat.add_right_cancel_iff] at h
      simp only [List.zipWith_cons_cons, ih y h]
      congr 1; ring

theorem subMat_addMat (a b : Mat) (h : shape a = shape b) : addMat (subMat a b) b = a := by
  induction a generalizing b with
  | nil => simp [addMat, subMat]
  | cons r a ih =>
    cases b with
    | nil => simp [shape] at h
    | cons s b =>
      simp only [shape, List.map_cons, List.cons.injEq] at h
      simp only [addMat, subMat, List.zipWith_cons_cons, vec_sub_add r s h.1]
      congr 1
      exact ih b h.2

theorem shape_divMat (a w : Mat) (h : shape a = shape w) : shape (divMat a w) = shape a := by
  induction a generalizing w with
  | nil => simp [divMat, shape]
  | cons r a ih =>
    cases w with
    | nil => simp [shape] at h
    | cons s w =>
      simp only [shape, List.map_cons, List.cons.injEq] at h
      simp only [shape, divMat, List.zipWith_cons_cons, List.map_cons, List.length_zipWith, ← h.1, Nat.min_self]
      congr 1
      exact ih w h.2

/-! ### ofColumns -/

theorem ofColumns_length (nModel : Nat) (cols : List Vec) : (ofColumns nModel cols).length = nModel := by
  simp [ofColumns]

theorem ofColumns_row_length (nModel : Nat) (cols : List Vec) (r : Vec) (hr : r ∈ ofColumns nModel cols) :
    r.length = cols.length := by
  simp only [ofColumns, List.mem_map] at hr
  obtain ⟨m, _, rfl⟩ := hr
  simp

theorem ofColumns_getElem (nModel : Nat) (cols : List Vec) (m : Nat) (hm : m < (ofColumns nModel cols).length) :
    (ofColumns nModel cols)[m] = cols.map (fun c => c.getD m 0) := by
  simp [ofColumns]

theorem entry?_ofColumns (nModel : Nat) (cols : List Vec) (m g : Nat) (hm : m < nModel) (hg : g < cols.length) :
    entry? (ofColumns nModel cols) m g = some (cols[g].getD m 0) := by
  rw [entry?_eq_some_iff]
  have h1 : m < (ofColumns nModel cols).length := by rw [ofColumns_length]; exact hm
  refine ⟨h1, ?_, ?_⟩
  · rw [ofColumns_getElem]; simpa using hg
  · simp [ofColumns_getElem]


/-! ### chunk -/

theorem chunk_length (n k : Nat) (v : Vec) : (chunk n k v).length = k := by
  induction k generalizing v with
  | zero => simp [chunk]
  | succ k ih => simp [chunk, ih]

theorem chunk_flatten' (n : Nat) (vs : List Vec) (h : ∀ v ∈ vs, v.length = n) :
    chunk n vs.length vs.flatten = vs := by
  induction vs with
  | nil => simp [chunk]
  | cons v vs ih =>
    have hv : v.length = n := h v (by simp)
    simp only [List.length_cons, List.flatten_cons, chunk]
    rw [List.take_left' hv, List.drop_left' hv, ih (fun u hu => h u (by simp [hu]))]

/-- un-flattening `data.T.flatten()` gives back the columns -/
theorem chunk_flatMap_col (a : Mat) (G : Nat) :
    chunk a.length G ((List.range G).flatMap (fun g => col a g)) = (List.range G).map (col a) := by
  have h := chunk_flatten' a.length ((List.range G).map (col a)) (by
    intro v hv
    simp only [List.mem_map] at hv
    obtain ⟨g, _, rfl⟩ := hv
    simp [col])
  simpa [List.flatMap_def] using h

theorem ofColumns_columns (a : Mat) (G : Nat) (hrow : ∀ r ∈ a, r.length = G) :
    ofColumns a.length ((List.range G).map (col a)) = a := by
  apply List.ext_getElem
  · simp [ofColumns]
  · intro m h1 h2
    have hr : a[m].length = G := hrow _ (List.getElem_mem h2)
    simp only [ofColumns, List.getElem_map, List.getElem_range, List.map_map]
    apply List.ext_getElem
    · simp [hr]
    · intro g h3 h4
      simp [col, h2, List.getD_eq_getElem?_getD, List.getElem?_eq_getElem h4]

/-! ### un-stacking -/

theorem foldl_add_eq_sum (l : List Nat) : l.foldl (· + ·) 0 = l.sum := by
  rw [List.sum_eq_foldl]

theorem drop_flatten_take {α} (bs : List (List α)) (k : Nat) :
    bs.flatten.drop ((bs.take k).map List.length).sum = (bs.drop k).flatten := by
  induction bs generalizing k with
  | nil => simp
  | cons b bs ih =>
    cases k with
    | zero => simp
    | succ k =>
      simp only [List.take_succ_cons, List.map_cons, List.sum_cons, List.flatten_cons, List.drop_succ_cons]
      rw [← List.drop_drop, List.drop_left, ih]

theorem unstack_stack_sum {α} (bs : List (List α)) (k : Nat) (hk : k < bs.length) :
    (bs.flatten.drop ((bs.take k).map List.length).sum).take bs[k].length = bs[k] := by
  rw [drop_flatten_take, List.drop_eq_getElem_cons hk, List.flatten_cons, List.take_left]

/-! ### shapes of results -/


theorem mapM_option_length {α β} (f : α → Option β) (l : List α) (l' : List β)
    (h : l.mapM f = some l') : l'.length = l.length := by
  induction l generalizing l' with
  | nil => simp at h; subst h; rfl
  | cons a l ih =>
    rw [List.mapM_cons] at h
    cases hfa : f a with
    | none => simp [hfa] at h
    | some b =>
      cases hl : l.mapM f with
      | none => simp [hfa, hl] at h
      | some bs =>
        simp [hfa, hl] at h
        subst h
        simp [ih bs hl]

theorem finish_label (d : Dataset) (labels : List String) (clps : List Vec) (wres : Mat) :
    (finish d labels clps wres).label = d.label := by
  unfold finish; split <;> rfl

theorem finish_clps (d : Dataset) (labels : List String) (clps : List Vec) (wres : Mat) :
    (finish d labels clps wres).clps = clps := by
  unfold finish; split <;> rfl

theorem finish_clpLabels (d : Dataset) (labels : List String) (clps : List Vec) (wres : Mat) :
    (finish d labels clps wres).clpLabels = labels := by
  unfold finish; split <;> rfl

theorem finish_residual_length (d : Dataset) (labels : List String) (clps : List Vec) (wres : Mat) :
    (finish d labels clps wres).residual.length =
      match d.weight with | none => wres.length | some w => min wres.length w.length := by
  cases hw : d.weight <;> simp [finish, hw, divMat]

theorem unlinkedProblems_length (mi : ModelItems) (d : Dataset) (ps : List IndexProblem)
    (h : unlinkedProblems mi d = some ps) : ps.length = d.nGlobal := by
  unfold unlinkedProblems at h
  split at h
  · simp at h
  · simp only [Option.some.injEq] at h
    subst h; simp

/-- the shape of an unlinked per-index result -/
theorem unlinkedResult_shape (mi : ModelItems) (s : Solver) (d : Dataset) (r : DsResult)
    (hg : d.gmcs = []) (h : unlinkedResult mi s d = some r) :
    r.label = d.label ∧ r.clps.length = d.nGlobal ∧
    r.residual.length = (match d.weight with | none => d.nModel | some w => min d.nModel w.length) := by
  unfold unlinkedResult at h
  simp only [hg, List.isEmpty_nil, Bool.not_true, Bool.false_eq_true, if_false] at h
  cases hps : unlinkedProblems mi d with
  | none => simp [hps] at h
  | some ps =>
    simp only [hps] at h
    obtain ⟨sols, hsols, rfl⟩ := Option.map_eq_some_iff.mp h
    have hl := mapM_option_length _ _ _ hsols
    rw [unlinkedProblems_length mi d ps hps] at hl
    refine ⟨finish_label .., ?_, ?_⟩
    · rw [finish_clps]; simpa using hl
    · rw [finish_residual_length]; simp only [ofColumns_length]

/-! ### renaming the datasets of a linked group -/

/-- rename a dataset -/
def renameDs (f : String → String) (d : Dataset) : Dataset := { d with label := f d.label }
def renameGroup (f : String → String) (g : Group) : Group := { g with datasets := g.datasets.map (renameDs f) }
def relabel (f : String → String) (r : DsResult) : DsResult := { r with label := f r.label }

@[simp] theorem renameDs_label (f d) : (renameDs f d).label = f d.label := rfl
@[simp] theorem renameDs_globalAxis (f d) : (renameDs f d).globalAxis = d.globalAxis := rfl
@[simp] theorem renameDs_data (f d) : (renameDs f d).data = d.data := rfl
@[simp] theorem renameDs_weight (f d) : (renameDs f d).weight = d.weight := rfl
@[simp] theorem renameDs_scale (f d) : (renameDs f d).scale = d.scale := rfl
@[simp] theorem renameDs_mcs (f d) : (renameDs f d).mcs = d.mcs := rfl
@[simp] theorem renameDs_gmcs (f d) : (renameDs f d).gmcs = d.gmcs := rfl
@[simp] theorem renameDs_nModel (f d) : (renameDs f d).nModel = d.nModel := rfl
@[simp] theorem renameDs_nGlobal (f d) : (renameDs f d).nGlobal = d.nGlobal := rfl
@[simp] theorem renameDs_weightedData (f d) : (renameDs f d).weightedData = d.weightedData := rfl

theorem mapM_rename (f : String → String) (ds : List Dataset) :
    (ds.map (renameDs f)).mapM (fun d => (datasetMatrix d.mcs).map (fun lm => (d, lm))) =
    (ds.mapM (fun d => (datasetMatrix d.mcs).map (fun lm => (d, lm)))).map
      (List.map (fun p => (renameDs f p.1, p.2))) := by
  induction ds with
  | nil => simp
  | cons d ds ih =>
    simp only [List.map_cons, List.mapM_cons, ih, renameDs_mcs]
    cases datasetMatrix d.mcs <;> simp
    cases (ds.mapM (fun d => (datasetMatrix d.mcs).map (fun lm => (d, lm)))) <;> simp

theorem mem_rename (f : String → String) (dms : List (Dataset × LMat)) (aligned : List (List Rat)) (v : Rat) :
    ((dms.map (fun p => (renameDs f p.1, p.2))).zip aligned).filterMap
        (fun da => (da.2.idxOf? v).map (fun i => (da.1, i))) =
    ((dms.zip aligned).filterMap (fun da => (da.2.idxOf? v).map (fun i => (da.1, i)))).map
        (fun di => ((renameDs f di.1.1, di.1.2), di.2)) := by
  rw [List.zip_map_left, List.filterMap_map, List.map_filterMap]
  congr 1
  funext da
  simp only [Function.comp_def, Prod.map, id]
  cases List.idxOf? v da.2 <;> rfl

theorem linkedProblems_rename (mi : ModelItems) (f : String → String) (g : Group) :
    linkedProblems mi (renameGroup f g) = linkedProblems mi g := by
  unfold linkedProblems
  have ha : (renameGroup f g).datasets.map (·.globalAxis) = g.datasets.map (·.globalAxis) := by
    simp [renameGroup, Function.comp_def]
  rw [ha]
  show (match alignAxes (g.datasets.map (·.globalAxis)) g.tol g.method with | none => none | some aligned => _) = _
  cases alignAxes (g.datasets.map (·.globalAxis)) g.tol g.method with
  | none => rfl
  | some aligned =>
    simp only [renameGroup, mapM_rename]
    cases (g.datasets.mapM (fun d => (datasetMatrix d.mcs).map (fun lm => (d, lm)))) with
    | none => rfl
    | some dms =>
      simp only [Option.map_some, mem_rename, List.map_map, List.any_map, List.flatMap_map,
        Function.comp_def, renameDs_weight, renameDs_nModel, renameDs_nGlobal, renameDs_scale,
        renameDs_weightedData]

/-- the result of one member dataset of a linked group (the body of `linkedResults`) -/
def linkedOne (mi : ModelItems) (da : List (Dataset × List Rat)) (axis : List Rat)
    (sols : List (IndexProblem × (Vec × Vec))) (dk : Dataset × List Rat) : DsResult :=
  let d := dk.1
  let own := match datasetMatrix d.mcs with | some lm => lm.labels | none => []
  let hits := (axis.zip sols).filter (fun vs => dk.2.contains vs.1)
  let parts := hits.map (fun vs =>
    let v := vs.1; let p := vs.2.1; let cr := vs.2.2
    let full := retrieveClps mi p.fullLabels p.reduced.labels cr.1 p.x
    let clp := own.map (fun l => match p.fullLabels.idxOf? l with | some j => full.getD j 0 | none => 0)
    let before := (da.takeWhile (fun e => e.1.label != d.label)).filter (fun e => e.2.contains v)
    let start := (before.map (fun e => e.1.nModel)).foldl (· + ·) 0
    (clp, (cr.2.drop start).take d.nModel))
  finish d own (parts.map (·.1)) (ofColumns d.nModel (parts.map (·.2)))

theorem linkedResults_eq (mi : ModelItems) (g : Group) :
    linkedResults mi g =
      match alignAxes (g.datasets.map (·.globalAxis)) g.tol g.method, linkedProblems mi g with
      | some aligned, some (axis, ps) =>
        match ps.mapM (fun p => (solveLS g.solver p.reduced.m p.data).map (fun cr => (p, cr))) with
        | none => none
        | some sols => some ((g.datasets.zip aligned).map (linkedOne mi (g.datasets.zip aligned) axis sols))
      | _, _ => none := rfl

theorem takeWhile_congr_mem {α} (p q : α → Bool) (l : List α) (h : ∀ x ∈ l, p x = q x) :
    l.takeWhile p = l.takeWhile q := by
  induction l with
  | nil => rfl
  | cons a l ih =>
    simp only [List.takeWhile_cons, h a (by simp)]
    rw [ih (fun x hx => h x (by simp [hx]))]

theorem finish_rename (f : String → String) (d : Dataset) (labels : List String) (clps : List Vec) (wres : Mat) :
    finish (renameDs f d) labels clps wres = relabel f (finish d labels clps wres) := by
  cases hw : d.weight <;> simp [finish, hw, relabel]

theorem linkedOne_rename (mi : ModelItems) (f : String → String) (da : List (Dataset × List Rat)) (axis : List Rat)
    (sols : List (IndexProblem × (Vec × Vec))) (d : Dataset) (k : List Rat)
    (hinj : ∀ e ∈ da, f e.1.label = f d.label → e.1.label = d.label) :
    linkedOne mi (da.map (Prod.map (renameDs f) id)) axis sols (renameDs f d, k) =
      relabel f (linkedOne mi da axis sols (d, k)) := by
  have htw : (da.map (Prod.map (renameDs f) id)).takeWhile (fun e => e.1.label != f d.label) =
      (da.takeWhile (fun e => e.1.label != d.label)).map (Prod.map (renameDs f) id) := by
    rw [List.takeWhile_map]
    congr 1
    apply takeWhile_congr_mem
    intro e he
    simp only [Function.comp_def, Prod.map, renameDs_label]
    by_cases h : e.1.label = d.label
    · simp [h]
    · have : f e.1.label ≠ f d.label := fun hh => h (hinj e he hh)
      rw [bne_iff_ne.mpr this, bne_iff_ne.mpr h]
  unfold linkedOne
  simp only [renameDs_label, renameDs_mcs, renameDs_nModel, htw, List.filter_map, List.map_map,
    Function.comp_def, Prod.map, id, finish_rename]

theorem linkedResults_rename (mi : ModelItems) (g : Group) (f : String → String)
    (hinj : ∀ d1 ∈ g.datasets, ∀ d2 ∈ g.datasets, f d1.label = f d2.label → d1.label = d2.label) :
    linkedResults mi (renameGroup f g) = (linkedResults mi g).map (List.map (relabel f)) := by
  rw [linkedResults_eq, linkedResults_eq, linkedProblems_rename]
  have ha : (renameGroup f g).datasets.map (·.globalAxis) = g.datasets.map (·.globalAxis) := by
    simp [renameGroup, Function.comp_def]
  rw [ha]
  show (match alignAxes (g.datasets.map (·.globalAxis)) g.tol g.method, linkedProblems mi g with
        | some aligned, some (axis, ps) =>
          match ps.mapM (fun (p : IndexProblem) => (solveLS g.solver p.reduced.m p.data).map (fun cr => (p, cr))) with
          | none => none
          | some sols => some (((g.datasets.map (renameDs f)).zip aligned).map
              (linkedOne mi ((g.datasets.map (renameDs f)).zip aligned) axis sols))
        | _, _ => none) = _
  cases alignAxes (g.datasets.map (·.globalAxis)) g.tol g.method with
  | none => rfl
  | some aligned =>
    cases linkedProblems mi g with
    | none => rfl
    | some ap =>
      obtain ⟨axis, ps⟩ := ap
      simp only
      cases ps.mapM (fun (p : IndexProblem) => (solveLS g.solver p.reduced.m p.data).map (fun cr => (p, cr))) with
      | none => rfl
      | some sols =>
        simp only [Option.map_some, Option.some.injEq]
        rw [List.zip_map_left, List.map_map, List.map_map]
        apply List.map_congr_left
        intro dk hdk
        obtain ⟨d, k⟩ := dk
        simp only [Function.comp_def, Prod.map, id]
        apply linkedOne_rename
        intro e he hfe
        exact hinj e.1 (List.of_mem_zip he).1 d (List.of_mem_zip hdk).1 hfe


/-! ### the same for the own-order layout (`linkedResultsOwn`, what the C03 driver executes) -/

theorem linkedResultsOwn_eq (mi : ModelItems) (g : Group) :
    linkedResultsOwn mi g =
      match alignAxes (g.datasets.map (·.globalAxis)) g.tol g.method, linkedProblems mi g with
      | some aligned, some (axis, ps) =>
        match ps.mapM (fun p => (solveLS g.solver p.reduced.m p.data).map (fun cr => (p, cr))) with
        | none => none
        | some sols => some ((g.datasets.zip aligned).map (linkedOneOwn mi (g.datasets.zip aligned) axis sols))
      | _, _ => none := rfl

theorem linkedOneOwn_rename (mi : ModelItems) (f : String → String) (da : List (Dataset × List Rat)) (axis : List Rat)
    (sols : List (IndexProblem × (Vec × Vec))) (d : Dataset) (k : List Rat)
    (hinj : ∀ e ∈ da, f e.1.label = f d.label → e.1.label = d.label) :
    linkedOneOwn mi (da.map (Prod.map (renameDs f) id)) axis sols (renameDs f d, k) =
      relabel f (linkedOneOwn mi da axis sols (d, k)) := by
  have htw : (da.map (Prod.map (renameDs f) id)).takeWhile (fun e => e.1.label != f d.label) =
      (da.takeWhile (fun e => e.1.label != d.label)).map (Prod.map (renameDs f) id) := by
    rw [List.takeWhile_map]
    congr 1
    apply takeWhile_congr_mem
    intro e he
    simp only [Function.comp_def, Prod.map, renameDs_label]
    by_cases h : e.1.label = d.label
    · simp [h]
    · have : f e.1.label ≠ f d.label := fun hh => h (hinj e he hh)
      rw [bne_iff_ne.mpr this, bne_iff_ne.mpr h]
  unfold linkedOneOwn
  simp only [renameDs_label, renameDs_mcs, renameDs_nModel, htw, List.filter_map, List.map_map,
    Function.comp_def, Prod.map, id, finish_rename]

theorem linkedResultsOwn_rename (mi : ModelItems) (g : Group) (f : String → String)
    (hinj : ∀ d1 ∈ g.datasets, ∀ d2 ∈ g.datasets, f d1.label = f d2.label → d1.label = d2.label) :
    linkedResultsOwn mi (renameGroup f g) = (linkedResultsOwn mi g).map (List.map (relabel f)) := by
  rw [linkedResultsOwn_eq, linkedResultsOwn_eq, linkedProblems_rename]
  have ha : (renameGroup f g).datasets.map (·.globalAxis) = g.datasets.map (·.globalAxis) := by
    simp [renameGroup, Function.comp_def]
  rw [ha]
  show (match alignAxes (g.datasets.map (·.globalAxis)) g.tol g.method, linkedProblems mi g with
        | some aligned, some (axis, ps) =>
          match ps.mapM (fun (p : IndexProblem) => (solveLS g.solver p.reduced.m p.data).map (fun cr => (p, cr))) with
          | none => none
          | some sols => some (((g.datasets.map (renameDs f)).zip aligned).map
              (linkedOneOwn mi ((g.datasets.map (renameDs f)).zip aligned) axis sols))
        | _, _ => none) = _
  cases alignAxes (g.datasets.map (·.globalAxis)) g.tol g.method with
  | none => rfl
  | some aligned =>
    cases linkedProblems mi g with
    | none => rfl
    | some ap =>
      obtain ⟨axis, ps⟩ := ap
      simp only
      cases ps.mapM (fun (p : IndexProblem) => (solveLS g.solver p.reduced.m p.data).map (fun cr => (p, cr))) with
      | none => rfl
      | some sols =>
        simp only [Option.map_some, Option.some.injEq]
        rw [List.zip_map_left, List.map_map, List.map_map]
        apply List.map_congr_left
        intro dk hdk
        obtain ⟨d, k⟩ := dk
        simp only [Function.comp_def, Prod.map, id]
        apply linkedOneOwn_rename
        intro e he hfe
        exact hinj e.1 (List.of_mem_zip he).1 d (List.of_mem_zip hdk).1 hfe

end Glotaran.C03
