import GlotaranModel.C03
namespace Glotaran.C03
end Glotaran.C03
