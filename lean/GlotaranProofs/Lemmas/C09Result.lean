/-
C09 — helper lemmas for the result part (`EstimationProviderLinked.get_result`): label look-ups,
group definitions, cutting one dataset's block out of a stacked residual.
-/
import GlotaranProofs.Lemmas.C09
namespace Glotaran.C09

/-! ### look-ups by label -/

theorem msizeOf_label : ∀ (dss : List Dataset), (dss.map (·.label)).Nodup → ∀ ds ∈ dss,
    msizeOf dss ds.label = ds.msize := by
  intro dss
  induction dss with
  | nil => intro _ ds h; cases h
  | cons a rest ih =>
    intro hnd ds hds
    simp only [List.map_cons, List.nodup_cons] at hnd
    unfold msizeOf
    rw [List.find?_cons]
    by_cases hl : a.label = ds.label
    · simp only [hl, beq_self_eq_true]
      rcases List.mem_cons.mp hds with rfl | hr
      · rfl
      · exact absurd (hl ▸ List.mem_map_of_mem hr) hnd.1
    · have hne : (a.label == ds.label) = false := by simpa using hl
      simp only [hne]
      rcases List.mem_cons.mp hds with rfl | hr
      · exact absurd rfl hl
      · exact ih hnd.2 ds hr

theorem lookupDef_append_of_mem (acc rest : List (String × List String)) (g : String)
    (h : acc.any (fun e => e.1 == g) = true) : lookupDef (acc ++ rest) g = lookupDef acc g := by
  unfold lookupDef
  rw [List.find?_append]
  obtain ⟨e, he, hk⟩ := List.any_eq_true.mp h
  cases hf : acc.find? (fun e => e.1 == g) with
  | none => exact absurd hk (by simpa using List.find?_eq_none.mp hf e he)
  | some e' => simp

/-- `group_definitions` is a dict filled in order, first occurrence wins: looking a key up is
    finding the first pair with that key -/
theorem lookupDef_groupDefs : ∀ (pairs acc : List (String × List String)) (g : String),
    lookupDef (groupDefs acc pairs) g = lookupDef (acc ++ pairs) g := by
  intro pairs
  induction pairs with
  | nil => intro acc g; simp [groupDefs]
  | cons p rest ih =>
    intro acc g
    obtain ⟨g', ms⟩ := p
    simp only [groupDefs]
    split
    · rename_i hany
      rw [ih]
      unfold lookupDef
      simp only [List.find?_append, List.find?_cons]
      cases hf : acc.find? (fun e => e.1 == g) with
      | some e => simp
      | none =>
        have hne : (g' == g) = false := by
          obtain ⟨e, he, hk⟩ := List.any_eq_true.mp hany
          have := List.find?_eq_none.mp hf e he
          have hk' : e.1 = g' := by simpa using hk
          simp only [hk', beq_iff_eq] at this
          simpa using this
        simp [hne]
    · rw [ih, List.append_assoc]
      rfl

theorem lookupDef_map_first {α} (L : α → String) (ML : α → List String) : ∀ (l : List α) (w : α), w ∈ l →
    (∀ v ∈ l, L v = L w → ML v = ML w) → lookupDef (l.map (fun v => (L v, ML v))) (L w) = ML w := by
  intro l
  induction l with
  | nil => intro w h; cases h
  | cons a rest ih =>
    intro w hw hcol
    unfold lookupDef
    simp only [List.map_cons, List.find?_cons]
    by_cases hl : L a = L w
    · simp only [hl, beq_self_eq_true]
      exact hcol a (List.mem_cons_self ..) hl
    · have hne : (L a == L w) = false := by simpa using hl
      simp only [hne]
      rcases List.mem_cons.mp hw with rfl | hr
      · exact absurd rfl hl
      · exact ih w hr (fun v hv => hcol v (List.mem_cons_of_mem _ hv))

/-! ### cutting one block -/

/-- `residual[start:end]` for the dataset number `d` in a group whose members are `ms`
    (dataset number, own index), when labels identify dataset numbers among the members -/
theorem cutBlock_members (szL : String → Nat) (lab : Nat → String) (d : Nat) :
    ∀ (ms : List (Nat × Nat)) (r : List Rat), (∀ p ∈ ms, lab p.1 = lab d → p.1 = d) →
    cutBlock szL (ms.map (fun p => lab p.1)) r (lab d) =
      (ms.find? (fun p => p.1 == d)).map (fun _ =>
        (r.drop (((ms.takeWhile (fun p => p.1 != d)).map (fun p => szL (lab p.1))).sum)).take (szL (lab d))) := by
  intro ms
  induction ms with
  | nil => intro _ _; rfl
  | cons p rest ih =>
    intro r hinj
    have ih' := ih (r.drop (szL (lab p.1))) (fun q hq => hinj q (List.mem_cons_of_mem _ hq))
    unfold cutBlock at ih' ⊢
    simp only [List.map_cons, List.idxOf?_cons, List.find?_cons, List.takeWhile_cons]
    by_cases hp : p.1 = d
    · simp [hp]
    · have hl : (lab p.1 == lab d) = false := by
        simpa using fun h => hp (hinj p (List.mem_cons_self ..) h)
      have hb : (p.1 == d) = false := by simpa using hp
      have hnb : (p.1 != d) = true := by simpa using hp
      simp only [hl, hb, hnb, if_true, Bool.false_eq_true, if_false]
      cases hidx : (rest.map (fun p => lab p.1)).idxOf? (lab d) with
      | none =>
        rw [hidx] at ih'
        cases hf : rest.find? (fun p => p.1 == d) with
        | none => rfl
        | some q => rw [hf] at ih'; cases ih'
      | some k =>
        rw [hidx] at ih'
        simp only [Option.map_some, List.take_succ_cons, List.map_cons, List.sum_cons]
        cases hf : rest.find? (fun p => p.1 == d) with
        | none => rw [hf] at ih'; cases ih'
        | some q =>
          rw [hf] at ih'
          simp only [Option.map_some, Option.some.injEq, List.drop_drop] at ih' ⊢
          exact ih'

/-! ### the members of an aligned point, by dataset number -/

theorem find_membersFrom (v : Rat) : ∀ (al : List (List Rat)) (k d : Nat), k ≤ d →
    (membersFrom v k al).find? (fun p => p.1 == d) = ((al[d - k]?).bind (posOf v)).map (fun j => (d, j)) := by
  intro al
  induction al with
  | nil => intro k d _; simp [membersFrom]
  | cons a rest ih =>
    intro k d hkd
    have hskip : d = k → (membersFrom v (k + 1) rest).find? (fun p => p.1 == d) = none := by
      intro hd
      rw [List.find?_eq_none]
      intro p hp
      have := (membersFrom_sorted v rest (k + 1)).2 p hp
      simp only [beq_iff_eq]
      omega
    simp only [membersFrom]
    rcases Nat.eq_or_lt_of_le hkd with rfl | hlt
    · cases hpo : posOf v a with
      | none => simp [hskip rfl, hpo]
      | some j => simp [hpo]
    · have hne : (k == d) = false := by simpa using (Nat.ne_of_lt hlt)
      have hidx : d - k = (d - (k + 1)) + 1 := by omega
      have hih := ih (k + 1) d (by omega)
      cases hpo : posOf v a with
      | none => simp only [hih, hidx, List.getElem?_cons_succ]
      | some j => simp only [List.find?_cons, hne, hih, hidx, List.getElem?_cons_succ]

theorem find_members (al : List (List Rat)) (v : Rat) (d : Nat) (row : List Rat) (hrow : al[d]? = some row) :
    (members al v).find? (fun p => p.1 == d) = (posOf v row).map (fun j => (d, j)) := by
  unfold members
  rw [find_membersFrom v al 0 d (Nat.zero_le _)]
  simp [hrow]

theorem members_lt (al : List (List Rat)) (v : Rat) : ∀ p ∈ members al v, p.1 < al.length := by
  intro p hp
  obtain ⟨_, a, ha, _⟩ := (mem_membersFrom v al 0 p.1 p.2).mp hp
  have := (List.getElem?_eq_some_iff.mp ha).1
  omega

theorem posOf_getElem (row : List Rat) (hn : row.Nodup) (j : Nat) (hj : j < row.length) :
    posOf row[j] row = some j :=
  (posOf_some_iff _ row j hn).mpr (List.getElem?_eq_getElem hj)

theorem posOf_eq_none (v : Rat) (row : List Rat) (h : v ∉ row) : posOf v row = none := by
  cases hp : posOf v row with
  | none => rfl
  | some j => exact absurd ((posOf_isSome_iff v row).mp ⟨j, hp⟩) h

/-! ### the part with its own index; ordering the parts (fix D27) -/

theorem resultPart_members (szL : String → Nat) (lab : Nat → String) (d : Nat) :
    ∀ (ms : List (Nat × Nat)) (r : List Rat), (∀ p ∈ ms, lab p.1 = lab d → p.1 = d) →
    resultPart szL (ms.map (fun p => lab p.1)) (ms.map (·.2)) r (lab d) =
      (ms.find? (fun p => p.1 == d)).map (fun q => (q.2,
        (r.drop (((ms.takeWhile (fun p => p.1 != d)).map (fun p => szL (lab p.1))).sum)).take (szL (lab d)))) := by
  intro ms r hinj
  have hcut := cutBlock_members szL lab d ms r hinj
  unfold resultPart
  rw [hcut]
  -- the position found by label is the position of the member with dataset number `d`
  have hidx : ∀ ms : List (Nat × Nat), (∀ p ∈ ms, lab p.1 = lab d → p.1 = d) →
      ∀ k, (ms.map (fun p => lab p.1)).idxOf? (lab d) = some k →
        ∃ q, ms.find? (fun p => p.1 == d) = some q ∧ (ms.map (·.2)).getD k 0 = q.2 := by
    intro ms
    induction ms with
    | nil => intro _ k h; simp at h
    | cons p rest ih =>
      intro hinj k hk
      rw [List.map_cons, List.idxOf?_cons] at hk
      by_cases hp : p.1 = d
      · simp only [hp, beq_self_eq_true, if_true, Option.some.injEq] at hk
        subst hk
        exact ⟨p, by simp [hp], by simp⟩
      · have hl : (lab p.1 == lab d) = false := by
          simpa using fun h => hp (hinj p (List.mem_cons_self ..) h)
        have hb : (p.1 == d) = false := by simpa using hp
        simp only [hl, Bool.false_eq_true, if_false, Option.map_eq_some_iff] at hk
        obtain ⟨k', hk', rfl⟩ := hk
        obtain ⟨q, hq, hget⟩ := ih (fun q hq => hinj q (List.mem_cons_of_mem _ hq)) k' hk'
        refine ⟨q, by simp [List.find?_cons, hb, hq], ?_⟩
        simpa using hget
  cases hk : (ms.map (fun p => lab p.1)).idxOf? (lab d) with
  | none =>
    have hcut' := hcut
    unfold cutBlock at hcut'
    rw [hk] at hcut'
    cases hf : ms.find? (fun p => p.1 == d) with
    | none => rfl
    | some q => rw [hf] at hcut'; cases hcut'
  | some k =>
    obtain ⟨q, hq, hget⟩ := hidx ms hinj k hk
    simp only [hq, Option.map_some, hget]

theorem mem_insertByKey (p a : Nat × List Rat) : ∀ l, a ∈ insertByKey p l ↔ a = p ∨ a ∈ l := by
  intro l
  induction l with
  | nil => simp [insertByKey]
  | cons q qs ih =>
    simp only [insertByKey]
    split
    · simp
    · simp only [List.mem_cons, ih]; tauto

theorem insertByKey_perm (p : Nat × List Rat) : ∀ l, (insertByKey p l).Perm (p :: l) := by
  intro l
  induction l with
  | nil => simp [insertByKey]
  | cons q qs ih =>
    simp only [insertByKey]
    split
    · exact List.Perm.refl _
    · exact ((List.Perm.cons q ih).trans (List.Perm.swap p q qs))

theorem sortByKey_perm : ∀ l, (sortByKey l).Perm l := by
  intro l
  induction l with
  | nil => exact List.Perm.refl _
  | cons p ps ih => exact (insertByKey_perm p (sortByKey ps)).trans (List.Perm.cons p ih)

theorem insertByKey_sorted (p : Nat × List Rat) : ∀ l, l.Pairwise (fun a b => a.1 ≤ b.1) →
    (insertByKey p l).Pairwise (fun a b => a.1 ≤ b.1) := by
  intro l
  induction l with
  | nil => intro _; simp [insertByKey]
  | cons q qs ih =>
    intro h
    have hq := List.pairwise_cons.mp h
    simp only [insertByKey]
    split
    · rename_i hle
      refine List.pairwise_cons.mpr ⟨?_, h⟩
      intro a ha
      rcases List.mem_cons.mp ha with rfl | ha
      · exact hle
      · exact le_trans hle (hq.1 a ha)
    · rename_i hnle
      refine List.pairwise_cons.mpr ⟨?_, ih hq.2⟩
      intro a ha
      rcases (mem_insertByKey p a qs).mp ha with rfl | ha
      · exact le_of_lt (not_le.mp hnle)
      · exact hq.1 a ha

theorem sortByKey_sorted : ∀ l, (sortByKey l).Pairwise (fun a b => a.1 ≤ b.1) := by
  intro l
  induction l with
  | nil => exact List.Pairwise.nil
  | cons p ps ih => exact insertByKey_sorted p _ ih

/-- sorting by key a list that is a permutation of a list with strictly increasing keys gives
    that list -/
theorem sortByKey_eq_of_perm (l target : List (Nat × List Rat)) (hp : l.Perm target)
    (ht : target.Pairwise (fun a b => a.1 < b.1)) : sortByKey l = target := by
  have hperm : (sortByKey l).Perm target := (sortByKey_perm l).trans hp
  have hnd : (target.map (·.1)).Nodup := by
    rw [List.Nodup, List.pairwise_map]
    exact ht.imp (fun h => ne_of_lt h)
  have hnd' : ((sortByKey l).map (·.1)).Nodup := (hperm.map (·.1)).nodup_iff.mpr hnd
  have hs : (sortByKey l).Pairwise (fun a b => a.1 < b.1) := by
    rw [List.Nodup, List.pairwise_map] at hnd'
    exact ((sortByKey_sorted l).and hnd').imp (fun h => lt_of_le_of_ne h.1 h.2)
  exact List.Perm.eq_of_pairwise (fun a b _ _ hab hba => absurd hab (lt_asymm hba)) hs ht hperm

end Glotaran.C09
