/-
C08 — helper lemmas for GlotaranProofs/Props/C08.lean.
-/
import GlotaranModel.C08
import GlotaranProofs.Lemmas.C02
import Mathlib.Tactic.Linarith
import Mathlib.Algebra.Order.AbsoluteValue.Basic
namespace Glotaran.C08
open Glotaran.LinAlg Glotaran.C02

/-! ### the order on extended bounds -/

theorem EB.le_refl (a : EB) : a.le a = true := by
  cases a <;> simp [EB.le]

theorem EB.le_trans {a b c : EB} (h1 : a.le b = true) (h2 : b.le c = true) : a.le c = true := by
  cases a <;> cases b <;> cases c <;> simp_all [EB.le]
  exact _root_.le_trans h1 h2

theorem EB.le_total (a b : EB) : a.le b = true ∨ b.le a = true := by
  cases a <;> cases b <;> simp [EB.le]
  exact _root_.le_total _ _

theorem EB.le_antisymm {a b : EB} (h1 : a.le b = true) (h2 : b.le a = true) : a = b := by
  cases a <;> cases b <;> simp_all [EB.le]
  exact _root_.le_antisymm h1 h2

theorem EB.fin_le_fin (a b : Rat) : (EB.fin a).le (.fin b) = true ↔ a ≤ b := by
  simp [EB.le]

/-- the smaller / larger of two bounds: the closed interval an item acts on is `[emin lo hi, emax lo hi]` -/
def emin (a b : EB) : EB := if a.le b then a else b
def emax (a b : EB) : EB := if a.le b then b else a

theorem emin_le_emax (a b : EB) : (emin a b).le (emax a b) = true := by
  unfold emin emax
  split
  · assumption
  · rename_i h
    rcases EB.le_total a b with h' | h'
    · exact absurd h' h
    · exact h'

theorem emin_comm (a b : EB) : emin a b = emin b a := by
  unfold emin
  by_cases h1 : a.le b = true <;> by_cases h2 : b.le a = true <;> simp [h1, h2]
  · exact EB.le_antisymm h1 h2
  · rcases EB.le_total a b with h | h <;> simp_all

theorem emax_comm (a b : EB) : emax a b = emax b a := by
  unfold emax
  by_cases h1 : a.le b = true <;> by_cases h2 : b.le a = true <;> simp [h1, h2]
  · exact (EB.le_antisymm h1 h2).symm
  · rcases EB.le_total a b with h | h <;> simp_all

theorem contains_eq (lo hi : EB) (x : Rat) :
    Interval.contains ⟨lo, hi⟩ x = ((emin lo hi).le (.fin x) && EB.le (.fin x) (emax lo hi)) := by
  unfold Interval.contains emin emax
  by_cases h : lo.le hi = true <;> simp [h]

/-! ### `np.abs(axis - b).argmin()` : the first minimum -/

theorem absR_eq_abs (r : Rat) : absR r = |r| := by
  unfold absR
  split
  · rename_i h; exact (abs_of_neg h).symm
  · rename_i h; exact (abs_of_nonneg (not_lt.mp h)).symm

/-- one step of the running first-minimum: (index of best, best value, current index) -/
def amStep (acc : Nat × Rat × Nat) (v : Rat) : Nat × Rat × Nat :=
  if v < acc.2.1 then (acc.2.2 + 1, v, acc.2.2 + 1) else (acc.1, acc.2.1, acc.2.2 + 1)

/-- invariant of the running first-minimum with respect to the sequence `f` -/
def AmInv (f : Nat → Rat) (acc : Nat × Rat × Nat) : Prop :=
  acc.1 ≤ acc.2.2 ∧ acc.2.1 = f acc.1 ∧ (∀ i, i ≤ acc.2.2 → acc.2.1 ≤ f i) ∧ (∀ i, i < acc.1 → acc.2.1 < f i)

theorem amStep_inv (f : Nat → Rat) (acc : Nat × Rat × Nat) (v : Rat) (h : AmInv f acc)
    (hv : v = f (acc.2.2 + 1)) : AmInv f (amStep acc v) ∧ (amStep acc v).2.2 = acc.2.2 + 1 := by
  obtain ⟨h1, h2, h3, h4⟩ := h
  unfold amStep
  split
  · rename_i hlt
    refine ⟨⟨_root_.le_refl _, hv, ?_, ?_⟩, rfl⟩
    · intro i hi
      simp only at hi ⊢
      rcases Nat.lt_or_ge i (acc.2.2 + 1) with hlt' | hge
      · exact le_of_lt (lt_of_lt_of_le hlt (h3 i (Nat.lt_succ_iff.mp hlt')))
      · have : i = acc.2.2 + 1 := Nat.le_antisymm hi hge
        rw [this, hv]
    · intro i hi
      simp only at hi ⊢
      exact lt_of_lt_of_le hlt (h3 i (Nat.lt_succ_iff.mp hi))
  · rename_i hnlt
    refine ⟨⟨Nat.le_succ_of_le h1, h2, ?_, h4⟩, rfl⟩
    intro i hi
    simp only at hi ⊢
    rcases Nat.lt_or_ge i (acc.2.2 + 1) with hlt' | hge
    · exact h3 i (Nat.lt_succ_iff.mp hlt')
    · have : i = acc.2.2 + 1 := Nat.le_antisymm hi hge
      rw [this, ← hv]; exact not_lt.mp hnlt

theorem amFold_inv (f : Nat → Rat) : ∀ (rest : List Rat) (acc : Nat × Rat × Nat), AmInv f acc →
    (∀ k (hk : k < rest.length), rest[k] = f (acc.2.2 + 1 + k)) →
    AmInv f (rest.foldl amStep acc) ∧ (rest.foldl amStep acc).2.2 = acc.2.2 + rest.length := by
  intro rest
  induction rest with
  | nil => intro acc h _; exact ⟨h, rfl⟩
  | cons v tl ih =>
    intro acc h hf
    have hv : v = f (acc.2.2 + 1) := by
      have := hf 0 (by simp)
      simpa using this
    obtain ⟨hi, hc⟩ := amStep_inv f acc v h hv
    have := ih (amStep acc v) hi (by
      intro k hk
      have := hf (k + 1) (by simpa using hk)
      simp only [List.getElem_cons_succ] at this
      rw [this, hc]; congr 1; omega)
    refine ⟨this.1, ?_⟩
    rw [List.foldl_cons, this.2, hc]; simp; omega

theorem argminAbs_eq (axis : List Rat) (b : Rat) :
    argminAbs axis b =
      match axis.map (fun a => absR (a - b)) with
      | [] => 0
      | d :: rest => (rest.foldl amStep (0, d, 0)).1 := by
  unfold argminAbs
  rfl

/-- distance of axis point `i` to the bound `b` -/
def dist (axis : List Rat) (b : Rat) (i : Nat) : Rat := |axis.getD i 0 - b|

/-- **`argmin` is the first index of minimal distance** -/
theorem argminAbs_spec (axis : List Rat) (b : Rat) (hne : axis ≠ []) :
    argminAbs axis b < axis.length ∧
    (∀ i, i < axis.length → dist axis b (argminAbs axis b) ≤ dist axis b i) ∧
    (∀ i, i < argminAbs axis b → dist axis b (argminAbs axis b) < dist axis b i) := by
  cases axis with
  | nil => exact absurd rfl hne
  | cons a0 tl =>
    rw [argminAbs_eq]
    simp only [List.map_cons]
    let f : Nat → Rat := fun i => absR ((a0 :: tl).getD i 0 - b)
    have h0 : AmInv f (0, absR (a0 - b), 0) := by
      refine ⟨_root_.le_refl _, by simp [f], ?_, ?_⟩
      · intro i hi
        have : i = 0 := Nat.le_zero.mp hi
        subst this; simp [f]
      · intro i hi; exact absurd hi (Nat.not_lt_zero _)
    have hf : ∀ k (hk : k < (tl.map (fun a => absR (a - b))).length),
        (tl.map (fun a => absR (a - b)))[k] = f ((0, absR (a0 - b), 0).2.2 + 1 + k) := by
      intro k hk
      have hk' : k < tl.length := by simpa using hk
      simp [f, List.getD_eq_getElem?_getD, List.getElem?_eq_getElem hk', Nat.add_comm]
    obtain ⟨⟨h1, h2, h3, h4⟩, hc⟩ := amFold_inv f _ _ h0 hf
    simp only [List.length_map, Nat.zero_add] at hc
    refine ⟨?_, ?_, ?_⟩
    · simp only [List.length_cons]; omega
    · intro i hi
      simp only [List.length_cons] at hi
      have := h3 i (by omega)
      rw [h2] at this
      simpa [f, dist, absR_eq_abs] using this
    · intro i hi
      have := h4 i hi
      rw [h2] at this
      simpa [f, dist, absR_eq_abs] using this

/-! ### strictly increasing axes -/

theorem sorted_getD_lt {axis : List Rat} (hs : axis.Pairwise (· < ·)) {i j : Nat} (hij : i < j)
    (hj : j < axis.length) : axis.getD i 0 < axis.getD j 0 := by
  have hi : i < axis.length := Nat.lt_trans hij hj
  simp only [List.getD_eq_getElem?_getD, List.getElem?_eq_getElem hi, List.getElem?_eq_getElem hj, Option.getD_some]
  exact List.pairwise_iff_getElem.mp hs i j hi hj hij

theorem sorted_getD_le {axis : List Rat} (hs : axis.Pairwise (· < ·)) {i j : Nat} (hij : i ≤ j)
    (hj : j < axis.length) : axis.getD i 0 ≤ axis.getD j 0 := by
  rcases Nat.lt_or_ge i j with h | h
  · exact le_of_lt (sorted_getD_lt hs h hj)
  · have : i = j := Nat.le_antisymm hij h
    subst this; exact _root_.le_refl _

theorem dist_of_ge {axis : List Rat} {b : Rat} {i : Nat} (h : b ≤ axis.getD i 0) :
    dist axis b i = axis.getD i 0 - b := by
  unfold dist; exact abs_of_nonneg (by linarith)

theorem dist_of_le {axis : List Rat} {b : Rat} {i : Nat} (h : axis.getD i 0 ≤ b) :
    dist axis b i = b - axis.getD i 0 := by
  unfold dist; rw [abs_sub_comm]; exact abs_of_nonneg (by linarith)

/-- a point at or above the bound is not before the bound's nearest index -/
theorem argmin_le_of_ge {axis : List Rat} (hs : axis.Pairwise (· < ·)) {b : Rat} {k : Nat}
    (hk : k < axis.length) (h : b ≤ axis.getD k 0) : argminAbs axis b ≤ k := by
  have hne : axis ≠ [] := by intro e; subst e; simp at hk
  obtain ⟨hj, _, hfirst⟩ := argminAbs_spec axis b hne
  by_contra hcon
  have hlt : k < argminAbs axis b := Nat.lt_of_not_ge hcon
  have h1 := hfirst k hlt
  have h2 := sorted_getD_lt hs hlt hj
  rw [dist_of_ge h, dist_of_ge (le_of_lt (lt_of_le_of_lt h h2))] at h1
  linarith

/-- a point at or below the bound is not after the bound's nearest index -/
theorem le_argmin_of_le {axis : List Rat} (hs : axis.Pairwise (· < ·)) {b : Rat} {k : Nat}
    (hk : k < axis.length) (h : axis.getD k 0 ≤ b) : k ≤ argminAbs axis b := by
  have hne : axis ≠ [] := by intro e; subst e; simp at hk
  obtain ⟨_, hmin, _⟩ := argminAbs_spec axis b hne
  by_contra hcon
  have hlt : argminAbs axis b < k := Nat.lt_of_not_ge hcon
  have h1 := hmin k hk
  have h2 := sorted_getD_lt hs hlt hk
  rw [dist_of_le h, dist_of_le (le_of_lt (lt_of_lt_of_le h2 h))] at h1
  linarith

/-- **the nearest index is monotone in the bound** -/
theorem argmin_mono {axis : List Rat} (hs : axis.Pairwise (· < ·)) {b b' : Rat} (hb : b ≤ b') :
    argminAbs axis b ≤ argminAbs axis b' := by
  by_cases hne : axis = []
  · subst hne; simp [argminAbs]
  obtain ⟨hj, _, hfirst⟩ := argminAbs_spec axis b hne
  obtain ⟨hj', hmin', _⟩ := argminAbs_spec axis b' hne
  by_contra hcon
  have hlt : argminAbs axis b' < argminAbs axis b := Nat.lt_of_not_ge hcon
  have h1 := hfirst _ hlt          -- dist b j < dist b j'
  have h2 := hmin' _ hj            -- dist b' j' ≤ dist b' j
  have h3 := sorted_getD_lt hs hlt hj   -- a_j' < a_j
  unfold dist at h1 h2
  generalize axis.getD (argminAbs axis b) 0 = x at h1 h2 h3
  generalize axis.getD (argminAbs axis b') 0 = y at h1 h2 h3
  rcases abs_cases (x - b) with ⟨e1, _⟩ | ⟨e1, _⟩ <;> rcases abs_cases (y - b) with ⟨e2, _⟩ | ⟨e2, _⟩ <;>
    rcases abs_cases (y - b') with ⟨e3, _⟩ | ⟨e3, _⟩ <;> rcases abs_cases (x - b') with ⟨e4, _⟩ | ⟨e4, _⟩ <;>
    rw [e1, e2] at h1 <;> rw [e3, e4] at h2 <;> linarith

/-! ### `nearestIdx`, `axisSlice` -/

/-- `k` is an axis point nearest to the bound: `−∞` is nearest to the first point, `+∞` to the last,
    a finite bound to every point of minimal distance -/
def IsNearest (axis : List Rat) (b : EB) (k : Nat) : Prop :=
  match b with
  | .ninf => k = 0
  | .pinf => k + 1 = axis.length
  | .fin r => k < axis.length ∧ ∀ i, i < axis.length → dist axis r k ≤ dist axis r i

theorem axisSlice_eq (lo hi : EB) (axis : List Rat) :
    axisSlice lo hi axis = (nearestIdx axis (emin lo hi), nearestIdx axis (emax lo hi) + 1) := by
  unfold axisSlice emin emax
  by_cases h : lo.le hi = true <;> simp [h]

theorem nearestIdx_lt {axis : List Rat} (hne : axis ≠ []) (b : EB) : nearestIdx axis b < axis.length := by
  have hpos : 0 < axis.length := List.length_pos_iff.mpr hne
  cases b with
  | ninf => exact hpos
  | pinf => simp only [nearestIdx]; omega
  | fin r => exact (argminAbs_spec axis r hne).1

theorem nearestIdx_isNearest {axis : List Rat} (hne : axis ≠ []) (b : EB) :
    IsNearest axis b (nearestIdx axis b) := by
  have hpos : 0 < axis.length := List.length_pos_iff.mpr hne
  cases b with
  | ninf => rfl
  | pinf => simp only [IsNearest, nearestIdx]; omega
  | fin r => exact ⟨(argminAbs_spec axis r hne).1, (argminAbs_spec axis r hne).2.1⟩

/-- the code's choice is the first of the nearest points -/
theorem nearestIdx_le_of_isNearest {axis : List Rat} (hne : axis ≠ []) (b : EB) (j : Nat)
    (hj : IsNearest axis b j) : nearestIdx axis b ≤ j := by
  cases b with
  | ninf => simp [nearestIdx]
  | pinf => simp only [IsNearest] at hj; simp only [nearestIdx]; omega
  | fin r =>
    obtain ⟨hjl, hjm⟩ := hj
    obtain ⟨ha, _, hfirst⟩ := argminAbs_spec axis r hne
    by_contra hcon
    have h1 := hfirst j (Nat.lt_of_not_ge hcon)
    have h2 := hjm _ ha
    exact absurd h1 (not_lt.mpr h2)

theorem nearestIdx_le_of_ge {axis : List Rat} (hs : axis.Pairwise (· < ·)) {b : EB} {k : Nat}
    (hk : k < axis.length) (h : b.le (.fin (axis.getD k 0)) = true) : nearestIdx axis b ≤ k := by
  cases b with
  | ninf => simp [nearestIdx]
  | pinf => simp [EB.le] at h
  | fin r => exact argmin_le_of_ge hs hk ((EB.fin_le_fin _ _).mp h)

theorem le_nearestIdx_of_le {axis : List Rat} (hs : axis.Pairwise (· < ·)) {b : EB} {k : Nat}
    (hk : k < axis.length) (h : EB.le (.fin (axis.getD k 0)) b = true) : k ≤ nearestIdx axis b := by
  cases b with
  | ninf => simp [EB.le] at h
  | pinf => simp only [nearestIdx]; omega
  | fin r => exact le_argmin_of_le hs hk ((EB.fin_le_fin _ _).mp h)

theorem nearestIdx_mono {axis : List Rat} (hs : axis.Pairwise (· < ·)) {b b' : EB}
    (h : b.le b' = true) : nearestIdx axis b ≤ nearestIdx axis b' := by
  by_cases hne : axis = []
  · subst hne; cases b <;> cases b' <;> simp [nearestIdx, argminAbs]
  cases b with
  | ninf => simp [nearestIdx]
  | pinf =>
    cases b' with
    | pinf => exact _root_.le_refl _
    | ninf => simp [EB.le] at h
    | fin r => simp [EB.le] at h
  | fin r =>
    cases b' with
    | ninf => simp [EB.le] at h
    | pinf =>
      have := (argminAbs_spec axis r hne).1
      simp only [nearestIdx]; omega
    | fin r' => exact argmin_mono hs ((EB.fin_le_fin _ _).mp h)

/-- a point of the slice below the lower bound is a nearest point of the lower bound -/
theorem below_isNearest {axis : List Rat} (hs : axis.Pairwise (· < ·)) {b : EB} {k : Nat}
    (hk : k < axis.length) (hge : nearestIdx axis b ≤ k) (hbelow : b.le (.fin (axis.getD k 0)) = false) :
    IsNearest axis b k := by
  have hne : axis ≠ [] := by intro e; subst e; simp at hk
  cases b with
  | ninf => simp [EB.le] at hbelow
  | pinf => simp only [nearestIdx] at hge; simp only [IsNearest]; omega
  | fin r =>
    have hlt : axis.getD k 0 < r := by
      have : ¬ r ≤ axis.getD k 0 := by
        intro hle; rw [(EB.fin_le_fin _ _).mpr hle] at hbelow; cases hbelow
      exact not_le.mp this
    obtain ⟨ha, hmin, _⟩ := argminAbs_spec axis r hne
    refine ⟨hk, fun i hi => ?_⟩
    have h1 : axis.getD (argminAbs axis r) 0 ≤ axis.getD k 0 := sorted_getD_le hs hge hk
    have h2 := hmin i hi
    rw [dist_of_le (le_of_lt hlt)]
    rw [dist_of_le (_root_.le_trans h1 (le_of_lt hlt))] at h2
    linarith

/-- a point of the slice above the upper bound is a nearest point of the upper bound -/
theorem above_isNearest {axis : List Rat} (hs : axis.Pairwise (· < ·)) {b : EB} {k : Nat}
    (hk : k < axis.length) (hle : k ≤ nearestIdx axis b) (habove : EB.le (.fin (axis.getD k 0)) b = false) :
    IsNearest axis b k := by
  have hne : axis ≠ [] := by intro e; subst e; simp at hk
  cases b with
  | pinf => simp [EB.le] at habove
  | ninf => simp only [nearestIdx] at hle; simp only [IsNearest]; omega
  | fin r =>
    have hlt : r < axis.getD k 0 := by
      have : ¬ axis.getD k 0 ≤ r := by
        intro h; rw [(EB.fin_le_fin _ _).mpr h] at habove; cases habove
      exact not_le.mp this
    obtain ⟨ha, hmin, _⟩ := argminAbs_spec axis r hne
    refine ⟨hk, fun i hi => ?_⟩
    have h1 : axis.getD k 0 ≤ axis.getD (argminAbs axis r) 0 := sorted_getD_le hs hle ha
    have h2 := hmin i hi
    rw [dist_of_ge (le_of_lt hlt)]
    rw [dist_of_ge (_root_.le_trans (le_of_lt hlt) h1)] at h2
    linarith

/-- interval `i` lies within interval `j` (as closed intervals, whatever the order of the bounds) -/
def _root_.Glotaran.C02.Interval.within (i j : Interval) : Prop :=
  (emin j.lo j.hi).le (emin i.lo i.hi) = true ∧ (emax i.lo i.hi).le (emax j.lo j.hi) = true

/-! ### `_get_area`: clamping to the axis range does not change the slice -/

theorem areaSlice_eq (iv : Interval) (axis : List Rat) :
    areaSlice iv axis =
      if (emin iv.lo iv.hi).le (.fin (axis.getLastD 0)) then
        some (axisSlice (ebMax (emin iv.lo iv.hi) (listMin axis)) (ebMin (emax iv.lo iv.hi) (listMax axis)) axis)
      else none := by
  unfold areaSlice emin emax
  by_cases h : iv.lo.le iv.hi = true <;> simp [h] <;> split <;> simp_all

theorem foldl_min_eq (l : List Rat) (a : Rat) (h : ∀ b ∈ l, a ≤ b) :
    l.foldl (fun a b => if b < a then b else a) a = a := by
  induction l with
  | nil => rfl
  | cons b t ih =>
    have hb : ¬ b < a := not_lt.mpr (h b (by simp))
    simp only [List.foldl_cons, hb, if_false]
    exact ih (fun c hc => h c (List.mem_cons_of_mem _ hc))

theorem foldl_max_eq : ∀ (l : List Rat) (a : Rat), (a :: l).Pairwise (· < ·) →
    l.foldl (fun a b => if a < b then b else a) a = (a :: l).getLastD 0 := by
  intro l
  induction l with
  | nil => intro a _; rfl
  | cons b t ih =>
    intro a h
    have hab : a < b := (List.pairwise_cons.mp h).1 b (by simp)
    simp only [List.foldl_cons, hab, if_true]
    rw [ih b (List.pairwise_cons.mp h).2]
    simp [List.getLastD]

theorem listMin_sorted {axis : List Rat} (hs : axis.Pairwise (· < ·)) : listMin axis = axis.getD 0 0 := by
  cases axis with
  | nil => rfl
  | cons a t =>
    unfold listMin
    simp only [List.headD_cons, List.foldl_cons, lt_irrefl, if_false, List.getD_cons_zero]
    exact foldl_min_eq t a (fun b hb => le_of_lt ((List.pairwise_cons.mp hs).1 b hb))

theorem getLastD_eq_getD (axis : List Rat) : axis.getLastD 0 = axis.getD (axis.length - 1) 0 := by
  rw [List.getLastD_eq_getLast?, List.getLast?_eq_getElem?, List.getD_eq_getElem?_getD]

theorem listMax_sorted {axis : List Rat} (hs : axis.Pairwise (· < ·)) : listMax axis = axis.getLastD 0 := by
  cases axis with
  | nil => rfl
  | cons a t =>
    unfold listMax
    simp only [List.headD_cons, List.foldl_cons, lt_irrefl, if_false]
    exact foldl_max_eq t a hs

/-- a bound at or below the first point has nearest index 0 -/
theorem nearestIdx_of_le_first {axis : List Rat} (hs : axis.Pairwise (· < ·)) (hne : axis ≠ []) {b : EB}
    (h : b.le (.fin (axis.getD 0 0)) = true) : nearestIdx axis b = 0 :=
  Nat.le_zero.mp (nearestIdx_le_of_ge hs (List.length_pos_iff.mpr hne) h)

/-- a bound at or above the last point has the last index as nearest index -/
theorem nearestIdx_of_ge_last {axis : List Rat} (hs : axis.Pairwise (· < ·)) (hne : axis ≠ []) {b : EB}
    (h : EB.le (.fin (axis.getD (axis.length - 1) 0)) b = true) : nearestIdx axis b = axis.length - 1 := by
  have hpos : 0 < axis.length := List.length_pos_iff.mpr hne
  have h1 := le_nearestIdx_of_le hs (k := axis.length - 1) (by omega) h
  have h2 := nearestIdx_lt hne b
  omega

theorem nearestIdx_ebMax {axis : List Rat} (hs : axis.Pairwise (· < ·)) (hne : axis ≠ []) (b : EB) :
    nearestIdx axis (ebMax b (axis.getD 0 0)) = nearestIdx axis b := by
  unfold ebMax
  split
  · rename_i h
    rw [nearestIdx_of_le_first hs hne h, nearestIdx_of_le_first hs hne (EB.le_refl _)]
  · rfl

theorem nearestIdx_ebMin {axis : List Rat} (hs : axis.Pairwise (· < ·)) (hne : axis ≠ []) (b : EB) :
    nearestIdx axis (ebMin b (axis.getD (axis.length - 1) 0)) = nearestIdx axis b := by
  unfold ebMin
  split
  · rfl
  · rename_i h
    have h' : EB.le (.fin (axis.getD (axis.length - 1) 0)) b = true := by
      rcases EB.le_total b (.fin (axis.getD (axis.length - 1) 0)) with h1 | h1
      · exact absurd h1 h
      · exact h1
    rw [nearestIdx_of_ge_last hs hne h', nearestIdx_of_ge_last hs hne (EB.le_refl _)]

/-- **the clamping in `_get_area` is a no-op**: on a strictly increasing axis the slice of the clamped
    bounds is the slice of the bounds themselves -/
theorem clamped_slice_eq {axis : List Rat} (hs : axis.Pairwise (· < ·)) (hne : axis ≠ []) (lo hi : EB) :
    axisSlice (ebMax (emin lo hi) (listMin axis)) (ebMin (emax lo hi) (listMax axis)) axis =
      axisSlice lo hi axis := by
  rw [listMin_sorted hs, listMax_sorted hs, getLastD_eq_getD]
  generalize hL : ebMax (emin lo hi) (axis.getD 0 0) = L
  generalize hU : ebMin (emax lo hi) (axis.getD (axis.length - 1) 0) = U
  have eL : nearestIdx axis L = nearestIdx axis (emin lo hi) := by rw [← hL]; exact nearestIdx_ebMax hs hne _
  have eU : nearestIdx axis U = nearestIdx axis (emax lo hi) := by rw [← hU]; exact nearestIdx_ebMin hs hne _
  rw [axisSlice_eq L U, axisSlice_eq lo hi]
  by_cases h : L.le U = true
  · simp only [emin, emax, h, if_true, eL, eU]
  · have h' : U.le L = true := by
      rcases EB.le_total L U with h1 | h1
      · exact absurd h1 h
      · exact h1
    have m1 : nearestIdx axis (emin lo hi) ≤ nearestIdx axis (emax lo hi) := nearestIdx_mono hs (emin_le_emax lo hi)
    have m2 : nearestIdx axis U ≤ nearestIdx axis L := nearestIdx_mono hs h'
    rw [eL, eU] at m2
    have e : nearestIdx axis (emin lo hi) = nearestIdx axis (emax lo hi) := Nat.le_antisymm m1 m2
    have e1 : emin L U = U := by simp [emin, h]
    have e2 : emax L U = L := by simp [emax, h]
    rw [e1, e2, eU, eL, e]

theorem mem_getArea (label : String) (labels : List (List String)) (clps : List Vec)
    (ivs : List Interval) (axis : List Rat) (v : Rat) :
    v ∈ getArea label labels clps ivs axis ↔
      ∃ iv ∈ ivs, ∃ s e, areaSlice iv axis = some (s, e) ∧ ∃ i, s ≤ i ∧ i < e ∧
        ∃ j, (labels.getD i []).idxOf? label = some j ∧ v = (clps.getD i []).getD j 0 := by
  unfold getArea
  simp only [List.mem_flatMap, List.getD_eq_getElem?_getD]
  constructor
  · rintro ⟨iv, hiv, hv⟩
    refine ⟨iv, hiv, ?_⟩
    cases ha : areaSlice iv axis with
    | none => simp [ha] at hv
    | some se =>
      obtain ⟨s, e⟩ := se
      simp only [ha, List.mem_filterMap, List.mem_range] at hv
      obtain ⟨k, hk, hm⟩ := hv
      refine ⟨s, e, rfl, s + k, Nat.le_add_right _ _, by omega, ?_⟩
      cases hj : List.idxOf? label (labels[s + k]?.getD []) with
      | none => rw [hj] at hm; cases hm
      | some j =>
        rw [hj] at hm
        simp only [Option.some.injEq] at hm
        exact ⟨j, rfl, hm.symm⟩
  · rintro ⟨iv, hiv, s, e, ha, i, h1, h2, j, hj, hv⟩
    refine ⟨iv, hiv, ?_⟩
    simp only [ha, List.mem_filterMap, List.mem_range]
    refine ⟨i - s, by omega, ?_⟩
    have : s + (i - s) = i := by omega
    rw [this, hj, hv]

/-! ### model weights -/

/-- entry (m, g) of a (model × global) matrix, `0` outside -/
def entry (w : Mat) (m g : Nat) : Rat := (w.getD m []).getD g 0

theorem entry_applyWeight (ma ga : List Rat) (w : Mat) (it : WeightItem) (m g : Nat) :
    entry (applyWeight ma ga w it) m g =
      if it.covers ma ga m g then entry w m g * it.value else entry w m g := by
  unfold entry applyWeight
  simp only [List.getD_eq_getElem?_getD, List.getElem?_mapIdx]
  cases hm : w[m]? with
  | none => simp
  | some row =>
    simp only [Option.map_some, Option.getD_some, List.getElem?_mapIdx]
    cases hg : row[g]? with
    | none => simp
    | some v => simp

theorem entry_foldl_applyWeight (ma ga : List Rat) (m g : Nat) : ∀ (items : List WeightItem) (w : Mat),
    entry (items.foldl (applyWeight ma ga) w) m g =
      (items.filter (fun it => it.covers ma ga m g)).foldl (fun acc it => acc * it.value) (entry w m g) := by
  intro items
  induction items with
  | nil => intro w; rfl
  | cons it tl ih =>
    intro w
    rw [List.foldl_cons, ih, entry_applyWeight]
    by_cases hc : it.covers ma ga m g = true
    · simp [hc]
    · simp [hc]

theorem entry_ones (nm ng m g : Nat) (hm : m < nm) (hg : g < ng) : entry (ones nm ng) m g = 1 := by
  unfold entry ones
  simp [List.getD_eq_getElem?_getD, hm, hg]

/-- membership of an axis value in an optional weight interval (no interval: the whole axis) -/
def insideOpt (iv : Option (EB × EB)) (x : Rat) : Prop :=
  match iv with
  | none => True
  | some (lo, hi) => Interval.contains ⟨lo, hi⟩ x = true

theorem inSlice_of_inside {axis : List Rat} (hs : axis.Pairwise (· < ·)) (iv : Option (EB × EB)) (k : Nat)
    (hk : k < axis.length) (h : insideOpt iv (axis.getD k 0)) : inSlice (sliceOf iv axis) k = true := by
  cases iv with
  | none => simp [inSlice, sliceOf, hk]
  | some p =>
    obtain ⟨lo, hi⟩ := p
    have hc : Interval.contains ⟨lo, hi⟩ (axis.getD k 0) = true := h
    have hl : nearestIdx axis (emin lo hi) ≤ k :=
      nearestIdx_le_of_ge hs hk (by rw [contains_eq] at hc; simp at hc; exact hc.1)
    have hu : k ≤ nearestIdx axis (emax lo hi) :=
      le_nearestIdx_of_le hs hk (by rw [contains_eq] at hc; simp at hc; exact hc.2)
    simp only [inSlice, sliceOf, axisSlice_eq, Bool.and_eq_true, decide_eq_true_eq]
    exact ⟨hl, Nat.lt_succ_of_le hu⟩
