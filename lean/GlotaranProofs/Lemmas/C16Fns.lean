/-
C16 — the translated source functions (Generated/C16Fns.lean) equal the hand-written model: helper lemmas.
-/
import GlotaranProofs.Lemmas.C16
import GlotaranModel.Generated.C16Fns
set_option linter.unusedSimpArgs false
namespace Glotaran.C16
open Generated

/-! ### the model's type tests are `isinstance` -/

theorem isStr_eq (a : Atom) : Py.Atom.isinst a [Py.Ty.str] = isStr a := by
  cases a with
  | cell c => cases c <;> rfl
  | opts o => rfl

theorem isNum_eq (a : Atom) : Py.Atom.isinst a [Py.Ty.int, Py.Ty.float] = isNum a := by
  cases a with
  | cell c => cases c <;> rfl
  | opts o => rfl

theorem isDict_eq (a : Atom) : Py.Atom.isinst a [Py.Ty.dict] = isDict a := by
  cases a with
  | cell c => cases c <;> rfl
  | opts o => rfl

theorem isDictItem_eq (x : Item) : Py.Item.isinst x [Py.Ty.dict] = isDictItem x := by
  cases x with
  | bare a => cases a with
    | cell c => cases c <;> rfl
    | opts o => rfl
  | lst l => rfl

theorem convert_eq (env : Py.Env) (s : String) :
    Fns.convert_scientific_to_float env s = sanitizeAtom env.T (.cell (.str s)) := by
  unfold Fns.convert_scientific_to_float sanitizeAtom Py.float
  by_cases h : sciMatch s = true
  · simp only [h, if_true]
    cases hT : env.T s with
    | none => simp [bind, Except.bind]
    | some o => cases o <;> simp [bind, Except.bind, pure, Except.pure]
  · simp [h, bind, Except.bind, pure, Except.pure]

theorem mapM_congr_except {α β : Type} (f g : α → Except Err β) (h : ∀ a, f a = g a) (l : List α) :
    l.mapM f = l.mapM g := by
  have : f = g := funext h
  rw [this]

theorem sanitize_eq (env : Py.Env) (xs : List Atom) :
    Fns.sanitize_parameter_list env xs = sanitize env.T xs := by
  unfold Fns.sanitize_parameter_list sanitize
  have hf : ∀ f : Atom → Except Err Atom, (∀ a, f a = sanitizeAtom env.T a) →
      (do let t ← xs.mapM f; pure t) = xs.mapM (sanitizeAtom env.T) := by
    intro f h
    rw [funext h (f := f)]
    try simp
  apply hf
  intro a
  cases a with
  | cell c =>
    cases c with
    | str s =>
      simp only [convert_eq]
      try first
        | rfl
        | (cases h : sanitizeAtom env.T (.cell (.str s)) <;> simp [h, bind, Except.bind, pure, Except.pure])
    | _ => simp [sanitizeAtom, bind, Except.bind, pure, Except.pure]
  | opts o => simp [sanitizeAtom, bind, Except.bind, pure, Except.pure]

/-! ### `deserialize_options`, `_retrieve_item_from_list_by_type` -/

theorem deserialize_options_eq (env : Py.Env) (o : Opts) :
    Fns.deserialize_options env o = .ok (Py.dictOf (deserialize o)) := by
  unfold Fns.deserialize_options deserialize deserializeName
  rfl

theorem filter_cons_spec {α : Type} [BEq α] [LawfulBEq α] (p : α → Bool) :
    ∀ (l : List α) (x : α) (rest : List α), l.filter p = x :: rest →
      l.find? p = some x ∧ l.erase x = l.eraseP p ∧ l.contains x = true := by
  intro l
  induction l with
  | nil => intro x rest h; simp at h
  | cons a l' ih =>
    intro x rest h
    by_cases hp : p a = true
    · simp only [List.filter_cons, hp, if_true, List.cons.injEq] at h
      obtain ⟨rfl, _⟩ := h
      simp [hp]
    · have hpf : p a = false := by simpa using hp
      simp only [List.filter_cons, hpf, Bool.false_eq_true, if_false] at h
      have hx : p x = true := by
        have : x ∈ l'.filter p := by rw [h]; simp
        exact (List.mem_filter.mp this).2
      have hne : a ≠ x := by
        intro e
        rw [e] at hpf
        rw [hpf] at hx
        cases hx
      obtain ⟨h1, h2, h3⟩ := ih x rest (by simpa using h)
      refine ⟨?_, ?_, ?_⟩
      · simp [List.find?_cons, hpf, h1]
      · rw [List.erase_cons_tail (by simpa using hne), List.eraseP_cons_of_neg (by simp [hpf]), h2]
      · have : x ∈ l' := by simpa using h3
        simp [this]

theorem filter_nil_spec {α : Type} (p : α → Bool) (l : List α) (h : l.filter p = []) :
    l.find? p = none ∧ l.eraseP p = l := by
  have hall : ∀ a ∈ l, ¬ p a = true := by
    intro a ha hp
    have : a ∈ l.filter p := List.mem_filter.mpr ⟨ha, hp⟩
    rw [h] at this
    cases this
  refine ⟨?_, ?_⟩
  · rw [List.find?_eq_none]
    exact hall
  · exact List.eraseP_of_forall_not hall

theorem retrieve_eq (env : Py.Env) (l : List Atom) (tys : List Py.Ty) (d : Atom) :
    Fns.retrieve_item_from_list_by_type env l tys d =
      .ok ((l.find? (fun x => Py.Atom.isinst x tys)).getD d, l.eraseP (fun x => Py.Atom.isinst x tys)) := by
  unfold Fns.retrieve_item_from_list_by_type
  cases h : l.filter (fun x => Py.Atom.isinst x tys) with
  | nil =>
    obtain ⟨h1, h2⟩ := filter_nil_spec _ l h
    simp [h, h1, h2, pure, Except.pure]
  | cons x rest =>
    obtain ⟨h1, h2, h3⟩ := filter_cons_spec _ l x rest h
    have h4 : x ∈ l := by simpa using h3
    simp [h, h1, h2, h3, h4, Py.index, Py.remove, bind, Except.bind, pure, Except.pure]

/-! ### a dict comprehension merged with `|=` -/

theorem dictSet_eq_setKey (d : List (String × Cell)) (k : String) (v : Cell) : Py.dictSet d k v = setKey d k v := rfl

theorem foldl_dictSet_eq : ∀ (xs d : List (String × Cell)),
    xs.foldl (fun d e => Py.dictSet d e.1 e.2) d = dictUpdate d xs := by
  intro xs
  induction xs with
  | nil => intro d; rfl
  | cons e rest ih =>
    intro d
    obtain ⟨k, v⟩ := e
    rw [List.foldl_cons, ih, dictUpdate_cons]
    rfl

theorem dictOf_eq (xs : List (String × Cell)) : Py.dictOf xs = dictUpdate [] xs := foldl_dictSet_eq xs []

def keys (d : List (String × Cell)) : List String := d.map (·.1)

theorem any_iff_mem_keys (d : List (String × Cell)) (k : String) : d.any (·.1 = k) = true ↔ k ∈ keys d := by
  unfold keys
  simp only [List.any_eq_true, decide_eq_true_eq, List.mem_map]

theorem keys_setKey (d : List (String × Cell)) (k : String) (v : Cell) :
    keys (setKey d k v) = if d.any (·.1 = k) then keys d else keys d ++ [k] := by
  unfold setKey keys
  split
  · simp only [List.map_map]
    apply List.map_congr_left
    intro e _
    by_cases he : e.1 = k <;> simp [he]
  · simp

theorem setKey_nodup (d : List (String × Cell)) (k : String) (v : Cell) (h : (keys d).Nodup) : (keys (setKey d k v)).Nodup := by
  rw [keys_setKey]
  split
  · exact h
  · rename_i hany
    rw [any_iff_mem_keys] at hany
    rw [List.nodup_append]
    refine ⟨h, by simp, ?_⟩
    intro a ha b hb
    simp only [List.mem_singleton] at hb
    subst hb
    intro e
    exact hany (e ▸ ha)

theorem dictUpdate_nodup : ∀ (xs d : List (String × Cell)), (keys d).Nodup → (keys (dictUpdate d xs)).Nodup := by
  intro xs
  induction xs with
  | nil => intro d h; exact h
  | cons e rest ih =>
    intro d h
    obtain ⟨k, v⟩ := e
    rw [dictUpdate_cons]
    exact ih _ (setKey_nodup d k v h)

theorem lastLookup_of_nodup : ∀ (b : List (String × Cell)), (keys b).Nodup → ∀ k, lastLookup b k = lookup b k := by
  intro b
  induction b with
  | nil => intro _ k; rfl
  | cons e r ih =>
    intro h k
    have hr : (keys r).Nodup := (List.nodup_cons.mp h).2
    have he : e.1 ∉ keys r := (List.nodup_cons.mp h).1
    have ih' := ih hr k
    unfold lastLookup at ih' ⊢
    rw [List.reverse_cons, lookup_append, ih', lookup_cons, lookup_cons, lookup_nil]
    by_cases hk : e.1 = k
    · have : lookup r k = none := by
        apply lookup_none_of_not_any
        rw [any_iff_mem_keys]
        exact hk ▸ he
      simp [hk, this]
    · simp [hk]

/-- merging the collapsed dict is merging the entries one after the other, as far as lookups go -/
theorem lookup_dictUpdate_dictOf (d xs : List (String × Cell)) (k : String) :
    lookup (dictUpdate d (Py.dictOf xs)) k = lookup (dictUpdate d xs) k := by
  rw [dictOf_eq, lookup_dictUpdate, lookup_dictUpdate,
    lastLookup_of_nodup _ (dictUpdate_nodup xs [] (by simp [keys])), lookup_dictUpdate, lookup_nil]
  simp

theorem any_setKey_all (d : List (String × Cell)) (k : String) (v : Cell) (P : String → Bool) :
    (setKey d k v).any (fun e => P e.1) = (d.any (fun e => P e.1) || P k) := by
  by_cases h : d.any (·.1 = k) = true
  · rw [any_setKey_keys d k v P h]
    by_cases hp : P k = true
    · have : d.any (fun e => P e.1) = true := by
        simp only [List.any_eq_true, decide_eq_true_eq] at h ⊢
        obtain ⟨e, he, hk⟩ := h
        exact ⟨e, he, hk ▸ hp⟩
      simp [this]
    · simp [hp]
  · unfold setKey
    simp [h]

theorem any_dictUpdate : ∀ (xs d : List (String × Cell)) (P : String → Bool),
    (dictUpdate d xs).any (fun e => P e.1) = (d.any (fun e => P e.1) || xs.any (fun e => P e.1)) := by
  intro xs
  induction xs with
  | nil => intro d P; simp [dictUpdate]
  | cons e rest ih =>
    intro d P
    obtain ⟨k, v⟩ := e
    rw [dictUpdate_cons, ih, any_setKey_all]
    simp [Bool.or_assoc]

theorem any_dictUpdate_dictOf (d xs : List (String × Cell)) (P : String → Bool) :
    (dictUpdate d (Py.dictOf xs)).any (fun e => P e.1) = (dictUpdate d xs).any (fun e => P e.1) := by
  rw [dictOf_eq, any_dictUpdate, any_dictUpdate, any_dictUpdate]
  simp

/-- `Parameter(**kw)` depends on the keyword dict through its lookups and its set of keys only -/
theorem mkParam_congr {a b : List (String × Cell)} (h1 : ∀ k, lookup a k = lookup b k)
    (h2 : ∀ P : String → Bool, a.any (fun e => P e.1) = b.any (fun e => P e.1)) : mkParam a = mkParam b := by
  have hl : lookup a = lookup b := funext h1
  have hc : checkKeys a = checkKeys b := by
    unfold checkKeys
    rw [h2 (fun k => !(Generated.paramFields.contains k))]
  unfold mkParam labelFrom restFrom
  rw [hc, hl]

/-! ### `Parameter.from_list` -/

theorem asCell_find (p : Atom → Bool) (hp : ∀ a, p a = true → ∃ c, a = .cell c) (l : List Atom) (d : Cell) :
    Py.asCell ((l.find? p).getD (.cell d)) = .ok (match l.find? p with | some (.cell c) => c | _ => d) := by
  cases h : l.find? p with
  | none => rfl
  | some a =>
    obtain ⟨c, rfl⟩ := hp a (List.find?_some h)
    rfl

theorem asOpts_find (l : List Atom) :
    Py.asOpts ((l.find? isDict).getD (.opts [])) = .ok (match l.find? isDict with | some (.opts o) => o | _ => []) := by
  cases h : l.find? isDict with
  | none => rfl
  | some a =>
    have := List.find?_some h
    cases a with
    | cell c => simp [isDict] at this
    | opts o => rfl

theorem isStr_cell (a : Atom) (h : isStr a = true) : ∃ c, a = .cell c := by
  cases a with
  | cell c => exact ⟨c, rfl⟩
  | opts o => simp [isStr] at h

theorem isNum_cell (a : Atom) (h : isNum a = true) : ∃ c, a = .cell c := by
  cases a with
  | cell c => exact ⟨c, rfl⟩
  | opts o => simp [isNum] at h

theorem truthyOpt_none {α : Type} : Py.truthyOpt (none : Option (List α)) = none := rfl
theorem truthyOpt_nil {α : Type} : Py.truthyOpt (some ([] : List α)) = none := rfl
theorem truthyOpt_cons {α : Type} (x : α) (xs : List α) : Py.truthyOpt (some (x :: xs)) = some (x :: xs) := rfl

theorem Parameter_from_list_eq (env : Py.Env) (values : List Atom) (defaults : Option Opts) :
    Fns.Parameter_from_list env values defaults = paramFromList env.T values defaults := by
  unfold Fns.Parameter_from_list paramFromList
  simp only [sanitize_eq, retrieve_eq, deserialize_options_eq]
  cases hs : sanitize env.T values with
  | error e => rfl
  | ok vs =>
    have e1 : (fun x => Py.Atom.isinst x [Py.Ty.str]) = isStr := funext isStr_eq
    have e2 : (fun x => Py.Atom.isinst x [Py.Ty.int, Py.Ty.float]) = isNum := funext isNum_eq
    have e3 : (fun x => Py.Atom.isinst x [Py.Ty.dict]) = isDict := funext isDict_eq
    simp only [bind, Except.bind, pure, Except.pure, e1, e2, e3,
      asCell_find isStr isStr_cell, asCell_find isNum isNum_cell, asOpts_find]
    unfold listKwargs
    simp only []
    cases defaults with
    | none =>
      simp only [truthyOpt_none]
      exact mkParam_congr (fun k => lookup_dictUpdate_dictOf _ _ k) (fun P => any_dictUpdate_dictOf _ _ P)
    | some d =>
      cases d with
      | nil =>
        simp only [truthyOpt_nil]
        exact mkParam_congr (fun k => by rw [lookup_dictUpdate_dictOf]; rfl) (fun P => by rw [any_dictUpdate_dictOf]; rfl)
      | cons x xs =>
        simp only [truthyOpt_cons]
        apply mkParam_congr
        · intro k
          rw [lookup_dictUpdate_dictOf]
          simp only [lookup_dictUpdate _ (dictUpdate _ _)]
          rw [lookup_dictUpdate_dictOf]
          rfl
        · intro P
          rw [any_dictUpdate_dictOf]
          simp only [any_dictUpdate _ (dictUpdate _ _)]
          rw [any_dictUpdate_dictOf]
          rfl

/-! ### `flatten_parameter_dict` -/

theorem firstDefaults_eq (xs : List Item) : (xs.filterMap Py.Item.dict?).head? = firstDefaults xs := by
  unfold firstDefaults
  induction xs with
  | nil => rfl
  | cons x rest ih =>
    cases x with
    | lst l => simpa [Py.Item.dict?, isDictItem, List.find?_cons, List.findSome?_cons] using ih
    | bare a =>
      cases a with
      | cell c => simpa [Py.Item.dict?, isDictItem, List.find?_cons, List.findSome?_cons] using ih
      | opts o => simp [Py.Item.dict?, isDictItem, List.find?_cons, List.findSome?_cons]

theorem zipIdx_shift {α β : Type} (G : α × Nat → List β) (H : α × Nat → β) (h : ∀ x i, G (x, i + 1) = [H (x, i)]) :
    ∀ (l : List α) (n : Nat), (l.zipIdx (n + 1)).flatMap G = (l.zipIdx n).map H := by
  intro l
  induction l with
  | nil => intro n; rfl
  | cons a rest ih =>
    intro n
    simp only [List.zipIdx_cons, List.flatMap_cons, List.map_cons, h, ih (n + 1)]
    rfl

theorem flatMap_singleton' {α β : Type} (f : α → β) (l : List α) : l.flatMap (fun r => [f r]) = l.map f := by
  induction l with
  | nil => rfl
  | cons a rest ih => simp [List.flatMap_cons, ih]

theorem groupItem_eq (env : Py.Env) (key : String) (sd : Option Opts) (item : Item) (i : Nat) :
    Py.genBind
      (match item with
        | .lst list_value => (do
            let t4 ← Fns.sanitize_parameter_list env list_value
            let list_value ← (if (t4.any (fun v => (Py.Atom.isinst v [Py.Ty.str]))) then (pure list_value)
              else (do let list_value := list_value ++ [(Atom.cell (Cell.str (toString (i + 1))))]; pure list_value))
            pure list_value)
        | .bare list_value => (do let list_value := [(Atom.cell (Cell.str (toString (i + 1)))), list_value]; pure list_value))
      (fun list_value => [Except.ok (key, list_value, sd)])
    = [(groupItemDef env.T item i).map (fun d => (key, d, sd))] := by
  cases item with
  | bare a => rfl
  | lst l =>
    simp only [sanitize_eq, groupItemDef, hasLabel, numberLabel]
    have e1 : (fun x => Py.Atom.isinst x [Py.Ty.str]) = isStr := funext isStr_eq
    rw [e1]
    cases hs : sanitize env.T l with
    | error e => rfl
    | ok vs =>
      by_cases ha : vs.any isStr = true
      · simp [ha, bind, Except.bind, pure, Except.pure, Py.genBind, Functor.map, Except.map]
      · have ha' : vs.any isStr = false := by simpa using ha
        simp [ha', bind, Except.bind, pure, Except.pure, Py.genBind, Functor.map, Except.map]

mutual
  theorem flatten_entry_eq (env : Py.Env) (key : String) : (n : Node) →
      Fns.flatten_parameter_dict_entry env key n = flattenNode env.T key n
    | .items xs => by
      simp only [Fns.flatten_parameter_dict_entry, flattenNode, flattenItems, firstDefaults_eq]
      have e1 : (fun list_value => !(Py.Item.isinst list_value [Py.Ty.dict])) = (fun x => !isDictItem x) :=
        funext (fun x => by rw [isDictItem_eq])
      rw [e1]
      exact zipIdx_shift _ (fun p => (groupItemDef env.T p.1 p.2).map (fun d => (key, d, firstDefaults xs)))
        (fun x i => groupItem_eq env key (firstDefaults xs) x i) _ 0
    | .group kids => by
      simp only [Fns.flatten_parameter_dict_entry, flattenNode]
      rw [flatten_eq env kids, ← flatMap_singleton']
      apply flatMap_congr_mem
      intro r _
      cases r with
      | error e => rfl
      | ok t => rfl
    | .other => by simp [Fns.flatten_parameter_dict_entry, flattenNode]
  theorem flatten_eq (env : Py.Env) : (spec : Kids) →
      Fns.flatten_parameter_dict env spec = flattenKids env.T spec
    | .nil => by simp [Fns.flatten_parameter_dict, flattenKids]
    | .cons key n rest => by
      simp only [Fns.flatten_parameter_dict, flattenKids]
      rw [flatten_entry_eq env key n, flatten_eq env rest]
end

/-! ### `Parameters.from_list`, `Parameters.from_dict` -/

/-- the dict `{p.label: p}` of a list of parameters -/
def tag (ps : List Param) : List (String × Param) := ps.map (fun p => (p.label, p))

theorem dictSet_tag (acc : List Param) (p : Param) : Py.dictSet (tag acc) p.label p = tag (dictInsert acc p) := by
  unfold Py.dictSet dictInsert tag
  simp only [List.any_map, Function.comp_def]
  by_cases h : (acc.any fun q => decide (q.label = p.label)) = true
  · simp only [h, if_true, List.map_map]
    apply List.map_congr_left
    intro q _
    by_cases hq : q.label = p.label <;> simp [hq]
  · simp [h]

theorem foldlM_dictSet {α : Type} (f : α → Except Err Param) : ∀ (l : List α) (acc : List Param),
    l.foldlM (fun d x => do let p ← f x; pure (Py.dictSet d p.label p)) (tag acc) =
      (l.mapM f).map (fun ps => tag (ps.foldl dictInsert acc)) := by
  intro l
  induction l with
  | nil => intro acc; rfl
  | cons x r ih =>
    intro acc
    simp only [List.foldlM_cons, List.mapM_cons]
    cases hf : f x with
    | error e => rfl
    | ok p =>
      simp only [bind, Except.bind, pure, Except.pure, dictSet_tag]
      have := ih (dictInsert acc p)
      simp only [bind, Except.bind, pure, Except.pure] at this
      rw [this]
      cases r.mapM f <;> rfl

theorem parametersInit_tag (env : Py.Env) (ps : List Param) :
    Py.parametersInit env (tag ps) = evalExpressions env.parse env.F ps := by
  unfold Py.parametersInit tag
  simp [List.all_map, List.map_map, Function.comp_def]

theorem foldlM_congr' {α σ : Type} (f g : σ → α → Except Err σ) (h : ∀ s a, f s a = g s a) (l : List α) (init : σ) :
    l.foldlM f init = l.foldlM g init := by
  have : f = g := funext fun s => funext (h s)
  rw [this]

theorem Parameters_from_list_eq (env : Py.Env) (xs : List Item) :
    Fns.Parameters_from_list env xs = fromList env.parse env.F env.T xs := by
  unfold Fns.Parameters_from_list fromList listParams construct ofList
  have e1 : (fun item => !(Py.Item.isinst item [Py.Ty.dict])) = (fun x => !isDictItem x) :=
    funext (fun x => by rw [isDictItem_eq])
  have e2 : (fun x => Py.Atom.isinst x [Py.Ty.str]) = isStr := funext isStr_eq
  simp only [firstDefaults_eq, e1, e2]
  rw [foldlM_congr' _ (fun d (x : Item × Nat) => do
        let p ← (do let d ← listItemDef env.T x.1 x.2; paramFromList env.T d (firstDefaults xs))
        pure (Py.dictSet d p.label p))
      (by
        intro s ⟨item, i⟩
        cases item with
        | bare a =>
          simp only [sanitize_eq, Parameter_from_list_eq, listItemDef, hasLabel, numberLabel]
          simp only [bind, Except.bind, pure, Except.pure]
          cases hs : sanitize env.T [a] with
          | error e => simp [hs]
          | ok vs => by_cases ha : vs.any isStr = true <;> simp [hs, ha]
        | lst l =>
          simp only [sanitize_eq, Parameter_from_list_eq, listItemDef, hasLabel, numberLabel]
          simp only [bind, Except.bind, pure, Except.pure]
          cases hs : sanitize env.T l with
          | error e => simp [hs]
          | ok vs => by_cases ha : vs.any isStr = true <;> simp [hs, ha])]
  rw [show ([] : List (String × Param)) = tag [] from rfl, foldlM_dictSet]
  cases List.mapM (fun (x : Item × Nat) => do let d ← listItemDef env.T x.1 x.2; paramFromList env.T d (firstDefaults xs))
      ((xs.filter fun x => !isDictItem x).zipIdx) with
  | error e => rfl
  | ok ps => simp [bind, Except.bind, pure, Except.pure, Functor.map, Except.map, parametersInit_tag]

theorem Parameters_from_dict_eq (env : Py.Env) (spec : Kids) :
    Fns.Parameters_from_dict env spec = fromDict env.parse env.F env.T spec := by
  unfold Fns.Parameters_from_dict fromDict dictParams construct ofList
  simp only [flatten_eq]
  rw [foldlM_congr' _ (fun d (r : Except Err Triple) => do
        let p ← dictParam env.T r
        pure (Py.dictSet d p.label p))
      (by
        intro s r
        simp only [Parameter_from_list_eq, dictParam]
        cases r with
        | error e => rfl
        | ok t =>
          obtain ⟨key, d, dflt⟩ := t
          simp only [bind, Except.bind, pure, Except.pure]
          cases hp : paramFromList env.T d dflt with
          | error e => rfl
          | ok p =>
            by_cases hv : validLabel (key ++ "." ++ p.label) = true
            · simp [Py.setLabel, hv]
            · simp [Py.setLabel, hv, throw, throwThe, MonadExceptOf.throw])]
  rw [show ([] : List (String × Param)) = tag [] from rfl, foldlM_dictSet]
  cases List.mapM (dictParam env.T) (flattenKids env.T spec) with
  | error e => rfl
  | ok ps => simp [bind, Except.bind, pure, Except.pure, Functor.map, Except.map, parametersInit_tag]

end Glotaran.C16
