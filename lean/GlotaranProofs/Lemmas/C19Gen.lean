/-
C19 — the translated source (`Generated/C19Fns.lean`) equals the hand-written model.
Helper lemmas for the `generated_*_eq_model` theorems of Props/C19.lean: how the state/exception
monad of `C19Py.lean` computes, and the equalities themselves.  The proofs are written against the
*meaning* of the generated `do` blocks (unfold the monad, split every branch, close by
simplification), so a behaviour-preserving rewrite of the Python source — which changes the
generated text — goes through the same script.
-/
import GlotaranModel.Generated.C19Fns
import GlotaranProofs.Lemmas.C19
set_option linter.unusedSimpArgs false
namespace Glotaran.C19
namespace Py

@[simp] theorem bind_apply {α β : Type} (m : M α) (f : α → M β) (s : St) :
    (m >>= f) s = match m s with | .ok a s' => f a s' | .err e s' => .err e s' := rfl

@[simp] theorem pure_apply {α : Type} (a : α) (s : St) : (pure a : M α) s = .ok a s := rfl

@[simp] theorem ite_apply {α : Type} (c : Prop) [Decidable c] (a b : M α) (s : St) :
    (if c then a else b) s = if c then a s else b s := by split <;> rfl

@[simp] theorem raise_apply {α : Type} (e : Exc) (s : St) : (raise e : M α) s = .err e s := rfl
@[simp] theorem warn_apply (w : Warning) (s : St) : warn w s = .ok () { s with warns := s.warns ++ [w] } := rfl
@[simp] theorem contains_apply (k : String) (s : St) : contains k s = .ok (lookup s.reg k).isSome s := rfl
@[simp] theorem setItem_apply (k : String) (p : Plugin) (s : St) :
    setItem k p s = .ok () { s with reg := insert s.reg k p } := rfl
@[simp] theorem keysOf_apply (s : St) : keysOf s = .ok (keys s.reg) s := rfl
@[simp] theorem instantiate_apply (c : Cls) (a : String) (s : St) :
    instantiate c a s = .ok ⟨c.module, c.name, s.nextUid⟩ { s with nextUid := s.nextUid + 1 } := rfl

theorem getItem_apply (k : String) (s : St) :
    getItem k s = match lookup s.reg k with
      | some p => .ok p s
      | none => .err ⟨"KeyError", [.repr k]⟩ s := rfl

@[simp] theorem getItem_some (k : String) (s : St) (p : Plugin) (h : lookup s.reg k = some p) :
    getItem k s = .ok p s := by simp [getItem_apply, h]

@[simp] theorem hasChar_dot (s : String) : hasChar '.' s = hasDot s := rfl

@[simp] theorem truthyStr_eq (s : String) : truthyStr s = !s.isEmpty := rfl

theorem sorted_eq (l : List String) : sorted l = l.mergeSort (fun a b => decide (a ≤ b)) := rfl

end Py

open Py

theorem fullKey_eq (p : Plugin) (id : String) :
    fullKey p id = p.fullName ++ (if id.isEmpty then id else "_" ++ id) := by
  unfold fullKey
  by_cases h : id.isEmpty
  · have : id = "" := by simpa using h
    subst this; simp
  · simp [h, String.append_assoc]


/-! ### the translated functions, one by one -/

theorem gen_full_plugin_name_eq (w : World) (p : Plugin) (s : St) :
    Gen.full_plugin_name w p s = .ok p.fullName s := by
  unfold Gen.full_plugin_name
  by_cases h : w.isClass p <;> simp [h, Plugin.fullName]

theorem gen_is_registered_eq (w : World) (k : String) (s : St) :
    Gen.is_registered_plugin w k s = .ok (lookup s.reg k).isSome s := by
  simp [Gen.is_registered_plugin]

attribute [local simp] gen_full_plugin_name_eq gen_is_registered_eq getItem_apply
  Res.outcome Exc.lists addWarnings overwriteWarning

theorem gen_registered_plugins_eq (w : World) (full : Bool) (s : St) :
    Gen.registered_plugins w full s = .ok (sortedKeys s.reg full) s := by
  unfold Gen.registered_plugins sortedKeys
  cases full <;> simp [sorted_eq, keys]

theorem gen_get_plugin_eq (w : World) (k msg : String) (s : St) :
    (Gen.get_plugin_from_registry w k msg s).outcome =
      match (step s.reg (.get k)).2 with
      | .found p => .ok p s
      | _ => .err "ValueError" [] s := by
  unfold Gen.get_plugin_from_registry
  simp only [bind_apply, pure_apply, ite_apply, gen_is_registered_eq, step, getItem_apply, raise_apply]
  cases h : lookup s.reg k <;> simp

theorem gen_add_plugin_eq (w : World) (key : String) (p : Plugin) (fn id : String) (s : St) :
    (Gen.add_plugin_to_registry w key p fn id s).outcome =
      match addOne s.reg key p id with
      | none => .err "ValueError" [] s
      | some (r', warned) => .ok () { s with reg := r', warns := s.warns ++ addWarnings s.reg key p fn warned } := by
  unfold Gen.add_plugin_to_registry addOne
  simp only [bind_apply, pure_apply, ite_apply, gen_full_plugin_name_eq, raise_apply, warn_apply,
    contains_apply, setItem_apply, getItem_apply, hasChar_dot, fullKey_eq, truthyStr_eq]
  by_cases hd : hasDot key = true
  · simp [hd]
  · cases hl : lookup s.reg key with
    | none => by_cases hi : id.isEmpty <;> simp [hd, hl, hi]
    | some old =>
      by_cases hn : old.fullName = p.fullName <;> by_cases hi : id.isEmpty <;> simp [hd, hl, hi, hn]

theorem gen_set_plugin_eq (w : World) (key full kn : String) (s : St) :
    (Gen.set_plugin w key full kn s).outcome =
      match step s.reg (.setPlugin key full) with
      | (r', .done) => .ok () { s with reg := r' }
      | (_, .errUnknownFull known) => .err "ValueError" [known] s
      | _ => .err "ValueError" [] s := by
  unfold Gen.set_plugin
  simp only [bind_apply, pure_apply, ite_apply, gen_is_registered_eq, raise_apply,
    contains_apply, setItem_apply, getItem_apply, keysOf_apply, hasChar_dot, step]
  by_cases hd : hasDot key = true
  · simp [hd]
  · by_cases hf : hasDot full = true
    · cases hl : lookup s.reg full <;> simp [hd, hf, hl]
    · simp [hd, hf]

/-! #### the loop of `add_instantiated_plugin_to_registry` -/

theorem addInstSt_eq_loop (m n fn : String) (keys : List String) : ∀ (s : St) (acc : List Bool),
    ((addInstSt m n fn keys s acc).1.reg, (addInstSt m n fn keys s acc).2) =
      addInstLoop s.reg m n keys s.nextUid acc := by
  induction keys with
  | nil => intro s acc; simp [addInstSt, addInstLoop]
  | cons k ks ih =>
    intro s acc
    simp only [addInstSt, addInstLoop]
    cases h : addOne s.reg k ⟨m, n, s.nextUid⟩ k with
    | none => simp
    | some rw => simpa using ih _ _

/-- one round of the translated loop -/
theorem gen_inst_cons (w : World) (k : String) (ks : List String) (c : Cls) (fn : String) (s : St) :
    Gen.add_instantiated_plugin_to_registry w (.list (k :: ks)) c fn s =
      match Gen.add_plugin_to_registry w k ⟨c.module, c.name, s.nextUid⟩ fn k { s with nextUid := s.nextUid + 1 } with
      | .ok _ s' => Gen.add_instantiated_plugin_to_registry w (.list ks) c fn s'
      | .err e s' => .err e s' := by
  unfold Gen.add_instantiated_plugin_to_registry
  simp only [List.forIn_cons, bind_apply, pure_apply, instantiate_apply]
  generalize Gen.add_plugin_to_registry w k _ fn k _ = res
  cases res <;> rfl

theorem gen_inst_nil (w : World) (c : Cls) (fn : String) (s : St) :
    Gen.add_instantiated_plugin_to_registry w (.list []) c fn s = .ok () s := by
  simp [Gen.add_instantiated_plugin_to_registry]

theorem gen_inst_str (w : World) (k : String) (c : Cls) (fn : String) :
    Gen.add_instantiated_plugin_to_registry w (.str k) c fn =
      Gen.add_instantiated_plugin_to_registry w (.list [k]) c fn := by
  simp [Gen.add_instantiated_plugin_to_registry]

theorem gen_inst_eq (w : World) (m n fn : String) (keys : List String) : ∀ (s : St) (acc : List Bool),
    (Gen.add_instantiated_plugin_to_registry w (.list keys) ⟨m, n⟩ fn s).outcome =
      match addInstSt m n fn keys s acc with
      | (s', .oks _) => .ok () s'
      | (s', _) => .err "ValueError" [] s' := by
  induction keys with
  | nil => intro s acc; simp [gen_inst_nil, addInstSt]
  | cons k ks ih =>
    intro s acc
    rw [gen_inst_cons]
    have h := gen_add_plugin_eq w k ⟨m, n, s.nextUid⟩ fn k { s with nextUid := s.nextUid + 1 }
    simp only [addInstSt]
    cases ha : addOne s.reg k ⟨m, n, s.nextUid⟩ k with
    | none =>
      simp only [ha] at h
      cases hr : Gen.add_plugin_to_registry w k ⟨m, n, s.nextUid⟩ fn k { s with nextUid := s.nextUid + 1 } with
      | ok a s' => simp [hr] at h
      | err e s' =>
        simp [hr] at h
        by_cases hacc : acc.isEmpty <;> simp_all
    | some rw =>
      simp only [ha] at h
      cases hr : Gen.add_plugin_to_registry w k ⟨m, n, s.nextUid⟩ fn k { s with nextUid := s.nextUid + 1 } with
      | ok a s' =>
        simp [hr] at h
        subst h
        simpa using ih _ (rw.2 :: acc)
      | err e s' => simp [hr] at h

/-! #### `infer_file_format` -/

theorem mem_takeWhile_imp {p : Char → Bool} : ∀ {l : List Char} {c : Char}, c ∈ l.takeWhile p → p c = true := by
  intro l
  induction l with
  | nil => intro c h; simp at h
  | cons a t ih =>
    intro c h
    rw [List.takeWhile_cons] at h
    split at h
    · rcases List.mem_cons.mp h with h | h
      · subst h; assumption
      · exact ih h
    · simp at h

/-- the extension `os.path.splitext` finds contains no dot -/
theorem extOf_no_dot (path e : String) (h : extOf path = some e) : ∀ c ∈ e.toList, c ≠ '.' := by
  unfold extOf at h
  simp only at h
  split at h
  · cases h
  · split at h
    · cases h
      intro c hc
      simp only [String.toList_ofList, List.mem_reverse] at hc
      have := mem_takeWhile_imp hc
      simpa using this
    · cases h

theorem dropWhile_dot_of_no_dot (l : List Char) (h : ∀ c ∈ l, c ≠ '.') : l.dropWhile (· = '.') = l := by
  cases l with
  | nil => rfl
  | cons a t => simp [List.dropWhile, h a (by simp)]

theorem lstripDots_ext (path e : String) (h : extOf path = some e) : lstripDots ("." ++ e) = e := by
  have hnd := extOf_no_dot path e h
  unfold lstripDots
  have : ("." ++ e).toList = '.' :: e.toList := by simp [String.toList_append]
  rw [this]
  simp [List.dropWhile, dropWhile_dot_of_no_dot _ hnd]

theorem dot_append_ne_empty (e : String) : ("." ++ e) ≠ "" := by
  intro h
  have := congrArg String.toList h
  simp [String.toList_append] at this

theorem gen_infer_file_format_eq (w : World) (path : String) (nte af : Bool) (s : St) :
    (Gen.infer_file_format w path nte af s).outcome =
      match inferFileFormat path (w.isFile path) nte af with
      | .ok fmt => .ok fmt s
      | .error _ => .err "ValueError" [] s := by
  unfold Gen.infer_file_format inferFileFormat splitextExt
  simp only [bind_apply, pure_apply, ite_apply, raise_apply]
  cases he : extOf path with
  | none => cases h1 : w.isFile path <;> cases nte <;> cases af <;> simp
  | some e =>
    have h2 := lstripDots_ext path e he
    have h3 := dot_append_ne_empty e
    cases h1 : w.isFile path <;> cases nte <;> cases af <;> simp [h2, h3]

end Glotaran.C19
