/-
Properties of `combine` (`MatrixProvider.combine_megacomplex_matrices`): labels of the result are
the duplicate-free union of the input labels, and (2-D case) the column under a label is the sum
of the input columns under that label, a missing label contributing a zero column.
-/
import GlotaranModel.C02
namespace Glotaran.C02
open Glotaran.LinAlg

/-! ### small list / vector facts -/

theorem fromCols_length (n : Nat) (cols : List Vec) : (fromCols n cols).length = n := by
  simp [fromCols]

theorem fromCols_row_length (n : Nat) (cols : List Vec) :
    ∀ r ∈ fromCols n cols, r.length = cols.length := by
  intro r hr
  simp only [fromCols, List.mem_map, List.mem_range] at hr
  obtain ⟨i, _, rfl⟩ := hr
  simp

theorem col_length (m : Mat) (j : Nat) : (col m j).length = m.length := by
  simp [col]

theorem vadd_length (x y : Vec) : (vadd x y).length = min x.length y.length := by
  simp [vadd]

theorem zeros_length (n : Nat) : (zeros n).length = n := by
  simp [zeros]

/-- column `j` of `fromCols n cols` is `cols[j]` when that column has the full height `n` -/
theorem col_fromCols (n : Nat) (cols : List Vec) (j : Nat) (hj : j < cols.length)
    (hlen : (cols[j]).length = n) : col (fromCols n cols) j = cols[j] := by
  apply List.ext_getElem
  · simp [col, fromCols, hlen]
  · intro i h1 h2
    have hi : i < n := by simpa [col, fromCols] using h1
    simp [col, fromCols, hj, h2]

theorem vadd_zeros_right (x : Vec) (n : Nat) (h : x.length = n) : vadd x (zeros n) = x := by
  subst h
  induction x with
  | nil => rfl
  | cons a t ih =>
    simp only [vadd, zeros, List.length_cons, List.replicate_succ, List.zipWith_cons_cons,
      Rat.add_zero] at ih ⊢
    rw [ih]

theorem vadd_zeros_left (x : Vec) (n : Nat) (h : x.length = n) : vadd (zeros n) x = x := by
  subst h
  induction x with
  | nil => rfl
  | cons a t ih =>
    simp only [vadd, zeros, List.length_cons, List.replicate_succ, List.zipWith_cons_cons,
      Rat.zero_add] at ih ⊢
    rw [ih]

theorem vadd_zeros_zeros (n : Nat) : vadd (zeros n) (zeros n) = zeros n :=
  vadd_zeros_left (zeros n) n (zeros_length n)

/-- `colOf` finds a column exactly for the labels present -/
theorem colOf_eq_some_of_mem (labels : List String) (m : Mat) (l : String) (h : l ∈ labels) :
    ∃ j, ∃ hj : j < labels.length, labels.idxOf? l = some j ∧ labels[j] = l ∧
      colOf labels m l = some (col m j) := by
  cases hi : labels.idxOf? l with
  | none => exact absurd h (List.idxOf?_eq_none_iff.mp hi)
  | some j =>
    obtain ⟨hj, hjl, _⟩ := List.idxOf?_eq_some_iff.mp hi
    exact ⟨j, hj, rfl, hjl, by simp only [colOf, hi]⟩

theorem colOf_eq_none_of_not_mem (labels : List String) (m : Mat) (l : String) (h : l ∉ labels) :
    colOf labels m l = none := by
  simp only [colOf, List.idxOf?_eq_none_iff.mpr h]

theorem colOf_length (labels : List String) (m : Mat) (l : String) (v : Vec)
    (h : colOf labels m l = some v) : v.length = m.length := by
  unfold colOf at h
  split at h
  · cases h; exact col_length _ _
  · cases h

/-- `addOpt` is the sum with missing columns read as zero, provided the columns have height `n` -/
theorem addOpt_eq_vadd_getD (n : Nat) (x y : Option Vec)
    (hx : ∀ v, x = some v → v.length = n) (hy : ∀ v, y = some v → v.length = n) :
    addOpt n x y = vadd (x.getD (zeros n)) (y.getD (zeros n)) := by
  cases x with
  | none =>
    cases y with
    | none => simp only [addOpt, Option.getD_none, vadd_zeros_zeros]
    | some w => simp only [addOpt, Option.getD_none, Option.getD_some,
        vadd_zeros_left w n (hy w rfl)]
  | some v =>
    cases y with
    | none => simp only [addOpt, Option.getD_none, Option.getD_some,
        vadd_zeros_right v n (hx v rfl)]
    | some w => simp only [addOpt, Option.getD_some]

theorem addOpt_length (n : Nat) (x y : Option Vec)
    (hx : ∀ v, x = some v → v.length = n) (hy : ∀ v, y = some v → v.length = n) :
    (addOpt n x y).length = n := by
  cases x with
  | none =>
    cases y with
    | none => simp [addOpt, zeros]
    | some w => simpa [addOpt] using hy w rfl
  | some v =>
    cases y with
    | none => simpa [addOpt] using hx v rfl
    | some w => simp [addOpt, vadd, hx v rfl, hy w rfl]

/-! ### labels of `combine` -/

/-- the label list `combine` builds from an (ordered) pair of label lists -/
def unionL (l r : List String) : List String := l ++ r.filter (fun c => !l.contains c)

theorem unionL_nodup (l r : List String) (hl : l.Nodup) (hr : r.Nodup) : (unionL l r).Nodup := by
  unfold unionL
  rw [List.nodup_append]
  refine ⟨hl, List.Pairwise.filter _ hr, ?_⟩
  intro a ha b hb hab
  subst hab
  simp only [List.mem_filter, List.contains_eq_mem, Bool.not_eq_eq_eq_not, Bool.not_true,
    decide_eq_false_iff_not] at hb
  exact hb.2 ha

theorem mem_unionL (l r : List String) (x : String) : x ∈ unionL l r ↔ x ∈ l ∨ x ∈ r := by
  unfold unionL
  simp only [List.mem_append, List.mem_filter, List.contains_eq_mem, Bool.not_eq_eq_eq_not,
    Bool.not_true, decide_eq_false_iff_not]
  constructor
  · rintro (h | h)
    · exact Or.inl h
    · exact Or.inr h.1
  · rintro (h | h)
    · exact Or.inl h
    · by_cases hx : x ∈ l
      · exact Or.inl hx
      · exact Or.inr ⟨h, hx⟩

/-- the labels of `combine`: the ordered union, with the operands swapped exactly when the left
    one is 2-D and the right one 3-D -/
theorem combine_labels_eq (left right : LMat) :
    (combine left right).labels =
      match left.body, right.body with
      | .d2 _, .d3 _ => unionL right.labels left.labels
      | _, _ => unionL left.labels right.labels := by
  obtain ⟨ll, bl⟩ := left
  obtain ⟨lr, br⟩ := right
  cases bl <;> cases br <;> simp only [combine, unionL]

theorem combine_labels_cases (left right : LMat) :
    (combine left right).labels = unionL left.labels right.labels ∨
      (combine left right).labels = unionL right.labels left.labels := by
  rw [combine_labels_eq]
  obtain ⟨ll, bl⟩ := left
  obtain ⟨lr, br⟩ := right
  cases bl <;> cases br <;> simp

theorem combine_labels_nodup_lem (left right : LMat) (hl : left.labels.Nodup) (hr : right.labels.Nodup) :
    (combine left right).labels.Nodup := by
  rcases combine_labels_cases left right with h | h <;> rw [h]
  · exact unionL_nodup _ _ hl hr
  · exact unionL_nodup _ _ hr hl

example : (combine ⟨["a", "b"], .d2 [[1, 2], [3, 4]]⟩ ⟨["b", "c"], .d3 [[[5, 6], [7, 8]]]⟩).labels.Nodup :=
  combine_labels_nodup_lem _ _ (by decide) (by decide)

theorem combine_labels_mem_lem (left right : LMat) (l : String) :
    l ∈ (combine left right).labels ↔ l ∈ left.labels ∨ l ∈ right.labels := by
  rcases combine_labels_cases left right with h | h <;> rw [h, mem_unionL]
  exact Or.comm

example : "c" ∈ (combine ⟨["a", "b"], .d2 [[1, 2], [3, 4]]⟩ ⟨["b", "c"], .d3 [[[5, 6], [7, 8]]]⟩).labels :=
  (combine_labels_mem_lem _ _ "c").mpr (Or.inr (by decide))

/-! ### the 2-D case -/

theorem combine_d2_d2 (ll lr : List String) (a b : Mat) :
    combine ⟨ll, .d2 a⟩ ⟨lr, .d2 b⟩ =
      ⟨unionL ll lr, .d2 (combine2 (unionL ll lr) ll lr a b)⟩ := by
  simp only [combine, unionL]

/-- well-formedness of the 2-D result: as many rows as `a`, every row as wide as the label list -/
theorem combine_d2_wf (ll lr : List String) (a b : Mat) :
    ∃ m, (combine ⟨ll, .d2 a⟩ ⟨lr, .d2 b⟩).body = .d2 m ∧ m.length = a.length ∧
      ∀ r ∈ m, r.length = (combine ⟨ll, .d2 a⟩ ⟨lr, .d2 b⟩).labels.length := by
  rw [combine_d2_d2]
  refine ⟨_, rfl, ?_, ?_⟩
  · simp only [combine2, fromCols_length]
  · intro r hr
    have := fromCols_row_length _ _ r hr
    simpa using this

example : ∃ m, (combine ⟨["a", "b"], .d2 [[1, 2], [3, 4]]⟩ ⟨["b", "c"], .d2 [[5, 6], [7, 8]]⟩).body = .d2 m ∧
    m.length = 2 ∧ ∀ r ∈ m, r.length = 3 :=
  combine_d2_wf ["a", "b"] ["b", "c"] [[1, 2], [3, 4]] [[5, 6], [7, 8]]

/-- the column of `combine2` under a label of `labels`; only the row counts have to agree -/
theorem colOf_combine2 (labels ll lr : List String) (a b : Mat) (hrows : b.length = a.length)
    (l : String) (hl : l ∈ labels) :
    colOf labels (combine2 labels ll lr a b) l =
      some (vadd ((colOf ll a l).getD (zeros a.length)) ((colOf lr b l).getD (zeros a.length))) := by
  obtain ⟨j, hj, _, hjl, hc⟩ := colOf_eq_some_of_mem labels (combine2 labels ll lr a b) l hl
  rw [hc]
  have hx : ∀ v, colOf ll a l = some v → v.length = a.length :=
    fun v hv => colOf_length ll a l v hv
  have hy : ∀ v, colOf lr b l = some v → v.length = a.length :=
    fun v hv => (colOf_length lr b l v hv).trans hrows
  have hj' : j < (labels.map (fun l => addOpt a.length (colOf ll a l) (colOf lr b l))).length := by
    simpa using hj
  have hget : (labels.map (fun l => addOpt a.length (colOf ll a l) (colOf lr b l)))[j] =
      addOpt a.length (colOf ll a l) (colOf lr b l) := by
    simp [hjl]
  unfold combine2
  rw [col_fromCols _ _ j hj' (by rw [hget]; exact addOpt_length _ _ _ hx hy), hget,
    addOpt_eq_vadd_getD _ _ _ hx hy]

/-- minimal-hypothesis version: neither duplicate-freeness of the labels nor the row widths are
    needed (columns are read with `getD`, `idxOf?` takes the first occurrence); only the two
    matrices must have the same number of rows. -/
theorem combine_col_d2_min (ll lr : List String) (a b : Mat)
    (hrows : b.length = a.length) (l : String)
    (hl : l ∈ (combine ⟨ll, .d2 a⟩ ⟨lr, .d2 b⟩).labels) :
    ∃ m, (combine ⟨ll, .d2 a⟩ ⟨lr, .d2 b⟩).body = .d2 m ∧
      colOf (combine ⟨ll, .d2 a⟩ ⟨lr, .d2 b⟩).labels m l =
        some (vadd ((colOf ll a l).getD (zeros a.length)) ((colOf lr b l).getD (zeros a.length))) := by
  rw [combine_d2_d2] at hl ⊢
  exact ⟨_, rfl, colOf_combine2 _ ll lr a b hrows l hl⟩

/-- the statement as specified; `_hll _hlr _ha _hb` are not used (see `combine_col_d2_min`) -/
theorem combine_col_d2_lem (ll lr : List String) (a b : Mat)
    (_hll : ll.Nodup) (_hlr : lr.Nodup)
    (_ha : ∀ r ∈ a, r.length = ll.length) (_hb : ∀ r ∈ b, r.length = lr.length)
    (hrows : b.length = a.length) (l : String)
    (hl : l ∈ (combine ⟨ll, .d2 a⟩ ⟨lr, .d2 b⟩).labels) :
    ∃ m, (combine ⟨ll, .d2 a⟩ ⟨lr, .d2 b⟩).body = .d2 m ∧
      colOf (combine ⟨ll, .d2 a⟩ ⟨lr, .d2 b⟩).labels m l =
        some (vadd ((colOf ll a l).getD (zeros a.length)) ((colOf lr b l).getD (zeros a.length))) :=
  combine_col_d2_min ll lr a b hrows l hl

example : ∃ m, (combine ⟨["a", "b"], .d2 [[1, 2], [3, 4]]⟩ ⟨["b", "c"], .d2 [[5, 6], [7, 8]]⟩).body = .d2 m ∧
    colOf (combine ⟨["a", "b"], .d2 [[1, 2], [3, 4]]⟩ ⟨["b", "c"], .d2 [[5, 6], [7, 8]]⟩).labels m "b" =
      some (vadd ((colOf ["a", "b"] [[1, 2], [3, 4]] "b").getD (zeros 2))
        ((colOf ["b", "c"] [[5, 6], [7, 8]] "b").getD (zeros 2))) :=
  combine_col_d2_lem ["a", "b"] ["b", "c"] [[1, 2], [3, 4]] [[5, 6], [7, 8]]
    (by decide) (by decide) (by decide) (by decide) (by decide) "b" (by decide)

/-- the row-count hypothesis cannot be dropped: with a shorter right matrix the shared column is
    the truncated sum padded with zeros, not the sum -/
theorem combine_col_d2_needs_rows :
    colOf (combine ⟨["a"], .d2 [[1], [2]]⟩ ⟨["a"], .d2 [[5]]⟩).labels
        (combine2 ["a"] ["a"] ["a"] [[1], [2]] [[5]]) "a" ≠
      some (vadd ((colOf ["a"] [[1], [2]] "a").getD (zeros 2)) ((colOf ["a"] [[5]] "a").getD (zeros 2))) := by
  intro h
  have h2 := congrArg (fun o => o.map List.length) h
  revert h2
  decide

end Glotaran.C02
