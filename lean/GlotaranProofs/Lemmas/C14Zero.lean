/-
C14 — linking at tolerance 0: `C02.alignAxes` (the model of `create_aligned_global_axes` the objective executes) leaves
every global axis as it is, so only bit-equal global points share a stacked problem.
-/
import GlotaranProofs.Lemmas.C14Linked
namespace Glotaran.C14
open Glotaran.LinAlg Glotaran.C02

theorem absR_nonpos (r : Rat) (h : absR r ≤ 0) : r = 0 := by
  unfold absR at h
  split at h <;> linarith

/-- **at tolerance 0 a point is aligned to itself**, whatever the target axis and the method: a target at distance
    `> 0` is never within the tolerance, however close (1e4 and 1e4 + 1/16 stay apart) -/
theorem alignIndex_tol_zero (x : Rat) (target : List Rat) (m : Method) : alignIndex x target 0 m = x := by
  unfold alignIndex
  simp only
  split
  · rfl
  · split
    · rename_i h
      have := absR_nonpos _ h
      linarith
    · rfl

theorem alignFold_tol_zero (m : Method) : ∀ (rest : List (List Rat)) (vals : List Rat) (done : List (List Rat))
    (r : List Rat × List (List Rat)),
    rest.foldl (alignStep 0 m) (some (vals, done)) = some r → r.2 = done ++ rest := by
  intro rest
  induction rest with
  | nil =>
    intro vals done r h
    simp only [List.foldl_nil, Option.some.injEq] at h
    subst h; simp
  | cons ax rest ih =>
    intro vals done r h
    simp only [List.foldl_cons] at h
    have hal : ax.map (fun x => alignIndex x vals 0 m) = ax := by
      simp [alignIndex_tol_zero]
    cases hd : hasDup ax with
    | true =>
      have : alignStep 0 m (some (vals, done)) ax = none := by simp [alignStep, hal, hd]
      rw [this, alignFold_none] at h
      cases h
    | false =>
      have : alignStep 0 m (some (vals, done)) ax = some (sortedUnion [] (vals ++ ax), done ++ [ax]) := by
        simp [alignStep, hal, hd]
      rw [this] at h
      rw [ih _ _ r h]; simp

/-- **`create_aligned_global_axes` at tolerance 0 returns the datasets' own axes** -/
theorem alignAxes_tol_zero (axes : List (List Rat)) (m : Method) (aligned : List (List Rat))
    (h : alignAxes axes 0 m = some aligned) : aligned = axes := by
  cases axes with
  | nil =>
    simp only [alignAxes, Option.some.injEq] at h
    exact h.symm
  | cons first rest =>
    rw [alignAxes_cons] at h
    obtain ⟨r, hr, rfl⟩ := Option.map_eq_some_iff.mp h
    rw [alignFold_tol_zero m rest first [first] r hr]; rfl

end Glotaran.C14
