/-
C06 helper lemmas: the fitted values (hence the residual) of a least-squares problem are unique —
any two solutions of the normal equations give the same `A c`.  List-level linear algebra.
-/
import GlotaranModel.C06
import GlotaranProofs.Lemmas.LinAlg
import Mathlib.Tactic.Linarith
namespace Glotaran.C06
open Glotaran.LinAlg

theorem dot_comm (u v : Vec) : dot u v = dot v u := by
  induction u generalizing v with
  | nil => simp
  | cons a u ih =>
    cases v with
    | nil => simp
    | cons b v => rw [dot_cons, dot_cons, ih v]; ring

theorem dot_vsub_left (p q v : Vec) (h : p.length = q.length) :
    dot (vsub p q) v = dot p v - dot q v := by
  induction p generalizing q v with
  | nil =>
    cases q with
    | nil => simp [vsub]
    | cons _ _ => simp at h
  | cons a p ih =>
    cases q with
    | nil => simp at h
    | cons b q =>
      cases v with
      | nil => simp
      | cons c v =>
        have hl : p.length = q.length := by simpa using h
        have : vsub (a :: p) (b :: q) = (a - b) :: vsub p q := by simp [vsub]
        rw [this, dot_cons, dot_cons, dot_cons, ih q v hl]
        ring

theorem dot_vsub_right (r u v : Vec) (h : u.length = v.length) :
    dot r (vsub u v) = dot r u - dot r v := by
  rw [dot_comm, dot_vsub_left u v r h, dot_comm u r, dot_comm v r]

theorem mulVec_vsub (B : Mat) (u v : Vec) (h : u.length = v.length) :
    mulVec B (vsub u v) = vsub (mulVec B u) (mulVec B v) := by
  simp only [mulVec, vsub]
  apply List.ext_getElem
  · simp
  · intro i h1 h2
    simp only [List.getElem_map, List.getElem_zipWith]
    exact dot_vsub_right _ u v h

theorem dot_all_zero_right (x g : Vec) (hg : ∀ e ∈ g, e = 0) : dot x g = 0 := by
  induction x generalizing g with
  | nil => simp
  | cons a x ih =>
    cases g with
    | nil => simp
    | cons b g =>
      rw [dot_cons, hg b (by simp), ih g (fun e he => hg e (by simp [he]))]
      ring

theorem dot_self_nonneg (v : Vec) : 0 ≤ dot v v := by
  induction v with
  | nil => simp
  | cons a v ih =>
    rw [dot_cons]
    have := mul_self_nonneg a
    linarith

theorem dot_self_eq_zero (v : Vec) (h : dot v v = 0) : ∀ e ∈ v, e = 0 := by
  induction v with
  | nil => simp
  | cons a v ih =>
    rw [dot_cons] at h
    have h1 := mul_self_nonneg a
    have h2 := dot_self_nonneg v
    have ha : a * a = 0 := by linarith
    have hv : dot v v = 0 := by linarith
    intro e he
    rcases List.mem_cons.mp he with rfl | he
    · exact mul_self_eq_zero.mp ha
    · exact ih hv e he

theorem vsub_all_zero_eq (u v : Vec) (hl : u.length = v.length) (h : ∀ e ∈ vsub u v, e = 0) : u = v := by
  induction u generalizing v with
  | nil =>
    cases v with
    | nil => rfl
    | cons _ _ => simp at hl
  | cons a u ih =>
    cases v with
    | nil => simp at hl
    | cons b v =>
      have hcons : vsub (a :: u) (b :: v) = (a - b) :: vsub u v := by simp [vsub]
      rw [hcons] at h
      have hab : a - b = 0 := h _ (by simp)
      have := ih v (by simpa using hl) (fun e he => h e (by simp [he]))
      rw [this]
      congr 1
      linarith

/-- `dᵀ (A x) = (Aᵀ d)ᵀ x` -/
theorem adjoint (A : Mat) (n : Nat) (hA : ∀ row ∈ A, row.length = n) (d x : Vec) :
    dot d (mulVec A x) = dot (mulVec (transpose A n) d) x := by
  rw [← dot_transpose_assoc A n hA d x]
  congr 1
  simp only [mulVec]
  apply List.map_congr_left
  intro c _
  exact dot_comm d c

theorem vsub_vsub_cancel (y u v : Vec) (h1 : y.length = u.length) (h2 : y.length = v.length) :
    vsub (vsub y v) (vsub y u) = vsub u v := by
  simp only [vsub]
  apply List.ext_getElem
  · simp; omega
  · intro i hi1 hi2
    simp only [List.getElem_zipWith]
    ring

theorem all_zero_of_all_beq (g : Vec) (h : g.all (· == 0) = true) : ∀ e ∈ g, e = 0 := by
  intro e he
  have := List.all_eq_true.mp h e he
  simpa using this

/-- **uniqueness of the least-squares fit**: two solutions of the normal equations have the same
    fitted values. -/
theorem normalSol_fitted_unique (a : Mat) (y c₁ c₂ : Vec) (hne : a ≠ []) (n : Nat)
    (ha : ∀ row ∈ a, row.length = n) (hy : y.length = a.length)
    (h1 : isNormalSol a y c₁ = true) (h2 : isNormalSol a y c₂ = true) :
    mulVec a c₁ = mulVec a c₂ := by
  have hn : ncols a = n := by
    cases a with
    | nil => exact absurd rfl hne
    | cons r t => simpa [ncols] using ha r (by simp)
  simp only [isNormalSol, Bool.and_eq_true, beq_iff_eq, hn] at h1 h2
  obtain ⟨hc1, hg1⟩ := h1
  obtain ⟨hc2, hg2⟩ := h2
  have hu1 : (mulVec a c₁).length = a.length := by simp [mulVec]
  have hu2 : (mulVec a c₂).length = a.length := by simp [mulVec]
  -- d = A c₁ − A c₂ = A (c₁ − c₂)
  have hd : mulVec a (vsub c₁ c₂) = vsub (mulVec a c₁) (mulVec a c₂) := mulVec_vsub a c₁ c₂ (by omega)
  -- r₂ − r₁ = d
  have hr : vsub (residual a y c₂) (residual a y c₁) = vsub (mulVec a c₁) (mulVec a c₂) := by
    simp only [residual]
    exact vsub_vsub_cancel y (mulVec a c₁) (mulVec a c₂) (by omega) (by omega)
  -- Aᵀ d = Aᵀ r₂ − Aᵀ r₁ = 0
  have hrl : (residual a y c₂).length = (residual a y c₁).length := by
    simp [residual, vsub, mulVec]
  have hAtd : ∀ e ∈ mulVec (transpose a n) (vsub (mulVec a c₁) (mulVec a c₂)), e = 0 := by
    rw [← hr, mulVec_vsub (transpose a n) _ _ hrl]
    intro e he
    simp only [vsub] at he
    obtain ⟨i, hi, rfl⟩ := List.getElem_of_mem he
    simp only [List.getElem_zipWith]
    have hg2' : (mulVec (transpose a n) (residual a y c₂)).all (· == 0) = true := by
      simpa [gradient, hn] using hg2
    have hg1' : (mulVec (transpose a n) (residual a y c₁)).all (· == 0) = true := by
      simpa [gradient, hn] using hg1
    have hi2 : i < (mulVec (transpose a n) (residual a y c₂)).length := by
      simp only [List.length_zipWith] at hi; omega
    have hi1 : i < (mulVec (transpose a n) (residual a y c₁)).length := by
      simp only [List.length_zipWith] at hi; omega
    have z2 : (mulVec (transpose a n) (residual a y c₂))[i] = 0 :=
      all_zero_of_all_beq _ hg2' _ (List.getElem_mem hi2)
    have z1 : (mulVec (transpose a n) (residual a y c₁))[i] = 0 :=
      all_zero_of_all_beq _ hg1' _ (List.getElem_mem hi1)
    rw [z1, z2]; ring
  -- dᵀ d = dᵀ A x = (Aᵀ d)ᵀ x = 0
  have hdd : dot (vsub (mulVec a c₁) (mulVec a c₂)) (vsub (mulVec a c₁) (mulVec a c₂)) = 0 := by
    conv_lhs => rw [← hd]
    rw [dot_comm, adjoint a n ha _ _, dot_comm]
    rw [hd]
    exact dot_all_zero_right _ _ hAtd
  exact vsub_all_zero_eq _ _ (by omega) (dot_self_eq_zero _ hdd)

end Glotaran.C06
