/-
C18 — helper lemmas, part (a): file system, `protect`, the `save_*` interpreter.
-/
import GlotaranModel.C18
namespace Glotaran.C18

/-! ### association list -/

theorem get_filter_ne (fs : FS) (p q : Path) (h : q ≠ p) :
    get (fs.filter (fun e => e.1 ≠ p)) q = get fs q := by
  induction fs with
  | nil => rfl
  | cons e rest ih =>
    obtain ⟨pe, ne⟩ := e
    by_cases he : pe = p
    · have : pe ≠ q := fun h' => h (h'.symm.trans he)
      simp_all [List.filter, get]
    · simp_all [List.filter, get]

theorem get_set (fs : FS) (p : Path) (n : Node) (q : Path) :
    get (set fs p n) q = if p = q then some n else get fs q := by
  unfold set
  by_cases h : p = q
  · simp [get, h]
  · have h' : q ≠ p := fun e => h e.symm
    have := get_filter_ne fs p q h'
    simp_all [get]

/-- what `mkdir(parents=True, exist_ok=True)` may do to an entry: nothing, or create a folder -/
def Grew (fs fs' : FS) : Prop := ∀ q, get fs' q = get fs q ∨ (get fs q = none ∧ get fs' q = some .dir)

theorem Grew.refl (fs : FS) : Grew fs fs := fun _ => Or.inl rfl

theorem Grew.trans {a b c : FS} (h1 : Grew a b) (h2 : Grew b c) : Grew a c := by
  intro q
  rcases h2 q with h | ⟨hn, hd⟩
  · rcases h1 q with h' | ⟨hn', hd'⟩
    · exact Or.inl (h.trans h')
    · exact Or.inr ⟨hn', h.trans hd'⟩
  · rcases h1 q with h' | ⟨_, hd'⟩
    · exact Or.inr ⟨h' ▸ hn, hd⟩
    · rw [hd'] at hn; cases hn

theorem Grew.file_iff {fs fs' : FS} (h : Grew fs fs') (q : Path) (c : String) :
    get fs' q = some (.file c) ↔ get fs q = some (.file c) := by
  rcases h q with h | ⟨hn, hd⟩
  · rw [h]
  · rw [hn, hd]; simp

theorem grew_set_dir (fs : FS) (p : Path) (h : get fs p = none) : Grew fs (set fs p .dir) := by
  intro q
  rw [get_set]
  by_cases hp : p = q
  · subst hp; exact Or.inr ⟨h, by simp⟩
  · simp [hp]

/-! ### mkdir -p -/

theorem mkdirP_grew (fs : FS) (done : Path) (todo : List String) (fs' : FS)
    (h : mkdirP fs done todo = .ok fs') : Grew fs fs' := by
  induction todo generalizing fs done with
  | nil => simp [mkdirP] at h; subst h; exact Grew.refl _
  | cons c cs ih =>
    simp only [mkdirP] at h
    split at h
    · cases h
    · exact ih fs _ h
    · rename_i hn
      exact (grew_set_dir fs _ hn).trans (ih _ _ h)

/-- every folder on the way exists: nothing happens -/
theorem mkdirP_noop (fs : FS) (done : Path) (todo : List String)
    (h : ∀ k, 0 < k → k ≤ todo.length → get fs (done ++ todo.take k) = some .dir) :
    mkdirP fs done todo = .ok fs := by
  induction todo generalizing done with
  | nil => rfl
  | cons c cs ih =>
    have h1 : get fs (done ++ [c]) = some .dir := by simpa using h 1 (by omega) (by simp)
    simp only [mkdirP, h1]
    apply ih
    intro k hk hk'
    have := h (k + 1) (by omega) (by simp; omega)
    simpa [List.take_succ_cons, List.append_assoc] using this

/-- no file on the way: the folders get created -/
theorem mkdirP_ok (fs : FS) (done : Path) (todo : List String)
    (h : ∀ k, 0 < k → k ≤ todo.length → ∀ c, get fs (done ++ todo.take k) ≠ some (.file c)) :
    ∃ fs', mkdirP fs done todo = .ok fs' := by
  induction todo generalizing fs done with
  | nil => exact ⟨fs, rfl⟩
  | cons c cs ih =>
    have h1 : ∀ x, get fs (done ++ [c]) ≠ some (.file x) := by simpa using h 1 (by omega) (by simp)
    have hrest : ∀ fs2, Grew fs fs2 → ∀ k, 0 < k → k ≤ cs.length → ∀ x,
        get fs2 ((done ++ [c]) ++ cs.take k) ≠ some (.file x) := by
      intro fs2 hg k hk hk' x hx
      have := h (k + 1) (by omega) (by simp; omega) x
      apply this
      have e : done ++ (c :: cs).take (k + 1) = (done ++ [c]) ++ cs.take k := by
        simp [List.take_succ_cons, List.append_assoc]
      rw [e]
      exact (hg.file_iff _ _).mp hx
    simp only [mkdirP]
    split
    · rename_i x hx; exact absurd hx (h1 x)
    · exact ih fs _ (hrest fs (Grew.refl _))
    · rename_i hn; exact ih _ _ (hrest _ (grew_set_dir fs _ hn))

/-- `mkdir -p` creates nothing but the folders on the way -/
theorem mkdirP_keeps_none (fs : FS) (done : Path) (todo : List String) (fs' : FS)
    (h : mkdirP fs done todo = .ok fs') (q : Path) (hq : get fs q = none)
    (hne : ∀ k, 0 < k → k ≤ todo.length → done ++ todo.take k ≠ q) : get fs' q = none := by
  induction todo generalizing fs done with
  | nil => simp [mkdirP] at h; subst h; exact hq
  | cons c cs ih =>
    have hrest : ∀ k, 0 < k → k ≤ cs.length → (done ++ [c]) ++ cs.take k ≠ q := by
      intro k hk hk'
      have := hne (k + 1) (by omega) (by simp; omega)
      simpa [List.take_succ_cons, List.append_assoc] using this
    simp only [mkdirP] at h
    split at h
    · cases h
    · exact ih fs _ h hq hrest
    · have h1 : done ++ [c] ≠ q := by simpa using hne 1 (by omega) (by simp)
      exact ih _ _ h (by rw [get_set]; simp [h1, hq]) hrest

/-! ### well-formed trees and `protect` -/

/-- every proper prefix of an existing path is a folder -/
def WF (fs : FS) : Prop :=
  ∀ p, get fs p ≠ none → ∀ k, 0 < k → k < p.length → get fs (p.take k) = some .dir

/-- no file among the proper prefixes of `p` -/
def NoFileAbove (fs : FS) (p : Path) : Prop :=
  ∀ k, 0 < k → k < p.length → ∀ c, get fs (p.take k) ≠ some (.file c)

/-- executable check of `WF` (for the examples) -/
def wfCheck (fs : FS) : Bool :=
  fs.all (fun e => (List.range e.1.length).all (fun k => k == 0 || decide (get fs (e.1.take k) = some .dir)))

theorem get_ne_none_mem (fs : FS) (p : Path) (h : get fs p ≠ none) : ∃ n, (p, n) ∈ fs := by
  induction fs with
  | nil => simp [get] at h
  | cons e rest ih =>
    obtain ⟨q, n⟩ := e
    by_cases hq : q = p
    · subst hq; exact ⟨n, by simp⟩
    · simp only [get, hq, if_false] at h
      obtain ⟨n', hn'⟩ := ih h
      exact ⟨n', List.mem_cons_of_mem _ hn'⟩

theorem WF_of_check (fs : FS) (h : wfCheck fs = true) : WF fs := by
  intro p hp k hk hk'
  obtain ⟨n, hn⟩ := get_ne_none_mem fs p hp
  have := List.all_eq_true.mp h (p, n) hn
  have := List.all_eq_true.mp this k (List.mem_range.mpr hk')
  have hk0 : (k == 0) = false := by simp; omega
  simpa [hk0] using this

/-- executable check of `NoFileAbove` (for the examples) -/
def noFileAboveCheck (fs : FS) (p : Path) : Bool :=
  (List.range p.length).all (fun k => k == 0 || !isFile fs (p.take k))

theorem NoFileAbove_of_check (fs : FS) (p : Path) (h : noFileAboveCheck fs p = true) : NoFileAbove fs p := by
  intro k hk hk' c hc
  have := List.all_eq_true.mp h k (List.mem_range.mpr hk')
  have hk0 : (k == 0) = false := by simp; omega
  simp [hk0, isFile, hc] at this

theorem dropLast_take (p : Path) (k : Nat) (h : k < p.length) : p.dropLast.take k = p.take k := by
  rw [List.dropLast_eq_take, List.take_take]
  congr 1; omega

theorem mkdirP_parent_noop (fs : FS) (p : Path) (hwf : WF fs) (hex : get fs p ≠ none) :
    mkdirP fs [] p.dropLast = .ok fs := by
  apply mkdirP_noop
  intro k hk hk'
  have hlen : p.dropLast.length = p.length - 1 := by simp
  have hk2 : k < p.length := by omega
  rw [List.nil_append, dropLast_take p k hk2]
  exact hwf p hex k hk hk2

/-- the target, as the statement describes it: an existing file or a non-empty folder -/
def TargetExists (fs : FS) (p : Path) : Prop :=
  isFile fs p = true ∨ (get fs p = some .dir ∧ hasChildren fs p = true)

instance (fs : FS) (p : Path) : Decidable (TargetExists fs p) := by
  unfold TargetExists; infer_instance

theorem TargetExists.get_ne_none {fs : FS} {p : Path} (h : TargetExists fs p) : get fs p ≠ none := by
  rcases h with h | ⟨h, _⟩
  · unfold isFile at h
    split at h
    · rename_i c hc; rw [hc]; simp
    · cases h
  · rw [h]; simp

theorem protect_fst_of_exists (fs : FS) (p : Path) (allow : Bool) (hwf : WF fs) (hex : get fs p ≠ none) :
    (protect fs p allow).1 = fs := by
  unfold protect
  simp only [mkdirP_parent_noop fs p hwf hex, ite_self]
  split <;> (try split) <;> (try split) <;> rfl

theorem protect_refuses' (fs : FS) (p : Path) (hwf : WF fs) (hex : TargetExists fs p) :
    protect fs p false = (fs, some .fileExists) := by
  have hne := hex.get_ne_none
  unfold protect
  simp only [mkdirP_parent_noop fs p hwf hne, ite_self]
  rcases hex with h | ⟨hd, hc⟩
  · simp [h]
  · have : isDir fs p = true := by simp [isDir, hd]
    by_cases hf : isFile fs p = true
    · simp [hf]
    · simp [hf, this, hc]

theorem protect_eq (fs : FS) (p : Path) (allow : Bool) :
    protect fs p allow =
      match (if isFile fs p.dropLast then Except.ok fs else mkdirP fs [] p.dropLast : Except Err FS) with
      | .error e => (fs, some e)
      | .ok fs1 =>
        if allow then (fs1, none)
        else if isFile fs1 p then (fs1, some .fileExists)
        else if isDir fs1 p && hasChildren fs1 p then (fs1, some .fileExists)
        else (fs1, none) := rfl

theorem made_grew (fs : FS) (p : Path) (fs1 : FS)
    (h : (if isFile fs p.dropLast then Except.ok fs else mkdirP fs [] p.dropLast : Except Err FS) = .ok fs1) :
    Grew fs fs1 := by
  by_cases hpar : isFile fs p.dropLast = true
  · simp [hpar] at h; subst h; exact Grew.refl _
  · simp only [hpar] at h
    exact mkdirP_grew fs [] _ fs1 (by simpa using h)

theorem protect_grew (fs : FS) (p : Path) (allow : Bool) : Grew fs (protect fs p allow).1 := by
  rw [protect_eq]
  generalize hmade : (if isFile fs p.dropLast then Except.ok fs else mkdirP fs [] p.dropLast : Except Err FS) = made
  cases made with
  | error e => exact Grew.refl _
  | ok fs1 =>
    have := made_grew fs p fs1 hmade
    simp only
    split
    · exact this
    · split
      · exact this
      · split <;> exact this

theorem protect_passes' (fs : FS) (p : Path) (allow : Bool) (hp : p ≠ [])
    (h : allow = true ∨ get fs p = none) (hno : NoFileAbove fs p) :
    (protect fs p allow).2 = none := by
  have hlen : p.dropLast.length = p.length - 1 := by simp
  have hpl : 0 < p.length := List.length_pos_iff.mpr hp
  -- no error from the parents
  have hmade : ∃ fs1, (if isFile fs p.dropLast = true then Except.ok fs else mkdirP fs [] p.dropLast) = .ok fs1 ∧ Grew fs fs1 := by
    by_cases hpar : isFile fs p.dropLast = true
    · exact ⟨fs, by simp [hpar], Grew.refl _⟩
    · obtain ⟨fs1, h1⟩ := mkdirP_ok fs [] p.dropLast (by
        intro k hk hk' c
        have hk2 : k < p.length := by omega
        rw [List.nil_append, dropLast_take p k hk2]
        exact hno k hk hk2 c)
      exact ⟨fs1, by simp [hpar, h1], mkdirP_grew _ _ _ _ h1⟩
  obtain ⟨fs1, h1, hg⟩ := hmade
  unfold protect
  simp only [h1]
  rcases h with ha | hn
  · simp [ha]
  · by_cases ha : allow = true
    · simp [ha]
    · -- the target is still absent or became … no: `p` is not a prefix of its parent, so it is absent or a new folder without children
      have hfile : isFile fs1 p = false := by
        unfold isFile
        split
        · rename_i c hc
          have := (hg.file_iff p c).mp hc
          rw [hn] at this; cases this
        · rfl
      simp only [ha, hfile]
      -- `p` itself is never created by mkdir of its parent
      have hget : get fs1 p = none := by
        by_cases hpar : isFile fs p.dropLast = true
        · simp [hpar] at h1; subst h1; exact hn
        · simp only [hpar] at h1
          exact mkdirP_keeps_none fs [] p.dropLast fs1 (by simpa using h1) p hn (by
            intro k _ hk' he
            have := congrArg List.length he
            simp at this; omega)
      have hdir : isDir fs1 p = false := by
        unfold isDir
        simp [hget, hp]
      simp [hdir]

theorem mkdirP_error (fs : FS) (done : Path) (todo : List String) (e : Err)
    (h : mkdirP fs done todo = .error e) : e = .fileExists ∨ e = .notADirectory := by
  induction todo generalizing fs done with
  | nil => simp [mkdirP] at h
  | cons c cs ih =>
    simp only [mkdirP] at h
    split at h
    · simp only [Except.error.injEq] at h
      split at h <;> simp [← h]
    · exact ih fs _ h
    · exact ih _ _ h

/-- the check raises `FileExistsError` or what `mkdir` raises, nothing else -/
theorem protect_error (fs : FS) (p : Path) (allow : Bool) (e : Err)
    (h : (protect fs p allow).2 = some e) : e = .fileExists ∨ e = .notADirectory := by
  rw [protect_eq] at h
  generalize hmade : (if isFile fs p.dropLast then Except.ok fs else mkdirP fs [] p.dropLast : Except Err FS) = made at h
  cases made with
  | error e' =>
    simp only [Option.some.injEq] at h
    subst h
    by_cases hpar : isFile fs p.dropLast = true
    · simp [hpar] at hmade
    · simp only [hpar] at hmade
      exact mkdirP_error fs [] _ _ (by simpa using hmade)
  | ok fs1 =>
    simp only at h
    split at h
    · cases h
    · split at h
      · simp only [Option.some.injEq] at h; exact Or.inl h.symm
      · split at h
        · simp only [Option.some.injEq] at h; exact Or.inl h.symm
        · cases h

/-! ### the interpreter of the `save_*` effect lists -/

theorem runSteps_skip (f : SaveFn) (env : Env) (s : Step) (rest : List Step) (fs : FS) (inf : Option String)
    (h : condHolds f env s.cond = false) :
    runSteps f env (s :: rest) fs inf = runSteps f env rest fs inf := by
  simp [runSteps, h]

theorem runSteps_pure (f : SaveFn) (env : Env) (n : String) (c : Cond) (rest : List Step) (fs : FS)
    (inf : Option String) :
    runSteps f env (⟨.pureCall n, c⟩ :: rest) fs inf = runSteps f env rest fs inf := by
  by_cases h : condHolds f env c = true <;> simp [runSteps, h]

theorem runSteps_mutate (f : SaveFn) (env : Env) (n : String) (c : Cond) (rest : List Step) (fs : FS)
    (inf : Option String) :
    runSteps f env (⟨.mutateArg n, c⟩ :: rest) fs inf = runSteps f env rest fs inf := by
  by_cases h : condHolds f env c = true <;> simp [runSteps, h]

/-- leading pure calls do nothing: execution starts at the first effect -/
theorem runSteps_firstEffect (f : SaveFn) (env : Env) :
    ∀ (steps : List Step) (s : Step) (fs : FS) (inf : Option String), firstEffect steps = some s →
      runSteps f env steps fs inf = runSteps f env (s :: afterFirst steps) fs inf
  | [], _, _, _, h => by simp [firstEffect] at h
  | ⟨eff, cond⟩ :: rest, s, fs, inf, h => by
    cases eff with
    | pureCall n =>
      simp only [firstEffect] at h
      simp only [afterFirst]
      rw [runSteps_pure]
      exact runSteps_firstEffect f env rest s fs inf h
    | protect a b => simp only [firstEffect, Option.some.injEq] at h; subst h; rfl
    | inferFormat a b c => simp only [firstEffect, Option.some.injEq] at h; subst h; rfl
    | getPlugin a => simp only [firstEffect, Option.some.injEq] at h; subst h; rfl
    | pluginCall a => simp only [firstEffect, Option.some.injEq] at h; subst h; rfl
    | mutateArg a => simp only [firstEffect, Option.some.injEq] at h; subst h; rfl
    | raises a => simp only [firstEffect, Option.some.injEq] at h; subst h; rfl
    | unknownCall a => simp only [firstEffect, Option.some.injEq] at h; subst h; rfl

/-- as long as neither a plugin nor an unclassified call writes, a `save_*` call can only create
    folders (those of `protect_from_overwrite`) -/
theorem runSteps_grew (f : SaveFn) (env : Env)
    (hplugin : ∀ m fs, (env.plugin m fs).1 = fs) (hunknown : ∀ n fs, (env.unknown n fs).1 = fs) :
    ∀ (steps : List Step) (fs : FS) (inf : Option String), Grew fs (runSteps f env steps fs inf).1
  | [], fs, _ => Grew.refl fs
  | ⟨eff, cond⟩ :: rest, fs, inf => by
    by_cases hc : condHolds f env cond = true
    · cases eff with
      | protect a b =>
        simp only [runSteps, hc]
        have hg := protect_grew fs (resolvePath f env a) (resolveBool f env b)
        cases hp : protect fs (resolvePath f env a) (resolveBool f env b) with
        | mk fs' e =>
          rw [hp] at hg
          cases e with
          | some e => simpa using hg
          | none => simpa using hg.trans (runSteps_grew f env hplugin hunknown rest fs' inf)
      | inferFormat a b c =>
        simp only [runSteps, hc]
        cases inferFormat fs (resolvePath f env a) b c with
        | error e => exact Grew.refl fs
        | ok fmt => exact runSteps_grew f env hplugin hunknown rest fs (some fmt)
      | getPlugin a =>
        simp only [runSteps, hc]
        generalize env.known.contains _ = b
        cases b
        · exact Grew.refl fs
        · exact runSteps_grew f env hplugin hunknown rest fs inf
      | pluginCall m =>
        simp only [runSteps, hc]
        have h1 := hplugin m fs
        cases hp : env.plugin m fs with
        | mk fs' e =>
          rw [hp] at h1
          simp only at h1
          subst h1
          cases e with
          | some e => exact Grew.refl _
          | none => exact runSteps_grew f env hplugin hunknown rest _ inf
      | unknownCall m =>
        simp only [runSteps, hc]
        have h1 := hunknown m fs
        cases hp : env.unknown m fs with
        | mk fs' e =>
          rw [hp] at h1
          simp only at h1
          subst h1
          cases e with
          | some e => exact Grew.refl _
          | none => exact runSteps_grew f env hplugin hunknown rest _ inf
      | mutateArg a => rw [runSteps_mutate]; exact runSteps_grew f env hplugin hunknown rest fs inf
      | pureCall a => rw [runSteps_pure]; exact runSteps_grew f env hplugin hunknown rest fs inf
      | raises a => simp only [runSteps, hc]; exact Grew.refl fs
    · rw [runSteps_skip f env _ rest fs inf (by simpa using hc)]
      exact runSteps_grew f env hplugin hunknown rest fs inf

/-- the chosen format is `format_name` when that is given -/
theorem runSteps_lookup (f : SaveFn) (env : Env) (ht : truthy env.formatName = true) :
    ∀ (steps : List Step) (fs : FS) (inf : Option String), lookupThenWrite f.formatParam steps = true →
      runSteps f env steps fs inf =
        if env.known.contains (env.formatName.getD "") then runSteps f env (afterLookup steps) fs inf
        else (fs, some .valueError)
  | [], _, _, h => by simp [lookupThenWrite] at h
  | ⟨eff, cond⟩ :: rest, fs, inf, h => by
    cases eff with
    | getPlugin a =>
      simp only [lookupThenWrite, decide_eq_true_eq] at h
      subst h
      simp [runSteps, condHolds, ht, afterLookup]
    | inferFormat a b c =>
      simp only [lookupThenWrite, Bool.and_eq_true, decide_eq_true_eq] at h
      obtain ⟨hc, hr⟩ := h
      subst hc
      rw [runSteps_skip f env _ rest fs inf (by simp [condHolds, ht])]
      simp only [afterLookup]
      exact runSteps_lookup f env ht rest fs inf hr
    | pureCall a =>
      simp only [lookupThenWrite] at h
      rw [runSteps_pure]
      simp only [afterLookup]
      exact runSteps_lookup f env ht rest fs inf h
    | protect a b => simp [lookupThenWrite] at h
    | pluginCall a => simp [lookupThenWrite] at h
    | mutateArg a => simp [lookupThenWrite] at h
    | raises a => simp [lookupThenWrite] at h
    | unknownCall a => simp [lookupThenWrite] at h

/-- after the lookup the plugin is entered on the unchanged file system (a plugin that raises `e`
    at once makes that visible) -/
theorem runSteps_callsPlugin (f : SaveFn) (env : Env) (e : Err) (hp : ∀ m fs, env.plugin m fs = (fs, some e)) :
    ∀ (steps : List Step) (fs : FS) (inf : Option String), callsPlugin steps = true →
      runSteps f env steps fs inf = (fs, some e)
  | [], _, _, h => by simp [callsPlugin] at h
  | ⟨eff, cond⟩ :: rest, fs, inf, h => by
    cases eff with
    | pluginCall m =>
      simp only [callsPlugin, decide_eq_true_eq] at h
      subst h
      simp [runSteps, condHolds, hp]
    | mutateArg a =>
      simp only [callsPlugin] at h
      rw [runSteps_mutate]
      exact runSteps_callsPlugin f env e hp rest fs inf h
    | pureCall a =>
      simp only [callsPlugin] at h
      rw [runSteps_pure]
      exact runSteps_callsPlugin f env e hp rest fs inf h
    | protect a b => simp [callsPlugin] at h
    | inferFormat a b c => simp [callsPlugin] at h
    | getPlugin a => simp [callsPlugin] at h
    | raises a => simp [callsPlugin] at h
    | unknownCall a => simp [callsPlugin] at h

theorem decorate_fileExists (ds : List String) : decorate ds (some .fileExists) = some .fileExists := by
  unfold decorate; split <;> rfl

theorem decorate_notADirectory (ds : List String) : decorate ds (some .notADirectory) = some .notADirectory := by
  unfold decorate; split <;> rfl

theorem decorate_valueError (ds : List String) : decorate ds (some .valueError) = some .valueError := by
  unfold decorate; split <;> rfl

theorem decorate_other (ds : List String) (t : String) : decorate ds (some (.other t)) = some (.other t) := by
  unfold decorate; split <;> rfl

end Glotaran.C18
