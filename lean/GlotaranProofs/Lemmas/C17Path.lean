/-
C17 — helper lemmas about the path model (normal forms, `normAbs`, `relpath`, text ↔ `PPath`).
-/
import GlotaranModel.C17
namespace Glotaran.C17

/-! ### the ".." stack -/

/-- the (reversed) component stack after reading `parts` -/
def normStack (parts acc : List Str) : List Str :=
  parts.foldl (fun acc p => if isDotDot p then acc.tail else p :: acc) acc

theorem normAbsAux_eq (parts acc : List Str) : normAbsAux parts acc = (normStack parts acc).reverse := by
  induction parts generalizing acc with
  | nil => rfl
  | cons p ps ih =>
    simp only [normAbsAux, normStack, List.foldl_cons]
    split <;> exact ih _

theorem normAbs_eq (parts : List Str) : normAbs parts = (normStack parts []).reverse := normAbsAux_eq parts []

theorem normStack_append (xs ys acc : List Str) : normStack (xs ++ ys) acc = normStack ys (normStack xs acc) := by
  simp [normStack, List.foldl_append]

/-- no component is ".." -/
def NoDD (parts : List Str) : Prop := ∀ p ∈ parts, isDotDot p = false

theorem normStack_noDD (xs acc : List Str) (h : NoDD xs) : normStack xs acc = xs.reverse ++ acc := by
  induction xs generalizing acc with
  | nil => rfl
  | cons x xs ih =>
    have hx : isDotDot x = false := h x (by simp)
    simp only [normStack, List.foldl_cons, hx, Bool.false_eq_true, if_false]
    have := ih (x :: acc) (fun p hp => h p (by simp [hp]))
    simp only [normStack] at this
    rw [this]; simp

theorem normStack_ups (k : Nat) (acc : List Str) :
    normStack (List.replicate k ['.', '.']) acc = acc.drop k := by
  induction k generalizing acc with
  | zero => rfl
  | succ k ih =>
    have : isDotDot ['.', '.'] = true := by decide
    simp only [List.replicate_succ, normStack, List.foldl_cons, this, if_true]
    have := ih acc.tail
    simp only [normStack] at this
    rw [this]
    simp [List.drop_tail] <;> rfl

theorem normStack_keeps_noDD (xs acc : List Str) (hacc : NoDD acc) : NoDD (normStack xs acc) := by
  induction xs generalizing acc with
  | nil => exact hacc
  | cons x xs ih =>
    simp only [normStack, List.foldl_cons]
    split
    · exact ih _ (fun p hp => hacc p (List.mem_of_mem_tail hp))
    · rename_i hx
      exact ih _ (fun p hp => by
        rcases List.mem_cons.mp hp with h | h
        · subst h; simpa using hx
        · exact hacc p h)

theorem normAbs_noDD (xs : List Str) : NoDD (normAbs xs) := by
  rw [normAbs_eq]
  intro p hp
  exact normStack_keeps_noDD xs [] (by intro p hp; simp at hp) p (by simpa using hp)

theorem resolveP_noDD (cwd : List Str) (p : PPath) : NoDD (resolveP cwd p) := by
  unfold resolveP; split <;> exact normAbs_noDD _

/-- the stack `resolveP` ends with -/
theorem resolveP_stack (cwd : List Str) (p : PPath) :
    normStack (if p.abs then p.parts else cwd ++ p.parts) [] = (resolveP cwd p).reverse := by
  unfold resolveP
  split <;> simp [normAbs_eq]

theorem resolveP_joinP_rel (cwd : List Str) (folder : PPath) (parts : List Str) :
    resolveP cwd (joinP folder ⟨false, parts⟩) = (normStack parts (resolveP cwd folder).reverse).reverse := by
  have h := resolveP_stack cwd folder
  simp only [joinP, Bool.false_eq_true, if_false, resolveP]
  split
  · rename_i ha
    simp only [ha, if_true] at h
    rw [normAbs_eq, normStack_append, h]
    simp [resolveP, ha]
  · rename_i ha
    simp only [ha, Bool.false_eq_true, if_false] at h
    rw [normAbs_eq, ← List.append_assoc, normStack_append, h]
    simp [resolveP, ha]

/-! ### common prefix -/

theorem commonPrefixLen_spec (a b : List Str) :
    a.take (commonPrefixLen a b) = b.take (commonPrefixLen a b) ∧ commonPrefixLen a b ≤ a.length ∧
      commonPrefixLen a b ≤ b.length := by
  induction a generalizing b with
  | nil => simp [commonPrefixLen]
  | cons x xs ih =>
    cases b with
    | nil => simp [commonPrefixLen]
    | cons y ys =>
      simp only [commonPrefixLen]
      split
      · rename_i hxy
        obtain ⟨h1, h2, h3⟩ := ih ys
        simp [List.take_succ_cons, h1, hxy, h2, h3]
      · simp

theorem commonPrefixLen_append (a t : List Str) : commonPrefixLen a (a ++ t) = a.length := by
  induction a with
  | nil => cases t <;> simp [commonPrefixLen]
  | cons x xs ih => simp [commonPrefixLen, ih]

theorem isProperPrefix_append (a : List Str) (x : Str) (t : List Str) : isProperPrefix a (a ++ x :: t) = true := by
  induction a with
  | nil => rfl
  | cons y ys ih => simp [isProperPrefix, ih]

/-! ### text ↔ PPath -/

def NormPart (p : Str) : Prop := p ≠ [] ∧ '/' ∉ p ∧ isDot p = false

/-- pathlib normal form: the parts are non-empty, contain no '/', and are not "." -/
def NormParts (ps : List Str) : Prop := ∀ p ∈ ps, NormPart p

def PPath.Norm (p : PPath) : Prop := NormParts p.parts

/-- a plain file name: one normal part that is not ".." -/
def PlainName (n : Str) : Prop := NormPart n ∧ isDotDot n = false

instance (n : Str) : Decidable (PlainName n) := by unfold PlainName NormPart; exact inferInstance

theorem splitSlash_part (p rest cur : Str) (h : '/' ∉ p) :
    splitSlash (p ++ rest) cur = splitSlash rest (p.reverse ++ cur) := by
  induction p generalizing cur with
  | nil => rfl
  | cons c cs ih =>
    have hc : (c == '/') = false := by
      have : c ≠ '/' := fun e => h (by simp [e])
      simpa using this
    simp only [List.cons_append, splitSlash, hc, Bool.false_eq_true, if_false]
    rw [ih (c :: cur) (fun hm => h (by simp [hm]))]
    simp

theorem splitSlash_joinSlash (ps : List Str) (cur : Str) (h : ∀ p ∈ ps, '/' ∉ p) (hne : ps ≠ []) :
    splitSlash (joinSlash ps) cur = match ps with
      | [] => []
      | p :: rest => (cur.reverse ++ p) :: rest := by
  induction ps generalizing cur with
  | nil => exact absurd rfl hne
  | cons p rest ih =>
    cases rest with
    | nil =>
      have := splitSlash_part p [] cur (h p (by simp))
      simp only [List.append_nil] at this
      simp [joinSlash, this, splitSlash]
    | cons q qs =>
      simp only [joinSlash]
      rw [splitSlash_part p _ cur (h p (by simp))]
      simp only [splitSlash, beq_self_eq_true, if_true]
      rw [ih [] (fun x hx => h x (by simp [hx])) (by simp)]
      simp

theorem filter_norm (ps : List Str) (h : NormParts ps) :
    ps.filter (fun p => !p.isEmpty && !isDot p) = ps := by
  apply List.filter_eq_self.mpr
  intro p hp
  obtain ⟨h1, _, h3⟩ := h p hp
  simp [h3, h1]

theorem joinSlash_head (p : Str) (rest : List Str) (hp : p ≠ []) : (joinSlash (p :: rest)).head? = p.head? := by
  cases rest with
  | nil => rfl
  | cons q qs =>
    cases p with
    | nil => exact absurd rfl hp
    | cons c cs => rfl

/-- **`Path(p.as_posix()) == p`** for a path in normal form -/
theorem parsePath_asPosix (p : PPath) (h : p.Norm) : parsePath p.asPosix = p := by
  obtain ⟨ab, parts⟩ := p
  have hs : ∀ q ∈ parts, '/' ∉ q := fun q hq => (h q hq).2.1
  cases ab with
  | true =>
    cases parts with
    | nil => simp [PPath.asPosix, parsePath, joinSlash, splitSlash, isDot]
    | cons q qs =>
      have := splitSlash_joinSlash (q :: qs) [] hs (by simp)
      simp only [PPath.asPosix, if_true, parsePath, List.head?_cons, splitSlash, beq_self_eq_true, this]
      simp only [List.reverse_nil, List.nil_append, true_and, PPath.mk.injEq]
      rw [List.filter_cons]
      simp only [List.isEmpty_nil, Bool.not_true, Bool.false_and, Bool.false_eq_true, if_false]
      exact filter_norm _ h
  | false =>
    cases parts with
    | nil => simp [PPath.asPosix, parsePath, splitSlash, isDot]
    | cons q qs =>
      have := splitSlash_joinSlash (q :: qs) [] hs (by simp)
      have hq : q ≠ [] := (h q (by simp)).1
      have hhead : (joinSlash (q :: qs)).head? ≠ some '/' := by
        rw [joinSlash_head q qs hq]
        cases q with
        | nil => exact absurd rfl hq
        | cons c cs =>
          have : c ≠ '/' := fun e => hs (c :: cs) (by simp) (by simp [e])
          simpa using this
      simp only [PPath.asPosix, Bool.false_eq_true, if_false, List.isEmpty_cons, parsePath, this,
        List.reverse_nil, List.nil_append, PPath.mk.injEq]
      refine ⟨by simpa using hhead, filter_norm _ h⟩

theorem splitSlash_noSlash (s cur : Str) (hc : '/' ∉ cur) : ∀ p ∈ splitSlash s cur, '/' ∉ p := by
  induction s generalizing cur with
  | nil => intro p hp; simp only [splitSlash, List.mem_singleton] at hp; subst hp; simpa using hc
  | cons c cs ih =>
    intro p hp
    simp only [splitSlash] at hp
    split at hp
    · rcases List.mem_cons.mp hp with h | h
      · subst h; simpa using hc
      · exact ih [] (by simp) p h
    · rename_i hne
      have : c ≠ '/' := by simpa using hne
      exact ih (c :: cur) (by simp [hc, this.symm]) p hp

theorem parsePath_norm (s : Str) : (parsePath s).Norm := by
  intro p hp
  simp only [parsePath, List.mem_filter, Bool.and_eq_true, Bool.not_eq_eq_eq_not, Bool.not_true] at hp
  obtain ⟨hm, hne, hd⟩ := hp
  exact ⟨by simpa [List.isEmpty_iff] using hne, splitSlash_noSlash s [] (by simp) p hm, hd⟩

theorem joinP_norm (a b : PPath) (ha : a.Norm) (hb : b.Norm) : (joinP a b).Norm := by
  unfold joinP; split
  · exact hb
  · intro p hp
    rcases List.mem_append.mp hp with h | h
    · exact ha p h
    · exact hb p h

theorem parent_norm (a : PPath) (ha : a.Norm) : a.parent.Norm := by
  intro p hp
  exact ha p ((List.dropLast_sublist _).subset hp)

theorem parsePath_plain (n : Str) (h : PlainName n) : parsePath n = ⟨false, [n]⟩ := by
  obtain ⟨⟨hne, hs, hd⟩, _⟩ := h
  have := splitSlash_part n [] [] hs
  simp only [List.append_nil] at this
  have hhead : n.head? ≠ some '/' := by
    cases n with
    | nil => exact absurd rfl hne
    | cons c cs =>
      have : c ≠ '/' := fun e => hs (by simp [e])
      simpa using this
  simp only [parsePath, this, splitSlash, List.reverse_reverse, PPath.mk.injEq]
  refine ⟨by simpa using hhead, ?_⟩
  simp [hd, hne]

/-! ### references inside a folder -/



/-- the reference stored for a file directly inside the folder is its plain name -/
theorem rel_inFolder (cwd : List Str) (folder : PPath) (name : Str) (hf : folder.Norm) (hn : PlainName name) :
    relativePosixPath cwd (inFolder folder name) (some folder.asPosix) = name := by
  have hfile : (joinP folder ⟨false, [name]⟩).Norm :=
    joinP_norm _ _ hf (by intro p hp; simp only [List.mem_singleton] at hp; subst hp; exact hn.1)
  have hres : resolveP cwd (joinP folder ⟨false, [name]⟩) = resolveP cwd folder ++ [name] := by
    rw [resolveP_joinP_rel, normStack_noDD _ _ (by intro p hp; simp only [List.mem_singleton] at hp; subst hp; exact hn.2)]
    simp
  simp only [relativePosixPath, inFolder, parsePath_plain name hn]
  rw [parsePath_asPosix _ hfile, parsePath_asPosix _ hf]
  have hcond : ((joinP folder ⟨false, [name]⟩).abs ||
      isProperPrefix (resolveP cwd folder) (resolveP cwd (joinP folder ⟨false, [name]⟩))) = true := by
    rw [hres, isProperPrefix_append]; simp
  rw [if_pos hcond]
  simp only [relpath, hres, commonPrefixLen_append]
  simp [PPath.asPosix, joinSlash]

/-- file name of a dataset inside the result folder: f"{label}.{data_format}" -/
def dataName (dfmt l : Str) : Str := l ++ ('.' :: dfmt)

/-- the references `result.yml` must contain: plain file names, nothing else -/
def canonResultRefs (pfmt dfmt : Str) (labels : List Str) : List (Str × Str) :=
  [(strOf "scheme", strOf "scheme.yml"), (strOf "initial_parameters", strOf "initial_parameters." ++ pfmt),
   (strOf "optimized_parameters", strOf "optimized_parameters." ++ pfmt),
   (strOf "parameter_history", strOf "parameter_history.csv"),
   (strOf "optimization_history", strOf "optimization_history.csv")]
  ++ labels.map (fun l => (strOf "data:" ++ l, dataName dfmt l))

def canonSchemeRefs (pfmt dfmt : Str) (labels : List Str) : List (Str × Str) :=
  [(strOf "model", strOf "model.yml"), (strOf "parameters", strOf "initial_parameters." ++ pfmt)]
  ++ labels.map (fun l => (strOf "data:" ++ l, dataName dfmt l))

/-- the folder `save_result` writes into -/
def resultFolder (resultPath : Str) : PPath :=
  let rp := parsePath resultPath
  (if rp.suffix == strOf ".yml" || rp.suffix == strOf ".yaml" then rp else joinP rp (parsePath (strOf "result.yml"))).parent

theorem resultFolder_norm (resultPath : Str) : (resultFolder resultPath).Norm := by
  unfold resultFolder
  apply parent_norm
  by_cases h : ((parsePath resultPath).suffix == strOf ".yml" || (parsePath resultPath).suffix == strOf ".yaml") = true
  · simp only [h, if_true]; exact parsePath_norm _
  · simp only [h, Bool.false_eq_true, if_false]; exact joinP_norm _ _ (parsePath_norm _) (parsePath_norm _)

theorem plain_prefixed (pre : String) (sfx : Str) (hpre : PlainName (strOf pre)) (hs : '/' ∉ sfx)
    (hlen : 3 ≤ (strOf pre).length) : PlainName (strOf pre ++ sfx) := by
  obtain ⟨⟨h1, h2, _⟩, _⟩ := hpre
  refine ⟨⟨by simp [h1], ?_, ?_⟩, ?_⟩
  · simp [h2, hs]
  · have : 3 ≤ (strOf pre ++ sfx).length := by simp; omega
    unfold isDot
    cases h : (strOf pre ++ sfx) with
    | nil => simp [h] at this
    | cons a t =>
      cases t with
      | nil => simp [h] at this
      | cons b u => simp
  · have : 3 ≤ (strOf pre ++ sfx).length := by simp; omega
    unfold isDotDot
    cases h : (strOf pre ++ sfx) with
    | nil => simp [h] at this
    | cons a t =>
      cases t with
      | nil => simp [h] at this
      | cons b u =>
        cases u with
        | nil => simp [h] at this
        | cons c v => simp

theorem map_rel_data (cwd : List Str) (folder : PPath) (hf : folder.Norm) (dfmt : Str) (data : List (Str × Str))
    (hd : ∀ l ∈ data.map Prod.fst, PlainName (dataName dfmt l)) :
    (data.map (fun x => (x.1, inFolder folder (x.1 ++ ('.' :: dfmt))))).map
        (fun x => (strOf "data:" ++ x.1, relativePosixPath cwd x.2 (some folder.asPosix)))
      = (data.map Prod.fst).map (fun l => (strOf "data:" ++ l, dataName dfmt l)) := by
  induction data with
  | nil => rfl
  | cons x xs ih =>
    simp only [List.map_cons, List.cons.injEq, Prod.mk.injEq, true_and]
    refine ⟨?_, ih (fun l hl => hd l (by simp only [List.map_cons, List.mem_cons]; exact Or.inr hl))⟩
    exact rel_inFolder cwd folder _ hf (hd x.1 (by simp))

theorem refTarget_plain (cwd : List Str) (folder name : Str) (hn : PlainName name) :
    refTarget cwd folder name = resolveP cwd (parsePath folder) ++ [name] := by
  simp only [refTarget, parsePath_plain name hn]
  rw [resolveP_joinP_rel, normStack_noDD _ _ (by intro p hp; simp only [List.mem_singleton] at hp; subst hp; exact hn.2)]
  simp

theorem mem_files_of_data (folder : PPath) (dfmt : Str) (filtered : Bool) (data : List (Str × Str)) (l : Str)
    (hl : l ∈ data.map Prod.fst) :
    ∃ tag, (inFolder folder (dataName dfmt l), tag) ∈
      (data.map (fun x => (x.1, inFolder folder (x.1 ++ ('.' :: dfmt))))).map
        (fun x => (x.2, strOf (if filtered then "data-filtered:" else "data:") ++ x.1)) := by
  simp only [List.mem_map] at hl
  obtain ⟨x, hx, rfl⟩ := hl
  exact ⟨_, by simp only [List.map_map, List.mem_map]; exact ⟨x, hx, rfl⟩⟩

theorem saveResult_files (cwd : List Str) (resultPath : Str) (report filtered : Bool) (pfmt dfmt : Str) (s : Srcs) :
    (saveResult cwd resultPath report filtered pfmt dfmt s).files =
      (((if report then [(inFolder (resultFolder resultPath) (strOf "result.md"), strOf "report")] else []) ++
        [(inFolder (resultFolder resultPath) (strOf "initial_parameters." ++ pfmt), strOf "initial_parameters"),
         (inFolder (resultFolder resultPath) (strOf "optimized_parameters." ++ pfmt), strOf "optimized_parameters"),
         (inFolder (resultFolder resultPath) (strOf "parameter_history.csv"), strOf "parameter_history"),
         (inFolder (resultFolder resultPath) (strOf "optimization_history.csv"), strOf "optimization_history")]) ++
        (s.data.map (fun x => (x.1, inFolder (resultFolder resultPath) (x.1 ++ ('.' :: dfmt))))).map
          (fun x => (x.2, strOf (if filtered then "data-filtered:" else "data:") ++ x.1))) ++
      [(inFolder (resultFolder resultPath) (strOf "model.yml"), strOf "model"),
       (inFolder (resultFolder resultPath) (strOf "scheme.yml"), strOf "scheme"),
       ((if (parsePath resultPath).suffix == strOf ".yml" || (parsePath resultPath).suffix == strOf ".yaml"
          then parsePath resultPath else joinP (parsePath resultPath) (parsePath (strOf "result.yml"))).asPosix, strOf "result")] := rfl

theorem normStack_mem (xs acc : List Str) : ∀ p ∈ normStack xs acc, p ∈ xs ∨ p ∈ acc := by
  induction xs generalizing acc with
  | nil => intro p hp; exact Or.inr hp
  | cons x xs ih =>
    intro p hp
    simp only [normStack, List.foldl_cons] at hp
    split at hp
    · rcases ih _ p hp with h | h
      · exact Or.inl (by simp [h])
      · exact Or.inr (List.mem_of_mem_tail h)
    · rcases ih _ p hp with h | h
      · exact Or.inl (by simp [h])
      · rcases List.mem_cons.mp h with h | h
        · exact Or.inl (by simp [h])
        · exact Or.inr h

theorem resolveP_normParts (cwd : List Str) (p : PPath) (hc : NormParts cwd) (hp : p.Norm) : NormParts (resolveP cwd p) := by
  intro q hq
  unfold resolveP at hq
  split at hq
  · rw [normAbs_eq] at hq
    rcases normStack_mem _ _ q (by simpa using hq) with h | h
    · exact hp q h
    · simp at h
  · rw [normAbs_eq] at hq
    rcases normStack_mem _ _ q (by simpa using hq) with h | h
    · rcases List.mem_append.mp h with h | h
      · exact hc q h
      · exact hp q h
    · simp at h

theorem relpath_norm (cwd : List Str) (src base : PPath) (hc : NormParts cwd) (hs : src.Norm) : (relpath cwd src base).Norm := by
  intro q hq
  simp only [relpath, List.mem_append, List.mem_replicate] at hq
  rcases hq with ⟨_, h⟩ | h
  · subst h; unfold NormPart; decide
  · exact resolveP_normParts cwd src hc hs q (List.mem_of_mem_drop h)

/-- the folder `save_scheme(scheme, path)` resolves references against -/
def schemeFolder (schemePath : Str) : PPath := (parsePath schemePath).parent

/-- a component `relative_posix_path` can express relative to the folder: saved under an absolute path, or below the folder -/
def SourceOK (cwd : List Str) (folder : PPath) (src : Str) : Prop :=
  (parsePath src).abs = true ∨ isProperPrefix (resolveP cwd folder) (resolveP cwd (parsePath src)) = true

/-! ### files of datasets -/

/-- the path `save_result` hands to the dataset writer for label `l`: `result_folder / f"{l}.{fmt}"` -/
def dataFile (resultPath dfmt l : Str) : Str := inFolder (resultFolder resultPath) (dataName dfmt l)

theorem plain_dataName_nc (l : Str) (h : '/' ∉ l) : PlainName (dataName (strOf "nc") l) := by
  have hlen : 3 ≤ (dataName (strOf "nc") l).length := by simp [dataName, strOf]
  refine ⟨⟨?_, ?_, ?_⟩, ?_⟩
  · intro e; rw [e] at hlen; simp at hlen
  · simp [dataName, strOf, h]
  · unfold isDot
    cases hh : (dataName (strOf "nc") l == ['.']) with
    | false => rfl
    | true => have := eq_of_beq hh; rw [this] at hlen; simp at hlen
  · unfold isDotDot
    cases hh : (dataName (strOf "nc") l == ['.', '.']) with
    | false => rfl
    | true => have := eq_of_beq hh; rw [this] at hlen; simp at hlen

theorem dataFile_injective (resultPath dfmt l1 l2 : Str)
    (h1 : PlainName (dataName dfmt l1)) (h2 : PlainName (dataName dfmt l2))
    (h : dataFile resultPath dfmt l1 = dataFile resultPath dfmt l2) : l1 = l2 := by
  have hf := resultFolder_norm resultPath
  have e1 := rel_inFolder [] (resultFolder resultPath) _ hf h1
  have e2 := rel_inFolder [] (resultFolder resultPath) _ hf h2
  unfold dataFile at h
  rw [h, e2] at e1
  exact (List.append_cancel_right e1).symm

theorem resolve_dataFile (cwd : List Str) (resultPath dfmt l : Str) (h : PlainName (dataName dfmt l)) :
    resolveP cwd (parsePath (dataFile resultPath dfmt l))
      = resolveP cwd (parsePath (resultFolder resultPath).asPosix) ++ [dataName dfmt l] := by
  have hf := resultFolder_norm resultPath
  have hfile : (joinP (resultFolder resultPath) ⟨false, [dataName dfmt l]⟩).Norm :=
    joinP_norm _ _ hf (by intro p hp; simp only [List.mem_singleton] at hp; subst hp; exact h.1)
  simp only [dataFile, inFolder, parsePath_plain _ h]
  rw [parsePath_asPosix _ hfile, parsePath_asPosix _ hf, resolveP_joinP_rel,
    normStack_noDD _ _ (by intro p hp; simp only [List.mem_singleton] at hp; subst hp; exact h.2)]
  simp

theorem saveResult_data (cwd : List Str) (resultPath : Str) (report filtered : Bool) (pfmt dfmt : Str) (s : Srcs) :
    (saveResult cwd resultPath report filtered pfmt dfmt s).srcs.data
      = s.data.map (fun x => (x.1, dataFile resultPath dfmt x.1)) := rfl

end Glotaran.C17
