/-
C02 — full models: the matrix given to the solver is the Kronecker product of the global matrix and the
model matrix in the flattening order of `data.T.flatten()`:
entry (g·nModel + m, j·nClp + l) = weight[m][g] · G[g][j] · M_g[m][l], data entry g·nModel + m = weighted data[m][g].
-/
import GlotaranProofs.Lemmas.C02Bij
import GlotaranProofs.Lemmas.C03Fit
namespace Glotaran.C02
open Glotaran.LinAlg Glotaran.C03

theorem sum_take_const {α : Type} (l : List α) (n g : Nat) (hg : g ≤ l.length) :
    ((l.take g).map (fun _ => n)).sum = g * n := by
  rw [Length.sum_map_const, List.length_take, Nat.min_eq_left hg]

/-- row `m` of the Kronecker block of one global-matrix row -/
theorem kronRow_entry (grow : Vec) (M : Mat) (nClp m j l : Nat) (row : Vec) (gv : Rat)
    (hrow : M[m]? = some row) (hw : row.length = nClp) (hj : grow[j]? = some gv) (hl : l < nClp) :
    ((kronRow grow M)[m]?).bind (fun r => r[j * nClp + l]?) = some (gv * row.getD l 0) := by
  have hm : m < M.length := (List.getElem?_eq_some_iff.mp hrow).1
  have hrowe : M[m] = row := (List.getElem?_eq_some_iff.mp hrow).2
  have hjl : j < grow.length := (List.getElem?_eq_some_iff.mp hj).1
  have hgve : grow[j] = gv := (List.getElem?_eq_some_iff.mp hj).2
  simp only [kronRow, List.getElem?_map, List.getElem?_eq_getElem hm, Option.map_some, Option.bind_some, hrowe]
  have := flatMap_getElem?_offset grow (fun gv => row.map (gv * ·)) (fun _ => nClp) (by intro a _; simp [hw])
    j hjl l hl
  rw [sum_take_const _ _ _ (by omega)] at this
  rw [this, hgve]
  have hl' : l < row.length := by omega
  simp [List.getElem?_eq_getElem hl', List.getD_eq_getElem?_getD]

/-- the flattened list of Kronecker blocks, one per global index -/
theorem kron_blocks_entry (blocks : List (Vec × Mat)) (nModel nClp g m j l : Nat)
    (hlen : ∀ b ∈ blocks, b.2.length = nModel) (hg : g < blocks.length)
    (row : Vec) (gv : Rat) (hrow : (blocks[g]).2[m]? = some row) (hw : row.length = nClp)
    (hj : (blocks[g]).1[j]? = some gv) (hl : l < nClp) :
    ((blocks.flatMap (fun b => kronRow b.1 b.2))[g * nModel + m]?).bind (fun r => r[j * nClp + l]?) =
      some (gv * row.getD l 0) := by
  have hm : m < nModel := by
    rw [← hlen _ (List.getElem_mem hg)]; exact (List.getElem?_eq_some_iff.mp hrow).1
  have := flatMap_getElem?_offset blocks (fun b => kronRow b.1 b.2) (fun _ => nModel)
    (by intro b hb; simp [kronRow, hlen b hb]) g hg m hm
  rw [sum_take_const _ _ _ (by omega)] at this
  rw [this]
  exact kronRow_entry _ _ nClp m j l row gv hrow hw hj hl

/-- both branches of `calculate_full_matrices` as a list of (global row, model matrix) blocks -/
def kronBlocks (G : Mat) (body : Body) : List (Vec × Mat) :=
  match body with
  | .d2 M => G.map (fun grow => (grow, M))
  | .d3 Ms => List.zip G Ms

theorem flatten_zipWith_kron (G : Mat) (Ms : List Mat) :
    (List.zipWith (fun grow m => kronRow grow m) G Ms).flatten =
      (List.zip G Ms).flatMap (fun b => kronRow b.1 b.2) := by
  induction G generalizing Ms with
  | nil => simp
  | cons g G ih =>
    cases Ms with
    | nil => simp
    | cons M Ms => simp [ih]

theorem fullMatrix_d2 (G : Mat) (M : Mat) :
    G.flatMap (fun grow => kronRow grow M) = (kronBlocks G (.d2 M)).flatMap (fun b => kronRow b.1 b.2) := by
  simp [kronBlocks, List.flatMap_map]

theorem fullMatrix_d3 (G : Mat) (Ms : List Mat) :
    (List.zipWith (fun grow m => kronRow grow m) G Ms).flatten =
      (kronBlocks G (.d3 Ms)).flatMap (fun b => kronRow b.1 b.2) := flatten_zipWith_kron G Ms

theorem kronBlocks_getElem (G : Mat) (lm : LMat) (nModel nGlobal g : Nat) (hok : LMatOK nModel nGlobal lm)
    (hG : G.length = nGlobal) (hg : g < nGlobal) :
    ∃ hg' : g < (kronBlocks G lm.body).length,
      (kronBlocks G lm.body)[g] = (G[g]'(by omega), matrixAt lm nGlobal g) ∧
      ∀ b ∈ kronBlocks G lm.body, b.2.length = nModel := by
  have h2 := hok.2
  unfold kronBlocks matrixAt slices
  cases hb : lm.body with
  | d2 M =>
    rw [hb] at h2
    refine ⟨by simp; omega, ?_, ?_⟩
    · simp [List.getD_eq_getElem?_getD, List.getElem?_replicate_of_lt hg]
    · intro b hb'
      simp only [List.mem_map] at hb'
      obtain ⟨_, _, rfl⟩ := hb'
      exact h2.1
  | d3 Ms =>
    rw [hb] at h2
    have hg2 : g < Ms.length := by rw [h2.1]; exact hg
    refine ⟨by simp; omega, ?_, ?_⟩
    · simp [List.getElem_zip, List.getD_eq_getElem?_getD, List.getElem?_eq_getElem hg2]
    · intro b hb'
      have := (List.of_mem_zip hb').2
      exact (h2.2 _ this).1

/-- **`full_model_kron`** (see Props/C02.lean) -/
theorem full_model_kron_lem (d : Dataset) (lm gm : LMat) (G a : Mat) (y : Vec)
    (hlm : datasetMatrix d.mcs = some lm) (hgm : datasetMatrix d.gmcs = some gm) (hGb : gm.body = .d2 G)
    (h : fullModelProblem d = some (a, y))
    (hok : LMatOK d.nModel d.nGlobal lm) (hd : DataOK d)
    (hG : G.length = d.nGlobal) (hGw : ∀ r ∈ G, r.length = gm.labels.length)
    (g m j l : Nat) (hg : g < d.nGlobal) (hm : m < d.nModel) (hj : j < gm.labels.length) (hl : l < lm.labels.length) :
    ∃ grow row ω yv, G[g]? = some grow ∧ (matrixAt lm d.nGlobal g)[m]? = some row ∧
      entry? d.data m g = some yv ∧
      (match (generalizing := false) d.weight with | none => ω = 1 | some w => entry? w m g = some ω) ∧
      entry? a (g * d.nModel + m) (j * lm.labels.length + l) = some (ω * (grow.getD j 0 * row.getD l 0)) ∧
      y[g * d.nModel + m]? = some (yv * ω) := by
  unfold fullModelProblem at h
  simp only [hlm, hgm, hGb, Option.some.injEq, Prod.mk.injEq] at h
  obtain ⟨ha, hy⟩ := h
  have ha' : (match d.weight with
      | some w => weightRows ((kronBlocks G lm.body).flatMap (fun b => kronRow b.1 b.2))
          ((List.range d.nGlobal).flatMap (fun g => col w g))
      | none => (kronBlocks G lm.body).flatMap (fun b => kronRow b.1 b.2)) = a := by
    rw [← ha]
    cases hb : lm.body with
    | d2 M => cases d.weight <;> simp only [fullMatrix_d2]
    | d3 Ms => cases d.weight <;> simp only [fullMatrix_d3]
  clear ha
  have ha := ha'
  have hgG : g < G.length := by omega
  obtain ⟨hg', hblk, hlens⟩ := kronBlocks_getElem G lm d.nModel d.nGlobal g hok hG hg
  obtain ⟨hAlen, hAw⟩ := matrixAt_ok lm _ _ g hok hg
  have hmA : m < (matrixAt lm d.nGlobal g).length := by rw [hAlen]; exact hm
  have hjg : j < G[g].length := by rw [hGw _ (List.getElem_mem hgG)]; exact hj
  obtain ⟨yv, hyv⟩ := entry?_of_rect d.data d.nGlobal m g hd.1 hm hg
  -- the unweighted entry
  have hentry := kron_blocks_entry (kronBlocks G lm.body) d.nModel lm.labels.length g m j l hlens hg'
    (matrixAt lm d.nGlobal g)[m] G[g][j]
    (by rw [hblk]; exact List.getElem?_eq_getElem hmA)
    (hAw _ (List.getElem_mem hmA))
    (by rw [hblk]; exact List.getElem?_eq_getElem hjg) hl
  -- flattened column-major vectors
  have hflat : ∀ (M : Mat) (e : Rat), M.length = d.nModel → entry? M m g = some e →
      ((List.range d.nGlobal).flatMap (fun g => col M g))[g * d.nModel + m]? = some e := by
    intro M e hM he
    have := flatMap_getElem?_offset (List.range d.nGlobal) (fun g => col M g) (fun _ => d.nModel)
      (by intro a _; simp [Length.len_col, hM]) g (by simpa using hg) m hm
    rw [sum_take_const _ _ _ (by simp; omega)] at this
    rw [this]
    simp only [List.getElem_range]
    exact col_getElem? _ _ _ _ he
  have hGj : (G[g]).getD j 0 = G[g][j] := by simp [List.getD_eq_getElem?_getD, List.getElem?_eq_getElem hjg]
  cases hw : d.weight with
  | none =>
    refine ⟨G[g], (matrixAt lm d.nGlobal g)[m], 1, yv, List.getElem?_eq_getElem hgG,
      List.getElem?_eq_getElem hmA, hyv, rfl, ?_, ?_⟩
    · rw [hw] at ha
      simp only at ha
      rw [← ha, one_mul, hGj]
      exact hentry
    · rw [← hy, C02.unweighted_data' d hw, mul_one]
      exact hflat d.data yv rfl hyv
  | some w =>
    obtain ⟨hwl, hww⟩ := hd.2 w hw
    obtain ⟨ω, hω⟩ := entry?_of_rect w d.nGlobal m g hww (by rw [hwl]; exact hm) hg
    refine ⟨G[g], (matrixAt lm d.nGlobal g)[m], ω, yv, List.getElem?_eq_getElem hgG,
      List.getElem?_eq_getElem hmA, hyv, hω, ?_, ?_⟩
    · rw [hw] at ha
      simp only at ha
      rw [← ha, hGj]
      have hwflat := hflat w ω hwl hω
      -- a weighted row is the row scaled by its weight
      obtain ⟨r0, hr0, hr0e⟩ := Option.bind_eq_some_iff.mp hentry
      unfold entry?
      simp only [weightRows, List.getElem?_zipWith, hr0, hwflat, Option.bind_some]
      simp only [vscale, List.getElem?_map, hr0e, Option.map_some]
    · rw [← hy, C02.weighted_data' d w hw]
      have hh : entry? (hadamard d.data w) m g = some (yv * ω) := by
        unfold hadamard; rw [entry?_zipWith, hyv, hω]
      exact hflat _ _ (by rw [Length.rows_hadamard, hwl]; unfold Dataset.nModel; omega) hh

end Glotaran.C02
