/-
C05 — lemmas about the vocabulary of the regenerated functions (GlotaranModel/C05Rt.lean): loop nests of
point-wise stores are entry-wise folds, ranges with array reads are folds over zipped lists, and the
real-number instance of `NumOrd`.
-/
import GlotaranModel.Generated.C05Fns
import GlotaranModel.Generated.C05Irf
import GlotaranProofs.Lemmas.C05
namespace Glotaran.C05
open Real

/-! ### the real-number instance -/

noncomputable instance instNumOrdReal : NumOrd ℝ where
  toNum := instNumReal
  lt a b := decide (a < b)
  abs a := |a|

@[simp] theorem num_lt (a b : ℝ) : NumOrd.lt a b = decide (a < b) := rfl
@[simp] theorem num_abs (a : ℝ) : NumOrd.abs a = |a| := rfl

/-! ### the kernel's two decisions over the reals -/

theorem threshLt_real (k t c w : Rat) :
    threshLt k t c w = decide ((((t:ℝ) - c) / ((w:ℝ) * √2) - ((k:ℝ) * w) / √2) < -1) := by
  by_cases hw : w = 0
  · subst hw
    have : threshLt k t c 0 = false := by
      simp [threshLt, threshNum, ltNegSqrt2]
    rw [this]
    simp
  · have h := threshT_real k t c w hw
    have h2 := ltNegSqrt2_iff (threshNum k t c w)
    simp only [threshT, betaT, alphaT, num_sub, num_div, num_ofRat, num_mul, num_sqrt2] at h
    push_cast at h
    rw [h]
    unfold threshLt
    by_cases hb : ltNegSqrt2 (threshNum k t c w) = true
    · rw [hb]; exact (decide_eq_true (h2.mp hb)).symm
    · have : ¬ ((threshNum k t c w : Rat) : ℝ) / √2 < -1 := fun hh => hb (h2.mpr hh)
      simp [hb, this]

theorem backsweepValid_real (bs : Bool) (k T : Rat) :
    backsweepValid bs k T = (bs && decide (((1152921504606847 / 1152921504606846976 : Rat) : ℝ) < |(k:ℝ)| * (T:ℝ))) := by
  unfold backsweepValid lit001
  congr 1
  have : (if k < 0 then -k else k) = |k| := by
    split
    · rw [abs_of_neg ‹_›]
    · rw [abs_of_nonneg (not_lt.mp ‹_›)]
  rw [this]
  apply decide_eq_decide.mpr
  rw [← Rat.cast_abs, ← Rat.cast_mul, Rat.cast_lt]


/-! ### loops -/

section loops
variable {σ : Type}

theorem forRange_zero (init : σ) (body : Nat → σ → σ) : forRange 0 init body = init := rfl

theorem forRange_succ (n : Nat) (init : σ) (body : Nat → σ → σ) :
    forRange (n + 1) init body = body n (forRange n init body) := by
  simp [forRange, List.range_succ, List.foldl_append]

theorem forRange_id (n : Nat) (x : σ) : forRange n x (fun _ y => y) = x := by
  induction n with
  | zero => rfl
  | succ n ih => rw [forRange_succ, ih]

theorem forRange_congr (n : Nat) (x : σ) (B B' : Nat → σ → σ) (h : ∀ i, i < n → ∀ y, B i y = B' i y) :
    forRange n x B = forRange n x B' := by
  induction n with
  | zero => rfl
  | succ n ih =>
    rw [forRange_succ, forRange_succ, ih (fun i hi y => h i (by omega) y), h n (by omega)]

/-- a loop whose body does something only at `i = p` -/
theorem forRange_single (n p : Nat) (B : Nat → σ → σ) (x : σ) (hB : ∀ i, i ≠ p → ∀ y, B i y = y) :
    forRange n x B = if p < n then B p x else x := by
  induction n with
  | zero => simp [forRange_zero]
  | succ n ih =>
    rw [forRange_succ, ih]
    by_cases hp : p < n
    · have : n ≠ p := by omega
      simp [hp, hB n this, Nat.lt_succ_of_lt hp]
    · by_cases hpn : p = n
      · subst hpn; simp
      · have : ¬ p < n + 1 := by omega
        simp [hp, this, hB n (fun h => hpn h.symm)]

/-- a loop over `range n` reading three arrays is the fold over the zipped arrays -/
theorem forRange_zip3 {β : Type} (cs ws ss : List Rat) (hw : ws.length = cs.length) (hs : ss.length = cs.length)
    (G : Rat → Rat → Rat → β → β) (x : β) :
    forRange cs.length x (fun i y => G (cs.getD i 0) (ws.getD i 0) (ss.getD i 0) y)
      = (cs.zip (ws.zip ss)).foldl (fun y g => G g.1 g.2.1 g.2.2 y) x := by
  induction cs using List.reverseRecOn generalizing ws ss x with
  | nil => simp [forRange_zero]
  | append_singleton cs c ih =>
    obtain ⟨ws', w, rfl⟩ : ∃ ws' w, ws = ws' ++ [w] := by
      rcases List.eq_nil_or_concat ws with h | ⟨l, a, h⟩
      · subst h; simp at hw
      · exact ⟨l, a, by simpa using h⟩
    obtain ⟨ss', s, rfl⟩ : ∃ ss' s, ss = ss' ++ [s] := by
      rcases List.eq_nil_or_concat ss with h | ⟨l, a, h⟩
      · subst h; simp at hs
      · exact ⟨l, a, by simpa using h⟩
    have hw' : ws'.length = cs.length := by simpa using hw
    have hs' : ss'.length = cs.length := by simpa using hs
    have hz : (cs ++ [c]).zip ((ws' ++ [w]).zip (ss' ++ [s])) = cs.zip (ws'.zip ss') ++ [(c, w, s)] := by
      rw [List.zip_append (by omega), List.zip_append (by simp [hw', hs'])]
      simp
    rw [hz, List.foldl_append, List.length_append, List.length_singleton, forRange_succ]
    have hpre : forRange cs.length x (fun i y => G ((cs ++ [c]).getD i 0) ((ws' ++ [w]).getD i 0) ((ss' ++ [s]).getD i 0) y)
        = forRange cs.length x (fun i y => G (cs.getD i 0) (ws'.getD i 0) (ss'.getD i 0) y) := by
      apply forRange_congr
      intro i hi y
      simp [List.getD_eq_getElem?_getD, List.getElem?_append_left, hi, hw', hs']
    rw [hpre, ih ws' ss' hw' hs']
    simp [List.getD_eq_getElem?_getD, ← hw']
    simp [hw', hs']

end loops

/-! ### matrices -/

section mats
variable {α : Type}

theorem matMapIdx_matMapIdx (m : Mat α) (φ ψ : Nat → Nat → α → α) :
    matMapIdx (matMapIdx m φ) ψ = matMapIdx m (fun p q x => ψ p q (φ p q x)) := by
  simp [matMapIdx, List.mapIdx_mapIdx, Function.comp_def]

theorem ite_matMapIdx (c : Prop) [Decidable c] (m : Mat α) (φ ψ : Nat → Nat → α → α) :
    (if c then matMapIdx m φ else matMapIdx m ψ) = matMapIdx m (fun p q x => if c then φ p q x else ψ p q x) := by
  split <;> rfl

theorem mapIdx_id' {β : Type} (l : List β) : l.mapIdx (fun _ x => x) = l := by
  apply List.ext_getElem?
  intro i
  simp [List.getElem?_mapIdx]

theorem matMapIdx_id (m : Mat α) : matMapIdx m (fun _ _ x => x) = m := by
  simp [matMapIdx, mapIdx_id']

theorem ite_matMapIdx_right (c : Prop) [Decidable c] (m : Mat α) (φ : Nat → Nat → α → α) :
    (if c then matMapIdx m φ else m) = matMapIdx m (fun p q x => if c then φ p q x else x) := by
  split
  · rfl
  · exact (matMapIdx_id m).symm

/-- a loop of entry-wise maps is the entry-wise loop -/
theorem forRange_matMapIdx (n : Nat) (m : Mat α) (φ : Nat → Nat → Nat → α → α) :
    forRange n m (fun i m => matMapIdx m (φ i))
      = matMapIdx m (fun p q x => forRange n x (fun i x => φ i p q x)) := by
  induction n with
  | zero => simp [forRange_zero, matMapIdx_id]
  | succ n ih => simp only [forRange_succ, ih, matMapIdx_matMapIdx]

theorem matMapIdx_zeros [Num α] (r c : Nat) (φ : Nat → Nat → α → α) :
    matMapIdx (zeros r c : Mat α) φ
      = (List.range r).map (fun p => (List.range c).map (fun q => φ p q (Num.ofRat 0))) := by
  unfold matMapIdx zeros
  apply List.ext_getElem?
  intro p
  simp only [List.getElem?_mapIdx, List.getElem?_map, List.getElem?_replicate]
  by_cases hp : p < r
  · simp only [hp, if_true, Option.map_some, List.getElem?_range hp]
    congr 1
    apply List.ext_getElem?
    intro q
    by_cases hq : q < c
    · simp [hq]
    · simp [hq]
  · simp [hp]

theorem map_eq_map_range {β : Type} (l : List Rat) (f : Rat → β) :
    l.map f = (List.range l.length).map (fun i => f (l.getD i 0)) := by
  apply List.ext_getElem?
  intro i
  by_cases hi : i < l.length
  · simp [List.getD_eq_getElem?_getD, hi]
  · simp [hi]

theorem forRange_slabUpd {α : Type} (n : Nat) (ms : List (Mat α)) (f : Nat → Mat α → Mat α) :
    forRange n ms (fun i ms => slabUpd ms i (f i)) = ms.mapIdx (fun p m => if p < n then f p m else m) := by
  induction n with
  | zero => simp [forRange_zero, mapIdx_id']
  | succ n ih =>
    rw [forRange_succ, ih]
    unfold slabUpd
    rw [List.mapIdx_mapIdx]
    apply List.ext_getElem?
    intro p
    simp only [List.getElem?_mapIdx]
    congr 1
    funext m
    by_cases h1 : p = n
    · subst h1; simp
    · by_cases h2 : p < n
      · simp [h1, h2, Nat.lt_succ_of_lt h2]
      · have : ¬ p < n + 1 := by omega
        simp [h1, h2, this]

theorem mapIdx_replicate' {β γ : Type} (n : Nat) (b : β) (f : Nat → β → γ) :
    (List.replicate n b).mapIdx f = (List.range n).map (fun p => f p b) := by
  apply List.ext_getElem?
  intro p
  by_cases hp : p < n
  · simp [hp]
  · simp [hp]

end mats

/-! ### loops that may raise, and the state the index-dependent glue collects -/

theorem foldlM_bindE {σ ε β ι : Type} (l : List ι) (init : σ) (f : ι → Except ε β) (step : σ → β → σ) :
    l.foldlM (fun s i => bindE (f i) (fun p => Except.ok (step s p))) init
      = bindE (l.mapM f) (fun ps => Except.ok (ps.foldl step init)) := by
  induction l generalizing init with
  | nil => rfl
  | cons a rest ih =>
    rw [List.foldlM_cons, List.mapM_cons]
    cases hfa : f a with
    | error e => rfl
    | ok b =>
      show List.foldlM _ (step init b) rest = _
      rw [ih]
      cases hr : rest.mapM f with
      | error e => rfl
      | ok bs => rfl

theorem forRangeM_bindE {σ ε β : Type} (n : Nat) (init : σ) (f : Nat → Except ε β) (step : σ → β → σ) :
    forRangeM n init (fun i st => bindE (f i) (fun p => Except.ok (step st p)))
      = bindE ((List.range n).mapM f) (fun ps => Except.ok (ps.foldl step init)) := foldlM_bindE _ _ _ _

/-- the state the index-dependent glue collects: all shifted centres, all widths, and the back-sweep flag,
    period and scales of the last index -/
theorem foldl_collect (ps : List Params) (a w : List (List Rat)) (q : Params) :
    ps.foldl (fun (st : List (List Rat) × List (List Rat) × Bool × Rat × List Rat) p =>
        (st.1 ++ [vecSubScalar p.centers p.shift], st.2.1 ++ [p.widths], p.backsweep, p.period, p.scales))
        (a, w, q.backsweep, q.period, q.scales)
      = (a ++ ps.map (fun p => p.centers.map (· - p.shift)), w ++ ps.map (·.widths),
          (ps.getLastD q).backsweep, (ps.getLastD q).period, (ps.getLastD q).scales) := by
  induction ps generalizing a w q with
  | nil => simp
  | cons p rest ih =>
    simp only [List.foldl_cons]
    rw [ih (a ++ [vecSubScalar p.centers p.shift]) (w ++ [p.widths]) p]
    have hl : (p :: rest).getLast?.getD q = rest.getLast?.getD p := by
      cases rest with
      | nil => simp
      | cons r rs =>
        rw [List.getLast?_cons_cons]
        cases h : (r :: rs).getLast? with
        | none => simp at h
        | some x => simp
    simp [vecSubScalar, hl]


/-! ### the regenerated dispersion loops are the model's `dispLoop` -/

theorem enumFold_dispLoop (dist : Rat) (coefs : List Rat) (i : Nat) (vs : List Rat) :
    (coefs.zipIdx i).foldl (fun s xi => vecAddScalar s (xi.1 * dist ^ (xi.2 + 1))) vs = dispLoop dist i coefs vs := by
  induction coefs generalizing i vs with
  | nil => rfl
  | cons d rest ih =>
    simp only [List.zipIdx_cons, List.foldl_cons, dispLoop]
    rw [ih]
    rfl

theorem spectral_dispersion_eq (cd wd : List Rat) (dist : Rat) (cs ws : List Rat) :
    Gen.spectral_dispersion cd wd dist cs ws
      = (if cd.isEmpty then cs else dispLoop dist 0 cd cs, if wd.isEmpty then ws else dispLoop dist 0 wd ws) := by
  unfold Gen.spectral_dispersion enumFold
  simp only [enumFold_dispLoop]
  cases cd <;> cases wd <;> simp



/-! ### helpers for the method-level translation (Generated/C05Irf.lean) and the checked `calculate_matrix` -/

/-- the exception of a result, for examples (`IrfError` has decidable equality, matrices of terms have not) -/
def errOf {ε β : Type} : Except ε β → Option ε
  | .error e => some e
  | .ok _ => none

theorem matmul_eq_applyA {α : Type} [Num α] (M : Matrix α) (a : List (List Rat)) (n : Nat) :
    Matrix.matmul M a n = Matrix.applyA a n M := by
  cases M <;> rfl

/-- every row of `irf_center_location` has one entry per global index -/
theorem calculateDispersion_rows (irf : Irf) (axis : List Rat) (loc : List (List Rat))
    (h : calculateDispersion irf axis = .ok loc) : loc.all (fun r => r.length == axis.length) = true := by
  unfold calculateDispersion at h
  cases hps : (List.range axis.length).mapM (fun i => spectralParameter irf (some i) axis) with
  | error e => simp [hps] at h
  | ok ps =>
    simp only [hps, Except.ok.injEq] at h
    obtain ⟨hl, _⟩ := mapM_ok _ _ _ hps
    subst h
    simp [hl]

/-- dividing a non-empty matrix by a zero sum of scales leaves no finite entry -/
theorem normalised_zero_sum_not_finite (p : Params) (times rates : List Rat) (h0 : p.scales.sum = 0)
    (ht : times ≠ []) (hr : rates ≠ []) :
    (matrixOfParams (α := Term) true p times rates).all (fun row => row.all Term.finite) = false := by
  obtain ⟨t, ts, rfl⟩ := List.exists_cons_of_ne_nil ht
  obtain ⟨k, ks, rfl⟩ := List.exists_cons_of_ne_nil hr
  simp [matrixOfParams, normalise, kernelOnIndex, h0, Num.div, Num.ofRat, Term.finite]

/-- the `irf` variable of the result is `Irf.calculate(index = 0)` -/
theorem retrieveIrf_irf {α : Type} [Num α] (irf : Irf) (axis times : List Rat) (r : IrfResult α)
    (h : retrieveIrf irf axis times = .ok r) : irfCalculate irf 0 axis times = .ok r.irf := by
  unfold retrieveIrf at h
  cases hv : irfCalculate (α := α) irf 0 axis times with
  | error e => simp [hv] at h
  | ok v =>
    simp only [hv] at h
    congr 1
    split at h
    · simp at h
    · split at h
      · simp at h
      · split at h
        · split at h
          · simp at h
          · simp only [Except.ok.injEq] at h; rw [← h]
        · simp only [Except.ok.injEq] at h; rw [← h]


end Glotaran.C05
