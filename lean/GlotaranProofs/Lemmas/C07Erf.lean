import Mathlib.Analysis.Complex.HasPrimitives
import Mathlib.Analysis.SpecialFunctions.Gaussian.GaussianIntegral

/-!
# C07: the complex error function, defined and differentiated without hypotheses

`erfC z = 2/√π · ∫_{0 → z} exp (-u²) du`, the integral being taken along the two sides of the
rectangle from `0` to `z` (`Complex.wedgeIntegral`).  Because `u ↦ exp (-u²)` is entire, Morera's
theorem (`Mathlib.Analysis.Complex.HasPrimitives`) gives that the wedge integral is a primitive on
the whole plane.  This discharges the hypothesis `herf` of `irfKernel_hasDerivAt_complex` in
`GlotaranProofs/Lemmas/C07.lean`.
-/

namespace Glotaran.C07

open Complex MeasureTheory Metric Set Topology Filter

private theorem gaussC_differentiable : Differentiable ℂ (fun u : ℂ => Complex.exp (-u ^ 2)) := by
  fun_prop

/-- the wedge integral from `0` of the entire function `exp (-u²)` is a primitive of it on all
of `ℂ` (Morera) -/
theorem wedgeIntegral_gauss_hasDerivAt (z : ℂ) :
    HasDerivAt (fun w => Complex.wedgeIntegral 0 w (fun u => Complex.exp (-u ^ 2)))
      (Complex.exp (-z ^ 2)) z := by
  have hd := gaussC_differentiable
  have hcons : Complex.IsConservativeOn (fun u : ℂ => Complex.exp (-u ^ 2)) (ball 0 (‖z‖ + 1)) :=
    (hd.differentiableOn).isConservativeOn
  have hz : z ∈ ball (0 : ℂ) (‖z‖ + 1) := by simp
  exact hcons.hasDerivAt_wedgeIntegral hd.continuous.continuousOn hz

/-- the entire error function: `2/√π` times the primitive of `exp (-u²)` that vanishes at 0
(integral of the entire function along the two sides of the rectangle 0 → z) -/
noncomputable def erfC (z : ℂ) : ℂ :=
  2 / (Real.sqrt Real.pi : ℂ) * Complex.wedgeIntegral 0 z (fun u => Complex.exp (-u ^ 2))

theorem erfC_hasDerivAt (z : ℂ) :
    HasDerivAt erfC (2 / (Real.sqrt Real.pi : ℂ) * Complex.exp (-z ^ 2)) z :=
  (wedgeIntegral_gauss_hasDerivAt z).const_mul (2 / (Real.sqrt Real.pi : ℂ))

theorem erfC_differentiable : Differentiable ℂ erfC :=
  fun z => (erfC_hasDerivAt z).differentiableAt

theorem erfC_continuous : Continuous erfC := erfC_differentiable.continuous

theorem erfC_zero : erfC 0 = 0 := by
  simp [erfC, Complex.wedgeIntegral]

/-- on the real axis it is the usual error function -/
theorem erfC_ofReal (x : ℝ) :
    erfC (x : ℂ) = ((2 / Real.sqrt Real.pi * ∫ t in (0:ℝ)..x, Real.exp (-t ^ 2) : ℝ) : ℂ) := by
  have h : Complex.wedgeIntegral 0 (x : ℂ) (fun u => Complex.exp (-u ^ 2))
      = ((∫ t in (0:ℝ)..x, Real.exp (-t ^ 2) : ℝ) : ℂ) := by
    rw [← intervalIntegral.integral_ofReal]
    simp [Complex.wedgeIntegral]
  rw [erfC, h]
  push_cast
  ring

/-- the error function is odd -/
theorem erfC_neg (z : ℂ) : erfC (-z) = - erfC z := by
  have hderiv : ∀ w : ℂ, HasDerivAt (fun w => erfC (-w) + erfC w) 0 w := by
    intro w
    have h1 : HasDerivAt (fun w : ℂ => erfC (-w))
        (2 / (Real.sqrt Real.pi : ℂ) * Complex.exp (-(-w) ^ 2) * (-1)) w :=
      (erfC_hasDerivAt (-w)).comp w (hasDerivAt_neg w)
    have h2 : HasDerivAt (fun w : ℂ => erfC (-w) + erfC w)
        (2 / (Real.sqrt Real.pi : ℂ) * Complex.exp (-(-w) ^ 2) * (-1)
          + 2 / (Real.sqrt Real.pi : ℂ) * Complex.exp (-w ^ 2)) w :=
      h1.add (erfC_hasDerivAt w)
    have h0 : 2 / (Real.sqrt Real.pi : ℂ) * Complex.exp (-(-w) ^ 2) * (-1)
          + 2 / (Real.sqrt Real.pi : ℂ) * Complex.exp (-w ^ 2) = 0 := by
      rw [neg_sq]; ring
    rwa [h0] at h2
  have hdiff : Differentiable ℂ (fun w => erfC (-w) + erfC w) :=
    fun w => (hderiv w).differentiableAt
  have hconst := is_const_of_deriv_eq_zero hdiff (fun w => (hderiv w).deriv) z 0
  simp only [neg_zero, erfC_zero, add_zero] at hconst
  exact eq_neg_of_add_eq_zero_left hconst

/-- `∫₀ˣ exp (-t²) dt → √π / 2` as `x → ∞` -/
theorem integral_gauss_tendsto_atTop :
    Tendsto (fun x : ℝ => ∫ t in (0:ℝ)..x, Real.exp (-t ^ 2)) atTop
      (𝓝 (Real.sqrt Real.pi / 2)) := by
  have hint : IntegrableOn (fun t : ℝ => Real.exp (-(1:ℝ) * t ^ 2)) (Ioi 0) :=
    (integrable_exp_neg_mul_sq (by norm_num : (0:ℝ) < 1)).integrableOn
  have h := intervalIntegral_tendsto_integral_Ioi (0:ℝ) hint tendsto_id
  rw [integral_gaussian_Ioi 1] at h
  simpa using h

/-- `erf x → 1` as `x → +∞` along the real axis -/
theorem erfC_tendsto_atTop : Tendsto (fun x : ℝ => erfC (x : ℂ)) atTop (𝓝 1) := by
  have hpi : Real.sqrt Real.pi ≠ 0 := (Real.sqrt_pos.mpr Real.pi_pos).ne'
  have h1 : Tendsto (fun x : ℝ => 2 / Real.sqrt Real.pi * ∫ t in (0:ℝ)..x, Real.exp (-t ^ 2))
      atTop (𝓝 (2 / Real.sqrt Real.pi * (Real.sqrt Real.pi / 2))) :=
    integral_gauss_tendsto_atTop.const_mul _
  have h2 : (2 / Real.sqrt Real.pi * (Real.sqrt Real.pi / 2) : ℝ) = 1 := by
    field_simp
  rw [h2] at h1
  have h3 := (Complex.continuous_ofReal.tendsto (1:ℝ)).comp h1
  simp only [Complex.ofReal_one] at h3
  refine h3.congr (fun x => ?_)
  simp only [Function.comp_apply]
  exact (erfC_ofReal x).symm

/-- `erf x → -1` as `x → -∞` along the real axis -/
theorem erfC_tendsto_atBot : Tendsto (fun x : ℝ => erfC (x : ℂ)) atBot (𝓝 (-1)) := by
  have h := (erfC_tendsto_atTop.comp tendsto_neg_atBot_atTop).neg
  refine h.congr (fun x => ?_)
  simp only [Function.comp_apply, Complex.ofReal_neg, erfC_neg, neg_neg]

end Glotaran.C07
