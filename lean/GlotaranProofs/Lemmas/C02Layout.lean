import GlotaranModel.C02Layout
namespace Glotaran.C02.Layout
open Glotaran.LinAlg (Mat Vec col ncols)

/-! ### rectangular arrays, entries -/

/-- `a` has `r` rows of length `c` -/
def Rect (a : Mat) (r c : Nat) : Prop := a.length = r ∧ ∀ row ∈ a, row.length = c

/-- a stored variable is a `nm × ng` (model × global) array laid out in one of the two orders of its
    own dims -/
def StoredAs (v : Var) (modelDim globalDim : String) (nm ng : Nat) : Prop :=
  (v.dims = [modelDim, globalDim] ∧ Rect v.arr nm ng) ∨ (v.dims = [globalDim, modelDim] ∧ Rect v.arr ng nm)

theorem entry_eq_getElem (a : Mat) (i j : Nat) (hi : i < a.length) (hj : j < (a[i]).length) :
    entry a i j = (a[i])[j] := by
  simp [entry, List.getD_eq_getElem?_getD, hi, hj]

theorem rect_row {a : Mat} {r c : Nat} (h : Rect a r c) (i : Nat) (hi : i < a.length) :
    (a[i]).length = c := h.2 _ (List.getElem_mem hi)

theorem ncols_of_rect {a : Mat} {r c : Nat} (h : Rect a r c) (hr : 0 < r) : ncols a = c := by
  obtain ⟨hl, hrow⟩ := h
  cases a with
  | nil => simp at hl; omega
  | cons x xs => simpa [ncols] using hrow x (by simp)

theorem transpose_rect {a : Mat} {r c : Nat} (h : Rect a r c) (hr : 0 < r) : Rect (transpose a) c r := by
  refine ⟨by simp [transpose, ncols_of_rect h hr], ?_⟩
  intro row hrow
  simp only [transpose, List.mem_map] at hrow
  obtain ⟨j, _, rfl⟩ := hrow
  simp [col, h.1]

theorem entry_transpose {a : Mat} {r c : Nat} (h : Rect a r c) (i j : Nat) (hi : i < c) (hj : j < r) :
    entry (transpose a) i j = entry a j i := by
  have hr : 0 < r := by omega
  have hl : a.length = r := h.1
  simp [entry, transpose, ncols_of_rect h hr, col, List.getD_eq_getElem?_getD, hi, hj, hl]

theorem entry_hadamard (a b : Mat) (i j : Nat) (ha : i < a.length) (hb : i < b.length)
    (hja : j < (a[i]).length) (hjb : j < (b[i]).length) :
    entry (hadamard a b) i j = entry a i j * entry b i j := by
  simp [entry, hadamard, List.getD_eq_getElem?_getD, List.getElem?_zipWith, ha, hb, hja, hjb]

theorem hadamard_rect {a b : Mat} {r c : Nat} (ha : Rect a r c) (hb : Rect b r c) :
    Rect (hadamard a b) r c := by
  refine ⟨by simp [hadamard, ha.1, hb.1], ?_⟩
  intro row hrow
  simp only [hadamard] at hrow
  obtain ⟨i, hi, rfl⟩ := List.getElem_of_mem hrow
  simp only [List.length_zipWith] at hi
  simp [List.getElem_zipWith, rect_row ha i (by omega), rect_row hb i (by omega)]

/-- two rectangular arrays of the same shape with the same entries are equal -/
theorem rect_ext {a b : Mat} {r c : Nat} (ha : Rect a r c) (hb : Rect b r c)
    (h : ∀ i j, i < r → j < c → entry a i j = entry b i j) : a = b := by
  apply List.ext_getElem (by rw [ha.1, hb.1])
  intro i hi hi'
  have hra := rect_row ha i hi
  have hrb := rect_row hb i hi'
  apply List.ext_getElem (by rw [hra, hrb])
  intro j hj hj'
  have := h i j (by rw [← ha.1]; exact hi) (by rw [← hra]; exact hj)
  rwa [entry_eq_getElem a i j hi hj, entry_eq_getElem b i j hi' hj'] at this

/-! ### orientation -/

/-- the oriented array of a stored variable is `nm × ng` and its entry (m, g) is the stored value
    addressed by the variable's own dimension names -/
theorem orient_spec (v : Var) (md gd : String) (nm ng : Nat) (hne : md ≠ gd)
    (hs : StoredAs v md gd nm ng) (hng : 0 < ng) :
    Rect (orient v md gd) nm ng ∧
      ∀ m g, m < nm → g < ng → entry (orient v md gd) m g = isel v md m g := by
  rcases hs with ⟨hd, hr⟩ | ⟨hd, hr⟩
  · refine ⟨by simpa [orient, hd] using hr, ?_⟩
    intro m g _ _
    simp [orient, isel, hd]
  · have hdn : (v.dims != [md, gd]) = true := by
      simp [hd]; intro h; exact absurd h.symm hne
    refine ⟨by simpa [orient, hdn] using transpose_rect hr hng, ?_⟩
    intro m g hm hg
    have hgm : ¬ gd = md := fun h => hne h.symm
    simp [orient, isel, hd, hgm, entry_transpose hr m g hm hg]

theorem infer_of_storedAs (v : Var) (md gd : String) (nm ng : Nat) (hne : md ≠ gd)
    (hs : StoredAs v md gd nm ng) : inferGlobalDimension md v.dims = some gd := by
  have hgm : (gd != md) = true := by simpa using fun h => hne h.symm
  rcases hs with ⟨hd, _⟩ | ⟨hd, _⟩ <;> simp [inferGlobalDimension, hd, List.find?, hgm]

/-! ### the theorems -/

/-- `infer_global_dimension` returns the first dimension that differs from the model dimension -/
theorem infer_global_first (md : String) (dims : List String) (gd : String) :
    inferGlobalDimension md dims = some gd ↔
      ∃ pre post, dims = pre ++ gd :: post ∧ gd ≠ md ∧ ∀ d ∈ pre, d = md := by
  unfold inferGlobalDimension
  rw [List.find?_eq_some_iff_append]
  constructor
  · rintro ⟨h, pre, post, rfl, hpre⟩
    exact ⟨pre, post, rfl, by simpa using h, fun d hd => by simpa using hpre d hd⟩
  · rintro ⟨pre, post, rfl, h, hpre⟩
    exact ⟨by simpa using h, pre, post, rfl, fun d hd => by simpa using hpre d hd⟩

example : inferGlobalDimension "model" ["model", "global"] = some "global" ∧
    inferGlobalDimension "model" ["global", "model"] = some "global" ∧
    inferGlobalDimension "model" ["model"] = none := by decide

/-- entry (m, g) of the provider's data before weighting: the stored value addressed by the data
    variable's own dims — stated on the unweighted provider data -/
theorem data_orientation_entry (md gd : String) (data : Var) (nm ng : Nat) (hne : md ≠ gd)
    (hd : StoredAs data md gd nm ng) (hng : 0 < ng) :
    ∃ pd, layout md data none none = some (pd, none) ∧ Rect pd nm ng ∧
      ∀ m g, m < nm → g < ng → entry pd m g = isel data md m g := by
  have hi := infer_of_storedAs data md gd nm ng hne hd
  have ho := orient_spec data md gd nm ng hne hd hng
  exact ⟨orient data md gd, by simp [layout, hi, weightSource, getFromDataset], ho.1, ho.2⟩

example : layout "model" ⟨["global", "model"], [[1, 2, 3], [4, 5, 6]]⟩ none none
    = some ([[1, 4], [2, 5], [3, 6]], none) := by decide +kernel

/-- the provider's weight is oriented by the weight variable's OWN dims, whatever the data's dims are:
    entry (m, g) of `get_weight` is the stored weight addressed by its own dimension names -/
theorem weight_orientation_follows_own_dims (md gd : String) (data w : Var) (mw : Option Mat)
    (nm ng : Nat) (hne : md ≠ gd)
    (hd : StoredAs data md gd nm ng) (hw : StoredAs w md gd nm ng) (hng : 0 < ng) :
    ∃ pd pw, layout md data (some w) mw = some (pd, some pw) ∧ Rect pw nm ng ∧
      ∀ m g, m < nm → g < ng → entry pw m g = isel w md m g := by
  have hi := infer_of_storedAs data md gd nm ng hne hd
  have ho := orient_spec w md gd nm ng hne hw hng
  exact ⟨hadamard (orient data md gd) (orient w md gd), orient w md gd,
    by simp [layout, hi, weightSource, getFromDataset], ho.1, ho.2⟩

/-- data stored (global, model), weight stored (model, global): the product is correctly oriented -/
example : layout "model" ⟨["global", "model"], [[1, 2, 3], [4, 5, 6]]⟩
    (some ⟨["model", "global"], [[1, 2], [1, 2], [2, 2]]⟩) none
    = some ([[1, 8], [2, 10], [6, 12]], some [[1, 2], [1, 2], [2, 2]]) := by decide +kernel

/-- entry (m, g) of `get_data`: data entry × weight entry (dataset weight, else model weight), or the
    data entry when there is no weight; all addressed by the variables' own dimension names -/
theorem provider_data_entry (md gd : String) (data : Var) (w : Option Var) (mw : Option Mat)
    (nm ng : Nat) (hne : md ≠ gd) (hd : StoredAs data md gd nm ng)
    (hw : ∀ wv, w = some wv → StoredAs wv md gd nm ng) (hmw : ∀ x, mw = some x → Rect x nm ng)
    (hng : 0 < ng) :
    ∃ pd pw, layout md data w mw = some (pd, pw) ∧ Rect pd nm ng ∧
      ∀ m g, m < nm → g < ng → entry pd m g = isel data md m g *
        (match w, mw with
         | some wv, _ => isel wv md m g
         | none, some x => entry x m g
         | none, none => 1) := by
  have hi := infer_of_storedAs data md gd nm ng hne hd
  have ho := orient_spec data md gd nm ng hne hd hng
  have key : ∀ x : Mat, Rect x nm ng → Rect (hadamard (orient data md gd) x) nm ng ∧
      ∀ m g, m < nm → g < ng →
        entry (hadamard (orient data md gd) x) m g = entry (orient data md gd) m g * entry x m g := by
    intro x hx
    refine ⟨hadamard_rect ho.1 hx, ?_⟩
    intro m g hm hg
    have h1 : m < (orient data md gd).length := by rw [ho.1.1]; exact hm
    have h2 : m < x.length := by rw [hx.1]; exact hm
    exact entry_hadamard _ _ m g h1 h2 (by rw [rect_row ho.1 m h1]; exact hg) (by rw [rect_row hx m h2]; exact hg)
  cases w with
  | some wv =>
    have hwo := orient_spec wv md gd nm ng hne (hw wv rfl) hng
    refine ⟨hadamard (orient data md gd) (orient wv md gd), some (orient wv md gd),
      by simp [layout, hi, weightSource, getFromDataset], (key _ hwo.1).1, ?_⟩
    intro m g hm hg
    rw [(key _ hwo.1).2 m g hm hg, ho.2 m g hm hg, hwo.2 m g hm hg]
  | none =>
    cases mw with
    | some x =>
      refine ⟨hadamard (orient data md gd) x, some x,
        by simp [layout, hi, weightSource, getFromDataset], (key _ (hmw x rfl)).1, ?_⟩
      intro m g hm hg
      rw [(key _ (hmw x rfl)).2 m g hm hg, ho.2 m g hm hg]
    | none =>
      refine ⟨orient data md gd, none, by simp [layout, hi, weightSource, getFromDataset], ho.1, ?_⟩
      intro m g hm hg
      rw [ho.2 m g hm hg]; simp

example : layout "model" ⟨["model", "global"], [[1, 2], [3, 4]]⟩ none (some [[2, 2], [1, 3]])
    = some ([[2, 4], [3, 12]], some [[2, 2], [1, 3]]) := by decide +kernel

/-- a dataset's own weight wins over the model weight (the code warns and ignores the model weight) -/
theorem dataset_weight_wins (md : String) (data w : Var) (mw : Option Mat) :
    layout md data (some w) mw = layout md data (some w) none := by
  simp [layout, weightSource, getFromDataset]

/-- … and without a dataset weight the provider's weight is the model weight -/
theorem model_weight_without_dataset_weight (md : String) (data : Var) (mw : Option Mat) (r : Mat × Option Mat)
    (h : layout md data none mw = some r) : r.2 = mw := by
  unfold layout at h
  cases hi : inferGlobalDimension md data.dims with
  | none => simp [hi] at h
  | some gd =>
    cases mw with
    | none => simp [hi, weightSource, getFromDataset] at h; rw [← h]
    | some x => simp [hi, weightSource, getFromDataset] at h; rw [← h]

example : layout "model" ⟨["model", "global"], [[1, 2], [3, 4]]⟩
      (some ⟨["global", "model"], [[2, 1], [2, 3]]⟩) (some [[5, 5], [5, 5]])
    = some ([[2, 4], [3, 12]], some [[2, 2], [1, 3]]) := by decide +kernel

/-- two stored layouts of the same logical arrays (same values under addressing by dimension name)
    give the same provider data and weight -/
theorem layout_invariant (md gd : String) (d₁ d₂ : Var) (w₁ w₂ : Option Var) (mw : Option Mat)
    (nm ng : Nat) (hne : md ≠ gd) (hng : 0 < ng)
    (hd₁ : StoredAs d₁ md gd nm ng) (hd₂ : StoredAs d₂ md gd nm ng)
    (hd : ∀ m g, m < nm → g < ng → isel d₁ md m g = isel d₂ md m g)
    (hw : (w₁ = none ∧ w₂ = none) ∨ ∃ a b, w₁ = some a ∧ w₂ = some b ∧
      StoredAs a md gd nm ng ∧ StoredAs b md gd nm ng ∧
      ∀ m g, m < nm → g < ng → isel a md m g = isel b md m g) :
    layout md d₁ w₁ mw = layout md d₂ w₂ mw := by
  have hi₁ := infer_of_storedAs d₁ md gd nm ng hne hd₁
  have hi₂ := infer_of_storedAs d₂ md gd nm ng hne hd₂
  have same : ∀ a b : Var, StoredAs a md gd nm ng → StoredAs b md gd nm ng →
      (∀ m g, m < nm → g < ng → isel a md m g = isel b md m g) → orient a md gd = orient b md gd := by
    intro a b ha hb hab
    have oa := orient_spec a md gd nm ng hne ha hng
    have ob := orient_spec b md gd nm ng hne hb hng
    exact rect_ext oa.1 ob.1 (fun i j hi hj => by rw [oa.2 i j hi hj, ob.2 i j hi hj, hab i j hi hj])
  have hdd := same d₁ d₂ hd₁ hd₂ hd
  rcases hw with ⟨rfl, rfl⟩ | ⟨a, b, rfl, rfl, ha, hb, hab⟩
  · simp [layout, hi₁, hi₂, hdd]
  · simp [layout, hi₁, hi₂, hdd, weightSource, getFromDataset, same a b ha hb hab]

example : layout "model" ⟨["model", "global"], [[1, 2], [3, 4], [5, 6]]⟩
      (some ⟨["global", "model"], [[1, 2, 1], [2, 1, 2]]⟩) none
    = layout "model" ⟨["global", "model"], [[1, 3, 5], [2, 4, 6]]⟩
      (some ⟨["model", "global"], [[1, 2], [2, 1], [1, 2]]⟩) none := by decide +kernel

/-! ### `is_linkable` -/

theorem mem_dedup (l : List String) (a : String) : a ∈ dedup l ↔ a ∈ l := by
  induction l with
  | nil => simp [dedup]
  | cons x xs ih =>
    simp only [dedup]
    split
    · rename_i h
      have hx : x ∈ xs := by simpa using h
      rw [ih, List.mem_cons]
      constructor
      · exact Or.inr
      · rintro (rfl | h') <;> assumption
    · simp [ih]

theorem nodup_dedup (l : List String) : (dedup l).Nodup := by
  induction l with
  | nil => simp [dedup]
  | cons x xs ih =>
    simp only [dedup]
    split
    · exact ih
    · rename_i h
      have hx : x ∉ xs := by simpa using h
      exact List.nodup_cons.mpr ⟨by rw [mem_dedup]; exact hx, ih⟩

/-- a duplicate-free list has exactly one element iff it has an element all others are equal to -/
theorem nodup_length_one {l : List String} (hn : l.Nodup) :
    l.length = 1 ↔ ∃ a, a ∈ l ∧ ∀ b ∈ l, b = a := by
  constructor
  · intro h
    match l, h with
    | [a], _ => exact ⟨a, by simp, by simp⟩
  · rintro ⟨a, ha, hall⟩
    match l, hn, ha, hall with
    | [_], _, _, _ => rfl
    | x :: y :: _, hn, _, hall =>
      have hx := hall x (by simp)
      have hy := hall y (by simp)
      rw [List.nodup_cons] at hn
      exact absurd (by rw [hx, hy]; simp) hn.1

/-- the cardinality of the set of values of a list is one iff some value occurs and all are equal to it -/
theorem dedup_length_one (l : List String) :
    (dedup l).length = 1 ↔ ∃ a, a ∈ l ∧ ∀ b ∈ l, b = a := by
  rw [nodup_length_one (nodup_dedup l)]
  simp only [mem_dedup]

theorem explicit_link_wins (b : Bool) (g : List DsDesc) (all : List (List String)) :
    resolveLink (some b) g all = b := rfl

/-- `link_clp: null`: the group is linked iff no dataset of the group has a global model, all its
    datasets (at least one) have the same model dimension `md`, and over the `data` variables of ALL
    datasets of the scheme exactly one coordinate name other than `md` occurs -/
theorem auto_link_iff (g : List DsDesc) (all : List (List String)) :
    resolveLink none g all = true ↔
      (∀ d ∈ g, d.hasGlobal = false) ∧
      ∃ md, (∃ d ∈ g, d.modelDim = md) ∧ (∀ d ∈ g, d.modelDim = md) ∧
        ∃ c, (∃ cs ∈ all, c ∈ cs) ∧ c ≠ md ∧ ∀ c', (∃ cs ∈ all, c' ∈ cs) → c' ≠ md → c' = c := by
  have hany : g.any (·.hasGlobal) = false ↔ ∀ d ∈ g, d.hasGlobal = false := by simp
  have hmd : (dedup (g.map (·.modelDim))).length = 1 ↔
      ∃ md, (∃ d ∈ g, d.modelDim = md) ∧ ∀ d ∈ g, d.modelDim = md := by
    rw [dedup_length_one]
    simp only [List.mem_map]
    constructor
    · rintro ⟨a, ⟨d, hd, rfl⟩, hall⟩
      exact ⟨_, ⟨d, hd, rfl⟩, fun d' hd' => hall _ ⟨d', hd', rfl⟩⟩
    · rintro ⟨md, ⟨d, hd, rfl⟩, hall⟩
      exact ⟨_, ⟨d, hd, rfl⟩, by rintro b ⟨d', hd', rfl⟩; exact hall d' hd'⟩
  have hsingle : ∀ md, (∃ d ∈ g, d.modelDim = md) → (∀ d ∈ g, d.modelDim = md) →
      ∀ c, c ∈ dedup (g.map (·.modelDim)) ↔ c = md := by
    intro md ⟨d, hd, hdm⟩ hall c
    rw [mem_dedup, List.mem_map]
    constructor
    · rintro ⟨d', hd', rfl⟩; exact hall d' hd'
    · rintro rfl; exact ⟨d, hd, hdm⟩
  simp only [resolveLink, isLinkable]
  by_cases h1 : g.any (·.hasGlobal) = true
  · have : ¬ ∀ d ∈ g, d.hasGlobal = false := by
      intro h; rw [← hany] at h; rw [h] at h1; exact absurd h1 (by simp)
    simp [h1]
    intro h; exact absurd h (by simpa using this)
  · have h1' : g.any (·.hasGlobal) = false := by simpa using h1
    have hg := hany.mp h1'
    rw [if_neg h1]
    by_cases h2 : (dedup (g.map (·.modelDim))).length = 1
    · obtain ⟨md, hex, hall⟩ := hmd.mp h2
      have hmem := hsingle md hex hall
      have hlen : ((dedup (g.map (·.modelDim))).length != 1) = false := by simp [h2]
      simp only [hlen, Bool.false_eq_true, if_false, beq_iff_eq]
      rw [dedup_length_one]
      have hin : ∀ c, c ∈ all.flatMap (fun cs => cs.filter
          (fun c => !(dedup (g.map (·.modelDim))).contains c)) ↔ (∃ cs ∈ all, c ∈ cs) ∧ c ≠ md := by
        intro c
        have hcont : (dedup (g.map (·.modelDim))).contains c = false ↔ c ≠ md := by
          rw [Ne, ← hmem c]; simp
        simp only [List.mem_flatMap, List.mem_filter, Bool.not_eq_true', hcont]
        constructor
        · rintro ⟨cs, hcs, hc, hne⟩; exact ⟨⟨cs, hcs, hc⟩, hne⟩
        · rintro ⟨⟨cs, hcs, hc⟩, hne⟩; exact ⟨cs, hcs, hc, hne⟩
      constructor
      · rintro ⟨c, hc, hcall⟩
        refine ⟨hg, md, hex, hall, c, ((hin c).mp hc).1, ((hin c).mp hc).2, ?_⟩
        intro c' hc' hne'
        exact hcall c' ((hin c').mpr ⟨hc', hne'⟩)
      · rintro ⟨_, md', hex', hall', c, hc, hne, hcall⟩
        have hmm : md' = md := by
          obtain ⟨d, hd, hdm⟩ := hex'
          rw [← hdm]; exact hall d hd
        subst hmm
        exact ⟨c, (hin c).mpr ⟨hc, hne⟩, fun c' hc' => hcall c' ((hin c').mp hc').1 ((hin c').mp hc').2⟩
    · have hlen : ((dedup (g.map (·.modelDim))).length != 1) = true := by simp [h2]
      simp only [hlen, if_true, Bool.false_eq_true, false_iff]
      rintro ⟨_, md, hex, hall, _⟩
      exact h2 (hmd.mpr ⟨md, hex, hall⟩)

/-- linked: one group dataset, a foreign dataset of the scheme with the same coordinates -/
example : resolveLink none [⟨false, "model", ["model", "global"]⟩, ⟨false, "model", ["global", "model"]⟩]
    [["model", "global"], ["global", "model"], ["global", "model"]] = true := by decide
/-- not linked although the group itself is uniform: a dataset of ANOTHER group (only in `all`) has a
    second coordinate name -/
example : resolveLink none [⟨false, "model", ["model", "global"]⟩]
    [["model", "global"], ["model", "global2"]] = false := by decide
/-- a scalar coordinate on the data variable counts as a "global dimension" -/
example : resolveLink none [⟨false, "model", ["model", "global", "temperature"]⟩]
    [["model", "global", "temperature"]] = false := by decide
example : resolveLink none [⟨true, "model", ["model", "global"]⟩] [["model", "global"]] = false := by decide
example : resolveLink none [⟨false, "model", []⟩, ⟨false, "model2", []⟩] [["model", "global"]] = false := by decide

end Glotaran.C02.Layout
