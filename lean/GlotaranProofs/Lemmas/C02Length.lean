import GlotaranModel.C02
namespace Glotaran.C02
open Glotaran.LinAlg

/-!
# C02 — length of the residual part of an unlinked group

`group_penalty_length_unlinked_lem`: for an unlinked group whose datasets have no global megacomplexes
and are shape-consistent (`Dataset.WF`), every data point contributes exactly one residual entry.
-/

/-- Shape consistency of a dataset, as far as the residual *length* depends on it.
* the weight, if present, has `nModel` rows;
* every megacomplex output is either 2-D with `nModel` rows, or 3-D with `nGlobal` matrices each of
  `nModel` rows.
(`data` has `nModel` rows by definition of `nModel`.  Row *widths* — of the data, the weight and the
megacomplex matrices — are irrelevant for the residual length and are not required.) -/
def Dataset.WF (d : Dataset) : Prop :=
  (∀ w, d.weight = some w → w.length = d.nModel) ∧
  (∀ o ∈ d.mcs,
    match o.out.body with
    | .d2 m => m.length = d.nModel
    | .d3 ms => ms.length = d.nGlobal ∧ ∀ m ∈ ms, m.length = d.nModel)

/-- The weakest shape condition the length proof actually uses: everything has *at least* the
expected extent (`Dataset.WF` implies it). -/
def Dataset.WFWeak (d : Dataset) : Prop :=
  (∀ w, d.weight = some w → d.nModel ≤ w.length) ∧
  (∀ o ∈ d.mcs,
    match o.out.body with
    | .d2 m => d.nModel ≤ m.length
    | .d3 ms => d.nGlobal ≤ ms.length ∧ ∀ m ∈ ms, d.nModel ≤ m.length)

namespace Length

/-! ### generic list facts -/

/-- `mapM` in `Option`: a pointwise relation between inputs and outputs lifts to the lists. -/
theorem mapM_option_map_eq {α β γ : Type} (f : α → Option β) (g : β → γ) (h : α → γ) :
    ∀ (l : List α) (r : List β), l.mapM f = some r →
      (∀ x ∈ l, ∀ y, f x = some y → g y = h x) → r.map g = l.map h := by
  intro l
  induction l with
  | nil =>
    intro r hr _
    simp only [List.mapM_nil] at hr
    cases hr
    rfl
  | cons a l ih =>
    intro r hr hp
    rw [List.mapM_cons] at hr
    cases hfa : f a with
    | none => simp [hfa] at hr
    | some b =>
      cases hl : l.mapM f with
      | none => simp [hfa, hl] at hr
      | some r' =>
        simp [hfa, hl] at hr
        subst hr
        have h1 := hp a (List.mem_cons_self) b hfa
        have h2 := ih r' hl (fun x hx y hy => hp x (List.mem_cons_of_mem _ hx) y hy)
        simp [h1, h2]

theorem sum_map_const {α : Type} (l : List α) (n : Nat) :
    (l.map (fun _ => n)).sum = l.length * n := by
  induction l with
  | nil => simp
  | cons a l ih => simp [ih, Nat.add_mul, Nat.add_comm]

theorem mem_zipWith_exists {α β γ : Type} (f : α → β → γ) :
    ∀ (as : List α) (bs : List β) (c : γ), c ∈ List.zipWith f as bs →
      ∃ a ∈ as, ∃ b ∈ bs, c = f a b := by
  intro as
  induction as with
  | nil => intro bs c hc; simp at hc
  | cons a as ih =>
    intro bs c hc
    cases bs with
    | nil => simp at hc
    | cons b bs =>
      simp only [List.zipWith_cons_cons, List.mem_cons] at hc
      rcases hc with rfl | hc
      · exact ⟨a, List.mem_cons_self, b, List.mem_cons_self, rfl⟩
      · obtain ⟨a', ha', b', hb', rfl⟩ := ih bs c hc
        exact ⟨a', List.mem_cons_of_mem _ ha', b', List.mem_cons_of_mem _ hb', rfl⟩

/-! ### row counts of the matrix operations -/

theorem rows_matMul (a b : Mat) (n : Nat) : (matMul a b n).length = a.length := by
  simp [matMul]

theorem rows_mscale (k : Rat) (m : Mat) : (mscale k m).length = m.length := by
  simp [mscale]

theorem rows_weightRows (m : Mat) (w : Vec) : (weightRows m w).length = min m.length w.length := by
  simp [weightRows]

theorem len_col (m : Mat) (j : Nat) : (col m j).length = m.length := by
  simp [col]

theorem rows_hadamard (a b : Mat) : (hadamard a b).length = min a.length b.length := by
  simp [hadamard]

theorem len_residual (a : Mat) (y c : Vec) : (residual a y c).length = min y.length a.length := by
  simp [residual, vsub, mulVec]

theorem rows_fromCols (n : Nat) (cols : List Vec) : (fromCols n cols).length = n := by
  simp [fromCols]

theorem rows_combine2 (labels ll lr : List String) (a b : Mat) :
    (combine2 labels ll lr a b).length = a.length := by
  simp [combine2, rows_fromCols]

theorem rows_applyRelationsAt (rels : List Relation) (x : Rat) (lm : LMat2) :
    (applyRelationsAt rels x lm).m.length = lm.m.length := by
  simp only [applyRelationsAt]
  split
  · rfl
  · simp [rows_matMul]

theorem rows_applyConstraintsAt (cons : List Constraint) (x : Rat) (lm : LMat2) :
    (applyConstraintsAt cons x lm).m.length = lm.m.length := by
  simp only [applyConstraintsAt]
  split
  · rfl
  · simp

theorem rows_reduceAt (mi : ModelItems) (x : Rat) (lm : LMat2) :
    (reduceAt mi x lm).m.length = lm.m.length := by
  simp [reduceAt, rows_applyConstraintsAt, rows_applyRelationsAt]

/-! ### the shape invariant of a dataset matrix -/

/-- 2-D with at least `nM` rows, or 3-D with at least `nG` matrices of at least `nM` rows each -/
def BodyOK (nM nG : Nat) : Body → Prop
  | .d2 m => nM ≤ m.length
  | .d3 ms => nG ≤ ms.length ∧ ∀ m ∈ ms, nM ≤ m.length

theorem bodyOK_scale (nM nG : Nat) (k : Rat) (b : Body) (h : BodyOK nM nG b) :
    BodyOK nM nG (b.scale k) := by
  cases b with
  | d2 m => simpa [Body.scale, BodyOK, rows_mscale] using h
  | d3 ms =>
    obtain ⟨h1, h2⟩ := h
    refine ⟨by simpa [Body.scale] using h1, ?_⟩
    intro m hm
    simp only [List.mem_map] at hm
    obtain ⟨m', hm', rfl⟩ := hm
    rw [rows_mscale]
    exact h2 m' hm'

theorem bodyOK_scaled (nM nG : Nat) (o : McOut) (h : BodyOK nM nG o.out.body) :
    BodyOK nM nG o.scaled.body := by
  unfold McOut.scaled
  split
  · exact bodyOK_scale nM nG _ _ h
  · exact h

theorem bodyOK_combine (nM nG : Nat) (l r : LMat) (hl : BodyOK nM nG l.body)
    (hr : BodyOK nM nG r.body) : BodyOK nM nG (combine l r).body := by
  obtain ⟨ll, lb⟩ := l
  obtain ⟨rl, rb⟩ := r
  cases lb with
  | d2 a =>
    cases rb with
    | d2 b => simpa [combine, BodyOK, rows_combine2] using hl
    | d3 bs =>
      obtain ⟨h1, h2⟩ := hr
      simp only [combine, BodyOK, List.length_map, List.mem_map]
      refine ⟨h1, ?_⟩
      rintro m ⟨m', hm', rfl⟩
      rw [rows_combine2]
      exact h2 m' hm'
  | d3 as =>
    obtain ⟨h1, h2⟩ := hl
    cases rb with
    | d2 b =>
      simp only [combine, BodyOK, List.length_map, List.mem_map]
      refine ⟨h1, ?_⟩
      rintro m ⟨m', hm', rfl⟩
      rw [rows_combine2]
      exact h2 m' hm'
    | d3 bs =>
      obtain ⟨h3, _⟩ := hr
      simp only [combine, BodyOK, List.length_zipWith]
      refine ⟨by omega, ?_⟩
      intro m hm
      obtain ⟨a, ha, b, _, rfl⟩ := mem_zipWith_exists _ _ _ _ hm
      rw [rows_combine2]
      exact h2 a ha

theorem bodyOK_foldl_combine (nM nG : Nat) :
    ∀ (rest : List McOut) (acc : LMat), BodyOK nM nG acc.body →
      (∀ o ∈ rest, BodyOK nM nG o.out.body) →
      BodyOK nM nG (rest.foldl (fun acc o => combine acc o.scaled) acc).body := by
  intro rest
  induction rest with
  | nil => intro acc h _; exact h
  | cons o rest ih =>
    intro acc h hr
    simp only [List.foldl_cons]
    apply ih
    · exact bodyOK_combine nM nG _ _ h (bodyOK_scaled nM nG o (hr o List.mem_cons_self))
    · intro o' ho'; exact hr o' (List.mem_cons_of_mem _ ho')

theorem bodyOK_datasetMatrix (nM nG : Nat) (mcs : List McOut) (lm : LMat)
    (hm : ∀ o ∈ mcs, BodyOK nM nG o.out.body) (h : datasetMatrix mcs = some lm) :
    BodyOK nM nG lm.body := by
  cases mcs with
  | nil => simp [datasetMatrix] at h
  | cons m rest =>
    simp only [datasetMatrix, Option.some.injEq] at h
    subst h
    apply bodyOK_foldl_combine
    · exact bodyOK_scaled nM nG m (hm m List.mem_cons_self)
    · intro o ho; exact hm o (List.mem_cons_of_mem _ ho)

/-- every one of the first `nG` slices has at least `nM` rows -/
theorem rows_slices (nM nG : Nat) (labels : List String) (b : Body) (hb : BodyOK nM nG b)
    (i : Nat) (hi : i < nG) :
    nM ≤ ((slices ⟨labels, b⟩ nG).getD i default).m.length := by
  cases b with
  | d2 m =>
    simp only [slices, List.getD_eq_getElem?_getD, List.getElem?_replicate_of_lt hi,
      Option.getD_some]
    exact hb
  | d3 ms =>
    obtain ⟨h1, h2⟩ := hb
    have hi' : i < ms.length := by omega
    simp only [slices, List.getD_eq_getElem?_getD, List.getElem?_map,
      List.getElem?_eq_getElem hi', Option.map_some, Option.getD_some]
    exact h2 _ (List.getElem_mem hi')

theorem wfWeak_bodyOK (d : Dataset) (h : d.WFWeak) : ∀ o ∈ d.mcs, BodyOK d.nModel d.nGlobal o.out.body := by
  intro o ho
  have := h.2 o ho
  cases hb : o.out.body with
  | d2 m => rw [hb] at this; exact this
  | d3 ms => rw [hb] at this; exact this

theorem rows_weightedData (d : Dataset) (h : d.WFWeak) : d.weightedData.length = d.nModel := by
  unfold Dataset.weightedData
  cases hw : d.weight with
  | none => rfl
  | some w =>
    have := h.1 w hw
    simp only [rows_hadamard]
    unfold Dataset.nModel at *
    omega

/-! ### the per-index problems -/

theorem problems_shape (mi : ModelItems) (d : Dataset) (ps : List IndexProblem) (hwf : d.WFWeak)
    (h : unlinkedProblems mi d = some ps) :
    ps.length = d.nGlobal ∧
      ∀ p ∈ ps, p.data.length = d.nModel ∧ d.nModel ≤ p.reduced.m.length := by
  unfold unlinkedProblems at h
  cases hdm : datasetMatrix d.mcs with
  | none => simp [hdm] at h
  | some lm =>
    simp only [hdm, Option.some.injEq] at h
    subst h
    refine ⟨by simp, ?_⟩
    intro p hp
    simp only [List.mem_map, List.mem_range] at hp
    obtain ⟨i, hi, rfl⟩ := hp
    have hbody : BodyOK d.nModel d.nGlobal (lm.body.scale (d.scale.getD 1)) :=
      bodyOK_scale _ _ _ _ (bodyOK_datasetMatrix _ _ _ _ (wfWeak_bodyOK d hwf) hdm)
    have hs := rows_slices d.nModel d.nGlobal lm.labels _ hbody i hi
    refine ⟨by simp [len_col, rows_weightedData d hwf], ?_⟩
    cases hw : d.weight with
    | none => simpa [rows_reduceAt] using hs
    | some w =>
      have := hwf.1 w hw
      simp only [rows_weightRows, rows_reduceAt, len_col]
      omega

theorem len_solveLS (s : Solver) (a : Mat) (y : Vec) (cr : Vec × Vec)
    (h : solveLS s a y = some cr) : cr.2.length = min y.length a.length := by
  unfold solveLS at h
  split at h
  · cases h; exact len_residual _ _ _
  · cases h

/-! ### one dataset -/

theorem unlinkedDataset_length (mi : ModelItems) (s : Solver) (d : Dataset) (rp : Vec × Vec)
    (hg : d.gmcs = []) (hwf : d.WFWeak) (h : unlinkedDataset mi s d = some rp) :
    rp.1.length = d.nModel * d.nGlobal := by
  unfold unlinkedDataset at h
  simp only [hg, List.isEmpty_nil, Bool.not_true, Bool.false_eq_true, if_false] at h
  split at h
  · cases h
  · rename_i ps hps
    obtain ⟨hlen, hshape⟩ := problems_shape mi d ps hwf hps
    split at h
    · cases h
    · rename_i sols hsols
      cases h
      have hmap := mapM_option_map_eq _ (fun pc : IndexProblem × Vec × Vec => pc.2.2.length)
        (fun _ => d.nModel) ps sols hsols (by
          intro p hp pc hpc
          obtain ⟨h1, h2⟩ := hshape p hp
          cases hsol : solveLS s p.reduced.m p.data with
          | none => simp [hsol] at hpc
          | some cr =>
            simp only [hsol, Option.map_some, Option.some.injEq] at hpc
            subst hpc
            have := len_solveLS _ _ _ _ hsol
            simp only [this]
            omega)
      simp only [List.length_flatMap, hmap, sum_map_const, hlen, Nat.mul_comm]

end Length

theorem Dataset.WF.weak {d : Dataset} (h : d.WF) : d.WFWeak := by
  refine ⟨fun w hw => Nat.le_of_eq (h.1 w hw).symm, ?_⟩
  intro o ho
  have := h.2 o ho
  cases hb : o.out.body with
  | d2 m => rw [hb] at this; exact Nat.le_of_eq this.symm
  | d3 ms =>
    rw [hb] at this
    exact ⟨Nat.le_of_eq this.1.symm, fun m hm => Nat.le_of_eq (this.2 m hm).symm⟩

/-- Strongest form: the weak shape condition `Dataset.WFWeak` ("at least the expected extent")
already forces one residual entry per data point. -/
theorem group_penalty_length_unlinked_weak (mi : ModelItems) (g : Group) (res pens : Vec)
    (hl : g.linked = false) (hg : ∀ d ∈ g.datasets, d.gmcs = [])
    (hwf : ∀ d ∈ g.datasets, d.WFWeak)
    (h : groupPenaltyParts mi g = some (res, pens)) :
    res.length = (g.datasets.map (fun d => d.nModel * d.nGlobal)).sum := by
  unfold groupPenaltyParts at h
  simp only [hl, Bool.false_eq_true, if_false] at h
  cases hparts : g.datasets.mapM (unlinkedDataset mi g.solver) with
  | none => simp [hparts] at h
  | some parts =>
    simp only [hparts, Option.map_some, Option.some.injEq, Prod.mk.injEq] at h
    obtain ⟨rfl, _⟩ := h
    have hmap := Length.mapM_option_map_eq _ (fun rp : Vec × Vec => rp.1.length)
      (fun d : Dataset => d.nModel * d.nGlobal) g.datasets parts hparts
      (fun d hd rp hrp => Length.unlinkedDataset_length mi g.solver d rp (hg d hd) (hwf d hd) hrp)
    simp only [List.length_flatMap, hmap]

/-- For an unlinked group whose datasets have no global megacomplexes and are shape-consistent,
every data point contributes exactly one residual entry. -/
theorem group_penalty_length_unlinked_lem (mi : ModelItems) (g : Group) (res pens : Vec)
    (hl : g.linked = false) (hg : ∀ d ∈ g.datasets, d.gmcs = [])
    (hwf : ∀ d ∈ g.datasets, d.WF)
    (h : groupPenaltyParts mi g = some (res, pens)) :
    res.length = (g.datasets.map (fun d => d.nModel * d.nGlobal)).sum :=
  group_penalty_length_unlinked_weak mi g res pens hl hg (fun d hd => (hwf d hd).weak) h

/-! ### `Dataset.WF` is satisfiable: a concrete 2 × 2 dataset with a weight -/

/-- 2 model points × 2 global points, one 2-D megacomplex with two compartments, weighted -/
def Length.exampleDataset : Dataset :=
  { label := "ds", globalAxis := [0, 1], data := [[1, 2], [3, 4]],
    weight := some [[1, 1], [1, 2]], scale := none,
    mcs := [⟨⟨["a", "b"], .d2 [[1, 0], [1, 1]]⟩, some 2⟩], gmcs := [] }

def Length.exampleGroup : Group :=
  { linked := false, solver := .vp, tol := 0, method := .nearest,
    datasets := [Length.exampleDataset] }

theorem Length.exampleDataset_wf : Length.exampleDataset.WF := by
  refine ⟨?_, ?_⟩
  · intro w hw
    simp only [Length.exampleDataset, Option.some.injEq] at hw
    subst hw
    rfl
  · intro o ho
    simp only [Length.exampleDataset, List.mem_singleton] at ho
    subst ho
    rfl

/-- the model solves the example group (by kernel evaluation) … -/
theorem Length.exampleGroup_parts :
    groupPenaltyParts {} Length.exampleGroup = some ([0, 0, 0, 0], []) := by
  decide +kernel

/-- … and the residual part has the predicted length `2 * 2 = 4`, here obtained from the theorem -/
example : ([0, 0, 0, 0] : Vec).length
    = (Length.exampleGroup.datasets.map (fun d => d.nModel * d.nGlobal)).sum :=
  group_penalty_length_unlinked_lem {} Length.exampleGroup _ _ rfl
    (by intro d hd; simp only [Length.exampleGroup, List.mem_singleton] at hd; subst hd; rfl)
    (by intro d hd; simp only [Length.exampleGroup, List.mem_singleton] at hd; subst hd
        exact Length.exampleDataset_wf)
    Length.exampleGroup_parts

end Glotaran.C02
