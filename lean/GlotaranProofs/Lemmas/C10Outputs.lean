/-
C10 — outputs: every container an evaluation updates IN PLACE is an accumulator (per-index results, the penalty list, the
parameter history) or the private parameter object; everything else is replaced by a new object.
-/
import GlotaranProofs.Lemmas.C10Steps
namespace Glotaran.C10

theorem inPlace_append (a b : List Instr) : inPlace (a ++ b) = inPlace a ++ inPlace b := by
  induction a with
  | nil => rfl
  | cons i a ih => cases i <;> simp [inPlace, ih]

theorem inPlace_flatMap {α : Type} (f : α → List Instr) (xs : List α) :
    inPlace (xs.flatMap f) = xs.flatMap (fun x => inPlace (f x)) := by
  induction xs with
  | nil => rfl
  | cons x xs ih => simp [List.flatMap_cons, inPlace_append, ih]

theorem inPlace_map {α : Type} (f : α → Instr) (xs : List α) :
    inPlace (xs.map f) = xs.flatMap (fun x => inPlace [f x]) := by
  induction xs with
  | nil => rfl
  | cons x xs ih =>
    have : (x :: xs).map f = [f x] ++ xs.map f := rfl
    rw [this, inPlace_append, ih]; simp [List.flatMap_cons]

/-- containers that grow or are cleared: per-index results, the penalty list, the parameter history -/
def Loc.isAccumulator : Loc → Bool
  | .clps _ _ => true
  | .residuals _ _ => true
  | .clpPenalty _ => true
  | .history => true
  | _ => false

def okInstr : Instr → Bool
  | .clear d => d.isAccumulator
  | .append d _ _ => d.isAccumulator
  | .log d _ _ => d.isAccumulator
  | _ => true

theorem mem_inPlace_of_all (p : List Instr) (h : p.all okInstr = true) (l : Loc) (hl : l ∈ inPlace p) :
    l.isAccumulator = true := by
  induction p with
  | nil => simp [inPlace] at hl
  | cons i p ih =>
    simp only [List.all_cons, Bool.and_eq_true] at h
    cases i <;> simp only [inPlace, List.mem_cons] at hl
    all_goals first
      | exact ih h.2 hl
      | (rcases hl with rfl | hl
         · simpa [okInstr] using h.1
         · exact ih h.2 hl)

theorem ok_flatMap {α : Type} (f : α → List Instr) (xs : List α) (h : ∀ x, (f x).all okInstr = true) :
    (xs.flatMap f).all okInstr = true := by
  simp only [List.all_flatMap, List.all_eq_true]
  intro x _
  exact List.all_eq_true.mp (h x)

theorem ok_estimateDataset (g : Nat) (d : DatasetSpec) : (estimateDataset g d).all okInstr = true := by
  unfold estimateDataset
  by_cases h : d.full = true
  · simp [h, okInstr]
  · simp only [h, Bool.false_eq_true, if_false, List.all_append, Bool.and_eq_true]
    refine ⟨⟨by simp [okInstr, Loc.isAccumulator], ok_flatMap _ _ (fun _ => by simp [estimationIndex, okInstr, Loc.isAccumulator])⟩,
      by simp [okInstr, Loc.isAccumulator]⟩

theorem ok_groupCalculate (g : Nat) (gs : GroupSpec) : (groupCalculate g gs).all okInstr = true := by
  unfold groupCalculate
  simp only [List.all_append, Bool.and_eq_true]
  refine ⟨⟨?_, ?_⟩, ?_⟩
  · simp [setParameters, setParametersFrom, okInstr]
  · exact ok_flatMap _ _ (fun d => by simp [okInstr])
  · by_cases h : gs.linked = true
    · simp only [h, if_true, List.all_append, Bool.and_eq_true]
      refine ⟨ok_flatMap _ _ (fun p => by simp [okInstr]), ?_⟩
      unfold estimateLinked
      simp only [List.all_append, Bool.and_eq_true]
      exact ⟨ok_flatMap _ _ (fun i => by simp [okInstr]), by simp [okInstr]⟩
    · simp only [h, Bool.false_eq_true, if_false, List.all_append, Bool.and_eq_true]
      refine ⟨⟨⟨?_, ?_⟩, ?_⟩, ?_⟩
      · exact ok_flatMap _ _ (fun d => by by_cases hf : d.full = true <;> simp [hf, okInstr])
      · exact ok_flatMap _ _ (fun d => by
          by_cases hf : d.full = true <;> by_cases hw : d.weighted = true <;> simp [hf, hw, okInstr])
      · exact ok_flatMap _ _ (fun d => by by_cases hf : d.full = true <;> simp [hf, okInstr])
      · unfold estimateUnlinked
        simp only [List.all_cons, Bool.and_eq_true]
        exact ⟨by simp [okInstr, Loc.isAccumulator], ok_flatMap _ _ (ok_estimateDataset g)⟩

theorem all_ok_calculatePenalty (spec : Spec) : (calculatePenalty spec).all okInstr = true := by
  unfold calculatePenalty sweep collect
  simp only [List.all_append, Bool.and_eq_true]
  refine ⟨ok_flatMap _ _ (fun p => ok_groupCalculate p.2 p.1), ⟨by simp [okInstr, Loc.isAccumulator], ?_⟩, by simp [okInstr]⟩
  simp only [List.all_map, List.all_eq_true]
  intro p _
  simp only [Function.comp, groupPenalty]
  split <;> simp [okInstr]

/-- every container an evaluation updates in place is an accumulator (per-index results, penalty list, history) or the
    private parameter object -/
theorem evalInPlace_accumulator (spec : Spec) (l : Loc) (h : l ∈ evalInPlace spec) :
    l = .params ∨ l.isAccumulator = true := by
  simp only [evalInPlace, List.mem_cons] at h
  rcases h with h | h
  · exact Or.inl h
  · exact Or.inr (mem_inPlace_of_all _ (all_ok_calculatePenalty spec) l h)

end Glotaran.C10
