import GlotaranModel.C02
import GlotaranProofs.Lemmas.LinAlg
namespace Glotaran.C02
open Glotaran.LinAlg

theorem interval_contains_iff_aux (lo hi : EB) (x : Rat) :
    (Interval.contains ⟨lo, hi⟩ x = true) ↔
      ((lo.le (.fin x) = true ∧ EB.le (.fin x) hi = true) ∨ (hi.le (.fin x) = true ∧ EB.le (.fin x) lo = true)) := by
  unfold Interval.contains
  by_cases h : lo.le hi = true
  · simp only [h, if_true, Bool.and_eq_true]
    constructor
    · intro hh; exact Or.inl hh
    · rintro (hh | hh)
      · exact hh
      · -- hi ≤ x ≤ lo and lo ≤ hi
        cases lo <;> cases hi <;> simp_all [EB.le]
        obtain ⟨h1, h2⟩ := hh
        exact ⟨Rat.le_trans h h1, Rat.le_trans h2 h⟩
  · simp only [h, Bool.and_eq_true]
    simp only [Bool.false_eq_true, if_false]
    constructor
    · intro hh; exact Or.inr hh
    · rintro (hh | hh)
      · cases lo <;> cases hi <;> simp_all [EB.le]
        exact absurd (Rat.le_trans hh.1 hh.2) (Rat.not_le.mpr h)
      · exact hh

/-! ### masks -/

theorem pickMask_nil_left {α} (xs : List α) : pickMask [] xs = [] := by simp [pickMask]
theorem pickMask_nil_right {α} (k : List Bool) : pickMask k ([] : List α) = [] := by simp [pickMask]

theorem pickMask_cons {α} (b : Bool) (ks : List Bool) (a : α) (t : List α) :
    pickMask (b :: ks) (a :: t) = if b then a :: pickMask ks t else pickMask ks t := by
  cases b <;> simp [pickMask]

theorem pickMask_map_self {α} (p : α → Bool) (L : List α) : pickMask (L.map p) L = L.filter p := by
  induction L with
  | nil => simp [pickMask]
  | cons a t ih =>
    simp only [List.map_cons, pickMask_cons, ih, List.filter_cons]

theorem pickMask_sublist {α} (k : List Bool) (xs : List α) : (pickMask k xs).Sublist xs := by
  induction xs generalizing k with
  | nil => simp [pickMask_nil_right]
  | cons a t ih =>
    cases k with
    | nil => simp [pickMask_nil_left]
    | cons b ks =>
      rw [pickMask_cons]
      cases b
      · simpa using (ih ks).cons a
      · simpa using (ih ks).cons_cons a

theorem pickMask_length_eq {α β} (k : List Bool) (xs : List α) (ys : List β)
    (hx : xs.length = k.length) (hy : ys.length = k.length) :
    (pickMask k xs).length = (pickMask k ys).length := by
  induction k generalizing xs ys with
  | nil => simp [pickMask_nil_left]
  | cons b ks ih =>
    cases xs with
    | nil => simp at hx
    | cons a t =>
      cases ys with
      | nil => simp at hy
      | cons a' t' =>
        have := ih t t' (by simpa using hx) (by simpa using hy)
        cases b <;> simp [pickMask_cons, this]

theorem pickMask_all_true {α} (xs : List α) (k : List Bool) (hk : k.length = xs.length)
    (h : ∀ b ∈ k, b = true) : pickMask k xs = xs := by
  induction xs generalizing k with
  | nil => simp [pickMask_nil_right]
  | cons a t ih =>
    cases k with
    | nil => simp at hk
    | cons b ks =>
      have hb : b = true := h b (by simp)
      subst hb
      simp [pickMask_cons, ih ks (by simpa using hk) (fun b hb => h b (by simp [hb]))]

theorem dot_pickMask (k : List Bool) (r c : Vec) (h : r.length = k.length) :
    dot (pickMask k r) c = dot r (expandMask k c) := by
  induction k generalizing r c with
  | nil => simp [pickMask_nil_left, expandMask]
  | cons b ks ih =>
    cases r with
    | nil => simp at h
    | cons a t =>
      have ht : t.length = ks.length := by simpa using h
      cases b
      · have h1 : pickMask (false :: ks) (a :: t) = pickMask ks t := by simp [pickMask_cons]
        have h2 : expandMask (false :: ks) c = 0 :: expandMask ks c := rfl
        rw [h1, h2, dot_cons, ih t c ht]; ring
      · have h1 : pickMask (true :: ks) (a :: t) = a :: pickMask ks t := by simp [pickMask_cons]
        have h2 : expandMask (true :: ks) c = c.headD 0 :: expandMask ks c.tail := rfl
        rw [h1, h2, dot_cons, ← ih t c.tail ht]
        cases c with
        | nil => simp
        | cons c0 c => simp [dot_cons]

theorem idxOf?_cons_ne (a l : String) (P : List String) (h : a ≠ l) :
    (a :: P).idxOf? l = (P.idxOf? l).map (· + 1) := by
  simp [List.idxOf?_cons, h]

theorem idxOf?_cons_self (a : String) (P : List String) : (a :: P).idxOf? a = some 0 := by
  simp [List.idxOf?_cons]

/-- expanding by a mask = looking every label up in the picked labels -/
theorem expandMask_eq_map_idxOf (L : List String) (k : List Bool) (hL : L.Nodup)
    (hk : k.length = L.length) (c : Vec) :
    expandMask k c =
      L.map (fun l => match (pickMask k L).idxOf? l with | some i => c.getD i 0 | none => 0) := by
  induction L generalizing k c with
  | nil =>
    cases k with
    | nil => simp [expandMask]
    | cons _ _ => simp at hk
  | cons a t ih =>
    cases k with
    | nil => simp at hk
    | cons b ks =>
      have hks : ks.length = t.length := by simpa using hk
      have hat : a ∉ t := (List.nodup_cons.mp hL).1
      have ht : t.Nodup := (List.nodup_cons.mp hL).2
      cases b
      · -- dropped position
        have hnot : a ∉ pickMask ks t := fun hh => hat ((pickMask_sublist ks t).subset hh)
        simp only [pickMask_cons, expandMask, List.map_cons, Bool.false_eq_true, if_false]
        rw [List.idxOf?_eq_none_iff.mpr hnot, ih ks ht hks c]
      · simp only [pickMask_cons, expandMask, List.map_cons, if_true, idxOf?_cons_self]
        congr 1
        · cases c <;> simp
        · rw [ih ks ht hks c.tail]
          apply List.map_congr_left
          intro l hl
          have hne : a ≠ l := fun h => hat (h ▸ hl)
          rw [idxOf?_cons_ne a l _ hne]
          cases (pickMask ks t).idxOf? l with
          | none => rfl
          | some i => cases c <;> simp

theorem expandMask_pickMask_map (L : List String) (k : List Bool) (hk : k.length = L.length)
    (g : String → Rat) :
    expandMask k ((pickMask k L).map g) = (L.zip k).map (fun p => if p.2 then g p.1 else 0) := by
  induction L generalizing k with
  | nil =>
    cases k with
    | nil => simp [expandMask]
    | cons _ _ => simp at hk
  | cons a t ih =>
    cases k with
    | nil => simp at hk
    | cons b ks =>
      have hks : ks.length = t.length := by simpa using hk
      cases b <;> simp [pickMask_cons, expandMask, ih ks hks]

theorem zipIdx_filter_eq_pickMask {α} (r : List α) (s : Nat) (f : Nat → Bool) :
    ((r.zipIdx s).filter (fun p => f p.2)).map (·.1) =
      pickMask ((List.range' s r.length).map f) r := by
  induction r generalizing s with
  | nil => simp [pickMask]
  | cons a t ih =>
    simp only [List.zipIdx_cons, List.length_cons, List.range'_succ, List.map_cons, pickMask_cons,
      List.filter_cons]
    cases f s <;> simp [ih (s + 1)]

/-- the mask "position not in `del`" of width `n` -/
def maskOf (del : List Nat) (n : Nat) : List Bool := (List.range n).map (fun j => !del.contains j)

theorem maskOf_length (del : List Nat) (n : Nat) : (maskOf del n).length = n := by simp [maskOf]

theorem deleteCols_eq (m : Mat) (del : List Nat) (n : Nat) (h : ∀ r ∈ m, r.length = n) :
    deleteCols m del = m.map (pickMask (maskOf del n)) := by
  simp only [deleteCols]
  apply List.map_congr_left
  intro r hr
  rw [zipIdx_filter_eq_pickMask r 0 (fun j => !del.contains j), h r hr, maskOf, List.range_eq_range']

/-! ### constraints stage -/

/-- the labels removed by `apply_constraints` at `x` -/
def removedOf (cons : List Constraint) (x : Rat) (L : List String) : List String :=
  (cons.filter (fun c => L.contains c.target && c.appliesAt x)).map (·.target)

/-- the keep-mask of `apply_constraints` at `x` -/
def keepOf (cons : List Constraint) (x : Rat) (L : List String) : List Bool :=
  L.map (fun l => !(removedOf cons x L).contains l)

theorem keepOf_length (cons : List Constraint) (x : Rat) (L : List String) :
    (keepOf cons x L).length = L.length := by simp [keepOf]

theorem removedOf_contains (cons : List Constraint) (x : Rat) (L : List String) (l : String)
    (hl : l ∈ L) :
    (removedOf cons x L).contains l = cons.any (fun c => c.target == l && c.appliesAt x) := by
  rw [Bool.eq_iff_iff]
  simp only [removedOf, List.contains_iff_mem, List.mem_map, List.mem_filter, List.any_eq_true,
    Bool.and_eq_true, beq_iff_eq]
  constructor
  · rintro ⟨c, ⟨hc, _, ha⟩, rfl⟩
    exact ⟨c, hc, rfl, ha⟩
  · rintro ⟨c, hc, rfl, ha⟩
    exact ⟨c, ⟨hc, hl, ha⟩, rfl⟩

theorem applyConstraintsAt_eq (cons : List Constraint) (x : Rat) (lm : LMat2)
    (hrows : ∀ r ∈ lm.m, r.length = lm.labels.length) :
    applyConstraintsAt cons x lm =
      ⟨pickMask (keepOf cons x lm.labels) lm.labels, lm.m.map (pickMask (keepOf cons x lm.labels))⟩ := by
  simp only [applyConstraintsAt]
  split
  · rename_i he
    have he' : removedOf cons x lm.labels = [] := by simpa [removedOf] using he
    have hall : ∀ b ∈ keepOf cons x lm.labels, b = true := by
      intro b hb
      simp only [keepOf, he', List.mem_map] at hb
      obtain ⟨_, _, rfl⟩ := hb
      simp
    have h1 := pickMask_all_true lm.labels _ (keepOf_length cons x lm.labels) hall
    have h2 : lm.m.map (pickMask (keepOf cons x lm.labels)) = lm.m := by
      conv => rhs; rw [← List.map_id lm.m]
      apply List.map_congr_left
      intro r hr
      exact pickMask_all_true r _ (by rw [keepOf_length, hrows r hr]) hall
    rw [h1, h2]
  · rfl

theorem applyConstraintsAt_labels (cons : List Constraint) (x : Rat) (lm : LMat2) :
    (applyConstraintsAt cons x lm).labels = pickMask (keepOf cons x lm.labels) lm.labels := by
  have := applyConstraintsAt_eq cons x ⟨lm.labels, []⟩ (by simp)
  have h2 : (applyConstraintsAt cons x lm).labels = (applyConstraintsAt cons x ⟨lm.labels, []⟩).labels := by
    simp only [applyConstraintsAt]
    split <;> rfl
  rw [h2, this]

theorem constraints_labels (cons : List Constraint) (x : Rat) (lm : LMat2) :
    (applyConstraintsAt cons x lm).labels =
      lm.labels.filter (fun l => !(cons.any (fun c => c.target == l && c.appliesAt x))) := by
  rw [applyConstraintsAt_labels, keepOf, pickMask_map_self]
  apply List.filter_congr
  intro l hl
  rw [removedOf_contains cons x lm.labels l hl]

theorem idxOf_cons_ne' (a l : String) (t : List String) (h : a ≠ l) :
    (a :: t).idxOf l = t.idxOf l + 1 := by
  have hb : (a == l) = false := by simpa using h
  rw [List.idxOf_cons, hb]; rfl

/-- picking by a mask keeps the entry under every surviving label -/
theorem pickMask_getD_idxOf (L : List String) (k : List Bool) (r : Vec) (hL : L.Nodup)
    (hk : k.length = L.length) (hr : r.length = L.length) (l : String) (hl : l ∈ pickMask k L) :
    (pickMask k r).getD ((pickMask k L).idxOf l) 0 = r.getD (L.idxOf l) 0 := by
  induction L generalizing k r with
  | nil => simp [pickMask_nil_right] at hl
  | cons a t ih =>
    cases k with
    | nil => simp at hk
    | cons b ks =>
      cases r with
      | nil => simp at hr
      | cons r0 r =>
        have hks : ks.length = t.length := by simpa using hk
        have hrl : r.length = t.length := by simpa using hr
        have hat : a ∉ t := (List.nodup_cons.mp hL).1
        have ht : t.Nodup := (List.nodup_cons.mp hL).2
        by_cases hal : a = l
        · subst hal
          cases b
          · simp only [pickMask_cons, Bool.false_eq_true, if_false] at hl
            exact absurd ((pickMask_sublist ks t).subset hl) hat
          · simp [pickMask_cons]
        · have hlt : l ∈ pickMask ks t := by
            cases b
            · simpa [pickMask_cons] using hl
            · have : l = a ∨ l ∈ pickMask ks t := by simpa [pickMask_cons] using hl
              rcases this with h | h
              · exact absurd h.symm hal
              · exact h
          have := ih ks r ht hks hrl hlt
          cases b
          · simp only [pickMask_cons, Bool.false_eq_true, if_false]
            rw [this, idxOf_cons_ne' _ _ _ hal]; simp
          · simp only [pickMask_cons, if_true]
            rw [idxOf_cons_ne' _ _ _ hal, idxOf_cons_ne' _ _ _ hal]
            simpa using this

theorem idxOf?_eq_some_idxOf (L : List String) (l : String) (h : l ∈ L) :
    L.idxOf? l = some (L.idxOf l) := by
  induction L with
  | nil => simp at h
  | cons a t ih =>
    by_cases hal : a = l
    · subst hal; simp [List.idxOf?_cons]
    · have hlt : l ∈ t := by
        rcases List.mem_cons.mp h with h | h
        · exact absurd h.symm hal
        · exact h
      rw [idxOf?_cons_ne a l t hal, ih hlt, idxOf_cons_ne' _ _ _ hal]; rfl

/-- **columns of surviving labels are untouched by `apply_constraints`** -/
theorem constraints_keep_columns_lem (cons : List Constraint) (x : Rat) (lm : LMat2)
    (hL : lm.labels.Nodup) (hrows : ∀ r ∈ lm.m, r.length = lm.labels.length)
    (l : String) (hl : l ∈ (applyConstraintsAt cons x lm).labels) :
    colOf (applyConstraintsAt cons x lm).labels (applyConstraintsAt cons x lm).m l =
      colOf lm.labels lm.m l := by
  rw [applyConstraintsAt_eq cons x lm hrows] at hl ⊢
  simp only at hl ⊢
  have hlL : l ∈ lm.labels := (pickMask_sublist _ _).subset hl
  simp only [colOf, idxOf?_eq_some_idxOf _ l hl, idxOf?_eq_some_idxOf _ l hlL, col, List.map_map]
  congr 1
  apply List.map_congr_left
  intro r hr
  exact pickMask_getD_idxOf lm.labels _ r hL (keepOf_length _ _ _) (hrows r hr) l hl

/-! ### relations stage: structural unfolding -/

theorem mapIdx_ite_const {α} (l : List α) (i : Nat) (a : α) :
    l.mapIdx (fun k y => if k = i then a else y) = l.set i a := by
  apply List.ext_getElem?
  intro k
  rw [List.getElem?_mapIdx, List.getElem?_set]
  by_cases h : i = k
  · subst h
    by_cases h2 : i < l.length
    · simp [h2]
    · simp [h2]
  · have : ¬ k = i := fun h' => h h'.symm
    simp [h, this]

theorem setEntry_eq (m : Mat) (i j : Nat) (v : Rat) (row : Vec) (h : m[i]? = some row) :
    setEntry m i j v = m.set i (row.set j v) := by
  simp only [setEntry, mapIdx_ite_const]
  apply List.ext_getElem?
  intro k
  rw [List.getElem?_mapIdx, List.getElem?_set]
  by_cases hk : i = k
  · subst hk
    obtain ⟨hlt, heq⟩ := List.getElem?_eq_some_iff.mp h
    simp [hlt, heq]
  · have : ¬ k = i := fun h' => hk h'.symm
    simp [hk, this]

def relStep (L : List String) (x : Rat) (acc : Mat × List Nat) (r : Relation) : Mat × List Nat :=
  if L.contains r.target && applies r.interval x then
    match L.idxOf? r.source, L.idxOf? r.target with
    | some si, some ti => (setEntry acc.1 ti si r.param, acc.2 ++ [ti])
    | _, _ => acc
  else acc

theorem applyRelationsAt_unfold (rels : List Relation) (x : Rat) (lm : LMat2) :
    applyRelationsAt rels x lm =
      (let p := rels.foldl (relStep lm.labels x) (identityRows lm.labels.length, [])
       if p.2.isEmpty then lm else
         let labels := (lm.labels.zipIdx.filter (fun q => !p.2.contains q.2)).map (·.1)
         ⟨labels, matMul lm.m (deleteCols p.1 p.2) labels.length⟩) := rfl

def baseOf (full reduced : List String) (c : Vec) : Vec :=
  full.map (fun l => match reduced.idxOf? l with | some i => c.getD i 0 | none => 0)

def retStep (full : List String) (x : Rat) (clps : Vec) (r : Relation) : Vec :=
  if full.contains r.target && applies r.interval x && full.contains r.source then
    match full.idxOf? r.source, full.idxOf? r.target with
    | some si, some ti => clps.mapIdx (fun i v => if i = ti then r.param * clps.getD si 0 else v)
    | _, _ => clps
  else clps

theorem retrieveClps_unfold (mi : ModelItems) (full reduced : List String) (c : Vec) (x : Rat) :
    retrieveClps mi full reduced c x =
      if mi.relations.isEmpty && mi.constraints.isEmpty then c
      else mi.relations.foldl (retStep full x) (baseOf full reduced c) := rfl

/-! ### the applying relations as index triples `(source index, target index, parameter)` -/

def appliesRel (L : List String) (x : Rat) (r : Relation) : Bool :=
  L.contains r.target && applies r.interval x && L.contains r.source

def tripleOf (L : List String) (r : Relation) : Nat × Nat × Rat :=
  (L.idxOf r.source, L.idxOf r.target, r.param)

def triples (rels : List Relation) (L : List String) (x : Rat) : List (Nat × Nat × Rat) :=
  (rels.filter (appliesRel L x)).map (tripleOf L)

def stepM (acc : Mat) (t : Nat × Nat × Rat) : Mat := setEntry acc t.2.1 t.1 t.2.2
def stepV (v : Vec) (t : Nat × Nat × Rat) : Vec := v.set t.2.1 (t.2.2 * v.getD t.1 0)
def stepMD (acc : Mat × List Nat) (t : Nat × Nat × Rat) : Mat × List Nat :=
  (stepM acc.1 t, acc.2 ++ [t.2.1])

theorem contains_false_idxOf? (L : List String) (l : String) (h : L.contains l = false) :
    L.idxOf? l = none := by
  rw [List.idxOf?_eq_none_iff]
  intro hm
  have : L.contains l = true := by simpa using hm
  rw [h] at this; cases this

theorem contains_true_idxOf? (L : List String) (l : String) (h : L.contains l = true) :
    L.idxOf? l = some (L.idxOf l) :=
  idxOf?_eq_some_idxOf L l (by simpa using h)

theorem relStep_eq (L : List String) (x : Rat) (acc : Mat × List Nat) (r : Relation) :
    relStep L x acc r = if appliesRel L x r then stepMD acc (tripleOf L r) else acc := by
  unfold relStep appliesRel
  cases ht : L.contains r.target
  · simp
  · cases ha : applies r.interval x
    · simp
    · cases hs : L.contains r.source
      · simp [contains_false_idxOf? L _ hs]
      · simp [contains_true_idxOf? L _ hs, contains_true_idxOf? L _ ht, stepMD, stepM, tripleOf]

theorem retStep_eq (L : List String) (x : Rat) (v : Vec) (r : Relation) :
    retStep L x v r = if appliesRel L x r then stepV v (tripleOf L r) else v := by
  unfold retStep appliesRel
  cases ht : L.contains r.target
  · simp
  · cases ha : applies r.interval x
    · simp
    · cases hs : L.contains r.source
      · simp
      · simp [contains_true_idxOf? L _ hs, contains_true_idxOf? L _ ht, stepV, tripleOf,
          mapIdx_ite_const]

theorem foldl_relStep (L : List String) (x : Rat) (rels : List Relation) (acc : Mat × List Nat) :
    rels.foldl (relStep L x) acc = (triples rels L x).foldl stepMD acc := by
  induction rels generalizing acc with
  | nil => rfl
  | cons r rest ih =>
    simp only [List.foldl_cons, relStep_eq, triples, List.filter_cons]
    cases h : appliesRel L x r
    · simpa [triples] using ih acc
    · simpa [triples] using ih _

theorem foldl_retStep (L : List String) (x : Rat) (rels : List Relation) (v : Vec) :
    rels.foldl (retStep L x) v = (triples rels L x).foldl stepV v := by
  induction rels generalizing v with
  | nil => rfl
  | cons r rest ih =>
    simp only [List.foldl_cons, retStep_eq, triples, List.filter_cons]
    cases h : appliesRel L x r
    · simpa [triples] using ih v
    · simpa [triples] using ih _

theorem foldl_stepMD (T : List (Nat × Nat × Rat)) (acc : Mat × List Nat) :
    T.foldl stepMD acc = (T.foldl stepM acc.1, acc.2 ++ T.map (·.2.1)) := by
  induction T generalizing acc with
  | nil => simp
  | cons t T ih => simp [List.foldl_cons, ih, stepMD]


/-! ### the relation matrix acts as `retrieve_clps` -/

theorem mulVec_foldl_stepM (n : Nat) (w : Vec) (T : List (Nat × Nat × Rat)) (rm : Mat) (v : Vec)
    (hT : (T.map (·.2.1)).Nodup) (hst : ∀ t ∈ T, ∀ t' ∈ T, t.1 ≠ t'.2.1)
    (hlt : ∀ t ∈ T, t.1 < n ∧ t.2.1 < n)
    (hw : ∀ t ∈ T, w.getD t.2.1 0 = 0)
    (hrm : ∀ t ∈ T, rm[t.2.1]? = some (idRow n t.2.1))
    (hv : ∀ t ∈ T, v.getD t.1 0 = w.getD t.1 0)
    (hmv : mulVec rm w = v) :
    mulVec (T.foldl stepM rm) w = T.foldl stepV v := by
  induction T generalizing rm v with
  | nil => simpa using hmv
  | cons t T ih =>
    obtain ⟨si, ti, p⟩ := t
    have hTn : ti ∉ T.map (·.2.1) := (List.nodup_cons.mp (by simpa using hT)).1
    have hT' : (T.map (·.2.1)).Nodup := (List.nodup_cons.mp (by simpa using hT)).2
    have hsi : si < n := (hlt (si, ti, p) (by simp)).1
    have hti : ti < n := (hlt (si, ti, p) (by simp)).2
    have hne : si ≠ ti := hst (si, ti, p) (by simp) (si, ti, p) (by simp)
    have hrow : rm[ti]? = some (idRow n ti) := hrm (si, ti, p) (by simp)
    have hwt : w.getD ti 0 = 0 := hw (si, ti, p) (by simp)
    have hvs : v.getD si 0 = w.getD si 0 := hv (si, ti, p) (by simp)
    simp only [List.foldl_cons]
    apply ih
    · exact hT'
    · intro t ht t' ht'; exact hst t (by simp [ht]) t' (by simp [ht'])
    · intro t ht; exact hlt t (by simp [ht])
    · intro t ht; exact hw t (by simp [ht])
    · intro t ht
      have : ti ≠ t.2.1 := fun h => hTn (by rw [h]; exact List.mem_map_of_mem ht)
      simp only [stepM]
      rw [setEntry_eq rm ti si p _ hrow, List.getElem?_set_ne this]
      exact hrm t (by simp [ht])
    · intro t ht
      have : ti ≠ t.1 := fun h => hst t (by simp [ht]) (si, ti, p) (by simp) h.symm
      simp only [stepV, List.getD_eq_getElem?_getD]
      rw [List.getElem?_set_ne this]
      simpa [List.getD_eq_getElem?_getD] using hv t (by simp [ht])
    · simp only [stepM, stepV]
      rw [setEntry_eq rm ti si p _ hrow]
      simp only [mulVec] at hmv ⊢
      rw [List.map_set, hmv, dot_set _ _ _ _ (by rw [idRow_length]; exact hsi),
        dot_idRow n ti w hti, idRow_getD n ti si (fun h => hne h.symm), hwt, hvs]
      congr 1
      ring


/-! ### well-formedness, NoChain -/

/-- a labelled matrix is well formed: distinct labels, one column per label -/
def WF (lm : LMat2) : Prop := lm.labels.Nodup ∧ ∀ r ∈ lm.m, r.length = lm.labels.length

/-- among the relations that apply at `x` (target and source present, interval applies):
    targets are pairwise distinct (as list positions) and no source is a target -/
def NoChain (rels : List Relation) (L : List String) (x : Rat) : Prop :=
  ((rels.filter (appliesRel L x)).map (·.target)).Nodup ∧
  ∀ r ∈ rels, ∀ r' ∈ rels, appliesRel L x r = true → appliesRel L x r' = true →
    r.source ≠ r'.target

theorem idxOf_inj (L : List String) (a b : String) (ha : a ∈ L) (hb : b ∈ L)
    (h : L.idxOf a = L.idxOf b) : a = b := by
  have h1 := List.getElem_idxOf (List.idxOf_lt_length_of_mem ha)
  have h2 := List.getElem_idxOf (List.idxOf_lt_length_of_mem hb)
  rw [← h1, ← h2]
  simp [h]

theorem nodup_map_on {α β} {f : α → β} {l : List α}
    (H : ∀ x ∈ l, ∀ y ∈ l, f x = f y → x = y) (d : l.Nodup) : (l.map f).Nodup :=
  List.Pairwise.map _ (fun a b ⟨ma, mb, n⟩ e => n (H a ma b mb e)) (List.Pairwise.and_mem.1 d)

theorem appliesRel_mem (L : List String) (x : Rat) (r : Relation) (h : appliesRel L x r = true) :
    r.target ∈ L ∧ r.source ∈ L ∧ applies r.interval x = true := by
  simp only [appliesRel, Bool.and_eq_true, List.contains_iff_mem] at h
  exact ⟨h.1.1, h.2, h.1.2⟩

theorem mem_triples (rels : List Relation) (L : List String) (x : Rat) (t : Nat × Nat × Rat) :
    t ∈ triples rels L x ↔ ∃ r ∈ rels, appliesRel L x r = true ∧ tripleOf L r = t := by
  simp [triples, List.mem_map, List.mem_filter, and_assoc]

theorem triples_nodup (rels : List Relation) (L : List String) (x : Rat)
    (h : NoChain rels L x) : ((triples rels L x).map (·.2.1)).Nodup := by
  have : (triples rels L x).map (·.2.1) =
      ((rels.filter (appliesRel L x)).map (·.target)).map L.idxOf := by
    simp [triples, tripleOf, List.map_map, Function.comp_def]
  rw [this]
  apply nodup_map_on _ h.1
  intro a ha b hb hab
  simp only [List.mem_map, List.mem_filter] at ha hb
  obtain ⟨r, ⟨_, hr⟩, rfl⟩ := ha
  obtain ⟨r', ⟨_, hr'⟩, rfl⟩ := hb
  exact idxOf_inj L _ _ (appliesRel_mem L x r hr).1 (appliesRel_mem L x r' hr').1 hab

theorem triples_src_ne (rels : List Relation) (L : List String) (x : Rat)
    (h : NoChain rels L x) : ∀ t ∈ triples rels L x, ∀ t' ∈ triples rels L x, t.1 ≠ t'.2.1 := by
  intro t ht t' ht'
  obtain ⟨r, hr, ha, rfl⟩ := (mem_triples rels L x t).mp ht
  obtain ⟨r', hr', ha', rfl⟩ := (mem_triples rels L x t').mp ht'
  intro heq
  exact h.2 r hr r' hr' ha ha'
    (idxOf_inj L _ _ (appliesRel_mem L x r ha).2.1 (appliesRel_mem L x r' ha').1 heq)

theorem triples_lt (rels : List Relation) (L : List String) (x : Rat) :
    ∀ t ∈ triples rels L x, t.1 < L.length ∧ t.2.1 < L.length := by
  intro t ht
  obtain ⟨r, _, ha, rfl⟩ := (mem_triples rels L x t).mp ht
  exact ⟨List.idxOf_lt_length_of_mem (appliesRel_mem L x r ha).2.1,
    List.idxOf_lt_length_of_mem (appliesRel_mem L x r ha).1⟩

/-! ### relations stage -/

theorem identityRows_rows (n : Nat) : ∀ r ∈ identityRows n, r.length = n := by
  intro r hr
  simp only [identityRows, List.mem_map] at hr
  obtain ⟨_, _, rfl⟩ := hr
  simp

theorem setEntry_rows (m : Mat) (i j n : Nat) (v : Rat) (h : ∀ r ∈ m, r.length = n) :
    ∀ r ∈ setEntry m i j v, r.length = n := by
  intro r hr
  simp only [setEntry, List.mem_mapIdx] at hr
  obtain ⟨k, hk, rfl⟩ := hr
  have := h m[k] (List.getElem_mem hk)
  split <;> simp [this]

theorem foldl_stepM_rows (T : List (Nat × Nat × Rat)) (m : Mat) (n : Nat)
    (h : ∀ r ∈ m, r.length = n) : ∀ r ∈ T.foldl stepM m, r.length = n := by
  induction T generalizing m with
  | nil => simpa using h
  | cons t T ih =>
    simp only [List.foldl_cons]
    exact ih _ (setEntry_rows m _ _ n _ h)

theorem identityRows_getElem? (n i : Nat) (h : i < n) : (identityRows n)[i]? = some (idRow n i) := by
  simp [identityRows, idRow, List.getElem?_range h]

theorem mulVec_identityRows (n : Nat) (w : Vec) (h : w.length = n) :
    mulVec (identityRows n) w = w := by
  subst h
  have : mulVec (identityRows w.length) w = (List.range w.length).map (fun i => dot (idRow w.length i) w) := by
    simp [mulVec, identityRows, idRow, List.map_map, Function.comp_def]
  rw [this]
  conv => rhs; rw [← map_getD_range w]
  apply List.map_congr_left
  intro i hi
  exact dot_idRow _ i w (by simpa using hi)

/-- the structural form of `apply_relations` at `x` -/
theorem applyRelationsAt_eq (rels : List Relation) (x : Rat) (lm : LMat2) :
    applyRelationsAt rels x lm =
      if (triples rels lm.labels x).isEmpty then lm
      else
        let mask := maskOf ((triples rels lm.labels x).map (·.2.1)) lm.labels.length
        ⟨pickMask mask lm.labels,
          matMul lm.m (((triples rels lm.labels x).foldl stepM (identityRows lm.labels.length)).map
            (pickMask mask)) (pickMask mask lm.labels).length⟩ := by
  rw [applyRelationsAt_unfold]
  simp only [foldl_relStep, foldl_stepMD, List.nil_append]
  have hlab : ∀ del : List Nat, (lm.labels.zipIdx.filter (fun q => !del.contains q.2)).map (·.1) =
      pickMask (maskOf del lm.labels.length) lm.labels := by
    intro del
    rw [zipIdx_filter_eq_pickMask lm.labels 0 (fun j => !del.contains j), maskOf,
      List.range_eq_range']
  rw [hlab, deleteCols_eq _ _ lm.labels.length
    (foldl_stepM_rows _ _ _ (identityRows_rows _))]
  simp [List.isEmpty_iff]


theorem expandMask_all_true (k : List Bool) (e : Vec) (h : ∀ b ∈ k, b = true)
    (he : e.length = k.length) : expandMask k e = e := by
  induction k generalizing e with
  | nil =>
    cases e with
    | nil => rfl
    | cons _ _ => simp at he
  | cons b ks ih =>
    have hb : b = true := h b (by simp)
    subst hb
    cases e with
    | nil => simp at he
    | cons e0 e =>
      simp [expandMask, ih e (fun b hb => h b (by simp [hb])) (by simpa using he)]

theorem baseOf_self (L : List String) (e : Vec) (hL : L.Nodup) (he : e.length = L.length) :
    baseOf L L e = e := by
  have hk : (List.replicate L.length true).length = L.length := by simp
  have hall : ∀ b ∈ List.replicate L.length true, b = true := by
    intro b hb; exact (List.mem_replicate.mp hb).2
  have := expandMask_eq_map_idxOf L (List.replicate L.length true) hL hk e
  rw [pickMask_all_true L _ hk hall, expandMask_all_true _ e hall (by simp [he])] at this
  exact this.symm

theorem applyRelationsAt_wf (rels : List Relation) (x : Rat) (lm : LMat2) (hwf : WF lm) :
    WF (applyRelationsAt rels x lm) := by
  rw [applyRelationsAt_eq]
  split
  · exact hwf
  · exact ⟨(pickMask_sublist _ _).nodup hwf.1, matMul_row_length _ _ _⟩

theorem applyRelationsAt_labels_sub (rels : List Relation) (x : Rat) (lm : LMat2) :
    ∀ l ∈ (applyRelationsAt rels x lm).labels, l ∈ lm.labels := by
  rw [applyRelationsAt_eq]
  split
  · exact fun l h => h
  · exact fun l h => (pickMask_sublist _ _).subset h

/-- **relations stage**: the matrix after `apply_relations` applied to `e` equals the original
    matrix applied to `e` expanded to the full labels and completed by the relations -/
theorem relations_stage (rels : List Relation) (x : Rat) (lm : LMat2) (hwf : WF lm)
    (hnc : NoChain rels lm.labels x) (e : Vec)
    (he : e.length = (applyRelationsAt rels x lm).labels.length) :
    mulVec (applyRelationsAt rels x lm).m e =
      mulVec lm.m ((triples rels lm.labels x).foldl stepV
        (baseOf lm.labels (applyRelationsAt rels x lm).labels e)) := by
  rw [applyRelationsAt_eq] at he ⊢
  split
  · rename_i hT
    rw [if_pos hT] at he
    rw [List.isEmpty_iff.mp hT, baseOf_self _ _ hwf.1 he]
    rfl
  · rename_i hT
    rw [if_neg hT] at he
    simp only at he ⊢
    generalize hmask : maskOf ((triples rels lm.labels x).map (·.2.1)) lm.labels.length = mask at he ⊢
    have hml : mask.length = lm.labels.length := by rw [← hmask, maskOf_length]
    have hrows := foldl_stepM_rows (triples rels lm.labels x) _ _ (identityRows_rows lm.labels.length)
    -- associativity
    rw [mulVec_matMul]
    swap
    · intro b hb
      simp only [List.mem_map] at hb
      obtain ⟨row, hrow, rfl⟩ := hb
      exact pickMask_length_eq mask row lm.labels (by rw [hrows row hrow, hml]) hml.symm
    congr 1
    -- push the mask to the vector
    have h1 : mulVec (((triples rels lm.labels x).foldl stepM (identityRows lm.labels.length)).map
        (pickMask mask)) e =
        mulVec ((triples rels lm.labels x).foldl stepM (identityRows lm.labels.length))
          (expandMask mask e) := by
      simp only [mulVec, List.map_map]
      apply List.map_congr_left
      intro row hrow
      exact dot_pickMask mask row e (by rw [hrows row hrow, hml])
    rw [h1]
    have h2 : baseOf lm.labels (pickMask mask lm.labels) e = expandMask mask e :=
      (expandMask_eq_map_idxOf lm.labels mask hwf.1 hml e).symm
    rw [h2]
    apply mulVec_foldl_stepM lm.labels.length
    · exact triples_nodup rels _ x hnc
    · exact triples_src_ne rels _ x hnc
    · exact triples_lt rels _ x
    · intro t ht
      apply expandMask_false
      have hlt := (triples_lt rels _ x t ht).2
      rw [← hmask]
      simp only [maskOf, List.getElem?_map, List.getElem?_range hlt, Option.map_some]
      congr 1
      simp only [Bool.not_eq_false', List.contains_iff_mem]
      exact List.mem_map_of_mem (f := fun t => t.2.1) ht
    · intro t ht
      exact identityRows_getElem? _ _ (triples_lt rels _ x t ht).2
    · intro t _; rfl
    · exact mulVec_identityRows _ _ (by rw [expandMask_length, hml])

/-- **constraints stage**: dropping the constrained columns = putting `0` at the dropped labels -/
theorem constraints_stage (cons : List Constraint) (x : Rat) (lm : LMat2) (hwf : WF lm) (c : Vec) :
    mulVec (applyConstraintsAt cons x lm).m c =
      mulVec lm.m (baseOf lm.labels (applyConstraintsAt cons x lm).labels c) := by
  rw [applyConstraintsAt_eq cons x lm hwf.2]
  simp only [mulVec, List.map_map]
  apply List.map_congr_left
  intro r hr
  have hk := keepOf_length cons x lm.labels
  simp only [Function.comp_def]
  rw [dot_pickMask _ r c (by rw [hwf.2 r hr, hk]),
    expandMask_eq_map_idxOf lm.labels _ hwf.1 hk c]
  rfl


/-! ### composition -/

theorem map_getD_idxOf (L : List String) (g : String → Rat) (l : String) (h : l ∈ L) :
    (L.map g).getD (L.idxOf l) 0 = g l := by
  have hlt := List.idxOf_lt_length_of_mem h
  simp [List.getD_eq_getElem?_getD, List.getElem?_map, List.getElem?_eq_getElem hlt]

theorem baseOf_baseOf (L L1 L2 : List String) (c : Vec) (hsub : ∀ l ∈ L2, l ∈ L1) :
    baseOf L L1 (baseOf L1 L2 c) = baseOf L L2 c := by
  simp only [baseOf]
  apply List.map_congr_left
  intro l _
  by_cases h1 : l ∈ L1
  · rw [idxOf?_eq_some_idxOf L1 l h1]
    exact map_getD_idxOf L1 _ l h1
  · have h2 : l ∉ L2 := fun h => h1 (hsub l h)
    rw [List.idxOf?_eq_none_iff.mpr h1, List.idxOf?_eq_none_iff.mpr h2]

theorem baseOf_length (L R : List String) (c : Vec) : (baseOf L R c).length = L.length := by
  simp [baseOf]

theorem applyRelationsAt_nil (x : Rat) (lm : LMat2) : applyRelationsAt [] x lm = lm := by
  rw [applyRelationsAt_eq]; simp [triples]

theorem applyConstraintsAt_nil (x : Rat) (lm : LMat2) : applyConstraintsAt [] x lm = lm := by
  simp [applyConstraintsAt]

theorem reduceAt_labels_sub (mi : ModelItems) (x : Rat) (lm : LMat2) :
    ∀ l ∈ (reduceAt mi x lm).labels, l ∈ (applyRelationsAt mi.relations x lm).labels := by
  intro l hl
  rw [reduceAt, applyConstraintsAt_labels] at hl
  exact (pickMask_sublist _ _).subset hl

/-- `retrieve_clps` = expand to the full labels (zeros for missing labels), then complete by the
    applying relations -/
theorem retrieveClps_eq (mi : ModelItems) (x : Rat) (lm : LMat2) (hwf : WF lm) (c : Vec)
    (hc : c.length = (reduceAt mi x lm).labels.length) :
    retrieveClps mi lm.labels (reduceAt mi x lm).labels c x =
      (triples mi.relations lm.labels x).foldl stepV
        (baseOf lm.labels (reduceAt mi x lm).labels c) := by
  rw [retrieveClps_unfold]
  split
  · rename_i h
    simp only [Bool.and_eq_true, List.isEmpty_iff] at h
    have hred : reduceAt mi x lm = lm := by
      rw [reduceAt, h.1, h.2, applyRelationsAt_nil, applyConstraintsAt_nil]
    rw [hred] at hc ⊢
    rw [h.1, baseOf_self _ _ hwf.1 hc]
    rfl
  · rw [foldl_retStep]

theorem reduced_problem_equiv_aux (mi : ModelItems) (x : Rat) (lm : LMat2) (hwf : WF lm)
    (hnc : NoChain mi.relations lm.labels x) (c : Vec)
    (hc : c.length = (reduceAt mi x lm).labels.length) :
    mulVec (reduceAt mi x lm).m c =
      mulVec lm.m (retrieveClps mi lm.labels (reduceAt mi x lm).labels c x) := by
  rw [retrieveClps_eq mi x lm hwf c hc]
  have hwf1 := applyRelationsAt_wf mi.relations x lm hwf
  have h1 := constraints_stage mi.constraints x _ hwf1 c
  have h2 := relations_stage mi.relations x lm hwf hnc
    (baseOf (applyRelationsAt mi.relations x lm).labels (reduceAt mi x lm).labels c)
    (baseOf_length _ _ _)
  rw [baseOf_baseOf _ _ _ _ (reduceAt_labels_sub mi x lm)] at h2
  rw [← h2]
  exact h1

/-! ### entries of `retrieve_clps` -/

theorem foldl_stepV_getD_other (T : List (Nat × Nat × Rat)) (v : Vec) (i : Nat)
    (h : i ∉ T.map (·.2.1)) : (T.foldl stepV v).getD i 0 = v.getD i 0 := by
  induction T generalizing v with
  | nil => rfl
  | cons t T ih =>
    have h1 : t.2.1 ≠ i := fun h' => h (by simp [h'])
    have h2 : i ∉ T.map (·.2.1) := fun h' => h (by simp only [List.map_cons, List.mem_cons]; exact Or.inr h')
    simp only [List.foldl_cons]
    rw [ih _ h2]
    simp only [stepV, List.getD_eq_getElem?_getD]
    rw [List.getElem?_set_ne h1]

theorem foldl_stepV_getD_target (T : List (Nat × Nat × Rat)) (v : Vec)
    (hT : (T.map (·.2.1)).Nodup) (hst : ∀ t ∈ T, ∀ t' ∈ T, t.1 ≠ t'.2.1)
    (t : Nat × Nat × Rat) (ht : t ∈ T) (hlt : t.2.1 < v.length) :
    (T.foldl stepV v).getD t.2.1 0 = t.2.2 * v.getD t.1 0 := by
  induction T generalizing v with
  | nil => simp at ht
  | cons t0 T ih =>
    have hTn : t0.2.1 ∉ T.map (·.2.1) := (List.nodup_cons.mp (by simpa using hT)).1
    have hT' : (T.map (·.2.1)).Nodup := (List.nodup_cons.mp (by simpa using hT)).2
    have hst' : ∀ t ∈ T, ∀ t' ∈ T, t.1 ≠ t'.2.1 :=
      fun a ha b hb => hst a (by simp [ha]) b (by simp [hb])
    simp only [List.foldl_cons]
    rcases List.mem_cons.mp ht with rfl | ht'
    · rw [foldl_stepV_getD_other T _ _ hTn]
      simp [stepV, List.getD_eq_getElem?_getD, hlt]
    · rw [ih (stepV v t0) hT' hst' ht' (by simpa [stepV] using hlt)]
      have hne : t0.2.1 ≠ t.1 := fun h => hst t (by simp [ht']) t0 (by simp) h.symm
      simp only [stepV, List.getD_eq_getElem?_getD]
      rw [List.getElem?_set_ne hne]

theorem retrieve_zero_aux (mi : ModelItems) (x : Rat) (lm : LMat2) (c : Vec) (l : String)
    (hl : l ∈ lm.labels) (hnot : l ∉ (reduceAt mi x lm).labels)
    (hnt : ∀ r ∈ mi.relations, appliesRel lm.labels x r = true → r.target ≠ l) :
    (retrieveClps mi lm.labels (reduceAt mi x lm).labels c x).getD (lm.labels.idxOf l) 0 = 0 := by
  rw [retrieveClps_unfold]
  split
  · rename_i h
    simp only [Bool.and_eq_true, List.isEmpty_iff] at h
    have hred : reduceAt mi x lm = lm := by
      rw [reduceAt, h.1, h.2, applyRelationsAt_nil, applyConstraintsAt_nil]
    rw [hred] at hnot
    exact absurd hl hnot
  · rw [foldl_retStep, foldl_stepV_getD_other]
    · rw [baseOf, map_getD_idxOf _ _ l hl, List.idxOf?_eq_none_iff.mpr hnot]
    · intro hmem
      simp only [List.mem_map] at hmem
      obtain ⟨t, ht, hti⟩ := hmem
      obtain ⟨r, hr, ha, rfl⟩ := (mem_triples _ _ _ t).mp ht
      exact hnt r hr ha (idxOf_inj _ _ _ (appliesRel_mem _ _ _ ha).1 hl hti)

theorem retrieve_related_aux (mi : ModelItems) (full reduced : List String) (c : Vec) (x : Rat)
    (hnc : NoChain mi.relations full x) (r : Relation) (hr : r ∈ mi.relations)
    (ha : appliesRel full x r = true) :
    (retrieveClps mi full reduced c x).getD (full.idxOf r.target) 0 =
      r.param * (retrieveClps mi full reduced c x).getD (full.idxOf r.source) 0 := by
  rw [retrieveClps_unfold]
  have hne : (mi.relations.isEmpty && mi.constraints.isEmpty) = false := by
    cases hrel : mi.relations with
    | nil => rw [hrel] at hr; simp at hr
    | cons _ _ => simp
  rw [hne]
  simp only [Bool.false_eq_true, if_false, foldl_retStep]
  have ht : tripleOf full r ∈ triples mi.relations full x :=
    (mem_triples _ _ _ _).mpr ⟨r, hr, ha, rfl⟩
  have h1 := foldl_stepV_getD_target _ (baseOf full reduced c) (triples_nodup _ _ _ hnc)
    (triples_src_ne _ _ _ hnc) _ ht
    (by rw [baseOf_length]; exact (triples_lt _ _ _ _ ht).2)
  have h2 := foldl_stepV_getD_other (triples mi.relations full x) (baseOf full reduced c)
    (tripleOf full r).1 (by
      intro hmem
      simp only [List.mem_map] at hmem
      obtain ⟨t', ht', hti⟩ := hmem
      exact triples_src_ne _ _ _ hnc _ ht _ ht' hti.symm)
  simp only [tripleOf] at h1 h2
  rw [h1, h2]


instance (lm : LMat2) : Decidable (WF lm) := by unfold WF; infer_instance
instance (rels : List Relation) (L : List String) (x : Rat) : Decidable (NoChain rels L x) := by
  unfold NoChain; infer_instance

end Glotaran.C02
