import GlotaranModel.C02
namespace Glotaran.C02
open Glotaran.LinAlg

theorem interval_contains_iff_aux (lo hi : EB) (x : Rat) :
    (Interval.contains ⟨lo, hi⟩ x = true) ↔
      ((lo.le (.fin x) = true ∧ EB.le (.fin x) hi = true) ∨ (hi.le (.fin x) = true ∧ EB.le (.fin x) lo = true)) := by
  unfold Interval.contains
  by_cases h : lo.le hi = true
  · simp only [h, if_true, Bool.and_eq_true]
    constructor
    · intro hh; exact Or.inl hh
    · rintro (hh | hh)
      · exact hh
      · -- hi ≤ x ≤ lo and lo ≤ hi
        cases lo <;> cases hi <;> simp_all [EB.le]
        obtain ⟨h1, h2⟩ := hh
        exact ⟨Rat.le_trans h h1, Rat.le_trans h2 h⟩
  · simp only [h, Bool.and_eq_true]
    simp only [Bool.false_eq_true, if_false]
    constructor
    · intro hh; exact Or.inr hh
    · rintro (hh | hh)
      · cases lo <;> cases hi <;> simp_all [EB.le]
        exact absurd (Rat.le_trans hh.1 hh.2) h
      · exact hh

theorem constraints_labels (cons : List Constraint) (x : Rat) (lm : LMat2) :
    (applyConstraintsAt cons x lm).labels =
      lm.labels.filter (fun l => !(cons.any (fun c => c.target == l && c.appliesAt x))) := by
  sorry

end Glotaran.C02
