/-
C08 — lists of constraints and relations (any number): which labels leave the problem at an axis
value, which coefficients `retrieve_clps` reports for them, and the converse of C02's
`reduced_problem_equiv` (every coefficient vector that satisfies the items is reached).
Helper lemmas for GlotaranProofs/Props/C08.lean.
-/
import GlotaranProofs.Lemmas.C08
namespace Glotaran.C08
open Glotaran.LinAlg Glotaran.C02

/-- `l` is the target of a relation that applies at `x` on the labels `L` (target and source are
    labels of the matrix, the interval contains `x`) -/
def RelTargetAt (rels : List Relation) (L : List String) (x : Rat) (l : String) : Prop :=
  ∃ r ∈ rels, appliesRel L x r = true ∧ r.target = l

/-- `l` is the target of a constraint that applies at `x` (`zero`: `x` inside, `only`: `x` outside) -/
def ConstrainedAt (cons : List Constraint) (x : Rat) (l : String) : Prop :=
  ∃ c ∈ cons, c.appliesAt x = true ∧ c.target = l

instance (rels : List Relation) (L : List String) (x : Rat) (l : String) : Decidable (RelTargetAt rels L x l) := by
  unfold RelTargetAt; infer_instance
instance (cons : List Constraint) (x : Rat) (l : String) : Decidable (ConstrainedAt cons x l) := by
  unfold ConstrainedAt; infer_instance

/-! ### labels after the two stages -/

theorem maskOf_eq_map_idxOf (L : List String) (del : List Nat) (hL : L.Nodup) :
    maskOf del L.length = L.map (fun l => !del.contains (L.idxOf l)) := by
  apply List.ext_getElem
  · simp [maskOf]
  · intro i h1 h2
    have hi : i < L.length := by simpa [maskOf] using h1
    simp only [maskOf, List.getElem_map, List.getElem_range]
    rw [List.Nodup.idxOf_getElem hL i hi]

theorem mem_relations_labels (rels : List Relation) (x : Rat) (lm : LMat2) (hL : lm.labels.Nodup) (l : String) :
    l ∈ (applyRelationsAt rels x lm).labels ↔ l ∈ lm.labels ∧ ¬ RelTargetAt rels lm.labels x l := by
  rw [applyRelationsAt_eq]
  split
  · rename_i hT
    have hnone : ¬ RelTargetAt rels lm.labels x l := by
      rintro ⟨r, hr, ha, _⟩
      have : tripleOf lm.labels r ∈ triples rels lm.labels x := (mem_triples _ _ _ _).mpr ⟨r, hr, ha, rfl⟩
      rw [List.isEmpty_iff.mp hT] at this
      cases this
    exact ⟨fun h => ⟨h, hnone⟩, fun h => h.1⟩
  · simp only
    rw [maskOf_eq_map_idxOf _ _ hL, pickMask_map_self, List.mem_filter]
    simp only [Bool.not_eq_true', Bool.eq_false_iff, ne_eq, List.contains_iff_mem, List.mem_map, not_exists, not_and]
    constructor
    · rintro ⟨hl, hn⟩
      refine ⟨hl, ?_⟩
      rintro ⟨r, hr, ha, rfl⟩
      exact hn (tripleOf lm.labels r) ((mem_triples _ _ _ _).mpr ⟨r, hr, ha, rfl⟩) rfl
    · rintro ⟨hl, hn⟩
      refine ⟨hl, fun t ht hti => hn ?_⟩
      obtain ⟨r, hr, ha, rfl⟩ := (mem_triples _ _ _ _).mp ht
      exact ⟨r, hr, ha, idxOf_inj _ _ _ (appliesRel_mem _ _ _ ha).1 hl hti⟩

theorem mem_constraints_labels (cons : List Constraint) (x : Rat) (lm : LMat2) (l : String) :
    l ∈ (applyConstraintsAt cons x lm).labels ↔ l ∈ lm.labels ∧ ¬ ConstrainedAt cons x l := by
  rw [constraints_labels, List.mem_filter]
  simp only [Bool.not_eq_true', List.any_eq_false, Bool.and_eq_true, beq_iff_eq, not_and, Bool.not_eq_true,
    ConstrainedAt, not_exists]
  constructor
  · rintro ⟨hl, hn⟩
    refine ⟨hl, fun c hc ha ht => ?_⟩
    have := hn c hc ht
    rw [ha] at this; cases this
  · rintro ⟨hl, hn⟩
    refine ⟨hl, fun c hc ht => ?_⟩
    cases ha : c.appliesAt x with
    | false => rfl
    | true => exact absurd ht (hn c hc ha)

/-- **which labels stay in the problem at `x`**: those that are neither the target of an applying
    relation nor the target of an applying constraint -/
theorem mem_reduce_labels (mi : ModelItems) (x : Rat) (lm : LMat2) (hL : lm.labels.Nodup) (l : String) :
    l ∈ (reduceAt mi x lm).labels ↔
      l ∈ lm.labels ∧ ¬ RelTargetAt mi.relations lm.labels x l ∧ ¬ ConstrainedAt mi.constraints x l := by
  rw [reduceAt, mem_constraints_labels, mem_relations_labels _ _ _ hL]
  exact and_assoc

theorem reduce_labels_nodup (mi : ModelItems) (x : Rat) (lm : LMat2) (hL : lm.labels.Nodup) :
    (reduceAt mi x lm).labels.Nodup := by
  rw [reduceAt, applyConstraintsAt_labels]
  apply (pickMask_sublist _ _).nodup
  rw [applyRelationsAt_eq]
  split
  · exact hL
  · exact (pickMask_sublist _ _).nodup hL

/-! ### the coefficients `retrieve_clps` reports -/

/-- `retrieve_clps` as a fold over the applying relations, for any reduced label list -/
theorem retrieveClps_fold (mi : ModelItems) (full reduced : List String) (c : Vec) (x : Rat)
    (hne : (mi.relations.isEmpty && mi.constraints.isEmpty) = false) :
    retrieveClps mi full reduced c x = (triples mi.relations full x).foldl stepV (baseOf full reduced c) := by
  rw [retrieveClps_unfold, hne]
  simp only [Bool.false_eq_true, if_false, foldl_retStep]

theorem not_mem_targets_of_not_relTarget (rels : List Relation) (L : List String) (x : Rat) (l : String)
    (hl : l ∈ L) (hn : ¬ RelTargetAt rels L x l) : L.idxOf l ∉ (triples rels L x).map (·.2.1) := by
  intro hmem
  simp only [List.mem_map] at hmem
  obtain ⟨t, ht, hti⟩ := hmem
  obtain ⟨r, hr, ha, rfl⟩ := (mem_triples _ _ _ t).mp ht
  exact hn ⟨r, hr, ha, idxOf_inj _ _ _ (appliesRel_mem _ _ _ ha).1 hl hti⟩

/-- the coefficient reported for a label that is not a relation target at `x`: the estimated one if
    the label is still in the problem, `0` otherwise -/
theorem retrieve_other (mi : ModelItems) (full reduced : List String) (c : Vec) (x : Rat) (l : String)
    (hl : l ∈ full) (hn : ¬ RelTargetAt mi.relations full x l)
    (hlen : (mi.relations.isEmpty && mi.constraints.isEmpty) = true → reduced = full) :
    (retrieveClps mi full reduced c x).getD (full.idxOf l) 0 =
      match reduced.idxOf? l with | some i => c.getD i 0 | none => 0 := by
  cases hne : (mi.relations.isEmpty && mi.constraints.isEmpty) with
  | true =>
    have hr := hlen hne
    subst hr
    rw [retrieveClps_unfold, hne]
    simp only [if_true]
    rw [idxOf?_eq_some_idxOf _ l hl]
  | false =>
    rw [retrieveClps_fold _ _ _ _ _ hne,
      foldl_stepV_getD_other _ _ _ (not_mem_targets_of_not_relTarget _ _ _ _ hl hn), baseOf]
    exact map_getD_idxOf _ _ l hl

theorem reduce_eq_self_of_empty (mi : ModelItems) (x : Rat) (lm : LMat2)
    (h : (mi.relations.isEmpty && mi.constraints.isEmpty) = true) : reduceAt mi x lm = lm := by
  simp only [Bool.and_eq_true, List.isEmpty_iff] at h
  rw [reduceAt, h.1, h.2, applyRelationsAt_nil, applyConstraintsAt_nil]

/-- **a label targeted by an applying constraint (and not by an applying relation) is reported as 0** -/
theorem retrieve_constrained_zero (mi : ModelItems) (x : Rat) (lm : LMat2) (hL : lm.labels.Nodup) (c : Vec)
    (l : String) (hl : l ∈ lm.labels) (hcon : ConstrainedAt mi.constraints x l)
    (hn : ¬ RelTargetAt mi.relations lm.labels x l) :
    (retrieveClps mi lm.labels (reduceAt mi x lm).labels c x).getD (lm.labels.idxOf l) 0 = 0 := by
  apply retrieve_zero_aux mi x lm c l hl
  · intro hmem
    exact ((mem_reduce_labels mi x lm hL l).mp hmem).2.2 hcon
  · intro r hr ha ht
    exact hn ⟨r, hr, ha, ht⟩

/-- **a label targeted by no applying constraint and no applying relation stays in the problem and
    is reported with its estimated coefficient** -/
theorem retrieve_free (mi : ModelItems) (x : Rat) (lm : LMat2) (hL : lm.labels.Nodup) (c : Vec)
    (l : String) (hl : l ∈ lm.labels) (hcon : ¬ ConstrainedAt mi.constraints x l)
    (hn : ¬ RelTargetAt mi.relations lm.labels x l) :
    l ∈ (reduceAt mi x lm).labels ∧
    (retrieveClps mi lm.labels (reduceAt mi x lm).labels c x).getD (lm.labels.idxOf l) 0 =
      c.getD ((reduceAt mi x lm).labels.idxOf l) 0 := by
  have hmem : l ∈ (reduceAt mi x lm).labels := (mem_reduce_labels mi x lm hL l).mpr ⟨hl, hn, hcon⟩
  refine ⟨hmem, ?_⟩
  rw [retrieve_other mi _ _ c x l hl hn (fun h => by rw [reduce_eq_self_of_empty mi x lm h]),
    idxOf?_eq_some_idxOf _ l hmem]

/-- the unit vector of length `n` with the `1` at position `k` -/
def unitVec (n k : Nat) : Vec := (List.range n).map (fun i => if i = k then 1 else 0)

theorem unitVec_length (n k : Nat) : (unitVec n k).length = n := by simp [unitVec]

theorem unitVec_getD (n k : Nat) (h : k < n) : (unitVec n k).getD k 0 = 1 := by
  simp [unitVec, List.getD_eq_getElem?_getD, List.getElem?_map, List.getElem?_range h]

/-! ### uniqueness of the applying relation of a target -/

theorem inj_of_nodup_map {α β} (f : α → β) : ∀ (l : List α), (l.map f).Nodup →
    ∀ a ∈ l, ∀ b ∈ l, f a = f b → a = b := by
  intro l
  induction l with
  | nil => intro _ a ha; cases ha
  | cons y t ih =>
    intro hnd a ha b hb hab
    rw [List.map_cons, List.nodup_cons] at hnd
    rcases List.mem_cons.mp ha with rfl | ha' <;> rcases List.mem_cons.mp hb with rfl | hb'
    · rfl
    · exact absurd (hab ▸ List.mem_map_of_mem hb') hnd.1
    · exact absurd (hab ▸ List.mem_map_of_mem ha') hnd.1
    · exact ih hnd.2 a ha' b hb' hab

theorem applying_relation_unique (rels : List Relation) (L : List String) (x : Rat) (hnc : NoChain rels L x)
    (r r' : Relation) (hr : r ∈ rels) (hr' : r' ∈ rels) (ha : appliesRel L x r = true)
    (ha' : appliesRel L x r' = true) (ht : r.target = r'.target) : r = r' := by
  have hnd := hnc.1
  exact inj_of_nodup_map _ _ hnd r (List.mem_filter.mpr ⟨hr, ha⟩) r' (List.mem_filter.mpr ⟨hr', ha'⟩) ht

/-! ### the converse: every coefficient vector satisfying the items is reached -/

/-- the reduced coefficients of a full coefficient vector: its entries at the labels that stay -/
def restrictTo (full reduced : List String) (e : Vec) : Vec :=
  reduced.map (fun l => e.getD (full.idxOf l) 0)

theorem baseOf_restrict (full reduced : List String) (e : Vec) (l : String) (hl : l ∈ full) :
    (baseOf full reduced (restrictTo full reduced e)).getD (full.idxOf l) 0 =
      if l ∈ reduced then e.getD (full.idxOf l) 0 else 0 := by
  rw [baseOf, map_getD_idxOf _ _ l hl]
  by_cases hm : l ∈ reduced
  · rw [idxOf?_eq_some_idxOf _ l hm, if_pos hm, restrictTo]
    exact map_getD_idxOf _ _ l hm
  · rw [List.idxOf?_eq_none_iff.mpr hm, if_neg hm]

/-- **converse of `reduced_problem_equiv`**: a full coefficient vector with `0` at every label an
    applying constraint targets and `parameter · source` at the target of every applying relation is
    what `retrieve_clps` returns for its own restriction to the labels that stay in the problem -/
theorem retrieve_restrict (mi : ModelItems) (x : Rat) (lm : LMat2) (hL : lm.labels.Nodup)
    (hnc : NoChain mi.relations lm.labels x) (e : Vec) (he : e.length = lm.labels.length)
    (hzero : ∀ l ∈ lm.labels, ConstrainedAt mi.constraints x l → ¬ RelTargetAt mi.relations lm.labels x l →
      e.getD (lm.labels.idxOf l) 0 = 0)
    (hrel : ∀ r ∈ mi.relations, appliesRel lm.labels x r = true →
      e.getD (lm.labels.idxOf r.target) 0 = r.param * e.getD (lm.labels.idxOf r.source) 0) :
    retrieveClps mi lm.labels (reduceAt mi x lm).labels
      (restrictTo lm.labels (reduceAt mi x lm).labels e) x = e := by
  cases hne : (mi.relations.isEmpty && mi.constraints.isEmpty) with
  | true =>
    rw [retrieveClps_unfold, hne, reduce_eq_self_of_empty mi x lm hne]
    simp only [if_true, restrictTo]
    apply List.ext_getElem
    · simp [he]
    · intro i h1 h2
      have hi : i < lm.labels.length := by simpa using h1
      simp only [List.getElem_map]
      rw [List.Nodup.idxOf_getElem hL i hi, List.getD_eq_getElem?_getD, List.getElem?_eq_getElem h2, Option.getD_some]
  | false =>
    rw [retrieveClps_fold _ _ _ _ _ hne]
    -- entry by entry
    apply List.ext_getElem?
    intro i
    by_cases hi : i < lm.labels.length
    · have hlen : ((triples mi.relations lm.labels x).foldl stepV
          (baseOf lm.labels (reduceAt mi x lm).labels (restrictTo lm.labels (reduceAt mi x lm).labels e))).length =
          lm.labels.length := by
        have : ∀ (T : List (Nat × Nat × Rat)) (v : Vec), (T.foldl stepV v).length = v.length := by
          intro T
          induction T with
          | nil => intro v; rfl
          | cons t T ih => intro v; simp only [List.foldl_cons]; rw [ih]; simp [stepV]
        rw [this, baseOf_length]
      have hgoal : ∀ (a b : Vec), a.length = lm.labels.length → b.length = lm.labels.length →
          a.getD i 0 = b.getD i 0 → a[i]? = b[i]? := by
        intro a b ha hb hab
        simp only [List.getD_eq_getElem?_getD, List.getElem?_eq_getElem (ha ▸ hi),
          List.getElem?_eq_getElem (hb ▸ hi), Option.getD_some] at hab
        rw [List.getElem?_eq_getElem (ha ▸ hi), List.getElem?_eq_getElem (hb ▸ hi), hab]
      apply hgoal _ _ hlen he
      -- the label at position i
      set l := lm.labels[i] with hl_def
      have hl : l ∈ lm.labels := List.getElem_mem hi
      have hidx : lm.labels.idxOf l = i := List.Nodup.idxOf_getElem hL i hi
      -- value of the base vector at a label that is no relation target
      have hbase : ∀ s ∈ lm.labels, ¬ RelTargetAt mi.relations lm.labels x s →
          (baseOf lm.labels (reduceAt mi x lm).labels (restrictTo lm.labels (reduceAt mi x lm).labels e)).getD
            (lm.labels.idxOf s) 0 = e.getD (lm.labels.idxOf s) 0 := by
        intro s hs hns
        rw [baseOf_restrict _ _ _ s hs]
        by_cases hm : s ∈ (reduceAt mi x lm).labels
        · rw [if_pos hm]
        · rw [if_neg hm]
          have hcon : ConstrainedAt mi.constraints x s := by
            by_contra hcon
            exact hm ((mem_reduce_labels mi x lm hL s).mpr ⟨hs, hns, hcon⟩)
          exact (hzero s hs hcon hns).symm
      by_cases hrt : RelTargetAt mi.relations lm.labels x l
      · obtain ⟨r, hr, ha, ht⟩ := hrt
        have htr : tripleOf lm.labels r ∈ triples mi.relations lm.labels x :=
          (mem_triples _ _ _ _).mpr ⟨r, hr, ha, rfl⟩
        have h1 := foldl_stepV_getD_target _
          (baseOf lm.labels (reduceAt mi x lm).labels (restrictTo lm.labels (reduceAt mi x lm).labels e))
          (triples_nodup _ _ _ hnc) (triples_src_ne _ _ _ hnc) _ htr
          (by rw [baseOf_length]; exact (triples_lt _ _ _ _ htr).2)
        simp only [tripleOf] at h1
        rw [ht, hidx] at h1
        rw [h1]
        have hsrc : ¬ RelTargetAt mi.relations lm.labels x r.source := by
          rintro ⟨r', hr', ha', ht'⟩
          exact hnc.2 r hr r' hr' ha ha' ht'.symm
        rw [hbase r.source (appliesRel_mem _ _ _ ha).2.1 hsrc]
        have := hrel r hr ha
        rw [ht, hidx] at this
        exact this.symm
      · rw [← hidx, foldl_stepV_getD_other _ _ _ (not_mem_targets_of_not_relTarget _ _ _ _ hl hrt)]
        exact hbase l hl hrt
    · have hlen : ((triples mi.relations lm.labels x).foldl stepV
          (baseOf lm.labels (reduceAt mi x lm).labels (restrictTo lm.labels (reduceAt mi x lm).labels e))).length =
          lm.labels.length := by
        have : ∀ (T : List (Nat × Nat × Rat)) (v : Vec), (T.foldl stepV v).length = v.length := by
          intro T
          induction T with
          | nil => intro v; rfl
          | cons t T ih => intro v; simp only [List.foldl_cons]; rw [ih]; simp [stepV]
        rw [this, baseOf_length]
      rw [List.getElem?_eq_none (by omega), List.getElem?_eq_none (by omega)]

/-! ### model weights: vocabulary for the two-dimensional block -/

/-- axis point `k` is affected legitimately by an optional weight interval: no interval, or for each
    bound of the closed interval that the point exceeds it is an axis point nearest to that bound
    (in particular every point inside the interval qualifies) -/
def InsideOrNearest (iv : Option (EB × EB)) (axis : List Rat) (k : Nat) : Prop :=
  match iv with
  | none => True
  | some (lo, hi) =>
    ((emin lo hi).le (.fin (axis.getD k 0)) = false → IsNearest axis (emin lo hi) k) ∧
    (EB.le (.fin (axis.getD k 0)) (emax lo hi) = false → IsNearest axis (emax lo hi) k)

end Glotaran.C08
