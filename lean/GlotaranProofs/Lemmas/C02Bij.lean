/-
C02 — "every data point enters the penalty vector exactly once": positions in concatenations.

* `offset ns k` = start of block `k` in a concatenation of blocks of sizes `ns`;
  `(k, q) ↦ offset ns k + q` (`q < ns[k]`) is a bijection onto `[0, ns.sum)` (`offset_lt/_inj/_surj`);
* `(m, i) ↦ i·M + m` (`m < M`, `i < G`) is a bijection onto `[0, M·G)` (`cell_lt/_inj/_surj`);
* the `j`-th element of a list that passes a filter (`countBefore`, `filter_position`, …).
-/
import GlotaranModel.C02
import GlotaranProofs.Lemmas.C02Length
namespace Glotaran.C02
open Glotaran.LinAlg

/-- start of block `k` in a concatenation of blocks of sizes `ns` -/
def offset (ns : List Nat) (k : Nat) : Nat := (ns.take k).sum

@[simp] theorem offset_zero (ns : List Nat) : offset ns 0 = 0 := by simp [offset]
@[simp] theorem offset_cons_succ (n : Nat) (ns : List Nat) (k : Nat) : offset (n :: ns) (k + 1) = n + offset ns k := by
  simp [offset]

theorem offset_lt (ns : List Nat) (k : Nat) (hk : k < ns.length) (q : Nat) (hq : q < ns[k]) :
    offset ns k + q < ns.sum := by
  induction ns generalizing k with
  | nil => simp at hk
  | cons n ns ih =>
    cases k with
    | zero => simp at hq ⊢; omega
    | succ k =>
      simp only [List.getElem_cons_succ] at hq
      have := ih k (by simpa using hk) hq
      simp only [offset_cons_succ, List.sum_cons]; omega

theorem offset_inj (ns : List Nat) (k k' : Nat) (hk : k < ns.length) (hk' : k' < ns.length) (q q' : Nat)
    (hq : q < ns[k]) (hq' : q' < ns[k']) (h : offset ns k + q = offset ns k' + q') : k = k' ∧ q = q' := by
  induction ns generalizing k k' with
  | nil => simp at hk
  | cons n ns ih =>
    cases k with
    | zero =>
      cases k' with
      | zero => simp at h; exact ⟨rfl, h⟩
      | succ k' =>
        simp only [List.getElem_cons_zero] at hq
        simp only [offset_zero, offset_cons_succ] at h
        omega
    | succ k =>
      cases k' with
      | zero =>
        simp only [List.getElem_cons_zero] at hq'
        simp only [offset_zero, offset_cons_succ] at h
        omega
      | succ k' =>
        simp only [List.getElem_cons_succ] at hq hq'
        simp only [offset_cons_succ] at h
        obtain ⟨h1, h2⟩ := ih k k' (by simpa using hk) (by simpa using hk') hq hq' (by omega)
        exact ⟨by omega, h2⟩

theorem offset_surj (ns : List Nat) (p : Nat) (hp : p < ns.sum) :
    ∃ k, ∃ hk : k < ns.length, ∃ q, q < ns[k] ∧ p = offset ns k + q := by
  induction ns generalizing p with
  | nil => simp at hp
  | cons n ns ih =>
    by_cases h : p < n
    · exact ⟨0, by simp, p, by simpa using h, by simp⟩
    · simp only [List.sum_cons] at hp
      obtain ⟨k, hk, q, hq, hpq⟩ := ih (p - n) (by omega)
      exact ⟨k + 1, by simpa using hk, q, by simpa using hq, by simp only [offset_cons_succ]; omega⟩

theorem offset_eq_sum_of_length_le (ns : List Nat) (k : Nat) (hk : ns.length ≤ k) : offset ns k = ns.sum := by
  simp [offset, List.take_of_length_le hk]

/-! ### cells of an `M × G` block stored global-major -/

theorem cell_lt (M G m i : Nat) (hm : m < M) (hi : i < G) : i * M + m < M * G := by
  have : (i + 1) * M ≤ G * M := Nat.mul_le_mul_right M hi
  rw [Nat.mul_comm M G]
  rw [Nat.add_mul] at this
  omega

theorem cell_inj (M m i m' i' : Nat) (hm : m < M) (hm' : m' < M) (h : i * M + m = i' * M + m') :
    m = m' ∧ i = i' := by
  have hM : 0 < M := by omega
  have h1 : (i * M + m) / M = i := by
    rw [Nat.add_comm, Nat.add_mul_div_right _ _ hM, Nat.div_eq_of_lt hm]; simp
  have h2 : (i' * M + m') / M = i' := by
    rw [Nat.add_comm, Nat.add_mul_div_right _ _ hM, Nat.div_eq_of_lt hm']; simp
  have hi : i = i' := by rw [← h1, ← h2, h]
  subst hi
  exact ⟨by omega, rfl⟩

theorem cell_surj (M G q : Nat) (hq : q < M * G) : ∃ m i, m < M ∧ i < G ∧ q = i * M + m := by
  have hM : 0 < M := by
    rcases Nat.eq_zero_or_pos M with h | h
    · subst h; simp at hq
    · exact h
  refine ⟨q % M, q / M, Nat.mod_lt _ hM, ?_, ?_⟩
  · exact Nat.div_lt_of_lt_mul hq
  · have := Nat.div_add_mod q M
    rw [Nat.mul_comm] at this
    omega

/-! ### the `j`-th element passing a filter -/

/-- number of elements before position `k` that pass `p` -/
def countBefore {α} (p : α → Bool) (l : List α) (k : Nat) : Nat := ((l.take k).filter p).length

theorem filter_position {α} (p : α → Bool) (l : List α) (k : Nat) (hk : k < l.length) (hp : p l[k] = true) :
    (l.filter p)[countBefore p l k]? = some l[k] ∧
    (l.filter p).take (countBefore p l k) = (l.take k).filter p := by
  have hl : l.filter p = ((l.take k) ++ l[k] :: l.drop (k + 1)).filter p := by
    rw [← List.drop_eq_getElem_cons hk, List.take_append_drop]
  rw [hl, List.filter_append, List.filter_cons_of_pos hp]
  unfold countBefore
  exact ⟨by simp, by simp⟩

theorem countBefore_lt {α} (p : α → Bool) (l : List α) (k : Nat) (hk : k < l.length) (hp : p l[k] = true) :
    countBefore p l k < (l.filter p).length :=
  (List.getElem?_eq_some_iff.mp (filter_position p l k hk hp).1).1

theorem countBefore_mono {α} (p : α → Bool) (l : List α) (k k' : Nat) (hkk : k < k') (hk' : k' ≤ l.length)
    (hp : p (l[k]'(by omega)) = true) : countBefore p l k < countBefore p l k' := by
  unfold countBefore
  have hk : k < l.length := by omega
  have : l.take k' = l.take k ++ l[k] :: (l.take k').drop (k + 1) := by
    have h1 : k < (l.take k').length := by simp; omega
    have h2 := List.take_append_drop k (l.take k')
    rw [List.drop_eq_getElem_cons h1] at h2
    rw [List.take_take, Nat.min_eq_left (by omega)] at h2
    simp only [List.getElem_take] at h2
    exact h2.symm
  rw [this, List.filter_append, List.filter_cons_of_pos hp]
  simp

theorem countBefore_inj {α} (p : α → Bool) (l : List α) (k k' : Nat) (hk : k < l.length) (hk' : k' < l.length)
    (hp : p l[k] = true) (hp' : p l[k'] = true) (h : countBefore p l k = countBefore p l k') : k = k' := by
  rcases Nat.lt_trichotomy k k' with h1 | h1 | h1
  · have := countBefore_mono p l k k' h1 (by omega) hp; omega
  · exact h1
  · have := countBefore_mono p l k' k h1 (by omega) hp'; omega

theorem filter_getElem_exists {α} (p : α → Bool) (l : List α) (j : Nat) (hj : j < (l.filter p).length) :
    ∃ k, ∃ hk : k < l.length, p l[k] = true ∧ countBefore p l k = j ∧ (l.filter p)[j] = l[k] := by
  induction l generalizing j with
  | nil => simp at hj
  | cons a l ih =>
    by_cases hpa : p a = true
    · rw [List.filter_cons_of_pos hpa] at hj
      cases j with
      | zero =>
        refine ⟨0, by simp, by simpa using hpa, by simp [countBefore], ?_⟩
        simp [List.filter_cons_of_pos hpa]
      | succ j =>
        obtain ⟨k, hk, h1, h2, h3⟩ := ih j (by simpa using hj)
        refine ⟨k + 1, by simpa using hk, by simpa using h1, ?_, ?_⟩
        · simp only [countBefore, List.take_succ_cons, List.filter_cons_of_pos hpa, List.length_cons] at h2 ⊢
          omega
        · simp only [List.filter_cons_of_pos hpa, List.getElem_cons_succ]; exact h3
    · have hpa' : p a = false := by simpa using hpa
      rw [List.filter_cons_of_neg hpa] at hj
      obtain ⟨k, hk, h1, h2, h3⟩ := ih j hj
      refine ⟨k + 1, by simpa using hk, by simpa using h1, ?_, ?_⟩
      · simp only [countBefore, List.take_succ_cons, List.filter_cons_of_neg hpa] at h2 ⊢
        exact h2
      · simp only [List.filter_cons_of_neg hpa, List.getElem_cons_succ]; exact h3

/-! ### unlinked groups -/

/-- **Position of data point (dataset `k`, model index `m`, global index `i`) in the residual part of an
    unlinked group's penalty vector**: datasets are concatenated in order; inside a dataset the per-index
    residuals are concatenated (`i`-major; a full-model residual is `data.T.flatten()`, the same order). -/
def posUnlinked (g : Group) (k m i : Nat) : Nat :=
  offset (g.datasets.map (fun d => d.nModel * d.nGlobal)) k + (i * (g.datasets.getD k default).nModel + m)

/-- the data points of a group -/
def ValidPoint (g : Group) (k m i : Nat) : Prop :=
  ∃ hk : k < g.datasets.length, m < g.datasets[k].nModel ∧ i < g.datasets[k].nGlobal

theorem getD_eq_getElem_ds (g : Group) (k : Nat) (hk : k < g.datasets.length) :
    g.datasets.getD k default = g.datasets[k] := by
  simp [List.getD_eq_getElem?_getD, List.getElem?_eq_getElem hk]

theorem posUnlinked_bij (g : Group) :
    (∀ k m i, ValidPoint g k m i → posUnlinked g k m i < (g.datasets.map (fun d => d.nModel * d.nGlobal)).sum) ∧
    (∀ k m i k' m' i', ValidPoint g k m i → ValidPoint g k' m' i' →
      posUnlinked g k m i = posUnlinked g k' m' i' → k = k' ∧ m = m' ∧ i = i') ∧
    (∀ p, p < (g.datasets.map (fun d => d.nModel * d.nGlobal)).sum →
      ∃ k m i, ValidPoint g k m i ∧ posUnlinked g k m i = p) := by
  refine ⟨?_, ?_, ?_⟩
  · rintro k m i ⟨hk, hm, hi⟩
    unfold posUnlinked
    rw [getD_eq_getElem_ds g k hk]
    apply offset_lt _ k (by simpa using hk)
    simp only [List.getElem_map]
    exact cell_lt _ _ _ _ hm hi
  · rintro k m i k' m' i' ⟨hk, hm, hi⟩ ⟨hk', hm', hi'⟩ h
    unfold posUnlinked at h
    rw [getD_eq_getElem_ds g k hk, getD_eq_getElem_ds g k' hk'] at h
    obtain ⟨h1, h2⟩ := offset_inj _ k k' (by simpa using hk) (by simpa using hk') _ _
      (by simp only [List.getElem_map]; exact cell_lt _ _ _ _ hm hi)
      (by simp only [List.getElem_map]; exact cell_lt _ _ _ _ hm' hi') h
    subst h1
    obtain ⟨h3, h4⟩ := cell_inj _ _ _ _ _ hm hm' h2
    exact ⟨rfl, h3, h4⟩
  · intro p hp
    obtain ⟨k, hk, q, hq, hpq⟩ := offset_surj _ p hp
    have hk' : k < g.datasets.length := by simpa using hk
    simp only [List.getElem_map] at hq
    obtain ⟨m, i, hm, hi, hqmi⟩ := cell_surj _ _ q hq
    refine ⟨k, m, i, ⟨hk', hm, hi⟩, ?_⟩
    unfold posUnlinked
    rw [getD_eq_getElem_ds g k hk', hpq, hqmi]

/-! ### entries of concatenations -/

theorem flatMap_getElem?_offset {α β} (l : List α) (f : α → List β) (g : α → Nat)
    (hg : ∀ a ∈ l, (f a).length = g a) (j : Nat) (hj : j < l.length) (m : Nat) (hm : m < g l[j]) :
    (l.flatMap f)[((l.take j).map g).sum + m]? = (f l[j])[m]? := by
  induction l generalizing j with
  | nil => simp at hj
  | cons a l ih =>
    cases j with
    | zero =>
      simp only [List.take_zero, List.map_nil, List.sum_nil, Nat.zero_add, List.flatMap_cons,
        List.getElem_cons_zero] at hm ⊢
      rw [List.getElem?_append_left (by rw [hg a List.mem_cons_self]; exact hm)]
    | succ j =>
      simp only [List.take_succ_cons, List.map_cons, List.sum_cons, List.flatMap_cons,
        List.getElem_cons_succ] at hm ⊢
      have hla : (f a).length = g a := hg a List.mem_cons_self
      rw [List.getElem?_append_right (by omega)]
      have : g a + ((l.take j).map g).sum + m - (f a).length = ((l.take j).map g).sum + m := by omega
      rw [this]
      exact ih (fun b hb => hg b (List.mem_cons_of_mem _ hb)) j (by simpa using hj) hm

/-- the same with the offsets computed from a second list of the same sizes -/
theorem flatMap_getElem?_offset' {α β} (l : List α) (f : α → List β) (ns : List Nat)
    (hns : l.map (fun a => (f a).length) = ns) (j : Nat) (hj : j < l.length) (m : Nat) (hm : m < (f l[j]).length) :
    (l.flatMap f)[offset ns j + m]? = (f l[j])[m]? := by
  subst hns
  have := flatMap_getElem?_offset l f (fun a => (f a).length) (fun _ _ => rfl) j hj m hm
  unfold offset
  rw [← List.map_take]
  exact this

/-- `mapM` in `Option`, position-wise -/
theorem mapM_getElem {α β} (f : α → Option β) (l : List α) (r : List β) (h : l.mapM f = some r) :
    r.length = l.length ∧ ∀ i (h1 : i < l.length) (h2 : i < r.length), f l[i] = some r[i] := by
  induction l generalizing r with
  | nil => simp at h; subst h; simp
  | cons a l ih =>
    rw [List.mapM_cons] at h
    cases hfa : f a with
    | none => simp [hfa] at h
    | some b =>
      cases hl : l.mapM f with
      | none => simp [hfa, hl] at h
      | some bs =>
        simp [hfa, hl] at h
        subst h
        obtain ⟨h1, h2⟩ := ih bs hl
        refine ⟨by simp [h1], ?_⟩
        intro i hi1 hi2
        cases i with
        | zero => simpa using hfa
        | succ i => simpa using h2 i (by simpa using hi1) (by simpa using hi2)

/-! ### the tie: what sits at `posUnlinked` -/

/-- the residual part of one unlinked dataset without global model: per-index residuals concatenated -/
theorem unlinkedDataset_entry (mi : ModelItems) (s : Solver) (d : Dataset) (rp : Vec × Vec)
    (hg : d.gmcs = []) (hwf : d.WFWeak) (h : unlinkedDataset mi s d = some rp)
    (m i : Nat) (hm : m < d.nModel) (hi : i < d.nGlobal) :
    ∃ ps c r, unlinkedProblems mi d = some ps ∧ ∃ hi' : i < ps.length,
      solveLS s ps[i].reduced.m ps[i].data = some (c, r) ∧ r.length = d.nModel ∧
      rp.1[i * d.nModel + m]? = r[m]? := by
  unfold unlinkedDataset at h
  simp only [hg, List.isEmpty_nil, Bool.not_true, Bool.false_eq_true, if_false] at h
  cases hps : unlinkedProblems mi d with
  | none => simp [hps] at h
  | some ps =>
    simp only [hps] at h
    obtain ⟨hlen, hshape⟩ := Length.problems_shape mi d ps hwf hps
    cases hsols : ps.mapM (fun p => (solveLS s p.reduced.m p.data).map (fun cr => (p, cr))) with
    | none => simp [hsols] at h
    | some sols =>
      simp only [hsols, Option.some.injEq] at h
      subst h
      have hi' : i < ps.length := by omega
      -- position-wise solutions
      have hpos : sols.length = ps.length ∧ ∀ t (h1 : t < ps.length) (h2 : t < sols.length),
          solveLS s ps[t].reduced.m ps[t].data = some sols[t].2 ∧ sols[t].2.2.length = d.nModel := by
        obtain ⟨hl1, hl2⟩ := mapM_getElem _ _ _ hsols
        refine ⟨hl1, ?_⟩
        intro t h1 h2
        have := hl2 t h1 h2
        cases hp : solveLS s ps[t].reduced.m ps[t].data with
        | none => simp [hp] at this
        | some cr =>
          simp only [hp, Option.map_some, Option.some.injEq] at this
          rw [← this]
          refine ⟨rfl, ?_⟩
          have hlen2 := Length.len_solveLS _ _ _ _ hp
          obtain ⟨a1, a2⟩ := hshape ps[t] (List.getElem_mem h1)
          simp only
          omega
      obtain ⟨hsl, hsget⟩ := hpos
      have hi2 : i < sols.length := by omega
      obtain ⟨hs1, hs2⟩ := hsget i hi' hi2
      refine ⟨ps, sols[i].2.1, sols[i].2.2, rfl, hi', hs1, hs2, ?_⟩
      have := flatMap_getElem?_offset sols (fun pc => pc.2.2) (fun _ => d.nModel) (by
        intro pc hpc
        obtain ⟨t, ht, rfl⟩ := List.getElem_of_mem hpc
        exact (hsget t (by omega) ht).2) i hi2 m hm
      rw [Length.sum_map_const, List.length_take, Nat.min_eq_left (by omega)] at this
      exact this

/-- **What sits at `posUnlinked g k m i`**: row `m` of the residual of the least-squares problem of global
    index `i` of dataset `k`, whose data vector is column `i` of that dataset's weighted data. -/
theorem residual_entry_unlinked (mi : ModelItems) (g : Group) (res pens : Vec)
    (hl : g.linked = false) (hg : ∀ d ∈ g.datasets, d.gmcs = []) (hwf : ∀ d ∈ g.datasets, d.WFWeak)
    (h : groupPenaltyParts mi g = some (res, pens)) (k m i : Nat) (hv : ValidPoint g k m i) :
    ∃ hk : k < g.datasets.length, ∃ ps c r, unlinkedProblems mi g.datasets[k] = some ps ∧ ∃ hi' : i < ps.length,
      solveLS g.solver ps[i].reduced.m ps[i].data = some (c, r) ∧
      ps[i].data = col g.datasets[k].weightedData i ∧ m < r.length ∧
      res[posUnlinked g k m i]? = r[m]? := by
  obtain ⟨hk, hm, hi⟩ := hv
  refine ⟨hk, ?_⟩
  unfold groupPenaltyParts at h
  simp only [hl, Bool.false_eq_true, if_false] at h
  cases hparts : g.datasets.mapM (unlinkedDataset mi g.solver) with
  | none => simp [hparts] at h
  | some parts =>
    simp only [hparts, Option.map_some, Option.some.injEq, Prod.mk.injEq] at h
    obtain ⟨rfl, _⟩ := h
    have hmap := Length.mapM_option_map_eq _ (fun rp : Vec × Vec => rp.1.length)
      (fun d : Dataset => d.nModel * d.nGlobal) g.datasets parts hparts
      (fun d hd rp hrp => Length.unlinkedDataset_length mi g.solver d rp (hg d hd) (hwf d hd) hrp)
    have hlenp : parts.length = g.datasets.length := by
      have := congrArg List.length hmap; simpa using this
    have hk' : k < parts.length := by omega
    -- dataset k's part
    have hpk : unlinkedDataset mi g.solver g.datasets[k] = some parts[k] :=
      (mapM_getElem _ _ _ hparts).2 k hk hk'
    have hd := List.getElem_mem hk
    obtain ⟨ps, c, r, hps, hi', hsol, hrlen, hentry⟩ :=
      unlinkedDataset_entry mi g.solver g.datasets[k] parts[k] (hg _ hd) (hwf _ hd) hpk m i hm hi
    refine ⟨ps, c, r, hps, hi', hsol, ?_, by omega, ?_⟩
    · -- the data vector
      unfold unlinkedProblems at hps
      cases hdm : datasetMatrix g.datasets[k].mcs with
      | none => simp [hdm] at hps
      | some lm =>
        simp only [hdm, Option.some.injEq] at hps
        subst hps
        simp
    · unfold posUnlinked
      rw [getD_eq_getElem_ds g k hk]
      have hlk : (parts[k]).1.length = g.datasets[k].nModel * g.datasets[k].nGlobal := by
        have := congrArg (fun l => l[k]?) hmap
        simpa [List.getElem?_map, List.getElem?_eq_getElem hk', List.getElem?_eq_getElem hk] using this
      have := flatMap_getElem?_offset' parts (fun rp => rp.1) _ hmap k hk'
        (i * g.datasets[k].nModel + m) (by
          rw [hlk]; exact cell_lt _ _ _ _ hm hi)
      rw [this]
      exact hentry

end Glotaran.C02
