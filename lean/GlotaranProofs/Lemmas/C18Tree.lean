/-
C18 — helper lemmas, part (b'): the tree below `results/` (result names with path separators).
-/
import GlotaranModel.C18Tree
import GlotaranProofs.Lemmas.C18
namespace Glotaran.C18

/-! ### entries -/

theorem kindAt_setAt_self (t : RTree) (p : RPath) (k : Kind) : kindAt (setAt t p k) p = some k := by
  simp [setAt, kindAt]

theorem kindAt_filter_ne (t : RTree) (p q : RPath) (h : q ≠ p) :
    kindAt (t.filter (fun e => e.1 ≠ p)) q = kindAt t q := by
  induction t with
  | nil => rfl
  | cons e rest ih =>
    obtain ⟨a, k⟩ := e
    by_cases he : a = p
    · have : a ≠ q := fun h' => h (h'.symm.trans he)
      simp_all [List.filter, kindAt]
    · simp_all [List.filter, kindAt]

theorem kindAt_setAt_ne (t : RTree) (p q : RPath) (k : Kind) (h : q ≠ p) :
    kindAt (setAt t p k) q = kindAt t q := by
  have hpq : p ≠ q := fun h' => h h'.symm
  have := kindAt_filter_ne t p q h
  simp_all [setAt, kindAt]

theorem kindAt_ne_none_of_mem (t : RTree) (p : RPath) (k : Kind) (h : (p, k) ∈ t) : kindAt t p ≠ none := by
  induction t with
  | nil => simp at h
  | cons e rest ih =>
    obtain ⟨a, k'⟩ := e
    by_cases he : a = p
    · simp [kindAt, he]
    · simp only [kindAt, he, if_false]
      apply ih
      simp only [List.mem_cons, Prod.mk.injEq] at h
      rcases h with ⟨h1, _⟩ | h
      · exact absurd h1.symm he
      · exact h

theorem childName_eq_some (q p : RPath) (n : Name) : childName q p = some n ↔ p = q ++ [n] := by
  unfold childName
  constructor
  · intro h
    cases hl : p.getLast? with
    | none => simp [hl] at h
    | some m =>
      simp only [hl] at h
      split at h
      · next hd =>
        simp only [Option.some.injEq] at h
        subst h
        obtain ⟨ys, hys⟩ := List.getLast?_eq_some_iff.mp hl
        subst hys
        simp at hd
        simp [hd]
      · simp at h
  · intro h
    subst h
    simp

theorem childName_self (q : RPath) (n : Name) : childName q (q ++ [n]) = some n :=
  (childName_eq_some q _ n).mpr rfl

/-- the listing of a folder is the tree restricted to its direct children -/
theorem kindOf_listing (t : RTree) (q : RPath) (n : Name) : kindOf (listing t q) n = kindAt t (q ++ [n]) := by
  induction t with
  | nil => rfl
  | cons e rest ih =>
    obtain ⟨a, k⟩ := e
    by_cases he : a = q ++ [n]
    · subst he
      simp [listing, childName_self, kindOf, kindAt]
    · simp only [kindAt, he, if_false]
      rw [← ih]
      cases hc : childName q a with
      | none => simp [listing, hc]
      | some m =>
        have hm : a = q ++ [m] := (childName_eq_some q a m).mp hc
        have hmn : m ≠ n := by intro h'; subst h'; exact he hm
        simp [listing, hc, kindOf, hmn]

theorem listing_eq_nil (t : RTree) (q : RPath) (h : ∀ n, kindAt t (q ++ [n]) = none) : listing t q = [] := by
  unfold listing
  rw [List.filterMap_eq_nil_iff]
  intro e he
  cases hc : childName q e.1 with
  | none => rfl
  | some m =>
    exfalso
    have hm : e.1 = q ++ [m] := (childName_eq_some q e.1 m).mp hc
    have := kindAt_ne_none_of_mem t e.1 e.2 he
    rw [hm] at this
    exact this (h m)

theorem listing_filter (t : RTree) (q : RPath) (n : Name) :
    listing (t.filter (fun e => e.1 ≠ q ++ [n])) q = (listing t q).filter (fun e => e.name ≠ n) := by
  induction t with
  | nil => rfl
  | cons e rest ih =>
    obtain ⟨a, k⟩ := e
    by_cases he : a = q ++ [n]
    · subst he
      have : listing ((q ++ [n], k) :: rest) q = ⟨n, k⟩ :: listing rest q := by
        simp [listing, childName_self]
      rw [this]
      simp only [List.filter, ne_eq, not_true_eq_false, decide_false]
      exact ih
    · cases hc : childName q a with
      | none =>
        have h1 : listing ((a, k) :: rest) q = listing rest q := by simp [listing, hc]
        have h2 : listing ((a, k) :: rest.filter (fun e => e.1 ≠ q ++ [n])) q
            = listing (rest.filter (fun e => e.1 ≠ q ++ [n])) q := by simp [listing, hc]
        simp only [List.filter, ne_eq, he, not_false_eq_true, decide_true]
        rw [h1, h2]; exact ih
      | some m =>
        have hm : a = q ++ [m] := (childName_eq_some q a m).mp hc
        have hmn : m ≠ n := by intro h'; subst h'; exact he hm
        have h1 : listing ((a, k) :: rest) q = ⟨m, k⟩ :: listing rest q := by simp [listing, hc]
        have h2 : listing ((a, k) :: rest.filter (fun e => e.1 ≠ q ++ [n])) q
            = ⟨m, k⟩ :: listing (rest.filter (fun e => e.1 ≠ q ++ [n])) q := by simp [listing, hc]
        simp only [List.filter, ne_eq, he, not_false_eq_true, decide_true]
        rw [h1, h2, ih]
        simp [List.filter, hmn]

/-- writing the entry `q / n` is `setEntry` in the listing of `q` -/
theorem listing_setAt_child (t : RTree) (q : RPath) (n : Name) (k : Kind) :
    listing (setAt t (q ++ [n]) k) q = setEntry (listing t q) n k := by
  have h := listing_filter t q n
  unfold setAt setEntry
  have : listing ((q ++ [n], k) :: t.filter (fun e => e.1 ≠ q ++ [n])) q
      = ⟨n, k⟩ :: listing (t.filter (fun e => e.1 ≠ q ++ [n])) q := by simp [listing, childName_self]
  rw [this, h]

/-! ### folders -/

theorem dirChain_congr (t t' : RTree) (done : RPath) (todo : List Name)
    (h : ∀ p, p.length ≤ (done ++ todo).length → kindAt t' p = kindAt t p) :
    dirChain t' done todo = dirChain t done todo := by
  induction todo generalizing done with
  | nil => rfl
  | cons c cs ih =>
    simp only [dirChain]
    rw [h (done ++ [c]) (by simp), ih (done ++ [c]) (by intro p hp; apply h; simpa using hp)]

theorem mkdirsT_keeps (t t1 : RTree) (done : RPath) (todo : List Name) (h : mkdirsT t done todo = some t1)
    (p : RPath) (k : Kind) (hk : kindAt t p = some k) : kindAt t1 p = some k := by
  induction todo generalizing t done with
  | nil => simp only [mkdirsT, Option.some.injEq] at h; subst h; exact hk
  | cons c cs ih =>
    simp only [mkdirsT] at h
    split at h
    · simp at h
    · exact ih t (done ++ [c]) h hk
    · next hn =>
      apply ih _ (done ++ [c]) h
      rw [kindAt_setAt_ne]
      · exact hk
      · intro hp; subst hp; rw [hn] at hk; simp at hk

theorem mkdirsT_absent_long (t t1 : RTree) (done : RPath) (todo : List Name) (h : mkdirsT t done todo = some t1)
    (p : RPath) (hl : (done ++ todo).length < p.length) (hk : kindAt t p = none) : kindAt t1 p = none := by
  induction todo generalizing t done with
  | nil => simp only [mkdirsT, Option.some.injEq] at h; subst h; exact hk
  | cons c cs ih =>
    simp only [mkdirsT] at h
    have hl' : (done ++ [c] ++ cs).length < p.length := by simpa using hl
    split at h
    · simp at h
    · exact ih t (done ++ [c]) h hl' hk
    · apply ih _ (done ++ [c]) h hl'
      rw [kindAt_setAt_ne]
      · exact hk
      · intro hp; subst hp; simp at hl

theorem isDirKind_some_kept (t t1 : RTree) (p : RPath)
    (hkeep : ∀ k, kindAt t p = some k → kindAt t1 p = some k) (h : isDirKind (kindAt t p) = true) :
    isDirKind (kindAt t1 p) = true := by
  cases hk : kindAt t p with
  | none => simp [hk, isDirKind] at h
  | some k => rw [hkeep k hk]; rw [hk] at h; exact h

theorem mkdirsT_dirChain (t t1 : RTree) (done : RPath) (todo : List Name) (h : mkdirsT t done todo = some t1) :
    dirChain t1 done todo = true := by
  induction todo generalizing t done with
  | nil => rfl
  | cons c cs ih =>
    simp only [mkdirsT] at h
    simp only [dirChain, Bool.and_eq_true]
    split at h
    · simp at h
    · next k hne hk =>
      refine ⟨?_, ih t (done ++ [c]) h⟩
      rw [mkdirsT_keeps t t1 _ cs h _ k hk]
      cases k with
      | file => exact (hne rfl).elim
      | run x => rfl
      | emptyDir => rfl
    · refine ⟨?_, ih _ (done ++ [c]) h⟩
      rw [mkdirsT_keeps _ t1 _ cs h _ .emptyDir (kindAt_setAt_self t _ _)]
      rfl

theorem mkdirsT_of_dirChain (t : RTree) (done : RPath) (todo : List Name) (h : dirChain t done todo = true) :
    mkdirsT t done todo = some t := by
  induction todo generalizing done with
  | nil => rfl
  | cons c cs ih =>
    simp only [dirChain, Bool.and_eq_true] at h
    simp only [mkdirsT]
    cases hk : kindAt t (done ++ [c]) with
    | none => rw [hk] at h; simp [isDirKind] at h
    | some k =>
      cases k with
      | file => rw [hk] at h; simp [isDirKind] at h
      | run x => exact ih _ h.2
      | emptyDir => exact ih _ h.2

/-! ### well-formed trees: every entry lies in a folder -/

def WFTree (t : RTree) : Prop := ∀ q n k, kindAt t (q ++ [n]) = some k → isDirAt t q = true

theorem wfTree_nil : WFTree [] := by intro q n k h; simp [kindAt] at h


theorem kindAt_some_mem (t : RTree) (p : RPath) (k : Kind) (h : kindAt t p = some k) : ∃ e ∈ t, e.1 = p := by
  induction t with
  | nil => simp [kindAt] at h
  | cons e rest ih =>
    obtain ⟨a, k'⟩ := e
    by_cases he : a = p
    · exact ⟨(a, k'), List.mem_cons_self, he⟩
    · simp only [kindAt, he, if_false] at h
      obtain ⟨e, hm, hp⟩ := ih h
      exact ⟨e, List.mem_cons_of_mem _ hm, hp⟩

/-- a decidable check of well-formedness -/
theorem wfTree_of_check (t : RTree) (h : t.all (fun e => isDirAt t e.1.dropLast) = true) : WFTree t := by
  intro q n k hk
  obtain ⟨e, hm, hp⟩ := kindAt_some_mem t _ k hk
  have := List.all_eq_true.mp h e hm
  rw [hp] at this
  simpa using this

/-- the folder the next run of `base` goes to holds no entry of that name yet -/
theorem nextRunPath_absent (t : RTree) (hwf : WFTree t) (base : Name) : kindAt t (nextRunPath t base) = none := by
  unfold nextRunPath nextRunLeaf listingAt
  by_cases hd : isDirAt t (folderOf base) = true
  · simp only [hd, if_true]
    rw [← kindOf_listing]
    exact (kindOf_none_iff _ _).mpr (createRunName_fresh _ _)
  · cases hk : kindAt t (folderOf base ++ [createRunName (if isDirAt t (folderOf base) = true then listing t (folderOf base) else []) (leafOf base)]) with
    | none => rfl
    | some k => exact absurd (hwf _ _ k hk) hd

/-- what `saveT` does on a well-formed tree for an accepted name: the run is stored in a fresh folder unless a plain
    file is in the way of the sub folder -/
theorem saveT_eq (t : RTree) (hwf : WFTree t) (base : Name) (payload : Nat) (hacc : nameRejected base = false) :
    saveT t base payload =
      match mkdirsT t [] (folderOf base) with
      | none => (t, .blocked (nextRunPath t base))
      | some t1 => (setAt t1 (nextRunPath t base) (.run payload), .saved (nextRunPath t base)) := by
  unfold saveT
  simp only [hacc, Bool.false_eq_true, if_false]
  cases hm : mkdirsT t [] (folderOf base) with
  | none => rfl
  | some t1 =>
    have h0 := nextRunPath_absent t hwf base
    have h1 : kindAt t1 (nextRunPath t base) = none :=
      mkdirsT_absent_long t t1 [] _ hm _ (by simp [nextRunPath]) h0
    simp only [h1]

theorem listing_mkdirsT (t t1 : RTree) (hwf : WFTree t) (q : RPath) (hm : mkdirsT t [] q = some t1) :
    listing t1 q = listingAt t q := by
  unfold listingAt
  by_cases hd : isDirAt t q = true
  · have := mkdirsT_of_dirChain t [] q hd
    rw [this] at hm
    simp only [Option.some.injEq] at hm
    subst hm
    simp [hd]
  · simp only [hd]
    apply listing_eq_nil
    intro n
    apply mkdirsT_absent_long t t1 [] q hm _ (by simp)
    cases hk : kindAt t (q ++ [n]) with
    | none => rfl
    | some k => exact absurd (hwf _ _ k hk) hd

/-- **inside its folder the tree registry is the flat registry of part (b)**: the listing of the folder after
    `saveT` is `save` applied to the listing before -/
theorem listing_saveT (t : RTree) (hwf : WFTree t) (base : Name) (payload : Nat) (hacc : nameRejected base = false)
    (t1 : RTree) (hm : mkdirsT t [] (folderOf base) = some t1) :
    listing (saveT t base payload).1 (folderOf base) = (save (listingAt t (folderOf base)) (leafOf base) payload).1 := by
  rw [saveT_eq t hwf base payload hacc, hm, save_eq]
  simp only [nextRunPath, nextRunLeaf]
  rw [listing_setAt_child, listing_mkdirsT t t1 hwf _ hm]

theorem isDirAt_saveT (t : RTree) (hwf : WFTree t) (base : Name) (payload : Nat) (hacc : nameRejected base = false)
    (t1 : RTree) (hm : mkdirsT t [] (folderOf base) = some t1) :
    isDirAt (saveT t base payload).1 (folderOf base) = true := by
  rw [saveT_eq t hwf base payload hacc, hm]
  simp only
  unfold isDirAt
  rw [dirChain_congr t1 _ [] (folderOf base)]
  · exact mkdirsT_dirChain t t1 [] _ hm
  · intro p hp
    apply kindAt_setAt_ne
    intro h
    rw [h] at hp
    simp [nextRunPath] at hp
    omega


/-! ### well-formedness is kept -/

theorem dirChain_append (t : RTree) (done : RPath) (a b : List Name) :
    dirChain t done (a ++ b) = (dirChain t done a && dirChain t (done ++ a) b) := by
  induction a generalizing done with
  | nil => simp [dirChain]
  | cons c cs ih =>
    simp only [List.cons_append, dirChain, ih, Bool.and_assoc]
    simp

theorem dirChain_mono (t t' : RTree) (hm : ∀ p, isDirKind (kindAt t p) = true → isDirKind (kindAt t' p) = true)
    (done : RPath) (todo : List Name) (h : dirChain t done todo = true) : dirChain t' done todo = true := by
  induction todo generalizing done with
  | nil => rfl
  | cons c cs ih =>
    simp only [dirChain, Bool.and_eq_true] at h ⊢
    exact ⟨hm _ h.1, ih _ h.2⟩

theorem isDirKind_setAt_mono (t : RTree) (p : RPath) (k : Kind) (hk : isDirKind (some k) = true)
    (hold : kindAt t p = none ∨ isDirKind (kindAt t p) = true) (x : RPath) (h : isDirKind (kindAt t x) = true) :
    isDirKind (kindAt (setAt t p k) x) = true := by
  by_cases hx : x = p
  · subst hx; rw [kindAt_setAt_self]; exact hk
  · rw [kindAt_setAt_ne _ _ _ _ hx]; exact h

/-- adding a folder-like entry inside an existing folder keeps the tree well-formed -/
theorem wfTree_setAt (t : RTree) (hwf : WFTree t) (q : RPath) (n : Name) (k : Kind) (hk : isDirKind (some k) = true)
    (hq : isDirAt t q = true) (hold : kindAt t (q ++ [n]) = none ∨ isDirKind (kindAt t (q ++ [n])) = true) :
    WFTree (setAt t (q ++ [n]) k) := by
  intro q' n' k' h
  have hmono := isDirKind_setAt_mono t (q ++ [n]) k hk hold
  by_cases he : q' ++ [n'] = q ++ [n]
  · have : q' = q := (List.append_inj' he rfl).1
    subst this
    exact dirChain_mono t _ hmono [] _ hq
  · rw [kindAt_setAt_ne _ _ _ _ he] at h
    exact dirChain_mono t _ hmono [] _ (hwf _ _ _ h)

theorem mkdirsT_wf (t t1 : RTree) (done : RPath) (todo : List Name) (hwf : WFTree t) (hd : isDirAt t done = true)
    (h : mkdirsT t done todo = some t1) : WFTree t1 := by
  induction todo generalizing t done with
  | nil => simp only [mkdirsT, Option.some.injEq] at h; subst h; exact hwf
  | cons c cs ih =>
    simp only [mkdirsT] at h
    split at h
    · simp at h
    · next k hne hk =>
      apply ih t (done ++ [c]) hwf _ h
      unfold isDirAt at hd ⊢
      rw [dirChain_append, hd]
      simp only [dirChain, List.nil_append, Bool.and_true, Bool.true_and]
      rw [hk]
      cases k with
      | file => exact (hne rfl).elim
      | run x => rfl
      | emptyDir => rfl
    · next hn =>
      have hwf2 := wfTree_setAt t hwf done c .emptyDir rfl hd (Or.inl hn)
      apply ih _ (done ++ [c]) hwf2 _ h
      unfold isDirAt at hd ⊢
      rw [dirChain_append]
      have hmono := isDirKind_setAt_mono t (done ++ [c]) .emptyDir rfl (Or.inl hn)
      rw [dirChain_mono t _ hmono [] done hd]
      simp only [dirChain, List.nil_append, Bool.and_true, Bool.true_and]
      rw [kindAt_setAt_self]; rfl

theorem saveT_wf (t : RTree) (hwf : WFTree t) (base : Name) (payload : Nat) : WFTree (saveT t base payload).1 := by
  by_cases hacc : nameRejected base = false
  · rw [saveT_eq t hwf base payload hacc]
    cases hm : mkdirsT t [] (folderOf base) with
    | none => exact hwf
    | some t1 =>
      simp only
      have hwf1 := mkdirsT_wf t t1 [] _ hwf rfl hm
      have h1 : kindAt t1 (nextRunPath t base) = none :=
        mkdirsT_absent_long t t1 [] _ hm _ (by simp [nextRunPath]) (nextRunPath_absent t hwf base)
      exact wfTree_setAt t1 hwf1 _ _ _ rfl (mkdirsT_dirChain t t1 [] _ hm) (Or.inl h1)
  · simp only [Bool.not_eq_false] at hacc
    simp [saveT, hacc]; exact hwf

theorem saveAbortedT_wf (t : RTree) (hwf : WFTree t) (base : Name) : WFTree (saveAbortedT t base).1 := by
  by_cases hacc : nameRejected base = false
  · unfold saveAbortedT
    simp only [hacc, Bool.false_eq_true, if_false]
    cases hm : mkdirsT t [] (folderOf base) with
    | none => exact hwf
    | some t1 =>
      have hwf1 := mkdirsT_wf t t1 [] _ hwf rfl hm
      have h1 : kindAt t1 (nextRunPath t base) = none :=
        mkdirsT_absent_long t t1 [] _ hm _ (by simp [nextRunPath]) (nextRunPath_absent t hwf base)
      simp only [h1]
      exact wfTree_setAt t1 hwf1 _ _ _ rfl (mkdirsT_dirChain t t1 [] _ hm) (Or.inl h1)
  · simp only [Bool.not_eq_false] at hacc
    simp [saveAbortedT, hacc]; exact hwf


/-! ### after the run folder was made (stored run or aborted save) -/

theorem isDirAt_after (t t1 : RTree) (base : Name) (k : Kind) (hm : mkdirsT t [] (folderOf base) = some t1) :
    isDirAt (setAt t1 (nextRunPath t base) k) (folderOf base) = true := by
  unfold isDirAt
  rw [dirChain_congr t1 _ [] (folderOf base)]
  · exact mkdirsT_dirChain t t1 [] _ hm
  · intro p hp
    apply kindAt_setAt_ne
    intro h
    rw [h] at hp
    simp [nextRunPath] at hp
    omega

theorem listing_after (t t1 : RTree) (hwf : WFTree t) (base : Name) (k : Kind)
    (hm : mkdirsT t [] (folderOf base) = some t1) :
    listing (setAt t1 (nextRunPath t base) k) (folderOf base)
      = setEntry (listingAt t (folderOf base)) (nextRunLeaf t base) k := by
  simp only [nextRunPath]
  rw [listing_setAt_child, listing_mkdirsT t t1 hwf _ hm]

theorem saveAbortedT_eq (t : RTree) (hwf : WFTree t) (base : Name) (hacc : nameRejected base = false) :
    saveAbortedT t base =
      match mkdirsT t [] (folderOf base) with
      | none => (t, .blocked (nextRunPath t base))
      | some t1 => (setAt t1 (nextRunPath t base) .emptyDir, .blocked (nextRunPath t base)) := by
  unfold saveAbortedT
  simp only [hacc, Bool.false_eq_true, if_false]
  cases hm : mkdirsT t [] (folderOf base) with
  | none => rfl
  | some t1 =>
    have h1 : kindAt t1 (nextRunPath t base) = none :=
      mkdirsT_absent_long t t1 [] _ hm _ (by simp [nextRunPath]) (nextRunPath_absent t hwf base)
    simp only [h1]

theorem nextRunLeaf_eq (t : RTree) (base : Name) : nextRunLeaf t base = runName (leafOf base) (nextRunNumber t base) := by
  unfold nextRunLeaf nextRunNumber createRunName
  cases (previous (listingAt t (folderOf base)) (leafOf base)).getLast? <;> rfl

/-- a folder named like the next run (stored or not) raises the next run number -/
theorem nextRunNumber_after (t t1 : RTree) (hwf : WFTree t) (base : Name) (k : Kind)
    (hm : mkdirsT t [] (folderOf base) = some t1) :
    nextRunNumber t base < nextRunNumber (setAt t1 (nextRunPath t base) k) base := by
  have hl : listingAt (setAt t1 (nextRunPath t base) k) (folderOf base)
      = setEntry (listingAt t (folderOf base)) (nextRunLeaf t base) k := by
    unfold listingAt
    rw [isDirAt_after t t1 base k hm]
    simp only [if_true]
    have := listing_after t t1 hwf base k hm
    unfold listingAt at this
    exact this
  obtain ⟨j, hj, hlt⟩ := createRunName_spec (listingAt (setAt t1 (nextRunPath t base) k) (folderOf base)) (leafOf base)
  have hj' : nextRunLeaf (setAt t1 (nextRunPath t base) k) base = runName (leafOf base) j := hj
  rw [nextRunLeaf_eq] at hj'
  have hjn : nextRunNumber (setAt t1 (nextRunPath t base) k) base = j := runName_inj _ _ _ hj'
  rw [hjn]
  have hmem : nextRunLeaf t base ∈ previous (listingAt (setAt t1 (nextRunPath t base) k) (folderOf base)) (leafOf base) := by
    rw [mem_previous, hl, names_setEntry]
    refine ⟨List.mem_cons_self, ?_⟩
    rw [nextRunLeaf_eq]; exact isRunOf_runName _ _
  have := hlt _ hmem
  rw [nextRunLeaf_eq, runNumber_runName] at this
  exact this

/-! ### pathlib's reading of `f"{base}_run_"` -/

theorem splitOn_ne_nil (c : Char) (s : Name) : splitOn c s ≠ [] := by
  cases s with
  | nil => simp [splitOn]
  | cons x xs =>
    simp only [splitOn]
    split
    · simp
    · split <;> simp

/-- appending text without a separator extends the last piece -/
theorem splitOn_append (c : Char) (a b : Name) (hb : c ∉ b) :
    splitOn c (a ++ b) = (splitOn c a).dropLast ++ [((splitOn c a).getLast?.getD []) ++ b] := by
  induction a with
  | nil =>
    induction b with
    | nil => simp [splitOn]
    | cons x xs ih =>
      have hx : x ≠ c := by intro h; subst h; simp at hb
      have hxs : c ∉ xs := by intro h; exact hb (List.mem_cons_of_mem _ h)
      have := ih hxs
      simp only [List.nil_append] at this ⊢
      simp only [splitOn, hx, if_false, this]
      simp [splitOn]
  | cons x xs ih =>
    simp only [List.cons_append, splitOn]
    by_cases hx : x = c
    · simp only [hx, if_true]
      rw [ih]
      have hne := splitOn_ne_nil c xs
      cases hs : splitOn c xs with
      | nil => exact absurd hs hne
      | cons h rest => simp [List.dropLast, List.getLast?_cons_cons]
        <;> cases rest <;> simp
    · simp only [hx, if_false]
      rw [ih]
      have hne := splitOn_ne_nil c xs
      cases hs : splitOn c xs with
      | nil => exact absurd hs hne
      | cons h rest =>
        cases rest with
        | nil => simp
        | cons r rs => simp [List.getLast?_cons_cons]

end Glotaran.C18
