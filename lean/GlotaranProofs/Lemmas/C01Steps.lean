/-
C01 — lemmas for the interpreter of the regenerated step tables (GlotaranModel/C01Steps.lean):
the normal forms into which `simp` brings the interpreter's and the hand-written model's expressions.
-/
import GlotaranModel.C01Steps
import GlotaranModel.Generated.C01Steps
import GlotaranProofs.Lemmas.C01
namespace Glotaran.C01.Steps
open Glotaran.LinAlg Glotaran.C01

/-- zeroing the block `[0, n)` is the model's `zeroFirst` -/
theorem zeroRange_zero (n : Nat) (v : Vec) : zeroRange 0 n v = zeroFirst n v := by
  simp [zeroRange, zeroFirst]

theorem sequence_map_some {α : Type} (f : α → Rat) (l : List α) :
    sequence (l.map (fun j => some (f j))) = some (l.map f) := by
  induction l with
  | nil => rfl
  | cons x xs ih => simp [sequence, ih]

theorem absQ_zero : absQ 0 = 0 := by simp [absQ]

theorem ncols_map_map (f : Rat → Rat) (a : Mat) : ncols (a.map (fun r => r.map f)) = ncols a := by
  cases a <;> simp [ncols]

/-- `np.abs` commutes with taking a column (also of a ragged list of rows, because `|0| = 0`) -/
theorem col_map_absQ (a : Mat) (j : Nat) : col (a.map (fun r => r.map absQ)) j = (col a j).map absQ := by
  simp only [col, List.map_map]
  apply List.map_congr_left
  intro r _
  simp only [Function.comp]
  conv_lhs => rw [← absQ_zero]
  exact List.getD_map ..

/-- `np.max(np.abs(v), initial=0.0)` is the model's `maxAbs` -/
theorem foldl_max_abs (v : Vec) : List.foldl max 0 (v.map absQ) = maxAbs v := by
  simp [maxAbs, List.foldl_map, absQ]

/-- a factorisation accepted by `isQRof` has the shape of the matrix -/
theorem ncols_qr_of_isQRof (qr : Mat) (tau : Vec) (a : Mat) (h : isQRof qr tau a = true)
    (hn : ncols a ≠ 0) : ncols qr = ncols a := by
  have hq := qrData_of_isQRof qr tau a h
  cases a with
  | nil => simp [ncols] at hn
  | cons r rs =>
    cases qr with
    | nil => have := hq.qrlen; simp at this
    | cons q qs => simpa [ncols] using hq.qrrows q (by simp)

end Glotaran.C01.Steps
