/-
C06 helper lemmas: evaluation of the regenerated descriptors (Generated/C06.lean).
-/
import GlotaranModel.C06
import GlotaranProofs.Lemmas.C06Tables
namespace Glotaran.C06
open Glotaran.LinAlg Glotaran.C02

theorem mapM_some_map {α β : Type} (l : List α) (f : α → Option β) (g : α → β) (h : ∀ x ∈ l, f x = some (g x)) :
    l.mapM f = some (l.map g) := by
  induction l with
  | nil => rfl
  | cons a t ih =>
    rw [List.mapM_cons, h a (by simp), ih (fun x hx => h x (by simp [hx]))]
    rfl

/-- a comprehension over a list attribute without filter -/
theorem eval_comp_attr (e : LEnv) (parts : List LPart) (p : String) (items : List String) (g : String → String)
    (hl : e.lists.lookup p = some items) (hr : ∀ x, renderParts e x parts = some (g x)) :
    (LabelExpr.comp parts (.attr p) none).eval e = some (items.map g) := by
  simp only [LabelExpr.eval, LSrc.items, hl]
  exact mapM_some_map items _ g (fun x _ => hr x)

theorem eval_append (e : LEnv) (a b : LabelExpr) (x y : List String) (ha : a.eval e = some x) (hb : b.eval e = some y) :
    (LabelExpr.append a b).eval e = some (x ++ y) := by
  simp only [LabelExpr.eval, ha, hb]

theorem render_suffix (e : LEnv) (x suffix : String) : renderParts e x [.var, .lit suffix] = some (x ++ suffix) := by
  simp [renderParts]

theorem render_var (e : LEnv) (x : String) : renderParts e x [.var] = some x := by
  simp [renderParts]

theorem lookup_head {β : Type} (k : String) (v : β) (rest : List (String × β)) : ((k, v) :: rest).lookup k = some v := by
  simp [List.lookup]

theorem render_artifact (e : LEnv) (label : String) (he : e.scalars.lookup "self.label" = some label) (x : String) :
    renderParts e x [.lit "coherent_artifact_", .var, .lit "_", .attr "self.label"] =
      some ("coherent_artifact_" ++ x ++ "_" ++ label) := by
  simp only [renderParts, he, Option.map_some]
  simp [String.append_assoc]

/-- a comprehension over `range(1, n + 1)` -/
theorem eval_comp_range1 (e : LEnv) (parts : List LPart) (p : String) (n : Nat) (g : String → String)
    (hl : e.nats.lookup p = some n) (hr : ∀ x, renderParts e x parts = some (g x)) :
    (LabelExpr.comp parts (.range1 p) none).eval e = some ((List.range n).map (fun i => g (toString (i + 1)))) := by
  simp only [LabelExpr.eval, LSrc.items, hl, Option.map_some]
  rw [mapM_some_map _ _ g (fun x _ => hr x), List.map_map]
  rfl

/-! ### the store loop of the no-IRF kernel -/

theorem fillLoop_new (n : Nat) (pairs : List (Rat × Rat)) (idx : Nat) (acc : List Col) :
    fillLoop [⟨.idx, .real, none⟩, ⟨.idxPlusSize "rates", .imag, none⟩] 1 n pairs idx acc =
      some (fillNoIrf n pairs idx acc) := by
  induction pairs generalizing idx acc with
  | nil => rfl
  | cons p rest ih =>
    obtain ⟨f, r⟩ := p
    simp [fillLoop, applyStores, IdxExpr.evalAt, partCol, fillNoIrf, ih]

/-- the loop as it was before fix D5 (`matrix[:, idx + 1] = osc.imag; idx += 2`) -/
theorem fillLoop_old (n : Nat) (pairs : List (Rat × Rat)) (idx : Nat) (acc : List Col) :
    fillLoop [⟨.idx, .real, none⟩, ⟨.idxPlus 1, .imag, none⟩] 2 n pairs idx acc =
      some (fillNoIrfOld pairs idx acc) := by
  induction pairs generalizing idx acc with
  | nil => rfl
  | cons p rest ih =>
    obtain ⟨f, r⟩ := p
    simp [fillLoop, applyStores, IdxExpr.evalAt, partCol, fillNoIrfOld, ih]

theorem concat_cols (pfid : Bool) (pairs : List (Rat × Rat)) :
    ([Part.real, Part.imag].mapM (fun p => pairs.mapM (fun q => partCol pfid p q.1 q.2))).map List.flatten =
      some (pairs.map (fun q => (if pfid then Col.pfidCos q.1 q.2 else Col.oscCos q.1 q.2)) ++
            pairs.map (fun q => (if pfid then Col.pfidSin q.1 q.2 else Col.oscSin q.1 q.2))) := by
  have h1 : pairs.mapM (fun q => partCol pfid .real q.1 q.2) =
      some (pairs.map (fun q => (if pfid then Col.pfidCos q.1 q.2 else Col.oscCos q.1 q.2))) :=
    mapM_some_map pairs _ _ (fun q _ => by cases pfid <;> rfl)
  have h2 : pairs.mapM (fun q => partCol pfid .imag q.1 q.2) =
      some (pairs.map (fun q => (if pfid then Col.pfidSin q.1 q.2 else Col.oscSin q.1 q.2))) :=
    mapM_some_map pairs _ _ (fun q _ => by cases pfid <;> rfl)
  simp [List.mapM_cons, h1, h2]

end Glotaran.C06
