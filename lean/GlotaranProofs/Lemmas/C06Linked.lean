/-
C06 helper lemmas: linked groups.  The stacked matrix of one aligned index (`alignMatrices`) under a permutation of the
datasets: the union label list is permuted, every stacked row keeps its data entry, and the columns follow their labels;
the normal equations do not depend on the order of the rows.
-/
import GlotaranModel.C06
import GlotaranProofs.Lemmas.C02Align
import GlotaranProofs.Lemmas.C06Reorder
import GlotaranProofs.Lemmas.C06LS
namespace Glotaran.C06
open Glotaran.LinAlg Glotaran.C02

/-! ### the union label list -/

theorem unionLabels_perm_lem (ls ls' : List (List String)) (hp : ls'.Perm ls) (hn : ∀ l ∈ ls, l.Nodup) :
    (unionLabels ls').Perm (unionLabels ls) := by
  have hn' : ∀ l ∈ ls', l.Nodup := fun l hl => hn l (hp.subset hl)
  rw [List.perm_ext_iff_of_nodup (unionLabels_nodup_lem ls' hn') (unionLabels_nodup_lem ls hn)]
  intro a
  rw [unionLabels_mem, unionLabels_mem]
  constructor
  · rintro ⟨l, hl, ha⟩; exact ⟨l, hp.subset hl, ha⟩
  · rintro ⟨l, hl, ha⟩; exact ⟨l, hp.symm.subset hl, ha⟩

/-! ### rows expanded to the union labels -/

/-- one row of a block written on the label list `U`: the entry of a label the block does not have is 0 -/
def expand (ls U : List String) (r : Vec) : Vec :=
  U.map (fun l => match ls.idxOf? l with | some j => r.getD j 0 | none => 0)

theorem alignMatrices_rows (bs : List (LMat2 × Rat)) (h : 2 ≤ bs.length) :
    (alignMatrices bs).m =
      bs.flatMap (fun b => (mscale b.2 b.1.m).map (expand b.1.labels (unionLabels (bs.map (·.1.labels))))) := by
  rw [alignMatrices_of_two_le bs h]
  rfl

theorem getD_map_idxOf (U : List String) (f : String → Rat) (l : String) (hl : l ∈ U) :
    (U.map f).getD (U.idxOf l) 0 = f l := by
  have hk : U.idxOf l < U.length := List.idxOf_lt_length_of_mem hl
  simp [List.getD_eq_getElem?_getD, List.getElem?_map, List.getElem?_eq_getElem hk, List.getElem_idxOf hk]

/-- the row written on a sub-list `U'` of the labels is the row written on `U`, re-ordered by label -/
theorem expand_reorder (ls U U' : List String) (hsub : ∀ l ∈ U', l ∈ U) (r : Vec) :
    expand ls U' r = reorderVec U (expand ls U r) U' := by
  simp only [expand, reorderVec]
  apply List.map_congr_left
  intro l hl
  exact (getD_map_idxOf U (fun l => match ls.idxOf? l with | some j => r.getD j 0 | none => 0) l (hsub l hl)).symm

theorem zip_flatMap {α β γ : Type} (xs : List α) (F : α → List β) (G : α → List γ)
    (h : ∀ x ∈ xs, (F x).length = (G x).length) :
    (xs.flatMap F).zip (xs.flatMap G) = xs.flatMap (fun x => (F x).zip (G x)) := by
  induction xs with
  | nil => rfl
  | cons x t ih =>
    simp only [List.flatMap_cons]
    rw [List.zip_append (h x (by simp)), ih (fun y hy => h y (by simp [hy]))]

/-- **the stacked rows with their data entries under a permutation of the datasets**: the same (row, data) pairs, in
    the order of the datasets, every row re-ordered by label -/
theorem alignMatrices_perm_lem (bs bs' : List ((LMat2 × Rat) × Vec)) (hp : bs'.Perm bs) (h2 : 2 ≤ bs.length)
    (hnd : ∀ b ∈ bs, b.1.1.labels.Nodup) (hlen : ∀ b ∈ bs, b.2.length = b.1.1.m.length) :
    (alignMatrices (bs'.map (·.1))).labels.Perm (alignMatrices (bs.map (·.1))).labels ∧
    (alignMatrices (bs.map (·.1))).labels.Nodup ∧
    ((alignMatrices (bs'.map (·.1))).m.zip (bs'.flatMap (·.2))).Perm
      ((reorderCols (alignMatrices (bs.map (·.1))).labels (alignMatrices (bs.map (·.1))).m
          (alignMatrices (bs'.map (·.1))).labels).zip (bs.flatMap (·.2))) := by
  have h2' : 2 ≤ bs'.length := by rw [hp.length_eq]; exact h2
  have hl : 2 ≤ (bs.map (·.1)).length := by simpa using h2
  have hl' : 2 ≤ (bs'.map (·.1)).length := by simpa using h2'
  have hndl : ∀ l ∈ (bs.map (·.1)).map (·.1.labels), l.Nodup := by
    intro l hl0
    simp only [List.map_map, List.mem_map] at hl0
    obtain ⟨b, hb, rfl⟩ := hl0
    exact hnd b hb
  have hU : (unionLabels ((bs.map (·.1)).map (·.1.labels))).Nodup := unionLabels_nodup_lem _ hndl
  have hperm : (unionLabels ((bs'.map (·.1)).map (·.1.labels))).Perm (unionLabels ((bs.map (·.1)).map (·.1.labels))) :=
    unionLabels_perm_lem _ _ ((hp.map _).map _) hndl
  rw [alignMatrices_labels _ hl, alignMatrices_labels _ hl']
  refine ⟨hperm, hU, ?_⟩
  rw [alignMatrices_rows _ hl, alignMatrices_rows _ hl']
  generalize hUe : unionLabels ((bs.map (·.1)).map (·.1.labels)) = U at hU hperm
  generalize hUe' : unionLabels ((bs'.map (·.1)).map (·.1.labels)) = U' at hperm
  simp only [List.flatMap_map]
  have hsub : ∀ l ∈ U', l ∈ U := fun l hl0 => hperm.subset hl0
  -- left: flatMap over bs' of (rows zip data)
  rw [zip_flatMap bs' _ _ (fun b hb => by
    simp [mscale, hlen b (hp.subset hb)])]
  -- right: reorderCols distributes over the blocks
  have hre : reorderCols U (bs.flatMap (fun b => (mscale b.1.2 b.1.1.m).map (expand b.1.1.labels U))) U' =
      bs.flatMap (fun b => (mscale b.1.2 b.1.1.m).map (expand b.1.1.labels U')) := by
    simp only [reorderCols, List.map_flatMap, List.map_map]
    congr 1
    funext b
    apply List.map_congr_left
    intro r _
    simp only [Function.comp]
    have := expand_reorder b.1.1.labels U U' hsub r
    simp only [reorderVec] at this
    exact this.symm
  rw [hre, zip_flatMap bs _ _ (fun b hb => by simp [mscale, hlen b hb])]
  exact hp.flatMap_right _

/-! ### the normal equations do not depend on the order of the rows -/

theorem dot_eq_sum_zip (u v : Vec) : dot u v = ((u.zip v).map (fun p => p.1 * p.2)).sum := by
  induction u generalizing v with
  | nil => simp
  | cons a u ih =>
    cases v with
    | nil => simp
    | cons b v => simp [dot_cons, ih v]

theorem residual_zip (a : Mat) (y c : Vec) :
    residual a y c = (y.zip a).map (fun p => p.1 - dot p.2 c) := by
  simp only [residual, vsub, mulVec, List.zipWith_map_right]
  induction y generalizing a with
  | nil => simp
  | cons yi y ih =>
    cases a with
    | nil => simp
    | cons r a => simp [ih a]

/-- entry `j` of `Aᵀ r` as a sum over the (row, data) pairs -/
theorem gradient_entry (a : Mat) (y c : Vec) (j : Nat) (hy : y.length = a.length) :
    dot (col a j) (residual a y c) = ((a.zip y).map (fun p => p.1.getD j 0 * (p.2 - dot p.1 c))).sum := by
  rw [dot_eq_sum_zip, residual_zip]
  induction a generalizing y with
  | nil => simp [col]
  | cons r a ih =>
    cases y with
    | nil => simp at hy
    | cons yi y =>
      have := ih y (by simpa using hy)
      simp only [col, List.map_cons, List.zip_cons_cons, List.sum_cons] at this ⊢
      rw [this]

theorem ncols_of_zip_perm (a a' : Mat) (y y' : Vec) (n : Nat) (hy : y.length = a.length) (hy' : y'.length = a'.length)
    (hp : (a'.zip y').Perm (a.zip y)) (hne : a ≠ []) (hw : ∀ row ∈ a, row.length = n) :
    ncols a' = n ∧ ncols a = n ∧ a' ≠ [] ∧ ∀ row ∈ a', row.length = n := by
  have hlen : a'.length = a.length := by
    have := hp.length_eq
    simp only [List.length_zip, hy, hy', Nat.min_self] at this
    exact this
  have hne' : a' ≠ [] := by
    intro h; rw [h] at hlen
    exact hne (List.length_eq_zero_iff.mp hlen.symm)
  have hw' : ∀ row ∈ a', row.length = n := by
    intro row hrow
    obtain ⟨i, hi, rfl⟩ := List.getElem_of_mem hrow
    have hiy : i < y'.length := by rw [hy']; exact hi
    have hm : (a'[i], y'[i]) ∈ a'.zip y' := by
      have : (a'.zip y')[i]'(by simp [List.length_zip]; omega) = (a'[i], y'[i]) := by simp
      rw [← this]; exact List.getElem_mem _
    exact hw _ (List.of_mem_zip (hp.subset hm)).1
  exact ⟨ncols_of_rows a' n hne' hw', ncols_of_rows a n hne hw, hne', hw'⟩

/-- **the normal equations are invariant under a simultaneous permutation of rows and data** -/
theorem isNormalSol_rows_perm (a a' : Mat) (y y' c : Vec) (n : Nat) (hy : y.length = a.length) (hy' : y'.length = a'.length)
    (hp : (a'.zip y').Perm (a.zip y)) (hne : a ≠ []) (hw : ∀ row ∈ a, row.length = n) :
    isNormalSol a' y' c = isNormalSol a y c := by
  obtain ⟨hn', hn, _, _⟩ := ncols_of_zip_perm a a' y y' n hy hy' hp hne hw
  simp only [isNormalSol, hn, hn']
  congr 1
  have hg : gradient a' y' c = gradient a y c := by
    simp only [gradient, hn, hn', mulVec, transpose, List.map_map]
    apply List.map_congr_left
    intro j _
    simp only [Function.comp]
    rw [gradient_entry a' y' c j hy', gradient_entry a y c j hy]
    exact rat_sum_perm (hp.map _)
  rw [hg]

/-- every data point keeps its residual -/
theorem residual_pairs_perm (a a' : Mat) (y y' c : Vec) (hp : (a'.zip y').Perm (a.zip y)) :
    ((a'.zip y').map (fun p => p.2 - dot p.1 c)).Perm ((a.zip y).map (fun p => p.2 - dot p.1 c)) :=
  hp.map _

theorem flatMap_length_sum {α β : Type} (xs : List α) (F : α → List β) :
    (xs.flatMap F).length = (xs.map (fun x => (F x).length)).sum := by
  induction xs with
  | nil => rfl
  | cons x t ih => simp [List.flatMap_cons, ih]

theorem stacked_data_length (bs : List ((LMat2 × Rat) × Vec)) (h2 : 2 ≤ bs.length)
    (hlen : ∀ b ∈ bs, b.2.length = b.1.1.m.length) :
    (bs.flatMap (·.2)).length = (alignMatrices (bs.map (·.1))).m.length := by
  rw [alignMatrices_rows_length _ (by simpa using h2), flatMap_length_sum, List.map_map]
  congr 1
  apply List.map_congr_left
  intro b hb
  exact hlen b hb

/-- residual of every data point of the column-re-ordered problem with the re-ordered coefficients -/
theorem residual_pairs_reorder (U U' : List String) (A : Mat) (y c : Vec) (hU : U.Nodup) (hp : U'.Perm U)
    (hw : ∀ row ∈ A, row.length = U.length) (hc : c.length = U.length) :
    ((reorderCols U A U').zip y).map (fun p => p.2 - dot p.1 (reorderVec U c U')) =
      (A.zip y).map (fun p => p.2 - dot p.1 c) := by
  simp only [reorderCols, List.zip_map_left, List.map_map]
  apply List.map_congr_left
  intro p hp0
  simp only [Function.comp, Prod.map, id]
  rw [reorderVec_eq_by, reorder_dot_by U U' p.1 c hU hp (hw _ (List.of_mem_zip hp0).1) hc]

end Glotaran.C06
