/-
C04 — the K-matrix dictionaries of the parallel and sequential megacomplexes and their resolution
to index entries.
-/
import GlotaranProofs.Lemmas.C04Red
namespace Glotaran.C04

variable {F : Type} [Field F]

omit [Field F] in
theorem dictSet_of_not_mem (d : KDict F) (k : Key) (v : F) (h : k ∉ d.map Prod.fst) :
    dictSet d k v = d ++ [(k, v)] := by
  induction d with
  | nil => rfl
  | cons e d ih =>
    simp only [List.map_cons, List.mem_cons, not_or] at h
    simp only [dictSet]
    rw [if_neg (fun he => h.1 he.symm), ih h.2]
    rfl

omit [Field F] in
/-- assigning pairwise distinct keys to an empty dict lists them in order -/
theorem foldl_dictSet_range (n : ℕ) (key : ℕ → Key) (val : ℕ → F)
    (hinj : ∀ a < n, ∀ b < n, key a = key b → a = b) :
    (List.range n).foldl (fun acc i => dictSet acc (key i) (val i)) []
      = (List.range n).map (fun i => (key i, val i)) := by
  induction n with
  | zero => rfl
  | succ n ih =>
    rw [List.range_succ, List.foldl_append, List.map_append,
      ih (fun a ha b hb => hinj a (by omega) b (by omega))]
    simp only [List.foldl_cons, List.foldl_nil, List.map_cons, List.map_nil]
    apply dictSet_of_not_mem
    simp only [List.map_map, List.mem_map, List.mem_range, Function.comp_apply, not_exists, not_and]
    intro i hi heq
    have := hinj i (by omega) n (by omega) heq
    omega

omit [Field F] in
theorem idxOf?_getD_of_nodup (comps : List String) (h : comps.Nodup) (i : ℕ)
    (hi : i < comps.length) : comps.idxOf? (comps.getD i "") = some i := by
  have hget : comps.getD i "" = comps[i] := by simp [List.getD_eq_getElem?_getD, hi]
  rw [hget, List.idxOf?_eq_some_iff]
  refine ⟨hi, rfl, fun j hj heq => ?_⟩
  have := (List.Nodup.getElem_inj_iff h).mp heq
  omega

omit [Field F] in
theorem resolve_map (comps : List String) (l : List ℕ) (key : ℕ → Key) (val : ℕ → F)
    (fi fj : ℕ → ℕ)
    (h : ∀ i ∈ l, comps.idxOf? (key i).1 = some (fi i) ∧ comps.idxOf? (key i).2 = some (fj i)) :
    resolve comps (l.map fun i => (key i, val i))
      = .ok (l.map fun i => (⟨fi i, fj i, val i⟩ : Entry F)) := by
  induction l with
  | nil => rfl
  | cons a l ih =>
    have ha := h a List.mem_cons_self
    have ih' := ih (fun i hi => h i (List.mem_cons_of_mem _ hi))
    unfold resolve at ih' ⊢
    simp only [List.map_cons, List.mapM_cons, ha.1, ha.2, ih']
    rfl

/-! ### entries `⟨ti i, i, v i⟩`, `i < n` (one per donor compartment) -/

/-- the resolved dictionary of both simple megacomplexes: donor `i` feeds compartment `ti i` -/
def colEntries (n : ℕ) (ti : ℕ → ℕ) (v : ℕ → F) : List (Entry F) :=
  (List.range n).map fun i => ⟨ti i, i, v i⟩

theorem reducedAt_append_single (l : List (Entry F)) (e : Entry F) (a b : ℕ) :
    reducedAt (l ++ [e]) a b = if e.to = a ∧ e.frm = b then e.val else reducedAt l a b := by
  simp [reducedAt, List.foldl_append]

theorem reducedAt_colEntries (n : ℕ) (ti : ℕ → ℕ) (v : ℕ → F) (a b : ℕ) :
    reducedAt (colEntries n ti v) a b = if b < n ∧ a = ti b then v b else 0 := by
  induction n with
  | zero => simp [colEntries, reducedAt_nil]
  | succ n ih =>
    unfold colEntries at ih ⊢
    rw [List.range_succ, List.map_append, List.map_cons, List.map_nil, reducedAt_append_single, ih]
    by_cases h : n = b
    · subst h
      by_cases h2 : ti n = a
      · simp [h2]
      · have : ¬ a = ti n := fun h => h2 h.symm
        simp [h2, this]
    · have h' : ¬ (ti n = a ∧ n = b) := fun hh => h hh.2
      rw [if_neg h']
      by_cases hb : b < n
      · simp [hb, Nat.lt_succ_of_lt hb]
      · have : ¬ b < n + 1 := by omega
        simp [hb, this]

omit [Field F] in
theorem keysNodup_colEntries (n : ℕ) (ti : ℕ → ℕ) (v : ℕ → F) : KeysNodup (colEntries n ti v) := by
  unfold KeysNodup colEntries
  rw [List.map_map]
  apply List.Nodup.map_on _ List.nodup_range
  intro a _ b _ h
  simpa [keyOf] using (Prod.mk.inj h).2

theorem fullAt_colEntries_diag (n : ℕ) (ti : ℕ → ℕ) (v : ℕ → F) (hti : ∀ i < n, ti i < n) (b : ℕ)
    (hb : b < n) : fullAt (colEntries n ti v) b b = - v b := by
  rw [fullAt_diag n _ (keysNodup_colEntries n ti v) (by
    intro e he
    simp only [colEntries, List.mem_map, List.mem_range] at he
    obtain ⟨i, hi, rfl⟩ := he
    exact hti i hi) b]
  congr 1
  rw [Finset.sum_eq_single (ti b)]
  · rw [reducedAt_colEntries]; simp [hb]
  · intro a _ ha
    rw [reducedAt_colEntries, if_neg (fun h => ha h.2)]
  · intro h
    exact absurd (Finset.mem_range.mpr (hti b hb)) h

omit [Field F] in
theorem filter_eq_range_length (n t : ℕ) (ht : t < n) :
    ((List.range n).filter (fun a => decide (a = t))).length = 1 := by
  have h1 : (List.range n).filter (fun a => decide (a = t)) = (List.range n).filter (fun a => a == t) := by
    congr 1
  rw [h1, ← List.countP_eq_length_filter, ← List.count.eq_1]
  exact List.count_eq_one_of_mem List.nodup_range (List.mem_range.mpr ht)

/-- `is_sequential` accepts the dictionary of the sequential megacomplex (non-zero rates) -/
theorem isSequential_colEntries [DecidableEq F] (n : ℕ) (v : ℕ → F) (hv : ∀ i < n, v i ≠ 0)
    (j : List F) (hj : isE0 j = true) :
    isSequential n (reducedAt (colEntries n (fun i => min (i + 1) (n - 1)) v)) j = true := by
  rw [isSequential_iff]
  refine ⟨hj, fun i hi => ⟨?_, ?_⟩⟩
  · unfold countNonzeroCol
    have : (List.range n).filter (fun r => decide (reducedAt (colEntries n (fun i => min (i + 1) (n - 1)) v) r i ≠ 0))
        = (List.range n).filter (fun a => decide (a = min (i + 1) (n - 1))) := by
      apply List.filter_congr
      intro a _
      rw [reducedAt_colEntries]
      by_cases h : a = min (i + 1) (n - 1)
      · simp [h, hi, hv i hi]
      · simp [h]
    rw [this]
    exact filter_eq_range_length n _ (by omega)
  · rw [reducedAt_colEntries]
    simp [hi, hv i hi]

/-! ### the two simple megacomplexes, resolved -/

omit [Field F] in
theorem getD_inj_of_nodup (comps : List String) (h : comps.Nodup) (a b : ℕ) (ha : a < comps.length)
    (hb : b < comps.length) (hab : comps.getD a "" = comps.getD b "") : a = b := by
  have h1 : comps.getD a "" = comps[a] := by simp [List.getD_eq_getElem?_getD, ha]
  have h2 : comps.getD b "" = comps[b] := by simp [List.getD_eq_getElem?_getD, hb]
  rw [h1, h2] at hab
  exact (List.Nodup.getElem_inj_iff h).mp hab

/-- `DecayParallelMegacomplex`: dictionary, resolved entries, initial vector -/
theorem parParts_eq (comps : List String) (rs : List F) (hn : comps.Nodup)
    (hl : rs.length = comps.length) :
    parParts comps rs = .ok ⟨comps, parJ comps.length true, parJ comps.length false,
      (List.range comps.length).map (fun i => ((comps.getD i "", comps.getD i ""), rs.getD i 0)),
      colEntries comps.length id (fun i => rs.getD i 0)⟩ := by
  have hd : parDict comps rs = .ok ((List.range comps.length).map
      (fun i => ((comps.getD i "", comps.getD i ""), rs.getD i 0))) := by
    unfold parDict
    rw [if_neg (by omega), foldl_dictSet_range comps.length (fun i => (comps.getD i "", comps.getD i ""))
      (fun i => rs.getD i 0)]
    intro a ha b hb hab
    exact getD_inj_of_nodup comps hn a b ha hb (Prod.mk.inj hab).1
  have hr := resolve_map (F := F) comps (List.range comps.length)
    (fun i => (comps.getD i "", comps.getD i "")) (fun i => rs.getD i 0) id id (by
      intro i hi
      have := idxOf?_getD_of_nodup comps hn i (List.mem_range.mp hi)
      exact ⟨this, this⟩)
  unfold parParts
  rw [hd]
  simp only [bind, Except.bind]
  rw [hr]
  rfl

theorem seqDict_eq (comps : List String) (rs : List F) (hn : comps.Nodup)
    (hl : rs.length = comps.length) (hpos : 0 < comps.length) :
    seqDict comps rs = .ok ((List.range comps.length).map
      (fun i => ((comps.getD (min (i + 1) (comps.length - 1)) "", comps.getD i ""), rs.getD i 0))) := by
  obtain ⟨m, hm⟩ : ∃ m, comps.length = m + 1 := ⟨comps.length - 1, by omega⟩
  have hcl : comps.getLast? = some (comps.getD m "") := by
    rw [List.getLast?_eq_getElem?, hm]
    simp [List.getD_eq_getElem?_getD, hm]
  have hrl : rs.getLast? = some (rs.getD m 0) := by
    rw [List.getLast?_eq_getElem?, hl, hm]
    simp [List.getD_eq_getElem?_getD, hl, hm]
  unfold seqDict
  rw [hcl, hrl]
  simp only
  rw [if_neg (by omega), hm, Nat.add_sub_cancel,
    foldl_dictSet_range m (fun i => (comps.getD (i + 1) "", comps.getD i "")) (fun i => rs.getD i 0)
      (by
        intro a ha b hb hab
        exact getD_inj_of_nodup comps hn a b (by omega) (by omega) (Prod.mk.inj hab).2),
    dictSet_of_not_mem]
  · rw [List.range_succ, List.map_append]
    have h1 : (List.range m).map (fun i => ((comps.getD (i + 1) "", comps.getD i ""), rs.getD i 0))
        = (List.range m).map (fun i => ((comps.getD (min (i + 1) m) "", comps.getD i ""), rs.getD i 0)) := by
      apply List.map_congr_left
      intro i hi
      have : min (i + 1) m = i + 1 := by have := List.mem_range.mp hi; omega
      rw [this]
    rw [h1]
    simp
  · simp only [List.map_map, List.mem_map, List.mem_range, Function.comp_apply, not_exists, not_and]
    intro i hi heq
    have := getD_inj_of_nodup comps hn i m (by omega) (by omega) (Prod.mk.inj heq).2
    omega

/-- `DecaySequentialMegacomplex`: dictionary, resolved entries, initial vector -/
theorem seqParts_eq (comps : List String) (rs : List F) (hn : comps.Nodup)
    (hl : rs.length = comps.length) (hpos : 0 < comps.length) :
    seqParts comps rs = .ok ⟨comps, 1 :: List.replicate (comps.length - 1) 0,
      1 :: List.replicate (comps.length - 1) 0,
      (List.range comps.length).map
        (fun i => ((comps.getD (min (i + 1) (comps.length - 1)) "", comps.getD i ""), rs.getD i 0)),
      colEntries comps.length (fun i => min (i + 1) (comps.length - 1)) (fun i => rs.getD i 0)⟩ := by
  have hr := resolve_map (F := F) comps (List.range comps.length)
    (fun i => (comps.getD (min (i + 1) (comps.length - 1)) "", comps.getD i "")) (fun i => rs.getD i 0)
    (fun i => min (i + 1) (comps.length - 1)) id (by
      intro i hi
      have hi' := List.mem_range.mp hi
      exact ⟨idxOf?_getD_of_nodup comps hn _ (by omega), idxOf?_getD_of_nodup comps hn i hi'⟩)
  unfold seqParts seqJ
  rw [if_neg (by omega), seqDict_eq comps rs hn hl hpos]
  simp only [bind, Except.bind]
  rw [hr]
  rfl

/-! ### `resolve` in general -/

omit [Field F] in
theorem resolve_spec (comps : List String) (m : KDict F) (es : List (Entry F))
    (h : resolve comps m = .ok es) :
    List.Forall₂ (fun (e : Key × F) (r : Entry F) =>
      comps.idxOf? e.1.1 = some r.to ∧ comps.idxOf? e.1.2 = some r.frm ∧ r.val = e.2) m es := by
  induction m generalizing es with
  | nil =>
    simp only [resolve, List.mapM_nil, pure, Except.pure, Except.ok.injEq] at h
    subst h
    exact List.Forall₂.nil
  | cons e m ih =>
    unfold resolve at h ih
    simp only [List.mapM_cons, bind, Except.bind] at h
    split at h
    · exact absurd h (by simp)
    · rename_i r hr
      split at h
      · exact absurd h (by simp)
      · rename_i rest hrest
        simp only [pure, Except.pure, Except.ok.injEq] at h
        subst h
        refine List.Forall₂.cons ?_ (ih rest hrest)
        split at hr
        · rename_i i j hi hj
          simp only [Except.ok.injEq] at hr
          subst hr
          exact ⟨hi, hj, rfl⟩
        · exact absurd hr (by simp)

omit [Field F] in
theorem idxOf?_inj (comps : List String) (a b : String) (i : ℕ) (ha : comps.idxOf? a = some i)
    (hb : comps.idxOf? b = some i) : a = b := by
  obtain ⟨_, h1, _⟩ := List.idxOf?_eq_some_iff.mp ha
  obtain ⟨_, h2, _⟩ := List.idxOf?_eq_some_iff.mp hb
  rw [← h1, ← h2]

omit [Field F] in
theorem forall₂_exists_left {A B : Type} {R : A → B → Prop} {l₁ : List A} {l₂ : List B}
    (h : List.Forall₂ R l₁ l₂) {b : B} (hb : b ∈ l₂) : ∃ a ∈ l₁, R a b := by
  induction h with
  | nil => exact absurd hb (by simp)
  | cons hhead _ ih =>
    rcases List.mem_cons.mp hb with rfl | hb
    · exact ⟨_, List.mem_cons_self, hhead⟩
    · obtain ⟨a, ha, hr⟩ := ih hb
      exact ⟨a, List.mem_cons_of_mem _ ha, hr⟩

omit [Field F] in
/-- a dictionary (unique keys) resolves to entries with unique index keys, all in range -/
theorem resolve_keysNodup (comps : List String) (m : KDict F) (es : List (Entry F))
    (h : resolve comps m = .ok es) (hm : (m.map Prod.fst).Nodup) :
    KeysNodup es ∧ ∀ r ∈ es, r.to < comps.length ∧ r.frm < comps.length := by
  have hspec := resolve_spec comps m es h
  clear h
  induction hspec with
  | nil => exact ⟨List.nodup_nil, fun r hr => absurd hr (by simp)⟩
  | @cons e r m' es' hhead htail ih =>
    have hm' := List.nodup_cons.mp hm
    obtain ⟨ihk, ihr⟩ := ih hm'.2
    constructor
    · unfold KeysNodup
      rw [List.map_cons, List.nodup_cons]
      refine ⟨?_, ihk⟩
      intro hmem
      obtain ⟨r', hr', hkey⟩ := List.mem_map.mp hmem
      obtain ⟨e', he', hrel⟩ := forall₂_exists_left htail hr'
      apply hm'.1
      have hk1 : r'.to = r.to := by simpa [keyOf] using congrArg Prod.fst hkey
      have hk2 : r'.frm = r.frm := by simpa [keyOf] using congrArg Prod.snd hkey
      have e1 : e'.1.1 = e.1.1 := idxOf?_inj comps _ _ r.to (hk1 ▸ hrel.1) hhead.1
      have e2 : e'.1.2 = e.1.2 := idxOf?_inj comps _ _ r.frm (hk2 ▸ hrel.2.1) hhead.2.1
      have : e'.1 = e.1 := Prod.ext e1 e2
      exact List.mem_map.mpr ⟨e', he', this⟩
    · intro r0 hr0
      rcases List.mem_cons.mp hr0 with rfl | hr0
      · exact ⟨(List.idxOf?_eq_some_iff.mp hhead.1).1, (List.idxOf?_eq_some_iff.mp hhead.2.1).1⟩
      · exact ihr r0 hr0

omit [Field F] in
/-- transfers between different labels resolve to off-diagonal entries -/
theorem resolve_offdiag (comps : List String) (m : KDict F) (es : List (Entry F))
    (h : resolve comps m = .ok es) (hm : ∀ e ∈ m, e.1.1 ≠ e.1.2) : ∀ r ∈ es, r.to ≠ r.frm := by
  intro r hr heq
  obtain ⟨e, he, h1, h2, _⟩ := forall₂_exists_left (resolve_spec comps m es h) hr
  exact hm e he (idxOf?_inj comps _ _ r.to h1 (heq ▸ h2))

end Glotaran.C04
