/-
C07 — helper lemmas: the real and the complex instance of the model's arithmetic, unfolding
lemmas, list bookkeeping.
-/
import GlotaranModel.C07
import GlotaranModel.Generated.C07Fns
import Mathlib.Analysis.SpecialFunctions.Trigonometric.Deriv
import Mathlib.Analysis.SpecialFunctions.ExpDeriv
import Mathlib.Analysis.SpecialFunctions.Log.Deriv
import Mathlib.Analysis.SpecialFunctions.Sqrt
import Mathlib.Analysis.Real.Pi.Bounds
import Mathlib.Tactic.Ring
import Mathlib.Tactic.Linarith
import Mathlib.Tactic.FieldSimp
namespace Glotaran.C07

open RNum CNum Filter Topology

/-! ### the real-number instance (real-valued code: artifact, shapes, IRF parameters) -/

noncomputable instance realRNum : RNum ℝ where
  ofRat q := (q : ℝ)
  add a b := a + b
  sub a b := a - b
  mul a b := a * b
  div a b := a / b
  neg a := -a
  abs a := |a|
  exp := Real.exp
  log := Real.log
  pow a n := a ^ n
  fmod a b := a - ⌊a / b⌋ * b
  sqrt2 := Real.sqrt 2
  pi := Real.pi
  ln2 := Real.log 2
  ifLt a b c d := if a < b then c else d
  ifEq a b c d := if a = b then c else d

/-! ### the complex instance (oscillation kernels); a real double is a complex number with
imaginary part 0, comparisons look at real parts (they are only ever applied to real doubles) -/

noncomputable instance complexCNum : CNum ℂ where
  ofRat q := (q : ℂ)
  add a b := a + b
  sub a b := a - b
  mul a b := a * b
  div a b := a / b
  neg a := -a
  abs a := ((|a.re| : ℝ) : ℂ)
  exp := Complex.exp
  log a := ((Real.log a.re : ℝ) : ℂ)
  pow a n := a ^ n
  fmod a b := ((a.re - ⌊a.re / b.re⌋ * b.re : ℝ) : ℂ)
  sqrt2 := ((Real.sqrt 2 : ℝ) : ℂ)
  pi := ((Real.pi : ℝ) : ℂ)
  ln2 := ((Real.log 2 : ℝ) : ℂ)
  ifLt a b c d := if a.re < b.re then c else d
  ifEq a b c d := if a = b then c else d
  I := Complex.I
  re a := ((a.re : ℝ) : ℂ)
  im a := ((a.im : ℝ) : ℂ)

section unfold_real
variable (a b c d : ℝ) (q : Rat) (n : Nat)
@[simp] theorem r_ofRat : (ofRat q : ℝ) = (q : ℝ) := rfl
@[simp] theorem r_add : add a b = a + b := rfl
@[simp] theorem r_sub : sub a b = a - b := rfl
@[simp] theorem r_mul : mul a b = a * b := rfl
@[simp] theorem r_div : div a b = a / b := rfl
@[simp] theorem r_neg : neg a = -a := rfl
@[simp] theorem r_abs : RNum.abs a = |a| := rfl
@[simp] theorem r_exp : RNum.exp a = Real.exp a := rfl
@[simp] theorem r_log : RNum.log a = Real.log a := rfl
@[simp] theorem r_pow : RNum.pow a n = a ^ n := rfl
@[simp] theorem r_sqrt2 : (sqrt2 : ℝ) = Real.sqrt 2 := rfl
@[simp] theorem r_pi : (RNum.pi : ℝ) = Real.pi := rfl
@[simp] theorem r_ln2 : (ln2 : ℝ) = Real.log 2 := rfl
@[simp] theorem r_ifLt : ifLt a b c d = if a < b then c else d := rfl
@[simp] theorem r_ifEq : ifEq a b c d = if a = b then c else d := rfl
@[simp] theorem r_fmod : fmod a b = a - ⌊a / b⌋ * b := rfl
end unfold_real

section unfold_complex
variable (a b c d : ℂ) (q : Rat) (n : Nat)
@[simp] theorem c_ofRat : (ofRat q : ℂ) = (q : ℂ) := rfl
@[simp] theorem c_add : add a b = a + b := rfl
@[simp] theorem c_sub : sub a b = a - b := rfl
@[simp] theorem c_mul : mul a b = a * b := rfl
@[simp] theorem c_div : div a b = a / b := rfl
@[simp] theorem c_neg : neg a = -a := rfl
@[simp] theorem c_abs : RNum.abs a = ((|a.re| : ℝ) : ℂ) := rfl
@[simp] theorem c_exp : RNum.exp a = Complex.exp a := rfl
@[simp] theorem c_log : RNum.log a = ((Real.log a.re : ℝ) : ℂ) := rfl
@[simp] theorem c_pow : RNum.pow a n = a ^ n := rfl
@[simp] theorem c_sqrt2 : (sqrt2 : ℂ) = ((Real.sqrt 2 : ℝ) : ℂ) := rfl
@[simp] theorem c_pi : (RNum.pi : ℂ) = ((Real.pi : ℝ) : ℂ) := rfl
@[simp] theorem c_ln2 : (ln2 : ℂ) = ((Real.log 2 : ℝ) : ℂ) := rfl
@[simp] theorem c_ifLt : ifLt a b c d = if a.re < b.re then c else d := rfl
@[simp] theorem c_ifEq : ifEq a b c d = if a = b then c else d := rfl
@[simp] theorem c_fmod : fmod a b = ((a.re - ⌊a.re / b.re⌋ * b.re : ℝ) : ℂ) := rfl
@[simp] theorem c_I : (CNum.I : ℂ) = Complex.I := rfl
@[simp] theorem c_re : CNum.re a = ((a.re : ℝ) : ℂ) := rfl
@[simp] theorem c_im : CNum.im a = ((a.im : ℝ) : ℂ) := rfl
end unfold_complex

/-! ### `+` and `*` commute in both instances (the law `generated_*_eq_model` is proved under) -/

instance : CommNum ℝ where
  add_comm a b := by simp only [r_add]; ring
  mul_comm a b := by simp only [r_mul]; ring

instance : CommNum ℂ where
  add_comm a b := by simp only [c_add]; ring
  mul_comm a b := by simp only [c_mul]; ring

/-! ### sums -/

theorem sumFrom_real (init : ℝ) (xs : List ℝ) : sumFrom init xs = init + xs.sum := by
  induction xs generalizing init with
  | nil => simp [sumFrom]
  | cons x xs ih =>
    have := ih (init + x)
    simp only [sumFrom, List.foldl_cons, r_add] at this ⊢
    rw [this]; simp [add_assoc]

theorem sumFrom_complex (init : ℂ) (xs : List ℂ) : sumFrom init xs = init + xs.sum := by
  induction xs generalizing init with
  | nil => simp [sumFrom]
  | cons x xs ih =>
    have := ih (init + x)
    simp only [sumFrom, List.foldl_cons, c_add] at this ⊢
    rw [this]; simp [add_assoc]

/-! ### shapes -/

theorem exp_neg_log_two : Real.exp (-Real.log 2) = 1 / 2 := by
  rw [Real.exp_neg, Real.exp_log (by norm_num)]; norm_num

/-- `log(1 + b u) / b → u` as `b → 0` -/
theorem tendsto_log_one_add_mul_div (u : ℝ) :
    Tendsto (fun b : ℝ => Real.log (1 + b * u) / b) (𝓝[≠] 0) (𝓝 u) := by
  have h1 : HasDerivAt (fun b : ℝ => 1 + b * u) u 0 := by
    have := ((hasDerivAt_id' (0 : ℝ)).mul_const u).const_add 1
    simpa using this
  have h2 : HasDerivAt (fun b : ℝ => Real.log (1 + b * u)) u 0 := by
    have := h1.log (by simp)
    simpa using this
  have := hasDerivAt_iff_tendsto_slope.mp h2
  refine this.congr' ?_
  filter_upwards [self_mem_nhdsWithin] with b _
  simp [slope_def_field]

/-! ### coherent artifact -/

theorem artifactGauss_real (c w t : ℝ) :
    artifactGauss c w t = Real.exp (-(t - c) ^ 2 / (2 * w ^ 2)) := by
  simp only [artifactGauss, r_exp, r_div, r_mul, r_ofRat, r_pow, r_sub]
  push_cast
  ring_nf

theorem artifactGauss_hasDeriv (c w s : ℝ) (hw : w ≠ 0) :
    HasDerivAt (fun s => artifactGauss c w s) (artifactGauss c w s * ((c - s) / w ^ 2)) s := by
  have h0 : HasDerivAt (fun s : ℝ => (s - c) ^ 2) (2 * (s - c)) s := by
    have := ((hasDerivAt_id' s).sub_const c).pow 2
    exact this.congr_deriv (by simp)
  have h1 : HasDerivAt (fun s : ℝ => -(s - c) ^ 2 / (2 * w ^ 2)) ((c - s) / w ^ 2) s := by
    have := (h0.neg).div_const (2 * w ^ 2)
    exact this.congr_deriv (by field_simp; ring)
  have := h1.exp
  simp only [artifactGauss_real]
  exact this

/-! ### damped oscillation without IRF -/

theorem angular_complex (ν : ℝ) : angular (ν : ℂ) = ((ν * (3 / 100) * 2 * Real.pi : ℝ) : ℂ) := by
  simp only [angular, c_mul, c_ofRat, c_pi]
  push_cast
  ring

theorem frequencyMax_complex (dmin : ℝ) :
    frequencyMax (dmin : ℂ) = ((1 / (2 * (3 / 100) * dmin) : ℝ) : ℂ) := by
  simp only [frequencyMax, c_mul, c_ofRat, c_div]
  push_cast
  ring

theorem oscFrequency_below (dmin ν : ℝ) (h : ν * (3 / 100) * 2 * Real.pi < 1 / (2 * (3 / 100) * dmin)) :
    oscFrequency (dmin : ℂ) (ν : ℂ) = ((ν * (3 / 100) * 2 * Real.pi : ℝ) : ℂ) := by
  simp only [oscFrequency, wrap, c_ifLt, angular_complex, frequencyMax_complex, Complex.ofReal_re]
  rw [if_pos h]

theorem oscNoIrf_complex (γ ω t : ℝ) :
    oscNoIrf (γ : ℂ) (ω : ℂ) (t : ℂ) = Complex.exp (-((γ : ℂ) + ω * Complex.I) * t) := by
  simp only [oscNoIrf, c_exp, c_sub, c_mul, c_neg, c_I]
  congr 1
  ring

theorem oscNoIrf_re_im (γ ω t : ℝ) :
    (oscNoIrf (γ : ℂ) (ω : ℂ) (t : ℂ)).re = Real.exp (-γ * t) * Real.cos (ω * t) ∧
    (oscNoIrf (γ : ℂ) (ω : ℂ) (t : ℂ)).im = -(Real.exp (-γ * t) * Real.sin (ω * t)) := by
  rw [oscNoIrf_complex]
  have hz : -((γ : ℂ) + ω * Complex.I) * t = ((-γ * t : ℝ) : ℂ) + ((-(ω * t) : ℝ) : ℂ) * Complex.I := by
    push_cast; ring
  rw [hz, Complex.exp_add_mul_I]
  constructor
  · simp only [Complex.add_re, Complex.mul_re, Complex.I_re, Complex.I_im, Complex.exp_ofReal_re,
      Complex.exp_ofReal_im, Complex.cos_ofReal_re, Complex.sin_ofReal_re, Complex.cos_ofReal_im,
      Complex.sin_ofReal_im, Complex.mul_im, Complex.add_im]
    simp [Real.cos_neg]
  · simp only [Complex.add_re, Complex.mul_re, Complex.I_re, Complex.I_im, Complex.exp_ofReal_re,
      Complex.exp_ofReal_im, Complex.cos_ofReal_re, Complex.sin_ofReal_re, Complex.cos_ofReal_im,
      Complex.sin_ofReal_im, Complex.mul_im, Complex.add_im]
    simp [Real.sin_neg]

/-! ### the witness of the frequency wrap (note N1) -/

theorem deltaMin_witness : deltaMin ([0, 1, 2] : List ℂ) = some 1 := by
  simp [deltaMin, deltas, minOf]
  norm_num

theorem floor_witness : ⌊(100 * (3 / 100) * 2 * Real.pi) / (1 / (2 * (3 / 100) * 1))⌋ = (1 : ℤ) := by
  rw [Int.floor_eq_iff]
  have h1 := Real.pi_gt_d2
  have h2 := Real.pi_lt_d2
  constructor <;> norm_num <;> nlinarith

/-- the wrapped frequency of ν = 100 cm⁻¹ on a 1 ps grid is `6π - 50/3` -/
theorem oscFrequency_witness :
    oscFrequency (1 : ℂ) (100 : ℂ) = ((6 * Real.pi - 50 / 3 : ℝ) : ℂ) := by
  have ha := angular_complex 100
  have hf := frequencyMax_complex 1
  simp only [Complex.ofReal_ofNat, Complex.ofReal_one] at ha hf
  simp only [oscFrequency, wrap, c_ifLt, c_fmod, ha, hf, Complex.ofReal_re]
  have h1 := Real.pi_gt_d2
  rw [if_neg (by norm_num; nlinarith), floor_witness]
  congr 1
  push_cast
  ring

theorem cos_witness_ne_one : Real.cos ((6 * Real.pi - 50 / 3) * 1) ≠ 1 := by
  intro h
  rw [Real.cos_eq_one_iff] at h
  obtain ⟨n, hn⟩ := h
  have h1 := Real.pi_gt_d2
  have h2 := Real.pi_lt_d2
  rcases le_or_gt n 0 with hle | hgt
  · have : (n : ℝ) ≤ 0 := by exact_mod_cast hle
    nlinarith
  · have : (1 : ℝ) ≤ n := by exact_mod_cast hgt
    nlinarith

/-! ### the IRF kernel as a function of complex time -/

theorem sqrt2_sq_complex : (((Real.sqrt 2 : ℝ) : ℂ)) ^ 2 = 2 := by
  rw [← Complex.ofReal_pow, Real.sq_sqrt (by norm_num)]; norm_num

/-- the kernel as a function of a complex time -/
theorem irfKernel_hasDerivAt_complex (erf : ℂ → ℂ) (γ ω w : ℝ) (hw : w ≠ 0) (flip : Bool)
    (herf : ∀ z, HasDerivAt erf (2 / (Real.sqrt Real.pi : ℂ) * Complex.exp (-z ^ 2)) z) (z : ℂ) :
    HasDerivAt (fun z : ℂ => irfKernel erf flip (γ : ℂ) (ω : ℂ) (w : ℂ) z)
      (-((γ : ℂ) + Complex.I * ω) * irfKernel erf flip (γ : ℂ) (ω : ℂ) (w : ℂ) z
        + (if flip then -1 else 1) * (2 / ((Real.sqrt Real.pi : ℂ) * ((Real.sqrt 2 : ℂ) * w)))
            * Complex.exp (-z ^ 2 / (2 * (w : ℂ) ^ 2))) z := by
  set k : ℂ := (γ : ℂ) + Complex.I * ω with hk
  set s : ℂ := (if flip then -((Real.sqrt 2 : ℂ) * w) else (Real.sqrt 2 : ℂ) * w) with hs
  have hs2 : s ^ 2 = 2 * (w : ℂ) ^ 2 := by
    rw [hs]; split <;> (ring_nf; rw [sqrt2_sq_complex]; ring)
  have hsq : (Real.sqrt 2 : ℂ) ≠ 0 := by
    have : (0:ℝ) < Real.sqrt 2 := Real.sqrt_pos.mpr (by norm_num)
    exact_mod_cast this.ne'
  have hwc : (w : ℂ) ≠ 0 := by exact_mod_cast hw
  have hs0 : s ≠ 0 := by
    rw [hs]; split
    · exact neg_ne_zero.mpr (mul_ne_zero hsq hwc)
    · exact mul_ne_zero hsq hwc
  have hK : ∀ z, irfKernel erf flip (γ : ℂ) (ω : ℂ) (w : ℂ) z =
      Complex.exp ((-1 * z + 1 / 2 * (k * (w : ℂ) ^ 2)) * k) * (1 + erf ((z - k * (w : ℂ) ^ 2) / s)) := by
    intro z
    simp only [irfKernel, c_add, c_mul, c_I, c_pow, c_sqrt2, c_exp, c_ofRat, c_div, c_sub, c_neg, hk, hs]
    cases flip <;> simp
  have hA : HasDerivAt (fun z : ℂ => Complex.exp ((-1 * z + 1 / 2 * (k * (w : ℂ) ^ 2)) * k))
      (Complex.exp ((-1 * z + 1 / 2 * (k * (w : ℂ) ^ 2)) * k) * (-1 * k)) z := by
    have h0 : HasDerivAt (fun z : ℂ => (-1 * z + 1 / 2 * (k * (w : ℂ) ^ 2)) * k) (-1 * k) z := by
      have := (((hasDerivAt_id' z).const_mul (-1 : ℂ)).add_const (1 / 2 * (k * (w : ℂ) ^ 2))).mul_const k
      simpa using this
    exact h0.cexp
  have hB : HasDerivAt (fun z : ℂ => 1 + erf ((z - k * (w : ℂ) ^ 2) / s))
      (2 / (Real.sqrt Real.pi : ℂ) * Complex.exp (-((z - k * (w : ℂ) ^ 2) / s) ^ 2) * (1 / s)) z := by
    have h0 : HasDerivAt (fun z : ℂ => (z - k * (w : ℂ) ^ 2) / s) (1 / s) z := by
      have := ((hasDerivAt_id' z).sub_const (k * (w : ℂ) ^ 2)).div_const s
      simpa using this
    have := (herf ((z - k * (w : ℂ) ^ 2) / s)).comp z h0
    exact this.const_add 1
  have hprod := hA.mul hB
  have hfun : (fun z : ℂ => irfKernel erf flip (γ : ℂ) (ω : ℂ) (w : ℂ) z) =
      fun z => Complex.exp ((-1 * z + 1 / 2 * (k * (w : ℂ) ^ 2)) * k) * (1 + erf ((z - k * (w : ℂ) ^ 2) / s)) := by
    funext z; exact hK z
  rw [hfun]
  refine hprod.congr_deriv ?_
  rw [hK z]
  have hexp : Complex.exp ((-1 * z + 1 / 2 * (k * (w : ℂ) ^ 2)) * k) *
      Complex.exp (-((z - k * (w : ℂ) ^ 2) / s) ^ 2) = Complex.exp (-z ^ 2 / (2 * (w : ℂ) ^ 2)) := by
    rw [← Complex.exp_add]
    congr 1
    rw [div_pow, hs2]
    field_simp
    ring
  have hinv : (1 / s) = (if flip then -1 else 1) * (1 / ((Real.sqrt 2 : ℂ) * w)) := by
    rw [hs]; split <;> field_simp
  calc Complex.exp ((-1 * z + 1 / 2 * (k * (w : ℂ) ^ 2)) * k) * (-1 * k) * (1 + erf ((z - k * (w : ℂ) ^ 2) / s)) +
        Complex.exp ((-1 * z + 1 / 2 * (k * (w : ℂ) ^ 2)) * k) *
          (2 / (Real.sqrt Real.pi : ℂ) * Complex.exp (-((z - k * (w : ℂ) ^ 2) / s) ^ 2) * (1 / s))
      = -k * (Complex.exp ((-1 * z + 1 / 2 * (k * (w : ℂ) ^ 2)) * k) * (1 + erf ((z - k * (w : ℂ) ^ 2) / s))) +
        (2 / (Real.sqrt Real.pi : ℂ)) * (1 / s) * (Complex.exp ((-1 * z + 1 / 2 * (k * (w : ℂ) ^ 2)) * k) *
          Complex.exp (-((z - k * (w : ℂ) ^ 2) / s) ^ 2)) := by ring
    _ = _ := by
      rw [hexp, hinv]
      have hpi : (Real.sqrt Real.pi : ℂ) ≠ 0 := by
        have : (0:ℝ) < Real.sqrt Real.pi := Real.sqrt_pos.mpr Real.pi_pos
        exact_mod_cast this.ne'
      field_simp

/-! ### windows, sums -/

theorem oscIrfGauss_before (erf : ℂ → ℂ) (γ ω shift t : ℂ) (cws : ℂ × ℂ × ℂ) (hγ : ¬ γ.re < 0)
    (h : ¬ ((-5 : ℂ) * cws.2.1).re < (t - (cws.1 - shift)).re) :
    oscIrfGauss erf γ ω shift cws t = 0 := by
  simp only [oscIrfGauss, shiftedTime, c_ifLt, c_ofRat, c_sub, c_mul]
  push_cast
  simp only [Complex.zero_re]
  rw [if_neg hγ, if_neg h]

theorem sum_map_neg_re (l : List ℂ) :
    (l.map (fun z => CNum.re (-z))).sum = -(l.map CNum.re).sum := by
  induction l with
  | nil => simp
  | cons x xs ih =>
    rw [List.map_cons, List.sum_cons, ih, List.map_cons, List.sum_cons]
    simp only [c_re, Complex.neg_re]; push_cast; ring

theorem sum_map_neg_im (l : List ℂ) :
    (l.map (fun z => CNum.im (-z))).sum = -(l.map CNum.im).sum := by
  induction l with
  | nil => simp
  | cons x xs ih =>
    rw [List.map_cons, List.sum_cons, ih, List.map_cons, List.sum_cons]
    simp only [c_im, Complex.neg_im]; push_cast; ring

theorem pfidGauss_eq_neg (erf : ℂ → ℂ) (γ ω shift t : ℂ) (cws : ℂ × ℂ × ℂ) (hγ : γ.re < 0) :
    pfidGauss erf γ ω shift cws t = -oscIrfGauss erf γ ω shift cws t := by
  simp only [pfidGauss, oscIrfGauss, c_ifLt, c_mul, c_neg, c_ofRat]
  push_cast
  simp only [Complex.zero_re]
  rw [if_pos hγ]
  split <;> simp

/-! ### IRF parameters -/

section
variable {α : Type} [RNum α]

theorem baseParameter_shift (irf : Irf α) (i : Nat) (p : IrfPar α)
    (h : irf.baseParameter (some i) = .ok p) :
    (∀ sh, irf.shifts = some sh → sh[i]? = some p.shift) ∧ (irf.shifts = none → p.shift = ofRat 0) ∧
    p.scales = irf.scales.getD (p.centers.map (fun _ => ofRat 1)) := by
  unfold Irf.baseParameter at h
  split at h
  · cases h
  · rename_i cs ws hb
    simp only at h
    split at h
    · cases h
    · cases h
      simp_all
    · rename_i sh hsh
      split at h
      · cases h
        simp_all
      · cases h

end

theorem foldl_add_real {β : Type} (f : β → ℝ) (l : List β) (v : ℝ) :
    l.foldl (fun acc b => add acc (f b)) v = v + (l.map f).sum := by
  induction l generalizing v with
  | nil => simp
  | cons b bs ih =>
    rw [List.foldl_cons, ih, List.map_cons, List.sum_cons, r_add]; ring

/-! ### the loop over global indices -/

theorem mapM_ok {β γ : Type} (f : β → Except Err γ) :
    ∀ (l : List β) (r : List γ), l.mapM f = .ok r →
      r.length = l.length ∧ ∀ i (h : i < l.length) (h' : i < r.length), f l[i] = .ok r[i] := by
  intro l
  induction l with
  | nil =>
    intro r h
    simp only [List.mapM_nil] at h
    cases h
    exact ⟨rfl, fun i h => absurd h (Nat.not_lt_zero i)⟩
  | cons x xs ih =>
    intro r h
    rw [List.mapM_cons] at h
    cases hx : f x with
    | error e => simp [hx] at h; cases h
    | ok y =>
      cases hxs : xs.mapM f with
      | error e => simp [hx, hxs] at h; cases h
      | ok ys =>
        simp [hx, hxs] at h
        cases h
        obtain ⟨hl, hi⟩ := ih ys hxs
        refine ⟨by simp [hl], ?_⟩
        intro i h h'
        cases i with
        | zero => simpa using hx
        | succ j =>
          simp only [List.getElem_cons_succ]
          exact hi j (by simpa using h) (by simpa using h')

theorem forIndices_ok {γ : Type} (n : Nat) (f : Nat → Except Err γ) (r : List γ)
    (h : forIndices n f = .ok r) :
    r.length = n ∧ ∀ i (_ : i < n) (h' : i < r.length), f i = .ok r[i] := by
  obtain ⟨hl, hi⟩ := mapM_ok f (List.range n) r h
  refine ⟨by simpa using hl, ?_⟩
  intro i hin h'
  have := hi i (by simpa using hin) h'
  simpa using this

theorem except_map_ok {β γ : Type} (g : β → γ) (x : Except Err β) (y : γ) (h : x.map g = .ok y) :
    ∃ p, x = .ok p ∧ y = g p := by
  cases x with
  | error e => cases h
  | ok p => exact ⟨p, rfl, by cases h; rfl⟩

theorem oscIrfGauss_after (erf : ℂ → ℂ) (γ ω shift t : ℂ) (cws : ℂ × ℂ × ℂ) (hγ : γ.re < 0)
    (h : ¬ (t - (cws.1 - shift)).re < ((5 : ℂ) * cws.2.1).re) :
    oscIrfGauss erf γ ω shift cws t = 0 ∧ pfidGauss erf γ ω shift cws t = 0 := by
  simp only [oscIrfGauss, pfidGauss, shiftedTime, c_ifLt, c_ofRat, c_sub, c_mul]
  push_cast
  simp only [Complex.zero_re]
  rw [if_pos hγ, if_neg h, if_neg h]
  exact ⟨rfl, rfl⟩

/-! ### spectral dataset matrix: columns by label, combination of megacomplex matrices -/
theorem columnOf_map (sh : List (String × Shape ℝ)) (f : Shape ℝ → ℝ) (lab : String) :
    columnOf (sh.map (·.1), sh.map (fun s => f s.2)) lab = (sh.lookup lab).map f := by
  induction sh with
  | nil => simp [columnOf]
  | cons a as ih =>
    obtain ⟨k, v⟩ := a
    simp only [columnOf] at ih
    simp only [columnOf, List.map_cons, List.zip_cons_cons, List.lookup_cons]
    cases h : lab == k
    · simpa using ih
    · simp

theorem columnOf_labels_map (labels : List String) (f : String → ℝ) (lab : String) :
    columnOf (labels, labels.map f) lab = if lab ∈ labels then some (f lab) else none := by
  induction labels with
  | nil => simp [columnOf]
  | cons a as ih =>
    simp only [columnOf, List.map_cons, List.zip_cons_cons, List.lookup_cons] at ih ⊢
    by_cases h : lab = a
    · subst h; simp
    · have : (lab == a) = false := by simpa using h
      simp [this, h, ih]

/-- value of the column of a label, 0 if the label does not occur -/
noncomputable def valueOf (m : List String × List ℝ) (lab : String) : ℝ := (columnOf m lab).getD 0

theorem valueOf_combineFlat (l r : List String × List ℝ) (lab : String) :
    valueOf (combineFlat l r) lab = valueOf l lab + valueOf r lab := by
  unfold valueOf combineFlat
  simp only []
  rw [columnOf_labels_map]
  by_cases h1 : lab ∈ l.1
  · have : lab ∈ l.1 ++ List.filter (fun c => !l.1.contains c) r.1 := List.mem_append_left _ h1
    rw [if_pos this]
    cases hcl : columnOf l lab <;> cases hcr : columnOf r lab <;> simp
  · by_cases h2 : lab ∈ r.1
    · have : lab ∈ l.1 ++ List.filter (fun c => !l.1.contains c) r.1 := by
        apply List.mem_append_right
        simp [List.mem_filter, h2, h1]
      rw [if_pos this]
      cases hcl : columnOf l lab <;> cases hcr : columnOf r lab <;> simp
    · have : lab ∉ l.1 ++ List.filter (fun c => !l.1.contains c) r.1 := by
        simp [List.mem_filter, h1, h2]
      rw [if_neg this]
      have e1 : columnOf l lab = none := by
        unfold columnOf
        rw [List.lookup_eq_none_iff]
        intro p hp
        have := (List.of_mem_zip hp).1
        rw [bne_iff_ne]; intro hh; apply h1; rw [hh]; exact this
      have e2 : columnOf r lab = none := by
        unfold columnOf
        rw [List.lookup_eq_none_iff]
        intro p hp
        have := (List.of_mem_zip hp).1
        rw [bne_iff_ne]; intro hh; apply h2; rw [hh]; exact this
      simp [e1, e2]

theorem valueOf_foldl (m : List String × List ℝ) (rest : List (List String × List ℝ)) (lab : String) :
    valueOf (rest.foldl combineFlat m) lab = valueOf m lab + (rest.map (fun r => valueOf r lab)).sum := by
  induction rest generalizing m with
  | nil => simp
  | cons r rs ih =>
    rw [List.foldl_cons, ih, valueOf_combineFlat, List.map_cons, List.sum_cons]; ring


/-! ### accumulation over the Gaussians of the IRF -/

theorem foldl_pair {β : Type} (l : List β) (f g : β → ℂ) (a b : ℂ) :
    l.foldl (fun (acc : ℂ × ℂ) x => (add acc.1 (f x), add acc.2 (g x))) (a, b) =
      (l.foldl (fun acc x => add acc (f x)) a, l.foldl (fun acc x => add acc (g x)) b) := by
  induction l generalizing a b with
  | nil => rfl
  | cons x xs ih => simp only [List.foldl_cons, ih]

theorem sumFrom_map {β : Type} (l : List β) (h : β → ℂ) (init : ℂ) :
    sumFrom init (l.map h) = l.foldl (fun acc x => add acc (h x)) init := by
  simp only [sumFrom, List.foldl_map]

end Glotaran.C07
