/-
C01 — bridge between the executable list definitions (`Glotaran.LinAlg`, `Glotaran.C01`) and
Mathlib's `Matrix` / `dotProduct` over ℚ, and the list-level consequences of `Lemmas/C01Abs.lean`.
Helper lemmas only.
-/
import GlotaranModel.C01
import GlotaranProofs.Lemmas.LinAlg
import GlotaranProofs.Lemmas.C01Abs
import Mathlib.Algebra.Order.Ring.Rat
import Mathlib.Algebra.Field.Rat
import Mathlib.Algebra.BigOperators.Fin
import Mathlib.Data.List.GetD
namespace Glotaran.C01
open Glotaran.LinAlg
open scoped Matrix

/-- a list as a vector indexed by `Fin k` (entries beyond the list are 0) -/
def toV (k : Nat) (l : Vec) : Fin k → ℚ := fun i => l.getD i 0

/-- a list of rows as an `m × n` matrix -/
def toM (m n : Nat) (a : Mat) : Matrix (Fin m) (Fin n) ℚ := Matrix.of fun i j => (a.getD i []).getD j 0

@[simp] theorem toV_apply (k : Nat) (l : Vec) (i : Fin k) : toV k l i = l.getD i 0 := rfl
@[simp] theorem toM_apply (m n : Nat) (a : Mat) (i : Fin m) (j : Fin n) :
    toM m n a i j = (a.getD i []).getD j 0 := rfl

/-! ### vectors -/

theorem dot_eq (a b : Vec) (k : Nat) (ha : a.length = k) : dot a b = toV k a ⬝ᵥ toV k b := by
  induction a generalizing b k with
  | nil =>
    subst ha
    simp [dotProduct]
  | cons x a ih =>
    cases k with
    | zero => simp at ha
    | succ k =>
      have ha' : a.length = k := by simpa using ha
      cases b with
      | nil =>
        simp [dotProduct]
      | cons y b =>
        rw [dot_cons, ih b k ha']
        simp [dotProduct, Fin.sum_univ_succ]

theorem dot_eq' (a b : Vec) (k : Nat) (hb : b.length = k) : dot a b = toV k a ⬝ᵥ toV k b := by
  have : dot a b = dot b a := by
    simp only [dot]
    congr 1
    exact List.zipWith_comm_of_comm (fun x y => mul_comm x y)
  rw [this, dot_eq b a k hb, dotProduct_comm]

theorem sumSq_eq (a : Vec) (k : Nat) (ha : a.length = k) : sumSq a = Abs.nsq (toV k a) :=
  dot_eq a a k ha

theorem toV_vsub (a b : Vec) (k : Nat) (ha : a.length = k) (hb : b.length = k) :
    toV k (vsub a b) = toV k a - toV k b := by
  ext i
  have hi : (i : Nat) < k := i.isLt
  simp only [toV_apply, vsub, Pi.sub_apply, List.getD_eq_getElem?_getD, List.getElem?_zipWith]
  have h1 : a[(i : Nat)]? = some (a[(i : Nat)]'(by omega)) := List.getElem?_eq_getElem (by omega)
  have h2 : b[(i : Nat)]? = some (b[(i : Nat)]'(by omega)) := List.getElem?_eq_getElem (by omega)
  rw [h1, h2]
  simp

theorem toV_vscale (c : ℚ) (a : Vec) (k : Nat) : toV k (vscale c a) = c • toV k a := by
  ext i
  simp only [toV_apply, vscale, Pi.smul_apply, smul_eq_mul]
  have := List.getD_map (l := a) (d := (0 : ℚ)) (n := (i : Nat)) (fun x => c * x)
  simpa using this

theorem toV_zeros (k j : Nat) : toV k (zeros j) = 0 := by
  ext i
  simp only [toV_apply, zeros, List.getD_eq_getElem?_getD, List.getElem?_replicate, Pi.zero_apply]
  split <;> rfl

theorem toV_inj (a b : Vec) (k : Nat) (ha : a.length = k) (hb : b.length = k)
    (h : toV k a = toV k b) : a = b := by
  apply List.ext_getElem (by omega)
  intro i h1 h2
  have := congrFun h ⟨i, by omega⟩
  simpa [List.getD_eq_getElem?_getD, List.getElem?_eq_getElem h1, List.getElem?_eq_getElem h2] using this

theorem toV_eq_zero_of_all (l : Vec) (k : Nat) (h : l.all (· == 0) = true) : toV k l = 0 := by
  ext i
  simp only [toV_apply, Pi.zero_apply, List.getD_eq_getElem?_getD]
  cases hl : l[(i : Nat)]? with
  | none => rfl
  | some x =>
    have hx : x ∈ l := List.mem_of_getElem? hl
    have := List.all_eq_true.mp h x hx
    simpa using this

theorem all_zero_of_toV (l : Vec) (k : Nat) (hl : l.length = k) (h : toV k l = 0) :
    l.all (· == 0) = true := by
  rw [List.all_eq_true]
  intro x hx
  obtain ⟨i, hi, rfl⟩ := List.getElem_of_mem hx
  have := congrFun h ⟨i, by omega⟩
  simpa [List.getD_eq_getElem?_getD, List.getElem?_eq_getElem hi] using this

@[simp] theorem vsub_length (a b : Vec) : (vsub a b).length = min a.length b.length := by simp [vsub]
@[simp] theorem vscale_length (c : ℚ) (a : Vec) : (vscale c a).length = a.length := by simp [vscale]
@[simp] theorem mulVec_length (a : Mat) (v : Vec) : (mulVec a v).length = a.length := by simp [mulVec]
@[simp] theorem zeros_length (k : Nat) : (zeros k).length = k := by simp [zeros]
@[simp] theorem transpose_length (a : Mat) (n : Nat) : (transpose a n).length = n := by simp [transpose]
theorem transpose_row_length (a : Mat) (n : Nat) : ∀ r ∈ transpose a n, r.length = a.length := by
  intro r hr
  simp only [transpose, List.mem_map] at hr
  obtain ⟨j, _, rfl⟩ := hr
  simp [col]

/-! ### matrices -/

theorem toV_mulVec (a : Mat) (v : Vec) (m n : Nat) (hm : a.length = m)
    (hr : ∀ r ∈ a, r.length = n) : toV m (mulVec a v) = toM m n a *ᵥ toV n v := by
  ext i
  have hi : (i : Nat) < a.length := by omega
  simp only [toV_apply, mulVec, Matrix.mulVec]
  rw [List.getD_eq_getElem?_getD, List.getElem?_map, List.getElem?_eq_getElem hi]
  simp only [Option.map_some, Option.getD_some]
  rw [dot_eq _ _ n (hr _ (List.getElem_mem hi))]
  congr 1
  ext j
  simp [List.getD_eq_getElem?_getD, List.getElem?_eq_getElem hi]

theorem toM_transpose (a : Mat) (m n : Nat) (hm : a.length = m) :
    toM n m (transpose a n) = (toM m n a)ᵀ := by
  ext j i
  have hi : (i : Nat) < a.length := by omega
  have hj : (j : Nat) < n := j.isLt
  simp only [toM_apply, Matrix.transpose_apply, transpose]
  rw [List.getD_eq_getElem?_getD (l := List.map (col a) (List.range n)), List.getElem?_map,
    List.getElem?_range hj]
  simp only [Option.map_some, Option.getD_some, col]
  rw [List.getD_eq_getElem?_getD, List.getElem?_map, List.getElem?_eq_getElem hi]
  simp [List.getD_eq_getElem?_getD, List.getElem?_eq_getElem hi]

theorem toV_col (a : Mat) (m n : Nat) (hm : a.length = m) (j : Fin n) :
    toV m (col a j) = fun i => toM m n a i j := by
  ext i
  have hi : (i : Nat) < a.length := by omega
  simp only [toV_apply, toM_apply, col]
  rw [List.getD_eq_getElem?_getD, List.getElem?_map, List.getElem?_eq_getElem hi]
  simp [List.getD_eq_getElem?_getD, List.getElem?_eq_getElem hi]

/-! ### least squares on lists -/

/-- well-formed problem: every row of `a` has `ncols a` entries and `y` has one entry per row -/
structure WF (a : Mat) (y : Vec) : Prop where
  rows : ∀ r ∈ a, r.length = ncols a
  ylen : y.length = a.length

theorem toV_residual (a : Mat) (y c : Vec) (h : WF a y) :
    toV a.length (residual a y c) =
      toV a.length y - toM a.length (ncols a) a *ᵥ toV (ncols a) c := by
  unfold residual
  rw [toV_vsub _ _ a.length h.ylen (by simp), toV_mulVec a c a.length (ncols a) rfl h.rows]

theorem toV_gradient (a : Mat) (y c : Vec) (h : WF a y) :
    toV (ncols a) (gradient a y c) =
      Abs.grad (toM a.length (ncols a) a) (toV a.length y) (toV (ncols a) c) := by
  unfold gradient Abs.grad
  rw [toV_mulVec (transpose a (ncols a)) _ (ncols a) a.length (by simp) (transpose_row_length a _),
    toM_transpose a a.length (ncols a) rfl, toV_residual a y c h]

theorem sumSq_residual (a : Mat) (y c : Vec) (h : WF a y) :
    sumSq (residual a y c) =
      Abs.nsq (toV a.length y - toM a.length (ncols a) a *ᵥ toV (ncols a) c) := by
  rw [sumSq_eq _ a.length (by simp [residual, h.ylen]), toV_residual a y c h]

theorem gradient_length (a : Mat) (y c : Vec) : (gradient a y c).length = ncols a := by
  simp [gradient]

/-- full column rank, on lists -/
def FullRank (a : Mat) : Prop :=
  ∀ d : Vec, d.length = ncols a → mulVec a d = zeros a.length → d = zeros (ncols a)

theorem fullRank_abs (a : Mat) (hr : ∀ r ∈ a, r.length = ncols a) (h : FullRank a)
    (d : Fin (ncols a) → ℚ) (hd : toM a.length (ncols a) a *ᵥ d = 0) : d = 0 := by
  -- turn `d` into a list
  set l : Vec := List.ofFn d with hl
  have hlen : l.length = ncols a := by simp [hl]
  have hld : toV (ncols a) l = d := by
    ext i
    simp [hl, List.getD_eq_getElem?_getD]
  have h1 : mulVec a l = zeros a.length := by
    apply toV_inj _ _ a.length (by simp) (by simp)
    rw [toV_mulVec a l a.length (ncols a) rfl hr, hld, hd, toV_zeros]
  have h2 := h l hlen h1
  rw [← hld, h2, toV_zeros]

theorem toV_ne (a b : Vec) (k : Nat) (ha : a.length = k) (hb : b.length = k) (h : a ≠ b) :
    toV k a ≠ toV k b := fun e => h (toV_inj a b k ha hb e)

theorem toV_nonpos_of_all (l : Vec) (k : Nat) (h : l.all (· ≤ 0) = true) (j : Fin k) : toV k l j ≤ 0 := by
  simp only [toV_apply, List.getD_eq_getElem?_getD]
  cases hl : l[(j : Nat)]? with
  | none => simp
  | some x =>
    have hx : x ∈ l := List.mem_of_getElem? hl
    have := List.all_eq_true.mp h x hx
    simpa using this

theorem toV_nonneg_of_all (l : Vec) (k : Nat) (h : ∀ x ∈ l, 0 ≤ x) (j : Fin k) : 0 ≤ toV k l j := by
  simp only [toV_apply, List.getD_eq_getElem?_getD]
  cases hl : l[(j : Nat)]? with
  | none => simp
  | some x => simpa using h x (List.mem_of_getElem? hl)

theorem dot_zero_of_zipWith (c g : Vec) (k : Nat)
    (h : (List.zipWith (· * ·) c g).all (· == 0) = true) : toV k c ⬝ᵥ toV k g = 0 := by
  apply Finset.sum_eq_zero
  intro j _
  simp only [toV_apply, List.getD_eq_getElem?_getD]
  cases hc : c[(j : Nat)]? with
  | none => simp
  | some x =>
    cases hg : g[(j : Nat)]? with
    | none => simp
    | some z =>
      have hz : (List.zipWith (· * ·) c g)[(j : Nat)]? = some (x * z) := by
        simp [List.getElem?_zipWith, hc, hg]
      have := List.all_eq_true.mp h _ (List.mem_of_getElem? hz)
      simpa using this

/-! ### Householder reflectors on lists -/

/-- a list reflector as a Mathlib one -/
def toH (m : Nat) (h : Vec × ℚ) : (Fin m → ℚ) × ℚ := (toV m h.1, h.2)

theorem reflect_length (h : Vec × ℚ) (x : Vec) (m : Nat) (hv : h.1.length = m) (hx : x.length = m) :
    (reflect h x).length = m := by
  simp [reflect, hv, hx]

theorem toV_reflect (h : Vec × ℚ) (x : Vec) (m : Nat) (hv : h.1.length = m) (hx : x.length = m) :
    toV m (reflect h x) = Abs.Hm (toH m h) *ᵥ toV m x := by
  rw [Abs.Hm_mulVec]
  unfold reflect
  rw [toV_vsub _ _ m hx (by simp [hv]), toV_vscale, dot_eq _ _ m hv]
  rfl

theorem applyQT_length (hs : List (Vec × ℚ)) (x : Vec) (m : Nat) (hv : ∀ h ∈ hs, h.1.length = m)
    (hx : x.length = m) : (applyQT hs x).length = m := by
  induction hs generalizing x with
  | nil => simpa [applyQT] using hx
  | cons h hs ih =>
    simp only [applyQT, List.foldl_cons]
    exact ih (reflect h x) (fun h' hh => hv h' (by simp [hh])) (reflect_length h x m (hv h (by simp)) hx)

theorem toV_applyQT (hs : List (Vec × ℚ)) (x : Vec) (m : Nat) (hv : ∀ h ∈ hs, h.1.length = m)
    (hx : x.length = m) : toV m (applyQT hs x) = Abs.QTm (hs.map (toH m)) *ᵥ toV m x := by
  induction hs generalizing x with
  | nil => simp [applyQT, Abs.QTm]
  | cons h hs ih =>
    have h1 := ih (reflect h x) (fun h' hh => hv h' (by simp [hh]))
      (reflect_length h x m (hv h (by simp)) hx)
    simp only [applyQT, List.foldl_cons] at h1 ⊢
    rw [h1, toV_reflect h x m (hv h (by simp)) hx]
    simp [Abs.QTm, Matrix.mulVec_mulVec]

theorem applyQ_length (hs : List (Vec × ℚ)) (x : Vec) (m : Nat) (hv : ∀ h ∈ hs, h.1.length = m)
    (hx : x.length = m) : (applyQ hs x).length = m := by
  induction hs with
  | nil => simpa [applyQ] using hx
  | cons h hs ih =>
    simp only [applyQ, List.foldr_cons]
    exact reflect_length h _ m (hv h (by simp)) (ih (fun h' hh => hv h' (by simp [hh])))

theorem toV_applyQ (hs : List (Vec × ℚ)) (x : Vec) (m : Nat) (hv : ∀ h ∈ hs, h.1.length = m)
    (hx : x.length = m) : toV m (applyQ hs x) = Abs.Qm (hs.map (toH m)) *ᵥ toV m x := by
  induction hs with
  | nil => simp [applyQ, Abs.Qm]
  | cons h hs ih =>
    have hv' : ∀ h' ∈ hs, h'.1.length = m := fun h' hh => hv h' (by simp [hh])
    have h1 := ih hv'
    have hl := applyQ_length hs x m hv' hx
    simp only [applyQ, List.foldr_cons] at h1 hl ⊢
    rw [toV_reflect h _ m (hv h (by simp)) hl, h1]
    simp [Abs.Qm, Matrix.mulVec_mulVec]

theorem HOK_of_reflectorOK (h : Vec × ℚ) (m : Nat) (hv : h.1.length = m) (hok : reflectorOK h = true) :
    Abs.HOK (toH m h) := by
  unfold reflectorOK at hok
  unfold Abs.HOK toH
  simp only
  rw [← dot_eq _ _ m hv]
  simpa using hok

theorem hvec_length (qr : Mat) (i : Nat) : (hvec qr i).length = qr.length := by simp [hvec]

theorem reflectors_length (qr : Mat) (tau : Vec) : ∀ h ∈ reflectors qr tau, h.1.length = qr.length := by
  intro h hh
  simp only [reflectors, List.mem_map] at hh
  obtain ⟨i, _, rfl⟩ := hh
  exact hvec_length qr i

/-! ### zeroing, the triangular solve -/

theorem toV_zeroFirst (n : Nat) (t : Vec) (m : Nat) (ht : t.length = m) (hn : n ≤ m) :
    toV m (zeroFirst n t) = fun i : Fin m => if (i : Nat) < n then 0 else toV m t i := by
  ext i
  simp only [toV_apply, zeroFirst]
  have hmin : min n t.length = n := by omega
  rw [hmin]
  by_cases hi : (i : Nat) < n
  · rw [List.getD_append _ _ _ _ (by simpa using hi)]
    simp [hi, zeros, List.getD_eq_getElem?_getD]
  · rw [List.getD_append_right _ _ _ _ (by simpa using Nat.le_of_not_lt hi)]
    simp only [hi, if_false, zeros_length]
    simp only [List.getD_eq_getElem?_getD, List.getElem?_drop]
    congr 2
    omega

theorem zeroFirst_length (n : Nat) (t : Vec) (hn : n ≤ t.length) : (zeroFirst n t).length = t.length := by
  simp [zeroFirst]; omega

/-- product of an upper-triangular system given by its rows from the diagonal on -/
def triMul : List Vec → Vec → Vec
  | [], _ => []
  | u :: us, x => dot u x :: triMul us x.tail

theorem backSubst_length (us : List Vec) (b : Vec) : (backSubst us b).length = us.length := by
  induction us generalizing b with
  | nil => simp [backSubst]
  | cons u us ih => simp [backSubst, ih]

theorem triMul_backSubst (us : List Vec) (b : Vec) (hd : ∀ u ∈ us, u.headD 0 ≠ 0)
    (hb : b.length = us.length) : triMul us (backSubst us b) = b := by
  induction us generalizing b with
  | nil =>
    cases b with
    | nil => simp [triMul]
    | cons _ _ => simp at hb
  | cons u us ih =>
    cases b with
    | nil => simp at hb
    | cons b0 b =>
      have hu := hd u (by simp)
      cases u with
      | nil => simp at hu
      | cons u0 ut =>
        have hu0 : u0 ≠ 0 := by simpa using hu
        have hb' : b.length = us.length := by simpa using hb
        have ih' := ih b (fun u' hh => hd u' (by simp [hh])) hb'
        simp only [backSubst, triMul, List.tail_cons, List.headD_cons, dot_cons, ih']
        congr 1
        field_simp
        ring

theorem triMul_getD (us : List Vec) (x : Vec) (i : Nat) (hi : i < us.length) :
    (triMul us x).getD i 0 = dot (us.getD i []) (x.drop i) := by
  induction us generalizing x i with
  | nil => simp at hi
  | cons u us ih =>
    cases i with
    | zero => simp [triMul]
    | succ i =>
      have hi' : i < us.length := by simpa using hi
      simp only [triMul, List.getD_cons_succ]
      rw [ih x.tail i hi']
      simp [List.drop_tail]  

theorem dot_zeros_append (i : Nat) (u x : Vec) : dot (zeros i ++ u) x = dot u (x.drop i) := by
  induction i generalizing x with
  | zero => simp [zeros]
  | succ i ih =>
    have e : zeros (i + 1) ++ u = 0 :: (zeros i ++ u) := by simp [zeros, List.replicate_succ]
    cases x with
    | nil => simp
    | cons b x => rw [e, dot_cons, ih x]; simp

/-! ### `[R; 0]` -/

theorem rFull_length (qr : Mat) (n : Nat) : (rFull qr n).length = qr.length := by simp [rFull]

theorem rFull_rows (qr : Mat) (n : Nat) : ∀ r ∈ rFull qr n, r.length = n := by
  intro r hr
  simp only [rFull, List.mem_map] at hr
  obtain ⟨i, _, rfl⟩ := hr
  simp

theorem rFull_row (qr : Mat) (n i : Nat) (hi : i < qr.length) :
    (rFull qr n).getD i [] =
      (List.range n).map (fun j => if i ≤ j then (qr.getD i []).getD j 0 else 0) := by
  simp [rFull, List.getD_eq_getElem?_getD, List.getElem?_map, List.getElem?_range hi]

theorem rFull_entry (qr : Mat) (n i j : Nat) (hi : i < qr.length) (hj : j < n) :
    ((rFull qr n).getD i []).getD j 0 = if i ≤ j then (qr.getD i []).getD j 0 else 0 := by
  rw [rFull_row qr n i hi]
  simp [List.getD_eq_getElem?_getD, List.getElem?_map, List.getElem?_range hj]

theorem upperRows_length (qr : Mat) (n : Nat) : (upperRows qr n).length = n := by simp [upperRows]

theorem upperRows_getD (qr : Mat) (n i : Nat) (hi : i < n) :
    (upperRows qr n).getD i [] = ((qr.getD i []).drop i).take (n - i) := by
  simp [upperRows, List.getD_eq_getElem?_getD, List.getElem?_map, List.getElem?_range hi]

/-- a row of `[R; 0]` is `i` zeros followed by the row of the triangle from its diagonal on -/
theorem rFull_row_eq (qr : Mat) (n i : Nat) (hi : i < qr.length) (hin : i < n)
    (hr : (qr.getD i []).length = n) :
    (rFull qr n).getD i [] = zeros i ++ (upperRows qr n).getD i [] := by
  rw [rFull_row qr n i hi, upperRows_getD qr n i hin]
  generalize qr.getD i [] = row at hr
  apply List.ext_getElem
  · simp only [List.length_map, List.length_range, List.length_append, zeros_length,
      List.length_take, List.length_drop]
    omega
  · intro k h1 h2
    simp only [List.length_map, List.length_range] at h1
    by_cases hk : k < i
    · have : ¬ i ≤ k := by omega
      simp [this, List.getElem_append_left, hk, zeros]
    · have hik : i ≤ k := by omega
      rw [List.getElem_append_right (by simpa using hik)]
      simp only [List.getElem_map, List.getElem_range, hik, if_true, zeros_length,
        List.getElem_take, List.getElem_drop]
      have hkk : i + (k - i) = k := by omega
      have hkr : k < row.length := by omega
      simp [List.getD_eq_getElem?_getD, hkk, List.getElem?_eq_getElem hkr]

theorem upperRows_head (qr : Mat) (n i : Nat) (hin : i < n) :
    ((upperRows qr n).getD i []).headD 0 = (qr.getD i []).getD i 0 := by
  rw [upperRows_getD qr n i hin]
  generalize qr.getD i [] = row
  have hpos : 0 < n - i := by omega
  rw [List.headD_eq_head?_getD, List.head?_eq_getElem?, List.getElem?_take, List.getElem?_drop,
    List.getD_eq_getElem?_getD]
  simp [hpos]

theorem diag_of_diagNonzero (qr : Mat) (n : Nat) (h : diagNonzero qr n = true) :
    ∀ u ∈ upperRows qr n, u.headD 0 ≠ 0 := by
  intro u hu
  obtain ⟨i, hi, rfl⟩ := List.getElem_of_mem hu
  have hin : i < n := by simpa [upperRows_length] using hi
  have e : (upperRows qr n)[i] = (upperRows qr n).getD i [] := by
    simp [List.getD_eq_getElem?_getD, List.getElem?_eq_getElem hi]
  rw [e, upperRows_head qr n i hin]
  simp only [diagNonzero, List.all_eq_true, List.mem_range] at h
  simpa using h i hin

theorem trtrs_take (qr : Mat) (n : Nat) (t : Vec) (h : diagNonzero qr n = true) :
    (trtrs qr n t).take n = backSubst (upperRows qr n) (t.take n) := by
  have hany : (upperRows qr n).any (fun u => u.headD 0 == 0) = false := by
    rw [List.any_eq_false]
    intro u hu
    simpa using diag_of_diagNonzero qr n h u hu
  unfold trtrs
  simp only [hany]
  have hl : (backSubst (upperRows qr n) (t.take n)).length = n := by
    rw [backSubst_length, upperRows_length]
  simp [hl]

/-! ### assembly: the projection step on lists -/

/-- what `isQRof` says, as propositions -/
structure QRData (qr : Mat) (tau : Vec) (a : Mat) : Prop where
  rows : ∀ r ∈ a, r.length = ncols a
  qrlen : qr.length = a.length
  qrrows : ∀ r ∈ qr, r.length = ncols a
  taulen : tau.length = ncols a
  nle : ncols a ≤ a.length
  ok : ∀ h ∈ reflectors qr tau, reflectorOK h = true
  cols : ∀ j, j < ncols a → applyQT (reflectors qr tau) (col a j) = col (rFull qr (ncols a)) j

theorem qrData_of_isQRof (qr : Mat) (tau : Vec) (a : Mat) (h : isQRof qr tau a = true) :
    QRData qr tau a := by
  simp only [isQRof, shapesOK, Bool.and_eq_true, List.all_eq_true, beq_iff_eq, decide_eq_true_eq,
    List.mem_range] at h
  obtain ⟨⟨⟨⟨⟨⟨h1, h2⟩, h3⟩, h4⟩, h5⟩, h6⟩, h7⟩ := h
  exact ⟨h1, h2, h3, h4, h5, h6, h7⟩

theorem vp_core (qr : Mat) (tau : Vec) (a : Mat) (y : Vec) (hq : QRData qr tau a)
    (hd : diagNonzero qr (ncols a) = true) (hy : y.length = a.length) :
    let hs := reflectors qr tau
    let t := applyQT hs y
    let clp := (trtrs qr (ncols a) t).take (ncols a)
    let res := applyQ hs (zeroFirst (ncols a) t)
    res = residual a y clp ∧ toV (ncols a) (gradient a y clp) = 0 ∧ clp.length = ncols a := by
  intro hs t clp res
  set m := a.length with hm
  set n := ncols a with hn
  have hwf : WF a y := ⟨hq.rows, hy⟩
  have hnm : n ≤ m := hq.nle
  have hv : ∀ h ∈ hs, h.1.length = m := by
    intro h hh; rw [hm, ← hq.qrlen]; exact reflectors_length qr tau h hh
  set hs' := hs.map (toH m) with hhs'
  have hok' : ∀ h ∈ hs', Abs.HOK h := by
    intro h hh
    simp only [hhs', List.mem_map] at hh
    obtain ⟨h0, hh0, rfl⟩ := hh
    exact HOK_of_reflectorOK h0 m (hv h0 hh0) (hq.ok h0 hh0)
  set T := Abs.QTm hs' with hT
  set Q := Abs.Qm hs' with hQ
  have hTQ : T * Q = 1 := Abs.QTm_mul_Qm hs' hok'
  have hQT : Q * T = 1 := Abs.Qm_mul_QTm hs' hok'
  have hQt : Qᵀ = T := Abs.Qm_transpose hs'
  set A := toM m n a with hA
  set B := toM m n (rFull qr n) with hB
  have hrl : (rFull qr n).length = m := by rw [rFull_length, hq.qrlen]
  -- T * A = B, column by column
  have hTA : T * A = B := by
    ext i j
    have hc := hq.cols j j.isLt
    have h1 : toV m (applyQT hs (col a j)) = T *ᵥ toV m (col a j) :=
      toV_applyQT hs (col a j) m hv (by simp [col, ← hm])
    rw [hc, toV_col a m n hm.symm j, toV_col (rFull qr n) m n hrl j] at h1
    have := congrFun h1 i
    simp only [Matrix.mulVec, dotProduct] at this
    simp only [Matrix.mul_apply, hB]
    rw [this]
  have hB0 : ∀ (i : Fin m) (j : Fin n), ¬ ((i : Nat) < n) → B i j = 0 := by
    intro i j hi
    simp only [hB, toM_apply]
    rw [rFull_entry qr n i j (by rw [hq.qrlen]; exact i.isLt) j.isLt]
    have : ¬ (i : Nat) ≤ j := by have := j.isLt; omega
    simp [this]
  have htl : t.length = m := applyQT_length hs y m hv hy
  have htV : toV m t = T *ᵥ toV m y := toV_applyQT hs y m hv hy
  have hclp : clp = backSubst (upperRows qr n) (t.take n) := trtrs_take qr n t hd
  have hclpl : clp.length = n := by rw [hclp, backSubst_length, upperRows_length]
  -- B c agrees with t on the first n rows
  have hc : ∀ i : Fin m, (i : Nat) < n → (B *ᵥ toV n clp) i = (T *ᵥ toV m y) i := by
    intro i hi
    have h1 : toV m (mulVec (rFull qr n) clp) = B *ᵥ toV n clp :=
      toV_mulVec (rFull qr n) clp m n hrl (rFull_rows qr n)
    rw [← h1, ← htV]
    have hiq : (i : Nat) < qr.length := by rw [hq.qrlen]; exact i.isLt
    have hil : (i : Nat) < (rFull qr n).length := by rw [hrl]; exact i.isLt
    have hrow : (qr.getD i []).length = n := by
      have : qr.getD i [] = qr[(i : Nat)] := by
        simp [List.getD_eq_getElem?_getD, List.getElem?_eq_getElem hiq]
      rw [this]; exact hq.qrrows _ (List.getElem_mem hiq)
    simp only [toV_apply, mulVec]
    rw [List.getD_eq_getElem?_getD, List.getElem?_map, List.getElem?_eq_getElem hil]
    simp only [Option.map_some, Option.getD_some]
    have e : (rFull qr n)[(i : Nat)] = (rFull qr n).getD i [] := by
      simp [List.getD_eq_getElem?_getD, List.getElem?_eq_getElem hil]
    rw [e, rFull_row_eq qr n i hiq hi hrow, dot_zeros_append,
      ← triMul_getD (upperRows qr n) clp i (by rw [upperRows_length]; exact hi), hclp,
      triMul_backSubst _ _ (diag_of_diagNonzero qr n hd)
        (by rw [upperRows_length]; simp; omega)]
    simp only [List.getD_eq_getElem?_getD, List.getElem?_take, hi, if_true]
  have hzl : (zeroFirst n t).length = m := by rw [zeroFirst_length n t (by omega), htl]
  have hresl : res.length = m := applyQ_length hs _ m hv hzl
  have hresV : toV m res = Q *ᵥ (fun i : Fin m => if (i : Nat) < n then 0 else (T *ᵥ toV m y) i) := by
    have h1 : toV m res = Q *ᵥ toV m (zeroFirst n t) := toV_applyQ hs _ m hv hzl
    rw [h1, toV_zeroFirst n t m htl hq.nle, htV]
  have hres : toV m res = toV m y - A *ᵥ toV n clp := by
    rw [hresV]
    exact Abs.vp_residual_abs Q T A B (toV m y) (toV n clp) (fun i => (i : Nat) < n) hQT hTA hB0 hc
  have hreseq : res = residual a y clp := by
    apply toV_inj _ _ m hresl (by simp [residual, hy, ← hm])
    rw [hres, toV_residual a y clp hwf]
  refine ⟨hreseq, ?_, hclpl⟩
  rw [toV_gradient a y clp hwf]
  unfold Abs.grad
  rw [← hres, hresV]
  exact Abs.vp_orthogonal_abs Q T A B (T *ᵥ toV m y) (fun i => (i : Nat) < n) hQt hTQ hQT hTA hB0

/-! ### small facts used by the property theorems -/

theorem lsExact_isNormalSol (a : Mat) (y c : Vec) (h : lsExact a y = some c) : isNormalSol a y c = true := by
  unfold lsExact at h
  split at h
  · split at h
    · cases h; assumption
    · cases h
  · split at h
    · split at h
      · cases h; assumption
      · cases h
    · cases h

theorem nnlsExact_isKKT (a : Mat) (y c : Vec) (h : nnlsExact a y = some c) : isKKT a y c = true := by
  unfold nnlsExact at h
  simp only at h
  obtain ⟨s, _, hs⟩ := List.exists_of_findSome?_eq_some h
  split at hs
  · split at hs
    · cases hs; assumption
    · cases hs
  · cases hs

theorem mulVec_nil_right (a : Mat) : mulVec a [] = zeros a.length := by
  simp only [mulVec, zeros]
  apply List.ext_getElem
  · simp
  · intro i h1 h2
    simp

theorem vsub_zeros (y : Vec) : vsub y (zeros y.length) = y := by
  induction y with
  | nil => simp [vsub, zeros]
  | cons x y ih =>
    have : zeros (x :: y).length = 0 :: zeros y.length := by simp [zeros, List.replicate_succ]
    rw [this]
    simp only [vsub, List.zipWith_cons_cons, sub_zero] at ih ⊢
    rw [ih]

theorem residual_nil (a : Mat) (y : Vec) (hy : y.length = a.length) : residual a y [] = y := by
  unfold residual
  rw [mulVec_nil_right, ← hy, vsub_zeros]

/-! ### full column rank from the factorisation -/

theorem dot_zeros_right (u : Vec) (k : Nat) : dot u (zeros k) = 0 := by
  induction u generalizing k with
  | nil => simp
  | cons a u ih =>
    cases k with
    | zero => simp [zeros]
    | succ k =>
      have : zeros (k + 1) = 0 :: zeros k := by simp [zeros, List.replicate_succ]
      rw [this, dot_cons, ih]; ring

theorem triMul_length (us : List Vec) (x : Vec) : (triMul us x).length = us.length := by
  induction us generalizing x with
  | nil => simp [triMul]
  | cons u us ih => simp [triMul, ih]

theorem triMul_eq_zero (us : List Vec) (x : Vec) (hd : ∀ u ∈ us, u.headD 0 ≠ 0)
    (hx : x.length = us.length) (h : triMul us x = zeros us.length) : x = zeros us.length := by
  induction us generalizing x with
  | nil =>
    cases x with
    | nil => simp [zeros]
    | cons _ _ => simp at hx
  | cons u us ih =>
    cases x with
    | nil => simp at hx
    | cons x0 xs =>
      have hu := hd u (by simp)
      cases u with
      | nil => simp at hu
      | cons u0 ut =>
        have hu0 : u0 ≠ 0 := by simpa using hu
        have hz : zeros (List.length ((u0 :: ut) :: us)) = 0 :: zeros us.length := by
          simp [zeros, List.replicate_succ]
        rw [hz] at h ⊢
        simp only [triMul, List.tail_cons, List.cons.injEq] at h
        have hxs := ih xs (fun u' hh => hd u' (by simp [hh])) (by simpa using hx) h.2
        have h1 := h.1
        rw [dot_cons, hxs, dot_zeros_right] at h1
        have : x0 = 0 := by
          have : u0 * x0 = 0 := by linarith
          rcases mul_eq_zero.mp this with h2 | h2
          · exact absurd h2 hu0
          · exact h2
        rw [this, hxs]

theorem fullRank_of_qr (qr : Mat) (tau : Vec) (a : Mat) (hq : QRData qr tau a)
    (hd : diagNonzero qr (ncols a) = true) : FullRank a := by
  intro d hdl hzero
  set m := a.length with hm
  set n := ncols a with hn
  set hs := reflectors qr tau with hhs
  have hv : ∀ h ∈ hs, h.1.length = m := by
    intro h hh; rw [hm, ← hq.qrlen]; exact reflectors_length qr tau h hh
  set T := Abs.QTm (hs.map (toH m)) with hT
  set A := toM m n a with hA
  set B := toM m n (rFull qr n) with hB
  have hrl : (rFull qr n).length = m := by rw [rFull_length, hq.qrlen]
  have hTA : T * A = B := by
    ext i j
    have hc := hq.cols j j.isLt
    have h1 : toV m (applyQT hs (col a j)) = T *ᵥ toV m (col a j) :=
      toV_applyQT hs (col a j) m hv (by simp [col, ← hm])
    rw [hc, toV_col a m n hm.symm j, toV_col (rFull qr n) m n hrl j] at h1
    have := congrFun h1 i
    simp only [Matrix.mulVec, dotProduct] at this
    simp only [Matrix.mul_apply, hB]
    rw [this]
  -- A d = 0 hence B d = 0
  have hAd : A *ᵥ toV n d = 0 := by
    rw [← toV_mulVec a d m n hm.symm hq.rows, hzero, toV_zeros]
  have hBd : toV m (mulVec (rFull qr n) d) = 0 := by
    rw [toV_mulVec (rFull qr n) d m n hrl (rFull_rows qr n), ← hB, ← hTA, ← Matrix.mulVec_mulVec, hAd,
      Matrix.mulVec_zero]
  -- the triangular product vanishes
  have htri : triMul (upperRows qr n) d = zeros (upperRows qr n).length := by
    apply List.ext_getElem
    · simp [triMul_length]
    · intro i h1 h2
      have hin : i < n := by simpa [triMul_length, upperRows_length] using h1
      have him : i < m := by have := hq.nle; omega
      have hiq : i < qr.length := by rw [hq.qrlen]; exact him
      have hil : i < (rFull qr n).length := by rw [hrl]; exact him
      have hrow : (qr.getD i []).length = n := by
        have : qr.getD i [] = qr[i] := by
          simp [List.getD_eq_getElem?_getD, List.getElem?_eq_getElem hiq]
        rw [this]; exact hq.qrrows _ (List.getElem_mem hiq)
      have e0 := congrFun hBd ⟨i, him⟩
      simp only [toV_apply, mulVec, Pi.zero_apply] at e0
      rw [List.getD_eq_getElem?_getD, List.getElem?_map, List.getElem?_eq_getElem hil] at e0
      simp only [Option.map_some, Option.getD_some] at e0
      have e : (rFull qr n)[i] = (rFull qr n).getD i [] := by
        simp [List.getD_eq_getElem?_getD, List.getElem?_eq_getElem hil]
      rw [e, rFull_row_eq qr n i hiq hin hrow, dot_zeros_append,
        ← triMul_getD (upperRows qr n) d i (by rw [upperRows_length]; exact hin)] at e0
      have e1 : (triMul (upperRows qr n) d)[i] = (triMul (upperRows qr n) d).getD i 0 := by
        simp [List.getD_eq_getElem?_getD, List.getElem?_eq_getElem h1]
      rw [e1, e0]
      simp [zeros]
  have := triMul_eq_zero (upperRows qr n) d (diag_of_diagNonzero qr n hd)
    (by rw [upperRows_length]; exact hdl) htri
  rw [upperRows_length] at this
  exact this

theorem isKKT_nonneg_aux (a : Mat) (y c : Vec) (hs : isKKT a y c = true) : ∀ x ∈ c, 0 ≤ x := by
  simp only [isKKT, Bool.and_eq_true] at hs
  intro x hx
  simpa using List.all_eq_true.mp hs.1.1.2 x hx

/-! ### the normalisation of `residual_nnls` -/

theorem foldl_max_ge (v : Vec) (acc : ℚ) :
    acc ≤ v.foldl (fun acc x => max acc (if x < 0 then -x else x)) acc := by
  induction v generalizing acc with
  | nil => simp
  | cons x v ih =>
    simp only [List.foldl_cons]
    exact le_trans (le_max_left _ _) (ih _)

theorem maxAbs_nonneg (v : Vec) : 0 ≤ maxAbs v := foldl_max_ge v 0

theorem scaleOf_pos (v : Vec) : 0 < scaleOf v := by
  unfold scaleOf
  split
  · norm_num
  · next h =>
    have h0 : maxAbs v ≠ 0 := by simpa using h
    exact lt_of_le_of_ne (maxAbs_nonneg v) (Ne.symm h0)

theorem columnScales_length (a : Mat) : (columnScales a).length = ncols a := by simp [columnScales]

theorem columnScales_pos (a : Mat) (j : Fin (ncols a)) : 0 < toV (ncols a) (columnScales a) j := by
  simp only [toV_apply, columnScales, List.getD_eq_getElem?_getD, List.getElem?_map,
    List.getElem?_range j.isLt, Option.map_some, Option.getD_some]
  exact scaleOf_pos _

theorem columnScales_mem_pos (a : Mat) : ∀ c ∈ columnScales a, 0 < c := by
  intro c hc
  simp only [columnScales, List.mem_map] at hc
  obtain ⟨j, _, rfl⟩ := hc
  exact scaleOf_pos _

theorem ncols_scaleColumns (a : Mat) (hr : ∀ r ∈ a, r.length = ncols a) :
    ncols (scaleColumns a (columnScales a)) = ncols a := by
  cases a with
  | nil => rfl
  | cons r a =>
    simp only [scaleColumns, List.map_cons, ncols, List.length_zipWith, columnScales_length]
    simp

theorem scaleColumns_rows (a : Mat) (hr : ∀ r ∈ a, r.length = ncols a) :
    ∀ r ∈ scaleColumns a (columnScales a), r.length = ncols a := by
  intro r hmem
  simp only [scaleColumns, List.mem_map] at hmem
  obtain ⟨r0, h0, rfl⟩ := hmem
  simp [columnScales_length, hr r0 h0]

theorem toM_scaleColumns (a : Mat) (hr : ∀ r ∈ a, r.length = ncols a) :
    toM a.length (ncols a) (scaleColumns a (columnScales a)) =
      Matrix.of fun i j => toM a.length (ncols a) a i j / toV (ncols a) (columnScales a) j := by
  ext i j
  have hi : (i : Nat) < a.length := i.isLt
  have hj : (j : Nat) < ncols a := j.isLt
  have hrow : (a[(i : Nat)]).length = ncols a := hr _ (List.getElem_mem hi)
  simp only [toM_apply, Matrix.of_apply, toV_apply, scaleColumns]
  rw [List.getD_eq_getElem?_getD (l := List.map _ a), List.getElem?_map, List.getElem?_eq_getElem hi]
  simp only [Option.map_some, Option.getD_some]
  rw [List.getD_eq_getElem?_getD (l := List.zipWith _ _ _), List.getElem?_zipWith]
  have h1 : (a[(i : Nat)])[(j : Nat)]? = some ((a[(i : Nat)])[(j : Nat)]'(by omega)) :=
    List.getElem?_eq_getElem (by omega)
  have h2 : (columnScales a)[(j : Nat)]? = some ((columnScales a)[(j : Nat)]'(by rw [columnScales_length]; exact hj)) :=
    List.getElem?_eq_getElem (by rw [columnScales_length]; exact hj)
  rw [h1, h2]
  simp [List.getD_eq_getElem?_getD, h1, h2]

theorem toV_map_div (y : Vec) (s : ℚ) (k : Nat) : toV k (y.map (· / s)) = fun i => toV k y i / s := by
  ext i
  simp only [toV_apply]
  have := List.getD_map (l := y) (d := (0 : ℚ)) (n := (i : Nat)) (fun x => x / s)
  simpa using this

theorem toV_unscale (x cs : Vec) (s : ℚ) (k : Nat) (hx : x.length = k) (hc : cs.length = k) :
    toV k (List.zipWith (fun xi ci => xi * (s / ci)) x cs) = fun j => toV k x j * (s / toV k cs j) := by
  ext j
  have hj : (j : Nat) < k := j.isLt
  simp only [toV_apply, List.getD_eq_getElem?_getD, List.getElem?_zipWith]
  have h1 : x[(j : Nat)]? = some (x[(j : Nat)]'(by omega)) := List.getElem?_eq_getElem (by omega)
  have h2 : cs[(j : Nat)]? = some (cs[(j : Nat)]'(by omega)) := List.getElem?_eq_getElem (by omega)
  rw [h1, h2]
  simp

theorem all_of_toV (l : Vec) (k : Nat) (hl : l.length = k) (p : ℚ → Bool)
    (h : ∀ j : Fin k, p (toV k l j) = true) : l.all p = true := by
  rw [List.all_eq_true]
  intro x hx
  obtain ⟨i, hi, rfl⟩ := List.getElem_of_mem hx
  have := h ⟨i, by omega⟩
  simpa [List.getD_eq_getElem?_getD, List.getElem?_eq_getElem hi] using this

/-- a KKT point of the normalised problem, scaled back, is a KKT point of the original problem -/
theorem isKKT_unscale (a : Mat) (y x : Vec) (h : WF a y)
    (hk : isKKT (scaleColumns a (columnScales a)) (y.map (· / scaleOf y)) x = true) :
    isKKT a y (List.zipWith (fun xi ci => xi * (scaleOf y / ci)) x (columnScales a)) = true := by
  set s := scaleOf y with hs
  set cs := columnScales a with hcs
  set n := ncols a with hn
  set m := a.length with hm
  have hspos : 0 < s := scaleOf_pos y
  have hnc : ncols (scaleColumns a cs) = n := ncols_scaleColumns a h.rows
  have hlen' : (scaleColumns a cs).length = m := by simp [scaleColumns, hm]
  have hwf' : WF (scaleColumns a cs) (y.map (· / s)) :=
    ⟨by intro r hr; rw [hnc]; exact scaleColumns_rows a h.rows r hr, by simp [scaleColumns, h.ylen]⟩
  have hxn := isKKT_nonneg_aux _ _ _ hk
  simp only [isKKT, Bool.and_eq_true, beq_iff_eq] at hk
  obtain ⟨⟨⟨hxl, _⟩, hg⟩, hcomp⟩ := hk
  rw [hnc] at hxl
  have hcl : cs.length = n := columnScales_length a
  set c := List.zipWith (fun xi ci => xi * (s / ci)) x cs with hc
  have hclen : c.length = n := by simp [hc, hxl, hcl]
  have hcV : toV n c = fun j => toV n x j * (s / toV n cs j) := toV_unscale x cs s n hxl hcl
  -- gradients
  have hgrad : ∀ j : Fin n, toV n (gradient a y c) j =
      s * toV n cs j * toV n (gradient (scaleColumns a cs) (y.map (· / s)) x) j := by
    intro j
    have e1 := toV_gradient a y c h
    have e2 := toV_gradient (scaleColumns a cs) (y.map (· / s)) x hwf'
    rw [hnc, hlen'] at e2
    rw [e1, e2, hcV, toM_scaleColumns a h.rows, toV_map_div]
    exact Abs.grad_scaled _ _ _ _ s (fun j => ne_of_gt (columnScales_pos a j)) (ne_of_gt hspos) j
  have hg' : ∀ j : Fin n, toV n (gradient (scaleColumns a cs) (y.map (· / s)) x) j ≤ 0 :=
    fun j => toV_nonpos_of_all _ _ hg j
  have hcomp' : ∀ j : Fin n, toV n x j * toV n (gradient (scaleColumns a cs) (y.map (· / s)) x) j = 0 := by
    intro j
    simp only [toV_apply, List.getD_eq_getElem?_getD]
    cases hxj : x[(j : Nat)]? with
    | none => simp
    | some xv =>
      cases hgj : (gradient (scaleColumns a cs) (y.map (· / s)) x)[(j : Nat)]? with
      | none => simp
      | some gv =>
        have hz : (List.zipWith (· * ·) x (gradient (scaleColumns a cs) (y.map (· / s)) x))[(j : Nat)]? =
            some (xv * gv) := by simp [List.getElem?_zipWith, hxj, hgj]
        have := List.all_eq_true.mp hcomp _ (List.mem_of_getElem? hz)
        simpa using this
  simp only [isKKT, Bool.and_eq_true, beq_iff_eq]
  refine ⟨⟨⟨hclen, ?_⟩, ?_⟩, ?_⟩
  · -- c ≥ 0
    apply all_of_toV c n hclen
    intro j
    rw [hcV]
    have h1 : 0 ≤ toV n x j := toV_nonneg_of_all x n hxn j
    have h2 : 0 < toV n cs j := columnScales_pos a j
    simp only [decide_eq_true_eq]
    exact mul_nonneg h1 (le_of_lt (div_pos hspos h2))
  · -- gradient ≤ 0
    apply all_of_toV _ n (gradient_length a y c)
    intro j
    rw [hgrad j]
    have h2 : 0 < toV n cs j := columnScales_pos a j
    simp only [decide_eq_true_eq]
    exact mul_nonpos_of_nonneg_of_nonpos (le_of_lt (mul_pos hspos h2)) (hg' j)
  · -- complementarity
    rw [List.all_eq_true]
    intro z hz
    obtain ⟨i, hi, rfl⟩ := List.getElem_of_mem hz
    have hin : i < n := by
      simp only [List.length_zipWith, hclen, gradient_length] at hi
      omega
    have e1 := congrFun hcV ⟨i, hin⟩
    have e2 := hgrad ⟨i, hin⟩
    have e3 := hcomp' ⟨i, hin⟩
    have h2 : 0 < toV n cs ⟨i, hin⟩ := columnScales_pos a ⟨i, hin⟩
    have hci : i < c.length := by omega
    have hgi : i < (gradient a y c).length := by rw [gradient_length]; exact hin
    simp only [toV_apply, List.getD_eq_getElem?_getD, List.getElem?_eq_getElem hci,
      List.getElem?_eq_getElem hgi, Option.getD_some] at e1 e2
    simp only [List.getElem_zipWith, beq_iff_eq]
    rw [e1, e2]
    have : toV n x ⟨i, hin⟩ * (s / toV n cs ⟨i, hin⟩) *
        (s * toV n cs ⟨i, hin⟩ * toV n (gradient (scaleColumns a cs) (y.map (· / s)) x) ⟨i, hin⟩) =
        s * s * (toV n x ⟨i, hin⟩ * toV n (gradient (scaleColumns a cs) (y.map (· / s)) x) ⟨i, hin⟩) := by
      field_simp
    simp only [toV_apply, List.getD_eq_getElem?_getD] at this e3 ⊢
    rw [this, e3, mul_zero]

end Glotaran.C01
