/-
C09 — lemmas about the vocabulary of the regenerated functions (GlotaranModel/C09Py.lean) and the proofs that the
functions regenerated from the Python source (GlotaranModel/Generated/C09Fns.lean) are the model definitions.
-/
import GlotaranModel.Generated.C09Fns
import GlotaranProofs.Lemmas.C09
import GlotaranProofs.Lemmas.C09Result
namespace Glotaran.C09

/-! ### numpy vocabulary -/

theorem npMask_map {α β : Type} (f : β → α) (p : β → Bool) : ∀ l : List β,
    npMask (l.map f) (l.map p) = (l.filter p).map f := by
  intro l
  induction l with
  | nil => rfl
  | cons x xs ih =>
    simp only [List.map_cons, npMask, List.filter_cons]
    by_cases h : p x = true
    · simp [h, ih]
    · simp [h, ih]

theorem npMask_self {α : Type} (p : α → Bool) (l : List α) : npMask l (l.map p) = l.filter p := by
  have := npMask_map (fun x : α => x) p l
  simpa using this

theorem npArgmin_cons_cons (x y : Rat) (ys : List Rat) :
    npArgmin (x :: y :: ys) = if x ≤ (y :: ys).getD (npArgmin (y :: ys)) 0 then 0 else npArgmin (y :: ys) + 1 := by
  rw [npArgmin]

/-- the first minimum of a list of (target, difference) pairs is the entry at the `argmin` of the absolute differences -/
theorem firstMin_eq_argmin : ∀ ps : List (Rat × Rat),
    firstMin ps = if ps = [] then none else some (ps.getD (npArgmin (ps.map (fun p => absR p.2))) (0, 0)) := by
  intro ps
  induction ps with
  | nil => rfl
  | cons p rest ih =>
    cases rest with
    | nil => simp [firstMin, npArgmin]
    | cons q rest' =>
      simp only [firstMin] at ih ⊢
      rw [ih]
      simp only [reduceCtorEq, if_false, List.map_cons, npArgmin_cons_cons]
      have hget : ∀ k, (absR q.2 :: rest'.map (fun p => absR p.2)).getD k 0 = absR ((q :: rest').getD k (0, 0)).2 := by
        intro k
        rw [← List.map_cons (f := fun p : Rat × Rat => absR p.2)]
        simp only [List.getD_eq_getElem?_getD, List.getElem?_map]
        cases (q :: rest')[k]? <;> simp [absR]
      generalize npArgmin (absR q.2 :: rest'.map (fun p => absR p.2)) = k
      rw [hget k]
      split <;> simp

theorem candidates_eq_filter (m : Method) (target : List Rat) (x : Rat) :
    candidates m target x = (target.filter (fun t => keep m (t - x))).map (fun t => (t, t - x)) := by
  unfold candidates
  rw [List.filter_map]
  rfl

theorem alignIndex_filter (x : Rat) (target : List Rat) (tol : Rat) (m : Method) :
    alignIndex x target tol m = alignIndex x (target.filter (fun t => keep m (t - x))) tol .nearest := by
  unfold alignIndex
  rw [candidates_eq_filter, candidates_eq_filter]
  simp [keep]

/-- `align_index` after side filtering: on the kept targets `c` the numpy expression is the model's match -/
theorem alignIndex_on_kept (x tol : Rat) (c : List Rat) :
    (if (decide ((npAbs (c.map (· - x))).length > 0) && decide (npMin (npAbs (c.map (· - x))) ≤ tol)) then
        c.getD (npArgmin (npAbs (c.map (· - x)))) 0 else x) = alignIndex x c tol .nearest := by
  unfold alignIndex
  rw [candidates_eq_filter, firstMin_eq_argmin]
  have hk : c.filter (fun t => keep .nearest (t - x)) = c := by simp [keep]
  rw [hk]
  cases c with
  | nil => simp [npAbs]
  | cons t ts =>
    simp only [List.map_eq_nil_iff, reduceCtorEq, if_false]
    have hmap : ((t :: ts).map (fun t => (t, t - x))).map (fun p : Rat × Rat => absR p.2) = npAbs ((t :: ts).map (· - x)) := by
      simp [npAbs, List.map_map, Function.comp_def]
    rw [hmap]
    generalize hk : npArgmin (npAbs ((t :: ts).map (· - x))) = k
    have h1 : (((t :: ts).map (fun t => (t, t - x))).getD k (0, 0)).1 = (t :: ts).getD k 0 := by
      simp only [List.getD_eq_getElem?_getD, List.getElem?_map]
      cases (t :: ts)[k]? <;> simp
    have h2 : absR (((t :: ts).map (fun t => (t, t - x))).getD k (0, 0)).2 = npMin (npAbs ((t :: ts).map (· - x))) := by
      unfold npMin
      rw [hk]
      simp only [npAbs, List.getD_eq_getElem?_getD, List.getElem?_map]
      cases (t :: ts)[k]? <;> simp [absR]
    simp only [h1, h2]
    have hlen : decide ((npAbs ((t :: ts).map (· - x))).length > 0) = true := by simp [npAbs]
    rw [hlen]
    simp

theorem gen_align_index_eq (x : Rat) (target : List Rat) (tol : Rat) (m : Method) :
    Gen.align_index x target tol m = alignIndex x target tol m := by
  rw [alignIndex_filter, ← alignIndex_on_kept]
  have hge : npGeScalar (npSubScalar target x) 0 = target.map (fun t => decide (0 ≤ t - x)) := by
    simp [npGeScalar, npSubScalar, List.map_map, Function.comp_def]
  have hle : npLeScalar (npSubScalar target x) 0 = target.map (fun t => decide (t - x ≤ 0)) := by
    simp [npLeScalar, npSubScalar, List.map_map, Function.comp_def]
  cases m
  · -- nearest
    have hk : target.filter (fun t => keep .nearest (t - x)) = target := by simp [keep]
    rw [hk]
    simp [Gen.align_index, npSubScalar]
  · -- backward
    have hk : target.filter (fun t => keep .backward (t - x)) = target.filter (fun t => decide (t - x ≤ 0)) := by
      simp [keep]
    rw [hk]
    simp only [Gen.align_index, hle, npMask_self]
    simp only [npSubScalar, npMask_map]
    simp
  · -- forward
    have hk : target.filter (fun t => keep .forward (t - x)) = target.filter (fun t => decide (0 ≤ t - x)) := by
      simp [keep]
    rw [hk]
    simp only [Gen.align_index, hge, npMask_self]
    simp only [npSubScalar, npMask_map]
    simp

/-! ### python vocabulary -/

theorem dictHas_append {α : Type} (d e : Dict α) (k : String) : dictHas (d ++ e) k = (dictHas d k || dictHas e k) := by
  simp [dictHas]

theorem dictSet_fresh {α : Type} (d : Dict α) (k : String) (v : α) (h : dictHas d k = false) :
    dictSet d k v = d ++ [(k, v)] := by
  simp [dictSet, h]

/-- the loop of `create_aligned_global_axes` once the first dataset has been seen -/
theorem gen_align_loop (tol : Rat) (m : Method) (body : Option (List Rat) × Dict (List Rat) → String × List Rat →
      Except PyErr (Option (List Rat) × Dict (List Rat)))
    (hbody : ∀ acc d kv, body (some acc, d) kv =
      (if hasDup (kv.2.map (fun x => alignIndex x acc tol m)) then Except.error PyErr.alignDataset
       else Except.ok (some (unique (acc ++ kv.2.map (fun x => alignIndex x acc tol m))),
          dictSet d kv.1 (kv.2.map (fun x => alignIndex x acc tol m))))) :
    ∀ (rest : Dict (List Rat)) (acc : List Rat) (d : Dict (List Rat)),
      (∀ kv ∈ rest, dictHas d kv.1 = false) → (rest.map (·.1)).Nodup →
      bindE (foldlE rest (some acc, d) body) (fun st => Except.ok st.2) =
        (match alignLoop tol m (some acc) (rest.map (·.2)) with
          | none => Except.error PyErr.alignDataset
          | some al => Except.ok (d ++ (rest.map (·.1)).zip al)) := by
  intro rest
  induction rest with
  | nil => intro acc d _ _; simp [foldlE, bindE, alignLoop]
  | cons kv rest ih =>
    intro acc d hfresh hnd
    simp only [foldlE, List.map_cons, alignLoop]
    rw [hbody]
    by_cases hd : hasDup (kv.2.map (fun x => alignIndex x acc tol m)) = true
    · simp [hd, bindE]
    · simp only [hd, Bool.false_eq_true, if_false, bindE]
      rw [dictSet_fresh _ _ _ (hfresh kv (by simp))]
      rw [List.map_cons, List.nodup_cons] at hnd
      have hfresh' : ∀ kv' ∈ rest, dictHas (d ++ [(kv.1, kv.2.map (fun x => alignIndex x acc tol m))]) kv'.1 = false := by
        intro kv' hkv'
        rw [dictHas_append, hfresh kv' (by simp [hkv'])]
        simp only [dictHas, List.any_cons, List.any_nil, Bool.or_false, Bool.false_or, beq_eq_false_iff_ne]
        intro he
        exact hnd.1 (List.mem_map.mpr ⟨kv', hkv', he.symm⟩)
      have := ih (unique (acc ++ kv.2.map (fun x => alignIndex x acc tol m)))
        (d ++ [(kv.1, kv.2.map (fun x => alignIndex x acc tol m))]) hfresh' hnd.2
      simp only [bindE] at this
      rw [this]
      cases alignLoop tol m (some (unique (acc ++ kv.2.map (fun x => alignIndex x acc tol m)))) (rest.map (·.2)) with
      | none => rfl
      | some al => simp

theorem gen_create_aligned_global_axes_eq (ga : Dict (List Rat)) (tol : Rat) (m : Method)
    (hnd : (ga.map (·.1)).Nodup) :
    Gen.create_aligned_global_axes ga tol m =
      (match createAlignedAxes tol m (ga.map (·.2)) with
        | none => Except.error PyErr.alignDataset
        | some al => Except.ok ((ga.map (·.1)).zip al)) := by
  unfold Gen.create_aligned_global_axes createAlignedAxes
  cases ga with
  | nil => simp [foldlE, bindE, alignLoop]
  | cons kv rest =>
    rw [List.map_cons, List.nodup_cons] at hnd
    have hfresh : ∀ kv' ∈ rest, dictHas (dictSet ([] : Dict (List Rat)) kv.1 kv.2) kv'.1 = false := by
      intro kv' hkv'
      simp only [dictSet, dictHas, List.any_nil, Bool.false_eq_true, if_false, List.nil_append, List.any_cons,
        Bool.or_false, beq_eq_false_iff_ne]
      intro he
      exact hnd.1 (List.mem_map.mpr ⟨kv', hkv', he.symm⟩)
    show bindE (foldlE rest (some kv.2, dictSet [] kv.1 kv.2) _) (fun st => Except.ok st.2) = _
    rw [gen_align_loop tol m _ ?_ rest kv.2 _ hfresh hnd.2]
    · simp only [List.map_cons, alignLoop]
      cases alignLoop tol m (some kv.2) (rest.map (·.2)) with
      | none => rfl
      | some al => simp [dictSet, dictHas]
    · intro acc d kv'
      simp only [bindE, gen_align_index_eq, npUnique, List.flatten_cons, List.flatten_nil, List.append_nil]
      by_cases hd : hasDup (kv'.2.map (fun x => alignIndex x acc tol m)) = true
      · have hd' := hd
        unfold hasDup at hd'
        simp only [bne_iff_ne, ne_eq, List.length_map] at hd'
        simp [hd, hd']
      · have hd' := hd
        unfold hasDup at hd'
        simp only [bne_iff_ne, ne_eq, List.length_map, Decidable.not_not] at hd'
        simp [hd, hd']

/-! ### xarray vocabulary: the joined tables -/

theorem posOf_lt (v : Rat) : ∀ (a : List Rat) (j : Nat), posOf v a = some j → j < a.length := by
  intro a
  induction a with
  | nil => intro j h; cases h
  | cons y ys ih =>
    intro j h
    simp only [posOf] at h
    split at h
    · cases h; simp
    · cases hp : posOf v ys with
      | none => rw [hp] at h; cases h
      | some k =>
        rw [hp] at h
        simp only [Option.map_some, Option.some.injEq] at h
        have := ih k hp
        simp only [List.length_cons]
        omega

theorem range_map_getD {β : Type} (g : Rat → β) (l : List Rat) :
    (List.range l.length).map (fun i => g (l.getD i 0)) = l.map g := by
  apply List.ext_getElem
  · simp
  · intro i h1 h2
    have hi : i < l.length := by simpa using h1
    simp [List.getD_eq_getElem?_getD, List.getElem?_eq_getElem hi]

/-- the members of an aligned point, mapped: one entry per dataset that has the point, in dataset order -/
theorem membersFrom_map {β : Type} (v : Rat) (F : Dataset → Nat → β) (full : List Dataset) :
    ∀ (al : List (List Rat)) (dsl : List Dataset) (d : Nat), full.drop d = dsl → al.length = dsl.length →
    (membersFrom v d al).map (fun p => F (full.getD p.1 default) p.2) =
      (dsl.zip al).filterMap (fun p => (posOf v p.2).map (fun j => F p.1 j)) := by
  intro al
  induction al with
  | nil => intro dsl d _ _; simp [membersFrom]
  | cons a rest ih =>
    intro dsl d hdrop hlen
    cases dsl with
    | nil => simp at hlen
    | cons ds dsl' =>
      have hd : d < full.length := by
        by_contra hge
        rw [List.drop_eq_nil_of_le (by omega)] at hdrop
        cases hdrop
      have hget : full.getD d default = ds := by
        have := List.getElem_cons_drop hd
        rw [hdrop] at this
        simp only [List.cons.injEq] at this
        simp [List.getD_eq_getElem?_getD, List.getElem?_eq_getElem hd, this.1]
      have hdrop' : full.drop (d + 1) = dsl' := by
        have := List.getElem_cons_drop hd
        rw [hdrop] at this
        simp only [List.cons.injEq] at this
        exact this.2
      have hlen' : rest.length = dsl'.length := by simpa using hlen
      simp only [membersFrom, List.zip_cons_cons, List.filterMap_cons]
      cases hp : posOf v a with
      | none => simp only [Option.map_none]; exact ih dsl' (d + 1) hdrop' hlen'
      | some j =>
        simp only [Option.map_some, List.map_cons, hget]
        rw [ih dsl' (d + 1) hdrop' hlen']

theorem members_map {β : Type} (v : Rat) (F : Dataset → Nat → β) (dss : List Dataset) (al : List (List Rat))
    (hlen : al.length = dss.length) :
    (members al v).map (fun p => F (dss.getD p.1 default) p.2) =
      (dss.zip al).filterMap (fun p => (posOf v p.2).map (fun j => F p.1 j)) :=
  membersFrom_map v F dss al dss 0 rfl hlen

theorem zip_labels (dss : List Dataset) (al : List (List Rat)) :
    (dss.map (·.label)).zip al = (dss.zip al).map (fun p => (p.1.label, p.2)) := by
  rw [List.zip_map_left]
  rfl

theorem zip_snd (dss : List Dataset) (al : List (List Rat)) (hlen : al.length = dss.length) :
    (dss.zip al).map (fun p => p.2) = al := by
  have := List.map_snd_zip (l₁ := dss) (l₂ := al) (by omega)
  simpa using this

theorem iselDropna_table {α : Type} (parts : List (DA α)) (al : List (List Rat)) (hc : parts.map (·.coord) = al) :
    (List.range (alignedAxis al).length).map (fun i => (xrConcat parts).iselDropna i) =
      (alignedAxis al).map (fun v => parts.filterMap (fun a => a.at? v)) := by
  have hco : (xrConcat parts).coord = alignedAxis al := by simp [xrConcat, hc, npUnique, alignedAxis]
  simp only [Joined.iselDropna, hco]
  exact range_map_getD (fun v => (xrConcat parts).parts.filterMap (fun a => a.at? v)) (alignedAxis al)

theorem gen_align_dataset_indices_eq (dss : List Dataset) (al : List (List Rat)) (hlen : al.length = dss.length) :
    Gen.align_dataset_indices (alignedAxis al) ((dss.map (·.label)).zip al) = (tablesOf dss al).indices := by
  unfold Gen.align_dataset_indices
  simp only [tablesOf, List.map_map, zip_labels]
  rw [iselDropna_table _ al (by simp [List.map_map, Function.comp_def, zip_snd dss al hlen])]
  apply List.map_congr_left
  intro v _
  simp only [Function.comp, List.filterMap_map]
  rw [members_map v (fun _ j => j) dss al hlen]
  apply List.filterMap_congr
  intro p _
  simp only [Function.comp, DA.at?]
  cases hp : posOf v p.2 with
  | none => rfl
  | some j => simp [posOf_lt v p.2 j hp]

theorem find_label : ∀ (dss : List Dataset), (dss.map (·.label)).Nodup → ∀ ds ∈ dss,
    dss.find? (fun d => d.label == ds.label) = some ds := by
  intro dss
  induction dss with
  | nil => intro _ ds h; cases h
  | cons d rest ih =>
    intro hnd ds hds
    rw [List.map_cons, List.nodup_cons] at hnd
    rw [List.find?_cons]
    rcases List.mem_cons.mp hds with rfl | hmem
    · simp
    · have hne : (d.label == ds.label) = false := by
        rw [beq_eq_false_iff_ne]
        intro he
        exact hnd.1 (List.mem_map.mpr ⟨ds, hmem, he.symm⟩)
      rw [hne]
      exact ih hnd.2 ds hmem

/-- `DataProvider.get_data(label)`: the dataset's columns, multiplied by the weight when there is one (`DataProvider.__init__`) -/
def providerData (dss : List Dataset) (l : String) : List (List Rat) :=
  match dss.find? (fun ds => ds.label == l) with
  | some ds => (List.range ds.data.length).map (weightedColumn ds)
  | none => []

theorem xrConcat_coord {α : Type} (parts : List (DA α)) (al : List (List Rat)) (hc : parts.map (·.coord) = al) :
    (xrConcat parts).coordData = alignedAxis al := by
  simp [Joined.coordData, xrConcat, hc, npUnique, alignedAxis]

theorem gen_align_data_eq (dss : List Dataset) (al : List (List Rat)) (hlen : al.length = dss.length)
    (hlab : (dss.map (·.label)).Nodup) (hrows : ∀ p ∈ dss.zip al, p.2.length ≤ p.1.data.length) :
    Gen.align_data (providerData dss) ((dss.map (·.label)).zip al) = ((tablesOf dss al).axis, (tablesOf dss al).data) := by
  unfold Gen.align_data
  simp only [zip_labels, List.map_map]
  have hc : (((dss.zip al).map ((fun kv : String × List Rat => DA.mk (providerData dss kv.1) kv.2) ∘
      fun p => (p.1.label, p.2)))).map (·.coord) = al := by
    simp [List.map_map, Function.comp_def, zip_snd dss al hlen]
  rw [xrConcat_coord _ al hc]
  have hfl : ∀ J : Joined (List Rat), (fun i => List.flatten (J.iselDropna i)) = List.flatten ∘ (fun i => J.iselDropna i) :=
    fun _ => rfl
  rw [hfl, ← List.map_map, iselDropna_table _ al hc]
  simp only [tablesOf, List.map_map, Prod.mk.injEq, true_and]
  apply List.map_congr_left
  intro v _
  simp only [Function.comp, List.filterMap_map]
  rw [members_map v (fun ds j => weightedColumn ds j) dss al hlen]
  congr 1
  apply List.filterMap_congr
  intro p hp
  simp only [Function.comp, DA.at?]
  have hmem : p.1 ∈ dss := (List.of_mem_zip hp).1
  have hpd : providerData dss p.1.label = (List.range p.1.data.length).map (weightedColumn p.1) := by
    simp [providerData, find_label dss hlab p.1 hmem]
  rw [hpd]
  cases hpos : posOf v p.2 with
  | none => rfl
  | some j =>
    have hj : j < p.1.data.length := lt_of_lt_of_le (posOf_lt v p.2 j hpos) (hrows p hp)
    simp [hj]

/-! ### `align_groups` -/

/-- `aligned_groups.isel({"global": i}).data` at the joined coordinate `v`: the label of every dataset that has `v`, `""` for the others -/
def fillRow (dss : List Dataset) (al : List (List Rat)) (v : Rat) : List String :=
  (dss.zip al).map (fun p => if (posOf v p.2).isSome then p.1.label else "")

theorem join_fill {β : Type} (c : β → Bool) (lab : β → String) : ∀ l : List β,
    String.join (l.map (fun p => if c p then lab p else "")) =
      String.join (l.filterMap (fun p => if c p then some (lab p) else none)) := by
  intro l
  induction l with
  | nil => rfl
  | cons x xs ih =>
    by_cases h : c x = true
    · simp [h, String.join_cons, ih]
    · simp [h, String.join_cons, ih]

theorem filter_fill {β : Type} (c : β → Bool) (lab : β → String) : ∀ l : List β, (∀ p ∈ l, lab p ≠ "") →
    (l.map (fun p => if c p then lab p else "")).filter (fun s => s != "") =
      l.filterMap (fun p => if c p then some (lab p) else none) := by
  intro l
  induction l with
  | nil => intro _; rfl
  | cons x xs ih =>
    intro hne
    have ih' := ih (fun p hp => hne p (List.mem_cons_of_mem _ hp))
    by_cases h : c x = true
    · have := hne x (by simp)
      simp [h, this, ih']
    · simp [h, ih']

theorem memLabels_eq (dss : List Dataset) (al : List (List Rat)) (hlen : al.length = dss.length) (v : Rat) :
    (members al v).map (fun p => (dss.getD p.1 default).label) =
      (dss.zip al).filterMap (fun p => if (posOf v p.2).isSome then some p.1.label else none) := by
  rw [members_map v (fun ds _ => ds.label) dss al hlen]
  apply List.filterMap_congr
  intro p _
  cases posOf v p.2 <;> rfl

theorem groupDefs_fold (G : Nat → List String) : ∀ (rows : List (List String)) (k : Nat) (acc : Dict (List String)),
    (∀ i (h : i < rows.length), G (k + i) = rows[i].filter (fun s => s != "")) →
    ((rows.map String.join).zipIdx k).foldl (fun d xi =>
        if (!(dictHas d xi.1)) = true then dictSet d xi.1 (G xi.2) else d) acc =
      groupDefs acc ((rows.map String.join).zip (rows.map (fun r => r.filter (fun s => s != "")))) := by
  intro rows
  induction rows with
  | nil => intro k acc _; rfl
  | cons r rest ih =>
    intro k acc hG
    have h0 := hG 0 (by simp)
    simp only [Nat.add_zero, List.getElem_cons_zero] at h0
    have hG' : ∀ i (h : i < rest.length), G (k + 1 + i) = rest[i].filter (fun s => s != "") := by
      intro i h
      have := hG (i + 1) (by simp; omega)
      simp only [List.getElem_cons_succ] at this
      rw [← this]
      congr 1
      omega
    simp only [List.map_cons, List.zipIdx_cons, List.foldl_cons, List.zip_cons_cons, groupDefs]
    by_cases hh : dictHas acc (String.join r) = true
    · have hany : acc.any (fun e => e.1 == String.join r) = true := hh
      simp only [hh, Bool.not_true, Bool.false_eq_true, if_false, hany, if_true]
      exact ih (k + 1) acc hG'
    · simp only [Bool.not_eq_true] at hh
      have hany : acc.any (fun e => e.1 == String.join r) = false := hh
      simp only [hh, Bool.not_false, if_true, hany, Bool.false_eq_true, if_false]
      rw [dictSet_fresh _ _ _ hh, h0]
      exact ih (k + 1) _ hG'

theorem gen_align_groups_eq (dss : List Dataset) (al : List (List Rat)) (hlen : al.length = dss.length)
    (hne : ∀ ds ∈ dss, ds.label ≠ "") :
    Gen.align_groups ((dss.map (·.label)).zip al) = ((tablesOf dss al).labels, (tablesOf dss al).defs) := by
  unfold Gen.align_groups
  simp only [zip_labels, List.map_map]
  -- the joined array, row by row
  have hrow : ∀ i, (xrConcatFill ((dss.zip al).map ((fun kv : String × List Rat =>
        DA.mk (List.replicate kv.2.length kv.1) kv.2) ∘ fun p => (p.1.label, p.2))) "").iselData i =
      fillRow dss al ((alignedAxis al).getD i 0) := by
    intro i
    have hco : (((dss.zip al).map ((fun kv : String × List Rat =>
        DA.mk (List.replicate kv.2.length kv.1) kv.2) ∘ fun p => (p.1.label, p.2))).map (·.coord)) = al := by
      simp [List.map_map, Function.comp_def, zip_snd dss al hlen]
    simp only [Joined.iselData, xrConcatFill, hco, npUnique, fillRow, List.map_map]
    apply List.map_congr_left
    intro p _
    simp only [Function.comp, DA.at?, Option.getD_some]
    have hv : unique al.flatten = alignedAxis al := rfl
    rw [hv]
    cases hp : posOf ((alignedAxis al).getD i 0) p.2 with
    | none => simp
    | some j => simp [posOf_lt _ p.2 j hp]
  have hlenc : (xrConcatFill ((dss.zip al).map ((fun kv : String × List Rat =>
        DA.mk (List.replicate kv.2.length kv.1) kv.2) ∘ fun p => (p.1.label, p.2))) "").coord.length = (alignedAxis al).length := by
    simp [xrConcatFill, npUnique, alignedAxis, List.map_map, Function.comp_def, zip_snd dss al hlen]
  have hgroups : (xrConcatFill ((dss.zip al).map ((fun kv : String × List Rat =>
        DA.mk (List.replicate kv.2.length kv.1) kv.2) ∘ fun p => (p.1.label, p.2))) "").groupbyGlobal =
      (alignedAxis al).map (fillRow dss al) := by
    unfold Joined.groupbyGlobal
    rw [hlenc, ← range_map_getD (fillRow dss al) (alignedAxis al)]
    apply List.map_congr_left
    intro i _
    exact hrow i
  rw [hgroups]
  unfold enumFold
  simp only [hrow]
  have hfold := groupDefs_fold (fun i => (fillRow dss al ((alignedAxis al).getD i 0)).filter (fun s => s != ""))
    ((alignedAxis al).map (fillRow dss al)) 0 [] (by
      intro i h
      have hi : i < (alignedAxis al).length := by simpa using h
      simp [List.getD_eq_getElem?_getD, List.getElem?_eq_getElem hi])
  simp only [List.map_map] at hfold ⊢
  rw [hfold]
  have hlabs : (tablesOf dss al).labels = (alignedAxis al).map (String.join ∘ fillRow dss al) := by
    simp only [tablesOf, List.map_map]
    apply List.map_congr_left
    intro v _
    simp only [Function.comp, fillRow]
    rw [join_fill, memLabels_eq dss al hlen]
  have hmem : (alignedAxis al).map ((fun r => r.filter (fun s => s != "")) ∘ fillRow dss al) =
      (alignedAxis al).map (fun v => (members al v).map (fun p => (dss.getD p.1 default).label)) := by
    apply List.map_congr_left
    intro v _
    simp only [Function.comp, fillRow]
    rw [filter_fill _ _ _ (fun p hp => hne p.1 (List.of_mem_zip hp).1), memLabels_eq dss al hlen]
  rw [hlabs, hmem]
  simp only [tablesOf, List.map_map, Prod.mk.injEq, true_and]
  congr 2
  apply List.map_congr_left
  intro v _
  simp only [Function.comp, fillRow]
  rw [join_fill, memLabels_eq dss al hlen]


/-! ### `align_weights` -/

theorem foldl_append_singleton {α β : Type} (f : α → β) : ∀ (l : List α) (init : List β),
    l.foldl (fun acc x => acc ++ [f x]) init = init ++ l.map f := by
  intro l
  induction l with
  | nil => intro init; simp
  | cons x xs ih => intro init; simp [ih]

theorem set_append_here {γ : Type} (done rest : List γ) (a b : γ) :
    (done ++ a :: rest).set done.length b = done ++ b :: rest := by
  induction done with
  | nil => rfl
  | cons d ds ih => simp [ih]

/-- a loop that stores `some (g i x)` at position `i` of a list of `None`s for the entries that satisfy `c` -/
theorem enumFold_set {β γ : Type} (c : Nat → β → Bool) (g : Nat → β → γ) : ∀ (xs : List β) (done : List (Option γ)),
    (xs.zipIdx done.length).foldl (fun aw xi => if c xi.2 xi.1 = true then aw.set xi.2 (some (g xi.2 xi.1)) else aw)
        (done ++ List.replicate xs.length none) =
      done ++ (xs.zipIdx done.length).map (fun xi => if c xi.2 xi.1 = true then some (g xi.2 xi.1) else none) := by
  intro xs
  induction xs with
  | nil => intro done; simp
  | cons x xs ih =>
    intro done
    simp only [List.zipIdx_cons, List.foldl_cons, List.length_cons, List.replicate_succ, List.map_cons]
    have hstep : (if c done.length x = true then (done ++ none :: List.replicate xs.length none).set done.length (some (g done.length x))
        else done ++ none :: List.replicate xs.length none) =
        (done ++ [if c done.length x = true then some (g done.length x) else none]) ++ List.replicate xs.length none := by
      by_cases h : c done.length x = true
      · simp only [h, if_true, set_append_here]; simp
      · simp only [h, if_false]; simp
    rw [hstep]
    have := ih (done ++ [if c done.length x = true then some (g done.length x) else none])
    simp only [List.length_append, List.length_singleton] at this
    rw [this]
    simp

theorem dictHas_eq_find {α : Type} (d : Dict α) (k : String) : dictHas d k = (d.find? (fun e => e.1 == k)).isSome := by
  induction d with
  | nil => rfl
  | cons e es ih =>
    simp only [dictHas, List.any_cons, List.find?_cons] at ih ⊢
    by_cases h : (e.1 == k) = true
    · simp [h]
    · simp only [Bool.not_eq_true] at h
      simp [h, ih]

/-- looking a dataset's label up in a dict built from the datasets (labels pairwise different) -/
theorem find_filterMap_label {β : Type} (g : Dataset → Option β) : ∀ (dss : List Dataset), (dss.map (·.label)).Nodup →
    ∀ ds0 ∈ dss, (dss.filterMap (fun ds => (g ds).map (fun b => (ds.label, b)))).find? (fun e => e.1 == ds0.label) =
      (g ds0).map (fun b => (ds0.label, b)) := by
  intro dss
  induction dss with
  | nil => intro _ ds0 h; cases h
  | cons d rest ih =>
    intro hnd ds0 hds
    rw [List.map_cons, List.nodup_cons] at hnd
    rcases List.mem_cons.mp hds with rfl | hmem
    · cases hg : g ds0 with
      | some b => simp [hg]
      | none =>
        simp only [List.filterMap_cons, hg, Option.map_none]
        rw [List.find?_eq_none]
        intro e he
        obtain ⟨ds, hds', hmap⟩ := List.mem_filterMap.mp he
        cases hg' : g ds with
        | none => rw [hg'] at hmap; cases hmap
        | some b =>
          rw [hg'] at hmap
          simp only [Option.map_some, Option.some.injEq] at hmap
          subst hmap
          simp only [beq_iff_eq]
          intro heq
          exact hnd.1 (List.mem_map.mpr ⟨ds, hds', heq⟩)
    · have hne : (d.label == ds0.label) = false := by
        rw [beq_eq_false_iff_ne]
        intro he
        exact hnd.1 (List.mem_map.mpr ⟨ds0, hmem, he.symm⟩)
      cases hg : g d with
      | none => simp only [List.filterMap_cons, hg, Option.map_none]; exact ih hnd.2 ds0 hmem
      | some b =>
        simp only [List.filterMap_cons, hg, Option.map_some, List.find?_cons, hne]
        exact ih hnd.2 ds0 hmem

/-- looking a dataset's label up in the dict of aligned axes gives the aligned axis zipped with it -/
theorem zip_lookup : ∀ (dss : List Dataset) (al : List (List Rat)), (dss.map (·.label)).Nodup → ∀ p ∈ dss.zip al,
    dictGetD ((dss.map (·.label)).zip al) p.1.label [] = p.2 := by
  intro dss
  induction dss with
  | nil => intro al _ p h; simp at h
  | cons d rest ih =>
    intro al hnd p hp
    cases al with
    | nil => simp at hp
    | cons a al' =>
      rw [List.map_cons, List.nodup_cons] at hnd
      simp only [List.zip_cons_cons, List.mem_cons] at hp
      rcases hp with rfl | hmem
      · simp [dictGetD]
      · have hne : (d.label == p.1.label) = false := by
          rw [beq_eq_false_iff_ne]
          intro he
          exact hnd.1 (List.mem_map.mpr ⟨p.1, (List.of_mem_zip hmem).1, he.symm⟩)
        have := ih al' hnd.2 p hmem
        simp only [dictGetD, List.map_cons, List.zip_cons_cons, List.find?_cons, hne] at this ⊢
        exact this

/-- `all_weights` of `align_weights`: the weighted datasets' weights as arrays over their aligned axes -/
def allWeights (dss : List Dataset) (ga : Dict (List Rat)) : Dict (DA (List Rat)) :=
  dss.filterMap (fun ds => (ds.weight.map (fun w => DA.mk w (dictGetD ga ds.label []))).map (fun b => (ds.label, b)))

theorem allWeights_has (dss : List Dataset) (ga : Dict (List Rat)) (hlab : (dss.map (·.label)).Nodup) (ds : Dataset)
    (hds : ds ∈ dss) : dictHas (allWeights dss ga) ds.label = ds.weight.isSome := by
  rw [dictHas_eq_find, allWeights,
    find_filterMap_label (fun ds => ds.weight.map (fun w => DA.mk w (dictGetD ga ds.label []))) dss hlab ds hds]
  cases ds.weight <;> rfl

theorem allWeights_get (dss : List Dataset) (ga : Dict (List Rat)) (hlab : (dss.map (·.label)).Nodup) (ds : Dataset)
    (hds : ds ∈ dss) (w : List (List Rat)) (hw : ds.weight = some w) :
    dictGetD (allWeights dss ga) ds.label default = DA.mk w (dictGetD ga ds.label []) := by
  rw [dictGetD, allWeights,
    find_filterMap_label (fun ds => ds.weight.map (fun w => DA.mk w (dictGetD ga ds.label []))) dss hlab ds hds, hw]
  rfl

/-- one entry of `index_weights`: the member's own weight column at its own index, or ones -/
theorem weight_entry (dss : List Dataset) (al : List (List Rat)) (hlab : (dss.map (·.label)).Nodup)
    (p : Dataset × List Rat) (hp : p ∈ dss.zip al) (v : Rat) (j : Nat) (hj : posOf v p.2 = some j) :
    (if dictHas (allWeights dss ((dss.map (·.label)).zip al)) p.1.label = true then
        DA.sel (dictGetD (allWeights dss ((dss.map (·.label)).zip al)) p.1.label default) v
      else List.replicate (msizeOf dss p.1.label) (1 : Rat)) = weightColumn p.1 j := by
  have hmem : p.1 ∈ dss := (List.of_mem_zip hp).1
  rw [allWeights_has dss _ hlab p.1 hmem]
  unfold weightColumn
  cases hw : p.1.weight with
  | none => simp [msizeOf_label dss hlab p.1 hmem]
  | some w =>
    simp only [Option.isSome_some, if_true]
    rw [allWeights_get dss _ hlab p.1 hmem w hw, zip_lookup dss al hlab p hp]
    simp [DA.sel, DA.at?, hj, List.getD_eq_getElem?_getD]
    rfl

theorem any_filterMap' {α β : Type} (g : α → Option β) (q : β → Bool) : ∀ l : List α,
    (l.filterMap g).any q = l.any (fun x => match g x with | some y => q y | none => false) := by
  intro l
  induction l with
  | nil => rfl
  | cons x xs ih =>
    cases hg : g x with
    | none => simp [List.filterMap_cons, hg, ih]
    | some y => simp [List.filterMap_cons, hg, ih]

/-- what the regenerated `align_weights` computes at one aligned point `v` whose group definition is the list of its
    members' labels -/
theorem weights_at (dss : List Dataset) (al : List (List Rat)) (hlen : al.length = dss.length)
    (hlab : (dss.map (·.label)).Nodup) (v : Rat) :
    ((members al v).map (fun p => (dss.getD p.1 default).label)).any
        (fun label => dictHas (allWeights dss ((dss.map (·.label)).zip al)) label) =
      (members al v).any (fun p => (dss.getD p.1 default).weight.isSome) ∧
    ((members al v).map (fun p => (dss.getD p.1 default).label)).foldl (fun iw label =>
        if dictHas (allWeights dss ((dss.map (·.label)).zip al)) label = true then
          iw ++ [DA.sel (dictGetD (allWeights dss ((dss.map (·.label)).zip al)) label default) v]
        else iw ++ [List.replicate (msizeOf dss label) (1 : Rat)]) [] =
      (members al v).map (fun p => weightColumn (dss.getD p.1 default) p.2) := by
  constructor
  · rw [memLabels_eq dss al hlen, any_filterMap']
    have h2 : (members al v).any (fun p => (dss.getD p.1 default).weight.isSome) =
        ((members al v).map (fun p => (dss.getD p.1 default).weight.isSome)).any id := by
      rw [List.any_map]; rfl
    rw [h2, members_map v (fun ds _ => ds.weight.isSome) dss al hlen, any_filterMap']
    rw [Bool.eq_iff_iff, List.any_eq_true, List.any_eq_true]
    constructor
    · rintro ⟨p, hp, h⟩
      refine ⟨p, hp, ?_⟩
      cases hpos : posOf v p.2 with
      | none => simp [hpos] at h
      | some j =>
        simp only [hpos, Option.isSome_some, if_true] at h
        simpa [allWeights_has dss _ hlab p.1 (List.of_mem_zip hp).1] using h
    · rintro ⟨p, hp, h⟩
      refine ⟨p, hp, ?_⟩
      cases hpos : posOf v p.2 with
      | none => simp [hpos] at h
      | some j =>
        simp only [hpos, Option.map_some, id] at h
        simpa [allWeights_has dss _ hlab p.1 (List.of_mem_zip hp).1] using h
  · have hf : (fun (iw : List (List Rat)) (label : String) =>
          if dictHas (allWeights dss ((dss.map (·.label)).zip al)) label = true then
            iw ++ [DA.sel (dictGetD (allWeights dss ((dss.map (·.label)).zip al)) label default) v]
          else iw ++ [List.replicate (msizeOf dss label) (1 : Rat)]) =
        (fun iw label => iw ++ [if dictHas (allWeights dss ((dss.map (·.label)).zip al)) label = true then
            DA.sel (dictGetD (allWeights dss ((dss.map (·.label)).zip al)) label default) v
          else List.replicate (msizeOf dss label) (1 : Rat)]) := by
      funext iw label
      split <;> rfl
    rw [hf, foldl_append_singleton, List.nil_append, memLabels_eq dss al hlen, List.map_filterMap,
      members_map v (fun ds j => weightColumn ds j) dss al hlen]
    apply List.filterMap_congr
    intro p hp
    cases hpos : posOf v p.2 with
    | none => rfl
    | some j =>
      simp only [Option.isSome_some, if_true, Option.map_some, Option.some.injEq]
      exact weight_entry dss al hlab p hp v j hpos

theorem allWeights_nil (dss : List Dataset) (ga : Dict (List Rat)) (h : (allWeights dss ga).isEmpty = true) :
    ∀ ds ∈ dss, ds.weight = none := by
  intro ds hds
  rw [List.isEmpty_iff] at h
  unfold allWeights at h
  rw [List.filterMap_eq_nil_iff] at h
  have := h ds hds
  cases hw : ds.weight with
  | none => rfl
  | some w => rw [hw] at this; simp at this

theorem gen_align_weights_core (dss : List Dataset) (al : List (List Rat)) (hlen : al.length = dss.length)
    (hlab : (dss.map (·.label)).Nodup) (labels : List String) (defs : Dict (List String))
    (hl : labels.length = (alignedAxis al).length)
    (hdefs : ∀ i (h : i < (alignedAxis al).length), dictGetD defs (labels.getD i "") [] =
      (members al (alignedAxis al)[i]).map (fun p => (dss.getD p.1 default).label)) :
    Gen.align_weights (dss.map (fun ds => (ds.label, ds.weight))) (alignedAxis al) labels defs (msizeOf dss)
        ((dss.map (·.label)).zip al) =
      (alignedAxis al).map (fun v =>
        if (members al v).any (fun p => (dss.getD p.1 default).weight.isSome) then
          some ((members al v).map (fun p => weightColumn (dss.getD p.1 default) p.2)).flatten
        else none) := by
  unfold Gen.align_weights
  have haw : (dss.map (fun ds => (ds.label, ds.weight))).filterMap (fun kv =>
        (kv.2).map (fun weight => (kv.1, DA.mk weight (dictGetD ((dss.map (·.label)).zip al) kv.1 [])))) =
      allWeights dss ((dss.map (·.label)).zip al) := by
    rw [List.filterMap_map]
    unfold allWeights
    apply List.filterMap_congr
    intro ds _
    simp only [Function.comp]
    cases ds.weight <;> rfl
  simp only [haw]
  by_cases hemp : (allWeights dss ((dss.map (·.label)).zip al)).isEmpty = true
  · -- no dataset is weighted
    have hnone := allWeights_nil dss _ hemp
    simp only [hemp, Bool.not_true, Bool.false_eq_true, if_false]
    rw [← List.map_const']
    apply List.map_congr_left
    intro v _
    have : (members al v).any (fun p => (dss.getD p.1 default).weight.isSome) = false := by
      rw [List.any_eq_false]
      intro p hp
      have hplt : p.1 < dss.length := by rw [← hlen]; exact members_lt al v p hp
      have hget : dss.getD p.1 default = dss[p.1] := by
        simp [List.getD_eq_getElem?_getD, List.getElem?_eq_getElem hplt]
      rw [hget, hnone _ (List.getElem_mem hplt)]
      simp
    rw [this]
    rfl
  · simp only [Bool.not_eq_true] at hemp
    simp only [hemp, Bool.not_false, if_true, enumFold]
    rw [← hl]
    refine (enumFold_set (fun i group_label => (dictGetD defs group_label []).any
        (fun label => dictHas (allWeights dss ((dss.map (·.label)).zip al)) label))
      (fun i group_label => List.flatten ((dictGetD defs group_label []).foldl (fun iw label =>
        if dictHas (allWeights dss ((dss.map (·.label)).zip al)) label = true then
          iw ++ [DA.sel (dictGetD (allWeights dss ((dss.map (·.label)).zip al)) label default) ((alignedAxis al).getD i 0)]
        else iw ++ [List.replicate (msizeOf dss label) (1 : Rat)]) [])) labels []).trans ?_
    simp only [List.nil_append, List.length_nil]
    apply List.ext_getElem
    · simp [hl]
    · intro i h1 h2
      have hi : i < (alignedAxis al).length := by simpa using h2
      have hil : i < labels.length := by omega
      have hd := hdefs i hi
      have hlabi : labels.getD i "" = labels[i] := by
        simp [List.getD_eq_getElem?_getD, List.getElem?_eq_getElem hil]
      have hax : (alignedAxis al).getD i 0 = (alignedAxis al)[i] := by
        simp [List.getD_eq_getElem?_getD, List.getElem?_eq_getElem hi]
      rw [hlabi] at hd
      simp only [List.getElem_map, List.getElem_zipIdx, Nat.zero_add, hd, hax]
      obtain ⟨hany, hfold⟩ := weights_at dss al hlen hlab (alignedAxis al)[i]
      rw [hany, hfold]

/-! ### array identity -/

theorem read_append (s extra : Store) (r : Nat) (h : r < s.length) : Store.read (s ++ extra) r = Store.read s r := by
  simp [Store.read, List.getD_eq_getElem?_getD, List.getElem?_append_left h]

theorem alignLoopRef_spec (tol : Rat) (m : Method) : ∀ (refs : List Nat) (s : Store) (acc : Nat), acc < s.length →
    (∀ r ∈ refs, r < s.length) →
    (alignLoopRef tol m s (some acc) refs = none ↔ alignLoop tol m (some (s.read acc)) (refs.map s.read) = none) ∧
    ∀ s' outs, alignLoopRef tol m s (some acc) refs = some (s', outs) →
      (∃ extra, s' = s ++ extra) ∧ alignLoop tol m (some (s.read acc)) (refs.map s.read) = some (outs.map s'.read) ∧
      ∀ r ∈ outs, s.length ≤ r := by
  intro refs
  induction refs with
  | nil =>
    intro s acc _ _
    refine ⟨by simp [alignLoopRef, alignLoop], ?_⟩
    intro s' outs h
    simp only [alignLoopRef, Option.some.injEq, Prod.mk.injEq] at h
    obtain ⟨rfl, rfl⟩ := h
    exact ⟨⟨[], by simp⟩, by simp [alignLoop], by simp⟩
  | cons r rest ih =>
    intro s acc hacc hrefs
    have hr : r < s.length := hrefs r (by simp)
    simp only [alignLoopRef, List.map_cons, alignLoop]
    by_cases hd : hasDup ((s.read r).map (fun x => alignIndex x (s.read acc) tol m)) = true
    · simp [hd]
    · simp only [hd, Bool.false_eq_true, if_false]
      set al := (s.read r).map (fun x => alignIndex x (s.read acc) tol m) with hal
      set u := unique (s.read acc ++ al) with hu
      set s2 : Store := s ++ [al] ++ [u] with hs2
      have hlen2 : s2.length = s.length + 2 := by simp [hs2]
      have hread2 : ∀ q, q < s.length → s2.read q = s.read q := by
        intro q hq
        rw [hs2, List.append_assoc]
        exact read_append s _ q hq
      have hacc2 : s2.read (s.length + 1) = u := by
        simp [hs2, Store.read, List.getD_eq_getElem?_getD]
      have hal2 : s2.read s.length = al := by
        simp [hs2, Store.read, List.getD_eq_getElem?_getD]
      have hmap : rest.map s2.read = rest.map s.read := by
        apply List.map_congr_left
        intro q hq
        exact hread2 q (hrefs q (by simp [hq]))
      obtain ⟨ihn, ihs⟩ := ih s2 (s.length + 1) (by omega) (fun q hq => by
        have := hrefs q (by simp [hq]); omega)
      rw [hacc2, hmap] at ihn ihs
      constructor
      · rw [Option.map_eq_none_iff, Option.map_eq_none_iff]
        exact ihn
      · intro s' outs h
        rw [Option.map_eq_some_iff] at h
        obtain ⟨⟨s'', outs'⟩, hrec, heq⟩ := h
        simp only [Prod.mk.injEq] at heq
        obtain ⟨rfl, rfl⟩ := heq
        obtain ⟨⟨extra, hex⟩, hloop, hfresh⟩ := ihs s'' outs' hrec
        refine ⟨⟨[al] ++ [u] ++ extra, by rw [hex, hs2]; simp⟩, ?_, ?_⟩
        · rw [hloop]
          simp only [Option.map_some, List.map_cons, Option.some.injEq, List.cons.injEq, and_true]
          rw [hex, read_append s2 extra s.length (by omega), hal2]
        · intro q hq
          rcases List.mem_cons.mp hq with rfl | hq'
          · exact Nat.le_refl _
          · have := hfresh q hq'
            omega

end Glotaran.C09
