/-
C15 — helper lemmas about the state machine `Glotaran.C15.optimizeSM`:
  1. the machine instantiated with the *regenerated* statement tables equals the hand-written
     order of effects of the current source (`…Spec` functions, `…_eq` lemmas) — these are the
     lemmas that stop compiling when `optimizer.py` is reordered;
  2. closed forms of `leastSquares` on schedules split at their first fault, frame facts (what no
     step touches), the history/evaluatedOK invariant, irrelevance of `verbose`.
-/
import GlotaranModel.C15
namespace Glotaran.C15

variable {V R P : Type}

/-! ### specification of the up-front validation (the documented order) -/

/-- what is wrong with one dataset group: a missing parameter label is reported before an unknown
    residual function -/
def groupProblem (g : GroupSpec) : Option Err :=
  match g.missingLabel with
  | some l => some (.parameterNotFound l)
  | none =>
    if g.residualFunction ∈ Generated.supportedResidualFunctions then none
    else some (.unsupportedResidualFunction g.residualFunction)

/-- the documented error of a scheme that cannot be optimised: data, parameters, method, then the
    dataset groups in order; `none` = the scheme is accepted -/
def documentedError (s : Scheme P) : Option Err :=
  if s.missingData ≠ [] then some (.missingDatasets s.missingData)
  else if s.parameters.isNone then some .parameterNotInitialized
  else if s.method ∉ Generated.supportedMethods then some (.unsupportedMethod s.method)
  else s.groups.findSome? groupProblem

theorem initGroup_eq (g : GroupSpec) : initGroup g = groupProblem g := by
  unfold initGroup groupProblem
  cases g.missingLabel <;> simp

theorem initGroups_eq (gs : List GroupSpec) : initGroups gs = gs.findSome? groupProblem := by
  induction gs with
  | nil => rfl
  | cons g gs ih =>
    simp only [initGroups, List.findSome?_cons, initGroup_eq]
    cases groupProblem g <;> simp [ih]

/-! ### 1. the regenerated tables give the order of effects of the current source -/

/-- `Optimizer.__init__`, hand-written: validation in the documented order; the tee remembers the
    current `sys.stdout`; the first history record is taken from the optimizer's **own** copy of the
    parameters (which `ParameterHistory.append` refreshes in place) — the caller's scheme is not
    touched -/
def initSpec (ops : ParamOps V R P) (w : World P) (verbose raiseException : Bool) :
    Except Err (Optimizer V R P) :=
  if !w.scheme.missingData.isEmpty then .error (.missingDatasets w.scheme.missingData)
  else
    match w.scheme.parameters with
    | none => .error .parameterNotInitialized
    | some p0 =>
      if !Generated.supportedMethods.contains w.scheme.method then
        .error (.unsupportedMethod w.scheme.method)
      else
        match initGroups w.scheme.groups with
        | some e => .error e
        | none =>
          .ok { parameters := ops.start p0, teeSaved := w.stdout, verbose := verbose,
                raiseException := raiseException, optimizationResult := none,
                terminationReason := "", history := [ops.row (ops.start p0)] }

theorem init_eq (ops : ParamOps V R P) (w : World P) (v r : Bool) :
    init ops w v r = (w, initSpec ops w v r) := by
  unfold init initSpec
  by_cases h1 : w.scheme.missingData.isEmpty = true
  · cases hp : w.scheme.parameters with
    | none => simp [Generated.initSteps, runInit, initStep, h1, hp]
    | some p0 =>
      by_cases h3 : w.scheme.method ∈ Generated.supportedMethods
      · cases hg : initGroups w.scheme.groups with
        | some e => simp [Generated.initSteps, runInit, initStep, h1, hp, h3, hg]
        | none => simp [Generated.initSteps, runInit, initStep, h1, hp, h3, hg, appendFrom, ParamOps.start]
      · simp [Generated.initSteps, runInit, initStep, h1, hp, h3]
  · simp [Generated.initSteps, runInit, initStep, h1]

/-- `Optimizer.calculate_penalty`, hand-written: the sweep over the groups, and only after it has
    returned the record of the (refreshed) parameters -/
def calculatePenaltySpec (ops : ParamOps V R P) (w : World P) (o : Optimizer V R P) (fault : Option Msg) :
    World P × Optimizer V R P × Option Err :=
  match fault with
  | some m => ({ w with evaluations := w.evaluations + 1 }, o, some (.raised m))
  | none =>
    ({ w with evaluations := w.evaluations + 1, evaluatedOK := w.evaluatedOK ++ [o.parameters] },
     { o with parameters := ops.refresh o.parameters,
              history := o.history ++ [ops.row (ops.refresh o.parameters)] }, none)

@[simp] theorem calculatePenalty_eq (ops : ParamOps V R P) (w : World P) (o : Optimizer V R P)
    (fault : Option Msg) : calculatePenalty ops w o fault = calculatePenaltySpec ops w o fault := by
  cases fault <;>
    simp [calculatePenalty, Generated.penaltySteps, runPenalty, penaltyStep, evaluate, appendFrom,
      calculatePenaltySpec]

/-- `Optimizer.objective_function`, hand-written -/
def objectiveSpec (ops : ParamOps V R P) (w : World P) (o : Optimizer V R P) (c : Call V) :
    World P × Optimizer V R P × Option Err :=
  calculatePenaltySpec ops w { o with parameters := ops.setFree o.parameters c.x } c.fault

@[simp] theorem objective_eq (ops : ParamOps V R P) (w : World P) (o : Optimizer V R P) (c : Call V) :
    objective ops w o c = objectiveSpec ops w o c := by
  unfold objective objectiveSpec
  simp only [Generated.objectiveSteps, runObjective, objectiveStep, calculatePenalty_eq]
  cases c.fault <;> simp [calculatePenaltySpec]

/-- `Optimizer.optimize`, hand-written: the start vector is read from a copy of the scheme's
    parameters (nothing is refreshed); `try/except` inside the tee context; with `raise_exception`
    the exception is re-raised before anything else happens, otherwise one warning and the message
    as termination reason; `sys.stdout` is restored on every path -/
def optimizeSpec (ops : ParamOps V R P) (w : World P) (o : Optimizer V R P) (sch : Schedule V) :
    World P × Optimizer V R P × Option Err :=
  match leastSquares ops { w with stdout := Handle.tee } o sch.calls sch.finish with
  | (w, o, .ok res) =>
    ({ w with stdout := o.teeSaved },
     { o with optimizationResult := some res, terminationReason := res.message }, none)
  | (w, o, .error e) =>
    if o.raiseException then ({ w with stdout := o.teeSaved }, o, some e)
    else
      ({ w with stdout := o.teeSaved, warnings := w.warnings ++ [failureWarning e.msg] },
       { o with terminationReason := e.msg }, none)

theorem optimize_eq (ops : ParamOps V R P) (w : World P) (o : Optimizer V R P) (sch : Schedule V) :
    optimize ops w o sch = optimizeSpec ops w o sch := by
  unfold optimize optimizeSpec
  simp only [Generated.optimizeTable, readStart, ↓reduceIte, runTry, tryStep]
  rcases leastSquares ops { w with stdout := Handle.tee } o sch.calls sch.finish with ⟨w', o', r⟩
  cases r with
  | ok res => simp
  | error e =>
    simp only [runHandler, handlerStep]
    by_cases hr : o'.raiseException = true <;> simp [hr]

/-- the part of `create_result` after the parameters have been chosen, hand-written:
    `calculate_penalty()`, then `additional_penalty` is read, then the final `group.calculate` /
    `create_result_data` loop, then `Result(**result_args)` -/
def buildResultSpec (ops : ParamOps V R P) (w : World P) (o : Optimizer V R P) (sch : Schedule V)
    (restored : Option Nat) (nfe : Nat) : World P × Outcome R P :=
  match calculatePenaltySpec ops w o sch.penaltyFault with
  | (w, _, some e) => (w, .exception e)
  | (w, o2, none) =>
    match evaluate w o2.parameters sch.finalFault with
    | (w', some m) => (w', .exception (.raised m))
    | (w', none) =>
      match sch.dataFault with
      | some m => (w', .exception (.raised m))
      | none =>
        (w', .result { success := o.optimizationResult.isSome,
                       terminationReason := o2.terminationReason,
                       optimizedParameters := o2.parameters,
                       restoredRecord := restored,
                       numberOfFunctionEvaluations := nfe,
                       parameterHistory := o2.history,
                       penaltyOf := w.evaluatedOK.getLast?,
                       dataOf := some o2.parameters })

/-- `self._parameters.set_from_history(self._parameter_history, -2)` -/
def restoreSpec (ops : ParamOps V R P) (o : Optimizer V R P) : Optimizer V R P :=
  match o.history[o.history.length - 2]? with
  | some rec => { o with parameters := ops.fromRow o.parameters rec }
  | none => o     -- not reachable: the history has at least two records here

/-- `Optimizer.create_result`, hand-written -/
def createResultSpec (ops : ParamOps V R P) (w : World P) (o : Optimizer V R P) (sch : Schedule V) :
    World P × Outcome R P :=
  if o.history.length = 1 then (w, .exception .initialParameter)
  else if o.history.length = 0 then (w, .exception (.internal "IndexError"))
  else
    match o.optimizationResult with
    | none =>
      -- `number_of_function_evaluations` is read before the re-evaluation appends its record
      buildResultSpec ops w (restoreSpec ops o) sch (some (o.history.length - 2)) o.history.length
    | some r =>
      -- `set_from_label_and_value_arrays(labels, result.x)`, then the covariance matrix
      match sch.covarianceFault with
      | some m => (w, .exception (.raised m))
      | none => buildResultSpec ops w { o with parameters := ops.setFree o.parameters r.x } sch none r.nfev

theorem createResult_eq (ops : ParamOps V R P) (w : World P) (o : Optimizer V R P) (sch : Schedule V)
    (h0 : o.history.length ≠ 0) :
    createResult ops w o sch = createResultSpec ops w o sch := by
  unfold createResult createResultSpec
  by_cases h1 : o.history.length = 1
  · simp [Generated.createResultSteps, runCr, guardHolds, crStep, Frame.empty, h1]
  · simp only [h1, h0, ↓reduceIte]
    have hlen : 2 ≤ o.history.length := by omega
    have hlt : o.history.length - 2 < o.history.length := by omega
    cases hopt : o.optimizationResult with
    | none =>
      have hnot : ¬ (o.history.length < 2) := by omega
      simp only [Generated.createResultSteps, runCr, guardHolds, crStep, Frame.empty, hopt, h1,
        Option.isSome_none, Option.map_some, Bool.not_false, ↓reduceIte, hnot, or_false,
        List.getElem?_eq_getElem hlt, calculatePenalty_eq]
      simp only [buildResultSpec, restoreSpec, List.getElem?_eq_getElem hlt, hopt]
      cases hp : sch.penaltyFault with
      | some m => simp [calculatePenaltySpec]
      | none =>
        simp only [calculatePenaltySpec]
        cases hf : sch.finalFault with
        | some m => simp [evaluate]
        | none =>
          simp only [evaluate]
          cases hd : sch.dataFault with
          | some m => simp
          | none => simp
    | some r =>
      simp only [Generated.createResultSteps, runCr, guardHolds, crStep, Frame.empty, hopt, h1,
        Option.isSome_some, Option.map_some, Bool.not_true, ↓reduceIte, calculatePenalty_eq]
      cases hc : sch.covarianceFault with
      | some m => simp
      | none =>
        simp only [buildResultSpec]
        cases hp : sch.penaltyFault with
        | some m => simp [calculatePenaltySpec]
        | none =>
          simp only [calculatePenaltySpec]
          cases hf : sch.finalFault with
          | some m => simp [evaluate]
          | none =>
            simp only [evaluate]
            cases hd : sch.dataFault with
            | some m => simp
            | none => simp

/-! ### the validation -/

theorem initSpec_error (ops : ParamOps V R P) (w : World P) (v r : Bool) (e : Err)
    (h : documentedError w.scheme = some e) : initSpec ops w v r = .error e := by
  unfold documentedError at h
  unfold initSpec
  by_cases h1 : w.scheme.missingData = []
  · simp only [h1, ne_eq, not_true_eq_false, ↓reduceIte] at h
    simp only [h1, List.isEmpty_nil, Bool.not_true, Bool.false_eq_true, ↓reduceIte]
    cases hp : w.scheme.parameters with
    | none => simp [hp] at h; simp [h]
    | some p0 =>
      simp only [hp, Option.isNone_some, Bool.false_eq_true, ↓reduceIte] at h
      by_cases h3 : w.scheme.method ∈ Generated.supportedMethods
      · simp only [h3, not_true_eq_false, ↓reduceIte] at h
        simp [h3, initGroups_eq, h]
      · simp only [h3, not_false_eq_true, ↓reduceIte, Option.some.injEq] at h
        simp [h3, h]
  · simp only [ne_eq, h1, not_false_eq_true, ↓reduceIte, Option.some.injEq] at h
    simp [h1, h]

theorem initSpec_ok (ops : ParamOps V R P) (w : World P) (v r : Bool) (h : documentedError w.scheme = none) :
    ∃ p0, w.scheme.parameters = some p0 ∧
      initSpec ops w v r =
        .ok { parameters := ops.start p0, teeSaved := w.stdout, verbose := v, raiseException := r,
              optimizationResult := none, terminationReason := "",
              history := [ops.row (ops.start p0)] } := by
  unfold documentedError at h
  unfold initSpec
  by_cases h1 : w.scheme.missingData = []
  · simp only [h1, ne_eq, not_true_eq_false, ↓reduceIte] at h
    cases hp : w.scheme.parameters with
    | none => simp [hp] at h
    | some p0 =>
      simp only [hp, Option.isNone_some, Bool.false_eq_true, ↓reduceIte] at h
      by_cases h3 : w.scheme.method ∈ Generated.supportedMethods
      · simp only [h3, not_true_eq_false, ↓reduceIte] at h
        exact ⟨p0, rfl, by simp [h1, h3, initGroups_eq, h]⟩
      · simp [h3] at h
  · simp [h1] at h

/-! ### the parameter sets an optimiser run goes through -/

/-- the parameter set after an objective call at `v` returned -/
def ParamOps.step (ops : ParamOps V R P) (p : P) (v : V) : P := ops.refresh (ops.setFree p v)

/-- the parameter sets after each of the calls `vs` returned (starting from `p`) -/
def ParamOps.states (ops : ParamOps V R P) : P → List V → List P
  | _, [] => []
  | p, v :: vs => ops.step p v :: ops.states (ops.step p v) vs

/-- the parameter sets the calls `vs` were evaluated at -/
def ParamOps.evaluated (ops : ParamOps V R P) : P → List V → List P
  | _, [] => []
  | p, v :: vs => ops.setFree p v :: ops.evaluated (ops.step p v) vs

/-- the parameter set the optimizer holds after the calls `vs` returned -/
def ParamOps.last (ops : ParamOps V R P) (p : P) (vs : List V) : P := vs.foldl ops.step p

theorem ParamOps.states_length (ops : ParamOps V R P) : ∀ (vs : List V) (p : P),
    (ops.states p vs).length = vs.length := by
  intro vs
  induction vs with
  | nil => intro p; rfl
  | cons v vs ih => intro p; simp [ParamOps.states, ih]

theorem ParamOps.evaluated_length (ops : ParamOps V R P) : ∀ (vs : List V) (p : P),
    (ops.evaluated p vs).length = vs.length := by
  intro vs
  induction vs with
  | nil => intro p; rfl
  | cons v vs ih => intro p; simp [ParamOps.evaluated, ih]

theorem ParamOps.states_eq_map (ops : ParamOps V R P) : ∀ (vs : List V) (p : P),
    ops.states p vs = (ops.evaluated p vs).map ops.refresh := by
  intro vs
  induction vs with
  | nil => intro p; rfl
  | cons v vs ih => intro p; simp [ParamOps.states, ParamOps.evaluated, ih, ParamOps.step]

/-- the last state is the last element of `p :: states` -/
theorem ParamOps.last_eq (ops : ParamOps V R P) : ∀ (vs : List V) (p : P),
    (p :: ops.states p vs).getLast? = some (ops.last p vs) := by
  intro vs
  induction vs with
  | nil => intro p; rfl
  | cons v vs ih =>
    intro p
    have := ih (ops.step p v)
    simp only [ParamOps.states, ParamOps.last, List.foldl_cons] at this ⊢
    rw [List.getLast?_cons_cons]
    exact this

theorem ParamOps.plain_states (α : Type) : ∀ (vs : List α) (p : α),
    (ParamOps.plain α).states p vs = vs := by
  intro vs
  induction vs with
  | nil => intro p; rfl
  | cons v vs ih =>
    intro p
    have := ih v
    simp only [ParamOps.plain] at this
    simp [ParamOps.states, ParamOps.step, ParamOps.plain, this]

theorem ParamOps.plain_evaluated (α : Type) : ∀ (vs : List α) (p : α),
    (ParamOps.plain α).evaluated p vs = vs := by
  intro vs
  induction vs with
  | nil => intro p; rfl
  | cons v vs ih =>
    intro p
    have := ih v
    simp only [ParamOps.plain] at this
    simp [ParamOps.evaluated, ParamOps.step, ParamOps.plain, this]

/-! ### closed forms -/

theorem buildResultSpec_clean (ops : ParamOps V R P) (w : World P) (o : Optimizer V R P) (sch : Schedule V)
    (restored : Option Nat) (nfe : Nat) (hp : sch.penaltyFault = none) (hf : sch.finalFault = none)
    (hd : sch.dataFault = none) :
    buildResultSpec ops w o sch restored nfe =
      ({ w with evaluations := w.evaluations + 1 + 1,
                evaluatedOK := w.evaluatedOK ++ [o.parameters] ++ [ops.refresh o.parameters] },
       .result { success := o.optimizationResult.isSome, terminationReason := o.terminationReason,
                 optimizedParameters := ops.refresh o.parameters, restoredRecord := restored,
                 numberOfFunctionEvaluations := nfe,
                 parameterHistory := o.history ++ [ops.row (ops.refresh o.parameters)],
                 penaltyOf := some o.parameters,
                 dataOf := some (ops.refresh o.parameters) }) := by
  simp [buildResultSpec, calculatePenaltySpec, evaluate, hp, hf, hd]

/-- the calls before the first fault all return; the fault ends `least_squares` -/
theorem leastSquares_fault (ops : ParamOps V R P) (fin : LsqEnd V) (x : V) (m : Msg) (post : List (Call V)) :
    ∀ (pre : List (Call V)) (w : World P) (o : Optimizer V R P), (∀ c ∈ pre, c.fault = none) →
      leastSquares ops w o (pre ++ { x := x, fault := some m } :: post) fin =
        ({ w with evaluations := w.evaluations + pre.length + 1,
                  evaluatedOK := w.evaluatedOK ++ ops.evaluated o.parameters (pre.map (·.x)) },
         { o with parameters := ops.setFree (ops.last o.parameters (pre.map (·.x))) x,
                  history := o.history ++ (ops.states o.parameters (pre.map (·.x))).map ops.row },
         .error (.raised m)) := by
  intro pre
  induction pre with
  | nil =>
    intro w o _
    simp [leastSquares, objectiveSpec, calculatePenaltySpec, ParamOps.evaluated, ParamOps.states,
      ParamOps.last]
  | cons c cs ih =>
    intro w o h
    have hc : c.fault = none := h c (by simp)
    have hcs : ∀ c' ∈ cs, c'.fault = none := fun c' hc' => h c' (by simp [hc'])
    simp only [List.cons_append, leastSquares, objective_eq, objectiveSpec, calculatePenaltySpec, hc]
    rw [ih _ _ hcs]
    simp [Nat.add_assoc, Nat.add_comm 1, ParamOps.evaluated, ParamOps.states, ParamOps.last,
      ParamOps.step]

def endOf : LsqEnd V → Except Err (LsqResult V)
  | .returns r => .ok r
  | .raises m => .error (.raised m)

theorem leastSquares_clean (ops : ParamOps V R P) (fin : LsqEnd V) :
    ∀ (calls : List (Call V)) (w : World P) (o : Optimizer V R P), (∀ c ∈ calls, c.fault = none) →
      leastSquares ops w o calls fin =
        ({ w with evaluations := w.evaluations + calls.length,
                  evaluatedOK := w.evaluatedOK ++ ops.evaluated o.parameters (calls.map (·.x)) },
         { o with parameters := ops.last o.parameters (calls.map (·.x)),
                  history := o.history ++ (ops.states o.parameters (calls.map (·.x))).map ops.row },
         endOf fin) := by
  intro calls
  induction calls with
  | nil =>
    intro w o _
    cases fin <;> simp [leastSquares, ParamOps.last, endOf, ParamOps.evaluated, ParamOps.states]
  | cons c cs ih =>
    intro w o h
    have hc : c.fault = none := h c (by simp)
    have hcs : ∀ c' ∈ cs, c'.fault = none := fun c' hc' => h c' (by simp [hc'])
    simp only [leastSquares, objective_eq, objectiveSpec, calculatePenaltySpec, hc]
    rw [ih _ _ hcs]
    simp [ParamOps.last, Nat.add_assoc, Nat.add_comm 1, ParamOps.evaluated, ParamOps.states,
      ParamOps.step]

theorem restoreSpec_spec (ops : ParamOps V R P) (o : Optimizer V R P) (h : 2 ≤ o.history.length) :
    ∃ rec, o.history[o.history.length - 2]? = some rec ∧
      restoreSpec ops o = { o with parameters := ops.fromRow o.parameters rec } := by
  have hlt : o.history.length - 2 < o.history.length := by omega
  refine ⟨o.history[o.history.length - 2], by simp [hlt], ?_⟩
  simp [restoreSpec, hlt]

/-- `Optimizer.optimize` when the optimiser's call sequence faults -/
theorem optimize_fault (ops : ParamOps V R P) (w : World P) (o : Optimizer V R P) (sch : Schedule V)
    (pre post : List (Call V)) (x : V) (m : Msg)
    (hcalls : sch.calls = pre ++ { x := x, fault := some m } :: post)
    (hpre : ∀ c ∈ pre, c.fault = none) :
    optimize ops w o sch =
      if o.raiseException = true then
        ({ w with stdout := o.teeSaved, evaluations := w.evaluations + pre.length + 1,
                  evaluatedOK := w.evaluatedOK ++ ops.evaluated o.parameters (pre.map (·.x)) },
         { o with parameters := ops.setFree (ops.last o.parameters (pre.map (·.x))) x,
                  history := o.history ++ (ops.states o.parameters (pre.map (·.x))).map ops.row },
         some (.raised m))
      else
        ({ w with stdout := o.teeSaved, warnings := w.warnings ++ [failureWarning m],
                  evaluations := w.evaluations + pre.length + 1,
                  evaluatedOK := w.evaluatedOK ++ ops.evaluated o.parameters (pre.map (·.x)) },
         { o with parameters := ops.setFree (ops.last o.parameters (pre.map (·.x))) x,
                  history := o.history ++ (ops.states o.parameters (pre.map (·.x))).map ops.row,
                  terminationReason := m },
         none) := by
  have hls := leastSquares_fault ops sch.finish x m post pre { w with stdout := Handle.tee } o hpre
  rw [optimize_eq]
  simp only [optimizeSpec, hcalls, hls, Err.msg]

/-- `Optimizer.optimize` when every call returns and `least_squares` returns -/
theorem optimize_returns (ops : ParamOps V R P) (w : World P) (o : Optimizer V R P) (sch : Schedule V)
    (res : LsqResult V) (hok : ∀ c ∈ sch.calls, c.fault = none) (hfin : sch.finish = .returns res) :
    optimize ops w o sch =
      ({ w with stdout := o.teeSaved, evaluations := w.evaluations + sch.calls.length,
                evaluatedOK := w.evaluatedOK ++ ops.evaluated o.parameters (sch.calls.map (·.x)) },
       { o with parameters := ops.last o.parameters (sch.calls.map (·.x)),
                history := o.history ++ (ops.states o.parameters (sch.calls.map (·.x))).map ops.row,
                optimizationResult := some res, terminationReason := res.message }, none) := by
  have hls := leastSquares_clean ops sch.finish sch.calls { w with stdout := Handle.tee } o hok
  rw [hfin] at hls
  rw [optimize_eq]
  simp only [optimizeSpec, hfin, hls, endOf]

/-- `Optimizer.optimize` when every call returns and `least_squares` raises by itself -/
theorem optimize_raises (ops : ParamOps V R P) (w : World P) (o : Optimizer V R P) (sch : Schedule V)
    (m : Msg) (hok : ∀ c ∈ sch.calls, c.fault = none) (hfin : sch.finish = .raises m) :
    optimize ops w o sch =
      if o.raiseException = true then
        ({ w with stdout := o.teeSaved, evaluations := w.evaluations + sch.calls.length,
                  evaluatedOK := w.evaluatedOK ++ ops.evaluated o.parameters (sch.calls.map (·.x)) },
         { o with parameters := ops.last o.parameters (sch.calls.map (·.x)),
                  history := o.history ++ (ops.states o.parameters (sch.calls.map (·.x))).map ops.row },
         some (.raised m))
      else
        ({ w with stdout := o.teeSaved, warnings := w.warnings ++ [failureWarning m],
                  evaluations := w.evaluations + sch.calls.length,
                  evaluatedOK := w.evaluatedOK ++ ops.evaluated o.parameters (sch.calls.map (·.x)) },
         { o with parameters := ops.last o.parameters (sch.calls.map (·.x)),
                  history := o.history ++ (ops.states o.parameters (sch.calls.map (·.x))).map ops.row,
                  terminationReason := m }, none) := by
  have hls := leastSquares_clean ops sch.finish sch.calls { w with stdout := Handle.tee } o hok
  rw [hfin] at hls
  rw [optimize_eq]
  simp only [optimizeSpec, hfin, hls, endOf, Err.msg]

/-- `create_result` after a contained failure, when its own evaluations return: the parameters are
    `fromRow` of record `-2`, refreshed by the record `calculate_penalty` appends -/
theorem createResult_failure (ops : ParamOps V R P) (w : World P) (o : Optimizer V R P) (sch : Schedule V)
    (hnone : o.optimizationResult = none) (hlen : 2 ≤ o.history.length)
    (hp : sch.penaltyFault = none) (hf : sch.finalFault = none) (hd : sch.dataFault = none) :
    ∃ rec, o.history[o.history.length - 2]? = some rec ∧
      createResult ops w o sch =
        ({ w with evaluations := w.evaluations + 1 + 1,
                  evaluatedOK := w.evaluatedOK ++ [ops.fromRow o.parameters rec] ++
                    [ops.refresh (ops.fromRow o.parameters rec)] },
         .result { success := false, terminationReason := o.terminationReason,
                   optimizedParameters := ops.refresh (ops.fromRow o.parameters rec),
                   restoredRecord := some (o.history.length - 2),
                   numberOfFunctionEvaluations := o.history.length,
                   parameterHistory := o.history ++ [ops.row (ops.refresh (ops.fromRow o.parameters rec))],
                   penaltyOf := some (ops.fromRow o.parameters rec),
                   dataOf := some (ops.refresh (ops.fromRow o.parameters rec)) }) := by
  obtain ⟨rec, hrec, hrestore⟩ := restoreSpec_spec ops o hlen
  refine ⟨rec, hrec, ?_⟩
  have h1 : ¬ o.history.length = 1 := by omega
  have h0 : o.history.length ≠ 0 := by omega
  rw [createResult_eq ops w o sch h0]
  simp only [createResultSpec, h1, h0, ↓reduceIte, hnone]
  rw [hrestore, buildResultSpec_clean _ _ _ _ _ _ hp hf hd]
  simp [hnone]

/-- `create_result` after `least_squares` returned, when nothing in it raises -/
theorem createResult_success (ops : ParamOps V R P) (w : World P) (o : Optimizer V R P) (sch : Schedule V)
    (r : LsqResult V) (hsome : o.optimizationResult = some r) (hlen : 2 ≤ o.history.length)
    (hp : sch.penaltyFault = none) (hf : sch.finalFault = none) (hc : sch.covarianceFault = none)
    (hd : sch.dataFault = none) :
    createResult ops w o sch =
      ({ w with evaluations := w.evaluations + 1 + 1,
                evaluatedOK := w.evaluatedOK ++ [ops.setFree o.parameters r.x] ++
                  [ops.refresh (ops.setFree o.parameters r.x)] },
       .result { success := true, terminationReason := o.terminationReason,
                 optimizedParameters := ops.refresh (ops.setFree o.parameters r.x),
                 restoredRecord := none, numberOfFunctionEvaluations := r.nfev,
                 parameterHistory := o.history ++ [ops.row (ops.refresh (ops.setFree o.parameters r.x))],
                 penaltyOf := some (ops.setFree o.parameters r.x),
                 dataOf := some (ops.refresh (ops.setFree o.parameters r.x)) }) := by
  have h1 : ¬ o.history.length = 1 := by omega
  have h0 : o.history.length ≠ 0 := by omega
  rw [createResult_eq ops w o sch h0]
  simp only [createResultSpec, h1, h0, ↓reduceIte, hsome, hc]
  rw [buildResultSpec_clean _ _ _ _ _ _ hp hf hd]
  simp

/-! ### frames: what no step touches -/

theorem calculatePenaltySpec_frame (ops : ParamOps V R P) (w : World P) (o : Optimizer V R P) (f : Option Msg) :
    (calculatePenaltySpec ops w o f).1.stdout = w.stdout ∧
    (calculatePenaltySpec ops w o f).1.scheme = w.scheme ∧
    (calculatePenaltySpec ops w o f).2.1.teeSaved = o.teeSaved := by
  cases f <;> simp [calculatePenaltySpec]

theorem leastSquares_frame (ops : ParamOps V R P) (fin : LsqEnd V) :
    ∀ (calls : List (Call V)) (w : World P) (o : Optimizer V R P),
      (leastSquares ops w o calls fin).1.stdout = w.stdout ∧
      (leastSquares ops w o calls fin).1.scheme = w.scheme ∧
      (leastSquares ops w o calls fin).2.1.teeSaved = o.teeSaved := by
  intro calls
  induction calls with
  | nil => intro w o; cases fin <;> simp [leastSquares]
  | cons c cs ih =>
    intro w o
    cases hf : c.fault with
    | some m => simp [leastSquares, objectiveSpec, calculatePenaltySpec, hf]
    | none =>
      simp only [leastSquares, objective_eq, objectiveSpec, calculatePenaltySpec, hf]
      have := ih { w with evaluations := w.evaluations + 1,
                          evaluatedOK := w.evaluatedOK ++ [ops.setFree o.parameters c.x] }
        { o with parameters := ops.refresh (ops.setFree o.parameters c.x),
                 history := o.history ++ [ops.row (ops.refresh (ops.setFree o.parameters c.x))] }
      simpa using this

theorem buildResultSpec_frame (ops : ParamOps V R P) (w : World P) (o : Optimizer V R P) (sch : Schedule V)
    (rs : Option Nat) (n : Nat) :
    (buildResultSpec ops w o sch rs n).1.stdout = w.stdout ∧
    (buildResultSpec ops w o sch rs n).1.scheme = w.scheme := by
  unfold buildResultSpec
  cases sch.penaltyFault <;> cases sch.finalFault <;> cases sch.dataFault <;>
    simp [calculatePenaltySpec, evaluate]

theorem createResultSpec_frame (ops : ParamOps V R P) (w : World P) (o : Optimizer V R P) (sch : Schedule V) :
    (createResultSpec ops w o sch).1.stdout = w.stdout ∧
    (createResultSpec ops w o sch).1.scheme = w.scheme := by
  unfold createResultSpec
  split
  · simp
  · split
    · simp
    · split
      · exact buildResultSpec_frame ..
      · split
        · simp
        · exact buildResultSpec_frame ..

theorem optimize_frame (ops : ParamOps V R P) (w : World P) (o : Optimizer V R P) (sch : Schedule V) :
    (optimize ops w o sch).1.stdout = o.teeSaved ∧ (optimize ops w o sch).1.scheme = w.scheme := by
  have h := leastSquares_frame ops sch.finish sch.calls { w with stdout := Handle.tee } o
  rw [optimize_eq]
  rcases hls : leastSquares ops { w with stdout := Handle.tee } o sch.calls sch.finish with ⟨w', o', r⟩
  rw [hls] at h
  simp only [optimizeSpec, hls]
  simp only at h
  cases r with
  | ok res => simp [h]
  | error m =>
    simp only
    split <;> simp [h]

/-! ### the history holds the initial record plus one record per evaluation that returned -/

/-- invariant tying `_parameter_history` to the evaluations that returned: the initial record (of the
    scheme's parameters `p0`) followed by one record per returned evaluation, each the record of the
    refreshed parameter set; and what the optimizer holds -/
def HistInv (ops : ParamOps V R P) (p0 : P) (w : World P) (o : Optimizer V R P) : Prop :=
  o.history = ops.row (ops.start p0) :: w.evaluatedOK.map (fun p => ops.row (ops.refresh p))

theorem calculatePenaltySpec_inv (ops : ParamOps V R P) (p0 : P) (w : World P) (o : Optimizer V R P)
    (f : Option Msg) (h : HistInv ops p0 w o) :
    HistInv ops p0 (calculatePenaltySpec ops w o f).1 (calculatePenaltySpec ops w o f).2.1 := by
  unfold HistInv at *
  cases f <;> simp [calculatePenaltySpec, h]

theorem leastSquares_inv (ops : ParamOps V R P) (p0 : P) (fin : LsqEnd V) :
    ∀ (calls : List (Call V)) (w : World P) (o : Optimizer V R P), HistInv ops p0 w o →
      HistInv ops p0 (leastSquares ops w o calls fin).1 (leastSquares ops w o calls fin).2.1 := by
  intro calls
  induction calls with
  | nil => intro w o h; cases fin <;> simpa [leastSquares] using h
  | cons c cs ih =>
    intro w o h
    have h1 := calculatePenaltySpec_inv ops p0 w { o with parameters := ops.setFree o.parameters c.x }
      c.fault (by simpa [HistInv] using h)
    rcases hcp : calculatePenaltySpec ops w { o with parameters := ops.setFree o.parameters c.x } c.fault
      with ⟨w', o', e⟩
    rw [hcp] at h1
    simp only [leastSquares, objective_eq, objectiveSpec, hcp]
    cases e with
    | some m => simpa using h1
    | none => exact ih w' o' h1

theorem optimize_inv (ops : ParamOps V R P) (p0 : P) (w : World P) (o : Optimizer V R P) (sch : Schedule V)
    (h : HistInv ops p0 w o) :
    HistInv ops p0 (optimize ops w o sch).1 (optimize ops w o sch).2.1 := by
  have h1 := leastSquares_inv ops p0 sch.finish sch.calls { w with stdout := Handle.tee } o
    (by simpa [HistInv] using h)
  rw [optimize_eq]
  rcases hls : leastSquares ops { w with stdout := Handle.tee } o sch.calls sch.finish with ⟨w', o', r⟩
  rw [hls] at h1
  simp only [optimizeSpec, hls]
  cases r with
  | ok res => simpa [HistInv] using h1
  | error m =>
    simp only
    split <;> simpa [HistInv] using h1

theorem buildResultSpec_inv (ops : ParamOps V R P) (p0 : P) (w : World P) (o : Optimizer V R P)
    (sch : Schedule V) (rs : Option Nat) (n : Nat) (h : HistInv ops p0 w o) (r : Result R P)
    (hr : (buildResultSpec ops w o sch rs n).2 = .result r) :
    ∃ E, (buildResultSpec ops w o sch rs n).1.evaluatedOK = E ++ [r.optimizedParameters] ∧
      r.parameterHistory = ops.row (ops.start p0) :: E.map (fun p => ops.row (ops.refresh p)) ∧
      ∃ p, E.getLast? = some p ∧ r.optimizedParameters = ops.refresh p ∧ r.penaltyOf = some p ∧
        r.dataOf = some r.optimizedParameters := by
  unfold HistInv at h
  unfold buildResultSpec at hr ⊢
  cases hp : sch.penaltyFault with
  | some m => simp [calculatePenaltySpec, hp] at hr
  | none =>
    cases hf : sch.finalFault with
    | some m => simp [calculatePenaltySpec, evaluate, hp, hf] at hr
    | none =>
      cases hd : sch.dataFault with
      | some m => simp [calculatePenaltySpec, evaluate, hp, hf, hd] at hr
      | none =>
        simp only [calculatePenaltySpec, evaluate, hp, hf, hd, Outcome.result.injEq] at hr ⊢
        subst hr
        exact ⟨w.evaluatedOK ++ [o.parameters], by simp, by simp [h], o.parameters, by simp, rfl,
          by simp, rfl⟩

/-! ### `verbose` is stored and handed to scipy, nothing else -/

def Optimizer.setVerbose (o : Optimizer V R P) (b : Bool) : Optimizer V R P := { o with verbose := b }

theorem calculatePenaltySpec_verbose (ops : ParamOps V R P) (w : World P) (o : Optimizer V R P)
    (f : Option Msg) (b : Bool) :
    calculatePenaltySpec ops w (o.setVerbose b) f =
      ((calculatePenaltySpec ops w o f).1, (calculatePenaltySpec ops w o f).2.1.setVerbose b,
       (calculatePenaltySpec ops w o f).2.2) := by
  cases f <;> simp [calculatePenaltySpec, Optimizer.setVerbose]

theorem leastSquares_verbose (ops : ParamOps V R P) (fin : LsqEnd V) (b : Bool) :
    ∀ (calls : List (Call V)) (w : World P) (o : Optimizer V R P),
      leastSquares ops w (o.setVerbose b) calls fin =
        ((leastSquares ops w o calls fin).1, (leastSquares ops w o calls fin).2.1.setVerbose b,
         (leastSquares ops w o calls fin).2.2) := by
  intro calls
  induction calls with
  | nil => intro w o; cases fin <;> simp [leastSquares]
  | cons c cs ih =>
    intro w o
    have h := calculatePenaltySpec_verbose ops w { o with parameters := ops.setFree o.parameters c.x } c.fault b
    simp only [leastSquares, objective_eq, objectiveSpec]
    have e : ({ o.setVerbose b with parameters := ops.setFree (o.setVerbose b).parameters c.x } : Optimizer V R P) =
        ({ o with parameters := ops.setFree o.parameters c.x } : Optimizer V R P).setVerbose b := by
      simp [Optimizer.setVerbose]
    rw [e, h]
    generalize calculatePenaltySpec ops w { o with parameters := ops.setFree o.parameters c.x } c.fault = res
    obtain ⟨w', o', e'⟩ := res
    cases e' with
    | some m => simp
    | none => simpa using ih w' o'

theorem buildResultSpec_verbose (ops : ParamOps V R P) (w : World P) (o : Optimizer V R P) (sch : Schedule V)
    (rs : Option Nat) (n : Nat) (b : Bool) :
    buildResultSpec ops w (o.setVerbose b) sch rs n = buildResultSpec ops w o sch rs n := by
  unfold buildResultSpec
  rw [calculatePenaltySpec_verbose]
  generalize calculatePenaltySpec ops w o sch.penaltyFault = res
  obtain ⟨w', o', e'⟩ := res
  cases e' <;> simp [Optimizer.setVerbose]

theorem createResultSpec_verbose (ops : ParamOps V R P) (w : World P) (o : Optimizer V R P) (sch : Schedule V)
    (b : Bool) : createResultSpec ops w (o.setVerbose b) sch = createResultSpec ops w o sch := by
  have e1 : (restoreSpec ops (o.setVerbose b)) = (restoreSpec ops o).setVerbose b := by
    simp only [restoreSpec, Optimizer.setVerbose]
    split <;> rfl
  simp only [createResultSpec, show (o.setVerbose b).history = o.history from rfl,
    show (o.setVerbose b).optimizationResult = o.optimizationResult from rfl]
  split
  · rfl
  · split
    · rfl
    · cases hr : o.optimizationResult with
      | none =>
        simp only
        rw [e1, buildResultSpec_verbose]
      | some r =>
        simp only
        cases sch.covarianceFault with
        | some m => rfl
        | none =>
          exact buildResultSpec_verbose ops w
            ⟨ops.setFree o.parameters r.x, o.teeSaved, o.verbose, o.raiseException, some r,
             o.terminationReason, o.history⟩ sch none r.nfev b

theorem optimizeSpec_verbose (ops : ParamOps V R P) (w : World P) (o : Optimizer V R P) (sch : Schedule V)
    (b : Bool) :
    optimizeSpec ops w (o.setVerbose b) sch =
      ((optimizeSpec ops w o sch).1, (optimizeSpec ops w o sch).2.1.setVerbose b,
       (optimizeSpec ops w o sch).2.2) := by
  have hv := leastSquares_verbose ops sch.finish b sch.calls { w with stdout := Handle.tee } o
  rcases hls : leastSquares ops { w with stdout := Handle.tee } o sch.calls sch.finish with ⟨w', o', r⟩
  rw [hls] at hv
  simp only [optimizeSpec, hv, hls]
  cases r with
  | ok res => simp [Optimizer.setVerbose]
  | error m =>
    simp only [Optimizer.setVerbose]
    by_cases hr : o'.raiseException = true <;> simp [hr]

/-! ### the history and the current parameter set when the optimiser's call sequence ends -/

/-- `_parameter_history` after the calls at `vs` returned: the record of the (refreshed) initial
    parameters, then one record per call -/
def histOf (ops : ParamOps V R P) (p0 : P) (vs : List V) : List R :=
  ops.row (ops.start p0) :: (ops.states (ops.start p0) vs).map ops.row

/-- `self._parameters` when the call at `x` raised after the calls at `vs` had returned: the free
    parameters are already those of the failing call -/
def curOf (ops : ParamOps V R P) (p0 : P) (vs : List V) (x : V) : P :=
  ops.setFree (ops.last (ops.start p0) vs) x

theorem histOf_length (ops : ParamOps V R P) (p0 : P) (vs : List V) :
    (histOf ops p0 vs).length = vs.length + 1 := by
  simp [histOf, ParamOps.states_length]

/-! ### what `create_result` does with faults of its own -/

/-- the first thing that raises inside `create_result`, in execution order: the covariance (SVD, only
    after `least_squares` returned), the re-evaluation `calculate_penalty()`, the final evaluation, the
    construction of the result data -/
def firstLate (sch : Schedule V) (success : Bool) : Option Msg :=
  match (if success then sch.covarianceFault else none), sch.penaltyFault, sch.finalFault, sch.dataFault with
  | some m, _, _, _ => some m
  | none, some m, _, _ => some m
  | none, none, some m, _ => some m
  | none, none, none, d => d

theorem createResult_single (ops : ParamOps V R P) (w : World P) (o : Optimizer V R P) (sch : Schedule V)
    (h : o.history.length = 1) : (createResult ops w o sch).2 = .exception .initialParameter := by
  rw [createResult_eq ops w o sch (by omega)]
  simp [createResultSpec, h]

theorem createResult_classified (ops : ParamOps V R P) (w : World P) (o : Optimizer V R P) (sch : Schedule V)
    (h : 2 ≤ o.history.length) :
    (∀ m, firstLate sch o.optimizationResult.isSome = some m →
      (createResult ops w o sch).2 = .exception (.raised m)) ∧
    (firstLate sch o.optimizationResult.isSome = none →
      ∃ r, (createResult ops w o sch).2 = .result r ∧ r.success = o.optimizationResult.isSome) := by
  have h1 : ¬ o.history.length = 1 := by omega
  have h0 : o.history.length ≠ 0 := by omega
  rw [createResult_eq ops w o sch h0]
  simp only [createResultSpec, h1, h0, ↓reduceIte]
  cases hopt : o.optimizationResult with
  | none =>
    simp only [buildResultSpec, firstLate, Option.isSome_none, Bool.false_eq_true, ↓reduceIte]
    cases hp : sch.penaltyFault <;> cases hf : sch.finalFault <;> cases hd : sch.dataFault <;>
      simp [calculatePenaltySpec, evaluate, restoreSpec]
    all_goals (split <;> simp [hopt])
  | some r =>
    simp only [buildResultSpec, firstLate, Option.isSome_some, ↓reduceIte]
    cases hc : sch.covarianceFault <;> cases hp : sch.penaltyFault <;> cases hf : sch.finalFault <;>
      cases hd : sch.dataFault <;> simp [calculatePenaltySpec, evaluate]

/-- a call list either returns everywhere or splits at its first fault -/
theorem calls_split : ∀ (calls : List (Call V)),
    (∀ c ∈ calls, c.fault = none) ∨
    ∃ pre x m post, calls = pre ++ { x := x, fault := some m } :: post ∧ ∀ c ∈ pre, c.fault = none := by
  intro calls
  induction calls with
  | nil => left; simp
  | cons c cs ih =>
    cases hc : c.fault with
    | some m =>
      right
      exact ⟨[], c.x, m, cs, by cases c; simp_all, by simp⟩
    | none =>
      rcases ih with h | ⟨pre, x, m, post, hsplit, hpre⟩
      · left
        intro c' hc'
        rcases List.mem_cons.1 hc' with rfl | h'
        · exact hc
        · exact h c' h'
      · right
        refine ⟨c :: pre, x, m, post, by simp [hsplit], ?_⟩
        intro c' hc'
        rcases List.mem_cons.1 hc' with rfl | h'
        · exact hc
        · exact hpre c' h'

/-- the calls that return before the first fault -/
def okPrefix (calls : List (Call V)) : List (Call V) := calls.takeWhile (fun c => c.fault.isNone)

theorem okPrefix_all (calls : List (Call V)) (h : ∀ c ∈ calls, c.fault = none) : okPrefix calls = calls := by
  unfold okPrefix
  induction calls with
  | nil => rfl
  | cons c cs ih =>
    have hc : c.fault = none := h c (by simp)
    simp only [List.takeWhile_cons, hc, Option.isNone_none, ↓reduceIte, List.cons.injEq, true_and]
    exact ih (fun c' hc' => h c' (by simp [hc']))

theorem okPrefix_split (pre post : List (Call V)) (x : V) (m : Msg) (h : ∀ c ∈ pre, c.fault = none) :
    okPrefix (pre ++ { x := x, fault := some m } :: post) = pre := by
  unfold okPrefix
  induction pre with
  | nil => simp
  | cons c cs ih =>
    have hc : c.fault = none := h c (by simp)
    simp only [List.cons_append, List.takeWhile_cons, hc, Option.isNone_none, ↓reduceIte, List.cons.injEq, true_and]
    exact ih (fun c' hc' => h c' (by simp [hc']))

/-! ### single-fault schedules -/

theorem injectCalls_none (msg : Msg) : ∀ (xs : List V) (k : Nat), (k = 0 ∨ xs.length < k) →
    injectCalls xs k msg = xs.map (fun x => { x := x, fault := none }) := by
  intro xs
  induction xs with
  | nil => intro k _; rfl
  | cons x xs ih =>
    intro k h
    have hlen : (x :: xs).length = xs.length + 1 := rfl
    have hk : k ≠ 1 := by omega
    simp only [injectCalls, hk, ↓reduceIte, List.map_cons]
    rw [ih (k - 1) (by omega)]

theorem injectCalls_split (msg : Msg) : ∀ (xs : List V) (k : Nat), 1 ≤ k → k ≤ xs.length →
    ∃ x post, xs[k - 1]? = some x ∧
      injectCalls xs k msg =
        (xs.take (k - 1)).map (fun x => { x := x, fault := none }) ++ { x := x, fault := some msg } :: post := by
  intro xs
  induction xs with
  | nil => intro k h1 h2; simp at h2; omega
  | cons x xs ih =>
    intro k h1 h2
    by_cases hk : k = 1
    · subst hk
      exact ⟨x, injectCalls xs 0 msg, by simp, by simp [injectCalls]⟩
    · have h2' : k - 1 ≤ xs.length := by simp at h2; omega
      obtain ⟨y, post, hy, hsplit⟩ := ih (k - 1) (by omega) h2'
      refine ⟨y, post, ?_, ?_⟩
      · have : k - 1 = (k - 1 - 1) + 1 := by omega
        rw [this, List.getElem?_cons_succ]; exact hy
      · have : k - 1 = (k - 1 - 1) + 1 := by omega
        simp only [injectCalls, hk, ↓reduceIte]
        rw [hsplit, this, List.take_succ_cons]
        simp

end Glotaran.C15
