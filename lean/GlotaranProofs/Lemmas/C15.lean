/-
C15 — helper lemmas about the state machine `Glotaran.C15.optimizeSM`:
closed forms of `leastSquares` on schedules split at their first fault, frame facts (what no step
touches), the history/evaluatedOK invariant, irrelevance of `verbose`.
-/
import GlotaranModel.C15
namespace Glotaran.C15

variable {α : Type}

/-! ### specification of the up-front validation (the documented order) -/

/-- what is wrong with one dataset group: a missing parameter label is reported before an unknown
    residual function -/
def groupProblem (g : GroupSpec) : Option Err :=
  match g.missingLabel with
  | some l => some (.parameterNotFound l)
  | none =>
    if g.residualFunction ∈ Generated.supportedResidualFunctions then none
    else some (.unsupportedResidualFunction g.residualFunction)

/-- the documented error of a scheme that cannot be optimised: data, parameters, method, then the
    dataset groups in order; `none` = the scheme is accepted -/
def documentedError (s : Scheme α) : Option Err :=
  if s.missingData ≠ [] then some (.missingDatasets s.missingData)
  else if s.parameters.isNone then some .parameterNotInitialized
  else if s.method ∉ Generated.supportedMethods then some (.unsupportedMethod s.method)
  else s.groups.findSome? groupProblem

theorem initGroup_eq (g : GroupSpec) : initGroup g = groupProblem g := by
  unfold initGroup groupProblem
  cases g.missingLabel <;> simp

theorem initGroups_eq (gs : List GroupSpec) : initGroups gs = gs.findSome? groupProblem := by
  induction gs with
  | nil => rfl
  | cons g gs ih =>
    simp only [initGroups, List.findSome?_cons, initGroup_eq]
    cases groupProblem g <;> simp [ih]

theorem init_error (w : World α) (v r : Bool) (e : Err) (h : documentedError w.scheme = some e) :
    init w v r = .error e := by
  unfold documentedError at h
  unfold init
  by_cases h1 : w.scheme.missingData = []
  · simp only [h1, ne_eq, not_true_eq_false, ↓reduceIte] at h
    simp only [h1, List.isEmpty_nil, Bool.not_true, Bool.false_eq_true, ↓reduceIte]
    cases hp : w.scheme.parameters with
    | none => simp [hp] at h; simp [h]
    | some p0 =>
      simp only [hp, Option.isNone_some, Bool.false_eq_true, ↓reduceIte] at h
      by_cases h3 : w.scheme.method ∈ Generated.supportedMethods
      · simp only [h3, not_true_eq_false, ↓reduceIte] at h
        simp [h3, initGroups_eq, h]
      · simp only [h3, not_false_eq_true, ↓reduceIte, Option.some.injEq] at h
        simp [h3, h]
  · simp only [ne_eq, h1, not_false_eq_true, ↓reduceIte, Option.some.injEq] at h
    simp [h1, h]

theorem init_ok (w : World α) (v r : Bool) (h : documentedError w.scheme = none) :
    ∃ p0, w.scheme.parameters = some p0 ∧
      init w v r = .ok { parameters := p0, teeSaved := w.stdout, verbose := v, raiseException := r,
                         optimizationResult := none, terminationReason := "", history := [p0] } := by
  unfold documentedError at h
  unfold init
  by_cases h1 : w.scheme.missingData = []
  · simp only [h1, ne_eq, not_true_eq_false, ↓reduceIte] at h
    cases hp : w.scheme.parameters with
    | none => simp [hp] at h
    | some p0 =>
      simp only [hp, Option.isNone_some, Bool.false_eq_true, ↓reduceIte] at h
      by_cases h3 : w.scheme.method ∈ Generated.supportedMethods
      · simp only [h3, not_true_eq_false, ↓reduceIte] at h
        exact ⟨p0, rfl, by simp [h1, h3, initGroups_eq, h]⟩
      · simp [h3] at h
  · simp [h1] at h

/-! ### closed forms -/

theorem buildResult_clean (w : World α) (o : Optimizer α) (sch : Schedule α) (restored : Option Nat)
    (nfe : Nat) (hp : sch.penaltyFault = none) (hf : sch.finalFault = none) (hd : sch.dataFault = none) :
    buildResult w o sch restored nfe =
      ({ w with evaluations := w.evaluations + 1 + 1,
                evaluatedOK := w.evaluatedOK ++ [o.parameters] ++ [o.parameters] },
       .result { success := o.optimizationResult.isSome, terminationReason := o.terminationReason,
                 optimizedParameters := o.parameters, restoredRecord := restored,
                 numberOfFunctionEvaluations := nfe,
                 parameterHistory := o.history ++ [o.parameters] }) := by
  simp [buildResult, calculatePenalty, evaluate, hp, hf, hd]

/-- the calls before the first fault all return; the fault ends `least_squares` -/
theorem leastSquares_fault (fin : LsqEnd α) (x : α) (m : Msg) (post : List (Call α)) :
    ∀ (pre : List (Call α)) (w : World α) (o : Optimizer α), (∀ c ∈ pre, c.fault = none) →
      leastSquares w o (pre ++ { x := x, fault := some m } :: post) fin =
        ({ w with evaluations := w.evaluations + pre.length + 1,
                  evaluatedOK := w.evaluatedOK ++ pre.map (·.x) },
         { o with parameters := x, history := o.history ++ pre.map (·.x) },
         .error m) := by
  intro pre
  induction pre with
  | nil => intro w o _; simp [leastSquares, objective, calculatePenalty, evaluate]
  | cons c cs ih =>
    intro w o h
    have hc : c.fault = none := h c (by simp)
    have hcs : ∀ c' ∈ cs, c'.fault = none := fun c' hc' => h c' (by simp [hc'])
    simp only [List.cons_append, leastSquares, objective, calculatePenalty, evaluate, hc]
    rw [ih _ _ hcs]
    simp [Nat.add_assoc, Nat.add_comm 1]

/-- parameters the optimizer object holds after a run of returning calls -/
def lastX (p : α) (calls : List (Call α)) : α := calls.foldl (fun _ c => c.x) p

def endOf : LsqEnd α → Except Msg (LsqResult α)
  | .returns r => .ok r
  | .raises m => .error m

theorem leastSquares_clean (fin : LsqEnd α) :
    ∀ (calls : List (Call α)) (w : World α) (o : Optimizer α), (∀ c ∈ calls, c.fault = none) →
      leastSquares w o calls fin =
        ({ w with evaluations := w.evaluations + calls.length,
                  evaluatedOK := w.evaluatedOK ++ calls.map (·.x) },
         { o with parameters := lastX o.parameters calls, history := o.history ++ calls.map (·.x) },
         endOf fin) := by
  intro calls
  induction calls with
  | nil => intro w o _; cases fin <;> simp [leastSquares, lastX, endOf]
  | cons c cs ih =>
    intro w o h
    have hc : c.fault = none := h c (by simp)
    have hcs : ∀ c' ∈ cs, c'.fault = none := fun c' hc' => h c' (by simp [hc'])
    simp only [leastSquares, objective, calculatePenalty, evaluate, hc]
    rw [ih _ _ hcs]
    simp [lastX, Nat.add_assoc, Nat.add_comm 1]

theorem restore_spec (o : Optimizer α) (h : 2 ≤ o.history.length) :
    ∃ v, o.history[o.history.length - 2]? = some v ∧ restore o = { o with parameters := v } := by
  have hlt : o.history.length - 2 < o.history.length := by omega
  refine ⟨o.history[o.history.length - 2], by simp [hlt], ?_⟩
  simp [restore, hlt]

/-- `Optimizer.optimize` when the optimiser's call sequence faults -/
theorem optimize_fault (w : World α) (o : Optimizer α) (sch : Schedule α) (pre post : List (Call α))
    (x : α) (m : Msg) (hcalls : sch.calls = pre ++ { x := x, fault := some m } :: post)
    (hpre : ∀ c ∈ pre, c.fault = none) :
    optimize w o sch =
      if o.raiseException = true then
        ({ w with stdout := o.teeSaved, evaluations := w.evaluations + pre.length + 1,
                  evaluatedOK := w.evaluatedOK ++ pre.map (·.x) },
         { o with parameters := x, history := o.history ++ pre.map (·.x) }, some (.raised m))
      else
        ({ w with stdout := o.teeSaved, warnings := w.warnings ++ [failureWarning m],
                  evaluations := w.evaluations + pre.length + 1,
                  evaluatedOK := w.evaluatedOK ++ pre.map (·.x) },
         { o with parameters := x, history := o.history ++ pre.map (·.x), terminationReason := m },
         none) := by
  have hls := leastSquares_fault sch.finish x m post pre { w with stdout := Handle.tee } o hpre
  simp only [optimize, hcalls, hls]

/-- `Optimizer.optimize` when every call returns and `least_squares` returns -/
theorem optimize_returns (w : World α) (o : Optimizer α) (sch : Schedule α) (res : LsqResult α)
    (hok : ∀ c ∈ sch.calls, c.fault = none) (hfin : sch.finish = .returns res) :
    optimize w o sch =
      ({ w with stdout := o.teeSaved, evaluations := w.evaluations + sch.calls.length,
                evaluatedOK := w.evaluatedOK ++ sch.calls.map (·.x) },
       { o with parameters := lastX o.parameters sch.calls, history := o.history ++ sch.calls.map (·.x),
                optimizationResult := some res, terminationReason := res.message }, none) := by
  have hls := leastSquares_clean sch.finish sch.calls { w with stdout := Handle.tee } o hok
  rw [hfin] at hls
  simp only [optimize, hfin, hls, endOf]

/-- `Optimizer.optimize` when every call returns and `least_squares` raises by itself -/
theorem optimize_raises (w : World α) (o : Optimizer α) (sch : Schedule α) (m : Msg)
    (hok : ∀ c ∈ sch.calls, c.fault = none) (hfin : sch.finish = .raises m) :
    optimize w o sch =
      if o.raiseException = true then
        ({ w with stdout := o.teeSaved, evaluations := w.evaluations + sch.calls.length,
                  evaluatedOK := w.evaluatedOK ++ sch.calls.map (·.x) },
         { o with parameters := lastX o.parameters sch.calls, history := o.history ++ sch.calls.map (·.x) },
         some (.raised m))
      else
        ({ w with stdout := o.teeSaved, warnings := w.warnings ++ [failureWarning m],
                  evaluations := w.evaluations + sch.calls.length,
                  evaluatedOK := w.evaluatedOK ++ sch.calls.map (·.x) },
         { o with parameters := lastX o.parameters sch.calls, history := o.history ++ sch.calls.map (·.x),
                  terminationReason := m }, none) := by
  have hls := leastSquares_clean sch.finish sch.calls { w with stdout := Handle.tee } o hok
  rw [hfin] at hls
  simp only [optimize, hfin, hls, endOf]

/-- `create_result` after a contained failure, when its own evaluations return -/
theorem createResult_failure (w : World α) (o : Optimizer α) (sch : Schedule α)
    (hnone : o.optimizationResult = none) (hlen : 2 ≤ o.history.length)
    (hp : sch.penaltyFault = none) (hf : sch.finalFault = none) (hd : sch.dataFault = none) :
    ∃ v, o.history[o.history.length - 2]? = some v ∧
      createResult w o sch =
        ({ w with evaluations := w.evaluations + 1 + 1, evaluatedOK := w.evaluatedOK ++ [v] ++ [v] },
         .result { success := false, terminationReason := o.terminationReason, optimizedParameters := v,
                   restoredRecord := some (o.history.length - 2),
                   numberOfFunctionEvaluations := o.history.length,
                   parameterHistory := o.history ++ [v] }) := by
  obtain ⟨v, hv, hrestore⟩ := restore_spec o hlen
  refine ⟨v, hv, ?_⟩
  have h1 : ¬ o.history.length = 1 := by omega
  simp only [createResult, h1, ↓reduceIte, hnone]
  rw [hrestore, buildResult_clean _ _ _ _ _ hp hf hd]
  simp [hnone]

/-- `create_result` after `least_squares` returned, when nothing in it raises -/
theorem createResult_success (w : World α) (o : Optimizer α) (sch : Schedule α) (r : LsqResult α)
    (hsome : o.optimizationResult = some r) (hlen : o.history.length ≠ 1)
    (hp : sch.penaltyFault = none) (hf : sch.finalFault = none) (hc : sch.covarianceFault = none)
    (hd : sch.dataFault = none) :
    createResult w o sch =
      ({ w with evaluations := w.evaluations + 1 + 1, evaluatedOK := w.evaluatedOK ++ [r.x] ++ [r.x] },
       .result { success := true, terminationReason := o.terminationReason, optimizedParameters := r.x,
                 restoredRecord := none, numberOfFunctionEvaluations := r.nfev,
                 parameterHistory := o.history ++ [r.x] }) := by
  simp only [createResult, hlen, ↓reduceIte, hsome, hc]
  rw [buildResult_clean _ _ _ _ _ hp hf hd]
  simp

/-! ### frames: what no step touches -/

theorem evaluate_frame (w : World α) (p : α) (f : Option Msg) :
    (evaluate w p f).1.stdout = w.stdout ∧ (evaluate w p f).1.scheme = w.scheme ∧
    (evaluate w p f).1.warnings = w.warnings := by
  cases f <;> simp [evaluate]

theorem calculatePenalty_frame (w : World α) (o : Optimizer α) (f : Option Msg) :
    (calculatePenalty w o f).1.stdout = w.stdout ∧ (calculatePenalty w o f).1.scheme = w.scheme ∧
    (calculatePenalty w o f).2.1.teeSaved = o.teeSaved := by
  cases f <;> simp [calculatePenalty, evaluate]

theorem leastSquares_frame (fin : LsqEnd α) :
    ∀ (calls : List (Call α)) (w : World α) (o : Optimizer α),
      (leastSquares w o calls fin).1.stdout = w.stdout ∧
      (leastSquares w o calls fin).1.scheme = w.scheme ∧
      (leastSquares w o calls fin).2.1.teeSaved = o.teeSaved := by
  intro calls
  induction calls with
  | nil => intro w o; cases fin <;> simp [leastSquares]
  | cons c cs ih =>
    intro w o
    cases hf : c.fault with
    | some m => simp [leastSquares, objective, calculatePenalty, evaluate, hf]
    | none =>
      simp only [leastSquares, objective, calculatePenalty, evaluate, hf]
      have := ih { w with evaluations := w.evaluations + 1, evaluatedOK := w.evaluatedOK ++ [c.x] }
        { o with parameters := c.x, history := o.history ++ [c.x] }
      simpa using this

theorem buildResult_frame (w : World α) (o : Optimizer α) (sch : Schedule α) (rs : Option Nat) (n : Nat) :
    (buildResult w o sch rs n).1.stdout = w.stdout ∧ (buildResult w o sch rs n).1.scheme = w.scheme := by
  unfold buildResult
  cases sch.penaltyFault <;> cases sch.finalFault <;> cases sch.dataFault <;>
    simp [calculatePenalty, evaluate]

theorem createResult_frame (w : World α) (o : Optimizer α) (sch : Schedule α) :
    (createResult w o sch).1.stdout = w.stdout ∧ (createResult w o sch).1.scheme = w.scheme := by
  unfold createResult
  split
  · simp
  · split
    · exact buildResult_frame ..
    · split
      · simp
      · exact buildResult_frame ..

theorem optimize_frame (w : World α) (o : Optimizer α) (sch : Schedule α) :
    (optimize w o sch).1.stdout = o.teeSaved ∧ (optimize w o sch).1.scheme = w.scheme := by
  have h := leastSquares_frame sch.finish sch.calls { w with stdout := Handle.tee } o
  rcases hls : leastSquares { w with stdout := Handle.tee } o sch.calls sch.finish with ⟨w', o', r⟩
  rw [hls] at h
  simp only [optimize, hls]
  simp only at h
  cases r with
  | ok res => simp [h]
  | error m =>
    simp only
    split <;> simp [h]

/-! ### the history holds the initial record plus one record per evaluation that returned -/

/-- invariant tying `_parameter_history` to the evaluations that returned -/
def HistInv (p0 : α) (w : World α) (o : Optimizer α) : Prop := o.history = p0 :: w.evaluatedOK

theorem calculatePenalty_inv (p0 : α) (w : World α) (o : Optimizer α) (f : Option Msg)
    (h : HistInv p0 w o) : HistInv p0 (calculatePenalty w o f).1 (calculatePenalty w o f).2.1 := by
  unfold HistInv at *
  cases f <;> simp [calculatePenalty, evaluate, h]

theorem leastSquares_inv (p0 : α) (fin : LsqEnd α) :
    ∀ (calls : List (Call α)) (w : World α) (o : Optimizer α), HistInv p0 w o →
      HistInv p0 (leastSquares w o calls fin).1 (leastSquares w o calls fin).2.1 := by
  intro calls
  induction calls with
  | nil => intro w o h; cases fin <;> simpa [leastSquares] using h
  | cons c cs ih =>
    intro w o h
    have h1 := calculatePenalty_inv p0 w { o with parameters := c.x } c.fault (by simpa [HistInv] using h)
    rcases hcp : calculatePenalty w { o with parameters := c.x } c.fault with ⟨w', o', e⟩
    rw [hcp] at h1
    simp only [leastSquares, objective, hcp]
    cases e with
    | some m => simpa using h1
    | none => exact ih w' o' h1

theorem optimize_inv (p0 : α) (w : World α) (o : Optimizer α) (sch : Schedule α) (h : HistInv p0 w o) :
    HistInv p0 (optimize w o sch).1 (optimize w o sch).2.1 := by
  have h1 := leastSquares_inv p0 sch.finish sch.calls { w with stdout := Handle.tee } o
    (by simpa [HistInv] using h)
  rcases hls : leastSquares { w with stdout := Handle.tee } o sch.calls sch.finish with ⟨w', o', r⟩
  rw [hls] at h1
  simp only [optimize, hls]
  cases r with
  | ok res => simpa [HistInv] using h1
  | error m =>
    simp only
    split <;> simpa [HistInv] using h1

theorem buildResult_inv (p0 : α) (w : World α) (o : Optimizer α) (sch : Schedule α) (rs : Option Nat)
    (n : Nat) (h : HistInv p0 w o) (r : Result α) (hr : (buildResult w o sch rs n).2 = .result r) :
    (buildResult w o sch rs n).1.evaluatedOK = r.parameterHistory.tail ++ [r.optimizedParameters] ∧
    r.parameterHistory.head? = some p0 := by
  unfold HistInv at h
  unfold buildResult at hr ⊢
  cases hp : sch.penaltyFault with
  | some m => simp [calculatePenalty, evaluate, hp] at hr
  | none =>
    cases hf : sch.finalFault with
    | some m => simp [calculatePenalty, evaluate, hp, hf] at hr
    | none =>
      cases hd : sch.dataFault with
      | some m => simp [calculatePenalty, evaluate, hp, hf, hd] at hr
      | none =>
        simp only [calculatePenalty, evaluate, hp, hf, hd, Outcome.result.injEq] at hr ⊢
        subst hr
        simp [h]

/-! ### `verbose` is stored and handed to scipy, nothing else -/

def Optimizer.setVerbose (o : Optimizer α) (b : Bool) : Optimizer α := { o with verbose := b }

theorem calculatePenalty_verbose (w : World α) (o : Optimizer α) (f : Option Msg) (b : Bool) :
    calculatePenalty w (o.setVerbose b) f =
      ((calculatePenalty w o f).1, (calculatePenalty w o f).2.1.setVerbose b, (calculatePenalty w o f).2.2) := by
  cases f <;> simp [calculatePenalty, evaluate, Optimizer.setVerbose]

theorem leastSquares_verbose (fin : LsqEnd α) (b : Bool) :
    ∀ (calls : List (Call α)) (w : World α) (o : Optimizer α),
      leastSquares w (o.setVerbose b) calls fin =
        ((leastSquares w o calls fin).1, (leastSquares w o calls fin).2.1.setVerbose b,
         (leastSquares w o calls fin).2.2) := by
  intro calls
  induction calls with
  | nil => intro w o; cases fin <;> simp [leastSquares]
  | cons c cs ih =>
    intro w o
    have h := calculatePenalty_verbose w { o with parameters := c.x } c.fault b
    simp only [leastSquares, objective]
    have e : ({ o.setVerbose b with parameters := c.x } : Optimizer α) =
        ({ o with parameters := c.x } : Optimizer α).setVerbose b := by simp [Optimizer.setVerbose]
    rw [e, h]
    generalize calculatePenalty w { o with parameters := c.x } c.fault = res
    obtain ⟨w', o', e'⟩ := res
    cases e' with
    | some m => simp
    | none => simpa using ih w' o'

theorem buildResult_verbose (w : World α) (o : Optimizer α) (sch : Schedule α) (rs : Option Nat) (n : Nat)
    (b : Bool) : buildResult w (o.setVerbose b) sch rs n = buildResult w o sch rs n := by
  unfold buildResult
  rw [calculatePenalty_verbose]
  generalize calculatePenalty w o sch.penaltyFault = res
  obtain ⟨w', o', e'⟩ := res
  cases e' <;> simp [Optimizer.setVerbose]

theorem createResult_verbose (w : World α) (o : Optimizer α) (sch : Schedule α) (b : Bool) :
    createResult w (o.setVerbose b) sch = createResult w o sch := by
  have e1 : (restore (o.setVerbose b)) = (restore o).setVerbose b := by
    simp only [restore, Optimizer.setVerbose]
    split <;> rfl
  simp only [createResult, show (o.setVerbose b).history = o.history from rfl,
    show (o.setVerbose b).optimizationResult = o.optimizationResult from rfl]
  split
  · rfl
  · cases hr : o.optimizationResult with
    | none =>
      simp only
      rw [e1, buildResult_verbose]
    | some r =>
      simp only
      cases sch.covarianceFault with
      | some m => rfl
      | none =>
        exact buildResult_verbose w
          ⟨r.x, o.teeSaved, o.verbose, o.raiseException, some r, o.terminationReason, o.history⟩ sch none r.nfev b

theorem optimize_verbose (w : World α) (o : Optimizer α) (sch : Schedule α) (b : Bool) :
    optimize w (o.setVerbose b) sch =
      ((optimize w o sch).1, (optimize w o sch).2.1.setVerbose b, (optimize w o sch).2.2) := by
  have hv := leastSquares_verbose sch.finish b sch.calls { w with stdout := Handle.tee } o
  rcases hls : leastSquares { w with stdout := Handle.tee } o sch.calls sch.finish with ⟨w', o', r⟩
  rw [hls] at hv
  simp only [optimize, hv, hls]
  cases r with
  | ok res => simp [Optimizer.setVerbose]
  | error m =>
    simp only [Optimizer.setVerbose]
    by_cases hr : o'.raiseException = true <;> simp [hr]

/-! ### single-fault schedules -/

theorem injectCalls_none (msg : Msg) : ∀ (xs : List α) (k : Nat), (k = 0 ∨ xs.length < k) →
    injectCalls xs k msg = xs.map (fun x => { x := x, fault := none }) := by
  intro xs
  induction xs with
  | nil => intro k _; rfl
  | cons x xs ih =>
    intro k h
    have hlen : (x :: xs).length = xs.length + 1 := rfl
    have hk : k ≠ 1 := by omega
    simp only [injectCalls, hk, ↓reduceIte, List.map_cons]
    rw [ih (k - 1) (by omega)]

theorem injectCalls_split (msg : Msg) : ∀ (xs : List α) (k : Nat), 1 ≤ k → k ≤ xs.length →
    ∃ x post, xs[k - 1]? = some x ∧
      injectCalls xs k msg =
        (xs.take (k - 1)).map (fun x => { x := x, fault := none }) ++ { x := x, fault := some msg } :: post := by
  intro xs
  induction xs with
  | nil => intro k h1 h2; simp at h2; omega
  | cons x xs ih =>
    intro k h1 h2
    by_cases hk : k = 1
    · subst hk
      exact ⟨x, injectCalls xs 0 msg, by simp, by simp [injectCalls]⟩
    · have h2' : k - 1 ≤ xs.length := by simp at h2; omega
      obtain ⟨y, post, hy, hsplit⟩ := ih (k - 1) (by omega) h2'
      refine ⟨y, post, ?_, ?_⟩
      · have : k - 1 = (k - 1 - 1) + 1 := by omega
        rw [this, List.getElem?_cons_succ]; exact hy
      · have : k - 1 = (k - 1 - 1) + 1 := by omega
        simp only [injectCalls, hk, ↓reduceIte]
        rw [hsplit, this, List.take_succ_cons]
        simp

end Glotaran.C15
