/-
C14 — the functions regenerated from glotaran/simulation/simulation.py (GlotaranModel/Generated/C14Fns.lean, in the
vocabulary of GlotaranModel/C14Py.lean) against the hand-written model (GlotaranModel/C14.lean).
-/
import GlotaranModel.Generated.C14Fns
import GlotaranProofs.Lemmas.C14Sim
namespace Glotaran.C14
open Glotaran.LinAlg Glotaran.C02

/-! ### how a `DataArray` presents a clp table -/

/-- the array `a` presents the table (`ls`, `rows`) along the dimension `gdim`: it has a `clp_label` coordinate, position
    `i` on `gdim` exists exactly when the table has a row `i`, and there the array carries the labels `ls` and, for every
    label of `ls`, the value of row `i` (in whatever layout, with whatever coordinate on `gdim`) -/
structure Presents (gdim : String) (a : Py.DataArray) (ls : List String) (rows : List Vec) : Prop where
  hasCoord : a.hasCoord "clp_label" = true
  row : ∀ i, i < rows.length → ∃ v, a.isel gdim i = .ok ⟨"clp_label", some (.strs ls), v⟩ ∧
    ∀ l ∈ ls, lookup ls v l = lookup ls (rows.getD i []) l
  beyond : ∀ i, rows.length ≤ i → a.isel gdim i = .error .index

/-- the 2-D array of a clp table: layout (`gdim`, clp_label) or transposed, any coordinate (or none) on `gdim` -/
def arrayOfTable (gdim : String) (ls : List String) (rows : List Vec) (transposed : Bool) (gcoord : Option Vec) :
    Py.DataArray :=
  let gc : List (String × Py.Coord) := match gcoord with | some c => [(gdim, .nums c)] | none => []
  if transposed then
    ⟨("clp_label", gdim), (ls.length, rows.length), ("clp_label", .strs ls) :: gc, transpose rows ls.length⟩
  else
    ⟨(gdim, "clp_label"), (rows.length, ls.length), gc ++ [("clp_label", .strs ls)], rows⟩

theorem getD_col (m : Mat) (j i : Nat) : (col m j).getD i 0 = (m.getD i []).getD j 0 := by
  simp only [col, List.getD_eq_getElem?_getD, List.getElem?_map]
  cases m[i]? <;> simp

theorem getD_col_transpose (m : Mat) (w i j : Nat) (hj : j < w) :
    (col (transpose m w) i).getD j 0 = (m.getD i []).getD j 0 := by
  rw [getD_col]
  simp only [transpose, List.getD_eq_getElem?_getD, List.getElem?_map, List.getElem?_range hj, Option.map_some,
    Option.getD_some]
  have := getD_col m j i
  simpa [List.getD_eq_getElem?_getD] using this

theorem lookup_lt (ls : List String) (l : String) (h : l ∈ ls) : ls.idxOf l < ls.length :=
  List.idxOf_lt_length_of_mem h

theorem arrayOfTable_presents (gdim : String) (hg : gdim ≠ "clp_label") (ls : List String) (rows : List Vec)
    (transposed : Bool) (gcoord : Option Vec) :
    Presents gdim (arrayOfTable gdim ls rows transposed gcoord) ls rows := by
  have hg' : ¬ "clp_label" = gdim := fun h => hg h.symm
  have hb : ("clp_label" == gdim) = false := by simpa using hg'
  cases transposed with
  | false =>
    refine ⟨?_, ?_, ?_⟩
    · cases gcoord <;> simp [arrayOfTable, Py.DataArray.hasCoord]
    · intro i hi
      refine ⟨rows.getD i [], ?_, fun _ _ => rfl⟩
      cases gcoord <;> simp [arrayOfTable, Py.DataArray.isel, hi, List.lookup, hb]
    · intro i hi
      have : ¬ i < rows.length := by omega
      cases gcoord <;> simp [arrayOfTable, Py.DataArray.isel, this]
  | true =>
    refine ⟨?_, ?_, ?_⟩
    · cases gcoord <;> simp [arrayOfTable, Py.DataArray.hasCoord]
    · intro i hi
      refine ⟨col (transpose rows ls.length) i, ?_, ?_⟩
      · cases gcoord <;> simp [arrayOfTable, Py.DataArray.isel, hi, hg]
      · intro l hl
        simp only [lookup]
        exact getD_col_transpose rows ls.length i _ (lookup_lt ls l hl)
    · intro i hi
      have : ¬ i < rows.length := by omega
      cases gcoord <;> simp [arrayOfTable, Py.DataArray.isel, this, hg]

/-! ### `for` loops that fill the columns of the result -/

theorem andThen_ok {α β : Type} (a : α) (f : α → Except SimError β) : Py.andThen (.ok a) f = f a := rfl
theorem andThen_error {α β : Type} (e : SimError) (f : α → Except SimError β) :
    Py.andThen (.error e : Except SimError α) f = .error e := rfl

/-- one pass of the loop: the column value may raise, then the column is stored -/
def colStep (val : Nat → Except SimError Vec) (i : Nat) (d : SimResult) : Except SimError SimResult :=
  Py.andThen (val i) (fun v => .ok (Py.setColumn d i v))

/-- the result after the columns `< k` have been stored -/
def filled (dims : String × String) (coords : List (String × Vec)) (nModel n : Nat) (c : Nat → Vec) (k : Nat) :
    SimResult :=
  ⟨dims, coords, (List.range nModel).map (fun m => (List.range n).map (fun g => if g < k then (c g).getD m 0 else 0))⟩

theorem setColumn_filled (dims : String × String) (coords : List (String × Vec)) (nModel n : Nat) (c : Nat → Vec)
    (k : Nat) : Py.setColumn (filled dims coords nModel n c k) k (c k) = filled dims coords nModel n c (k + 1) := by
  simp only [Py.setColumn, filled, SimResult.mk.injEq, true_and]
  apply List.ext_getElem
  · simp
  · intro m h1 h2
    simp only [List.getElem_mapIdx, List.getElem_map, List.getElem_range]
    apply List.ext_getElem
    · simp
    · intro g h3 h4
      simp only [List.getElem_set, List.getElem_map, List.getElem_range]
      by_cases hgk : k = g
      · subst hgk; simp
      · have : (g < k + 1) = (g < k) := by
          apply propext; constructor <;> intro h <;> omega
        simp [hgk, this]

theorem forEach_fill (dims : String × String) (coords : List (String × Vec)) (nModel n : Nat) (c : Nat → Vec)
    (val : Nat → Except SimError Vec) (len s : Nat) (h : ∀ i, s ≤ i → i < s + len → val i = .ok (c i)) :
    Py.forEach (List.range' s len) (filled dims coords nModel n c s) (colStep val) =
      .ok (filled dims coords nModel n c (s + len)) := by
  induction len generalizing s with
  | zero => simp [Py.forEach]
  | succ len ih =>
    rw [List.range'_succ, Py.forEach, colStep, h s (Nat.le_refl _) (by omega), andThen_ok, andThen_ok, setColumn_filled,
      ih (s + 1) (fun i h1 h2 => h i (by omega) (by omega))]
    congr 2; omega

theorem forEach_fail (dims : String × String) (coords : List (String × Vec)) (nModel n : Nat) (c : Nat → Vec)
    (val : Nat → Except SimError Vec) (e : SimError) (len s k : Nat) (hsk : s ≤ k) (hk : k < s + len)
    (h : ∀ i, s ≤ i → i < k → val i = .ok (c i)) (he : val k = .error e) :
    Py.forEach (List.range' s len) (filled dims coords nModel n c s) (colStep val) = .error e := by
  induction len generalizing s with
  | zero => omega
  | succ len ih =>
    rw [List.range'_succ, Py.forEach, colStep]
    by_cases hs : s = k
    · subst hs; rw [he]; rfl
    · rw [h s (Nat.le_refl _) (by omega), andThen_ok, andThen_ok, setColumn_filled]
      exact ih (s + 1) (by omega) (by omega) (fun i h1 h2 => h i (by omega) h2)

theorem filled_zero (dims : String × String) (coords : List (String × Vec)) (nModel n : Nat) (c : Nat → Vec) :
    filled dims coords nModel n c 0 = ⟨dims, coords, Py.zeros2 nModel n⟩ := by
  simp only [filled, Py.zeros2, SimResult.mk.injEq, true_and]
  apply List.ext_getElem
  · simp
  · intro m h1 h2
    simp only [List.getElem_map, List.getElem_replicate]
    apply List.ext_getElem
    · simp
    · intro g h3 h4; simp

theorem filled_all (dims : String × String) (coords : List (String × Vec)) (nModel n : Nat) (c : Nat → Vec) :
    filled dims coords nModel n c n = ⟨dims, coords, C03.ofColumns nModel ((List.range n).map c)⟩ := by
  simp only [filled, C03.ofColumns, SimResult.mk.injEq, true_and, List.map_map]
  apply List.map_congr_left
  intro m _
  apply List.map_congr_left
  intro g hg
  simp [List.mem_range.mp hg]

/-! ### `simulate_from_clp` -/

/-- the matrix the loop uses at index `i` is the slice the model uses -/
theorem thisMatrix_eq (lm : LMat) (n i : Nat) (hi : i < n) :
    (if Py.isIndexDependent lm then Py.matrixAt lm i else Py.matrix2 lm) = sliceM lm n i := by
  unfold sliceM slices Py.isIndexDependent Py.matrixAt Py.matrix2
  cases hb : lm.body with
  | d2 m => simp [List.getD_eq_getElem?_getD, hi]
  | d3 ms =>
    simp only [List.getD_eq_getElem?_getD, List.getElem?_map, if_true]
    cases ms[i]? <;> rfl

/-- what `clp.isel({gdim: i}).sel({"clp_label": labels})` evaluates to when the array presents a table -/
theorem isel_sel (gdim : String) (a : Py.DataArray) (ls : List String) (rows : List Vec) (P : Presents gdim a ls rows)
    (want : List String) (i : Nat) :
    Py.andThen (a.isel gdim i) (fun r => r.sel "clp_label" want) =
      if rows.length ≤ i then .error .index
      else if hasDupS ls then .error .dupLabel
      else if !(want.all (fun l => ls.contains l)) then .error .missingLabel
      else .ok (selectByLabel ls (rows.getD i []) want) := by
  by_cases hi : rows.length ≤ i
  · rw [P.beyond i hi]; simp [hi, andThen_error]
  · obtain ⟨v, hv, hl⟩ := P.row i (by omega)
    rw [hv, andThen_ok]
    simp only [hi, if_false, Py.DataArray1.sel, if_true]
    cases hd : hasDupS ls with
    | true => simp
    | false =>
      cases hm : want.all (fun l => ls.contains l) with
      | false => simp
      | true =>
        simp only [Bool.not_true, Bool.false_eq_true, if_false]
        congr 1
        simp only [selectByLabel]
        apply List.map_congr_left
        intro l hlw
        rw [List.all_eq_true] at hm
        exact hl l (by simpa using hm l hlw)

theorem gen_from_clp (dm : Py.DatasetModel) (gdim : String) (gaxis : Vec) (mdim : String) (maxis : Vec)
    (a : Py.DataArray) (ls : List String) (rows : List Vec) (P : Presents gdim a ls rows) :
    Generated.simulate_from_clp dm gdim gaxis mdim maxis a =
      (simulateFromClp dm.mcs maxis.length gaxis.length ⟨some ls, rows⟩).map (mkResult mdim maxis gdim gaxis) := by
  unfold Generated.simulate_from_clp simulateFromClp
  simp only [P.hasCoord, Bool.not_true, Bool.false_eq_true, if_false, andThen_ok, Py.calculateDatasetMatrix]
  cases hm : datasetMatrix dm.mcs with
  | none => rfl
  | some lm =>
    simp only [andThen_ok, Py.size, Py.range, Py.clpLabels, Py.npdot]
    -- the loop body as a column step
    set val : Nat → Except SimError Vec := fun i =>
      Py.andThen (Py.andThen (a.isel gdim i) (fun r => r.sel "clp_label" lm.labels))
        (fun v => .ok (mulVec (if Py.isIndexDependent lm then Py.matrixAt lm i else Py.matrix2 lm) v)) with hval
    have hstep : (fun (i : Nat) (result : SimResult) =>
        Py.andThen (a.isel gdim i) (fun v2 => Py.andThen (v2.sel "clp_label" lm.labels)
          (fun v3 => Except.ok (Py.setColumn result i
            (mulVec (if Py.isIndexDependent lm then Py.matrixAt lm i else Py.matrix2 lm) v3))))) = colStep val := by
      funext i d
      simp only [colStep, hval]
      cases a.isel gdim i with
      | error e => rfl
      | ok r =>
        simp only [andThen_ok]
        cases r.sel "clp_label" lm.labels with
        | error e => rfl
        | ok v => rfl
    rw [hstep]
    have hinit : Py.DataArray.toDataset (Py.DataArray.ofCoords (Py.zeros2 maxis.length gaxis.length)
        (mdim, Py.Coord.nums maxis) (gdim, Py.Coord.nums gaxis)) =
        filled (mdim, gdim) [(mdim, maxis), (gdim, gaxis)] maxis.length gaxis.length
          (fun i => mulVec (sliceM lm gaxis.length i) (sel lm ls rows i)) 0 := by
      rw [filled_zero]; simp [Py.DataArray.toDataset, Py.DataArray.ofCoords]
    rw [hinit, List.range_eq_range']
    -- the value of column `i`
    have hv : ∀ i, i < gaxis.length → val i =
        if rows.length ≤ i then .error .index
        else if hasDupS ls then .error .dupLabel
        else if !(lm.labels.all (fun l => ls.contains l)) then .error .missingLabel
        else .ok (mulVec (sliceM lm gaxis.length i) (sel lm ls rows i)) := by
      intro i hi
      simp only [hval, isel_sel gdim a ls rows P lm.labels i, thisMatrix_eq lm gaxis.length i hi]
      split
      · rfl
      · split
        · rfl
        · split
          · rfl
          · rfl
    unfold simulateColumns
    simp only
    by_cases h0 : gaxis.length = 0
    · simp [h0, Py.forEach, filled, C03.ofColumns, mkResult, andThen_ok, Except.map]
    · have hpos : 0 < gaxis.length := Nat.pos_of_ne_zero h0
      simp only [h0, if_false]
      by_cases hr : rows.isEmpty = true
      · have hr0 : rows.length = 0 := by simpa using hr
        simp only [hr, if_true]
        rw [forEach_fail _ _ _ _ _ val .index gaxis.length 0 0 (Nat.le_refl _) (by omega) (fun i _ h => by omega)
          (by rw [hv 0 hpos, if_pos (by omega)])]
        rfl
      · have hrpos : 0 < rows.length := by
          cases rows with
          | nil => simp at hr
          | cons _ _ => simp
        simp only [hr, Bool.false_eq_true, if_false]
        by_cases hd : hasDupS ls = true
        · simp only [hd, if_true]
          rw [forEach_fail _ _ _ _ _ val .dupLabel gaxis.length 0 0 (Nat.le_refl _) (by omega) (fun i _ h => by omega)
            (by rw [hv 0 hpos, if_neg (by omega), if_pos hd])]
          rfl
        · simp only [hd, Bool.false_eq_true, if_false]
          by_cases hmiss : (!(lm.labels.all (fun l => ls.contains l))) = true
          · simp only [hmiss, if_true]
            rw [forEach_fail _ _ _ _ _ val .missingLabel gaxis.length 0 0 (Nat.le_refl _) (by omega)
              (fun i _ h => by omega) (by rw [hv 0 hpos, if_neg (by omega), if_neg hd, if_pos hmiss])]
            rfl
          · simp only [hmiss, Bool.false_eq_true, if_false]
            by_cases hlen : rows.length < gaxis.length
            · simp only [hlen, if_true]
              rw [forEach_fail _ _ _ _ _ val .index gaxis.length 0 rows.length (Nat.zero_le _) (by omega)
                (fun i _ h => by rw [hv i (by omega), if_neg (by omega), if_neg hd, if_neg hmiss])
                (by rw [hv _ hlen, if_pos (Nat.le_refl _)])]
              rfl
            · simp only [hlen, if_false]
              rw [forEach_fill _ _ _ _ _ val gaxis.length 0
                (fun i _ h => by rw [hv i (by omega), if_neg (by omega), if_neg hd, if_neg hmiss])]
              simp only [Nat.zero_add, andThen_ok, filled_all, Except.map, mkResult, sliceM, sel]

/-- no `clp_label` coordinate: refused before anything is calculated -/
theorem gen_from_clp_nolabel (dm : Py.DatasetModel) (gdim : String) (gaxis : Vec) (mdim : String) (maxis : Vec)
    (a : Py.DataArray) (h : a.hasCoord "clp_label" = false) (rows : List Vec) :
    Generated.simulate_from_clp dm gdim gaxis mdim maxis a =
      (simulateFromClp dm.mcs maxis.length gaxis.length ⟨none, rows⟩).map (mkResult mdim maxis gdim gaxis) := by
  unfold Generated.simulate_from_clp simulateFromClp
  simp [h, Py.raise, andThen_error, Except.map]

/-! ### `simulate_full_model` -/

/-- the contract of `calculate_dataset_matrix(..., global_matrix=True)` the simulation relies on: an index-independent
    global matrix has one row per point of the global axis and one column per global clp label -/
def GlobalShapeOK (dm : Py.DatasetModel) (gaxis : Vec) : Prop :=
  ∀ gm g, datasetMatrix dm.gmcs = some gm → gm.body = .d2 g →
    g.length = gaxis.length ∧ ∀ r ∈ g, r.length = gm.labels.length

theorem ncols_of_width (g : Mat) (w : Nat) (h : ∀ r ∈ g, r.length = w) (hne : g ≠ []) : ncols g = w := by
  cases g with
  | nil => exact absurd rfl hne
  | cons r _ => simpa [ncols] using h r List.mem_cons_self

theorem gen_full_model (dm : Py.DatasetModel) (gdim : String) (gaxis : Vec) (mdim : String) (maxis : Vec)
    (hg : gdim ≠ "clp_label") (hs : GlobalShapeOK dm gaxis) :
    Generated.simulate_full_model dm gdim gaxis mdim maxis =
      (simulateFullModel dm.mcs dm.gmcs maxis.length gaxis.length).map (mkResult mdim maxis gdim gaxis) := by
  unfold Generated.simulate_full_model simulateFullModel
  simp only [Py.calculateDatasetMatrix, if_true]
  cases hm : datasetMatrix dm.gmcs with
  | none => rfl
  | some gm =>
    obtain ⟨gl, gb⟩ := gm
    simp only [andThen_ok, globalClpTable, Py.isIndexDependent, Py.matrix2, Py.clpLabels]
    cases gb with
    | d3 ms => rfl
    | d2 g =>
      simp only [Bool.false_eq_true, if_false, andThen_ok]
      obtain ⟨hlen, hw⟩ := hs ⟨gl, .d2 g⟩ g hm rfl
      simp only at hw
      apply gen_from_clp
      refine ⟨by simp [Py.DataArray.ofCoords, Py.DataArray.hasCoord], ?_, ?_⟩
      · intro i hi
        refine ⟨col (Py.transposeMat g) i, ?_, ?_⟩
        · simp [Py.DataArray.ofCoords, Py.DataArray.isel, hg, Py.Coord.length, ← hlen, hi]
        · intro l hl
          simp only [lookup, Py.transposeMat]
          have hne : g ≠ [] := by intro h; subst h; simp at hi
          rw [ncols_of_width g _ hw hne]
          exact getD_col_transpose g _ i _ (lookup_lt _ l hl)
      · intro i hi
        have : ¬ i < gaxis.length := by omega
        simp [Py.DataArray.ofCoords, Py.DataArray.isel, hg, Py.Coord.length, this]

/-! ### `simulate` -/

/-- how the `clp` argument of the call presents the model's clp table along the global dimension -/
def ClpPresents (gdim : String) : Option Py.DataArray → Option ClpTable → Prop
  | none, none => True
  | some a, some t =>
    match t.labels with
    | none => a.hasCoord "clp_label" = false
    | some ls => Presents gdim a ls t.rows
  | _, _ => False

theorem lookup_of_find (l : List (String × Vec)) (m : String) (p : String × Vec)
    (h : l.find? (fun p => p.1 != m) = some p) : l.lookup p.1 = some p.2 := by
  induction l with
  | nil => simp at h
  | cons q l ih =>
    simp only [List.find?_cons] at h
    by_cases hq : (q.1 != m) = true
    · simp only [hq] at h
      cases h
      simp [List.lookup]
    · simp only [hq] at h
      have hqm : q.1 = m := by simpa using hq
      have hp := List.find?_some h
      have hne : p.1 ≠ q.1 := by
        rw [hqm]; simpa using hp
      have : (p.1 == q.1) = false := by simpa using hne
      simp only [List.lookup, this]
      exact ih h

theorem noiseless_shape (inp : SimInput) (d : Mat) (h : noiseless inp = .ok d) :
    d.length = inp.nModel ∧ ∀ r ∈ d, r.length = inp.nGlobal := by
  have key : ∀ t, simulateFromClp inp.mcs inp.nModel inp.nGlobal t = .ok d →
      d.length = inp.nModel ∧ ∀ r ∈ d, r.length = inp.nGlobal := by
    intro t ht
    unfold simulateFromClp at ht
    cases hl : t.labels with
    | none => simp [hl] at ht
    | some ls =>
      simp only [hl] at ht
      cases hm : datasetMatrix inp.mcs with
      | none => simp [hm] at ht
      | some lm =>
        simp only [hm] at ht
        cases hc : simulateColumns lm inp.nGlobal t with
        | error e => simp [hc] at ht
        | ok cols =>
          simp only [hc, Except.ok.injEq] at ht
          have ht' : t = ⟨some ls, t.rows⟩ := by cases t; simp_all
          rw [ht'] at hc
          obtain ⟨hcols, _⟩ := simulateColumns_ok lm inp.nGlobal ls t.rows cols hc
          subst ht
          refine ⟨by simp [C03.ofColumns], ?_⟩
          intro r hr
          simp only [C03.ofColumns, List.mem_map] at hr
          obtain ⟨m, _, rfl⟩ := hr
          simp [hcols, simCols]
  unfold noiseless at h
  split at h
  · unfold simulateFullModel at h
    cases hm : datasetMatrix inp.gmcs with
    | none => simp [hm] at h
    | some gm =>
      simp only [hm] at h
      cases hg : globalClpTable gm with
      | error e => simp [hg] at h
      | ok t => simp only [hg] at h; exact key t h
  · cases hc : inp.clp with
    | none => simp [hc] at h
    | some t => simp only [hc] at h; exact key t h

theorem normal_eq {σ : Type} (rng : Rng σ) (d : Mat) (nModel nGlobal : Nat) (std : Rat) (s : σ)
    (hl : d.length = nModel) (hw : ∀ r ∈ d, r.length = nGlobal) :
    Py.M.normal rng d std s =
      (.ok (addNoise std d (rng.normals s (nModel * nGlobal)).1 nGlobal), (rng.normals s (nModel * nGlobal)).2) := by
  unfold Py.M.normal Py.sizeMat
  cases d with
  | nil =>
    simp only [List.length_nil] at hl
    subst hl
    simp [addNoise, ncols]
  | cons r d =>
    have : ncols (r :: d) = nGlobal := by simpa [ncols] using hw r List.mem_cons_self
    rw [this, hl]

theorem M_andThen_lift {σ α β : Type} (x : Except SimError α) (f : α → Py.M σ β) (s : σ) :
    Py.M.andThen (Py.M.lift x) f s = match x with | .ok a => f a s | .error e => (.error e, s) := by
  cases x <;> rfl

theorem M_andThen_ret {σ α : Type} (x : Py.M σ α) : Py.M.andThen x (fun r => Py.M.ret r) = x := by
  funext s
  unfold Py.M.andThen Py.M.ret
  cases h : x s with
  | mk r s' => cases r <;> rfl

/-- `if noise_seed is not None: np.random.seed(noise_seed)` -/
def seedStep {σ : Type} (rng : Rng σ) (seed : Option Nat) : Py.M σ Unit :=
  match seed with
  | none => Py.M.ret ()
  | some sd => Py.M.andThen (Py.M.seed rng sd) (fun _ => Py.M.ret ())

/-- the noise part of `simulate` after a successful noise-free simulation -/
theorem noise_tail {σ : Type} (rng : Rng σ) (st : σ) (nModel nGlobal : Nat) (mcs gmcs : List McOut)
    (t : Option ClpTable) (noise : Bool) (std : Rat) (seed : Option Nat) (d : Mat) (dims : String × String)
    (coords : List (String × Vec))
    (hn : noiseless ⟨nModel, nGlobal, mcs, gmcs, t, if noise then some ⟨std, seed⟩ else none⟩ = .ok d) :
    (if noise then
        Py.M.andThen (seedStep rng seed)
          (fun _ => Py.M.andThen (Py.M.normal rng (SimResult.mk dims coords d).data std)
            (fun v7 => Py.M.ret (Py.setData (SimResult.mk dims coords d) v7)))
        else Py.M.ret (SimResult.mk dims coords d)) st =
      (Except.map (fun d => SimResult.mk dims coords d)
        (simulate rng st ⟨nModel, nGlobal, mcs, gmcs, t, if noise then some ⟨std, seed⟩ else none⟩).1,
       (simulate rng st ⟨nModel, nGlobal, mcs, gmcs, t, if noise then some ⟨std, seed⟩ else none⟩).2) := by
  obtain ⟨hl, hw⟩ := noiseless_shape _ d hn
  simp only at hl hw
  unfold simulate
  rw [hn]
  cases noise with
  | false => rfl
  | true =>
    cases seed with
    | none =>
      simp only [if_true, seedStep, Py.M.ret, Py.M.andThen, Py.setData, Except.map,
        normal_eq rng d nModel nGlobal std st hl hw]
    | some sd =>
      simp only [if_true, seedStep, Py.M.ret, Py.M.andThen, Py.setData, Except.map, Py.M.seed,
        normal_eq rng d nModel nGlobal std (rng.reseed sd) hl hw]

/-- **the regenerated `simulate` is the model's `simulateCall`** -/
theorem gen_simulate {σ : Type} (rng : Rng σ) (st : σ) (dm : Py.DatasetModel) (coords : List (String × Vec))
    (clpArr : Option Py.DataArray) (t : Option ClpTable) (noise : Bool) (std : Rat) (seed : Option Nat)
    (hclp : ∀ maxis gdim gaxis, SimCall.resolve ⟨dm.model_dimension, coords, dm.mcs, dm.gmcs, t, none⟩ = .ok (maxis, gdim, gaxis) →
      ClpPresents gdim clpArr t ∧ (dm.gmcs ≠ [] → gdim ≠ "clp_label" ∧ GlobalShapeOK dm gaxis)) :
    Generated.simulate rng dm coords clpArr noise std seed st =
      simulateCall rng st ⟨dm.model_dimension, coords, dm.mcs, dm.gmcs, t, if noise then some ⟨std, seed⟩ else none⟩ := by
  unfold Generated.simulate simulateCall SimCall.resolve
  unfold SimCall.resolve at hclp
  simp only [M_andThen_lift, Py.dictGet, Py.nextKeyNe] at hclp ⊢
  cases hma : coords.lookup dm.model_dimension with
  | none => rfl
  | some maxis =>
    simp only [hma] at hclp
    simp only []
    cases hf : coords.find? (fun p => p.1 != dm.model_dimension) with
    | none => rfl
    | some p =>
      simp only [hf] at hclp
      obtain ⟨hpres, hfull⟩ := hclp maxis p.1 p.2 rfl
      simp only [lookup_of_find coords dm.model_dimension p hf, M_andThen_ret]
      have hsim : ∀ e, noiseless ⟨maxis.length, p.2.length, dm.mcs, dm.gmcs, t, if noise then some ⟨std, seed⟩ else none⟩ = .error e →
          simulate rng st ⟨maxis.length, p.2.length, dm.mcs, dm.gmcs, t, if noise then some ⟨std, seed⟩ else none⟩ = (.error e, st) := by
        intro e he; unfold simulate; rw [he]
      by_cases hg : dm.gmcs.isEmpty = true
      · have hnl0 : ∀ tt, t = some tt →
            noiseless ⟨maxis.length, p.2.length, dm.mcs, dm.gmcs, t, if noise then some ⟨std, seed⟩ else none⟩ =
              simulateFromClp dm.mcs maxis.length p.2.length tt := by
          intro tt htt; unfold noiseless; simp [hg, htt]
        simp only [Py.hasGlobalModel, hg, Bool.not_true, Bool.false_eq_true, if_false]
        cases clpArr with
        | none =>
          cases t with
          | none =>
            have : noiseless ⟨maxis.length, p.2.length, dm.mcs, dm.gmcs, none, if noise then some ⟨std, seed⟩ else none⟩ = .error .noClp := by
              unfold noiseless; simp [hg]
            simp only [hsim _ this]; rfl
          | some _ => exact absurd hpres (by simp [ClpPresents])
        | some a =>
          cases t with
          | none => exact absurd hpres (by simp [ClpPresents])
          | some tt =>
            simp only [ClpPresents] at hpres
            obtain ⟨tl, tr⟩ := tt
            have hnl := hnl0 ⟨tl, tr⟩ rfl
            simp only [M_andThen_lift]
            cases tl with
            | none =>
              simp only at hpres
              rw [gen_from_clp_nolabel dm p.1 p.2 dm.model_dimension maxis a hpres tr]
              cases hr : simulateFromClp dm.mcs maxis.length p.2.length ⟨none, tr⟩ with
              | error e => rw [hr] at hnl; simp only [hsim e hnl]; rfl
              | ok d => simp [simulateFromClp] at hr
            | some ls =>
              simp only at hpres
              rw [gen_from_clp dm p.1 p.2 dm.model_dimension maxis a ls tr hpres]
              cases hr : simulateFromClp dm.mcs maxis.length p.2.length ⟨some ls, tr⟩ with
              | error e => rw [hr] at hnl; simp only [hsim e hnl]; rfl
              | ok d =>
                rw [hr] at hnl
                simp only [Except.map]
                exact noise_tail rng st maxis.length p.2.length dm.mcs dm.gmcs _ noise std seed d _ _ hnl
      · have hne : dm.gmcs ≠ [] := by intro h; rw [h] at hg; simp at hg
        obtain ⟨h1, h2⟩ := hfull hne
        have hg' : dm.gmcs.isEmpty = false := by simpa using hg
        have hnl : noiseless ⟨maxis.length, p.2.length, dm.mcs, dm.gmcs, t, if noise then some ⟨std, seed⟩ else none⟩ =
            simulateFullModel dm.mcs dm.gmcs maxis.length p.2.length := by
          unfold noiseless; simp [hg']
        simp only [Py.hasGlobalModel, hg', Bool.not_false, if_true, M_andThen_lift]
        rw [gen_full_model dm p.1 p.2 dm.model_dimension maxis h1 h2]
        cases hr : simulateFullModel dm.mcs dm.gmcs maxis.length p.2.length with
        | error e => rw [hr] at hnl; simp only [hsim e hnl]; rfl
        | ok d =>
          rw [hr] at hnl
          simp only [Except.map]
          exact noise_tail rng st maxis.length p.2.length dm.mcs dm.gmcs _ noise std seed d _ _ hnl

end Glotaran.C14
