/-
C04 — several decay megacomplexes in one dataset model: the union of their species, selection of table
columns by label, and the re-indexing of a sum over a megacomplex's compartments as a sum over all species.
Also: the diagonal coefficient of the closed-form A-matrix.
-/
import GlotaranProofs.Lemmas.C04Cast
namespace Glotaran.C04

theorem evalTerm_nil : evalTerm [] = 0 := by simp [evalTerm]

theorem evalTerm_append (a b : List (ℝ × ℝ)) : evalTerm (a ++ b) = evalTerm a + evalTerm b := by
  simp [evalTerm, List.map_append, List.sum_append]

theorem mem_foldl_addIfNew (cs acc : List String) (y : String) :
    y ∈ cs.foldl addIfNew acc ↔ y ∈ acc ∨ y ∈ cs := by
  induction cs generalizing acc with
  | nil => simp
  | cons c cs ih =>
    simp only [List.foldl_cons, ih, mem_addIfNew, List.mem_cons]
    constructor
    · rintro ((h | h) | h)
      · exact Or.inl h
      · exact Or.inr (Or.inl h)
      · exact Or.inr (Or.inr h)
    · rintro (h | h | h)
      · exact Or.inl (Or.inl h)
      · exact Or.inl (Or.inr h)
      · exact Or.inr h

theorem nodup_foldl_addIfNew (cs acc : List String) (h : acc.Nodup) : (cs.foldl addIfNew acc).Nodup := by
  induction cs generalizing acc with
  | nil => exact h
  | cons c cs ih => exact ih _ (nodup_addIfNew _ _ h)

theorem mem_allSpecies_foldl (compss : List (List String)) (acc : List String) (y : String) :
    y ∈ compss.foldl (fun acc cs => cs.foldl addIfNew acc) acc ↔ y ∈ acc ∨ ∃ cs ∈ compss, y ∈ cs := by
  induction compss generalizing acc with
  | nil => simp
  | cons cs rest ih =>
    simp only [List.foldl_cons, ih, mem_foldl_addIfNew, List.mem_cons]
    constructor
    · rintro ((h | h) | ⟨cs', hcs', h⟩)
      · exact Or.inl h
      · exact Or.inr ⟨cs, Or.inl rfl, h⟩
      · exact Or.inr ⟨cs', Or.inr hcs', h⟩
    · rintro (h | ⟨cs', (rfl | hcs'), h⟩)
      · exact Or.inl (Or.inl h)
      · exact Or.inl (Or.inr h)
      · exact Or.inr ⟨cs', hcs', h⟩

theorem nodup_allSpecies_foldl (compss : List (List String)) (acc : List String) (h : acc.Nodup) :
    (compss.foldl (fun acc cs => cs.foldl addIfNew acc) acc).Nodup := by
  induction compss generalizing acc with
  | nil => exact h
  | cons cs rest ih => exact ih _ (nodup_foldl_addIfNew cs acc h)

theorem getD_idxOf (l : List String) (a : String) (h : a ∈ l) : l.getD (l.idxOf a) "" = a := by
  have hlt : l.idxOf a < l.length := List.idxOf_lt_length_iff.mpr h
  simp [List.getD_eq_getElem?_getD, hlt]

theorem idxOf_getD (l : List String) (hn : l.Nodup) (i : ℕ) (hi : i < l.length) :
    l.idxOf (l.getD i "") = i := by
  have : l.getD i "" = l[i] := by simp [List.getD_eq_getElem?_getD, hi]
  rw [this]
  exact List.Nodup.idxOf_getElem hn i hi

/-- selecting columns by label and summing over the selection = summing over all labelled columns,
    restricted to the selected labels -/
theorem sum_selCols_reindex (all cs : List String) (hall : all.Nodup) (hcs : cs.Nodup)
    (hsub : ∀ c ∈ cs, c ∈ all) (f h : ℕ → ℝ) :
    ∑ c ∈ Finset.range cs.length, f (all.idxOf (cs.getD c "")) * h c
      = ∑ s ∈ Finset.range all.length,
          f s * (if cs.contains (all.getD s "") then h (cs.idxOf (all.getD s "")) else 0) := by
  simp only [mul_ite, mul_zero]
  rw [← Finset.sum_filter]
  have hmemc : ∀ c, c < cs.length → cs.getD c "" ∈ cs := by
    intro c hc
    have : cs.getD c "" = cs[c] := by simp [List.getD_eq_getElem?_getD, hc]
    rw [this]; exact List.getElem_mem hc
  have hmema : ∀ s, s < all.length → all.getD s "" ∈ all := by
    intro s hs
    have : all.getD s "" = all[s] := by simp [List.getD_eq_getElem?_getD, hs]
    rw [this]; exact List.getElem_mem hs
  apply Finset.sum_nbij' (fun c => all.idxOf (cs.getD c "")) (fun s => cs.idxOf (all.getD s ""))
  · intro c hc
    have hc' := Finset.mem_range.mp hc
    have hm := hsub _ (hmemc c hc')
    simp only [Finset.mem_filter, Finset.mem_range]
    refine ⟨List.idxOf_lt_length_iff.mpr hm, ?_⟩
    rw [getD_idxOf all _ hm]
    simpa using hmemc c hc'
  · intro s hs
    simp only [Finset.mem_filter, Finset.mem_range] at hs
    have : all.getD s "" ∈ cs := by simpa using hs.2
    exact Finset.mem_range.mpr (List.idxOf_lt_length_iff.mpr this)
  · intro c hc
    have hc' := Finset.mem_range.mp hc
    rw [getD_idxOf all _ (hsub _ (hmemc c hc')), idxOf_getD cs hcs c hc']
  · intro s hs
    simp only [Finset.mem_filter, Finset.mem_range] at hs
    have : all.getD s "" ∈ cs := by simpa using hs.2
    rw [getD_idxOf cs _ this, idxOf_getD all hall s hs.1]
  · intro c hc
    have hc' := Finset.mem_range.mp hc
    rw [getD_idxOf all _ (hsub _ (hmemc c hc')), idxOf_getD cs hcs c hc']

/-- the diagonal coefficient `a[l,l]` of the closed form is non-zero when the earlier rates are non-zero
and differ from rate `l` -/
theorem aSeqAt_diag_ne_zero {F : Type} [Field F] (r : ℕ → F) (l : ℕ) (hnz : ∀ m < l, r m ≠ 0)
    (hne : ∀ m < l, r m ≠ r l) : aSeqAt r l l ≠ 0 := by
  rw [aSeqAt_eq, if_neg (lt_irrefl l)]
  apply div_ne_zero
  · exact Finset.prod_ne_zero_iff.mpr (fun m hm => hnz m (Finset.mem_range.mp hm))
  · apply Finset.prod_ne_zero_iff.mpr
    intro m hm
    have h1 := Finset.mem_erase.mp hm
    have h2 := Finset.mem_range.mp h1.2
    exact sub_ne_zero.mpr (hne m (by omega))

end Glotaran.C04
