import GlotaranModel.C19
namespace Glotaran.C19

theorem lookup_filter_ne (r : Registry) (k k' : String) (h : k' ≠ k) :
    lookup (r.filter (fun e => e.1 ≠ k)) k' = lookup r k' := by
  induction r with
  | nil => rfl
  | cons e rest ih =>
    obtain ⟨ke, pe⟩ := e
    by_cases hk : ke = k
    · subst hk
      have : ke ≠ k' := fun h' => h h'.symm
      simp_all [List.filter, lookup]
    · simp_all [List.filter, lookup]

theorem lookup_filter_self (r : Registry) (k : String) :
    lookup (r.filter (fun e => e.1 ≠ k)) k = none := by
  induction r with
  | nil => rfl
  | cons e rest ih =>
    obtain ⟨ke, pe⟩ := e
    by_cases hk : ke = k
    · simp_all [List.filter]
    · simp_all [List.filter, lookup]

theorem lookup_insert (r : Registry) (k k' : String) (p : Plugin) :
    lookup (insert r k p) k' = if k = k' then some p else lookup r k' := by
  induction r with
  | nil => simp [insert, lookup]
  | cons e rest ih =>
    obtain ⟨ke, pe⟩ := e
    by_cases hk : ke = k
    · subst hk
      by_cases h : ke = k' <;> simp [insert, lookup, h]
    · by_cases h : ke = k'
      · subst h
        simp [insert, lookup, hk, Ne.symm hk]
      · simp [insert, lookup, hk, h, ih]

theorem hasDot_fullName (p : Plugin) : hasDot p.fullName = true := by
  simp [hasDot, Plugin.fullName]

theorem hasDot_fullKey (p : Plugin) (id : String) : hasDot (fullKey p id) = true := by
  unfold fullKey
  split
  · exact hasDot_fullName p
  · simp [hasDot, Plugin.fullName]

theorem ne_of_hasDot {a b : String} (ha : hasDot a = true) (hb : hasDot b = false) : a ≠ b := by
  intro h; subst h; simp [ha] at hb

end Glotaran.C19
