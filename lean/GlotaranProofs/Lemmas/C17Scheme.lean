/-
C17 — lemmas for the scheme / result specification round trip (GlotaranModel/C17Scheme.lean).
-/
import GlotaranModel.C17Scheme
namespace Glotaran.C17

/-! ### list facts -/

theorem dropWhile_sub {α} (p q : α → Bool) (hpq : ∀ x, p x = true → q x = true) (l : List α)
    (h : ∀ d ds, l.dropWhile p = d :: ds → q d = false) : l.dropWhile q = l.dropWhile p := by
  induction l with
  | nil => rfl
  | cons x xs ih =>
    by_cases hx : p x = true
    · have hq := hpq x hx
      simp only [List.dropWhile_cons, hx, hq, if_true] at h ⊢
      exact ih h
    · have hd := h x xs (by simp [List.dropWhile_cons, hx])
      simp [List.dropWhile_cons, hx, hd]

theorem takeWhile_sub {α} (p q : α → Bool) (hpq : ∀ x, p x = true → q x = true) (l : List α)
    (h : ∀ d ds, l.dropWhile p = d :: ds → q d = false) : l.takeWhile q = l.takeWhile p := by
  induction l with
  | nil => rfl
  | cons x xs ih =>
    by_cases hx : p x = true
    · have hq := hpq x hx
      simp only [List.dropWhile_cons, hx, if_true] at h
      simp only [List.takeWhile_cons, hx, hq, if_true]
      rw [ih h]
    · have hd := h x xs (by simp [List.dropWhile_cons, hx])
      simp [List.takeWhile_cons, hx, hd]

theorem dropWhile_all {α} (p : α → Bool) (l : List α) (h : l.all p = true) : l.dropWhile p = [] := by
  induction l with
  | nil => rfl
  | cons x xs ih =>
    simp only [List.all_cons, Bool.and_eq_true] at h
    simp [List.dropWhile_cons, h.1, ih h.2]

theorem takeWhile_all {α} (p : α → Bool) (l : List α) (h : l.all p = true) : l.takeWhile p = l := by
  induction l with
  | nil => rfl
  | cons x xs ih =>
    simp only [List.all_cons, Bool.and_eq_true] at h
    simp [List.takeWhile_cons, h.1, ih h.2]

theorem digit_digU (c : Char) (h : c.isDigit = true) : digU c = true := by simp [digU, h]

/-! ### the words -/

theorem strIn_head (t : Str) (ws : List String) (h : strIn t ws = true) : ∃ w ∈ ws, t = w.toList := by
  simp only [strIn, List.any_eq_true, beq_iff_eq] at h
  exact h

theorem yBool_false_of_head (c : Char) (cs : Str) (h : c ≠ 't' ∧ c ≠ 'T' ∧ c ≠ 'f' ∧ c ≠ 'F') : yBool (c :: cs) = false := by
  cases hb : yBool (c :: cs) with
  | false => rfl
  | true =>
    obtain ⟨w, hw, ht⟩ := strIn_head _ _ hb
    simp only [List.mem_cons, List.not_mem_nil, or_false] at hw
    rcases hw with rfl | rfl | rfl | rfl | rfl | rfl <;>
      (have := congrArg List.head? ht; simp at this; simp_all)


theorem strIn_false_of_head (c : Char) (cs : Str) (ws : List String) (h : ∀ w ∈ ws, w.toList.head? ≠ some c) :
    strIn (c :: cs) ws = false := by
  cases hb : strIn (c :: cs) ws with
  | false => rfl
  | true =>
    obtain ⟨w, hw, ht⟩ := strIn_head _ _ hb
    exact absurd (by rw [← ht]; rfl) (h w hw)

theorem digit_ne (c : Char) (h : c.isDigit = true) (d : Char) (hd : d.isDigit = false) : c ≠ d := by
  intro e; subst e; simp [h] at hd

/-! ### integers -/

theorem natText_all (n : Nat) : (natText n).all Char.isDigit = true := by
  simp only [natText, List.all_eq_true]
  intro c hc
  exact Nat.isDigit_of_mem_toDigits (by omega) (by omega) hc

theorem natText_ne (n : Nat) : natText n ≠ [] := Nat.toDigits_ne_nil

theorem parseNat_natText (n : Nat) : parseNat (natText n) = n := by
  have : parseNat (natText n) = Nat.ofDigitChars 10 (Nat.toDigits 10 n) 0 := rfl
  rw [this, Nat.ofDigitChars_ten_toDigits]

/-- a run of digits, with or without a minus sign in front, is resolved as an int -/
theorem yKind_digits (t u : Str) (hne : u ≠ []) (hd : u.all Char.isDigit = true) (ht : t = u ∨ t = '-' :: u) :
    yKind t = .int ∧ dropSign t = u := by
  obtain ⟨c, cs, rfl⟩ := List.exists_cons_of_ne_nil hne
  have hc : c.isDigit = true := by simp only [List.all_cons, Bool.and_eq_true] at hd; exact hd.1
  have hsign : isSignC c = false := by
    simp only [isSignC, Bool.or_eq_false_iff, beq_eq_false_iff_ne]
    exact ⟨digit_ne c hc '+' (by decide), digit_ne c hc '-' (by decide)⟩
  have hu : dropSign t = c :: cs := by
    rcases ht with rfl | rfl
    · simp [dropSign, hsign]
    · simp [dropSign, isSignC]
  have hall : (c :: cs).all digU = true := by
    simp only [List.all_eq_true] at hd ⊢
    exact fun x hx => digit_digU x (hd x hx)
  have hdw : (c :: cs).dropWhile digU = [] := by
    exact dropWhile_all _ _ hall
  have hdot : c ≠ '.' := digit_ne c hc '.' (by decide)
  refine ⟨?_, hu⟩
  have hb : yBool t = false := by
    rcases ht with rfl | rfl
    · exact yBool_false_of_head c cs ⟨digit_ne c hc _ (by decide), digit_ne c hc _ (by decide), digit_ne c hc _ (by decide), digit_ne c hc _ (by decide)⟩
    · exact yBool_false_of_head '-' _ (by decide)
  have hnan : strIn t [".nan", ".NaN", ".NAN"] = false := by
    rcases ht with rfl | rfl
    · apply strIn_false_of_head; intro w hw
      simp only [List.mem_cons, List.not_mem_nil, or_false] at hw
      rcases hw with rfl | rfl | rfl <;> simp [Ne.symm hdot]
    · apply strIn_false_of_head; intro w hw
      simp only [List.mem_cons, List.not_mem_nil, or_false] at hw
      rcases hw with rfl | rfl | rfl <;> decide
  have hinf : strIn (c :: cs) [".inf", ".Inf", ".INF"] = false := by
    apply strIn_false_of_head; intro w hw
    simp only [List.mem_cons, List.not_mem_nil, or_false] at hw
    rcases hw with rfl | rfl | rfl <;> simp [Ne.symm hdot]
  have hf : yFloat t = false := by
    simp only [yFloat, hu, hdw, hinf, hnan, expAll, Bool.and_false, Bool.or_false]
    split
    · rename_i f h; simp at h; exact absurd h.1 hdot
    · rfl
  have hi : yInt t = true := by
    simp only [yInt, hu, hall]
    rcases ht with rfl | rfl
    · simp [hc]
    · simp [isSignC]
  simp [yKind, hb, hf, hi]

theorem filter_digits (u : Str) (hd : u.all Char.isDigit = true) : u.filter (· != '_') = u := by
  rw [List.filter_eq_self]
  intro c hc
  simp only [List.all_eq_true] at hd
  simpa using digit_ne c (hd c hc) '_' (by decide)

theorem int_roundtrip (i : Int) : yKind (intText i) = .int ∧ parseIntText (intText i) = some i := by
  cases i with
  | ofNat n =>
    obtain ⟨hk, hu⟩ := yKind_digits (natText n) (natText n) (natText_ne n) (natText_all n) (Or.inl rfl)
    refine ⟨hk, ?_⟩
    obtain ⟨c, cs, hcs⟩ := List.exists_cons_of_ne_nil (natText_ne n)
    have hc : c.isDigit = true := by have := natText_all n; rw [hcs] at this; simp only [List.all_cons, Bool.and_eq_true] at this; exact this.1
    have hm : (natText n).head? ≠ some '-' := by rw [hcs]; simpa using digit_ne c hc '-' (by decide)
    simp only [intText, parseIntText, hu, filter_digits _ (natText_all n), natText_all, parseNat_natText]
    simp [natText_ne n, hm]
  | negSucc n =>
    obtain ⟨hk, hu⟩ := yKind_digits ('-' :: natText (n + 1)) (natText (n + 1)) (natText_ne _) (natText_all _) (Or.inr rfl)
    refine ⟨hk, ?_⟩
    simp only [intText, parseIntText, hu, filter_digits _ (natText_all _), natText_all, parseNat_natText]
    simp [natText_ne (n + 1)]
    rfl


/-! ### floats -/

theorem pyExp_expAll (r : Str) (h : pyExp r = true) : expAll r = true ∧ ∃ xs, r = 'e' :: xs := by
  unfold pyExp at h
  split at h
  · rename_i sg d
    simp only [Bool.and_eq_true, Bool.not_eq_true'] at h
    obtain ⟨⟨hs, hne⟩, hd⟩ := h
    refine ⟨?_, _, rfl⟩
    simp [expAll, isExpC, dropSign, hs, hne, hd]
  · simp at h

theorem headNotDigU_of_pyExp (r : Str) (h : r = [] ∨ pyExp r = true) : ∀ d ds, r = d :: ds → digU d = false := by
  intro d ds hr
  rcases h with h | h
  · simp [h] at hr
  · obtain ⟨_, xs, hx⟩ := pyExp_expAll r h
    rw [hx] at hr
    simp only [List.cons.injEq] at hr
    rw [← hr.1]; decide

/-- the text ruamel writes for a float is resolved as a float -/
theorem yKind_pyFloat (t : Str) (h : pyFloatText t = true) : yKind t = .float := by
  unfold pyFloatText at h
  simp only [Bool.or_eq_true] at h
  rcases h with h | h
  · obtain ⟨w, hw, rfl⟩ := strIn_head _ _ h
    simp only [List.mem_cons, List.not_mem_nil, or_false] at hw
    rcases hw with rfl | rfl | rfl <;> decide
  · simp only [Bool.and_eq_true, Bool.not_eq_true'] at h
    obtain ⟨hip, hrest⟩ := h
    -- the unsigned part and its first digit
    obtain ⟨u, hu⟩ : ∃ u, u = (if (t.head? == some '-') = true then t.tail else t) := ⟨_, rfl⟩
    rw [← hu] at hip hrest
    obtain ⟨c, cs, rfl⟩ : ∃ c cs, u = c :: cs := by
      cases u with
      | nil => simp at hip
      | cons c cs => exact ⟨c, cs, rfl⟩
    have hc : c.isDigit = true := by
      cases hcd : c.isDigit with
      | true => rfl
      | false => simp [List.takeWhile_cons, hcd] at hip
    have ht : t = c :: cs ∨ t = '-' :: c :: cs := by
      by_cases hm : (t.head? == some '-') = true
      · rw [if_pos hm] at hu
        cases t with
        | nil => simp at hm
        | cons x xs => simp at hm hu; right; rw [hm, ← hu]
      · rw [if_neg hm] at hu; left; exact hu.symm
    have hsign : isSignC c = false := by
      simp only [isSignC, Bool.or_eq_false_iff, beq_eq_false_iff_ne]
      exact ⟨digit_ne c hc '+' (by decide), digit_ne c hc '-' (by decide)⟩
    have hds : dropSign t = c :: cs := by
      rcases ht with rfl | rfl
      · simp [dropSign, hsign]
      · simp [dropSign, isSignC]
    have hb : yBool t = false := by
      rcases ht with rfl | rfl
      · exact yBool_false_of_head c cs ⟨digit_ne c hc _ (by decide), digit_ne c hc _ (by decide), digit_ne c hc _ (by decide), digit_ne c hc _ (by decide)⟩
      · exact yBool_false_of_head '-' _ (by decide)
    have hf : yFloat t = true := by
      simp only [yFloat, hds, hc, Bool.true_and, Bool.or_eq_true]
      left; left; left
      split at hrest
      · rename_i f hr
        simp only [Bool.and_eq_true, Bool.not_eq_true', Bool.or_eq_true, List.isEmpty_iff] at hrest
        obtain ⟨_, hr2⟩ := hrest
        rw [dropWhile_sub Char.isDigit digU digit_digU (c :: cs) (by intro d ds hd; rw [hr] at hd; simp only [List.cons.injEq] at hd; rw [← hd.1]; decide), hr]
        simp only []
        rw [dropWhile_sub Char.isDigit digU digit_digU f (headNotDigU_of_pyExp _ hr2)]
        rcases hr2 with h2 | h2
        · simp [h2]
        · simp [(pyExp_expAll _ h2).1]
      · rename_i hne
        obtain ⟨he, xs, hx⟩ := pyExp_expAll _ hrest
        rw [dropWhile_sub Char.isDigit digU digit_digU (c :: cs) (headNotDigU_of_pyExp _ (Or.inr hrest)), hx]
        rw [hx] at he
        simpa using he
    simp [yKind, hb, hf]


/-! ### scalars: written and read back -/

/-- the values `write_dict` can write -/
def pvWritable : PV → Bool
  | .flt t => pyFloatText t
  | .other _ => false
  | _ => true

theorem resolve_strTok (ps : Str → Bool) (s : Str) : resolveTok (strTok ps s) = .str s := by
  unfold strTok
  split
  · rename_i h
    simp only [Bool.and_eq_true, beq_iff_eq] at h
    simp [resolveTok, h.1]
  · rfl

theorem strsOf_strToks (ps : Str → Bool) (l : List Str) : strsOf (l.map (resolveTok ∘ strTok ps)) = some l := by
  induction l with
  | nil => rfl
  | cons s r ih => simp [strsOf, resolve_strTok, ih]

theorem scalar_roundtrip (ps : Str → Bool) (v : PV) (h : pvWritable v = true) :
    ∃ y, emitPV ps v = some y ∧ loadNode y = v := by
  cases v with
  | none => exact ⟨_, rfl, by decide⟩
  | bool b => cases b <;> exact ⟨_, rfl, by decide⟩
  | int i =>
    obtain ⟨hk, hp⟩ := int_roundtrip i
    exact ⟨_, rfl, by simp [loadNode, resolveTok, hk, hp]⟩
  | flt t => exact ⟨_, rfl, by simp [loadNode, resolveTok, yKind_pyFloat t h]⟩
  | str s => exact ⟨_, rfl, by simp [loadNode, resolve_strTok]⟩
  | strs l => exact ⟨_, rfl, by simp [loadNode, strsOf_strToks]⟩
  | other w => simp [pvWritable] at h

theorem pvWritable_of_ty (t : FTy) (v : PV) (h : pvOfTy t v = true) : pvWritable v = true := by
  induction t generalizing v with
  | opt t ih =>
    cases v with
    | none => rfl
    | _ => simp only [pvOfTy] at h; exact ih _ h
  | _ => cases v <;> simp_all [pvOfTy, pvWritable]

/-! ### the document of a conforming instance -/

/-- what `asdict` + `write_dict` produce for one field of a conforming instance -/
def nodeOf (ps : Str → Bool) (cwd : List Str) (folder : Option Str) (f : FieldSpec) (v : FV) : List (Str × YN) :=
  match f.kind, v with
  | .plain, .pv x => (match emitPV ps x with
                      | some y => [(f.name.toList, y)]
                      | none => [])
  | .fileOne, .comp (some p) => [(f.name.toList, .scalar (strTok ps (relativePosixPath cwd p folder)))]
  | .fileMap, .comps m => [(f.name.toList, .map (m.map (fun x => (x.1, strTok ps (relativePosixPath cwd x.2 folder)))))]
  | _, _ => []

def docOf (ps : Str → Bool) (cwd : List Str) (folder : Option Str) : List FieldSpec → List FV → List (Str × YN)
  | f :: fs, v :: vs => nodeOf ps cwd folder f v ++ docOf ps cwd folder fs vs
  | _, _ => []

theorem emitDoc_append (ps : Str → Bool) (a b : List (Str × DV)) (ya yb : List (Str × YN))
    (ha : emitDoc ps a = some ya) (hb : emitDoc ps b = some yb) : emitDoc ps (a ++ b) = some (ya ++ yb) := by
  induction a generalizing ya with
  | nil => simp [emitDoc] at ha; subst ha; simpa using hb
  | cons kv r ih =>
    obtain ⟨k, v⟩ := kv
    simp only [emitDoc] at ha
    cases hv : emitDV ps v with
    | none => simp [hv] at ha
    | some y =>
      cases hr : emitDoc ps r with
      | none => simp [hv, hr] at ha
      | some yr =>
        simp [hv, hr] at ha; subst ha
        simp [emitDoc, hv, ih yr hr]

theorem emit_fieldEntry (ps : Str → Bool) (cwd : List Str) (folder : Option Str) (f : FieldSpec) (v : FV)
    (h : fvConforms f v = true) : emitDoc ps (fieldEntry cwd folder f v) = some (nodeOf ps cwd folder f v) := by
  unfold fvConforms at h
  split at h
  · rename_i x hk
    obtain ⟨y, hy, _⟩ := scalar_roundtrip ps x (pvWritable_of_ty _ _ h)
    simp [fieldEntry, nodeOf, hk, emitDoc, emitDV, hy]
  · rename_i p hk; simp [fieldEntry, nodeOf, hk, emitDoc, emitDV]
  · rename_i m hk; simp [fieldEntry, nodeOf, hk, emitDoc, emitDV, List.map_map, Function.comp_def]
  · rename_i hk; simp [fieldEntry, nodeOf, hk, emitDoc]
  · simp at h

theorem emitDoc_asdict (ps : Str → Bool) (cwd : List Str) (folder : Option Str) (T : List FieldSpec) (vs : List FV)
    (h : conformsZ T vs = true) : emitDoc ps (asdictZ cwd folder T vs) = some (docOf ps cwd folder T vs) := by
  induction T generalizing vs with
  | nil => cases vs <;> simp [asdictZ, docOf, emitDoc]
  | cons f fs ih =>
    cases vs with
    | nil => simp [conformsZ] at h
    | cons v vs =>
      simp only [conformsZ, Bool.and_eq_true] at h
      simp only [asdictZ, docOf]
      exact emitDoc_append ps _ _ _ _ (emit_fieldEntry ps cwd folder f v h.1) (ih vs h.2)

theorem refsOf_strToks (ps : Str → Bool) (m : List (Str × Str)) :
    refsOf (m.map (fun x => (x.1, strTok ps x.2))) = some m := by
  induction m with
  | nil => rfl
  | cons x r ih => simp [refsOf, resolve_strTok, ih]

theorem loadField_congr (d d' : List (Str × YN)) (f : FieldSpec) (h : d.lookup f.name.toList = d'.lookup f.name.toList) :
    loadField d f = loadField d' f := by
  unfold loadField; rw [h]

/-- a field read back from its own node -/
theorem loadField_nodeOf (ps : Str → Bool) (cwd : List Str) (folder : Option Str) (f : FieldSpec) (v : FV)
    (h : fvConforms f v = true) : loadField (nodeOf ps cwd folder f v) f = some (loadedFV cwd folder f v) := by
  unfold fvConforms at h
  split at h
  · rename_i x hk
    obtain ⟨y, hy, hl⟩ := scalar_roundtrip ps x (pvWritable_of_ty _ _ h)
    simp [loadField, nodeOf, hk, hy, List.lookup_cons, hl, loadedFV]
  · rename_i p hk; simp [loadField, nodeOf, hk, List.lookup_cons, resolve_strTok, loadedFV]
  · rename_i m hk
    have := refsOf_strToks ps (m.map (fun x => (x.1, relativePosixPath cwd x.2 folder)))
    simp only [List.map_map, Function.comp_def] at this
    simp [loadField, nodeOf, hk, List.lookup_cons, this, loadedFV]
  · rename_i hk; simp [loadField, nodeOf, hk, loadedFV]
  · simp at h

theorem nodeOf_keys (ps : Str → Bool) (cwd : List Str) (folder : Option Str) (f : FieldSpec) (v : FV) :
    ∀ kv ∈ nodeOf ps cwd folder f v, kv.1 = f.name.toList ∧ f.kind ≠ .excluded := by
  intro kv hkv
  unfold nodeOf at hkv
  split at hkv
  · rename_i x hk
    split at hkv
    · simp at hkv; subst hkv; simp [hk]
    · simp at hkv
  · rename_i hk; simp at hkv; subst hkv; simp [hk]
  · rename_i hk; simp at hkv; subst hkv; simp [hk]
  · simp at hkv

theorem lookup_nodeOf_ne (ps : Str → Bool) (cwd : List Str) (folder : Option Str) (f : FieldSpec) (v : FV) (k : String)
    (h : k ≠ f.name) : (nodeOf ps cwd folder f v).lookup k.toList = none := by
  generalize hn : nodeOf ps cwd folder f v = n
  have hk := nodeOf_keys ps cwd folder f v
  rw [hn] at hk
  clear hn
  induction n with
  | nil => rfl
  | cons kv r ih =>
    have h1 := (hk kv (by simp)).1
    have hne : (k.toList == kv.1) = false := by
      rw [h1]; simpa [String.toList_inj] using h
    rw [show kv = (kv.1, kv.2) from rfl, List.lookup_cons, hne]
    exact ih (fun x hx => hk x (by simp [hx]))

theorem lookup_docOf_none (ps : Str → Bool) (cwd : List Str) (folder : Option Str) (T : List FieldSpec) (vs : List FV) (k : String)
    (h : (T.map (·.name)).contains k = false) : (docOf ps cwd folder T vs).lookup k.toList = none := by
  induction T generalizing vs with
  | nil => cases vs <;> simp [docOf]
  | cons f fs ih =>
    cases vs with
    | nil => simp [docOf]
    | cons v vs =>
      simp only [List.map_cons, List.contains_cons, Bool.or_eq_false_iff, beq_eq_false_iff_ne] at h
      simp only [docOf, List.lookup_append, lookup_nodeOf_ne ps cwd folder f v k h.1, Option.none_or]
      exact ih vs h.2

theorem mapM_loadField (ps : Str → Bool) (cwd : List Str) (folder : Option Str) (T : List FieldSpec) (vs : List FV)
    (hn : namesNodup (T.map (·.name)) = true) (hc : conformsZ T vs = true) (pre : List (Str × YN))
    (hpre : ∀ f ∈ T, pre.lookup f.name.toList = none) :
    T.mapM (loadField (pre ++ docOf ps cwd folder T vs)) = some (loadedZ cwd folder T vs) := by
  induction T generalizing vs pre with
  | nil => cases vs <;> simp [loadedZ]
  | cons f fs ih =>
    cases vs with
    | nil => simp [conformsZ] at hc
    | cons v vs =>
      simp only [conformsZ, Bool.and_eq_true] at hc
      simp only [List.map_cons, namesNodup, Bool.and_eq_true, Bool.not_eq_true'] at hn
      have h1 : loadField (pre ++ docOf ps cwd folder (f :: fs) (v :: vs)) f = some (loadedFV cwd folder f v) := by
        rw [← loadField_nodeOf ps cwd folder f v hc.1]
        apply loadField_congr
        simp only [docOf, List.lookup_append, hpre f (by simp), Option.none_or,
          lookup_docOf_none ps cwd folder fs vs f.name hn.1, Option.or_none]
      have h2 := ih vs hn.2 hc.2 (pre ++ nodeOf ps cwd folder f v) (by
        intro g hg
        have hgf : g.name ≠ f.name := by
          intro e
          have : (fs.map (·.name)).contains f.name = true := by
            simp only [List.contains_eq_mem, List.mem_map, decide_eq_true_eq]
            exact ⟨g, hg, e⟩
          rw [hn.1] at this; exact absurd this (by simp)
        simp only [List.lookup_append, hpre g (by simp [hg]), Option.none_or, lookup_nodeOf_ne ps cwd folder f v g.name hgf])
      rw [List.append_assoc] at h2
      simp only [docOf] at h1 ⊢
      simp [List.mapM_cons, h1, h2, loadedZ]

theorem docOf_keys_init (ps : Str → Bool) (cwd : List Str) (folder : Option Str) (T : List FieldSpec) (vs : List FV)
    (hok : T.all FieldSpec.ok = true) :
    ∀ kv ∈ docOf ps cwd folder T vs, ∃ f ∈ T, f.name.toList = kv.1 ∧ f.init = true := by
  induction T generalizing vs with
  | nil => cases vs <;> simp [docOf]
  | cons f fs ih =>
    cases vs with
    | nil => simp [docOf]
    | cons v vs =>
      simp only [List.all_cons, Bool.and_eq_true] at hok
      intro kv hkv
      simp only [docOf, List.mem_append] at hkv
      rcases hkv with hkv | hkv
      · obtain ⟨hk, hne⟩ := nodeOf_keys ps cwd folder f v kv hkv
        refine ⟨f, by simp, hk.symm, ?_⟩
        have := hok.1
        unfold FieldSpec.ok at this
        split at this <;> simp_all
      · obtain ⟨g, hg, h⟩ := ih vs hok.2 kv hkv
        exact ⟨g, by simp [hg], h⟩

/-- **`asdict` → `write_dict` → file → `load_dict` → `fromdict` over any well-formed field table**: for every instance
    whose values the declared types admit, writing succeeds and the loaded instance holds the same plain values, the
    references of its components and nothing for the excluded fields -/
theorem spec_roundtrip_generic (ps : Str → Bool) (cwd : List Str) (folder : Option Str) (T : List FieldSpec) (vs : List FV)
    (hT : tableOK T = true) (hc : conformsZ T vs = true) :
    (emitDoc ps (asdictZ cwd folder T vs)).bind (fromdict T) = some (loadedZ cwd folder T vs) := by
  simp only [tableOK, Bool.and_eq_true] at hT
  rw [emitDoc_asdict ps cwd folder T vs hc, Option.bind_some, fromdict]
  have hkeys : (docOf ps cwd folder T vs).all (fun kv => T.any (fun f => f.name.toList == kv.1 && f.init)) = true := by
    simp only [List.all_eq_true, List.any_eq_true, Bool.and_eq_true, beq_iff_eq]
    intro kv hkv
    obtain ⟨f, hf, h1, h2⟩ := docOf_keys_init ps cwd folder T vs hT.1 kv hkv
    exact ⟨f, hf, h1, h2⟩
  rw [if_pos hkeys]
  simpa using mapM_loadField ps cwd folder T vs hT.2 hc [] (by simp)


/-! ### result.yml: the two overridden references, the renames of `load_result` -/

theorem conformsZ_setSrc (name : String) (src : Str) (T : List FieldSpec) (vs : List FV)
    (hk : ∀ f ∈ T, f.name = name → f.kind = .fileOne) (hc : conformsZ T vs = true) :
    conformsZ T (setSrc name src T vs) = true := by
  induction T generalizing vs with
  | nil => cases vs <;> simp_all [setSrc, conformsZ]
  | cons f fs ih =>
    cases vs with
    | nil => simp [conformsZ] at hc
    | cons v vs =>
      simp only [conformsZ, Bool.and_eq_true] at hc
      simp only [setSrc, conformsZ, Bool.and_eq_true]
      refine ⟨?_, ih vs (fun g hg => hk g (by simp [hg])) hc.2⟩
      split
      · rename_i hn; simp [fvConforms, hk f (by simp) (by simpa using hn)]
      · exact hc.1

theorem foldl_renameKey_id (rs : List (String × String)) (doc : List (Str × YN))
    (h : ∀ r ∈ rs, doc.lookup r.1.toList = none) : rs.foldl renameKey doc = doc := by
  induction rs with
  | nil => rfl
  | cons r rest ih =>
    have h1 : renameKey doc r = doc := by simp [renameKey, h r (by simp)]
    simp only [List.foldl_cons, h1]
    exact ih (fun x hx => h x (by simp [hx]))

end Glotaran.C17
