/-
C17 — helper lemmas (key text, interval fields).  Paths: Lemmas/C17Path.lean, trees: Lemmas/C17Tree.lean,
ascii tables: Lemmas/C17Ascii.lean.
-/
import GlotaranProofs.Lemmas.C17Regex
namespace Glotaran.C17

/-! ### intervals -/

theorem IvElem.toYaml_applies (e : IvElem) (i : Rat) : elemApplies e.toYaml i = elemApplies e i := by
  cases e <;> rfl

theorem anyApplies_toYaml (xs : List IvElem) (i : Rat) :
    anyApplies (xs.map IvElem.toYaml) i = anyApplies xs i := by
  induction xs with
  | nil => rfl
  | cons e es ih => simp only [List.map, anyApplies, IvElem.toYaml_applies, ih]

theorem firstIsNum_toYaml (xs : List IvElem) : firstIsNum (xs.map IvElem.toYaml) = firstIsNum xs := by
  cases xs with
  | nil => rfl
  | cons e es => cases e <;> rfl

theorem singleApplies_toYaml (xs : List IvElem) (i : Rat) :
    singleApplies (xs.map IvElem.toYaml) i = singleApplies xs i := by
  match xs with
  | [] => rfl
  | [e] => cases e <;> rfl
  | e :: e' :: es => cases e <;> cases e' <;> rfl


/-! ### key text -/

/-- a label the yml key syntax can carry: non-empty, word characters only -/
def IsLabel (s : Str) : Prop := s ≠ [] ∧ ∀ c ∈ s, isWordChar c = true

instance (s : Str) : Decidable (IsLabel s) := by unfold IsLabel; exact inferInstance

theorem classB_of_word {c : Char} (h : isWordChar c = true) : classB c = true := by
  simp [classB, classA, h]

theorem classA_of_word {c : Char} (h : isWordChar c = true) : classA c = true := by
  simp [classA, h]

theorem dropWhile_append_all {α} (p : α → Bool) (xs ys : List α) (h : ∀ x ∈ xs, p x = true) :
    (xs ++ ys).dropWhile p = ys.dropWhile p := by
  induction xs with
  | nil => rfl
  | cons x xs ih =>
    have hx : p x = true := h x (by simp)
    simp only [List.cons_append, List.dropWhile_cons, hx, if_true]
    exact ih (fun y hy => h y (by simp [hy]))

theorem tupleWordMatch_render (a b : Str) (ha : IsLabel a) (hb : IsLabel b) :
    tupleWordMatch (renderPair a b) = true := by
  obtain ⟨hane, haw⟩ := ha
  obtain ⟨_, hbw⟩ := hb
  cases a with
  | nil => exact absurd rfl hane
  | cons c a' =>
    have hc : classA c = true := classA_of_word (haw c (by simp))
    have h1 : ∀ x ∈ a', classB x = true := fun x hx => classB_of_word (haw x (by simp [hx]))
    have h2 : ∀ x ∈ b, classB x = true := fun x hx => classB_of_word (hbw x hx)
    have hcomma : classB ',' = true := by decide
    have hblank : classB ' ' = true := by decide
    have hparen : classB ')' = false := by decide
    rw [tupleWordMatch_eq_det]
    simp only [renderPair, tupleWordMatchDet, List.cons_append, hc, Bool.true_and, beq_self_eq_true]
    rw [dropWhile_append_all classB a' _ h1]
    simp only [List.dropWhile_cons, hcomma, hblank, if_true]
    rw [dropWhile_append_all classB b _ h2]
    simp [hparen]

theorem wordFindall_render (a b : Str) (ha : IsLabel a) (hb : IsLabel b) :
    wordFindall (renderPair a b) = [a, b] := by
  obtain ⟨hane, haw⟩ := ha
  obtain ⟨hbne, hbw⟩ := hb
  have hp : isWordChar '(' = false := by decide
  have hc : isWordChar ',' = false := by decide
  have hs : isWordChar ' ' = false := by decide
  have hq : isWordChar ')' = false := by decide
  have hra : a.reverse ≠ [] := by simpa using hane
  have hrb : b.reverse ≠ [] := by simpa using hbne
  rw [wordFindall_eq_det]
  simp only [renderPair, wordRunsAux, hp]
  simp only [List.isEmpty_nil, if_true, Bool.false_eq_true, if_false]
  rw [wordRunsAux_append_word a _ [] haw]
  simp only [List.append_nil, wordRunsAux, hc, hs, Bool.false_eq_true, if_false, List.isEmpty_nil, if_true]
  have e1 : a.reverse.isEmpty = false := by simpa [List.isEmpty_iff] using hane
  simp only [e1, Bool.false_eq_true, if_false, List.reverse_reverse]
  rw [wordRunsAux_append_word b _ [] hbw]
  have e2 : b.reverse.isEmpty = false := by simpa [List.isEmpty_iff] using hbne
  simp [wordRunsAux, hq, e2]

/-- every string found by `word.findall` is a label -/
theorem wordRunsAux_labels (s cur : Str) (hcur : ∀ c ∈ cur, isWordChar c = true) :
    ∀ w ∈ wordRunsAux s cur, IsLabel w := by
  induction s generalizing cur with
  | nil =>
    intro w hw
    simp only [wordRunsAux] at hw
    split at hw
    · simp at hw
    · rename_i hne
      simp only [List.mem_singleton] at hw
      subst hw
      refine ⟨?_, ?_⟩
      · simpa [List.isEmpty_iff] using hne
      · intro c hc; exact hcur c (by simpa using hc)
  | cons x xs ih =>
    intro w hw
    simp only [wordRunsAux] at hw
    split at hw
    · rename_i hx
      exact ih (x :: cur) (by intro c hc; rcases List.mem_cons.mp hc with h | h; exact h ▸ hx; exact hcur c h) w hw
    · split at hw
      · exact ih [] (by simp) w hw
      · rename_i hne
        rcases List.mem_cons.mp hw with h | h
        · subst h
          refine ⟨?_, ?_⟩
          · simpa [List.isEmpty_iff] using hne
          · intro c hc; exact hcur c (by simpa using hc)
        · exact ih [] (by simp) w h

theorem wordFindall_labels (s : Str) : ∀ w ∈ wordFindall s, IsLabel w := by
  rw [wordFindall_eq_det]
  exact wordRunsAux_labels s [] (by simp)

end Glotaran.C17
