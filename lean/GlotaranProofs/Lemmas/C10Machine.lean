/-
C10 — helper lemmas about the optimiser machine: what a history of operations keeps (the invariant of the private
parameters, the caller's objects), and what `Optimizer.__init__` does to a scheme it has already seen.
-/
import GlotaranProofs.Lemmas.C10Programs
namespace Glotaran.C10

variable {P X M D V : Type}

/-- what the machine needs from the parameter object: an invariant `I` of its reachable states that every outcome of
    `set` and of the expression refresh keeps; under it a successful `set` at `x` shows the model items the same values
    whatever the state it started from, and leaves the object consistent (a refresh changes nothing) -/
structure ParamInv (ops : ParamOps P X V) (I : P → Prop) : Prop where
  ok : ∀ p x q, I p → ops.set p x = .ok q → I q
  err : ∀ p x q, I p → ops.set p x = .error q → I q
  refresh_ok : ∀ p q, I p → ops.refresh p = .ok q → I q
  refresh_err : ∀ p q, I p → ops.refresh p = .error q → I q
  indep : ∀ p p' x q q', I p → I p' → ops.set p x = .ok q → ops.set p' x = .ok q' → ops.val q = ops.val q'
  settled : ∀ p x q, I p → ops.set p x = .ok q → ops.refresh q = .ok q

theorem penalty_caller (ops : ParamOps P X V) (fn : String → List V → V) (spec : Spec) (m : Machine P M D V)
    (f : Fault) : (m.penalty ops fn spec f).1.caller = m.caller := by
  unfold Machine.penalty
  simp only []
  split
  · rfl
  · split
    · rfl
    · split <;> rfl

theorem penalty_inv (ops : ParamOps P X V) (fn : String → List V → V) (spec : Spec) (I : P → Prop)
    (hI : ParamInv ops I) (m : Machine P M D V) (h : I m.params) (f : Fault) :
    I (m.penalty ops fn spec f).1.params := by
  unfold Machine.penalty
  simp only []
  split
  · exact h
  · cases hr : ops.refresh m.params with
    | error q => exact hI.refresh_err _ _ h hr
    | ok q =>
      simp only []
      split <;> exact hI.refresh_ok _ _ h hr

theorem eval_caller (ops : ParamOps P X V) (fn : String → List V → V) (spec : Spec) (m : Machine P M D V)
    (x : X) (f : Fault) : (m.eval ops fn spec x f).1.caller = m.caller := by
  unfold Machine.eval
  split
  · rfl
  · rw [penalty_caller]

theorem step_caller (ops : ParamOps P X V) (fn : String → List V → V) (spec : Spec) (m : Machine P M D V)
    (o : Op X) : (m.step ops fn spec o).1.caller = m.caller := by
  cases o with
  | eval x f => exact eval_caller ops fn spec m x f
  | penalty f => exact penalty_caller ops fn spec m f

theorem run_caller (ops : ParamOps P X V) (fn : String → List V → V) (spec : Spec) :
    ∀ (h : List (Op X)) (m : Machine P M D V), (m.run ops fn spec h).caller = m.caller := by
  intro h
  induction h with
  | nil => intro m; rfl
  | cons o h ih =>
    intro m
    simp only [Machine.run, List.foldl_cons] at ih ⊢
    rw [ih]; exact step_caller ops fn spec m o

theorem step_inv (ops : ParamOps P X V) (fn : String → List V → V) (spec : Spec) (I : P → Prop)
    (hI : ParamInv ops I) (m : Machine P M D V) (h : I m.params) (o : Op X) :
    I (m.step ops fn spec o).1.params := by
  cases o with
  | penalty f => exact penalty_inv ops fn spec I hI m h f
  | eval x f =>
    simp only [Machine.step, Machine.eval]
    cases hs : ops.set m.params x with
    | error q => exact hI.err _ _ _ h hs
    | ok q => exact penalty_inv ops fn spec I hI _ (hI.ok _ _ _ h hs) f

theorem run_inv (ops : ParamOps P X V) (fn : String → List V → V) (spec : Spec) (I : P → Prop)
    (hI : ParamInv ops I) : ∀ (h : List (Op X)) (m : Machine P M D V), I m.params →
      I (m.run ops fn spec h).params := by
  intro h
  induction h with
  | nil => intro m hm; exact hm
  | cons o h ih =>
    intro m hm
    simp only [Machine.run, List.foldl_cons] at ih ⊢
    exact ih _ (step_inv ops fn spec I hI m hm o)

theorem wd_take : ∀ (p : List Instr) (D : List Loc) (n : Nat), wellDefined D p = true →
    wellDefined D (p.take n) = true := by
  intro p
  induction p with
  | nil => intro D n _; simp [wellDefined]
  | cons i p ih =>
    intro D n h
    cases n with
    | zero => simp [wellDefined]
    | succ n =>
      simp only [List.take_succ_cons]
      cases i <;> simp only [wellDefined, Bool.and_eq_true] at h ⊢
      · exact ⟨h.1, ih _ _ h.2⟩
      · exact ⟨h.1, ih _ _ h.2⟩
      · exact ⟨h.1, ih _ _ h.2⟩
      · exact ⟨h.1, ih _ _ h.2⟩
      · exact ⟨h.1, ih _ _ h.2⟩
      · exact ih _ _ h

theorem penalty_storeOK (ops : ParamOps P X V) (fn : String → List V → V) (spec : Spec) (hwf : Spec.WF spec)
    (m : Machine P M D V) (hm : StoreOK m.store) (f : Fault) : StoreOK (m.penalty ops fn spec f).1.store := by
  have hsw := wd_sweep spec hwf [Loc.params] (List.mem_singleton.mpr rfl)
  have hco := wd_collect spec (Loc.params :: defs (sweep spec)) (List.mem_cons_self ..)
    (fun l hl => List.mem_cons_of_mem _ hl)
  have h1 : StoreOK (exec fn m.store (sweep spec)) := exec_storeOK fn _ _ _ hm hsw
  unfold Machine.penalty
  simp only []
  split
  · exact exec_storeOK fn _ _ _ hm (wd_take _ _ _ hsw)
  · split
    · exact storeOK_set h1 _ _
    · split
      · exact exec_storeOK fn _ _ _ (storeOK_set h1 _ _) (wd_take _ _ _ hco)
      · exact exec_storeOK fn _ _ _ (storeOK_set h1 _ _) hco

theorem step_storeOK (ops : ParamOps P X V) (fn : String → List V → V) (spec : Spec) (hwf : Spec.WF spec)
    (m : Machine P M D V) (hm : StoreOK m.store) (o : Op X) : StoreOK (m.step ops fn spec o).1.store := by
  cases o with
  | penalty f => exact penalty_storeOK ops fn spec hwf m hm f
  | eval x f =>
    simp only [Machine.step, Machine.eval]
    cases hs : ops.set m.params x with
    | error q => exact storeOK_set hm _ _
    | ok q => exact penalty_storeOK ops fn spec hwf _ (storeOK_set hm _ _) f

theorem run_storeOK (ops : ParamOps P X V) (fn : String → List V → V) (spec : Spec) (hwf : Spec.WF spec) :
    ∀ (h : List (Op X)) (m : Machine P M D V), StoreOK m.store → StoreOK (m.run ops fn spec h).store := by
  intro h
  induction h with
  | nil => intro m hm; exact hm
  | cons o h ih =>
    intro m hm
    simp only [Machine.run, List.foldl_cons] at ih ⊢
    exact ih _ (step_storeOK ops fn spec hwf m hm o)

theorem wd_initProgram (spec : Spec) (D : List Loc) (hp : Loc.callerParams ∈ D) :
    wellDefined D (initProgram spec) = true := by
  unfold initProgram
  apply wd_flatMap
  intro ⟨gs, g⟩ _
  exact wd_setParametersFrom .callerParams (by simp) g gs D hp

theorem init_storeOK (ops : ParamOps P X V) (fn : String → List V → V) (spec : Spec) (copy : P → P)
    (c : Caller P M D) : StoreOK (Machine.init (V := V) ops fn spec copy c).store := by
  simp only [Machine.init]
  apply exec_storeOK fn _ [Loc.params]
  · apply exec_storeOK fn _ [Loc.callerParams, Loc.params]
    · exact storeOK_set (storeOK_set storeOK_empty _ _) _ _
    · exact wd_initProgram spec _ (List.mem_cons_self ..)
  · simp [wellDefined]

/-- overwriting a parameter object with the value it holds changes nothing that can be read -/
theorem set_source_noop (fn : String → List V → V) {s : Store V} (hok : StoreOK s) {src : Loc}
    (hs : src ∈ paramSources) {v : List V} (hv : s.get fn src = v) : ∀ l, (s.set src v).get fn l = s.get fn l := by
  intro l
  have hraw : s.raw src = v := by rw [← get_source fn hok hs]; exact hv
  by_cases hl : l = src
  · subst hl; rw [get_set_same]; exact hv.symm
  · simp only [Store.set, Store.get, find_put_other _ _ hl]
    cases hf : s.find l with
    | none => rfl
    | some cell =>
      cases cell with
      | vals vs => rfl
      | view f src' =>
        by_cases he : src' = src
        · subst he
          simp only [Store.raw, find_put_same] at hraw ⊢
          rw [hraw]
        · simp only [raw_put_other _ _ he]

/-- two machines whose parameter objects are settled and show the same values evaluate to the same penalty and leave
    the same contents in every container an evaluation overwrites — whatever their containers held before -/
theorem penalty_agree (ops : ParamOps P X V) (fn : String → List V → V) (spec : Spec) (hwf : Spec.WF spec)
    (m₁ m₂ : Machine P M D V) (h₁ : StoreOK m₁.store) (h₂ : StoreOK m₂.store)
    (hr₁ : ops.refresh m₁.params = .ok m₁.params) (hr₂ : ops.refresh m₂.params = .ok m₂.params)
    (hp₁ : m₁.store.get fn .params = [ops.val m₁.params]) (hp₂ : m₂.store.get fn .params = [ops.val m₂.params])
    (hv : ops.val m₁.params = ops.val m₂.params) :
    (m₁.penalty ops fn spec .none).2 = (m₂.penalty ops fn spec .none).2 ∧
    ∀ l, l ∈ defs (calculatePenalty spec) →
      (m₁.penalty ops fn spec .none).1.store.get fn l = (m₂.penalty ops fn spec .none).1.store.get fn l := by
  have hsrc : Loc.params ∈ paramSources := by simp
  have hag : Agree fn [Loc.params] m₁.store m₂.store := by
    intro l hl
    rw [List.mem_singleton.mp hl, hp₁, hp₂, hv]
  have hsw := wd_sweep spec hwf [Loc.params] (List.mem_singleton.mpr rfl)
  have key1 := exec_agree fn (sweep spec) [Loc.params] m₁.store m₂.store h₁ h₂ hag hsw
  have ok1 : StoreOK (exec fn m₁.store (sweep spec)) := exec_storeOK fn _ _ _ h₁ hsw
  have ok2 : StoreOK (exec fn m₂.store (sweep spec)) := exec_storeOK fn _ _ _ h₂ hsw
  -- the sweep does not touch the parameter object
  have hps₁ : (exec fn m₁.store (sweep spec)).get fn .params = [ops.val m₁.params] := by
    rw [exec_keeps_sources fn _ _ _ h₁ hsw _ hsrc]; exact hp₁
  have hps₂ : (exec fn m₂.store (sweep spec)).get fn .params = [ops.val m₂.params] := by
    rw [exec_keeps_sources fn _ _ _ h₂ hsw _ hsrc]; exact hp₂
  let D := Loc.params :: defs (sweep spec)
  have hco := wd_collect spec D (List.mem_cons_self ..) (fun l hl => List.mem_cons_of_mem _ hl)
  have hag2 : Agree fn D ((exec fn m₁.store (sweep spec)).set .params [ops.val m₁.params])
      ((exec fn m₂.store (sweep spec)).set .params [ops.val m₂.params]) := by
    intro l hl
    rw [set_source_noop fn ok1 hsrc hps₁, set_source_noop fn ok2 hsrc hps₂]
    cases List.mem_cons.mp hl with
    | inl e => exact key1 l (Or.inl (by rw [e]; exact List.mem_singleton.mpr rfl))
    | inr e => exact key1 l (Or.inr e)
  have key2 := exec_agree fn (collect spec) D _ _ (storeOK_set ok1 _ _) (storeOK_set ok2 _ _) hag2 hco
  simp only [Machine.penalty, stopIndex, hr₁, hr₂]
  refine ⟨?_, ?_⟩
  · rw [key2 Loc.out (Or.inr (out_mem_defs_collect spec))]
  · intro l hl
    unfold calculatePenalty at hl
    rw [defs_append] at hl
    cases List.mem_append.mp hl with
    | inl e => exact key2 l (Or.inl (List.mem_cons_of_mem _ e))
    | inr e => exact key2 l (Or.inr e)

/-! ### the caller's datasets -/

theorem addSvd_idem {D : Type} (name : String) (d : CallerData D) : addSvd name (addSvd name d) = addSvd name d := by
  unfold addSvd
  by_cases h : (name ++ "_singular_values") ∈ d.vars
  · simp [h]
  · simp only [h, if_false]
    have : (name ++ "_singular_values") ∈ d.vars ++ svdVars name := by
      apply List.mem_append_right
      simp [svdVars]
    simp [this]

theorem addSvd_keeps {D : Type} (name : String) (d : CallerData D) :
    (addSvd name d).label = d.label ∧ (addSvd name d).data = d.data ∧ ∀ v, v ∈ d.vars → v ∈ (addSvd name d).vars := by
  unfold addSvd
  by_cases h : (name ++ "_singular_values") ∈ d.vars
  · simp [h]
  · simp only [h, if_false]
    refine ⟨?_, ?_, ?_⟩
    · trivial
    · trivial
    · exact fun v hv => List.mem_append_left _ hv

theorem init_caller (ops : ParamOps P X V) (fn : String → List V → V) (spec : Spec) (copy : P → P)
    (c : Caller P M D) :
    (Machine.init (V := V) ops fn spec copy c).caller =
      { c with data := if c.addSvd && !spec.isEmpty then c.data.map (addSvd "data") else c.data } := rfl

/-- constructing an optimiser for a scheme an optimiser has already been constructed for gives the same machine -/
theorem init_idem (ops : ParamOps P X V) (fn : String → List V → V) (spec : Spec) (copy : P → P)
    (c : Caller P M D) :
    Machine.init ops fn spec copy (Machine.init (V := V) ops fn spec copy c).caller =
      Machine.init (V := V) ops fn spec copy c := by
  simp only [Machine.init]
  by_cases h : (c.addSvd && !spec.isEmpty) = true
  · simp only [h, if_true, List.map_map]
    congr 2
    apply List.map_congr_left
    intro d _
    exact addSvd_idem "data" d
  · simp [h]

theorem lsqLoop_caller (ops : ParamOps P X V) (fn : String → List V → V) (spec : Spec) (strat : Strategy X V) :
    ∀ (fuel : Nat) (m : Machine P M D V) (seen : List (X × List V)),
      (lsqLoop ops fn spec strat fuel m seen).1.caller = m.caller := by
  intro fuel
  induction fuel with
  | zero => intro m seen; rfl
  | succ n ih =>
    intro m seen
    unfold lsqLoop
    cases hs : strat.next seen with
    | none => rfl
    | some x =>
      simp only []
      have hc := eval_caller ops fn spec m x .none
      cases he : m.eval ops fn spec x .none with
      | mk m' o =>
        rw [he] at hc
        cases o with
        | value v => simp only []; rw [ih]; exact hc
        | raised => exact hc
        | setFailed => exact hc
        | refreshFailed => exact hc

theorem setResult_caller (ops : ParamOps P X V) (m : Machine P M D V) (r : Option X) :
    (m.setResult ops r).1.caller = m.caller := by
  cases r with
  | none => rfl
  | some x =>
    simp only [Machine.setResult]
    split <;> rfl

theorem optimizeRun_caller (ops : ParamOps P X V) (fn : String → List V → V) (spec : Spec) (copy : P → P)
    (strat : Strategy X V) (fuel : Nat) (c : Caller P M D) :
    (optimizeRun ops fn spec copy strat fuel c).1 = (Machine.init (V := V) ops fn spec copy c).caller := by
  have h1 := lsqLoop_caller ops fn spec strat fuel (Machine.init (V := V) ops fn spec copy c) []
  unfold optimizeRun
  simp only []
  generalize lsqLoop ops fn spec strat fuel (Machine.init (V := V) ops fn spec copy c) [] = l at h1 ⊢
  obtain ⟨m1, res⟩ := l
  have h2 := setResult_caller ops m1 res
  generalize m1.setResult ops res = sr at h2 ⊢
  obtain ⟨m2, ok⟩ := sr
  simp only [] at h1 h2 ⊢
  cases ok with
  | false => simp only [Bool.false_eq_true, if_false]; rw [h2, h1]
  | true =>
    simp only [if_true]
    have h3 := penalty_caller ops fn spec m2 .none
    generalize m2.penalty ops fn spec .none = pr at h3 ⊢
    obtain ⟨m3, pen⟩ := pr
    simp only [] at h3 ⊢
    cases pen <;> simp only [] <;> rw [h3, h2, h1]

end Glotaran.C10
