/-
C11 — the generated transcription of parameter.py / parameters.py (GlotaranModel/Generated/C11Fns.lean)
against the hand-written model: helper definitions and the loop lemmas.
-/
import GlotaranProofs.Lemmas.C11
import GlotaranModel.Generated.C11Fns
namespace Glotaran.C11

variable {α : Type}

/-- how the outcome of the model's `setFromArrays` reads as a Python exception (or none) -/
def excOfStatus : SetStatus → Option Py.Exc
  | .ok => none
  | .lengthMismatch => some ⟨"ValueError", ["<f-string>"]⟩
  | .notFound l => some ⟨"ParameterNotFoundException", [l]⟩

/-- nothing is lost in that reading -/
theorem excOfStatus_injective : ∀ a b : SetStatus, excOfStatus a = excOfStatus b → a = b := by
  intro a b h
  cases a <;> cases b <;> simp_all [excOfStatus]

/-- the four lists of an `Arrays` as the tuple a Python function returns -/
def Arrays.tuple (a : Arrays α) : List String × List (Ext α) × List (Ext α) × List (Ext α) :=
  (a.labels, a.values, a.lower, a.upper)

theorem gen_log_value_eq [Num α] (v : Ext α) : Gen.log_value v = logValue v := by
  cases v <;> rfl

theorem gen_toOpt_eq [Num α] (p : Parameter α) :
    Gen.get_value_and_bounds_for_optimization p = ((toOpt p).value, (toOpt p).lower, (toOpt p).upper) := by
  cases hn : p.nonNeg <;>
    simp [Gen.get_value_and_bounds_for_optimization, toOpt, gen_log_value_eq, hn]

theorem gen_setFromOpt_eq [Num α] (p : Parameter α) (x : Ext α) :
    Gen.set_value_from_optimization p x = p.setFromOpt x := by
  cases hn : p.nonNeg <;>
    simp [Gen.set_value_from_optimization, Parameter.setFromOpt, fromOpt, hn]

/-- one iteration of the array loop -/
theorem gen_arrays_step [Num α] (excl : Bool) (acc : Arrays α) (p : Parameter α) :
    Gen.get_label_value_and_bounds_arrays_loop1 excl acc.tuple p =
      (if !excl || p.vary then
        (⟨acc.labels ++ [p.label], acc.values ++ [(toOpt p).value], acc.lower ++ [(toOpt p).lower],
          acc.upper ++ [(toOpt p).upper]⟩ : Arrays α)
       else acc).tuple := by
  cases excl <;> cases hv : p.vary <;>
    simp [Gen.get_label_value_and_bounds_arrays_loop1, Arrays.tuple, gen_toOpt_eq, hv]

theorem gen_arrays_fold [Num α] (excl : Bool) :
    ∀ (ps : List (Parameter α)) (acc : Arrays α),
      List.foldl (Gen.get_label_value_and_bounds_arrays_loop1 excl) acc.tuple ps =
        (arraysLoop excl ps acc).tuple := by
  intro ps
  induction ps with
  | nil => intro acc; rfl
  | cons p rest ih =>
    intro acc
    simp only [List.foldl_cons, gen_arrays_step, arraysLoop]
    split
    · exact ih _
    · exact ih _

/-- one iteration of the set loop, on a state that has not raised -/
theorem gen_set_step [Num α] (ps : List (Parameter α)) (l : String) (x : Ext α) :
    Gen.set_from_label_and_value_arrays_loop1 (ps, none) (l, x) =
      if ps.any (fun q => q.label = l) then (setOne ps l x, none)
      else (ps, excOfStatus (.notFound l)) := by
  simp only [Gen.set_from_label_and_value_arrays_loop1, Py.has, Py.update, setOne, gen_setFromOpt_eq,
    excOfStatus]

/-- once an exception is raised the remaining iterations do nothing -/
theorem gen_set_fold_raised [Num α] (e : Py.Exc) :
    ∀ (pairs : List (String × Ext α)) (ps : List (Parameter α)),
      List.foldl Gen.set_from_label_and_value_arrays_loop1 (ps, some e) pairs = (ps, some e) := by
  intro pairs
  induction pairs with
  | nil => intro ps; rfl
  | cons pr rest ih =>
    intro ps
    simp only [List.foldl_cons]
    have : Gen.set_from_label_and_value_arrays_loop1 (ps, some e) pr = (ps, some e) := rfl
    rw [this]
    exact ih ps

theorem gen_set_fold [Num α] :
    ∀ (pairs : List (String × Ext α)) (ps : List (Parameter α)),
      List.foldl Gen.set_from_label_and_value_arrays_loop1 (ps, none) pairs =
        ((setLoop ps pairs).1, excOfStatus (setLoop ps pairs).2) := by
  intro pairs
  induction pairs with
  | nil => intro ps; rfl
  | cons pr rest ih =>
    intro ps
    obtain ⟨l, x⟩ := pr
    simp only [List.foldl_cons, gen_set_step, setLoop]
    split
    · exact ih _
    · simp only [excOfStatus]
      exact gen_set_fold_raised _ rest ps

end Glotaran.C11
