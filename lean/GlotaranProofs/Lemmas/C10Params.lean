/-
C10 — the parameter object of the machine instantiated with the model of C12 (`Parameters`: expressions, non-negative
transformation): `set_from_label_and_value_arrays(free labels, x)` started from any two reachable states gives the same
values — provided it succeeds in both —, and every outcome (success or exception) keeps the structure and the values
of the fixed parameters.
-/
import GlotaranProofs.Props.C12
import GlotaranProofs.Lemmas.C10Programs
namespace Glotaran.C10
open Glotaran.C12 (Param Funs Val Same IsExprLabel WF Acyclic skel sk valueOf setValue setAll passAux pass loop update
  setFromArrays labels)

/-- the `Parameters` object of C12 as the parameter object of the machine; model items see values by label -/
def c12Ops (F : Funs) (free : List String) : ParamOps (List Param) (List Val) (String → Option Val) where
  set := fun ps x =>
    match setFromArrays F ps free x with
    | .ok q => .ok q
    | .error e => .error e.2
  refresh := fun ps =>
    match update F ps with
    | .ok q => .ok q
    | .error e => .error e.2
  val := fun ps => valueOf ps

theorem same_of_skel {a b : List Param} (h : a.map skel = b.map skel) : Same a b := by
  have : ∀ ps : List Param, ps.map sk = (ps.map skel).map sk := by
    intro ps; simp [List.map_map, Function.comp_def, sk, skel]
  unfold Same
  rw [this a, this b, h]

/-! ### what is left behind by an exception -/

theorem setAll_skel (F : Funs) : ∀ (pairs : List (String × Val)) (env env' : List Param),
    setAll F env pairs = .ok env' → env'.map skel = env.map skel := by
  intro pairs
  induction pairs with
  | nil => intro env env' h; simp only [setAll, Except.ok.injEq] at h; rw [← h]
  | cons lv rest ih =>
    intro env env' h
    obtain ⟨l, v⟩ := lv
    unfold setAll at h
    split at h
    · cases h
    · split at h
      · cases h
      · exact (ih _ _ h).trans (C12.setValue_skel _ _ _)

theorem setAll_error (F : Funs) : ∀ (pairs : List (String × Val)) (env env' : List Param) (e : C12.Err),
    setAll F env pairs = .error (e, env') →
      env'.map skel = env.map skel ∧ ∀ l, l ∉ pairs.map Prod.fst → valueOf env' l = valueOf env l := by
  intro pairs
  induction pairs with
  | nil => intro env env' e h; simp [setAll] at h
  | cons lv rest ih =>
    intro env env' e h
    obtain ⟨l0, v0⟩ := lv
    unfold setAll at h
    split at h
    · simp only [Except.error.injEq, Prod.mk.injEq] at h
      rw [← h.2]; exact ⟨rfl, fun _ _ => rfl⟩
    · split at h
      · simp only [Except.error.injEq, Prod.mk.injEq] at h
        rw [← h.2]; exact ⟨rfl, fun _ _ => rfl⟩
      · obtain ⟨h1, h2⟩ := ih _ _ _ h
        refine ⟨h1.trans (C12.setValue_skel _ _ _), ?_⟩
        intro l hl
        have h0 : ¬ l = l0 := fun e => hl (by simp [e])
        have hr : l ∉ rest.map Prod.fst :=
          fun e => hl (by simp only [List.map_cons, List.mem_cons]; exact Or.inr e)
        rw [h2 l hr, C12.valueOf_setValue]; simp [h0]

theorem passAux_error (F : Funs) : ∀ (todo env : List Param) (ch : Bool) (env' : List Param) (e : C12.Err),
    passAux F todo env ch = .error (e, env') →
      env'.map skel = env.map skel ∧
      ∀ l, (∀ p ∈ todo, p.expr.isSome → p.label ≠ l) → valueOf env' l = valueOf env l := by
  intro todo
  induction todo with
  | nil => intro env ch env' e h; simp [passAux] at h
  | cons q rest ih =>
    intro env ch env' e h
    unfold passAux at h
    split at h
    · obtain ⟨h1, h2⟩ := ih _ _ _ _ h
      exact ⟨h1, fun l hl => h2 l (fun p hp => hl p (List.mem_cons_of_mem _ hp))⟩
    · rename_i ex he
      split at h
      · simp only [Except.error.injEq, Prod.mk.injEq] at h
        rw [← h.2]; exact ⟨rfl, fun _ _ => rfl⟩
      · obtain ⟨h1, h2⟩ := ih _ _ _ _ h
        refine ⟨h1.trans (C12.setValue_skel _ _ _), ?_⟩
        intro l hl
        have hq : q.label ≠ l := hl q (List.mem_cons_self) (by simp [he])
        rw [h2 l (fun p hp => hl p (List.mem_cons_of_mem _ hp)), C12.valueOf_setValue]
        have hq' : ¬ l = q.label := fun e => hq e.symm
        simp [hq']

theorem loop_error (F : Funs) : ∀ (n : Nat) (ps ps' : List Param) (e : C12.Err),
    loop F n ps = .error (e, ps') →
      ps'.map skel = ps.map skel ∧ ∀ l, ¬ IsExprLabel ps l → valueOf ps' l = valueOf ps l := by
  intro n
  induction n with
  | zero => intro ps ps' e h; simp [loop] at h
  | succ n ih =>
    intro ps ps' e h
    unfold loop at h
    split at h
    · rename_i e1 hp
      cases h
      obtain ⟨h1, h2⟩ := passAux_error F ps ps false _ _ hp
      exact ⟨h1, fun l hl => h2 l (fun p hpm he e => hl ⟨p, hpm, e, he⟩)⟩
    · rename_i env1 ch hp
      have hs := C12.passAux_same F ps ps false env1 ch hp
      split at h
      · obtain ⟨h1, h2⟩ := ih _ _ _ h
        refine ⟨h1.trans hs.2, ?_⟩
        intro l hl
        rw [h2 l (fun hx => hl (C12.same_isExprLabel hs.1 hx))]
        exact C12.pass_nonexpr F hp l hl
      · cases h

/-! ### the invariant of the optimiser's private parameters -/

/-- same structure as the initial object, and the fixed parameters (no expression, not free) hold their initial values -/
def C12Inv (p₀ : List Param) (free : List String) (p : List Param) : Prop :=
  p.map skel = p₀.map skel ∧ ∀ l, ¬ IsExprLabel p₀ l → l ∉ free → valueOf p l = valueOf p₀ l

theorem c12Inv_refl (p₀ : List Param) (free : List String) : C12Inv p₀ free p₀ := ⟨rfl, fun _ _ _ => rfl⟩

theorem keys_zip_subset (free : List String) (x : List Val) {l : String} (h : l ∉ free) :
    l ∉ (free.zip x).map Prod.fst := by
  intro hm
  obtain ⟨⟨a, b⟩, hab, rfl⟩ := List.mem_map.mp hm
  exact h (List.of_mem_zip hab).1

theorem c12_set_preserves (F : Funs) (p₀ : List Param) (free : List String) (p : List Param) (x : List Val)
    (hI : C12Inv p₀ free p) :
    (∀ q, setFromArrays F p free x = .ok q → C12Inv p₀ free q) ∧
    (∀ e q, setFromArrays F p free x = .error (e, q) → C12Inv p₀ free q) := by
  have hsame : Same p p₀ := same_of_skel hI.1
  have hexpr : ∀ {a : List Param}, a.map skel = p.map skel → ∀ l, ¬ IsExprLabel p₀ l → ¬ IsExprLabel a l := by
    intro a ha l hl hx
    exact hl (C12.same_isExprLabel hsame (C12.same_isExprLabel (same_of_skel ha) hx))
  constructor
  · intro q h
    unfold setFromArrays at h
    split at h
    · cases h
    · split at h
      · cases h
      · rename_i p1 hset
        have hs1 := setAll_skel F _ _ _ hset
        have hl := C12.loop_same F _ p1 q h
        refine ⟨hl.2.trans (hs1.trans hI.1), ?_⟩
        intro l hle hlf
        rw [C12.loop_nonexpr F _ p1 q h l (hexpr hs1 l hle),
            C12.setAll_untouched F _ _ _ hset l (keys_zip_subset free x hlf)]
        exact hI.2 l hle hlf
  · intro e q h
    unfold setFromArrays at h
    split at h
    · simp only [Except.error.injEq, Prod.mk.injEq] at h
      rw [← h.2]; exact hI
    · split at h
      · rename_i e1 hset
        cases h
        obtain ⟨h1, h2⟩ := setAll_error F _ _ _ _ hset
        exact ⟨h1.trans hI.1, fun l hle hlf => by rw [h2 l (keys_zip_subset free x hlf)]; exact hI.2 l hle hlf⟩
      · rename_i p1 hset
        have hs1 := setAll_skel F _ _ _ hset
        obtain ⟨h1, h2⟩ := loop_error F _ p1 q e h
        refine ⟨h1.trans (hs1.trans hI.1), ?_⟩
        intro l hle hlf
        rw [h2 l (hexpr hs1 l hle), C12.setAll_untouched F _ _ _ hset l (keys_zip_subset free x hlf)]
        exact hI.2 l hle hlf

theorem c12_refresh_preserves (F : Funs) (p₀ : List Param) (free : List String) (p : List Param)
    (hI : C12Inv p₀ free p) :
    (∀ q, update F p = .ok q → C12Inv p₀ free q) ∧ (∀ e q, update F p = .error (e, q) → C12Inv p₀ free q) := by
  have hsame : Same p p₀ := same_of_skel hI.1
  have hexpr : ∀ l, ¬ IsExprLabel p₀ l → ¬ IsExprLabel p l := fun l hl hx => hl (C12.same_isExprLabel hsame hx)
  constructor
  · intro q h
    have hl := C12.loop_same F _ p q h
    exact ⟨hl.2.trans hI.1, fun l hle hlf => by rw [C12.loop_nonexpr F _ p q h l (hexpr l hle)]; exact hI.2 l hle hlf⟩
  · intro e q h
    obtain ⟨h1, h2⟩ := loop_error F _ p q e h
    exact ⟨h1.trans hI.1, fun l hle hlf => by rw [h2 l (hexpr l hle)]; exact hI.2 l hle hlf⟩

/-- after a successful `set_from_label_and_value_arrays` the object is consistent: a refresh changes nothing -/
theorem c12_settled (F : Funs) (p₀ : List Param) (free : List String) (hwf : WF p₀) (hac : Acyclic p₀)
    (p : List Param) (x : List Val) (q : List Param) (hI : C12Inv p₀ free p)
    (h : setFromArrays F p free x = .ok q) : update F q = .ok q := by
  have hsp : Same p p₀ := same_of_skel hI.1
  have hwp : WF p := C12.same_wf hsp hwf
  obtain ⟨order, ht⟩ := hac
  have hacp : Acyclic p := ⟨order, C12.same_topo hsp ht⟩
  have hc := C12.consistent_after_setFromArrays F p q free x hwp hacp h
  have hIq := (c12_set_preserves F p₀ free p x hI).1 q h
  have hwq : WF q := C12.same_wf (same_of_skel hIq.1) hwf
  exact C12.update_of_consistent F q hwq hc

/-- values of the free labels after `setAll`: determined by the skeleton and the new values -/
theorem setAll_free_value (F : Funs) (free : List String) (x : List Val) (a b a1 b1 : List Param)
    (hwa : WF a) (hab : b.map skel = a.map skel) (hnd : free.Nodup) (hlen : free.length = x.length)
    (ha : setAll F a (free.zip x) = .ok a1) (hb : setAll F b (free.zip x) = .ok b1) :
    ∀ l, l ∈ free → valueOf a1 l = valueOf b1 l := by
  intro l hl
  have hwb : WF b := C12.same_wf (same_of_skel hab) hwa
  have hkeys : ((free.zip x).map Prod.fst).Nodup := by rw [List.map_fst_zip (by omega)]; exact hnd
  obtain ⟨i, hi, rfl⟩ := List.getElem_of_mem hl
  have hix : i < x.length := by omega
  have hmem : (free[i], x[i]) ∈ free.zip x := by
    rw [List.mem_iff_getElem]
    exact ⟨i, by simp [List.length_zip]; omega, by simp⟩
  obtain ⟨pa, hpa, hla, va, hva, hvala⟩ := C12.setAll_value F _ _ _ ha hwa hkeys _ _ hmem
  obtain ⟨pb, hpb, hlb, vb, hvb, hvalb⟩ := C12.setAll_value F _ _ _ hb hwb hkeys _ _ hmem
  obtain ⟨q, hq, hs⟩ := C12.mem_of_skel hab hpb
  have hql : q.label = pb.label := by have := congrArg Param.label hs; simpa [skel] using this
  have hqn : q.nonNeg = pb.nonNeg := by have := congrArg Param.nonNeg hs; simpa [skel] using this
  have hqa : q = pa := C12.eq_of_label_eq hwa hq hpa (by rw [hql, hlb, hla])
  have : C12.fromOptimization F pa x[i] = C12.fromOptimization F pb x[i] := by
    simp [C12.fromOptimization, ← hqa, hqn]
  rw [hvala, hvalb, ← Option.some.injEq, ← hva, ← hvb, this]

/-- **Independence of the starting state**: two reachable states of the private parameters, the same vector `x`,
    both calls succeed ⇒ every parameter (free, fixed, expression) ends up with the same value. -/
theorem c12_set_independent (F : Funs) (p₀ : List Param) (free : List String) (hwf : WF p₀) (hac : Acyclic p₀)
    (hnd : free.Nodup) (a b : List Param) (x : List Val) (a' b' : List Param)
    (hIa : C12Inv p₀ free a) (hIb : C12Inv p₀ free b)
    (ha : setFromArrays F a free x = .ok a') (hb : setFromArrays F b free x = .ok b') :
    ∀ l, valueOf a' l = valueOf b' l := by
  have hsa : Same a p₀ := same_of_skel hIa.1
  have hwa : WF a := C12.same_wf hsa hwf
  have hab : b.map skel = a.map skel := hIb.1.trans hIa.1.symm
  unfold setFromArrays at ha hb
  split at ha
  · cases ha
  · rename_i hlen
    split at ha
    · cases ha
    · rename_i a1 hseta
      split at hb
      · cases hb
      · split at hb
        · cases hb
        · rename_i b1 hsetb
          have hlen' : free.length = x.length := by
            by_cases h : free.length = x.length
            · exact h
            · exact absurd h (by simpa using hlen)
          have hsa1 := setAll_skel F _ _ _ hseta
          have hsb1 := setAll_skel F _ _ _ hsetb
          have hs1 : Same a1 a := same_of_skel hsa1
          have hwa1 : WF a1 := C12.same_wf hs1 hwa
          obtain ⟨order, ht⟩ := hac
          have hac1 : Acyclic a1 := ⟨order, C12.same_topo (C12.same_trans hs1 hsa) ht⟩
          have hsb1a1 : Same b1 a1 := same_of_skel (hsb1.trans (hab.trans hsa1.symm))
          apply C12.update_ignores_stale_expression_values F a1 b1 a' b' hwa1 hac1 hsb1a1 _ ha hb
          intro l hl
          have hl0 : ¬ IsExprLabel p₀ l := fun hx =>
            hl (C12.same_isExprLabel (C12.same_symm (C12.same_trans hs1 hsa)) hx)
          by_cases hfree : l ∈ free
          · exact setAll_free_value F free x a b a1 b1 hwa hab hnd hlen' hseta hsetb l hfree
          · rw [C12.setAll_untouched F _ _ _ hseta l (keys_zip_subset free x hfree),
                C12.setAll_untouched F _ _ _ hsetb l (keys_zip_subset free x hfree),
                hIa.2 l hl0 hfree, hIb.2 l hl0 hfree]

end Glotaran.C10
