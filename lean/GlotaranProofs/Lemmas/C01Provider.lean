/-
C01 — the `EstimationProvider` glue around the two kernels (`GlotaranModel/C01Provider.lean`):
column reduction by the clp constraints, weights, `retrieve_clps`, and the estimate at one global index.
Helper lemmas and the provider-level statements; the kernel-level optimality is a hypothesis here
(`hkernel`), discharged in `Props/C01.lean` by `dispatched_kernel_optimal`.
Everything lives in `Glotaran.C01.Provider`; the public wrappers in `Props/C01.lean` carry the same names
one level up.
-/
import GlotaranModel.C01Provider
import GlotaranProofs.Lemmas.C01
namespace Glotaran.C01
open Glotaran.LinAlg
namespace Provider

/-! ### the fold of `retrieve_clps` -/

theorem foldl_set_length (f : String → Nat) (ps : List (String × Rat)) (acc : Vec) :
    (ps.foldl (fun c p => c.set (f p.1) p.2) acc).length = acc.length := by
  induction ps generalizing acc with
  | nil => rfl
  | cons p ps ih => simp [List.foldl_cons, ih]

/-- no write to index `j` ⇒ entry `j` is the initial one -/
theorem foldl_set_miss (f : String → Nat) (ps : List (String × Rat)) (acc : Vec) (j : Nat)
    (h : ∀ p ∈ ps, f p.1 ≠ j) :
    (ps.foldl (fun c p => c.set (f p.1) p.2) acc).getD j 0 = acc.getD j 0 := by
  induction ps generalizing acc with
  | nil => rfl
  | cons p ps ih =>
    rw [List.foldl_cons, ih _ (fun q hq => h q (by simp [hq]))]
    have hp : f p.1 ≠ j := h p (by simp)
    simp [List.getD_eq_getElem?_getD, List.getElem?_set_ne hp]

/-- the last write to an index wins -/
theorem foldl_set_hit (f : String → Nat) (ps : List (String × Rat)) (acc : Vec) (i : Nat)
    (p : String × Rat) (hp : ps[i]? = some p)
    (hlater : ∀ j q, i < j → ps[j]? = some q → f q.1 ≠ f p.1) (hlt : f p.1 < acc.length) :
    (ps.foldl (fun c p => c.set (f p.1) p.2) acc).getD (f p.1) 0 = p.2 := by
  induction ps generalizing acc i with
  | nil => simp at hp
  | cons q ps ih =>
    cases i with
    | zero =>
      simp only [List.getElem?_cons_zero, Option.some.injEq] at hp
      subst hp
      rw [List.foldl_cons, foldl_set_miss]
      · simp [List.getD_eq_getElem?_getD, hlt]
      · intro r hr
        obtain ⟨j, hj, hjr⟩ := List.getElem_of_mem hr
        apply hlater (j + 1) r (by omega)
        rw [List.getElem?_cons_succ, ← hjr]
        exact List.getElem?_eq_getElem hj
    | succ i =>
      rw [List.foldl_cons]
      apply ih
      · simpa using hp
      · intro j r hij hr
        exact hlater (j + 1) r (by omega) (by simpa using hr)
      · simpa using hlt

/-! ### `retrieve_clps` -/

theorem retrieve_length (labels reduced : List String) (c : Vec) :
    (retrieveClps true labels reduced c).length = labels.length := by
  simp only [retrieveClps, if_true]
  rw [foldl_set_length (fun s => labels.idxOf s)]
  simp [zeros]

example : (retrieveClps true ["a", "b", "c"] ["c", "a"] [5, 7]).length = 3 := by decide +kernel

/-- the early exit -/
theorem retrieve_unconstrained (labels reduced : List String) (c : Vec) :
    retrieveClps false labels reduced c = c := by
  simp [retrieveClps]

example : retrieveClps false ["a", "b", "c"] ["c", "a"] [5, 7] = [5, 7] := by decide +kernel

theorem eq_of_idxOf_eq {x y : String} {l : List String} (hx : x ∈ l)
    (h : l.idxOf x = l.idxOf y) : x = y := by
  have hlt : l.idxOf x < l.length := List.idxOf_lt_length_of_mem hx
  have hy : y ∈ l := by
    rw [← List.idxOf_lt_length_iff, ← h]; exact hlt
  have h1 : l[l.idxOf x]'hlt = x := List.getElem_idxOf hlt
  have h2 : l[l.idxOf y]'(List.idxOf_lt_length_of_mem hy) = y := List.getElem_idxOf _
  rw [← h1, ← h2]
  congr 1

/-- a label that was removed reports 0 -/
theorem retrieve_removed (labels reduced : List String) (c : Vec) (l : String)
    (hl : l ∈ labels) (hr : l ∉ reduced) :
    clpOf labels (retrieveClps true labels reduced c) l = 0 := by
  simp only [clpOf, retrieveClps, if_true]
  rw [foldl_set_miss (fun s => labels.idxOf s)]
  · simp [zeros, List.getD_eq_getElem?_getD, List.idxOf_lt_length_of_mem hl]
  · intro p hp he
    have hmem : p.1 ∈ reduced := (List.of_mem_zip hp).1
    have : l = p.1 := eq_of_idxOf_eq hl he.symm
    exact hr (this ▸ hmem)

example : clpOf ["a", "b", "c"] (retrieveClps true ["a", "b", "c"] ["c", "a"] [5, 7]) "b" = 0 := by
  decide +kernel

/-- the i-th reduced clp is reported under the i-th reduced label -/
theorem retrieve_kept (labels reduced : List String) (c : Vec)
    (hnd : reduced.Nodup) (hsub : ∀ l ∈ reduced, l ∈ labels) (hlen : c.length = reduced.length)
    (i : Nat) (hi : i < reduced.length) :
    clpOf labels (retrieveClps true labels reduced c) (reduced.getD i "") = c.getD i 0 := by
  simp only [clpOf, retrieveClps, if_true]
  have hic : i < c.length := by omega
  have hp : (List.zip reduced c)[i]? = some (reduced[i], c[i]) := by
    simp [hi, hic]
  have hg : reduced.getD i "" = reduced[i] := by simp [List.getD_eq_getElem?_getD, hi]
  have hg2 : c.getD i 0 = c[i] := by simp [List.getD_eq_getElem?_getD, hic]
  rw [hg, hg2]
  refine foldl_set_hit (fun s => labels.idxOf s) (List.zip reduced c) _ i (reduced[i], c[i]) hp ?_ ?_
  · intro j q hij hq he
    rw [List.getElem?_zip_eq_some] at hq
    obtain ⟨hq1, _⟩ := hq
    obtain ⟨hj, hje⟩ := List.getElem?_eq_some_iff.mp hq1
    have hmem : q.1 ∈ labels := hsub _ (hje ▸ List.getElem_mem hj)
    have heq : q.1 = reduced[i] := eq_of_idxOf_eq hmem he
    rw [← hje] at heq
    have := (List.Nodup.getElem_inj_iff hnd).mp heq
    omega
  · simp only [zeros, List.length_replicate]
    exact List.idxOf_lt_length_of_mem (hsub _ (List.getElem_mem hi))

example : clpOf ["a", "b", "c"] (retrieveClps true ["a", "b", "c"] ["c", "a"] [5, 7]) "c" = 5 ∧
    clpOf ["a", "b", "c"] (retrieveClps true ["a", "b", "c"] ["c", "a"] [5, 7]) "a" = 7 := by
  decide +kernel

/-! ### the default key -/

/-- a group that does not set `residual_function` gets variable projection: the default key is the
    regenerated default, it dispatches to the VP kernel, and the estimate is the one of the explicit key,
    namely the VP output on the prepared problem with the clp put back under the full labels -/
theorem default_key_dispatch (hasItems : Bool) (labels removed : List String) (w : Option Vec)
    (dgeqrf : Mat → Mat × Vec) (nnls : Mat → Vec → Option Vec) (matrix : Mat) (data : Vec) :
    groupKey none = Generated.defaultResidualFunction ∧
    dispatch Generated.residualFunctions (groupKey none) = .ok .vp ∧
    estimateAt none hasItems labels removed w dgeqrf nnls matrix data =
      estimateAt (some "variable_projection") hasItems labels removed w dgeqrf nnls matrix data ∧
    estimateAt none hasItems labels removed w dgeqrf nnls matrix data =
      .ok (retrieveClps hasItems labels (preparedMatrix labels removed w matrix).1
             (residualVP dgeqrf (preparedMatrix labels removed w matrix).2 (weightData w data)).1)
          (residualVP dgeqrf (preparedMatrix labels removed w matrix).2 (weightData w data)).2 := by
  have hd : dispatch Generated.residualFunctions (groupKey none) = .ok .vp := by decide
  refine ⟨rfl, hd, rfl, ?_⟩
  simp only [estimateAt, hd, calculateResidual]

example : estimateAt none true ["a", "b"] ["b"] (some [2, 1, 1])
      (fun _ => ([[2], [1], [1]], [1])) (fun _ _ => none) [[1, 5], [1, 6], [1, 7]] [1, 2, 3] =
    estimateAt (some "variable_projection") true ["a", "b"] ["b"] (some [2, 1, 1])
      (fun _ => ([[2], [1], [1]], [1])) (fun _ _ => none) [[1, 5], [1, 6], [1, 7]] [1, 2, 3] ∧
    (preparedMatrix ["a", "b"] ["b"] (some [2, 1, 1]) [[1, 5], [1, 6], [1, 7]]).2 = [[2], [1], [1]] := by
  decide +kernel

/-! ### column reduction (`apply_constraints`) -/

theorem reducedLabels_contains (labels removed : List String) (l : String) (hl : l ∈ labels) :
    (reducedLabels labels removed).contains l = !removed.contains l := by
  by_cases h : l ∈ removed
  · simp [reducedLabels, h]
  · simp [reducedLabels, h, hl]

/-- the mask in terms of the removed labels -/
theorem labelMask_reduced (labels removed : List String) :
    labelMask labels (reducedLabels labels removed) = labels.map (fun l => !removed.contains l) := by
  unfold labelMask
  apply List.map_congr_left
  intro l hl
  exact reducedLabels_contains labels removed l hl

theorem reducedLabels_nil (labels : List String) : reducedLabels labels [] = labels := by
  simp [reducedLabels]

theorem reduceColumns_nil (labels : List String) (matrix : Mat) :
    reduceColumns labels [] matrix = (labels, matrix) := by
  simp [reduceColumns]

theorem reduceColumns_ne (labels removed : List String) (matrix : Mat) (h : removed ≠ []) :
    reduceColumns labels removed matrix =
      (reducedLabels labels removed,
        matrix.map (maskRow (labels.map (fun l => !removed.contains l)))) := by
  have : removed.isEmpty = false := by simpa using h
  simp [reduceColumns, this, labelMask_reduced]

/-- the reduced labels are the labels not listed -/
theorem reduce_labels (labels removed : List String) (matrix : Mat) (l : String) :
    l ∈ (reduceColumns labels removed matrix).1 ↔ l ∈ labels ∧ l ∉ removed := by
  unfold reduceColumns
  by_cases h : removed.isEmpty
  · have : removed = [] := by simpa using h
    simp [this]
  · simp [h, reducedLabels]

/-- … in their order -/
theorem reduce_labels_sublist (labels removed : List String) (matrix : Mat) :
    (reduceColumns labels removed matrix).1.Sublist labels := by
  unfold reduceColumns
  by_cases h : removed.isEmpty
  · simp [h]
  · simp only [h, reducedLabels]
    exact List.filter_sublist

theorem reduce_labels_nodup (labels removed : List String) (matrix : Mat) (hnd : labels.Nodup) :
    (reduceColumns labels removed matrix).1.Nodup :=
  (reduce_labels_sublist labels removed matrix).nodup hnd

example : (reduceColumns ["a", "b", "c"] ["b"] [[1, 2, 3], [4, 5, 6]]) = (["a", "c"], [[1, 3], [4, 6]]) := by
  decide +kernel

/-- picking by a mask keeps entries and kept labels paired -/
theorem maskRow_getD (p : String → Bool) (ls : List String) (r : Vec) (l : String)
    (hl : l ∈ ls) (hp : p l = true) (hr : r.length = ls.length) :
    (maskRow (ls.map p) r).getD ((ls.filter p).idxOf l) 0 = r.getD (ls.idxOf l) 0 := by
  induction ls generalizing r with
  | nil => simp at hl
  | cons a ls ih =>
    cases r with
    | nil => simp at hr
    | cons x xs =>
      have hxs : xs.length = ls.length := by simpa using hr
      by_cases ha : a = l
      · subst ha
        simp [hp, maskRow]
      · have hl' : l ∈ ls := by
          rcases List.mem_cons.mp hl with h | h
          · exact absurd h.symm ha
          · exact h
        cases hpa : p a
        · simp only [List.map_cons, hpa, maskRow, List.filter_cons]
          rw [List.idxOf_cons_ne _ ha]
          simpa using ih xs hl' hxs
        · simp only [List.map_cons, hpa, maskRow, List.filter_cons, if_true]
          rw [List.idxOf_cons_ne _ ha, List.idxOf_cons_ne _ ha]
          simpa using ih xs hl' hxs

/-- labels and columns stay paired: the column under a kept label in the reduced matrix is the column under
    the same label in the full matrix -/
theorem reduce_labels_columns (labels removed : List String) (matrix : Mat)
    (hrows : ∀ r ∈ matrix, r.length = labels.length) (l : String) (hl : l ∈ labels) (hk : l ∉ removed) :
    col (reduceColumns labels removed matrix).2 ((reduceColumns labels removed matrix).1.idxOf l) =
      col matrix (labels.idxOf l) := by
  by_cases h : removed = []
  · simp [h, reduceColumns_nil]
  · simp only [reduceColumns_ne _ _ _ h, col, List.map_map]
    apply List.map_congr_left
    intro r hr
    simp only [Function.comp, reducedLabels]
    exact maskRow_getD (fun c => !removed.contains c) labels r l hl (by simpa using hk) (hrows r hr)

example : col (reduceColumns ["a", "b", "c"] ["b"] [[1, 2, 3], [4, 5, 6]]).2
      ((reduceColumns ["a", "b", "c"] ["b"] [[1, 2, 3], [4, 5, 6]]).1.idxOf "c") = [3, 6] ∧
    col [[1, 2, 3], [4, 5, 6]] (["a", "b", "c"].idxOf "c") = [3, 6] := by
  decide +kernel

/-! ### retrieve after reduce = expand by the mask -/

/-- a row against an expanded vector = the picked row against the vector (no shape conditions: both sides
    truncate / pad in the same way) -/
theorem dot_expandMask (bs : List Bool) (r c : Vec) :
    dot r (expandMask bs c) = dot (maskRow bs r) c := by
  induction bs generalizing r c with
  | nil => cases r <;> simp [expandMask, maskRow]
  | cons b bs ih =>
    cases r with
    | nil => cases b <;> simp [maskRow]
    | cons x xs =>
      cases b with
      | false =>
        simp only [expandMask, maskRow, dot_cons, ih]
        ring
      | true =>
        cases c with
        | nil =>
          simp only [expandMask, maskRow, dot_cons, ih, List.headD_nil, List.tail_nil, dot_nil_right]
          ring
        | cons y ys =>
          simp only [expandMask, maskRow, dot_cons, ih, List.headD_cons, List.tail_cons]

example : dot [1, 2, 3] (expandMask [true, false, true] [5, 7]) = dot (maskRow [true, false, true] [1, 2, 3]) [5, 7] ∧
    dot [1, 2, 3] (expandMask [true, false, true] [5, 7]) = 26 := by
  decide +kernel

theorem mulVec_maskRow (bs : List Bool) (m : Mat) (c : Vec) :
    mulVec (m.map (maskRow bs)) c = mulVec m (expandMask bs c) := by
  simp only [mulVec, List.map_map]
  apply List.map_congr_left
  intro r _
  exact (dot_expandMask bs r c).symm

theorem idxOf_append_self (pre ls : List String) (l : String) (h : l ∉ pre) :
    (pre ++ l :: ls).idxOf l = pre.length := by
  rw [List.idxOf_append_of_notMem h]
  simp

theorem retrieve_fold_prefix (p : String → Bool) (ls pre : List String) (A c : Vec)
    (hnd : (pre ++ ls).Nodup) (hA : A.length = pre.length) (hlen : c.length = (ls.filter p).length) :
    (List.zip (ls.filter p) c).foldl (fun clps q => clps.set ((pre ++ ls).idxOf q.1) q.2)
        (A ++ zeros ls.length) = A ++ expandMask (ls.map p) c := by
  induction ls generalizing pre A c with
  | nil => simp [zeros, expandMask]
  | cons l ls ih =>
    have hnd' : ((pre ++ [l]) ++ ls).Nodup := by simpa using hnd
    have hl : l ∉ pre := by
      intro hm
      have := List.nodup_append.mp hnd
      exact this.2.2 l hm l (by simp) rfl
    have hz : zeros (l :: ls).length = 0 :: zeros ls.length := by simp [zeros, List.replicate_succ]
    have happ : pre ++ l :: ls = (pre ++ [l]) ++ ls := by simp
    cases hp : p l with
    | false =>
      have := ih (pre ++ [l]) (A ++ [0]) c hnd' (by simp [hA]) (by simpa [hp] using hlen)
      simp only [List.filter_cons, hp, List.map_cons, expandMask, hz]
      rw [happ]
      simpa using this
    | true =>
      cases c with
      | nil => simp [hp] at hlen
      | cons y ys =>
        have := ih (pre ++ [l]) (A ++ [y]) ys hnd' (by simp [hA]) (by simpa [hp] using hlen)
        simp only [List.filter_cons, hp, if_true, List.map_cons, expandMask, hz, List.zip_cons_cons,
          List.foldl_cons, List.headD_cons, List.tail_cons]
        rw [idxOf_append_self pre ls l hl, ← hA]
        rw [happ]
        simpa using this

/-- for distinct labels, retrieve after reduce = "expand by the mask" -/
theorem retrieve_eq_expandMask (labels removed : List String) (c : Vec) (hnd : labels.Nodup)
    (hlen : c.length = (reducedLabels labels removed).length) :
    retrieveClps true labels (reducedLabels labels removed) c =
      expandMask (labelMask labels (reducedLabels labels removed)) c := by
  rw [labelMask_reduced]
  have := retrieve_fold_prefix (fun l => !removed.contains l) labels [] [] c (by simpa using hnd) rfl hlen
  simpa [retrieveClps, reducedLabels] using this

example : retrieveClps true ["a", "b", "c"] (reducedLabels ["a", "b", "c"] ["b"]) [5, 7] = [5, 0, 7] ∧
    expandMask (labelMask ["a", "b", "c"] (reducedLabels ["a", "b", "c"] ["b"])) [5, 7] = [5, 0, 7] := by
  decide +kernel

/-! ### weights commute with the column reduction -/

theorem maskRow_vscale (bs : List Bool) (k : Rat) (r : Vec) :
    maskRow bs (vscale k r) = vscale k (maskRow bs r) := by
  induction bs generalizing r with
  | nil => cases r <;> simp [maskRow, vscale]
  | cons b bs ih =>
    cases r with
    | nil => cases b <;> simp [maskRow, vscale]
    | cons x xs =>
      have hv : vscale k (x :: xs) = (k * x) :: vscale k xs := by simp [vscale]
      cases b with
      | false => simp only [hv, maskRow, ih]
      | true =>
        simp only [hv, maskRow, ih]
        simp [vscale]

theorem weightRows_map_maskRow (bs : List Bool) (m : Mat) (w : Vec) :
    weightRows (m.map (maskRow bs)) w = (weightRows m w).map (maskRow bs) := by
  induction m generalizing w with
  | nil => simp [weightRows]
  | cons r m ih =>
    cases w with
    | nil => simp [weightRows]
    | cons x w =>
      have := ih w
      simp only [weightRows] at this
      simp [weightRows, maskRow_vscale, this]

/-- reduce-then-weight (the order of the code) = weight-then-reduce -/
theorem weightMatrix_map_maskRow (bs : List Bool) (w : Option Vec) (m : Mat) :
    weightMatrix w (m.map (maskRow bs)) = (weightMatrix w m).map (maskRow bs) := by
  cases w with
  | none => rfl
  | some w => exact weightRows_map_maskRow bs m w

theorem mem_maskRow (bs : List Bool) (r : Vec) (z : Rat) (h : z ∈ maskRow bs r) : z ∈ r := by
  induction bs generalizing r with
  | nil => cases r <;> simp [maskRow] at h
  | cons b bs ih =>
    cases r with
    | nil => cases b <;> simp [maskRow] at h
    | cons x xs =>
      cases b with
      | false =>
        simp only [maskRow] at h
        exact List.mem_cons_of_mem _ (ih xs h)
      | true =>
        simp only [maskRow, List.mem_cons] at h
        rcases h with h | h
        · simp [h]
        · exact List.mem_cons_of_mem _ (ih xs h)

/-- a full vector that vanishes at the dropped positions is recovered from its picked entries -/
theorem expandMask_maskRow (bs : List Bool) (c : Vec) (hlen : c.length = bs.length)
    (hz : ∀ i, bs[i]? = some false → c.getD i 0 = 0) : expandMask bs (maskRow bs c) = c := by
  induction bs generalizing c with
  | nil =>
    cases c with
    | nil => simp [expandMask]
    | cons _ _ => simp at hlen
  | cons b bs ih =>
    cases c with
    | nil => simp at hlen
    | cons x xs =>
      have hl : xs.length = bs.length := by simpa using hlen
      have hz' : ∀ i, bs[i]? = some false → xs.getD i 0 = 0 := by
        intro i hi
        simpa using hz (i + 1) (by simpa using hi)
      cases b with
      | false =>
        have hx : x = 0 := by simpa using hz 0 (by simp)
        simp only [maskRow, expandMask, ih xs hl hz', hx]
      | true =>
        simp only [maskRow, expandMask, List.headD_cons, List.tail_cons, ih xs hl hz']

theorem expandMask_all_true (ls : List String) (c : Vec) (hlen : c.length = ls.length) :
    expandMask (ls.map (fun _ => true)) c = c := by
  induction ls generalizing c with
  | nil =>
    cases c with
    | nil => simp [expandMask]
    | cons _ _ => simp at hlen
  | cons l ls ih =>
    cases c with
    | nil => simp at hlen
    | cons x xs =>
      simp only [List.map_cons, expandMask, List.headD_cons, List.tail_cons, ih xs (by simpa using hlen)]

/-- nothing removed: the clp come back as they are -/
theorem retrieve_self (hasItems : Bool) (labels : List String) (c : Vec) (hnd : labels.Nodup)
    (hlen : c.length = labels.length) : retrieveClps hasItems labels labels c = c := by
  cases hasItems with
  | false => exact retrieve_unconstrained labels labels c
  | true =>
    have h := retrieve_eq_expandMask labels [] c hnd (by rw [reducedLabels_nil]; exact hlen)
    rw [labelMask_reduced, reducedLabels_nil] at h
    rw [h]
    simpa using expandMask_all_true labels c hlen

/-- the prepared matrix when something is removed: the weighted full matrix with the columns picked -/
theorem preparedMatrix_ne (labels removed : List String) (w : Option Vec) (matrix : Mat) (h : removed ≠ []) :
    preparedMatrix labels removed w matrix =
      (reducedLabels labels removed,
        (weightMatrix w matrix).map (maskRow (labels.map (fun l => !removed.contains l)))) := by
  simp only [preparedMatrix, reduceColumns_ne _ _ _ h, weightMatrix_map_maskRow]

theorem preparedMatrix_nil (labels : List String) (w : Option Vec) (matrix : Mat) :
    preparedMatrix labels [] w matrix = (labels, weightMatrix w matrix) := by
  simp only [preparedMatrix, reduceColumns_nil]

/-- the residual of the reduced problem is the residual of the full problem at the expanded clp -/
theorem residual_maskRow (bs : List Bool) (m : Mat) (y c : Vec) :
    residual (m.map (maskRow bs)) y c = residual m y (expandMask bs c) := by
  simp only [residual, mulVec_maskRow]

/-! ### shapes of the prepared problem -/

theorem maskRow_length (p : String → Bool) (ls : List String) (r : Vec) (hr : r.length = ls.length) :
    (maskRow (ls.map p) r).length = (ls.filter p).length := by
  induction ls generalizing r with
  | nil => cases r <;> simp [maskRow]
  | cons l ls ih =>
    cases r with
    | nil => simp at hr
    | cons x xs =>
      have := ih xs (by simpa using hr)
      cases hp : p l <;> simp [maskRow, hp, this]

theorem weightMatrix_row_length (w : Option Vec) (m : Mat) (n : Nat) (h : ∀ r ∈ m, r.length = n) :
    ∀ r ∈ weightMatrix w m, r.length = n := by
  cases w with
  | none => exact h
  | some v =>
    intro r hr
    simp only [weightMatrix, weightRows] at hr
    obtain ⟨i, hi, rfl⟩ := List.getElem_of_mem hr
    simp only [List.getElem_zipWith, vscale, List.length_map]
    exact h _ (List.getElem_mem _)

/-- every row of the matrix handed to the kernel has one entry per reduced label -/
theorem prepared_rows (labels removed : List String) (w : Option Vec) (matrix : Mat)
    (hrows : ∀ r ∈ matrix, r.length = labels.length) :
    ∀ r ∈ (preparedMatrix labels removed w matrix).2,
      r.length = (preparedMatrix labels removed w matrix).1.length := by
  by_cases h : removed = []
  · subst h
    simp only [preparedMatrix_nil]
    exact weightMatrix_row_length w matrix _ hrows
  · simp only [preparedMatrix_ne _ _ _ _ h, List.mem_map]
    rintro r ⟨r0, hr0, rfl⟩
    exact maskRow_length _ labels r0 (weightMatrix_row_length w matrix _ hrows r0 hr0)

theorem prepared_ncols (labels removed : List String) (w : Option Vec) (matrix : Mat)
    (hrows : ∀ r ∈ matrix, r.length = labels.length)
    (hne : (preparedMatrix labels removed w matrix).2 ≠ []) :
    ncols (preparedMatrix labels removed w matrix).2 = (preparedMatrix labels removed w matrix).1.length := by
  have h := prepared_rows labels removed w matrix hrows
  cases hm : (preparedMatrix labels removed w matrix).2 with
  | nil => exact absurd hm hne
  | cons r rs =>
    rw [hm] at h
    simpa [ncols] using h r (by simp)

/-! ### the estimate at one global index -/

theorem mem_expandMask (bs : List Bool) (c : Vec) (z : Rat) (h : z ∈ expandMask bs c) : z = 0 ∨ z ∈ c := by
  induction bs generalizing c with
  | nil => simp [expandMask] at h
  | cons b bs ih =>
    cases b with
    | false =>
      simp only [expandMask, List.mem_cons] at h
      rcases h with h | h
      · exact Or.inl h
      · exact ih c h
    | true =>
      cases c with
      | nil =>
        simp only [expandMask, List.headD_nil, List.tail_nil, List.mem_cons] at h
        rcases h with h | h
        · exact Or.inl h
        · exact ih [] h
      | cons y ys =>
        simp only [expandMask, List.headD_cons, List.tail_cons, List.mem_cons] at h
        rcases h with h | h
        · exact Or.inr (by simp [h])
        · rcases ih ys h with h' | h'
          · exact Or.inl h'
          · exact Or.inr (List.mem_cons_of_mem _ h')

/-- a full clp vector that is 0 under the removed labels is the expansion of its kept entries -/
theorem expand_pick_full (labels removed : List String) (c' : Vec) (hnd : labels.Nodup)
    (hlen : c'.length = labels.length) (hz : ∀ l ∈ labels, l ∈ removed → clpOf labels c' l = 0) :
    expandMask (labels.map (fun l => !removed.contains l))
      (maskRow (labels.map (fun l => !removed.contains l)) c') = c' := by
  apply expandMask_maskRow _ _ (by simpa using hlen)
  intro i hi
  rw [List.getElem?_map] at hi
  obtain ⟨l, hl, hq⟩ := Option.map_eq_some_iff.mp hi
  obtain ⟨hlt, hle⟩ := List.getElem?_eq_some_iff.mp hl
  have hmem : l ∈ labels := hle ▸ List.getElem_mem hlt
  have hrem : l ∈ removed := by simpa using hq
  have := hz l hmem hrem
  rw [clpOf, ← hle, hnd.idxOf_getElem i hlt] at this
  exact this

theorem estimate_optimal (option : Option String) (k : Kernel)
    (hk : dispatch Generated.residualFunctions (groupKey option) = .ok k)
    (hasItems : Bool) (labels removed : List String) (w : Option Vec)
    (dgeqrf : Mat → Mat × Vec) (nnls : Mat → Vec → Option Vec) (matrix : Mat) (data : Vec)
    (hnd : labels.Nodup)
    (hflag : hasItems = false → removed = [])
    (hkernel : ∃ out, calculateResidual k dgeqrf nnls (preparedMatrix labels removed w matrix).2 (weightData w data) = some out ∧
       out.2 = residual (preparedMatrix labels removed w matrix).2 (weightData w data) out.1 ∧
       out.1.length = (preparedMatrix labels removed w matrix).1.length ∧
       (groupKey option = "variable_projection" → ∀ c', sumSq out.2 ≤ sumSq (residual (preparedMatrix labels removed w matrix).2 (weightData w data) c')) ∧
       (groupKey option = "non_negative_least_squares" → (∀ z ∈ out.1, 0 ≤ z) ∧
          ∀ c' : Vec, (∀ z ∈ c', 0 ≤ z) → sumSq out.2 ≤ sumSq (residual (preparedMatrix labels removed w matrix).2 (weightData w data) c'))) :
    ∃ clp res, estimateAt option hasItems labels removed w dgeqrf nnls matrix data = .ok clp res ∧
      res = residual (weightMatrix w matrix) (weightData w data) clp ∧
      (hasItems = true → clp.length = labels.length) ∧
      (∀ l ∈ labels, l ∈ removed → clpOf labels clp l = 0) ∧
      (groupKey option = "variable_projection" → ∀ c' : Vec, c'.length = labels.length →
          (∀ l ∈ labels, l ∈ removed → clpOf labels c' l = 0) →
          sumSq res ≤ sumSq (residual (weightMatrix w matrix) (weightData w data) c')) ∧
      (groupKey option = "non_negative_least_squares" → (∀ z ∈ clp, 0 ≤ z) ∧
          ∀ c' : Vec, c'.length = labels.length → (∀ z ∈ c', 0 ≤ z) →
          (∀ l ∈ labels, l ∈ removed → clpOf labels c' l = 0) →
          sumSq res ≤ sumSq (residual (weightMatrix w matrix) (weightData w data) c')) := by
  obtain ⟨out, hcalc, hres, hlen, hvp, hnn⟩ := hkernel
  have hest : estimateAt option hasItems labels removed w dgeqrf nnls matrix data =
      .ok (retrieveClps hasItems labels (preparedMatrix labels removed w matrix).1 out.1) out.2 := by
    simp only [estimateAt, hk, hcalc]
  refine ⟨_, _, hest, ?_⟩
  by_cases hrem : removed = []
  · subst hrem
    simp only [preparedMatrix_nil] at hres hlen hvp hnn ⊢
    rw [retrieve_self hasItems labels out.1 hnd hlen]
    refine ⟨hres, fun _ => hlen, fun l _ hl => by simp at hl, fun hkey c' _ _ => hvp hkey c',
      fun hkey => ⟨(hnn hkey).1, fun c' _ hc' _ => (hnn hkey).2 c' hc'⟩⟩
  · have hitems : hasItems = true := by
      cases hasItems with
      | true => rfl
      | false => exact absurd (hflag rfl) hrem
    subst hitems
    simp only [preparedMatrix_ne _ _ _ _ hrem, residual_maskRow] at hres hlen hvp hnn ⊢
    have hret := retrieve_eq_expandMask labels removed out.1 hnd hlen
    rw [labelMask_reduced] at hret
    rw [hret]
    refine ⟨hres, fun _ => by simp [expandMask_length], ?_, ?_, ?_⟩
    · intro l hl hr
      rw [← hret]
      apply retrieve_removed _ _ _ _ hl
      simp [reducedLabels, hr]
    · intro hkey c' hc' hz
      have := hvp hkey (maskRow (labels.map (fun l => !removed.contains l)) c')
      rwa [expand_pick_full labels removed c' hnd hc' hz] at this
    · intro hkey
      refine ⟨?_, ?_⟩
      · intro z hzmem
        rcases mem_expandMask _ _ _ hzmem with h0 | hm
        · rw [h0]
        · exact (hnn hkey).1 z hm
      · intro c' hc' hpos hz
        have := (hnn hkey).2 (maskRow (labels.map (fun l => !removed.contains l)) c')
          (fun z hzm => hpos z (mem_maskRow _ _ _ hzm))
        rwa [expand_pick_full labels removed c' hnd hc' hz] at this

theorem provider_sumSq_nonneg (v : Vec) : 0 ≤ sumSq v := by
  rw [sumSq_eq v v.length rfl]
  exact Abs.nsq_nonneg _

example : ∃ clp res,
    estimateAt none true ["a", "b"] ["b"] (some [2, 1, 2]) (fun _ => ([[-3], [1/5], [2/5]], [5/3]))
      (fun _ _ => none) [[1, 5], [1, 6], [1, 7]] [3, 3, 3] = .ok clp res ∧
    clp = [3, 0] ∧ res = [0, 0, 0] ∧
    isQRof [[-3], [1/5], [2/5]] [5/3] (preparedMatrix ["a", "b"] ["b"] (some [2, 1, 2]) [[1, 5], [1, 6], [1, 7]]).2 = true ∧
    (∀ c' : Vec, c'.length = 2 → (∀ l ∈ ["a", "b"], l ∈ ["b"] → clpOf ["a", "b"] c' l = 0) →
      sumSq res ≤ sumSq (residual (weightMatrix (some [2, 1, 2]) [[1, 5], [1, 6], [1, 7]])
        (weightData (some [2, 1, 2]) [3, 3, 3]) c')) := by
  obtain ⟨clp, res, h1, h2, _, _, h5, _⟩ := estimate_optimal none .vp (by decide) true ["a", "b"] ["b"] (some [2, 1, 2])
    (fun _ => ([[-3], [1/5], [2/5]], [5/3])) (fun _ _ => none) [[1, 5], [1, 6], [1, 7]] [3, 3, 3]
    (by decide) (by decide)
    ⟨([3], [0, 0, 0]), by decide +kernel, by decide +kernel, by decide +kernel,
      fun _ c' => by
        have h0 : sumSq ([0, 0, 0] : Vec) = 0 := by decide +kernel
        show sumSq ([0, 0, 0] : Vec) ≤ _
        rw [h0]; exact provider_sumSq_nonneg _,
      fun h => absurd h (by decide)⟩
  have he : estimateAt none true ["a", "b"] ["b"] (some [2, 1, 2]) (fun _ => ([[-3], [1/5], [2/5]], [5/3]))
      (fun _ _ => none) [[1, 5], [1, 6], [1, 7]] [3, 3, 3] = .ok [3, 0] [0, 0, 0] := by decide +kernel
  rw [he] at h1
  injection h1 with hc hr
  subst hc hr
  exact ⟨_, _, he, rfl, rfl, by decide +kernel, h5 rfl⟩

/-- non-vacuity, NNLS key: the middle column is removed, the negative datum is not fitted -/
example : estimateAt (some "non_negative_least_squares") true ["a", "b", "c"] ["b"] (some [2, 1, 1])
      (fun _ => ([], [])) nnlsExact [[1, 9, 0], [0, 9, 1], [0, 9, 0]] [1, -1, 4] = .ok [1, 0, 0] [0, -1, 4] ∧
    preparedMatrix ["a", "b", "c"] ["b"] (some [2, 1, 1]) [[1, 9, 0], [0, 9, 1], [0, 9, 0]] =
      (["a", "c"], [[2, 0], [0, 1], [0, 0]]) := by
  decide +kernel

end Provider
end Glotaran.C01
