/-
C14 — the estimated clps of linked groups and of full models at the truth: under full column rank of
the matrix handed to the solver the certified solution is the generating coefficient vector, and the
result datasets (`C03.linkedResults`, `C03.unlinkedResult`) report it by label.
-/
import GlotaranProofs.Lemmas.C14Linked
import GlotaranProofs.Lemmas.C09
namespace Glotaran.C14
open Glotaran.LinAlg Glotaran.C02

/-! ### full models -/

/-- the coefficient table of a full-model simulation: one row per global clp label, one column per
    model clp label, 1 where the labels coincide -/
def pairingTable (gl ml : List String) : List Vec :=
  gl.map (fun a => ml.map (fun l => if a = l then (1 : Rat) else 0))

theorem chunk_pairing (gl ml : List String) :
    C03.chunk ml.length gl.length (pairing gl ml) = pairingTable gl ml := by
  have h := C03.chunk_flatten' ml.length (pairingTable gl ml) (by
    intro v hv
    simp only [pairingTable, List.mem_map] at hv
    obtain ⟨a, _, rfl⟩ := hv
    simp)
  simpa [pairingTable, pairing, List.flatMap_def] using h

/-- **the result dataset of a full-model simulated dataset carries the model clp labels and — when the
    (weighted) Kronecker matrix has full column rank — the label pairing as clp table** -/
theorem unlinkedResult_full (sd : SimDataset) (lm gm : LMat) (m g : Mat) (ok : SimFullOK sd lm gm m g)
    (data : Mat) (hsim : noiseless sd.inp = .ok data) (sv : Solver)
    (r : C03.DsResult) (h : C03.unlinkedResult {} sv (sd.toDataset data) = some r) :
    r.clpLabels = lm.labels ∧
    ∀ full flat, fullModelProblem (sd.toDataset data) = some (full, flat) →
      FullColRank full (gm.labels.length * lm.labels.length) →
      r.clps = pairingTable gm.labels lm.labels := by
  unfold C03.unlinkedResult at h
  have hne : (sd.toDataset data).gmcs.isEmpty = false := by
    have : (sd.toDataset data).gmcs = sd.inp.gmcs := rfl
    rw [this]
    cases hgm : sd.inp.gmcs with
    | nil => exact absurd hgm ok.hasGlobal
    | cons _ _ => rfl
  have hm1 : datasetMatrix (sd.toDataset data).mcs = some lm := ok.matrix
  have hm2 : datasetMatrix (sd.toDataset data).gmcs = some gm := ok.gmatrix
  simp only [hne, Bool.not_false, if_true, hm1, hm2] at h
  cases hfm : fullModelProblem (sd.toDataset data) with
  | none => simp [hfm] at h
  | some ay =>
    obtain ⟨a, y⟩ := ay
    simp only [hfm] at h
    obtain ⟨hflat, hwidth⟩ := fullModel_consistent sd lm gm m g ok data hsim a y hfm
    cases hs : solveLS sv a y with
    | none => simp [hs] at h
    | some cr =>
      simp only [hs, Option.map_some, Option.some.injEq] at h
      subst h
      refine ⟨C03.finish_clpLabels .., ?_⟩
      intro full flat hff hrank
      simp only [Option.some.injEq, Prod.mk.injEq] at hff
      obtain ⟨rfl, rfl⟩ := hff
      rw [hflat] at hs
      have hc := (consistent_problem sv a _ hwidth (pairing gm.labels lm.labels) (pairing_length _ _)
        (fun _ => pairing_nonneg _ _) cr.1 cr.2 hs).2 hrank
      rw [C03.finish_clps, hc, chunk_pairing]

/-! ### linked groups: the structure of `linkedProblems` -/

theorem idxOf?_of_mem (l : List Rat) (v : Rat) (h : v ∈ l) : ∃ i, l.idxOf? v = some i := by
  cases hi : l.idxOf? v with
  | some i => exact ⟨i, rfl⟩
  | none =>
    rw [List.idxOf?_eq_none_iff] at hi
    exact absurd h hi

theorem alignMatrices_labels_mem (bs : List (LMat2 × Rat)) (b : LMat2 × Rat) (hb : b ∈ bs)
    (l : String) (hl : l ∈ b.1.labels) : l ∈ (alignMatrices bs).labels := by
  by_cases h1 : bs.length = 1
  · match bs, h1 with
    | [b'], _ =>
      simp only [List.mem_singleton] at hb
      subst hb
      exact hl
  · rw [alignMatrices_general bs h1]
    exact (unionLabels_mem _ l).2 ⟨b.1.labels, List.mem_map.2 ⟨b, hb, rfl⟩, hl⟩

/-- looking a label up in a vector given per label -/
theorem lookup_map (L : List String) (φ : String → Rat) (l : String) (hl : l ∈ L) :
    (match L.idxOf? l with | some j => (L.map φ).getD j 0 | none => 0) = φ l := by
  induction L with
  | nil => simp at hl
  | cons a L ih =>
    rw [idxOf?_cons]
    by_cases hal : a = l
    · subst hal; simp
    · have hl' : l ∈ L := by
        rcases List.mem_cons.mp hl with h | h
        · exact absurd h.symm hal
        · exact h
      have := ih hl'
      simp only [hal, if_false]
      cases h : L.idxOf? l with
      | none => simpa [h] using this
      | some j => simpa [h] using this

/-- **what `linkedProblems` hands to the solver, as far as the results need it**: the aligned axis is the
    sorted union of the aligned axes, problem `j` belongs to aligned value `j`, and at an aligned value of
    member `k` the union labels contain the member's labels -/
theorem linkedProblems_struct (g : Group) (ms : List LinkedMember) (aligned : List (List Rat))
    (F : Rat → String → Rat) (H : LinkedAtTruth g ms aligned F) (axis : List Rat) (ps : List IndexProblem)
    (h : linkedProblems {} g = some (axis, ps)) :
    axis = aligned.foldl sortedUnion [] ∧ ps.map (·.x) = axis ∧
    ∀ p ∈ ps, ∀ k (hk : k < ms.length) (hk' : k < aligned.length), p.x ∈ aligned[k] →
      ∀ l ∈ ms[k].lm.labels, l ∈ p.fullLabels := by
  unfold linkedProblems at h
  rw [H.alignment] at h
  have hdms : g.datasets.mapM (fun d => (datasetMatrix d.mcs).map (fun lm => (d, lm))) =
      some (ms.map (fun m => (m.dataset, m.lm))) := by
    rw [H.datasets]
    apply mapM_map_some
    intro m hm
    have : datasetMatrix m.dataset.mcs = some m.lm := (H.ok m hm).matrix
    simp [this]
  simp only [hdms, Option.some.injEq, Prod.mk.injEq] at h
  obtain ⟨hax, hps⟩ := h
  subst hps
  subst hax
  refine ⟨rfl, by simp [Function.comp_def], ?_⟩
  intro p hp k hk hk' hv l hl
  simp only [List.mem_map] at hp
  obtain ⟨v, _, rfl⟩ := hp
  simp only at hv ⊢
  obtain ⟨i, hidx⟩ := idxOf?_of_mem _ _ hv
  obtain ⟨hi, _⟩ := idxOf?_some_getElem _ _ _ hidx
  have hi' : i < ms[k].sd.inp.nGlobal := by simpa [H.alignedRow k hk hk'] using hi
  have hm := List.getElem_mem hk
  apply alignMatrices_labels_mem _
    ((slices ms[k].lm ms[k].dataset.nGlobal).getD i default, ms[k].dataset.scale.getD 1)
  · apply List.mem_map.2
    refine ⟨((ms[k].dataset, ms[k].lm), i), ?_, rfl⟩
    rw [List.mem_filterMap]
    refine ⟨((ms[k].dataset, ms[k].lm), aligned[k]), ?_, by simp [hidx]⟩
    have hk2 : k < ((ms.map (fun m => (m.dataset, m.lm))).zip aligned).length := by
      simp only [List.length_zip, List.length_map]; omega
    have : ((ms.map (fun m => (m.dataset, m.lm))).zip aligned)[k] = ((ms[k].dataset, ms[k].lm), aligned[k]) := by
      simp
    rw [← this]
    exact List.getElem_mem hk2
  · have hng : ms[k].dataset.nGlobal = ms[k].sd.inp.nGlobal := by
      simp [LinkedMember.dataset, Dataset.nGlobal, SimDataset.toDataset, (H.ok _ hm).axis]
    simp only [hng]
    rw [slice_labels ms[k].lm ms[k].sd.inp.nGlobal i (by rw [(H.ok _ hm).nrows i hi']; exact H.nonempty _ hm)]
    exact hl

/-! ### linked groups: the reported clps -/

theorem filter_zip_fst {α} (axis : List Rat) (sols : List α) (c : Rat → Bool) (hl : axis.length ≤ sols.length) :
    ((axis.zip sols).filter (fun vs => c vs.1)).map Prod.fst = axis.filter c := by
  have h1 : (axis.zip sols).map Prod.fst = axis := List.map_fst_zip hl
  conv_rhs => rw [← h1]
  rw [List.filter_map]
  rfl

/-- the common values of member `k`'s labels at an aligned value of the member are its generating clps
    (selected by label) over its scale -/
theorem common_truth (g : Group) (ms : List LinkedMember) (aligned : List (List Rat))
    (F : Rat → String → Rat) (H : LinkedAtTruth g ms aligned F) (k : Nat) (hk : k < ms.length)
    (hk' : k < aligned.length) (v : Rat) (hv : v ∈ aligned[k]) :
    aligned[k].idxOf v < ms[k].sd.inp.nGlobal ∧
    ms[k].lm.labels.map (F v) = truthAt ms[k].sd ms[k].lm ms[k].ls ms[k].rows (aligned[k].idxOf v) := by
  have hi : aligned[k].idxOf v < aligned[k].length := List.idxOf_lt_length_of_mem hv
  have hvi : aligned[k][aligned[k].idxOf v] = v := List.getElem_idxOf hi
  refine ⟨by rw [← H.alignedRow k hk hk']; exact hi, ?_⟩
  have hs := (H.ok _ (List.getElem_mem hk)).scale
  simp only [truthAt, sel, selectByLabel, vscale, List.map_map]
  apply List.map_congr_left
  intro l hl
  simp only [Function.comp]
  have := H.common k hk hk' _ hi l hl
  rw [hvi] at this
  rw [this]
  field_simp

/-- **the clps a linked group reports for member `k`**: its own labels, and — when the stacked matrix
    has full column rank at every aligned point of the member — at the aligned points of the member (in
    the order of the aligned axis) the common values of its labels -/
theorem linkedResults_sim (g : Group) (ms : List LinkedMember) (aligned : List (List Rat))
    (F : Rat → String → Rat) (H : LinkedAtTruth g ms aligned F)
    (hnn : g.solver = .nnls → ∀ v l, 0 ≤ F v l) (rs : List C03.DsResult)
    (h : C03.linkedResults {} g = some rs) :
    rs.length = ms.length ∧
    ∀ k (hk : k < rs.length) (hk1 : k < ms.length) (hk2 : k < aligned.length),
      rs[k].clpLabels = ms[k].lm.labels ∧
      ((∀ axis ps, linkedProblems {} g = some (axis, ps) → ∀ p ∈ ps, p.x ∈ aligned[k] →
          FullColRank p.reduced.m p.fullLabels.length) →
        rs[k].clps = ((aligned.foldl sortedUnion []).filter (fun v => aligned[k].contains v)).map
          (fun v => ms[k].lm.labels.map (F v))) := by
  rw [C03.linkedResults_eq, H.alignment] at h
  cases hlp : linkedProblems {} g with
  | none => simp [hlp] at h
  | some ap =>
    obtain ⟨axis, ps⟩ := ap
    simp only [hlp] at h
    cases hs : ps.mapM (fun p => (solveLS g.solver p.reduced.m p.data).map (fun cr => (p, cr))) with
    | none => simp [hs] at h
    | some sols =>
      simp only [hs, Option.some.injEq] at h
      subst h
      have hcons := linkedProblems_consistent g ms aligned F H axis ps hlp
      obtain ⟨hax, hpx, hlab⟩ := linkedProblems_struct g ms aligned F H axis ps hlp
      obtain ⟨hsl, hsget⟩ := mapM_some_getElem _ ps sols hs
      have hpl : ps.length = axis.length := by rw [← hpx]; simp
      have hal := H.alignedLen
      refine ⟨by simp [H.datasets, hal], ?_⟩
      intro k hk hk1 hk2
      have hm := List.getElem_mem hk1
      have hdk : (g.datasets.zip aligned)[k]'(by simpa using hk) = (ms[k].dataset, aligned[k]) := by
        simp [H.datasets]
      simp only [List.getElem_map, hdk]
      have hown : datasetMatrix (ms[k].dataset).mcs = some ms[k].lm := (H.ok _ hm).matrix
      unfold C03.linkedOne
      simp only [hown, C03.finish_clpLabels, C03.finish_clps, true_and, List.map_map]
      intro hrank
      -- every hit: the problem of its aligned value, solved exactly
      have hhit : ∀ vs ∈ (axis.zip sols).filter (fun vs => aligned[k].contains vs.1),
          (ms[k].lm.labels.map (fun l => match vs.2.1.fullLabels.idxOf? l with
            | some j => (retrieveClps {} vs.2.1.fullLabels vs.2.1.reduced.labels vs.2.2.1 vs.2.1.x).getD j 0
            | none => 0)) = ms[k].lm.labels.map (F vs.1) := by
        intro vs hvs
        rw [List.mem_filter] at hvs
        obtain ⟨hz, hc⟩ := hvs
        have hvk : vs.1 ∈ aligned[k] := by simpa using hc
        obtain ⟨j, hj, rfl⟩ := List.getElem_of_mem hz
        have hj1 : j < axis.length := by simp only [List.length_zip] at hj; omega
        have hj2 : j < sols.length := by simp only [List.length_zip] at hj; omega
        have hj3 : j < ps.length := by omega
        simp only [List.getElem_zip] at hvk ⊢
        have hsj := hsget j hj3 hj2
        cases hsol : solveLS g.solver ps[j].reduced.m ps[j].data with
        | none => simp [hsol] at hsj
        | some cr =>
          simp only [hsol, Option.map_some, Option.some.injEq] at hsj
          have hp1 : sols[j].1 = ps[j] := by rw [← hsj]
          have hp2 : sols[j].2 = cr := by rw [← hsj]
          have hpm : ps[j] ∈ ps := List.getElem_mem hj3
          have hx : ps[j].x = axis[j] := by
            have : (ps.map (·.x))[j]'(by simpa using hj3) = axis[j] := by simp only [hpx]
            simpa using this
          obtain ⟨hw, hd⟩ := hcons _ hpm
          rw [hd] at hsol
          have hc1 := (consistent_problem g.solver ps[j].reduced.m ps[j].fullLabels.length hw
            (ps[j].fullLabels.map (F ps[j].x)) (by simp) (fun hs' => by
              intro y hy
              simp only [List.mem_map] at hy
              obtain ⟨l, _, rfl⟩ := hy
              exact hnn hs' ps[j].x l) cr.1 cr.2 hsol).2
            (hrank axis ps rfl _ hpm (by rw [hx]; exact hvk))
          rw [hp1, hp2, hc1]
          apply List.map_congr_left
          intro l hl
          have hlf : l ∈ ps[j].fullLabels := hlab _ hpm k hk1 hk2 (by rw [hx]; exact hvk) l hl
          have hret : retrieveClps {} ps[j].fullLabels ps[j].reduced.labels
              (ps[j].fullLabels.map (F ps[j].x)) ps[j].x = ps[j].fullLabels.map (F ps[j].x) := by
            simp [retrieveClps]
          rw [hret, lookup_map _ _ _ hlf, hx]
      rw [← hax]
      have hfz := filter_zip_fst axis sols (fun v => aligned[k].contains v) (by omega)
      rw [← hfz, List.map_map]
      apply List.map_congr_left
      intro vs hvs
      exact hhit vs hvs

/-! ### sorted aligned axes: the reported rows are in the member's own index order -/

theorem insertSorted_eq_insertU (x : Rat) : ∀ l : List Rat, insertSorted x l = C09.insertU x l := by
  intro l
  induction l with
  | nil => rfl
  | cons y ys ih => simp only [insertSorted, C09.insertU, ih]

theorem sortedUnion_sorted : ∀ (b acc : List Rat), acc.Pairwise (· < ·) → (sortedUnion acc b).Pairwise (· < ·) := by
  intro b
  induction b with
  | nil => intro acc h; exact h
  | cons x b ih =>
    intro acc h
    have : sortedUnion acc (x :: b) = sortedUnion (insertSorted x acc) b := rfl
    rw [this]
    apply ih
    rw [insertSorted_eq_insertU]
    exact C09.insertU_sorted x acc h

theorem foldl_sortedUnion_sorted : ∀ (al : List (List Rat)) (acc : List Rat), acc.Pairwise (· < ·) →
    (al.foldl sortedUnion acc).Pairwise (· < ·) := by
  intro al
  induction al with
  | nil => intro acc h; exact h
  | cons l al ih => intro acc h; exact ih _ (sortedUnion_sorted l acc h)

/-- **a strictly increasing aligned axis of a member is exactly the part of the aligned global axis the
    member is present at** -/
theorem filter_aligned_sorted (aligned : List (List Rat)) (k : Nat) (hk : k < aligned.length)
    (hs : aligned[k].Pairwise (· < ·)) :
    (aligned.foldl sortedUnion []).filter (fun v => aligned[k].contains v) = aligned[k] := by
  apply C09.sorted_ext
  · exact (foldl_sortedUnion_sorted aligned [] List.Pairwise.nil).filter _
  · exact hs
  · intro a
    rw [List.mem_filter, mem_foldl_sortedUnion]
    constructor
    · rintro ⟨_, hc⟩
      simpa using hc
    · intro ha
      exact ⟨Or.inr ⟨aligned[k], List.getElem_mem hk, ha⟩, by simpa using ha⟩

theorem map_idxOf_nodup (l : List Rat) (hn : l.Nodup) (f : Nat → Vec) :
    l.map (fun v => f (l.idxOf v)) = (List.range l.length).map f := by
  apply List.ext_getElem
  · simp
  · intro i h1 h2
    simp only [List.getElem_map, List.getElem_range]
    have hi : i < l.length := by simpa using h1
    rw [hn.idxOf_getElem i hi]

/-! ### a checkable certificate of full column rank -/

theorem mulVec_identityRows (n : Nat) (v : Vec) (hv : v.length = n) : mulVec (identityRows n) v = v := by
  have h1 : identityRows n = (List.range n).map (fun i => idRow n i) := rfl
  rw [h1]
  simp only [mulVec, List.map_map]
  have : ∀ i ∈ List.range n, ((fun r => dot r v) ∘ fun i => idRow n i) i = v.getD i 0 := by
    intro i hi
    exact dot_idRow n i v (by simpa using hi)
  rw [List.map_congr_left this, ← hv]
  exact map_getD_range v

/-- **a left inverse certifies full column rank**: `L · B = I` -/
theorem fullColRank_of_leftInverse (B L : Mat) (n : Nat) (hB : ∀ r ∈ B, r.length = n)
    (h : matMul L B n = identityRows n) : FullColRank B n := by
  intro v w hv hw he
  have e1 := mulVec_matMul L B n hB v
  have e2 := mulVec_matMul L B n hB w
  rw [h, mulVec_identityRows n v hv] at e1
  rw [h, mulVec_identityRows n w hw] at e2
  rw [e1, e2, he]

/-- Boolean form, for concrete matrices -/
def leftInverseCert (B L : Mat) (n : Nat) : Bool :=
  B.all (fun r => r.length == n) && matMul L B n == identityRows n

theorem fullColRank_of_cert (B L : Mat) (n : Nat) (h : leftInverseCert B L n = true) : FullColRank B n := by
  simp only [leftInverseCert, Bool.and_eq_true, List.all_eq_true, beq_iff_eq] at h
  exact fullColRank_of_leftInverse B L n h.1 h.2

deriving instance DecidableEq for C02.LMat2
deriving instance DecidableEq for C02.IndexProblem

/-! ### full column rank of a Kronecker matrix from its factors -/

/-- one Kronecker row against a coefficient vector given in blocks -/
theorem dot_kron_chunks (r : Vec) (n : Nat) (hr : r.length = n) : ∀ (grow : Vec) (x : Vec),
    x.length = grow.length * n →
    dot (grow.flatMap (fun gv => r.map (gv * ·))) x =
      dot grow ((C03.chunk n grow.length x).map (fun c => dot r c)) := by
  intro grow
  induction grow with
  | nil => intro x _; simp [C03.chunk]
  | cons gv grow ih =>
    intro x hx
    have hx' : x.length = n + grow.length * n := by
      rw [hx, List.length_cons]; ring
    have hsplit : x = x.take n ++ x.drop n := (List.take_append_drop n x).symm
    have htl : (x.take n).length = n := by rw [List.length_take]; omega
    have hdl : (x.drop n).length = grow.length * n := by rw [List.length_drop]; omega
    simp only [List.flatMap_cons, List.length_cons, C03.chunk, List.map_cons, dot_cons]
    conv_lhs => rw [hsplit]
    rw [dot_append _ _ _ _ (by simp [hr, htl]), ih (x.drop n) hdl]
    have : r.map (gv * ·) = vscale gv r := rfl
    rw [this, dot_vscale]

theorem flatMap_inj_of_length {α} (n : Nat) : ∀ (l : List α) (f g : α → Vec),
    (∀ a ∈ l, (f a).length = n) → (∀ a ∈ l, (g a).length = n) → l.flatMap f = l.flatMap g →
    ∀ a ∈ l, f a = g a := by
  intro l
  induction l with
  | nil => intro f g _ _ _ a ha; simp at ha
  | cons b l ih =>
    intro f g hf hg h a ha
    simp only [List.flatMap_cons] at h
    have hlen : (f b).length = (g b).length := by
      rw [hf b List.mem_cons_self, hg b List.mem_cons_self]
    obtain ⟨h1, h2⟩ := List.append_inj h hlen
    rcases List.mem_cons.mp ha with rfl | ha
    · exact h1
    · exact ih f g (fun a ha => hf a (List.mem_cons_of_mem _ ha)) (fun a ha => hg a (List.mem_cons_of_mem _ ha)) h2 a ha

theorem chunk_piece_length (n : Nat) : ∀ (k : Nat) (x : Vec), x.length = k * n →
    ∀ c ∈ C03.chunk n k x, c.length = n := by
  intro k
  induction k with
  | zero => intro x _ c hc; simp [C03.chunk] at hc
  | succ k ih =>
    intro x hx c hc
    have hx' : x.length = n + k * n := by rw [hx]; ring
    simp only [C03.chunk, List.mem_cons] at hc
    rcases hc with rfl | hc
    · rw [List.length_take]; omega
    · exact ih (x.drop n) (by rw [List.length_drop]; omega) c hc

theorem chunk_flatten_self (n : Nat) : ∀ (k : Nat) (x : Vec), x.length = k * n →
    (C03.chunk n k x).flatten = x := by
  intro k
  induction k with
  | zero =>
    intro x hx
    have : x = [] := List.length_eq_zero_iff.mp (by simpa using hx)
    simp [C03.chunk, this]
  | succ k ih =>
    intro x hx
    have hx' : x.length = n + k * n := by rw [hx]; ring
    simp only [C03.chunk, List.flatten_cons]
    rw [ih (x.drop n) (by rw [List.length_drop]; omega), List.take_append_drop]

/-- **`G ⊗ M` has full column rank when `G` and `M` have**: the rank hypothesis of the full-model clp
    theorem follows, for an unweighted dataset, from the ranks of the global and the model matrix -/
theorem kron_fullColRank (G M : Mat) (k n : Nat) (hG : ∀ r ∈ G, r.length = k) (hM : ∀ r ∈ M, r.length = n)
    (rG : FullColRank G k) (rM : FullColRank M n) :
    FullColRank (G.flatMap (fun grow => kronRow grow M)) (k * n) := by
  intro x w hx hw he
  -- the image, row block by row block
  have himg : ∀ y : Vec, y.length = k * n →
      mulVec (G.flatMap (fun grow => kronRow grow M)) y =
        G.flatMap (fun grow => M.map (fun r => dot grow ((C03.chunk n k y).map (fun c => dot r c)))) := by
    intro y hy
    simp only [mulVec, List.map_flatMap, kronRow, List.map_map]
    apply List.flatMap_congr
    intro grow hgrow
    apply List.map_congr_left
    intro r hr
    simp only [Function.comp]
    have := dot_kron_chunks r n (hM r hr) grow y (by rw [hy, hG grow hgrow])
    rw [this, hG grow hgrow]
  rw [himg x hx, himg w hw] at he
  have hpiece := flatMap_inj_of_length M.length G _ _ (by intro a _; simp) (by intro a _; simp) he
  -- for every model row: the vectors of block products coincide
  have hrow : ∀ r ∈ M, (C03.chunk n k x).map (fun c => dot r c) = (C03.chunk n k w).map (fun c => dot r c) := by
    intro r hr
    apply rG _ _ (by simp [C03.chunk_length]) (by simp [C03.chunk_length])
    simp only [mulVec]
    apply List.map_congr_left
    intro grow hgrow
    have := hpiece grow hgrow
    exact (List.map_inj_left.mp this) r hr
  -- block by block
  have hchunks : C03.chunk n k x = C03.chunk n k w := by
    apply List.ext_getElem
    · simp [C03.chunk_length]
    · intro a h1 h2
      apply rM _ _ (chunk_piece_length n k x hx _ (List.getElem_mem h1))
        (chunk_piece_length n k w hw _ (List.getElem_mem h2))
      simp only [mulVec]
      apply List.map_congr_left
      intro r hr
      have := hrow r hr
      have e := congrArg (fun l => l[a]?) this
      simpa [h1, h2] using e
  rw [← chunk_flatten_self n k x hx, ← chunk_flatten_self n k w hw, hchunks]

end Glotaran.C14
