/-
C02 — the interpretation of the regenerated steps table equals the hand-written pipeline (helper lemmas).
-/
import GlotaranModel.C02Steps
import GlotaranModel.Generated.C02Steps
namespace Glotaran.C02.Steps
open Glotaran.LinAlg Glotaran.C02

theorem mapM_some_eq {α β} (f : α → Option β) (g : α → β) (l : List α) (h : ∀ x ∈ l, f x = some (g x)) :
    l.mapM f = some (l.map g) := by
  induction l with
  | nil => rfl
  | cons a l ih =>
    rw [List.mapM_cons, h a (by simp), ih (fun x hx => h x (by simp [hx]))]
    rfl

theorem mapM_congr_fun {α β} (f g : α → Option β) (l : List α) (h : ∀ x, f x = g x) : l.mapM f = l.mapM g := by
  have : f = g := funext h
  rw [this]

/-! ### megacomplex loop -/
theorem mcFold_generated (acc : Option LMat) (o : McOut) :
    mcFold Generated.table.mc (some acc) o =
      some (some (match acc with | none => o.scaled | some a => combine a o.scaled)) := by
  cases acc <;> cases o with
  | mk out scale => cases scale <;> rfl

theorem foldl_mcFold_generated (rest : List McOut) (a : LMat) :
    rest.foldl (mcFold Generated.table.mc) (some (some a)) =
      some (some (rest.foldl (fun acc o => combine acc o.scaled) a)) := by
  induction rest generalizing a with
  | nil => rfl
  | cons o rest ih => rw [List.foldl_cons, mcFold_generated, List.foldl_cons]; exact ih _

theorem interpMcs_generated (mcs : List McOut) : interpMcs Generated.table.mc mcs = datasetMatrix mcs := by
  cases mcs with
  | nil => rfl
  | cons m rest =>
    unfold interpMcs
    rw [List.foldl_cons, mcFold_generated, foldl_mcFold_generated]
    rfl

/-! ### data -/
theorem interpData_generated (d : Dataset) : interpData Generated.table.data d = some d.weightedData := by
  unfold Dataset.weightedData
  cases h : d.weight <;> simp [interpData, Generated.table, dataStep, h]

theorem dataOf_generated (d : Dataset) : dataOf Generated.table d = d.weightedData := by
  simp [dataOf, interpData_generated]

/-! ### unlinked -/
theorem interpUnlinked_generated (mi : ModelItems) (d : Dataset) :
    interpUnlinked Generated.table mi d = unlinkedProblems mi d := by
  unfold interpUnlinked unlinkedProblems
  rw [interpMcs_generated, interpData_generated]
  cases datasetMatrix d.mcs with
  | none => rfl
  | some lm => rfl

/-! ### full model -/
theorem interpFull_generated (d : Dataset) : interpFull Generated.table d = fullModelProblem d := by
  unfold interpFull fullModelProblem
  rw [interpMcs_generated, interpMcs_generated, interpData_generated]
  cases datasetMatrix d.mcs with
  | none => rfl
  | some lm =>
    cases datasetMatrix d.gmcs with
    | none => rfl
    | some gm => rfl

/-! ### linked -/
theorem linkedAt_generated (mi : ModelItems) (anyWeight : Bool) (mem : List Member) (v : Rat) :
    linkedAt Generated.table mi anyWeight mem v =
      some (
        let blocks := mem.map (fun di =>
          let d := di.1.1; let lm := di.1.2
          ((slices lm d.nGlobal).getD di.2 default, d.scale.getD 1))
        let stacked := alignMatrices blocks
        let red := reduceAt mi v stacked
        let hasW := anyWeight && mem.any (fun di => di.1.1.weight.isSome)
        let w : Vec := mem.flatMap (fun di =>
          match di.1.1.weight with
          | some w => col w di.2
          | none => List.replicate di.1.1.nModel 1)
        let red := if hasW then { red with m := weightRows red.m w } else red
        let data : Vec := mem.flatMap (fun di => col di.1.1.weightedData di.2)
        { fullLabels := stacked.labels, reduced := red, data := data, x := v }) := by
  simp only [linkedAt, Generated.table, List.foldl_cons, List.foldl_nil, lStep, if_true, pickCol,
    fullLabelsOf, reduceAt, List.zip_map']
  have hd : ∀ d, dataOf Generated.table d = d.weightedData := dataOf_generated
  simp only [Generated.table] at hd
  simp only [hd]
  cases h : (anyWeight && mem.any (fun di => di.1.1.weight.isSome)) <;> simp <;> rfl

theorem interpLinked_generated (mi : ModelItems) (g : Group) :
    interpLinked Generated.table mi g = linkedProblems mi g := by
  unfold interpLinked linkedProblems
  cases alignAxes (g.datasets.map (·.globalAxis)) g.tol g.method with
  | none => rfl
  | some aligned =>
    simp only
    rw [mapM_some_eq (fun d => interpData Generated.table.data d) (fun d => d.weightedData) g.datasets
      (fun d _ => interpData_generated d)]
    rw [mapM_congr_fun (fun d => (interpMcs Generated.table.mc d.mcs).map (fun lm => (d, lm)))
      (fun d => (datasetMatrix d.mcs).map (fun lm => (d, lm))) g.datasets (fun d => by rw [interpMcs_generated])]
    cases g.datasets.mapM (fun d => (datasetMatrix d.mcs).map (fun lm => (d, lm))) with
    | none => rfl
    | some dms =>
      simp only
      have hok : (!(Generated.table.alignedData.ok && Generated.table.alignedWeight.ok && Generated.table.linkedCall.ok
            && Generated.table.linkedCall.container == .own && Generated.table.linkedCall.data == .own
            && Generated.table.linkedCall.x == .own)) = false := by decide
      rw [hok]
      simp only [Bool.false_eq_true, if_false]
      rw [mapM_some_eq _ _ _ (fun v _ => linkedAt_generated mi _ (membersOf dms aligned v) v)]
      rfl

/-! ### assembly -/
theorem interpDataset_generated (mi : ModelItems) (s : Solver) (d : Dataset) :
    interpDataset Generated.table mi s d = unlinkedDataset mi s d := by
  unfold interpDataset unlinkedDataset
  rw [interpFull_generated, interpUnlinked_generated]
  rfl

theorem interpGroupUnlinked_generated (mi : ModelItems) (g : Group) (hl : g.linked = false) :
    interpGroupUnlinked Generated.table mi g = groupPenalty mi g := by
  unfold groupPenalty groupPenaltyParts
  rw [hl]
  simp only [Bool.false_eq_true, if_false]
  have h : interpGroupUnlinked Generated.table mi g =
      (match g.datasets.mapM (interpDataset Generated.table mi g.solver) with
       | none => none
       | some parts => some (parts.flatMap (·.1) ++ parts.flatMap (·.2))) := by
    simp [interpGroupUnlinked, Generated.table, dBodyOk, countD]
    cases g.datasets.mapM (interpDataset Generated.table mi g.solver) <;> rfl
  rw [h, mapM_congr_fun _ _ _ (interpDataset_generated mi g.solver)]
  cases g.datasets.mapM (unlinkedDataset mi g.solver) <;> rfl

theorem interpGroupLinked_generated (mi : ModelItems) (g : Group) (hl : g.linked = true) :
    interpGroupLinked Generated.table mi g = groupPenalty mi g := by
  unfold groupPenalty groupPenaltyParts linkedGroup
  rw [hl]
  simp only [if_true]
  have h : interpGroupLinked Generated.table mi g =
      (match interpLinked Generated.table mi g with
       | none => none
       | some (axis, ps) =>
         match ps.mapM (fun p => (solveLS g.solver p.reduced.m p.data).map (fun cr => (p, cr))) with
         | none => none
         | some sols =>
           some (sols.flatMap (fun pc => pc.2.2) ++
             clpPenalties mi (sols.map (fun pc => pc.1.fullLabels))
               (sols.map (fun pc => retrieveClps mi pc.1.fullLabels pc.1.reduced.labels pc.2.1 pc.1.x)) axis)) := by
    simp only [interpGroupLinked, Generated.table, List.foldl_cons, List.foldl_nil, List.nil_append]
    cases interpLinked Generated.table mi g with
    | none => rfl
    | some ap =>
      obtain ⟨axis, ps⟩ := ap
      cases ps.mapM (fun p => (solveLS g.solver p.reduced.m p.data).map (fun cr => (p, cr))) <;> rfl
  rw [h, interpLinked_generated]
  cases linkedProblems mi g with
  | none => rfl
  | some ap =>
    obtain ⟨axis, ps⟩ := ap
    simp only
    cases ps.mapM (fun p => (solveLS g.solver p.reduced.m p.data).map (fun cr => (p, cr))) <;> rfl

theorem interpGroup_generated (mi : ModelItems) (g : Group) :
    interpGroup Generated.table mi g = groupPenalty mi g := by
  unfold interpGroup
  cases hl : g.linked
  · simpa using interpGroupUnlinked_generated mi g hl
  · simpa using interpGroupLinked_generated mi g hl

theorem interpObjective_generated (mi : ModelItems) (gs : List Group) :
    interpObjective Generated.table mi gs = objective mi gs := by
  have h : interpObjective Generated.table mi gs = (gs.mapM (interpGroup Generated.table mi)).map List.flatten := rfl
  rw [h, mapM_congr_fun _ _ _ (interpGroup_generated mi)]
  rfl

end Glotaran.C02.Steps
