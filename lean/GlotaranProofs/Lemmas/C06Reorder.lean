/-
C06 helper lemmas: re-ordering the columns of a labelled matrix (and the clps) by a permuted label
list leaves products, residuals and the normal equations unchanged; selection by label.
-/
import GlotaranModel.C06
import GlotaranProofs.Lemmas.C02
import GlotaranProofs.Lemmas.C06
namespace Glotaran.C06
open Glotaran.LinAlg Glotaran.C02

theorem dot_map_map {α} (ws : List α) (f g : α → Rat) :
    dot (ws.map f) (ws.map g) = (ws.map (fun w => f w * g w)).sum := by
  induction ws with
  | nil => simp
  | cons w t ih => simp only [List.map_cons, dot_cons, List.sum_cons, ih]

/-! ### re-ordering by label, for any label type (`reorderColsBy` / `reorderVecBy`; the `String` versions
`reorderCols` / `reorderVec` are the same functions) -/

section Generic
variable {α : Type} [BEq α] [LawfulBEq α]

theorem idxOf_cons_ne_by (a l : α) (t : List α) (h : a ≠ l) : (a :: t).idxOf l = t.idxOf l + 1 := by
  have hb : (a == l) = false := by simpa using h
  rw [List.idxOf_cons, hb]; rfl

/-- summing `row[idx l] * c[idx l]` over the (duplicate-free) labels is the dot product -/
theorem sum_map_idxOf_by (labels : List α) (hl : labels.Nodup) (row c : Vec)
    (hr : row.length = labels.length) (hc : c.length = labels.length) :
    (labels.map (fun l => row.getD (labels.idxOf l) 0 * c.getD (labels.idxOf l) 0)).sum = dot row c := by
  induction labels generalizing row c with
  | nil =>
    have : row = [] := List.length_eq_zero_iff.mp (by simpa using hr)
    subst this
    simp
  | cons a t ih =>
    cases row with
    | nil => simp at hr
    | cons x row' =>
      cases c with
      | nil => simp at hc
      | cons y c' =>
        have hat : a ∉ t := (List.nodup_cons.mp hl).1
        have ht : t.Nodup := (List.nodup_cons.mp hl).2
        have hr' : row'.length = t.length := by simpa using hr
        have hc' : c'.length = t.length := by simpa using hc
        have hmap : t.map (fun l => (x :: row').getD ((a :: t).idxOf l) 0 * (y :: c').getD ((a :: t).idxOf l) 0) =
            t.map (fun l => row'.getD (t.idxOf l) 0 * c'.getD (t.idxOf l) 0) := by
          apply List.map_congr_left
          intro l hlt
          have hal : a ≠ l := fun h => hat (h ▸ hlt)
          rw [idxOf_cons_ne_by a l t hal]
          simp
        simp only [List.map_cons, List.sum_cons, dot_cons]
        rw [hmap, ih ht row' c' hr' hc']
        simp

/-- re-ordered row times re-ordered clps = row times clps -/
theorem reorder_dot_by (labels wanted : List α) (row c : Vec) (hl : labels.Nodup)
    (hw : wanted.Perm labels) (hr : row.length = labels.length) (hc : c.length = labels.length) :
    dot (wanted.map (fun l => row.getD (labels.idxOf l) 0)) (reorderVecBy labels c wanted) = dot row c := by
  unfold reorderVecBy
  rw [dot_map_map, rat_sum_perm (hw.map _), sum_map_idxOf_by labels hl row c hr hc]

theorem reorder_mulVec_by (labels wanted : List α) (m : Mat) (c : Vec) (hl : labels.Nodup)
    (hw : wanted.Perm labels) (hm : ∀ row ∈ m, row.length = labels.length) (hc : c.length = labels.length) :
    mulVec (reorderColsBy labels m wanted) (reorderVecBy labels c wanted) = mulVec m c := by
  simp only [mulVec, reorderColsBy, List.map_map]
  apply List.map_congr_left
  intro row hrow
  exact reorder_dot_by labels wanted row c hl hw (hm row hrow) hc

theorem reorder_residual_by (labels wanted : List α) (m : Mat) (y c : Vec) (hl : labels.Nodup)
    (hw : wanted.Perm labels) (hm : ∀ row ∈ m, row.length = labels.length) (hc : c.length = labels.length) :
    residual (reorderColsBy labels m wanted) y (reorderVecBy labels c wanted) = residual m y c := by
  simp only [residual, reorder_mulVec_by labels wanted m c hl hw hm hc]

omit [LawfulBEq α] in
theorem col_reorderColsBy (labels wanted : List α) (m : Mat) (k : Nat) (hk : k < wanted.length) :
    col (reorderColsBy labels m wanted) k = col m (labels.idxOf wanted[k]) := by
  simp only [col, reorderColsBy, List.map_map]
  apply List.map_congr_left
  intro row _
  simp [List.getD_eq_getElem?_getD, List.getElem?_map, List.getElem?_eq_getElem hk]

omit [LawfulBEq α] in
theorem ncols_reorderColsBy (labels wanted : List α) (m : Mat) (hne : m ≠ []) :
    ncols (reorderColsBy labels m wanted) = wanted.length := by
  cases m with
  | nil => exact absurd rfl hne
  | cons r t => simp [ncols, reorderColsBy]

end Generic

theorem ncols_of_rows (m : Mat) (n : Nat) (hne : m ≠ []) (hm : ∀ row ∈ m, row.length = n) : ncols m = n := by
  cases m with
  | nil => exact absurd rfl hne
  | cons r t => simpa [ncols] using hm r (by simp)

section Generic2
variable {α : Type} [BEq α] [LawfulBEq α]

/-- the gradient `Aᵀ r` of the re-ordered problem is the re-ordered gradient -/
theorem gradient_reorder_by (labels wanted : List α) (m : Mat) (y c : Vec) (hne : m ≠ [])
    (hl : labels.Nodup) (hw : wanted.Perm labels) (hm : ∀ row ∈ m, row.length = labels.length)
    (hc : c.length = labels.length) :
    gradient (reorderColsBy labels m wanted) y (reorderVecBy labels c wanted) =
      reorderVecBy labels (gradient m y c) wanted := by
  unfold gradient
  rw [reorder_residual_by labels wanted m y c hl hw hm hc, ncols_reorderColsBy labels wanted m hne,
    ncols_of_rows m labels.length hne hm]
  simp only [mulVec, transpose, List.map_map, reorderVecBy]
  apply List.ext_getElem
  · simp
  · intro k h1 h2
    have hk : k < wanted.length := by simpa using h1
    have hmem : wanted[k] ∈ labels := hw.subset (List.getElem_mem hk)
    have hidx : labels.idxOf wanted[k] < labels.length := List.idxOf_lt_length_of_mem hmem
    simp [col_reorderColsBy labels wanted m k hk, List.getD_eq_getElem?_getD, hidx]

omit [LawfulBEq α] in
theorem all_zero_reorderVecBy (labels wanted : List α) (g : Vec) (hg : g.all (· == 0) = true) :
    (reorderVecBy labels g wanted).all (· == 0) = true := by
  simp only [reorderVecBy, List.all_eq_true, List.mem_map] at *
  rintro x ⟨l, _, rfl⟩
  simp only [List.getD_eq_getElem?_getD]
  cases h : g[labels.idxOf l]? with
  | none => simp
  | some v => simpa using hg v (List.mem_of_getElem? h)

end Generic2

/-! the `String` versions (the names the property theorems use) -/

theorem reorderCols_eq_by (labels wanted : List String) (m : Mat) :
    reorderCols labels m wanted = reorderColsBy labels m wanted := rfl

theorem reorderVec_eq_by (labels wanted : List String) (c : Vec) :
    reorderVec labels c wanted = reorderVecBy labels c wanted := rfl

theorem reorder_mulVec_lem (labels wanted : List String) (m : Mat) (c : Vec) (hl : labels.Nodup)
    (hw : wanted.Perm labels) (hm : ∀ row ∈ m, row.length = labels.length) (hc : c.length = labels.length) :
    mulVec (reorderCols labels m wanted) (reorderVec labels c wanted) = mulVec m c :=
  reorder_mulVec_by labels wanted m c hl hw hm hc

theorem reorder_residual (labels wanted : List String) (m : Mat) (y c : Vec) (hl : labels.Nodup)
    (hw : wanted.Perm labels) (hm : ∀ row ∈ m, row.length = labels.length) (hc : c.length = labels.length) :
    residual (reorderCols labels m wanted) y (reorderVec labels c wanted) = residual m y c :=
  reorder_residual_by labels wanted m y c hl hw hm hc

theorem col_reorderCols (labels wanted : List String) (m : Mat) (k : Nat) (hk : k < wanted.length) :
    col (reorderCols labels m wanted) k = col m (labels.idxOf wanted[k]) :=
  col_reorderColsBy labels wanted m k hk

theorem ncols_reorderCols (labels wanted : List String) (m : Mat) (hne : m ≠ []) :
    ncols (reorderCols labels m wanted) = wanted.length :=
  ncols_reorderColsBy labels wanted m hne

theorem gradient_reorder (labels wanted : List String) (m : Mat) (y c : Vec) (hne : m ≠ [])
    (hl : labels.Nodup) (hw : wanted.Perm labels) (hm : ∀ row ∈ m, row.length = labels.length)
    (hc : c.length = labels.length) :
    gradient (reorderCols labels m wanted) y (reorderVec labels c wanted) =
      reorderVec labels (gradient m y c) wanted :=
  gradient_reorder_by labels wanted m y c hne hl hw hm hc

theorem all_zero_reorderVec (labels wanted : List String) (g : Vec) (hg : g.all (· == 0) = true) :
    (reorderVec labels g wanted).all (· == 0) = true :=
  all_zero_reorderVecBy labels wanted g hg

/-! ### selection by label -/

theorem positions_some (labels wanted : List String) (h : ∀ l ∈ wanted, l ∈ labels) :
    positions labels wanted = some (wanted.map (fun l => labels.idxOf l)) := by
  unfold positions
  induction wanted with
  | nil => rfl
  | cons a t ih =>
    have ha : a ∈ labels := h a (by simp)
    have ht := ih (fun l hl => h l (by simp [hl]))
    simp only [List.mapM_cons, idxOf?_eq_some_idxOf labels a ha, ht]
    rfl

theorem selectCols_eq_reorder (labels wanted : List String) (m : Mat) (h : ∀ l ∈ wanted, l ∈ labels) :
    selectCols labels m wanted = some (reorderCols labels m wanted) := by
  simp [selectCols, positions_some labels wanted h, reorderCols, List.map_map, Function.comp_def]

theorem selectVec_eq_reorder (labels wanted : List String) (c : Vec) (h : ∀ l ∈ wanted, l ∈ labels) :
    selectVec labels c wanted = some (reorderVec labels c wanted) := by
  simp [selectVec, positions_some labels wanted h, reorderVec, List.map_map, Function.comp_def]

theorem positions_none (labels wanted : List String) (l : String) (hl : l ∈ wanted) (hn : l ∉ labels) :
    positions labels wanted = none := by
  unfold positions
  induction wanted with
  | nil => simp at hl
  | cons a t ih =>
    rcases List.mem_cons.mp hl with rfl | ht
    · simp [List.mapM_cons, List.idxOf?_eq_none_iff.mpr hn]
    · simp only [List.mapM_cons, ih ht]
      cases labels.idxOf? a <;> rfl

/-! ### first-seen union -/

theorem firstSeen_foldl (xs acc : List String) (hacc : acc.Nodup) :
    (xs.foldl (fun acc x => if acc.contains x then acc else acc ++ [x]) acc).Nodup ∧
    ∀ l, l ∈ xs.foldl (fun acc x => if acc.contains x then acc else acc ++ [x]) acc ↔ l ∈ acc ∨ l ∈ xs := by
  induction xs generalizing acc with
  | nil => simp [hacc]
  | cons x t ih =>
    simp only [List.foldl_cons]
    by_cases hx : acc.contains x = true
    · simp only [hx, if_true]
      obtain ⟨h1, h2⟩ := ih acc hacc
      refine ⟨h1, fun l => ?_⟩
      rw [h2 l]
      have hxm : x ∈ acc := by simpa using hx
      constructor
      · rintro (h | h)
        · exact Or.inl h
        · exact Or.inr (by simp [h])
      · rintro (h | h)
        · exact Or.inl h
        · rcases List.mem_cons.mp h with rfl | h
          · exact Or.inl hxm
          · exact Or.inr h
    · have hxm : x ∉ acc := by simpa using hx
      simp only [hx, Bool.false_eq_true, if_false]
      have hn : (acc ++ [x]).Nodup := by
        rw [List.nodup_append]
        refine ⟨hacc, by simp, ?_⟩
        intro a ha b hb hab
        simp only [List.mem_singleton] at hb
        subst hb; subst hab
        exact hxm ha
      obtain ⟨h1, h2⟩ := ih (acc ++ [x]) hn
      refine ⟨h1, fun l => ?_⟩
      rw [h2 l]
      simp only [List.mem_append, List.mem_cons, List.not_mem_nil, or_false]
      constructor
      · rintro ((h | h) | h)
        · exact Or.inl h
        · exact Or.inr (Or.inl h)
        · exact Or.inr (Or.inr h)
      · rintro (h | h | h)
        · exact Or.inl (Or.inl h)
        · exact Or.inl (Or.inr h)
        · exact Or.inr h

end Glotaran.C06
