/-
C04 — `KMatrix.reduced` versus `KMatrix.full` for a dictionary (unique keys), and what
`is_sequential` accepts.
-/
import GlotaranProofs.Lemmas.C04
import Mathlib.Data.List.Nodup
namespace Glotaran.C04

variable {F : Type} [Field F]

def keyOf (e : Entry F) : ℕ × ℕ := (e.to, e.frm)

/-- dictionary keys are unique (after `compartments.index`, i.e. for distinct compartment labels) -/
def KeysNodup (es : List (Entry F)) : Prop := (es.map keyOf).Nodup

omit [Field F] in
theorem foldl_reduced_not_mem (es : List (Entry F)) (i j : ℕ) (acc : F)
    (h : ∀ e ∈ es, ¬ (e.to = i ∧ e.frm = j)) :
    es.foldl (fun acc e => if e.to = i ∧ e.frm = j then e.val else acc) acc = acc := by
  induction es generalizing acc with
  | nil => rfl
  | cons e es ih =>
    simp only [List.foldl_cons]
    rw [if_neg (h e List.mem_cons_self)]
    exact ih acc (fun e' he' => h e' (List.mem_cons_of_mem _ he'))

theorem reducedAt_nil (i j : ℕ) : reducedAt ([] : List (Entry F)) i j = 0 := rfl

theorem reducedAt_cons (e : Entry F) (es : List (Entry F)) (hk : KeysNodup (e :: es)) (i j : ℕ) :
    reducedAt (e :: es) i j = if e.to = i ∧ e.frm = j then e.val else reducedAt es i j := by
  have hnot : keyOf e ∉ es.map keyOf := (List.nodup_cons.mp hk).1
  simp only [reducedAt, List.foldl_cons]
  by_cases h : e.to = i ∧ e.frm = j
  · simp only [h, and_self, if_true]
    apply foldl_reduced_not_mem
    intro e' he' h'
    apply hnot
    rw [List.mem_map]
    exact ⟨e', he', by simp [keyOf, h.1, h.2, h'.1, h'.2]⟩
  · simp only [h, if_false]

omit [Field F] in
theorem KeysNodup.tail {e : Entry F} {es : List (Entry F)} (hk : KeysNodup (e :: es)) :
    KeysNodup es := (List.nodup_cons.mp hk).2

/-- off the diagonal the full matrix is the table of rate constants -/
theorem fullAt_offdiag (es : List (Entry F)) (hk : KeysNodup es) (i j : ℕ) (hij : i ≠ j) :
    fullAt es i j = reducedAt es i j := by
  induction es with
  | nil => rfl
  | cons e es ih =>
    rw [fullAt_cons, reducedAt_cons e es hk, ih hk.tail, fullStep_zero]
    have h2 : ¬ (i = e.frm ∧ j = e.frm) := fun h => hij (h.1.trans h.2.symm)
    by_cases h : e.to = i ∧ e.frm = j
    · have h1 : i = e.to ∧ j = e.frm ∧ e.to ≠ e.frm := ⟨h.1.symm, h.2.symm, by rw [h.1, h.2]; exact hij⟩
      have hz : reducedAt es i j = 0 := by
        apply foldl_reduced_not_mem
        intro e' he' h'
        apply (List.nodup_cons.mp hk).1
        rw [List.mem_map]
        exact ⟨e', he', by simp [keyOf, h.1, h.2, h'.1, h'.2]⟩
      rw [if_pos h, if_pos h1, if_neg h2, hz]; ring
    · have h1 : ¬ (i = e.to ∧ j = e.frm ∧ e.to ≠ e.frm) := fun h' => h ⟨h'.1.symm, h'.2.1.symm⟩
      rw [if_neg h, if_neg h1, if_neg h2]; ring

/-- the diagonal of the full matrix is minus the column sum of the table of rate constants
(total outflow of the compartment: transfers and loss channel) -/
theorem fullAt_diag (n : ℕ) (es : List (Entry F)) (hk : KeysNodup es) (hr : ∀ e ∈ es, e.to < n)
    (j : ℕ) : fullAt es j j = - ∑ r ∈ Finset.range n, reducedAt es r j := by
  induction es with
  | nil => simp [fullAt_nil, reducedAt_nil]
  | cons e es ih =>
    rw [fullAt_cons, ih hk.tail (fun e' he' => hr e' (List.mem_cons_of_mem _ he')), fullStep_zero]
    have hsum : ∑ r ∈ Finset.range n, reducedAt (e :: es) r j
        = (if e.frm = j then e.val else 0) + ∑ r ∈ Finset.range n, reducedAt es r j := by
      by_cases hj : e.frm = j
      · have hz : reducedAt es e.to j = 0 := by
          apply foldl_reduced_not_mem
          intro e' he' h'
          apply (List.nodup_cons.mp hk).1
          rw [List.mem_map]
          exact ⟨e', he', by simp [keyOf, hj, h'.1, h'.2]⟩
        have hto : e.to ∈ Finset.range n := Finset.mem_range.mpr (hr e List.mem_cons_self)
        rw [if_pos hj, ← Finset.add_sum_erase _ _ hto, ← Finset.add_sum_erase (Finset.range n) (fun r => reducedAt es r j) hto,
          reducedAt_cons e es hk, hz]
        simp only [hj, and_self, if_true, zero_add]
        congr 1
        apply Finset.sum_congr rfl
        intro r hr'
        rw [reducedAt_cons e es hk, if_neg]
        intro h
        exact (Finset.ne_of_mem_erase hr') h.1.symm
      · rw [if_neg hj, zero_add]
        apply Finset.sum_congr rfl
        intro r _
        rw [reducedAt_cons e es hk, if_neg (fun h => hj h.2)]
    rw [hsum]
    have h1 : ¬ (j = e.to ∧ j = e.frm ∧ e.to ≠ e.frm) := fun h => h.2.2 (h.1.symm.trans h.2.1)
    by_cases hj : e.frm = j
    · rw [if_neg h1, if_pos ⟨hj.symm, hj.symm⟩, if_pos hj]; ring
    · rw [if_neg h1, if_neg (fun h => hj h.1.symm), if_neg hj]; ring

/-! ### `is_sequential` -/

variable [DecidableEq F]

theorem isE0_listFn (j : List F) (h : isE0 j = true) (i : ℕ) :
    listFn j i = if i = 0 then 1 else 0 := by
  cases j with
  | nil => simp [isE0] at h
  | cons x rest =>
    simp only [isE0, Bool.and_eq_true, decide_eq_true_eq, List.all_eq_true] at h
    cases i with
    | zero => simp [listFn, h.1]
    | succ i =>
      simp only [listFn, List.getD_cons_succ, Nat.add_eq_zero_iff, one_ne_zero, and_false, if_false]
      rw [List.getD_eq_getElem?_getD]
      cases hget : rest[i]? with
      | none => rfl
      | some y => exact h.2 y (List.mem_of_getElem? hget)

/-- a column with exactly one non-zero entry, known to sit in row `r0` -/
theorem col_single (n : ℕ) (red : ℕ → ℕ → F) (c r0 : ℕ) (hr0 : r0 < n)
    (hcount : countNonzeroCol n red c = 1) (hnz : red r0 c ≠ 0) (r : ℕ) (hr : r < n) :
    red r c ≠ 0 ↔ r = r0 := by
  unfold countNonzeroCol at hcount
  obtain ⟨a, ha⟩ := List.length_eq_one_iff.mp hcount
  have hmem : ∀ x, x < n → red x c ≠ 0 → x = a := by
    intro x hx hxn
    have : x ∈ (List.range n).filter (fun r => decide (red r c ≠ 0)) := by
      simp [List.mem_filter, hx, hxn]
    rw [ha] at this
    simpa using this
  constructor
  · intro h
    rw [hmem r hr h, hmem r0 hr0 hnz]
  · intro h
    rw [h]; exact hnz

theorem isSequential_iff (n : ℕ) (red : ℕ → ℕ → F) (j : List F) :
    isSequential n red j = true ↔
      isE0 j = true ∧ ∀ i < n, countNonzeroCol n red i = 1 ∧ red (min (i + 1) (n - 1)) i ≠ 0 := by
  simp [isSequential, List.all_eq_true]

/-- what `is_sequential` accepts is a chain (stated on the full matrix) started in `e₀` -/
theorem isSequential_chain (n : ℕ) (es : List (Entry F)) (j : List F) (hk : KeysNodup es)
    (hr : ∀ e ∈ es, e.to < n) (h : isSequential n (reducedAt es) j = true) :
    (∀ c < n, ∀ m < n, fullAt es c m
        = if m = c then fullAt es c c else if m + 1 = c then - fullAt es m m else 0)
    ∧ (∀ c < n, fullAt es c c ≠ 0)
    ∧ (∀ i, listFn j i = if i = 0 then 1 else 0) := by
  obtain ⟨hj, hcols⟩ := (isSequential_iff n _ j).mp h
  have hsingle : ∀ m < n, ∀ r < n, reducedAt es r m ≠ 0 ↔ r = min (m + 1) (n - 1) := by
    intro m hm r hr'
    exact col_single n _ m _ (by omega) (hcols m hm).1 (hcols m hm).2 r hr'
  have hdiag : ∀ m < n, fullAt es m m = - reducedAt es (min (m + 1) (n - 1)) m := by
    intro m hm
    rw [fullAt_diag n es hk hr m, Finset.sum_eq_single (min (m + 1) (n - 1))]
    · intro b hb hne
      by_contra hcon
      exact hne ((hsingle m hm b (Finset.mem_range.mp hb)).mp hcon)
    · intro hnot
      exact absurd (Finset.mem_range.mpr (by omega)) hnot
  refine ⟨?_, ?_, isE0_listFn j hj⟩
  · intro c hc m hm
    by_cases h1 : m = c
    · rw [if_pos h1, h1]
    · rw [if_neg h1, fullAt_offdiag es hk c m (Ne.symm h1)]
      by_cases h2 : m + 1 = c
      · rw [if_pos h2, hdiag m hm, neg_neg]
        congr 1
        omega
      · rw [if_neg h2]
        by_contra hcon
        have := (hsingle m hm c hc).mp hcon
        omega
  · intro c hc
    rw [hdiag c hc, neg_ne_zero]
    exact (hcols c hc).2

end Glotaran.C04
