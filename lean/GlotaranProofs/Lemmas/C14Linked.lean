/-
C14 — linked groups: the stacked problem of every aligned index is consistent when the generating clps
of the member datasets are dataset scale × one common value per label and aligned point.
-/
import GlotaranProofs.Lemmas.C14Full
import GlotaranProofs.Lemmas.C02Align
namespace Glotaran.C14
open Glotaran.LinAlg Glotaran.C02

/-- a row on its own labels, expanded to the union labels (zeros where the label is foreign) -/
def expandRow (own union : List String) (r : Vec) : Vec :=
  union.map (fun l => match own.idxOf? l with | some j => r.getD j 0 | none => 0)

theorem dot_indicator (U : List String) (a : String) (x : Rat) (φ : String → Rat) (ha : a ∈ U) (hU : U.Nodup) :
    dot (U.map (fun l => if a = l then x else 0)) (U.map φ) = x * φ a := by
  induction U with
  | nil => simp at ha
  | cons u U ih =>
    simp only [List.map_cons, dot_cons]
    have hu : u ∉ U := (List.nodup_cons.mp hU).1
    have hU' : U.Nodup := (List.nodup_cons.mp hU).2
    by_cases hau : a = u
    · subst hau
      have hz : dot (U.map (fun l => if a = l then x else 0)) (U.map φ) = 0 := by
        apply dot_zero_left
        intro y hy
        simp only [List.mem_map] at hy
        obtain ⟨l, hl, rfl⟩ := hy
        have : a ≠ l := fun h => hu (h ▸ hl)
        simp [this]
      rw [hz]; simp
    · have ha' : a ∈ U := by
        rcases List.mem_cons.mp ha with h | h
        · exact absurd h hau
        · exact h
      rw [ih ha' hU']; simp [hau]

theorem dot_map_add (U : List String) (f h φ : String → Rat) :
    dot (U.map (fun l => f l + h l)) (U.map φ) = dot (U.map f) (U.map φ) + dot (U.map h) (U.map φ) := by
  induction U with
  | nil => simp
  | cons u U ih => simp only [List.map_cons, dot_cons, ih]; ring

theorem idxOf?_cons (a l : String) (L : List String) :
    (a :: L).idxOf? l = if a = l then some 0 else (L.idxOf? l).map (· + 1) := by
  by_cases h : a = l
  · subst h; simp [idxOf?_cons_self]
  · rw [idxOf?_cons_ne a l L h]; simp [h]

/-- **an expanded row against coefficients on the union labels = the row against the coefficients of
    its own labels** -/
theorem dot_expandRow (own U : List String) (r : Vec) (φ : String → Rat) (hown : own.Nodup) (hU : U.Nodup)
    (hsub : ∀ l ∈ own, l ∈ U) (hr : r.length = own.length) :
    dot (expandRow own U r) (U.map φ) = dot r (own.map φ) := by
  induction own generalizing r with
  | nil =>
    have : expandRow [] U r = U.map (fun _ => (0 : Rat)) := by
      simp [expandRow, List.idxOf?]
    rw [this]
    simp only [List.map_nil, dot_nil_right]
    apply dot_zero_left
    intro x hx
    simp only [List.mem_map] at hx
    obtain ⟨_, _, rfl⟩ := hx
    rfl
  | cons a own ih =>
    cases r with
    | nil => simp at hr
    | cons x r =>
      have ha : a ∉ own := (List.nodup_cons.mp hown).1
      have hown' : own.Nodup := (List.nodup_cons.mp hown).2
      have hsplit : expandRow (a :: own) U (x :: r) =
          U.map (fun l => (if a = l then x else 0) + (match own.idxOf? l with | some j => r.getD j 0 | none => 0)) := by
        simp only [expandRow]
        apply List.map_congr_left
        intro l _
        rw [idxOf?_cons]
        by_cases hal : a = l
        · subst hal
          have : own.idxOf? a = none := contains_false_idxOf? own a (by simpa using ha)
          simp [this]
        · simp only [hal, if_false]
          cases h : own.idxOf? l with
          | none => simp
          | some j => simp
      rw [hsplit, dot_map_add, dot_indicator U a x φ (hsub a List.mem_cons_self) hU]
      have := ih r hown' (fun l hl => hsub l (List.mem_cons_of_mem _ hl)) (by simpa using hr)
      simp only [expandRow] at this
      rw [this]
      simp [dot_cons]

end Glotaran.C14

namespace Glotaran.C14
open Glotaran.LinAlg Glotaran.C02

/-- the general branch of `alignMatrices` (also for zero blocks) -/
def stackedGeneral (bs : List (LMat2 × Rat)) : LMat2 :=
  ⟨unionLabels (bs.map (·.1.labels)), bs.flatMap (fun b =>
    (mscale b.2 b.1.m).map (fun r => expandRow b.1.labels (unionLabels (bs.map (·.1.labels))) r))⟩

theorem alignMatrices_general (bs : List (LMat2 × Rat)) (h : bs.length ≠ 1) :
    alignMatrices bs = stackedGeneral bs := by
  match bs, h with
  | [], _ => simp [alignMatrices, stackedGeneral, expandRow]
  | [b], h => simp at h
  | b1 :: b2 :: rest, _ => rfl

/-- **the stacked matrix applied to coefficients given per label is, block by block, each dataset's
    scaled matrix applied to the coefficients of its own labels** -/
theorem mulVec_alignMatrices (bs : List (LMat2 × Rat)) (φ : String → Rat)
    (hnd : ∀ b ∈ bs, b.1.labels.Nodup) (hw : ∀ b ∈ bs, ∀ r ∈ b.1.m, r.length = b.1.labels.length) :
    mulVec (alignMatrices bs).m ((alignMatrices bs).labels.map φ) =
      bs.flatMap (fun b => mulVec (mscale b.2 b.1.m) (b.1.labels.map φ)) ∧
    ∀ r ∈ (alignMatrices bs).m, r.length = (alignMatrices bs).labels.length := by
  by_cases h1 : bs.length = 1
  · match bs, h1 with
    | [b], _ =>
      simp only [alignMatrices, List.flatMap_cons, List.flatMap_nil, List.append_nil, true_and]
      exact rows_mscale_width b.2 b.1.m _ (hw b List.mem_cons_self)
  · rw [alignMatrices_general bs h1]
    have hU : (unionLabels (bs.map (·.1.labels))).Nodup := by
      apply unionLabels_nodup_lem
      intro l hl
      obtain ⟨b, hb, rfl⟩ := List.mem_map.1 hl
      exact hnd b hb
    constructor
    · simp only [stackedGeneral, mulVec, List.map_flatMap, List.map_map]
      apply List.flatMap_congr
      intro b hb
      apply List.map_congr_left
      intro r hr
      simp only [Function.comp]
      apply dot_expandRow _ _ _ _ (hnd b hb) hU
      · intro l hl
        exact (unionLabels_mem _ l).2 ⟨b.1.labels, List.mem_map.2 ⟨b, hb, rfl⟩, hl⟩
      · exact rows_mscale_width b.2 b.1.m _ (hw b hb) r hr
    · intro r hr
      simp only [stackedGeneral, List.mem_flatMap, List.mem_map] at hr
      obtain ⟨b, _, r0, _, rfl⟩ := hr
      simp [stackedGeneral, expandRow]

end Glotaran.C14

namespace Glotaran.C14
open Glotaran.LinAlg Glotaran.C02

theorem idxOf?_some_getElem (l : List Rat) (v : Rat) (i : Nat) (h : l.idxOf? v = some i) :
    ∃ hi : i < l.length, l[i] = v := by
  unfold List.idxOf? at h
  rw [List.findIdx?_eq_some_iff_getElem] at h
  obtain ⟨hi, hp, _⟩ := h
  exact ⟨hi, by simpa using hp⟩

theorem mapM_map_some {α β γ} (f : α → β) (g : β → Option γ) (h : α → γ) (l : List α)
    (hh : ∀ x ∈ l, g (f x) = some (h x)) : (l.map f).mapM g = some (l.map h) := by
  induction l with
  | nil => simp
  | cons a l ih =>
    simp only [List.map_cons, List.mapM_cons]
    rw [hh a List.mem_cons_self, ih (fun x hx => hh x (List.mem_cons_of_mem _ hx))]
    rfl

/-- one member of a linked group: a simulated clp-driven dataset -/
structure LinkedMember where
  sd : SimDataset
  lm : LMat
  ls : List String
  rows : List Vec
  data : Mat

def LinkedMember.dataset (m : LinkedMember) : Dataset := m.sd.toDataset m.data

/-- a linked group of noise-free simulated, unweighted datasets whose generating clps are, per label
    and aligned global point, `dataset scale × one common value F` -/
structure LinkedAtTruth (g : Group) (ms : List LinkedMember) (aligned : List (List Rat))
    (F : Rat → String → Rat) : Prop where
  linked : g.linked = true
  datasets : g.datasets = ms.map (·.dataset)
  ok : ∀ m ∈ ms, SimOK m.sd m.lm m.ls m.rows
  sim : ∀ m ∈ ms, noiseless m.sd.inp = .ok m.data
  noWeight : ∀ m ∈ ms, m.sd.weight = none
  nodup : ∀ m ∈ ms, m.lm.labels.Nodup
  sliceLabels : ∀ m ∈ ms, ∀ i, i < m.sd.inp.nGlobal →
    ((slices m.lm m.sd.inp.nGlobal).getD i default).labels = m.lm.labels
  alignment : alignAxes (g.datasets.map (·.globalAxis)) g.tol g.method = some aligned
  alignedRow : ∀ k (hk : k < ms.length) (hk' : k < aligned.length), aligned[k].length = ms[k].sd.inp.nGlobal
  common : ∀ k (hk : k < ms.length) (hk' : k < aligned.length) i (hi : i < aligned[k].length),
    ∀ l ∈ ms[k].lm.labels,
      lookup ms[k].ls (ms[k].rows.getD i []) l = ms[k].sd.scale.getD 1 * F (aligned[k][i]) l

/-- one member's data column is its scaled matrix applied to the common values of its labels -/
theorem member_column (m : LinkedMember) (hok : SimOK m.sd m.lm m.ls m.rows)
    (hsim : noiseless m.sd.inp = .ok m.data) (hw : m.sd.weight = none) (i : Nat) (hi : i < m.sd.inp.nGlobal)
    (φ : String → Rat)
    (hφ : ∀ l ∈ m.lm.labels, lookup m.ls (m.rows.getD i []) l = m.sd.scale.getD 1 * φ l) :
    col m.dataset.weightedData i =
      mulVec (mscale (m.sd.scale.getD 1) (sliceM m.lm m.sd.inp.nGlobal i)) (m.lm.labels.map φ) := by
  have h := data_column m.sd m.lm m.ls m.rows hok m.data hsim i hi
  unfold LinkedMember.dataset
  rw [h]
  unfold prepared truthAt
  rw [hw]
  simp only
  congr 1
  simp only [sel, selectByLabel, vscale, List.map_map]
  apply List.map_congr_left
  intro l hl
  simp only [Function.comp]
  rw [hφ l hl]
  field_simp [hok.scale]

theorem linkedProblems_consistent (g : Group) (ms : List LinkedMember) (aligned : List (List Rat))
    (F : Rat → String → Rat) (H : LinkedAtTruth g ms aligned F) (axis : List Rat) (ps : List IndexProblem)
    (h : linkedProblems {} g = some (axis, ps)) :
    ∀ p ∈ ps, ∃ v, (∀ r ∈ p.reduced.m, r.length = p.fullLabels.length) ∧
      p.data = mulVec p.reduced.m (p.fullLabels.map (F v)) := by
  unfold linkedProblems at h
  rw [H.alignment] at h
  have hdms : g.datasets.mapM (fun d => (datasetMatrix d.mcs).map (fun lm => (d, lm))) =
      some (ms.map (fun m => (m.dataset, m.lm))) := by
    rw [H.datasets]
    apply mapM_map_some
    intro m hm
    have : datasetMatrix m.dataset.mcs = some m.lm := (H.ok m hm).matrix
    simp [this]
  have hany : g.datasets.any (fun d => d.weight.isSome) = false := by
    rw [H.datasets]
    simp only [List.any_map, List.any_eq_false]
    intro m hm
    have : m.dataset.weight = none := H.noWeight m hm
    simp [this]
  simp only [hdms, hany, Bool.false_and, Bool.false_eq_true, if_false, Option.some.injEq, Prod.mk.injEq] at h
  obtain ⟨_, hps⟩ := h
  subst hps
  intro p hp
  simp only [List.mem_map] at hp
  obtain ⟨v, _, rfl⟩ := hp
  refine ⟨v, ?_⟩
  simp only [reduceAt_empty]
  -- the members at `v`
  generalize hmem : ((ms.map (fun m => (m.dataset, m.lm))).zip aligned).filterMap
    (fun da => (da.2.idxOf? v).map (fun i => (da.1, i))) = mem
  have hgood : ∀ e ∈ mem, ∃ m ∈ ms, e.1 = (m.dataset, m.lm) ∧ e.2 < m.sd.inp.nGlobal ∧
      ∀ l ∈ m.lm.labels, lookup m.ls (m.rows.getD e.2 []) l = m.sd.scale.getD 1 * F v l := by
    intro e he
    rw [← hmem, List.mem_filterMap] at he
    obtain ⟨da, hda, hf⟩ := he
    obtain ⟨k, hk, rfl⟩ := List.getElem_of_mem hda
    have hk1 : k < ms.length := by
      have := hk; simp only [List.length_zip, List.length_map] at this; omega
    have hk2 : k < aligned.length := by
      have := hk; simp only [List.length_zip, List.length_map] at this; omega
    simp only [List.getElem_zip, List.getElem_map] at hf
    cases hidx : aligned[k].idxOf? v with
    | none => simp [hidx] at hf
    | some i =>
      simp only [hidx, Option.map_some, Option.some.injEq] at hf
      subst hf
      obtain ⟨hi, hv⟩ := idxOf?_some_getElem _ _ _ hidx
      refine ⟨ms[k], List.getElem_mem hk1, rfl, ?_, ?_⟩
      · simpa [H.alignedRow k hk1 hk2] using hi
      · intro l hl
        have := H.common k hk1 hk2 i hi l hl
        rw [hv] at this
        exact this
  -- blocks
  have hblk : ∀ (e : (Dataset × LMat) × Nat) (m : LinkedMember), m ∈ ms → e.1 = (m.dataset, m.lm) →
      e.2 < m.sd.inp.nGlobal →
      ((slices e.1.2 e.1.1.nGlobal).getD e.2 default, e.1.1.scale.getD 1) =
        ((⟨m.lm.labels, sliceM m.lm m.sd.inp.nGlobal e.2⟩ : LMat2), m.sd.scale.getD 1) := by
    intro e m hm he1 hi
    have hng : m.dataset.nGlobal = m.sd.inp.nGlobal := by
      simp [LinkedMember.dataset, Dataset.nGlobal, SimDataset.toDataset, (H.ok m hm).axis]
    rw [he1]
    simp only [hng]
    have hl := H.sliceLabels m hm e.2 hi
    have : (slices m.lm m.sd.inp.nGlobal).getD e.2 default = ⟨m.lm.labels, sliceM m.lm m.sd.inp.nGlobal e.2⟩ := by
      rw [← hl]; rfl
    rw [this]
    rfl
  have hblock : ∀ e ∈ mem, ∃ m ∈ ms, e.2 < m.sd.inp.nGlobal ∧
      ((slices e.1.2 e.1.1.nGlobal).getD e.2 default, e.1.1.scale.getD 1) =
        ((⟨m.lm.labels, sliceM m.lm m.sd.inp.nGlobal e.2⟩ : LMat2), m.sd.scale.getD 1) := by
    intro e he
    obtain ⟨m, hm, he1, hi, _⟩ := hgood e he
    exact ⟨m, hm, hi, hblk e m hm he1 hi⟩
  have hnd : ∀ b ∈ mem.map (fun e => ((slices e.1.2 e.1.1.nGlobal).getD e.2 default, e.1.1.scale.getD 1)),
      b.1.labels.Nodup := by
    intro b hb
    obtain ⟨e, he, rfl⟩ := List.mem_map.1 hb
    obtain ⟨m, hm, _, hb'⟩ := hblock e he
    rw [hb']; exact H.nodup m hm
  have hwd : ∀ b ∈ mem.map (fun e => ((slices e.1.2 e.1.1.nGlobal).getD e.2 default, e.1.1.scale.getD 1)),
      ∀ r ∈ b.1.m, r.length = b.1.labels.length := by
    intro b hb
    obtain ⟨e, he, rfl⟩ := List.mem_map.1 hb
    obtain ⟨m, hm, hi, hb'⟩ := hblock e he
    rw [hb']; exact (H.ok m hm).width e.2 hi
  obtain ⟨hmul, hwidth⟩ := mulVec_alignMatrices _ (F v) hnd hwd
  refine ⟨hwidth, ?_⟩
  rw [hmul, List.flatMap_map]
  apply List.flatMap_congr
  intro e he
  obtain ⟨m, hm, he1, hi, hφ⟩ := hgood e he
  rw [hblk e m hm he1 hi]
  simp only
  rw [he1]
  exact member_column m (H.ok m hm) (H.sim m hm) (H.noWeight m hm) e.2 hi (F v) hφ

end Glotaran.C14

namespace Glotaran.C14
open Glotaran.LinAlg Glotaran.C02

/-- **a linked group of simulated datasets has a zero residual part and no clp penalties** -/
theorem linkedGroup_sim (g : Group) (ms : List LinkedMember) (aligned : List (List Rat))
    (F : Rat → String → Rat) (H : LinkedAtTruth g ms aligned F)
    (hnn : g.solver = .nnls → ∀ v l, 0 ≤ F v l) (res pens : Vec)
    (h : linkedGroup {} g = some (res, pens)) : (∀ x ∈ res, x = 0) ∧ pens = [] := by
  unfold linkedGroup at h
  cases hlp : linkedProblems {} g with
  | none => simp [hlp] at h
  | some ap =>
    obtain ⟨axis, ps⟩ := ap
    have hcons := linkedProblems_consistent g ms aligned F H axis ps hlp
    simp only [hlp] at h
    cases hs : ps.mapM (fun p => (solveLS g.solver p.reduced.m p.data).map (fun cr => (p, cr))) with
    | none => simp [hs] at h
    | some sols =>
      simp only [hs, Option.some.injEq, Prod.mk.injEq] at h
      obtain ⟨hres, hpens⟩ := h
      refine ⟨?_, by rw [← hpens]; simp [clpPenalties]⟩
      intro x hx
      rw [← hres] at hx
      simp only [List.mem_flatMap] at hx
      obtain ⟨pc, hpc, hxr⟩ := hx
      obtain ⟨p, hp, hfp⟩ := mapM_some_mem _ ps sols hs pc hpc
      obtain ⟨v, hw, hd⟩ := hcons p hp
      cases hsol : solveLS g.solver p.reduced.m p.data with
      | none => simp [hsol] at hfp
      | some cr =>
        simp only [hsol, Option.map_some, Option.some.injEq] at hfp
        subst hfp
        rw [hd] at hsol
        have := (consistent_problem g.solver p.reduced.m p.fullLabels.length hw (p.fullLabels.map (F v))
          (by simp) (fun hs' => by
            intro y hy
            simp only [List.mem_map] at hy
            obtain ⟨l, _, rfl⟩ := hy
            exact hnn hs' v l) cr.1 cr.2 hsol).1
        exact this x hxr

end Glotaran.C14
