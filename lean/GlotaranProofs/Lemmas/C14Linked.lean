/-
C14 — linked groups: the stacked problem of every aligned index is consistent when the generating clps
of the member datasets are dataset scale × one common value per label and aligned point.
-/
import GlotaranProofs.Lemmas.C14Full
import GlotaranProofs.Lemmas.C02Align
import GlotaranProofs.Lemmas.C14Align
namespace Glotaran.C14
open Glotaran.LinAlg Glotaran.C02

/-- a row on its own labels, expanded to the union labels (zeros where the label is foreign) -/
def expandRow (own union : List String) (r : Vec) : Vec :=
  union.map (fun l => match own.idxOf? l with | some j => r.getD j 0 | none => 0)

theorem dot_indicator (U : List String) (a : String) (x : Rat) (φ : String → Rat) (ha : a ∈ U) (hU : U.Nodup) :
    dot (U.map (fun l => if a = l then x else 0)) (U.map φ) = x * φ a := by
  induction U with
  | nil => simp at ha
  | cons u U ih =>
    simp only [List.map_cons, dot_cons]
    have hu : u ∉ U := (List.nodup_cons.mp hU).1
    have hU' : U.Nodup := (List.nodup_cons.mp hU).2
    by_cases hau : a = u
    · subst hau
      have hz : dot (U.map (fun l => if a = l then x else 0)) (U.map φ) = 0 := by
        apply dot_zero_left
        intro y hy
        simp only [List.mem_map] at hy
        obtain ⟨l, hl, rfl⟩ := hy
        have : a ≠ l := fun h => hu (h ▸ hl)
        simp [this]
      rw [hz]; simp
    · have ha' : a ∈ U := by
        rcases List.mem_cons.mp ha with h | h
        · exact absurd h hau
        · exact h
      rw [ih ha' hU']; simp [hau]

theorem dot_map_add (U : List String) (f h φ : String → Rat) :
    dot (U.map (fun l => f l + h l)) (U.map φ) = dot (U.map f) (U.map φ) + dot (U.map h) (U.map φ) := by
  induction U with
  | nil => simp
  | cons u U ih => simp only [List.map_cons, dot_cons, ih]; ring

theorem idxOf?_cons (a l : String) (L : List String) :
    (a :: L).idxOf? l = if a = l then some 0 else (L.idxOf? l).map (· + 1) := by
  by_cases h : a = l
  · subst h; simp [idxOf?_cons_self]
  · rw [idxOf?_cons_ne a l L h]; simp [h]

/-- **an expanded row against coefficients on the union labels = the row against the coefficients of
    its own labels** -/
theorem dot_expandRow (own U : List String) (r : Vec) (φ : String → Rat) (hown : own.Nodup) (hU : U.Nodup)
    (hsub : ∀ l ∈ own, l ∈ U) (hr : r.length = own.length) :
    dot (expandRow own U r) (U.map φ) = dot r (own.map φ) := by
  induction own generalizing r with
  | nil =>
    have : expandRow [] U r = U.map (fun _ => (0 : Rat)) := by
      simp [expandRow, List.idxOf?]
    rw [this]
    simp only [List.map_nil, dot_nil_right]
    apply dot_zero_left
    intro x hx
    simp only [List.mem_map] at hx
    obtain ⟨_, _, rfl⟩ := hx
    rfl
  | cons a own ih =>
    cases r with
    | nil => simp at hr
    | cons x r =>
      have ha : a ∉ own := (List.nodup_cons.mp hown).1
      have hown' : own.Nodup := (List.nodup_cons.mp hown).2
      have hsplit : expandRow (a :: own) U (x :: r) =
          U.map (fun l => (if a = l then x else 0) + (match own.idxOf? l with | some j => r.getD j 0 | none => 0)) := by
        simp only [expandRow]
        apply List.map_congr_left
        intro l _
        rw [idxOf?_cons]
        by_cases hal : a = l
        · subst hal
          have : own.idxOf? a = none := contains_false_idxOf? own a (by simpa using ha)
          simp [this]
        · simp only [hal, if_false]
          cases h : own.idxOf? l with
          | none => simp
          | some j => simp
      rw [hsplit, dot_map_add, dot_indicator U a x φ (hsub a List.mem_cons_self) hU]
      have := ih r hown' (fun l hl => hsub l (List.mem_cons_of_mem _ hl)) (by simpa using hr)
      simp only [expandRow] at this
      rw [this]
      simp [dot_cons]

end Glotaran.C14

namespace Glotaran.C14
open Glotaran.LinAlg Glotaran.C02

/-- the general branch of `alignMatrices` (also for zero blocks) -/
def stackedGeneral (bs : List (LMat2 × Rat)) : LMat2 :=
  ⟨unionLabels (bs.map (·.1.labels)), bs.flatMap (fun b =>
    (mscale b.2 b.1.m).map (fun r => expandRow b.1.labels (unionLabels (bs.map (·.1.labels))) r))⟩

theorem alignMatrices_general (bs : List (LMat2 × Rat)) (h : bs.length ≠ 1) :
    alignMatrices bs = stackedGeneral bs := by
  match bs, h with
  | [], _ => simp [alignMatrices, stackedGeneral, expandRow]
  | [b], h => simp at h
  | b1 :: b2 :: rest, _ => rfl

/-- **the stacked matrix applied to coefficients given per label is, block by block, each dataset's
    scaled matrix applied to the coefficients of its own labels** -/
theorem mulVec_alignMatrices (bs : List (LMat2 × Rat)) (φ : String → Rat)
    (hnd : ∀ b ∈ bs, b.1.labels.Nodup) (hw : ∀ b ∈ bs, ∀ r ∈ b.1.m, r.length = b.1.labels.length) :
    mulVec (alignMatrices bs).m ((alignMatrices bs).labels.map φ) =
      bs.flatMap (fun b => mulVec (mscale b.2 b.1.m) (b.1.labels.map φ)) ∧
    ∀ r ∈ (alignMatrices bs).m, r.length = (alignMatrices bs).labels.length := by
  by_cases h1 : bs.length = 1
  · match bs, h1 with
    | [b], _ =>
      simp only [alignMatrices, List.flatMap_cons, List.flatMap_nil, List.append_nil, true_and]
      exact rows_mscale_width b.2 b.1.m _ (hw b List.mem_cons_self)
  · rw [alignMatrices_general bs h1]
    have hU : (unionLabels (bs.map (·.1.labels))).Nodup := by
      apply unionLabels_nodup_lem
      intro l hl
      obtain ⟨b, hb, rfl⟩ := List.mem_map.1 hl
      exact hnd b hb
    constructor
    · simp only [stackedGeneral, mulVec, List.map_flatMap, List.map_map]
      apply List.flatMap_congr
      intro b hb
      apply List.map_congr_left
      intro r hr
      simp only [Function.comp]
      apply dot_expandRow _ _ _ _ (hnd b hb) hU
      · intro l hl
        exact (unionLabels_mem _ l).2 ⟨b.1.labels, List.mem_map.2 ⟨b, hb, rfl⟩, hl⟩
      · exact rows_mscale_width b.2 b.1.m _ (hw b hb) r hr
    · intro r hr
      simp only [stackedGeneral, List.mem_flatMap, List.mem_map] at hr
      obtain ⟨b, _, r0, _, rfl⟩ := hr
      simp [stackedGeneral, expandRow]

end Glotaran.C14

namespace Glotaran.C14
open Glotaran.LinAlg Glotaran.C02

theorem idxOf?_some_getElem (l : List Rat) (v : Rat) (i : Nat) (h : l.idxOf? v = some i) :
    ∃ hi : i < l.length, l[i] = v := by
  unfold List.idxOf? at h
  rw [List.findIdx?_eq_some_iff_getElem] at h
  obtain ⟨hi, hp, _⟩ := h
  exact ⟨hi, by simpa using hp⟩

theorem mapM_map_some {α β γ} (f : α → β) (g : β → Option γ) (h : α → γ) (l : List α)
    (hh : ∀ x ∈ l, g (f x) = some (h x)) : (l.map f).mapM g = some (l.map h) := by
  induction l with
  | nil => simp
  | cons a l ih =>
    simp only [List.map_cons, List.mapM_cons]
    rw [hh a List.mem_cons_self, ih (fun x hx => hh x (List.mem_cons_of_mem _ hx))]
    rfl

/-- one member of a linked group: a simulated clp-driven dataset -/
structure LinkedMember where
  sd : SimDataset
  lm : LMat
  ls : List String
  rows : List Vec
  data : Mat

def LinkedMember.dataset (m : LinkedMember) : Dataset := m.sd.toDataset m.data

/-- a linked group of noise-free simulated datasets (weighted or not) whose generating clps are, per
    label and aligned global point, `dataset scale × one common value F`.  `aligned` is what
    `alignAxes` returns for the members' global axes (its shape is proved, not assumed:
    `LinkedAtTruth.alignedLen/alignedRow`). -/
structure LinkedAtTruth (g : Group) (ms : List LinkedMember) (aligned : List (List Rat))
    (F : Rat → String → Rat) : Prop where
  linked : g.linked = true
  datasets : g.datasets = ms.map (·.dataset)
  ok : ∀ m ∈ ms, SimOK m.sd m.lm m.ls m.rows
  sim : ∀ m ∈ ms, noiseless m.sd.inp = .ok m.data
  /-- every member has at least one point on its model axis -/
  nonempty : ∀ m ∈ ms, m.sd.inp.nModel ≠ 0
  /-- a weight has one row per model-axis point -/
  weightShape : ∀ m ∈ ms, ∀ w, m.sd.weight = some w → w.length = m.sd.inp.nModel
  nodup : ∀ m ∈ ms, m.lm.labels.Nodup
  alignment : alignAxes (g.datasets.map (·.globalAxis)) g.tol g.method = some aligned
  common : ∀ k (hk : k < ms.length) (hk' : k < aligned.length) i (hi : i < aligned[k].length),
    ∀ l ∈ ms[k].lm.labels,
      lookup ms[k].ls (ms[k].rows.getD i []) l = ms[k].sd.scale.getD 1 * F (aligned[k][i]) l

theorem LinkedAtTruth.alignedLen {g ms aligned F} (H : LinkedAtTruth g ms aligned F) :
    aligned.length = ms.length := by
  have := (alignAxes_shape _ _ _ _ H.alignment).1
  simpa [H.datasets] using this

/-- **the aligned axis of member `k` has one entry per global point of the member** (from the C02
    model of `create_aligned_global_axes`) -/
theorem LinkedAtTruth.alignedRow {g ms aligned F} (H : LinkedAtTruth g ms aligned F)
    (k : Nat) (hk : k < ms.length) (hk' : k < aligned.length) :
    aligned[k].length = ms[k].sd.inp.nGlobal := by
  have h2 : k < (g.datasets.map (·.globalAxis)).length := by simpa [H.datasets] using hk
  have := (alignAxes_shape _ _ _ _ H.alignment).2 k hk' h2
  rw [this]
  simp only [H.datasets, List.getElem_map, LinkedMember.dataset, SimDataset.toDataset]
  exact ((H.ok ms[k] (List.getElem_mem hk)).axis).symm

/-- a slice that is not the empty default carries the labels of the dataset matrix -/
theorem slice_labels (lm : LMat) (n i : Nat) (h : (sliceM lm n i).length ≠ 0) :
    ((slices lm n).getD i default).labels = lm.labels := by
  unfold sliceM slices at h
  unfold slices
  cases hb : lm.body with
  | d2 m =>
    simp only [hb] at h ⊢
    by_cases hi : i < n
    · simp [List.getD_eq_getElem?_getD, List.getElem?_replicate_of_lt hi]
    · exfalso
      apply h
      have : ∀ x : LMat2, (List.replicate n x)[i]? = none := by
        intro x; simp; omega
      simp [List.getD_eq_getElem?_getD, this]
      rfl
  | d3 ms =>
    simp only [hb] at h ⊢
    by_cases hi : i < ms.length
    · simp [List.getD_eq_getElem?_getD, hi]
    · exfalso
      apply h
      have h1 : ms[i]? = none := by simp; omega
      simp [List.getD_eq_getElem?_getD, h1]
      rfl

theorem member_data_length (m : LinkedMember) (hok : SimOK m.sd m.lm m.ls m.rows)
    (hsim : noiseless m.sd.inp = .ok m.data) : m.data.length = m.sd.inp.nModel := by
  rw [noiseless_ok m.sd m.lm m.ls m.rows hok m.data hsim]
  exact C03.ofColumns_length _ _

/-- column `i` of the (unweighted) simulated data -/
theorem data_col_raw (sd : SimDataset) (lm : LMat) (ls : List String) (rows : List Vec)
    (ok : SimOK sd lm ls rows) (data : Mat) (hsim : noiseless sd.inp = .ok data) (i : Nat)
    (hi : i < sd.inp.nGlobal) : col data i = mulVec (sliceM lm sd.inp.nGlobal i) (sel lm ls rows i) := by
  rw [noiseless_ok sd lm ls rows ok data hsim]
  have hlen : i < (simCols lm sd.inp.nGlobal ls rows).length := by simpa [simCols] using hi
  rw [col_ofColumns _ _ i hlen (by rw [simCols_getElem _ _ _ _ _ hi, mulVec_length]; exact ok.nrows i hi)]
  exact simCols_getElem _ _ _ _ _ hi

/-- one member's unweighted data column is its scaled matrix applied to the common values of its labels -/
theorem member_column_raw (m : LinkedMember) (hok : SimOK m.sd m.lm m.ls m.rows)
    (hsim : noiseless m.sd.inp = .ok m.data) (i : Nat) (hi : i < m.sd.inp.nGlobal)
    (φ : String → Rat)
    (hφ : ∀ l ∈ m.lm.labels, lookup m.ls (m.rows.getD i []) l = m.sd.scale.getD 1 * φ l) :
    col m.data i =
      mulVec (mscale (m.sd.scale.getD 1) (sliceM m.lm m.sd.inp.nGlobal i)) (m.lm.labels.map φ) := by
  rw [data_col_raw m.sd m.lm m.ls m.rows hok m.data hsim i hi,
    ← mulVec_mscale_inv (m.sd.scale.getD 1) hok.scale]
  congr 1
  simp only [sel, selectByLabel, vscale, List.map_map]
  apply List.map_congr_left
  intro l hl
  simp only [Function.comp]
  rw [hφ l hl]
  field_simp [hok.scale]

theorem zipWith_mul_ones (v : Vec) (n : Nat) (h : v.length ≤ n) :
    List.zipWith (· * ·) v (List.replicate n 1) = v := by
  induction v generalizing n with
  | nil => simp
  | cons x v ih =>
    cases n with
    | zero => simp at h
    | succ n =>
      simp only [List.replicate_succ, List.zipWith_cons_cons, mul_one]
      rw [ih n (by simpa using h)]

/-- the weight column the linked provider stacks for a member: its own weight, or ones -/
def memberWeight (d : Dataset) (i : Nat) : Vec :=
  match d.weight with
  | some w => col w i
  | none => List.replicate d.nModel 1

/-- **one member's weighted data column is its scaled matrix applied to the common values, times the
    stacked weight column** (ones for an unweighted member) -/
theorem member_column (m : LinkedMember) (hok : SimOK m.sd m.lm m.ls m.rows)
    (hsim : noiseless m.sd.inp = .ok m.data)
    (hws : ∀ w, m.sd.weight = some w → w.length = m.sd.inp.nModel) (i : Nat) (hi : i < m.sd.inp.nGlobal)
    (φ : String → Rat)
    (hφ : ∀ l ∈ m.lm.labels, lookup m.ls (m.rows.getD i []) l = m.sd.scale.getD 1 * φ l) :
    col m.dataset.weightedData i = List.zipWith (· * ·)
      (mulVec (mscale (m.sd.scale.getD 1) (sliceM m.lm m.sd.inp.nGlobal i)) (m.lm.labels.map φ))
      (memberWeight m.dataset i) ∧
    (mulVec (mscale (m.sd.scale.getD 1) (sliceM m.lm m.sd.inp.nGlobal i)) (m.lm.labels.map φ)).length =
      (memberWeight m.dataset i).length := by
  have hraw := member_column_raw m hok hsim i hi φ hφ
  have hlen : (mulVec (mscale (m.sd.scale.getD 1) (sliceM m.lm m.sd.inp.nGlobal i)) (m.lm.labels.map φ)).length =
      m.sd.inp.nModel := by
    rw [mulVec_length, Length.rows_mscale]; exact hok.nrows i hi
  have hdl := member_data_length m hok hsim
  have hwd : m.dataset.weight = m.sd.weight := rfl
  have hdd : m.dataset.data = m.data := rfl
  unfold Dataset.weightedData memberWeight
  rw [hwd, hdd]
  cases hw : m.sd.weight with
  | none =>
    simp only
    have hn : m.dataset.nModel = m.sd.inp.nModel := by simp [Dataset.nModel, hdd, hdl]
    rw [hn]
    refine ⟨?_, by simp [hlen]⟩
    rw [zipWith_mul_ones _ _ (by rw [hlen]), hraw]
  | some w =>
    simp only
    refine ⟨by rw [col_hadamard, hraw], ?_⟩
    rw [hlen, Length.len_col, hws w hw]

theorem linkedProblems_consistent (g : Group) (ms : List LinkedMember) (aligned : List (List Rat))
    (F : Rat → String → Rat) (H : LinkedAtTruth g ms aligned F) (axis : List Rat) (ps : List IndexProblem)
    (h : linkedProblems {} g = some (axis, ps)) :
    ∀ p ∈ ps, (∀ r ∈ p.reduced.m, r.length = p.fullLabels.length) ∧
      p.data = mulVec p.reduced.m (p.fullLabels.map (F p.x)) := by
  unfold linkedProblems at h
  rw [H.alignment] at h
  have hdms : g.datasets.mapM (fun d => (datasetMatrix d.mcs).map (fun lm => (d, lm))) =
      some (ms.map (fun m => (m.dataset, m.lm))) := by
    rw [H.datasets]
    apply mapM_map_some
    intro m hm
    have : datasetMatrix m.dataset.mcs = some m.lm := (H.ok m hm).matrix
    simp [this]
  simp only [hdms, Option.some.injEq, Prod.mk.injEq] at h
  obtain ⟨_, hps⟩ := h
  subst hps
  intro p hp
  simp only [List.mem_map] at hp
  obtain ⟨v, _, rfl⟩ := hp
  simp only [reduceAt_empty]
  -- the members at `v`
  generalize hmem : ((ms.map (fun m => (m.dataset, m.lm))).zip aligned).filterMap
    (fun da => (da.2.idxOf? v).map (fun i => (da.1, i))) = mem
  have hgood : ∀ e ∈ mem, ∃ m ∈ ms, e.1 = (m.dataset, m.lm) ∧ e.2 < m.sd.inp.nGlobal ∧
      ∀ l ∈ m.lm.labels, lookup m.ls (m.rows.getD e.2 []) l = m.sd.scale.getD 1 * F v l := by
    intro e he
    rw [← hmem, List.mem_filterMap] at he
    obtain ⟨da, hda, hf⟩ := he
    obtain ⟨k, hk, rfl⟩ := List.getElem_of_mem hda
    have hk1 : k < ms.length := by
      have := hk; simp only [List.length_zip, List.length_map] at this; omega
    have hk2 : k < aligned.length := by
      have := hk; simp only [List.length_zip, List.length_map] at this; omega
    simp only [List.getElem_zip, List.getElem_map] at hf
    cases hidx : aligned[k].idxOf? v with
    | none => simp [hidx] at hf
    | some i =>
      simp only [hidx, Option.map_some, Option.some.injEq] at hf
      subst hf
      obtain ⟨hi, hv⟩ := idxOf?_some_getElem _ _ _ hidx
      refine ⟨ms[k], List.getElem_mem hk1, rfl, ?_, ?_⟩
      · simpa [H.alignedRow k hk1 hk2] using hi
      · intro l hl
        have := H.common k hk1 hk2 i hi l hl
        rw [hv] at this
        exact this
  -- blocks
  have hblk : ∀ (e : (Dataset × LMat) × Nat) (m : LinkedMember), m ∈ ms → e.1 = (m.dataset, m.lm) →
      e.2 < m.sd.inp.nGlobal →
      ((slices e.1.2 e.1.1.nGlobal).getD e.2 default, e.1.1.scale.getD 1) =
        ((⟨m.lm.labels, sliceM m.lm m.sd.inp.nGlobal e.2⟩ : LMat2), m.sd.scale.getD 1) := by
    intro e m hm he1 hi
    have hng : m.dataset.nGlobal = m.sd.inp.nGlobal := by
      simp [LinkedMember.dataset, Dataset.nGlobal, SimDataset.toDataset, (H.ok m hm).axis]
    rw [he1]
    simp only [hng]
    have hl := slice_labels m.lm m.sd.inp.nGlobal e.2 (by rw [(H.ok m hm).nrows e.2 hi]; exact H.nonempty m hm)
    have : (slices m.lm m.sd.inp.nGlobal).getD e.2 default = ⟨m.lm.labels, sliceM m.lm m.sd.inp.nGlobal e.2⟩ := by
      rw [← hl]; rfl
    rw [this]
    rfl
  have hblock : ∀ e ∈ mem, ∃ m ∈ ms, e.2 < m.sd.inp.nGlobal ∧
      ((slices e.1.2 e.1.1.nGlobal).getD e.2 default, e.1.1.scale.getD 1) =
        ((⟨m.lm.labels, sliceM m.lm m.sd.inp.nGlobal e.2⟩ : LMat2), m.sd.scale.getD 1) := by
    intro e he
    obtain ⟨m, hm, he1, hi, _⟩ := hgood e he
    exact ⟨m, hm, hi, hblk e m hm he1 hi⟩
  have hnd : ∀ b ∈ mem.map (fun e => ((slices e.1.2 e.1.1.nGlobal).getD e.2 default, e.1.1.scale.getD 1)),
      b.1.labels.Nodup := by
    intro b hb
    obtain ⟨e, he, rfl⟩ := List.mem_map.1 hb
    obtain ⟨m, hm, _, hb'⟩ := hblock e he
    rw [hb']; exact H.nodup m hm
  have hwd : ∀ b ∈ mem.map (fun e => ((slices e.1.2 e.1.1.nGlobal).getD e.2 default, e.1.1.scale.getD 1)),
      ∀ r ∈ b.1.m, r.length = b.1.labels.length := by
    intro b hb
    obtain ⟨e, he, rfl⟩ := List.mem_map.1 hb
    obtain ⟨m, hm, hi, hb'⟩ := hblock e he
    rw [hb']; exact (H.ok m hm).width e.2 hi
  obtain ⟨hmul, hwidth⟩ := mulVec_alignMatrices _ (F v) hnd hwd
  -- every member's column, with its stacked weight column
  have hcol : ∀ e ∈ mem, col e.1.1.weightedData e.2 = List.zipWith (· * ·)
      (mulVec (mscale (e.1.1.scale.getD 1) ((slices e.1.2 e.1.1.nGlobal).getD e.2 default).m)
        (((slices e.1.2 e.1.1.nGlobal).getD e.2 default).labels.map (F v)))
      (memberWeight e.1.1 e.2) ∧
      (mulVec (mscale (e.1.1.scale.getD 1) ((slices e.1.2 e.1.1.nGlobal).getD e.2 default).m)
        (((slices e.1.2 e.1.1.nGlobal).getD e.2 default).labels.map (F v))).length =
        (memberWeight e.1.1 e.2).length := by
    intro e he
    obtain ⟨m, hm, he1, hi, hφ⟩ := hgood e he
    have hb := hblk e m hm he1 hi
    have hb1 := congrArg Prod.fst hb
    have hb2 := congrArg Prod.snd hb
    simp only at hb1 hb2
    rw [hb1, hb2, he1]
    exact member_column m (H.ok m hm) (H.sim m hm) (H.weightShape m hm) e.2 hi (F v) hφ
  have hdata : mem.flatMap (fun di => col di.1.1.weightedData di.2) = List.zipWith (· * ·)
      (mulVec (alignMatrices (mem.map (fun e => ((slices e.1.2 e.1.1.nGlobal).getD e.2 default, e.1.1.scale.getD 1)))).m
        ((alignMatrices (mem.map (fun e => ((slices e.1.2 e.1.1.nGlobal).getD e.2 default, e.1.1.scale.getD 1)))).labels.map (F v)))
      (mem.flatMap (fun di => memberWeight di.1.1 di.2)) := by
    rw [hmul, List.flatMap_map, zipWith_mul_flatMap _ _ _ (fun e he => (hcol e he).2)]
    apply List.flatMap_congr
    intro e he
    exact (hcol e he).1
  split
  · -- a weight among the members: rows of the stacked matrix are weighted
    refine ⟨rows_weightRows_width _ _ _ hwidth, ?_⟩
    simp only
    rw [mulVec_weightRows]
    exact hdata
  · -- no weight among the members at `v`: the stacked weight column is all ones
    rename_i hnw
    refine ⟨hwidth, ?_⟩
    rw [hdata]
    have hones : ∀ e ∈ mem, e.1.1.weight = none := by
      intro e he
      by_cases hany : (mem.any fun di => di.1.1.weight.isSome) = true
      · have hgany : g.datasets.any (fun d => d.weight.isSome) = true := by
          rw [List.any_eq_true] at hany ⊢
          obtain ⟨e', he', hw'⟩ := hany
          obtain ⟨m, hm, he1, _, _⟩ := hgood e' he'
          refine ⟨m.dataset, ?_, by rw [he1] at hw'; exact hw'⟩
          rw [H.datasets]; exact List.mem_map.2 ⟨m, hm, rfl⟩
        simp [hgany, hany] at hnw
      · have hall : ∀ x ∈ mem, x.1.1.weight.isSome = false := by
          simpa [List.any_eq_true] using hany
        have := hall e he
        cases hw : e.1.1.weight with
        | none => rfl
        | some w => simp [hw] at this
    have hl2 : (mem.flatMap (fun di => memberWeight di.1.1 di.2)) =
        List.replicate (mem.flatMap (fun di => memberWeight di.1.1 di.2)).length 1 := by
      apply List.eq_replicate_iff.mpr
      refine ⟨rfl, ?_⟩
      intro x hx
      simp only [List.mem_flatMap] at hx
      obtain ⟨e, he, hxe⟩ := hx
      simp only [memberWeight, hones e he, List.mem_replicate] at hxe
      exact hxe.2
    rw [hl2]
    apply zipWith_mul_ones
    rw [hmul, List.flatMap_map]
    simp only [List.length_flatMap]
    apply Nat.le_of_eq
    congr 1
    apply List.map_congr_left
    intro e he
    exact (hcol e he).2

end Glotaran.C14

namespace Glotaran.C14
open Glotaran.LinAlg Glotaran.C02

/-- **a linked group of simulated datasets has a zero residual part and no clp penalties** -/
theorem linkedGroup_sim (g : Group) (ms : List LinkedMember) (aligned : List (List Rat))
    (F : Rat → String → Rat) (H : LinkedAtTruth g ms aligned F)
    (hnn : g.solver = .nnls → ∀ v l, 0 ≤ F v l) (res pens : Vec)
    (h : linkedGroup {} g = some (res, pens)) : (∀ x ∈ res, x = 0) ∧ pens = [] := by
  unfold linkedGroup at h
  cases hlp : linkedProblems {} g with
  | none => simp [hlp] at h
  | some ap =>
    obtain ⟨axis, ps⟩ := ap
    have hcons := linkedProblems_consistent g ms aligned F H axis ps hlp
    simp only [hlp] at h
    cases hs : ps.mapM (fun p => (solveLS g.solver p.reduced.m p.data).map (fun cr => (p, cr))) with
    | none => simp [hs] at h
    | some sols =>
      simp only [hs, Option.some.injEq, Prod.mk.injEq] at h
      obtain ⟨hres, hpens⟩ := h
      refine ⟨?_, by rw [← hpens]; simp [clpPenalties]⟩
      intro x hx
      rw [← hres] at hx
      simp only [List.mem_flatMap] at hx
      obtain ⟨pc, hpc, hxr⟩ := hx
      obtain ⟨p, hp, hfp⟩ := mapM_some_mem _ ps sols hs pc hpc
      obtain ⟨hw, hd⟩ := hcons p hp
      cases hsol : solveLS g.solver p.reduced.m p.data with
      | none => simp [hsol] at hfp
      | some cr =>
        simp only [hsol, Option.map_some, Option.some.injEq] at hfp
        subst hfp
        rw [hd] at hsol
        have := (consistent_problem g.solver p.reduced.m p.fullLabels.length hw (p.fullLabels.map (F p.x))
          (by simp) (fun hs' => by
            intro y hy
            simp only [List.mem_map] at hy
            obtain ⟨l, _, rfl⟩ := hy
            exact hnn hs' p.x l) cr.1 cr.2 hsol).1
        exact this x hxr

end Glotaran.C14
