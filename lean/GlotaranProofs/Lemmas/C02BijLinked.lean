/-
C02 — "every data point enters the penalty vector exactly once", linked groups: the position of data
point (dataset `k`, model index `m`, global index `i`) in the residual part of a linked group, through
the alignment tables (`alignAxes`, the sorted union axis, membership of a dataset at an aligned value).
-/
import GlotaranProofs.Lemmas.C02Bij
import GlotaranProofs.Lemmas.C03Linked
namespace Glotaran.C02
open Glotaran.LinAlg Glotaran.C03

/-! ### the aligned axis is strictly increasing -/

theorem pairwise_insertSorted (x : Rat) (l : List Rat) (h : l.Pairwise (· < ·)) :
    (insertSorted x l).Pairwise (· < ·) := by
  induction l with
  | nil => simp [insertSorted]
  | cons z zs ih =>
    have hz := List.pairwise_cons.mp h
    simp only [insertSorted]
    split
    · rename_i hxz
      refine List.pairwise_cons.mpr ⟨?_, h⟩
      intro a ha
      rcases List.mem_cons.mp ha with rfl | ha
      · exact hxz
      · exact lt_trans hxz (hz.1 a ha)
    · split
      · exact h
      · rename_i h1 h2
        refine List.pairwise_cons.mpr ⟨?_, ih hz.2⟩
        intro a ha
        rcases (mem_insertSorted x zs a).mp ha with rfl | ha
        · rcases lt_trichotomy a z with h3 | h3 | h3
          · exact absurd h3 h1
          · exact absurd h3 h2
          · exact h3
        · exact hz.1 a ha

theorem pairwise_sortedUnion (a b : List Rat) (h : a.Pairwise (· < ·)) : (sortedUnion a b).Pairwise (· < ·) := by
  unfold sortedUnion
  induction b generalizing a with
  | nil => simpa using h
  | cons x b ih => simp only [List.foldl_cons]; exact ih _ (pairwise_insertSorted x a h)

theorem pairwise_foldl_sortedUnion (ls : List (List Rat)) (acc : List Rat) (h : acc.Pairwise (· < ·)) :
    (ls.foldl sortedUnion acc).Pairwise (· < ·) := by
  induction ls generalizing acc with
  | nil => simpa using h
  | cons l ls ih => simp only [List.foldl_cons]; exact ih _ (pairwise_sortedUnion acc l h)

/-- **the aligned global axis is strictly increasing** (hence without repetition) -/
theorem alignedAxis_sorted (aligned : List (List Rat)) : (aligned.foldl sortedUnion []).Pairwise (· < ·) :=
  pairwise_foldl_sortedUnion aligned [] List.Pairwise.nil

theorem alignedAxis_nodup (aligned : List (List Rat)) : (aligned.foldl sortedUnion []).Nodup :=
  (alignedAxis_sorted aligned).imp (fun h => ne_of_lt h)

/-! ### positions -/

/-- sizes of the blocks stacked at aligned value `v`: the model-axis sizes of the member datasets, in
    dataset order -/
def stackSizes (ds : List Dataset) (aligned : List (List Rat)) (v : Rat) : List Nat :=
  ((ds.zip aligned).filter (fun e => e.2.contains v)).map (fun e => e.1.nModel)

/-- **Position of data point (dataset `k`, model index `m`, global index `i`) in the residual part of a
    linked group**: the aligned index of the value the dataset's global index `i` was aligned to selects the
    stacked problem (problems are concatenated in aligned-axis order); inside it the blocks of the member
    datasets follow each other in dataset order. -/
def posLinked (ds : List Dataset) (aligned : List (List Rat)) (axis : List Rat) (k m i : Nat) : Nat :=
  let v := (aligned.getD k []).getD i 0
  offset (axis.map (fun v => (stackSizes ds aligned v).sum)) (axis.idxOf v) +
    (offset (stackSizes ds aligned v) (countBefore (fun e => e.2.contains v) (ds.zip aligned) k) + m)

/-- the tables of a linked group are consistent: one aligned axis per dataset, of the length of its global
    axis, without repetition, contained in the union axis (which has no repetition) -/
structure TablesOK (ds : List Dataset) (aligned : List (List Rat)) (axis : List Rat) : Prop where
  count : aligned.length = ds.length
  lengths : ∀ k (h1 : k < aligned.length) (h2 : k < ds.length), aligned[k].length = ds[k].nGlobal
  nodup : ∀ al ∈ aligned, al.Nodup
  axisNodup : axis.Nodup
  sub : ∀ al ∈ aligned, ∀ v ∈ al, v ∈ axis

theorem tablesOK_of_alignAxes (g : Group) (aligned : List (List Rat))
    (hal : alignAxes (g.datasets.map (·.globalAxis)) g.tol g.method = some aligned)
    (hax : ∀ d ∈ g.datasets, d.globalAxis.Nodup) :
    TablesOK g.datasets aligned (aligned.foldl sortedUnion []) := by
  have hlens := alignAxes_lengths _ _ _ _ hal
  have hcount : aligned.length = g.datasets.length := by
    have := congrArg List.length hlens; simpa using this
  refine ⟨hcount, ?_, ?_, alignedAxis_nodup aligned, ?_⟩
  · intro k h1 h2
    have := length_getElem_of_map_length_eq _ _ hlens k h1 (by simpa using h2)
    simpa [Dataset.nGlobal] using this
  · apply alignAxes_nodup _ _ _ _ hal
    intro a ha
    obtain ⟨d, hd, rfl⟩ := List.mem_map.mp ha
    exact hax d hd
  · intro al hal' v hv
    rw [mem_foldl_sortedUnion]
    exact Or.inr ⟨al, hal', hv⟩

theorem getD_eq_getElem_ds' (ds : List Dataset) (k : Nat) (hk : k < ds.length) : ds.getD k default = ds[k] := by
  simp [List.getD_eq_getElem?_getD, List.getElem?_eq_getElem hk]

/-- the data points of a list of datasets -/
def ValidPointL (ds : List Dataset) (k m i : Nat) : Prop :=
  ∃ hk : k < ds.length, m < ds[k].nModel ∧ i < ds[k].nGlobal

/-- facts about one valid point -/
theorem point_facts (ds : List Dataset) (aligned : List (List Rat)) (axis : List Rat)
    (T : TablesOK ds aligned axis) (k m i : Nat) (hv : ValidPointL ds k m i) :
    ∃ (hk : k < ds.length) (hk2 : k < aligned.length) (hi : i < aligned[k].length) (hkz : k < (ds.zip aligned).length),
      (aligned.getD k []).getD i 0 = aligned[k][i] ∧
      aligned[k][i] ∈ axis ∧
      (ds.zip aligned)[k] = (ds[k], aligned[k]) ∧
      aligned[k].contains aligned[k][i] = true ∧
      ∃ hc : countBefore (fun e : Dataset × List Rat => e.2.contains aligned[k][i]) (ds.zip aligned) k <
          (stackSizes ds aligned aligned[k][i]).length,
        (stackSizes ds aligned aligned[k][i])[countBefore
            (fun e : Dataset × List Rat => e.2.contains aligned[k][i]) (ds.zip aligned) k]'hc
          = ds[k].nModel := by
  obtain ⟨hk, hm, hi⟩ := hv
  have hk2 : k < aligned.length := by rw [T.count]; exact hk
  have hi' : i < aligned[k].length := by rw [T.lengths k hk2 hk]; exact hi
  have hkz : k < (ds.zip aligned).length := by simp; omega
  have hget : (ds.zip aligned)[k] = (ds[k], aligned[k]) := by simp [List.getElem_zip]
  have hcont : aligned[k].contains aligned[k][i] = true := by simp
  have hpass : (fun e : Dataset × List Rat => e.2.contains aligned[k][i]) (ds.zip aligned)[k] = true := by
    rw [hget]; exact hcont
  refine ⟨hk, hk2, hi', hkz, ?_, T.sub _ (List.getElem_mem hk2) _ (List.getElem_mem hi'), hget, hcont, ?_⟩
  · simp [List.getD_eq_getElem?_getD, List.getElem?_eq_getElem hk2, List.getElem?_eq_getElem hi']
  · have h1 := filter_position (fun e : Dataset × List Rat => e.2.contains aligned[k][i]) (ds.zip aligned) k hkz hpass
    have hlt := countBefore_lt (fun e : Dataset × List Rat => e.2.contains aligned[k][i]) (ds.zip aligned) k hkz hpass
    refine ⟨by simpa [stackSizes] using hlt, ?_⟩
    simp only [stackSizes, List.getElem_map]
    have := (List.getElem?_eq_some_iff.mp h1.1).2
    rw [this, hget]

theorem posLinked_lt (ds : List Dataset) (aligned : List (List Rat)) (axis : List Rat)
    (T : TablesOK ds aligned axis) (k m i : Nat) (hv : ValidPointL ds k m i) :
    posLinked ds aligned axis k m i < (axis.map (fun v => (stackSizes ds aligned v).sum)).sum := by
  obtain ⟨hk, hk2, hi, hkz, hgetD, hvax, hget, hcont, hc, hsz⟩ := point_facts ds aligned axis T k m i hv
  obtain ⟨_, hm, _⟩ := hv
  unfold posLinked
  simp only [hgetD]
  have ht : axis.idxOf aligned[k][i] < axis.length := List.idxOf_lt_length_of_mem hvax
  apply offset_lt _ _ (by simpa using ht)
  simp only [List.getElem_map, List.getElem_idxOf ht]
  exact offset_lt (stackSizes ds aligned aligned[k][i]) _ hc m (by rw [hsz]; exact hm)

theorem posLinked_inj (ds : List Dataset) (aligned : List (List Rat)) (axis : List Rat)
    (T : TablesOK ds aligned axis) (k m i k' m' i' : Nat)
    (hv : ValidPointL ds k m i) (hv' : ValidPointL ds k' m' i')
    (h : posLinked ds aligned axis k m i = posLinked ds aligned axis k' m' i') : k = k' ∧ m = m' ∧ i = i' := by
  obtain ⟨hk, hk2, hi, hkz, hgetD, hvax, hget, hcont, hc, hsz⟩ := point_facts ds aligned axis T k m i hv
  obtain ⟨hk', hk2', hi', hkz', hgetD', hvax', hget', hcont', hc', hsz'⟩ :=
    point_facts ds aligned axis T k' m' i' hv'
  obtain ⟨_, hm, _⟩ := hv
  obtain ⟨_, hm', _⟩ := hv'
  unfold posLinked at h
  simp only [hgetD, hgetD'] at h
  generalize hv1 : aligned[k][i] = v1 at hvax hcont hc hsz h
  generalize hv2 : aligned[k'][i'] = v2 at hvax' hcont' hc' hsz' h
  have ht : axis.idxOf v1 < axis.length := List.idxOf_lt_length_of_mem hvax
  have ht' : axis.idxOf v2 < axis.length := List.idxOf_lt_length_of_mem hvax'
  obtain ⟨h1, h2⟩ := offset_inj _ _ _ (by simpa using ht) (by simpa using ht') _ _
    (by
      simp only [List.getElem_map, List.getElem_idxOf ht]
      exact offset_lt _ _ hc _ (by rw [hsz]; exact hm))
    (by
      simp only [List.getElem_map, List.getElem_idxOf ht']
      exact offset_lt _ _ hc' _ (by rw [hsz']; exact hm')) h
  -- same aligned value
  have hvv : v1 = v2 := by
    have e1 := List.getElem_idxOf ht
    have e2 := List.getElem_idxOf ht'
    rw [← e1, ← e2]
    simp only [h1]
  subst hvv
  obtain ⟨h3, h4⟩ := offset_inj _ _ _ hc hc' _ _ (by rw [hsz]; exact hm) (by rw [hsz']; exact hm') h2
  have hkk : k = k' := countBefore_inj (fun e : Dataset × List Rat => e.2.contains v1) (ds.zip aligned) k k' hkz hkz'
    (by rw [hget]; exact hcont) (by rw [hget']; exact hcont') h3
  subst hkk
  refine ⟨rfl, h4, ?_⟩
  exact (List.getElem_inj (T.nodup _ (List.getElem_mem hk2))).mp (hv1.trans hv2.symm)

theorem posLinked_surj (ds : List Dataset) (aligned : List (List Rat)) (axis : List Rat)
    (T : TablesOK ds aligned axis) (p : Nat) (hp : p < (axis.map (fun v => (stackSizes ds aligned v).sum)).sum) :
    ∃ k m i, ValidPointL ds k m i ∧ posLinked ds aligned axis k m i = p := by
  obtain ⟨t, ht, q, hq, hpq⟩ := offset_surj _ p hp
  have ht' : t < axis.length := by simpa using ht
  simp only [List.getElem_map] at hq
  obtain ⟨j, hj, m, hm, hqm⟩ := offset_surj _ q hq
  have hj' : j < ((ds.zip aligned).filter (fun e => e.2.contains axis[t])).length := by
    simpa [stackSizes] using hj
  obtain ⟨k, hkz, hpass, hcnt, hjk⟩ := filter_getElem_exists _ _ j hj'
  have hk : k < ds.length := by simp only [List.length_zip] at hkz; omega
  have hk2 : k < aligned.length := by simp only [List.length_zip] at hkz; omega
  have hget : (ds.zip aligned)[k] = (ds[k], aligned[k]) := by simp [List.getElem_zip]
  rw [hget] at hpass
  simp only at hpass
  have hvmem : axis[t] ∈ aligned[k] := by simpa using hpass
  have hi : aligned[k].idxOf axis[t] < aligned[k].length := List.idxOf_lt_length_of_mem hvmem
  have hval : aligned[k][aligned[k].idxOf axis[t]] = axis[t] := List.getElem_idxOf hi
  have hm' : m < ds[k].nModel := by
    simp only [stackSizes, List.getElem_map] at hm
    rw [hjk, hget] at hm
    exact hm
  have hvalid : ValidPointL ds k m (aligned[k].idxOf axis[t]) :=
    ⟨hk, hm', by rw [← T.lengths k hk2 hk]; exact hi⟩
  refine ⟨k, m, aligned[k].idxOf axis[t], hvalid, ?_⟩
  obtain ⟨_, _, _, _, hgetD, _, _, _, _, _⟩ := point_facts ds aligned axis T k m _ hvalid
  unfold posLinked
  simp only [hgetD, hval]
  have hidx : axis.idxOf axis[t] = t := by
    have h1 : axis.idxOf axis[t] < axis.length := List.idxOf_lt_length_of_mem (List.getElem_mem ht')
    exact (List.getElem_inj T.axisNodup).mp (List.getElem_idxOf h1)
  rw [hidx, hcnt, hpq, hqm]

/-! ### the tie: what sits at `posLinked` -/

theorem alignMatrices_length (bs : List (LMat2 × Rat)) :
    (alignMatrices bs).m.length = (bs.map (·.1.m.length)).sum := by
  match bs with
  | [] => simp [alignMatrices]
  | [b] => simp [alignMatrices, mscale]
  | b1 :: b2 :: rest => exact alignMatrices_rows_length _ (by simp)

theorem sum_map_congr {α} (l : List α) (f g : α → Nat) (h : ∀ a ∈ l, f a = g a) : (l.map f).sum = (l.map g).sum := by
  rw [List.map_congr_left h]

/-- the stacked problem of an aligned value has one row and one data entry per model-axis point of every
    member dataset -/
theorem problemAt_lengths (mi : ModelItems) (aw : Bool) (mem : List Member) (v : Rat)
    (hok : ∀ e ∈ mem, MemberOK e) :
    (problemAt mi aw mem v).data.length = (mem.map (fun e => e.1.1.nModel)).sum ∧
    (problemAt mi aw mem v).reduced.m.length = (mem.map (fun e => e.1.1.nModel)).sum := by
  have hdata : (dataOf mem).length = (mem.map (fun e => e.1.1.nModel)).sum := by
    unfold dataOf
    rw [List.length_flatMap]
    apply sum_map_congr
    intro e he
    rw [Length.len_col, weightedData_length _ (hok e he).2.1]
  have hS : (alignMatrices (blocksOf mem)).m.length = (mem.map (fun e => e.1.1.nModel)).sum := by
    rw [alignMatrices_length]
    simp only [blocksOf, List.map_map]
    apply sum_map_congr
    intro e he
    obtain ⟨h1, _, h3⟩ := hok e he
    exact (matrixAt_ok _ _ _ _ h1 h3).1
  have hW : (weightOf mem).length = (mem.map (fun e => e.1.1.nModel)).sum := by
    unfold weightOf
    rw [List.length_flatMap]
    apply sum_map_congr
    intro e he
    cases hw : e.1.1.weight with
    | none => simp
    | some w => simp only [Length.len_col]; exact ((hok e he).2.1.2 w hw).1
  refine ⟨hdata, ?_⟩
  rw [problemAt_reduced_m]
  by_cases hh : hasWeight aw mem = true
  · simp only [hh, if_true, Length.rows_weightRows, Length.rows_reduceAt, hS, hW, Nat.min_self]
  · simp only [hh, Bool.false_eq_true, if_false, Length.rows_reduceAt, hS]

/-- hypotheses of the linked tie -/
structure LinkedShapes (g : Group) : Prop where
  data : ∀ d ∈ g.datasets, DataOK d
  matrix : ∀ d ∈ g.datasets, ∀ lm, datasetMatrix d.mcs = some lm → LMatOK d.nModel d.nGlobal lm
  axes : ∀ d ∈ g.datasets, d.globalAxis.Nodup

/-- **What sits at `posLinked`** (and the length of the residual part): the residual part of a linked
    group has one entry per model-axis point of every member of every aligned value; at the position of
    data point `(k, m, i)` sits row `q` of the residual of the stacked least-squares problem of the aligned
    value `v` the point was aligned to, where `q` = (model-axis sizes of the members before dataset `k`) + `m`,
    and entry `q` of that problem's data vector is the weighted data point `(k, m, i)`. -/
theorem residual_entry_linked_lem (mi : ModelItems) (g : Group) (res pens : Vec) (aligned : List (List Rat))
    (hl : g.linked = true) (h : groupPenaltyParts mi g = some (res, pens))
    (hal : alignAxes (g.datasets.map (·.globalAxis)) g.tol g.method = some aligned)
    (hsh : LinkedShapes g) :
    res.length = ((aligned.foldl sortedUnion []).map (fun v => (stackSizes g.datasets aligned v).sum)).sum ∧
    ∀ k m i, ValidPointL g.datasets k m i →
      ∃ ps t c r, linkedProblems mi g = some (aligned.foldl sortedUnion [], ps) ∧ ∃ ht : t < ps.length,
        (aligned.foldl sortedUnion [])[t]? = some ((aligned.getD k []).getD i 0) ∧
        solveLS g.solver ps[t].reduced.m ps[t].data = some (c, r) ∧
        ps[t].data[offset (stackSizes g.datasets aligned ((aligned.getD k []).getD i 0))
            (countBefore (fun e : Dataset × List Rat => e.2.contains ((aligned.getD k []).getD i 0))
              (g.datasets.zip aligned) k) + m]? =
          (col (g.datasets.getD k default).weightedData i)[m]? ∧
        m < (col (g.datasets.getD k default).weightedData i).length ∧
        res[posLinked g.datasets aligned (aligned.foldl sortedUnion []) k m i]? =
          r[offset (stackSizes g.datasets aligned ((aligned.getD k []).getD i 0))
            (countBefore (fun e : Dataset × List Rat => e.2.contains ((aligned.getD k []).getD i 0))
              (g.datasets.zip aligned) k) + m]? ∧
        offset (stackSizes g.datasets aligned ((aligned.getD k []).getD i 0))
            (countBefore (fun e : Dataset × List Rat => e.2.contains ((aligned.getD k []).getD i 0))
              (g.datasets.zip aligned) k) + m < r.length := by
  unfold groupPenaltyParts at h
  simp only [hl, if_true] at h
  unfold linkedGroup at h
  have hlp := linkedProblems_eq mi g
  rw [hal] at hlp
  cases hdms : g.datasets.mapM (fun d => (datasetMatrix d.mcs).map (fun lm => (d, lm))) with
  | none => rw [hdms] at hlp; rw [hlp] at h; simp at h
  | some dms =>
    rw [hdms] at hlp
    simp only at hlp
    rw [hlp] at h
    simp only at h
    have T := tablesOK_of_alignAxes g aligned hal hsh.axes
    generalize haxis : aligned.foldl sortedUnion [] = axis at h hlp T ⊢
    generalize haw : g.datasets.any (·.weight.isSome) = aw at h hlp
    cases hsols : (axis.map (fun v => problemAt mi aw (membersOf dms aligned v) v)).mapM
        (fun (p : IndexProblem) => (solveLS g.solver p.reduced.m p.data).map (fun cr => (p, cr))) with
    | none => rw [hsols] at h; simp at h
    | some sols =>
      rw [hsols] at h
      simp only [Option.some.injEq, Prod.mk.injEq] at h
      obtain ⟨hres, _⟩ := h
      subst hres
      obtain ⟨hdl, hdfst, hdk⟩ := dms_spec _ _ hdms
      obtain ⟨hsl, hsget⟩ := sols_getElem _ _ _ hsols
      have hsl' : sols.length = axis.length := by simpa using hsl
      have hlens := alignAxes_lengths _ _ _ _ hal
      have hda : g.datasets.zip aligned = (dms.zip aligned).map (fun z => (z.1.1, z.2)) := by
        rw [← hdfst, List.zip_map_left]; rfl
      -- members of every aligned value are well formed; their sizes are the stack sizes
      have hmemok : ∀ v, ∀ e ∈ membersOf dms aligned v, MemberOK e := by
        intro v e he
        obtain ⟨k', h1, h2, he1, he2⟩ := mem_membersOf _ _ _ _ he
        have h1' : k' < g.datasets.length := by omega
        obtain ⟨hd1, hd2⟩ := hdk k' h1' h1
        have hdin : e.1.1 ∈ g.datasets := by rw [he1, hd1]; exact List.getElem_mem h1'
        refine ⟨hsh.matrix _ hdin _ (by rw [he1, hd1]; exact hd2), hsh.data _ hdin, ?_⟩
        obtain ⟨hlt, _⟩ := C14.idxOf?_some_getElem _ _ _ he2
        have hlen' := T.lengths k' h2 h1'
        rw [he1, hd1, ← hlen']; exact hlt
      have hsizes : ∀ v, (membersOf dms aligned v).map (fun e => e.1.1.nModel) = stackSizes g.datasets aligned v := by
        intro v
        unfold stackSizes membersOf
        rw [hda, before_sum]
      have hblock : ∀ t (h1 : t < axis.length) (h2 : t < sols.length),
          sols[t].2.2.length = (stackSizes g.datasets aligned axis[t]).sum := by
        intro t h1 h2
        obtain ⟨hs1, hs2⟩ := hsget t (by simpa using h1) h2
        simp only [List.getElem_map] at hs2
        have hlen2 := Length.len_solveLS _ _ _ _ hs2
        obtain ⟨l1, l2⟩ := problemAt_lengths mi aw (membersOf dms aligned axis[t]) axis[t] (hmemok _)
        rw [hlen2, l1, l2, hsizes, Nat.min_self]
      have hmapsizes : sols.map (fun pc => pc.2.2.length) =
          axis.map (fun v => (stackSizes g.datasets aligned v).sum) := by
        apply List.ext_getElem (by simpa using hsl')
        intro t h1 h2
        simp only [List.getElem_map]
        exact hblock t (by simpa using h2) (by simpa using h1)
      refine ⟨by rw [List.length_flatMap, ← hmapsizes], ?_⟩
      intro k m i hv
      obtain ⟨hk, hk2, hi, hkz, hgetD, hvax, hget, hcont, hc, hsz⟩ := point_facts g.datasets aligned axis T k m i hv
      obtain ⟨_, hm, hig⟩ := hv
      have hposdef : posLinked g.datasets aligned axis k m i =
          offset (axis.map (fun v => (stackSizes g.datasets aligned v).sum)) (axis.idxOf aligned[k][i]) +
          (offset (stackSizes g.datasets aligned aligned[k][i])
            (countBefore (fun e : Dataset × List Rat => e.2.contains aligned[k][i]) (g.datasets.zip aligned) k) + m) := by
        unfold posLinked; simp only [hgetD]
      rw [hposdef, hgetD, getD_eq_getElem_ds' g.datasets k hk]
      generalize hvdef : aligned[k][i] = v at hvax hcont hc hsz ⊢
      have ht : axis.idxOf v < axis.length := List.idxOf_lt_length_of_mem hvax
      have ht2 : axis.idxOf v < sols.length := by omega
      have htp : axis.idxOf v < (axis.map (fun v => problemAt mi aw (membersOf dms aligned v) v)).length := by
        simpa using ht
      have hat : axis[axis.idxOf v] = v := List.getElem_idxOf ht
      obtain ⟨hs1, hs2⟩ := hsget _ htp ht2
      simp only [List.getElem_map, hat] at hs1 hs2
      have hblk := hblock _ ht ht2
      rw [hat] at hblk
      have hq : offset (stackSizes g.datasets aligned v)
          (countBefore (fun e : Dataset × List Rat => e.2.contains v) (g.datasets.zip aligned) k) + m <
          (stackSizes g.datasets aligned v).sum := offset_lt _ _ hc m (by rw [hsz]; exact hm)
      refine ⟨_, axis.idxOf v, sols[axis.idxOf v].2.1, sols[axis.idxOf v].2.2, hlp, htp, ?_, ?_, ?_, ?_, ?_, ?_⟩
      · rw [List.getElem?_eq_getElem ht, hat]
      · simp only [List.getElem_map, hat]; exact hs2
      · -- the data entry
        simp only [List.getElem_map, hat, problemAt_data]
        -- position of dataset k among the members
        have hk3 : k < dms.length := by omega
        obtain ⟨hdk1, hdk2⟩ := hdk k hk hk3
        have hZk : k < (dms.zip aligned).length := by simp; omega
        have hidx : aligned[k].idxOf? v = some i := by
          rw [← hvdef]; exact idxOf?_getElem_of_nodup _ (T.nodup _ (List.getElem_mem hk2)) i hi
        have hmemk : memberOf v (dms.zip aligned)[k] = some (dms[k], i) := by
          simp [memberOf, List.getElem_zip, hidx]
        obtain ⟨hpos1, hpos2⟩ := filterMap_position (memberOf v) (dms.zip aligned) k hZk _ hmemk
        have hjlt := (List.getElem?_eq_some_iff.mp hpos1).1
        have hmj := (List.getElem?_eq_some_iff.mp hpos1).2
        have hoff : offset (stackSizes g.datasets aligned v)
            (countBefore (fun e : Dataset × List Rat => e.2.contains v) (g.datasets.zip aligned) k) =
            (((membersOf dms aligned v).take (((dms.zip aligned).take k).filterMap (memberOf v)).length).map
              (fun e => e.1.1.nModel)).sum := by
          unfold membersOf
          rw [hpos2]
          unfold offset stackSizes
          rw [← List.map_take]
          have hpass : (fun e : Dataset × List Rat => e.2.contains v) (g.datasets.zip aligned)[k] = true := by
            rw [hget]; exact hcont
          rw [(filter_position _ _ k hkz hpass).2, hda, ← List.map_take, before_sum]
        rw [hoff]
        unfold dataOf
        have hmm : m < ((membersOf dms aligned v)[(((dms.zip aligned).take k).filterMap (memberOf v)).length]'hjlt).1.1.nModel := by
          unfold membersOf; rw [hmj, hdk1]; exact hm
        rw [flatMap_getElem?_offset (membersOf dms aligned v) _ (fun e => e.1.1.nModel)
          (fun e he => by rw [Length.len_col, weightedData_length _ (hmemok v e he).2.1]) _ hjlt m hmm]
        have : (membersOf dms aligned v)[(((dms.zip aligned).take k).filterMap (memberOf v)).length]'hjlt = (dms[k], i) := hmj
        rw [this, hdk1]
      · rw [Length.len_col, weightedData_length _ (hsh.data _ (List.getElem_mem hk))]; exact hm
      · have := flatMap_getElem?_offset' sols (fun pc => pc.2.2) _ hmapsizes (axis.idxOf v) ht2
          (offset (stackSizes g.datasets aligned v)
            (countBefore (fun e : Dataset × List Rat => e.2.contains v) (g.datasets.zip aligned) k) + m)
          (by rw [hblk]; exact hq)
        exact this
      · rw [hblk]; exact hq

/-! ### counting: the residual part of a linked group has one entry per data point -/

theorem sum_map_ite (l : List Rat) (c : Rat → Bool) (n : Nat) :
    (l.map (fun v => if c v then n else 0)).sum = n * (l.filter c).length := by
  induction l with
  | nil => simp
  | cons a l ih =>
    simp only [List.map_cons, List.sum_cons, ih, List.filter_cons]
    cases c a <;> simp [Nat.mul_add]
    omega

theorem sum_map_add' (l : List Rat) (f g : Rat → Nat) :
    (l.map (fun v => f v + g v)).sum = (l.map f).sum + (l.map g).sum := by
  induction l with
  | nil => simp
  | cons a l ih => simp only [List.map_cons, List.sum_cons, ih]; omega

/-- double counting: summing the stack sizes over the axis = summing over the datasets
    (model-axis size) × (number of axis values the dataset is a member at) -/
theorem sum_stack_swap (axis : List Rat) (da : List (Dataset × List Rat)) :
    (axis.map (fun v => ((da.filter (fun e => e.2.contains v)).map (fun e => e.1.nModel)).sum)).sum =
    (da.map (fun e => e.1.nModel * (axis.filter (fun v => e.2.contains v)).length)).sum := by
  induction da with
  | nil => simp
  | cons e da ih =>
    have : ∀ v, (((e :: da).filter (fun e => e.2.contains v)).map (fun e => e.1.nModel)).sum =
        (if e.2.contains v then e.1.nModel else 0) +
          ((da.filter (fun e => e.2.contains v)).map (fun e => e.1.nModel)).sum := by
      intro v
      simp only [List.filter_cons]
      cases e.2.contains v <;> simp
    simp only [this, sum_map_add', sum_map_ite, List.map_cons, List.sum_cons, ih]

theorem filter_contains_length (l al : List Rat) (hl : l.Nodup) (hal : al.Nodup) (hsub : ∀ v ∈ al, v ∈ l) :
    (l.filter (fun v => al.contains v)).length = al.length := by
  apply List.Perm.length_eq
  apply (List.perm_ext_iff_of_nodup (hl.filter _) hal).mpr
  intro a
  simp only [List.mem_filter, List.contains_iff_mem]
  exact ⟨fun h => h.2, fun h => ⟨hsub a h, h⟩⟩

theorem total_eq_points (ds : List Dataset) (aligned : List (List Rat)) (axis : List Rat)
    (T : TablesOK ds aligned axis) :
    (axis.map (fun v => (stackSizes ds aligned v).sum)).sum = (ds.map (fun d => d.nModel * d.nGlobal)).sum := by
  unfold stackSizes
  rw [sum_stack_swap]
  congr 1
  apply List.ext_getElem
  · simp [T.count]
  · intro k h1 h2
    have hk : k < ds.length := by simpa using h2
    have hk2 : k < aligned.length := by rw [T.count]; exact hk
    simp only [List.getElem_map, List.getElem_zip]
    rw [filter_contains_length axis aligned[k] T.axisNodup (T.nodup _ (List.getElem_mem hk2))
      (T.sub _ (List.getElem_mem hk2)), T.lengths k hk2 hk]

end Glotaran.C02
