/-
C03 — datasets with a global model (full model): fitted = matrix × clp × global_matrixᵀ, point by point.
Built on C02's Kronecker lemmas (Lemmas/C02BijKron.lean): row `g·nModel + m` of the full matrix is
`weight · (G[g] ⊗ M_g[m])`, and a Kronecker row applied to the flattened coefficients is
`Σ_j G[g][j] · (M_g[m] · clp_j)` with `clp_j` the `j`-th chunk (`dot_kron`).
-/
import GlotaranProofs.Lemmas.C03Linked
import GlotaranProofs.Lemmas.C02BijKron
namespace Glotaran.C03
open Glotaran.LinAlg Glotaran.C02

/-! ### a Kronecker row against flattened coefficients -/

theorem dot_append_left (a b c : Vec) : dot (a ++ b) c = dot a (c.take a.length) + dot b (c.drop a.length) := by
  induction a generalizing c with
  | nil => simp
  | cons x a ih =>
    cases c with
    | nil => simp
    | cons y c =>
      simp only [List.cons_append, dot_cons, List.length_cons, List.take_succ_cons, List.drop_succ_cons, ih c]
      ring

theorem dot_kron (grow row c : Vec) :
    dot (grow.flatMap (fun gv => row.map (gv * ·))) c =
      dot grow ((chunk row.length grow.length c).map (fun clp => dot row clp)) := by
  induction grow generalizing c with
  | nil => simp [chunk]
  | cons gv gs ih =>
    simp only [List.flatMap_cons, List.length_cons, chunk, List.map_cons, dot_cons]
    rw [dot_append_left, List.length_map, ih (c.drop row.length)]
    have : dot (row.map (gv * ·)) (c.take row.length) = gv * dot row (c.take row.length) := dot_vscale gv row _
    rw [this]

theorem chunk_getElem? (n k : Nat) (v : Vec) (g : Nat) (hg : g < k) :
    (chunk n k v)[g]? = some ((v.drop (g * n)).take n) := by
  induction k generalizing v g with
  | zero => omega
  | succ k ih =>
    cases g with
    | zero => simp [chunk]
    | succ g =>
      simp only [chunk, List.getElem?_cons_succ]
      rw [ih (v.drop n) g (Nat.lt_of_succ_lt_succ hg), List.drop_drop]
      have : n + g * n = (g + 1) * n := by rw [Nat.add_mul, Nat.one_mul, Nat.add_comm]
      rw [this]

/-! ### whole rows of the full matrix -/

theorem kronRow_getElem? (grow : Vec) (M : Mat) (m : Nat) (row : Vec) (hrow : M[m]? = some row) :
    (kronRow grow M)[m]? = some (grow.flatMap (fun gv => row.map (gv * ·))) := by
  simp [kronRow, hrow]

theorem kron_blocks_row (blocks : List (Vec × Mat)) (nModel g m : Nat)
    (hlen : ∀ b ∈ blocks, b.2.length = nModel) (hg : g < blocks.length)
    (row : Vec) (hrow : (blocks[g]).2[m]? = some row) :
    (blocks.flatMap (fun b => kronRow b.1 b.2))[g * nModel + m]? =
      some ((blocks[g]).1.flatMap (fun gv => row.map (gv * ·))) := by
  have hm : m < nModel := by
    rw [← hlen _ (List.getElem_mem hg)]; exact (List.getElem?_eq_some_iff.mp hrow).1
  have := flatMap_getElem?_offset blocks (fun b => kronRow b.1 b.2) (fun _ => nModel)
    (by intro b hb; simp [kronRow, hlen b hb]) g hg m hm
  rw [sum_take_const _ _ _ (by omega)] at this
  rw [this]
  exact kronRow_getElem? _ _ m row hrow

/-- **Full model, one point.**  With `clps` the reported clp rows (one per global clp label), `grow` row `g`
    of the global matrix, `row` row `m` of the model matrix at index `g`, `y` the data point and `ω` its
    weight (`1` without weight): the flattened residual at `g·nModel + m` is
    `ω · (y − Σ_j grow[j] · (row · clps[j]))`. -/
theorem full_point (mi : ModelItems) (s : Solver) (d : Dataset) (lm gm : LMat) (G : Mat) (r : DsResult)
    (h : unlinkedResult mi s d = some r) (hgne : d.gmcs ≠ [])
    (hlm : datasetMatrix d.mcs = some lm) (hgm : datasetMatrix d.gmcs = some gm) (hGb : gm.body = .d2 G)
    (hok : LMatOK d.nModel d.nGlobal lm) (hd : DataOK d) (hG : G.length = d.nGlobal)
    (hGw : ∀ r ∈ G, r.length = gm.labels.length)
    (g m : Nat) (hg : g < d.nGlobal) (hm : m < d.nModel) :
    r.clpLabels = lm.labels ∧ r.clps.length = gm.labels.length ∧
    ∃ grow row y ω, G[g]? = some grow ∧ (matrixAt lm d.nGlobal g)[m]? = some row ∧
      entry? d.data m g = some y ∧
      (match (generalizing := false) d.weight with | none => ω = 1 | some w => entry? w m g = some ω) ∧
      match d.weight with
      | none => r.weighted = none ∧
          entry? r.residual m g = some (ω * (y - dot grow (r.clps.map (fun clp => dot row clp)))) ∧
          entry? r.fitted m g = some (y - ω * (y - dot grow (r.clps.map (fun clp => dot row clp))))
      | some _ => ∃ wres, r.weighted = some wres ∧
          entry? wres m g = some (ω * (y - dot grow (r.clps.map (fun clp => dot row clp)))) ∧
          entry? r.residual m g = some (ω * (y - dot grow (r.clps.map (fun clp => dot row clp))) / ω) ∧
          entry? r.fitted m g = some (y - ω * (y - dot grow (r.clps.map (fun clp => dot row clp))) / ω) := by
  unfold unlinkedResult at h
  have hne : (!d.gmcs.isEmpty) = true := by
    cases hgl : d.gmcs with
    | nil => exact absurd hgl hgne
    | cons _ _ => rfl
  simp only [hne, if_true, hlm, hgm] at h
  cases hfp : fullModelProblem d with
  | none => simp [hfp] at h
  | some ay =>
    obtain ⟨a, yv⟩ := ay
    simp only [hfp] at h
    obtain ⟨cr, hsol, rfl⟩ := Option.map_eq_some_iff.mp h
    refine ⟨finish_clpLabels .., by rw [finish_clps, chunk_length], ?_⟩
    -- the pieces of the full problem
    have hfp' := hfp
    unfold fullModelProblem at hfp'
    simp only [hlm, hgm, hGb, Option.some.injEq, Prod.mk.injEq] at hfp'
    obtain ⟨ha, hy⟩ := hfp'
    have hgG : g < G.length := by omega
    obtain ⟨hg', hblk, hlens⟩ := kronBlocks_getElem G lm d.nModel d.nGlobal g hok hG hg
    obtain ⟨hAlen, hAw⟩ := matrixAt_ok lm _ _ g hok hg
    have hmA : m < (matrixAt lm d.nGlobal g).length := by rw [hAlen]; exact hm
    obtain ⟨y, hyv⟩ := entry?_of_rect d.data d.nGlobal m g hd.1 hm hg
    have hrowlen : ((matrixAt lm d.nGlobal g)[m]).length = lm.labels.length := hAw _ (List.getElem_mem hmA)
    have hfullrow := kron_blocks_row (kronBlocks G lm.body) d.nModel g m hlens hg'
      (matrixAt lm d.nGlobal g)[m] (by rw [hblk]; exact List.getElem?_eq_getElem hmA)
    rw [hblk] at hfullrow
    simp only at hfullrow
    have hflat : ∀ (M : Mat) (e : Rat), M.length = d.nModel → entry? M m g = some e →
        ((List.range d.nGlobal).flatMap (fun g => col M g))[g * d.nModel + m]? = some e := by
      intro M e hM he
      have := flatMap_getElem?_offset (List.range d.nGlobal) (fun g => col M g) (fun _ => d.nModel)
        (by intro a _; simp [Length.len_col, hM]) g (by simpa using hg) m hm
      rw [sum_take_const _ _ _ (by simp; omega)] at this
      rw [this]
      simp only [List.getElem_range]
      exact col_getElem? _ _ _ _ he
    have ha' : (match d.weight with
        | some w => weightRows ((kronBlocks G lm.body).flatMap (fun b => kronRow b.1 b.2))
            ((List.range d.nGlobal).flatMap (fun g => col w g))
        | none => (kronBlocks G lm.body).flatMap (fun b => kronRow b.1 b.2)) = a := by
      rw [← ha]
      cases hb : lm.body with
      | d2 M => cases d.weight <;> simp only [fullMatrix_d2]
      | d3 Ms => cases d.weight <;> simp only [fullMatrix_d3]
    -- the residual entry
    obtain ⟨hres, _⟩ := C14.solveLS_cases _ _ _ _ _ hsol
    have hS : dot (G[g].flatMap (fun gv => ((matrixAt lm d.nGlobal g)[m]).map (gv * ·))) cr.1 =
        dot G[g] ((chunk lm.labels.length gm.labels.length cr.1).map (fun clp => dot (matrixAt lm d.nGlobal g)[m] clp)) := by
      rw [dot_kron, hrowlen, hGw _ (List.getElem_mem hgG)]
    have hclps : (finish d lm.labels (chunk lm.labels.length gm.labels.length cr.1)
        (ofColumns d.nModel (chunk d.nModel d.nGlobal cr.2))).clps = chunk lm.labels.length gm.labels.length cr.1 :=
      finish_clps ..
    rw [hclps]
    -- from the flattened residual to the (model, global) entry
    have hentry : ∀ e, cr.2[g * d.nModel + m]? = some e →
        entry? (ofColumns d.nModel (chunk d.nModel d.nGlobal cr.2)) m g = some e := by
      intro e he
      have hcl : g < (chunk d.nModel d.nGlobal cr.2).length := by rw [chunk_length]; exact hg
      rw [entry?_ofColumns _ _ m g hm hcl]
      have hcg := chunk_getElem? d.nModel d.nGlobal cr.2 g hg
      have : (chunk d.nModel d.nGlobal cr.2)[g] = (cr.2.drop (g * d.nModel)).take d.nModel := by
        have := List.getElem?_eq_getElem hcl; rw [hcg] at this; exact (Option.some.inj this).symm
      rw [this]
      apply congrArg some
      apply getD_of_getElem?
      rw [drop_take_getElem? _ _ _ _ hm]; exact he
    have hAc : (mulVec ((kronBlocks G lm.body).flatMap (fun b => kronRow b.1 b.2)) cr.1)[g * d.nModel + m]? =
        some (dot (G[g].flatMap (fun gv => ((matrixAt lm d.nGlobal g)[m]).map (gv * ·))) cr.1) := by
      rw [mulVec_getElem?, hfullrow]; rfl
    cases hw : d.weight with
    | none =>
      rw [hw] at ha'
      simp only at ha'
      have hres1 : cr.2[g * d.nModel + m]? = some (1 * (y - dot G[g]
          ((chunk lm.labels.length gm.labels.length cr.1).map (fun clp => dot (matrixAt lm d.nGlobal g)[m] clp)))) := by
        rw [hres, residual, ← ha']
        rw [vsub_getElem? _ _ _ y _ (by rw [← hy, C02.unweighted_data' d hw]; exact hflat d.data y rfl hyv)
          hAc]
        rw [hS, one_mul]
      have hfin := finish_entries d lm.labels (chunk lm.labels.length gm.labels.length cr.1)
        (ofColumns d.nModel (chunk d.nModel d.nGlobal cr.2)) m g y _ hyv (hentry _ hres1)
      rw [hw] at hfin
      simp only at hfin
      exact ⟨G[g], (matrixAt lm d.nGlobal g)[m], y, 1, List.getElem?_eq_getElem hgG, List.getElem?_eq_getElem hmA,
        hyv, rfl, hfin⟩
    | some w =>
      rw [hw] at ha'
      simp only at ha'
      obtain ⟨hwl, hww⟩ := hd.2 w hw
      obtain ⟨ω, hω⟩ := entry?_of_rect w d.nGlobal m g hww (by rw [hwl]; exact hm) hg
      have hres1 : cr.2[g * d.nModel + m]? = some (ω * (y - dot G[g]
          ((chunk lm.labels.length gm.labels.length cr.1).map (fun clp => dot (matrixAt lm d.nGlobal g)[m] clp)))) := by
        rw [hres, residual, ← ha', C14.mulVec_weightRows]
        have hyw : yv[g * d.nModel + m]? = some (y * ω) := by
          rw [← hy, C02.weighted_data' d w hw]
          have hh : entry? (hadamard d.data w) m g = some (y * ω) := by
            unfold hadamard; rw [entry?_zipWith, hyv, hω]
          exact hflat _ _ (by rw [Length.rows_hadamard, hwl]; unfold Dataset.nModel; omega) hh
        rw [vsub_getElem? _ _ _ _ _ hyw (zipWith_mul_getElem? _ _ _ _ _
          hAc (hflat w ω hwl hω))]
        rw [hS]; congr 1; ring
      have hfin := finish_entries d lm.labels (chunk lm.labels.length gm.labels.length cr.1)
        (ofColumns d.nModel (chunk d.nModel d.nGlobal cr.2)) m g y _ hyv (hentry _ hres1)
      rw [hw] at hfin
      simp only at hfin
      obtain ⟨h1, h2, h3⟩ := hfin ω hω
      exact ⟨G[g], (matrixAt lm d.nGlobal g)[m], y, ω, List.getElem?_eq_getElem hgG, List.getElem?_eq_getElem hmA,
        hyv, hω, _, h1, hentry _ hres1, h2, h3⟩

end Glotaran.C03
