/-
C05 — helper lemmas: the error function (Mathlib has none: defined here by its integral), the
real-number instance of the kernel arithmetic `Num`, the Gaussian half-line integrals behind the
convolution identity, and list lemmas for the plumbing (dispersion loop, folds, `mapM`).
-/
import GlotaranModel.C05
import Mathlib.Analysis.SpecialFunctions.Gaussian.GaussianIntegral
namespace Glotaran.C05
open Real MeasureTheory Set

/-! ### erf, erfcx -/

/-- `erf x = (2/√π) ∫₀ˣ exp(-s²) ds` -/
noncomputable def erf (x : ℝ) : ℝ := 2 / √π * ∫ s in (0:ℝ)..x, exp (-s ^ 2)

/-- the scaled complementary error function `erfcx x = exp(x²) (1 - erf x)` -/
noncomputable def erfcx (x : ℝ) : ℝ := exp (x ^ 2) * (1 - erf x)

theorem continuous_gauss : Continuous (fun s : ℝ => exp (-s ^ 2)) := by fun_prop

theorem erf_zero : erf 0 = 0 := by simp [erf]

theorem erf_neg (x : ℝ) : erf (-x) = - erf x := by
  unfold erf
  have h := intervalIntegral.integral_comp_neg (a := 0) (b := x) (fun s : ℝ => exp (-s ^ 2))
  simp only [neg_sq, neg_zero] at h
  rw [intervalIntegral.integral_symm, ← h]
  ring

theorem hasDerivAt_erf (x : ℝ) : HasDerivAt erf (2 / √π * exp (-x ^ 2)) x := by
  unfold erf
  apply HasDerivAt.const_mul
  exact intervalIntegral.integral_hasDerivAt_right (continuous_gauss.intervalIntegrable _ _)
    (continuous_gauss.stronglyMeasurableAtFilter _ _) continuous_gauss.continuousAt

theorem integrableOn_gauss (a : ℝ) : IntegrableOn (fun s : ℝ => exp (-s ^ 2)) (Ioi a) := by
  have := integrable_exp_neg_mul_sq (b := 1) one_pos
  simpa using this.integrableOn

/-- the Gaussian tail: `∫_a^∞ exp(-v²) dv = (√π/2)(1 - erf a)` -/
theorem integral_Ioi_gauss (a : ℝ) :
    ∫ v in Ioi a, exp (-v ^ 2) = √π / 2 * (1 - erf a) := by
  have h0 : ∫ v in Ioi (0:ℝ), exp (-v ^ 2) = √π / 2 := by
    have := integral_gaussian_Ioi 1
    simpa using this
  have h := intervalIntegral.integral_Ioi_sub_Ioi' (integrableOn_gauss 0) (integrableOn_gauss a)
  have hpi : √π ≠ 0 := by positivity
  unfold erf
  rw [h0] at h
  field_simp
  linarith

theorem integral_Ioi_comp_add_right (f : ℝ → ℝ) (c d : ℝ) :
    ∫ x in Ioi c, f (x + d) = ∫ x in Ioi (c + d), f x := by
  rw [← integral_indicator measurableSet_Ioi, ← integral_indicator measurableSet_Ioi]
  rw [← integral_add_right_eq_self (fun x => indicator (Ioi (c + d)) f x) d]
  congr 1
  ext x
  simp only [indicator, mem_Ioi, add_lt_add_iff_right]

/-- shifted, scaled Gaussian on the half line -/
theorem integral_Ioi_shifted_gauss (m b : ℝ) (hb : 0 < b) :
    ∫ s in Ioi (0:ℝ), exp (-((s - m) / b) ^ 2) = b * (√π / 2 * (1 + erf (m / b))) := by
  have h1 := integral_comp_mul_left_Ioi (fun x : ℝ => exp (-(x - m / b) ^ 2)) 0 (inv_pos.mpr hb)
  simp only [mul_zero, inv_inv, smul_eq_mul] at h1
  have h2 : ∀ s : ℝ, (s - m) / b = b⁻¹ * s - m / b := by intro s; field_simp
  simp_rw [h2]
  rw [h1]
  have h3 := integral_Ioi_comp_add_right (fun v : ℝ => exp (-v ^ 2)) 0 (-(m / b))
  simp only [zero_add] at h3
  have h4 : ∀ x : ℝ, x + -(m / b) = x - m / b := fun x => by ring
  simp_rw [h4] at h3
  rw [h3, integral_Ioi_gauss, erf_neg]
  ring

/-! ### the real-number instance of the kernel arithmetic -/

noncomputable instance instNumReal : Num ℝ where
  ofRat q := (q : ℝ)
  add := (· + ·)
  sub := (· - ·)
  mul := (· * ·)
  div := (· / ·)
  neg := fun x => -x
  exp := Real.exp
  erf := erf
  erfcx := erfcx
  sqrt2 := √2

@[simp] theorem num_ofRat (q : Rat) : (Num.ofRat q : ℝ) = (q : ℝ) := rfl
@[simp] theorem num_add (a b : ℝ) : Num.add a b = a + b := rfl
@[simp] theorem num_sub (a b : ℝ) : Num.sub a b = a - b := rfl
@[simp] theorem num_mul (a b : ℝ) : Num.mul a b = a * b := rfl
@[simp] theorem num_div (a b : ℝ) : Num.div a b = a / b := rfl
@[simp] theorem num_neg (a : ℝ) : Num.neg a = -a := rfl
@[simp] theorem num_exp (a : ℝ) : Num.exp a = Real.exp a := rfl
@[simp] theorem num_erf (a : ℝ) : Num.erf a = erf a := rfl
@[simp] theorem num_erfcx (a : ℝ) : Num.erfcx a = erfcx a := rfl
@[simp] theorem num_sqrt2 : (Num.sqrt2 : ℝ) = √2 := rfl

/-! ### the mathematical objects of the statement -/

/-- the area-normalised Gaussian `N(μ, σ)` -/
noncomputable def gaussPdf (μ σ x : ℝ) : ℝ := 1 / (σ * √(2 * π)) * exp (-(x - μ) ^ 2 / (2 * σ ^ 2))

/-- the closed form `½ exp(α(α - 2β)) (1 + erf(β - α))`, `α = kσ/√2`, `β = (t - μ)/(σ√2)` -/
noncomputable def closedForm (k μ σ t : ℝ) : ℝ :=
  1 / 2 * exp (k * σ / √2 * (k * σ / √2 - 2 * ((t - μ) / (σ * √2)))) *
    (1 + erf ((t - μ) / (σ * √2) - k * σ / √2))

/-- the convolution `(exp(-k ·) 1_{≥0}) ∗ N(μ, σ)` at `t` -/
noncomputable def convolution (k μ σ t : ℝ) : ℝ :=
  ∫ s in Ioi (0:ℝ), exp (-k * s) * gaussPdf μ σ (t - s)

theorem sqrt2_pos : (0:ℝ) < √2 := by positivity

theorem closedForm_exponent (k μ σ t : ℝ) (hσ : σ ≠ 0) :
    k * σ / √2 * (k * σ / √2 - 2 * ((t - μ) / (σ * √2))) = k ^ 2 * σ ^ 2 / 2 - k * (t - μ) := by
  have := sqrt2_pos
  field_simp
  rw [Real.sq_sqrt (by norm_num : (0:ℝ) ≤ 2)]

theorem convolution_eq_closedForm (k μ σ t : ℝ) (hσ : 0 < σ) :
    convolution k μ σ t = closedForm k μ σ t := by
  unfold convolution
  have hs2 := sqrt2_pos
  have hb : 0 < σ * √2 := by positivity
  have hint : ∀ s : ℝ, exp (-k * s) * gaussPdf μ σ (t - s) =
      (1 / (σ * √(2 * π)) * exp (k ^ 2 * σ ^ 2 / 2 - k * (t - μ))) *
        exp (-((s - (t - μ - k * σ ^ 2)) / (σ * √2)) ^ 2) := by
    intro s
    unfold gaussPdf
    rw [mul_left_comm, mul_assoc, ← Real.exp_add, ← Real.exp_add]
    congr 2
    rw [div_pow, mul_pow, Real.sq_sqrt (by norm_num : (0:ℝ) ≤ 2)]
    field_simp
    ring
  simp_rw [hint]
  rw [integral_const_mul, integral_Ioi_shifted_gauss _ _ hb]
  unfold closedForm
  have e2 : (t - μ) / (σ * √2) - k * σ / √2 = (t - μ - k * σ ^ 2) / (σ * √2) := by
    field_simp
  rw [closedForm_exponent k μ σ t hσ.ne', e2, Real.sqrt_mul (by norm_num : (0:ℝ) ≤ 2)]
  have hpi : (0:ℝ) < √π := by positivity
  field_simp

/-! ### the branch decision -/

theorem ltNegSqrt2_iff (d : Rat) : ltNegSqrt2 d = true ↔ (d : ℝ) / √2 < -1 := by
  have h2 := sqrt2_pos
  rw [div_lt_iff₀ h2]
  unfold ltNegSqrt2
  simp only [Bool.and_eq_true, decide_eq_true_eq]
  constructor
  · rintro ⟨h0, hsq⟩
    have h0' : (d : ℝ) < 0 := by exact_mod_cast h0
    have hsq' : (2 : ℝ) < (d : ℝ) * d := by exact_mod_cast hsq
    have : √2 < -(d : ℝ) := by
      rw [Real.sqrt_lt' (by linarith)]
      nlinarith
    linarith
  · intro h
    have hneg : (d : ℝ) < 0 := by nlinarith
    have h1 : √2 < -(d : ℝ) := by linarith
    rw [Real.sqrt_lt' (by linarith)] at h1
    refine ⟨by exact_mod_cast hneg, ?_⟩
    have : (2 : ℝ) < (d : ℝ) * d := by nlinarith
    exact_mod_cast this

theorem threshT_real (k t c w : Rat) (hw : w ≠ 0) :
    (threshT k t c w : ℝ) = ((threshNum k t c w : Rat) : ℝ) / √2 := by
  have h2 := sqrt2_pos
  have hw' : (w : ℝ) ≠ 0 := by exact_mod_cast hw
  simp only [threshT, betaT, alphaT, threshNum, num_sub, num_div, num_ofRat, num_mul, num_sqrt2]
  push_cast
  field_simp

/-! ### folds are sums -/

/-- fold of `+=` from an accumulator = accumulator + sum -/
theorem foldl_entryStep_off (T k t : Rat) (gs : List (Rat × Rat × Rat)) (acc : ℝ) :
    gs.foldl (entryStep false T k t) acc
      = acc + (gs.map (fun g => (gaussEntry k t g.1 g.2.1 g.2.2 : ℝ))).sum := by
  induction gs generalizing acc with
  | nil => simp
  | cons g rest ih =>
    simp only [List.foldl_cons, List.map_cons, List.sum_cons]
    rw [ih]
    simp [entryStep, backsweepValid]
    ring

/-! ### plumbing -/

def dispPoly (dist : Rat) (i : Nat) (coefs : List Rat) : Rat :=
  ((coefs.zipIdx i).map (fun p => p.1 * dist ^ (p.2 + 1))).sum

/-- back-sweep period handed to the kernel -/
def periodOf (irf : Irf) : Rat := if irf.backsweep then irf.backsweepPeriod.getD 0 else 0

theorem shiftAt_none (i n : Nat) : shiftAt none (some i) n = .ok 0 := rfl
theorem shiftAt_some (sh : List Rat) (i n : Nat) (h : i < sh.length) :
    shiftAt (some sh) (some i) n = .ok (sh.getD i 0) := by
  simp only [shiftAt, Nat.not_le.mpr h, if_false]

theorem map_add_zero (l : List Rat) : l.map (fun v => v + 0) = l := by
  induction l with
  | nil => rfl
  | cons x xs ih => simp

/-- what `parameter` returns that does not depend on the global index -/
def Params.indexFree (p : Params) : List Rat × Bool × Rat × Nat × Nat :=
  (p.scales, p.backsweep, p.period, p.centers.length, p.widths.length)

theorem dispLoop_length (dist : Rat) (coefs : List Rat) : ∀ (i : Nat) (vs : List Rat),
    (dispLoop dist i coefs vs).length = vs.length := by
  induction coefs with
  | nil => intro i vs; rfl
  | cons d r ih => intro i vs; simp [dispLoop, ih]

theorem baseParameter_indexFree (irf : Irf) (gi gj : Option Nat) (n m : Nat) (p q : Params)
    (hp : baseParameter irf gi n = .ok p) (hq : baseParameter irf gj m = .ok q) :
    p.indexFree = q.indexFree ∧ p.centers = q.centers ∧ p.widths = q.widths := by
  unfold baseParameter at hp hq
  cases hb : broadcast irf.center irf.width with
  | none => simp [hb] at hp
  | some cw =>
    obtain ⟨cs, ws⟩ := cw
    simp only [hb] at hp hq
    split at hp
    · simp at hp
    · split at hq
      · simp at hq
      · cases hs1 : shiftAt irf.shift gi n with
        | error e => simp [hs1] at hp
        | ok s1 =>
          cases hs2 : shiftAt irf.shift gj m with
          | error e => simp [hs2] at hq
          | ok s2 =>
            simp only [hs1] at hp
            simp only [hs2] at hq
            cases hbs : irf.backsweep with
            | false =>
              simp only [hbs, Bool.false_eq_true, if_false, Except.ok.injEq] at hp hq
              subst hp; subst hq; simp [Params.indexFree]
            | true =>
              cases hT : irf.backsweepPeriod with
              | none => simp [hbs, hT] at hp
              | some T =>
                simp only [hbs, hT, if_true, Except.ok.injEq] at hp hq
                subst hp; subst hq; simp [Params.indexFree]

theorem spectralParameter_indexFree (irf : Irf) (gi gj : Option Nat) (axis : List Rat) (p q : Params)
    (hp : spectralParameter irf gi axis = .ok p) (hq : spectralParameter irf gj axis = .ok q) :
    p.indexFree = q.indexFree := by
  have key : ∀ (g : Option Nat) (r : Params), spectralParameter irf g axis = .ok r →
      ∃ b, baseParameter irf g axis.length = .ok b ∧ r.indexFree = b.indexFree := by
    intro g r h
    unfold spectralParameter at h
    cases hb : baseParameter irf g axis.length with
    | error e => simp [hb] at h
    | ok b =>
      refine ⟨b, rfl, ?_⟩
      simp only [hb] at h
      split at h
      · simp at h
      · split at h
        · simp at h
        · split at h
          · simp at h
          · split at h
            · simp at h
            · simp only [Except.ok.injEq] at h
              subst h
              simp only [Params.indexFree]
              split <;> split <;> simp [dispLoop_length]
  obtain ⟨b1, h1, e1⟩ := key gi p hp
  obtain ⟨b2, h2, e2⟩ := key gj q hq
  rw [e1, e2]
  exact (baseParameter_indexFree irf gi gj _ _ b1 b2 h1 h2).1

theorem mapM_ok {α β ε : Type} (f : α → Except ε β) : ∀ (l : List α) (r : List β),
    l.mapM f = .ok r → r.length = l.length ∧
      ∀ i (h : i < l.length), ∃ b, r[i]? = some b ∧ f l[i] = .ok b := by
  intro l
  induction l with
  | nil =>
    intro r h
    simp only [List.mapM_nil, pure, Except.pure, Except.ok.injEq] at h
    subst h
    simp
  | cons a rest ih =>
    intro r h
    simp only [List.mapM_cons, bind, Except.bind] at h
    cases hfa : f a with
    | error e => simp [hfa] at h
    | ok b =>
      simp only [hfa] at h
      cases hrest : rest.mapM f with
      | error e => simp [hrest] at h
      | ok bs =>
        simp only [hrest, pure, Except.pure, Except.ok.injEq] at h
        subst h
        obtain ⟨hl, hi⟩ := ih bs hrest
        refine ⟨by simp [hl], ?_⟩
        intro i h
        cases i with
        | zero => exact ⟨b, by simp, by simpa using hfa⟩
        | succ j =>
          have hj : j < rest.length := by simpa using h
          obtain ⟨b', hb1, hb2⟩ := hi j hj
          exact ⟨b', by simpa using hb1, by simpa using hb2⟩

/-- the parameters of all indices, as collected by `decay_matrix_implementation_index_dependent` -/
theorem allParams_spec (irf : Irf) (axis : List Rat) (ps : List Params)
    (h : (List.range axis.length).mapM (fun i => parameter irf (some i) axis) = .ok ps) :
    ps.length = axis.length ∧
      ∀ i, i < axis.length → ∃ p, ps[i]? = some p ∧ parameter irf (some i) axis = .ok p := by
  obtain ⟨hl, hi⟩ := mapM_ok _ _ _ h
  simp only [List.length_range] at hl hi
  refine ⟨hl, ?_⟩
  intro i hlt
  obtain ⟨b, hb1, hb2⟩ := hi i hlt
  exact ⟨b, hb1, by simpa using hb2⟩


end Glotaran.C05
