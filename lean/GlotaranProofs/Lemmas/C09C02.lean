/-
C09 ↔ C02 — the two hand-written models of `DataProviderLinked`'s alignment
(`Glotaran.C09` in GlotaranModel/C09.lean, used by C09; `Glotaran.C02.alignIndex/alignAxes/…` in
GlotaranModel/C02.lean, used by C02, C03, C08, C13, C14) are the same functions, for every input.
The theorems here are about the definitions both drivers execute.
-/
import GlotaranModel.C02
import GlotaranProofs.Lemmas.C09
import Mathlib.Tactic.SplitIfs
namespace Glotaran.C09

/-- the same method in C02's enumeration -/
def toC02 : Method → C02.Method
  | .nearest => .nearest
  | .backward => .backward
  | .forward => .forward

theorem c02_absR (r : Rat) : C02.absR r = absR r := rfl

/-- C02's method in C09's enumeration -/
def ofC02 : C02.Method → Method
  | .nearest => .nearest
  | .backward => .backward
  | .forward => .forward

theorem toC02_ofC02 (m : C02.Method) : toC02 (ofC02 m) = m := by cases m <;> rfl
theorem ofC02_toC02 (m : Method) : ofC02 (toC02 m) = m := by cases m <;> rfl

/-! ### `align_index` -/

/-- right-recursive first minimum of `|t - x|` (the shape of `firstMin`) on plain values -/
def fm (x : Rat) : List Rat → Option Rat
  | [] => none
  | t :: r =>
    match fm x r with
    | none => some t
    | some b => if absR (t - x) ≤ absR (b - x) then some t else some b

theorem firstMin_map (x : Rat) : ∀ r : List Rat,
    firstMin (r.map (fun t => (t, t - x))) = (fm x r).map (fun t => (t, t - x)) := by
  intro r
  induction r with
  | nil => simp [firstMin, fm]
  | cons t r ih =>
    simp only [List.map_cons, firstMin, fm, ih]
    cases fm x r with
    | none => simp
    | some b =>
      simp only [Option.map_some]
      split <;> simp

/-- C02's left fold with a strict comparison and C09's right recursion with `≤` both return the
    first minimum -/
theorem foldl_first_min (x : Rat) : ∀ (r : List Rat) (c : Rat),
    r.foldl (fun b t => if absR (t - x) < absR (b - x) then t else b) c =
      match fm x r with
      | none => c
      | some b => if absR (b - x) < absR (c - x) then b else c := by
  intro r
  induction r with
  | nil => intro c; simp [fm]
  | cons t r ih =>
    intro c
    simp only [List.foldl_cons, ih, fm]
    cases fm x r with
    | none => simp
    | some b =>
      by_cases h1 : absR (t - x) ≤ absR (b - x) <;> simp only [h1, if_true, if_false] <;>
        split_ifs <;> first | rfl | (exfalso; linarith)

theorem fm_cons (x c : Rat) (rest : List Rat) :
    fm x (c :: rest) =
      some (rest.foldl (fun b t => if absR (t - x) < absR (b - x) then t else b) c) := by
  rw [foldl_first_min]
  simp only [fm]
  cases fm x rest with
  | none => rfl
  | some b =>
    simp only
    split_ifs <;> first | rfl | (exfalso; linarith)

/-- C02's side filter as a function of its own -/
def side (m : C02.Method) (x t : Rat) : Bool :=
  match m with
  | .nearest => true
  | .forward => decide (x ≤ t)
  | .backward => decide (t ≤ x)

/-- what C02's `alignIndex` does with the filtered candidates -/
def c02Pick (x tol : Rat) (cands : List Rat) : Rat :=
  match cands with
  | [] => x
  | c :: rest =>
    if absR (rest.foldl (fun b t => if absR (t - x) < absR (b - x) then t else b) c - x) ≤ tol
    then rest.foldl (fun b t => if absR (t - x) < absR (b - x) then t else b) c else x

/-- what C09's `alignIndex` does with the first minimum -/
def c09Pick (x tol : Rat) (o : Option (Rat × Rat)) : Rat :=
  match o with
  | none => x
  | some b => if absR b.2 ≤ tol then b.1 else x

theorem c02_alignIndex_unfold (x : Rat) (target : List Rat) (tol : Rat) (m : C02.Method) :
    C02.alignIndex x target tol m = c02Pick x tol (target.filter (side m x)) := by
  cases m <;> rfl

theorem alignIndex_unfold (x : Rat) (target : List Rat) (tol : Rat) (m : Method) :
    alignIndex x target tol m = c09Pick x tol (firstMin (candidates m target x)) := rfl

theorem candidates_eq (m : Method) (target : List Rat) (x : Rat) :
    candidates m target x = (target.filter (side (toC02 m) x)).map (fun t => (t, t - x)) := by
  unfold candidates
  rw [List.filter_map]
  congr 1
  apply List.filter_congr
  intro t _
  cases m
  · rfl
  · simp only [Function.comp, keep, toC02, side, sub_nonpos]
  · simp only [Function.comp, keep, toC02, side, sub_nonneg]

theorem pick_eq (x tol : Rat) (cands : List Rat) :
    c02Pick x tol cands = c09Pick x tol ((fm x cands).map (fun t => (t, t - x))) := by
  cases cands with
  | nil => rfl
  | cons c rest => rw [fm_cons]; rfl

/-- **The two models of `align_index` are the same function.** -/
theorem c02_alignIndex_eq_c09 (x : Rat) (target : List Rat) (tol : Rat) (m : Method) :
    C02.alignIndex x target tol (toC02 m) = alignIndex x target tol m := by
  rw [c02_alignIndex_unfold, alignIndex_unfold, candidates_eq, firstMin_map, pick_eq]

/-! ### `np.unique`, the duplicate test -/

theorem c02_insertSorted_eq (x : Rat) : ∀ l : List Rat, C02.insertSorted x l = insertU x l := by
  intro l
  induction l with
  | nil => rfl
  | cons y ys ih => simp only [C02.insertSorted, insertU, ih]

theorem foldl_insert_sorted : ∀ (l acc : List Rat), acc.Pairwise (· < ·) →
    (l.foldl (fun a x => C02.insertSorted x a) acc).Pairwise (· < ·) ∧
    ∀ v, v ∈ l.foldl (fun a x => C02.insertSorted x a) acc ↔ v ∈ acc ∨ v ∈ l := by
  intro l
  induction l with
  | nil => intro acc h; simp [h]
  | cons x xs ih =>
    intro acc h
    simp only [List.foldl_cons]
    have h' : (C02.insertSorted x acc).Pairwise (· < ·) := by
      rw [c02_insertSorted_eq]; exact insertU_sorted x acc h
    obtain ⟨hs, hm⟩ := ih _ h'
    refine ⟨hs, ?_⟩
    intro v
    rw [hm v, c02_insertSorted_eq, mem_insertU]
    simp only [List.mem_cons]
    tauto

/-- inserting the elements one by one into the empty list (C02) is `np.unique` (C09) -/
theorem c02_sortedUnion_nil_eq (l : List Rat) : C02.sortedUnion [] l = unique l := by
  obtain ⟨hs, hm⟩ := foldl_insert_sorted l [] List.Pairwise.nil
  apply sorted_ext hs (unique_sorted l)
  intro a
  have := hm a
  simp only [List.not_mem_nil, false_or] at this
  rw [mem_unique]
  exact this

theorem c02_hasDup_false_iff : ∀ l : List Rat, C02.hasDup l = false ↔ l.Nodup := by
  intro l
  induction l with
  | nil => simp [C02.hasDup]
  | cons x xs ih =>
    simp only [C02.hasDup, Bool.or_eq_false_iff, ih, List.nodup_cons, List.contains_eq_mem,
      decide_eq_false_iff_not]

theorem c02_hasDup_eq (l : List Rat) : C02.hasDup l = hasDup l := by
  cases h : hasDup l with
  | false => exact (c02_hasDup_false_iff l).mpr ((hasDup_eq_false_iff l).mp h)
  | true =>
    cases h2 : C02.hasDup l with
    | true => rfl
    | false =>
      have := (hasDup_eq_false_iff l).mpr ((c02_hasDup_false_iff l).mp h2)
      rw [h] at this
      cases this

/-! ### `create_aligned_global_axes` -/

/-- one step of C02's fold -/
def c02Step (tol : Rat) (m : C02.Method) (acc : Option (List Rat × List (List Rat))) (ax : List Rat) :
    Option (List Rat × List (List Rat)) :=
  match acc with
  | none => none
  | some (vals, done) =>
    let al := ax.map (fun x => C02.alignIndex x vals tol m)
    if C02.hasDup al then none
    else some (C02.sortedUnion [] (vals ++ al), done ++ [al])

theorem c02Step_foldl_none (tol : Rat) (m : C02.Method) : ∀ rest : List (List Rat),
    rest.foldl (c02Step tol m) none = none := by
  intro rest
  induction rest with
  | nil => rfl
  | cons ax rest ih => simpa [c02Step] using ih

theorem c02_fold_eq_alignLoop (tol : Rat) (m : Method) : ∀ (rest : List (List Rat)) (vals : List Rat)
    (done : List (List Rat)),
    (rest.foldl (c02Step tol (toC02 m)) (some (vals, done))).map (·.2) =
      (alignLoop tol m (some vals) rest).map (done ++ ·) := by
  intro rest
  induction rest with
  | nil => intro vals done; simp [alignLoop]
  | cons ax rest ih =>
    intro vals done
    rw [List.foldl_cons, alignLoop_cons]
    have hal : ax.map (fun x => C02.alignIndex x vals tol (toC02 m)) = ax.map (fun x => alignIndex x vals tol m) :=
      List.map_congr_left (fun x _ => c02_alignIndex_eq_c09 x vals tol m)
    simp only [c02Step, hal, c02_hasDup_eq, c02_sortedUnion_nil_eq]
    split
    · rw [c02Step_foldl_none]; rfl
    · rw [ih, Option.map_map]
      congr 1
      funext l
      simp

theorem c02_alignAxes_unfold (axes : List (List Rat)) (tol : Rat) (m : C02.Method) :
    C02.alignAxes axes tol m =
      match axes with
      | [] => some []
      | first :: rest => (rest.foldl (c02Step tol m) (some (first, [first]))).map (·.2) := by
  cases axes <;> rfl

/-- **The two models of `create_aligned_global_axes` are the same function**: same aligned axes,
    same refusal (`none` = `AlignDatasetError`), for every list of axes (sorted or not, with or
    without repeated coordinates), tolerance and method. -/
theorem c02_alignAxes_eq_c09 (axes : List (List Rat)) (tol : Rat) (m : Method) :
    C02.alignAxes axes tol (toC02 m) = createAlignedAxes tol m axes := by
  rw [c02_alignAxes_unfold]
  cases axes with
  | nil => rfl
  | cons first rest =>
    simp only [c02_fold_eq_alignLoop, createAlignedAxes, alignLoop]
    congr 1

/-! ### the aligned axis and the members of an aligned point -/

theorem c02_alignedAxisOf_eq (aligned : List (List Rat)) : C02.alignedAxisOf aligned = alignedAxis aligned := by
  unfold C02.alignedAxisOf alignedAxis
  rw [← c02_sortedUnion_nil_eq]
  unfold C02.sortedUnion
  rw [List.foldl_flatten]

theorem posOf_eq_idxOf? (v : Rat) : ∀ a : List Rat, a.idxOf? v = posOf v a := by
  intro a
  induction a with
  | nil => rfl
  | cons y ys ih =>
    rw [List.idxOf?_cons, ih]
    simp only [posOf, beq_iff_eq]

/-- C02's member selection (zip with the aligned axes, `idxOf?`) picks, for any list `xs` of
    per-dataset things of the right length, the things at C09's member positions -/
theorem c02_members_general {α} (v : Rat) : ∀ (aligned : List (List Rat)) (xs : List α) (k : Nat),
    xs.length = aligned.length →
    (xs.zip aligned).filterMap (fun da => (da.2.idxOf? v).map (fun i => (da.1, i))) =
      (membersFrom v k aligned).filterMap (fun p => (xs[p.1 - k]?).map (fun d => (d, p.2))) := by
  intro aligned
  induction aligned with
  | nil => intro xs k _; simp [membersFrom]
  | cons a rest ih =>
    intro xs k hlen
    cases xs with
    | nil => simp at hlen
    | cons y ys =>
      have hlen' : ys.length = rest.length := by simpa using hlen
      have htail : (membersFrom v (k + 1) rest).filterMap (fun p => ((y :: ys)[p.1 - k]?).map (fun d => (d, p.2))) =
          (membersFrom v (k + 1) rest).filterMap (fun p => (ys[p.1 - (k + 1)]?).map (fun d => (d, p.2))) := by
        apply List.filterMap_congr
        intro p hp
        have hge := (membersFrom_sorted v rest (k + 1)).2 p hp
        have : p.1 - k = (p.1 - (k + 1)) + 1 := by omega
        rw [this, List.getElem?_cons_succ]
      have ih' := ih ys (k + 1) hlen'
      simp only [posOf_eq_idxOf?] at ih'
      simp only [List.zip_cons_cons, List.filterMap_cons, membersFrom, posOf_eq_idxOf?]
      cases hp : posOf v a with
      | none =>
        simp only [Option.map_none]
        rw [ih', htail]
      | some j =>
        simp only [Option.map_some, List.filterMap_cons, Nat.sub_self, List.getElem?_cons_zero]
        rw [ih', htail]

theorem c02_memberIdx_eq (aligned : List (List Rat)) (v : Rat) : C02.memberIdx aligned v = members aligned v := by
  unfold C02.memberIdx members
  rw [c02_members_general v aligned (List.range aligned.length) 0 (by simp)]
  have : ∀ p ∈ membersFrom v 0 aligned,
      ((List.range aligned.length)[p.1 - 0]?).map (fun d => (d, p.2)) = some p := by
    intro p hp
    obtain ⟨_, a, ha, _⟩ := (mem_membersFrom v aligned 0 p.1 p.2).mp hp
    have hlt : p.1 < aligned.length := by
      have := (List.getElem?_eq_some_iff.mp ha).1
      omega
    simp [List.getElem?_range hlt]
  rw [List.filterMap_congr this]
  simp


/-! ### the same statements for an arbitrary C02 method -/

theorem c02_alignIndex_eq_c09' (x : Rat) (target : List Rat) (tol : Rat) (m : C02.Method) :
    C02.alignIndex x target tol m = alignIndex x target tol (ofC02 m) := by
  rw [← c02_alignIndex_eq_c09, toC02_ofC02]

theorem c02_alignAxes_eq_c09' (axes : List (List Rat)) (tol : Rat) (m : C02.Method) :
    C02.alignAxes axes tol m = createAlignedAxes tol (ofC02 m) axes := by
  rw [← c02_alignAxes_eq_c09, toC02_ofC02]

/-! ### the stacked problems of `linkedProblems` -/
open Glotaran.LinAlg

theorem mapM_pair_fst {α β} (f : α → Option β) : ∀ (l : List α) (l' : List (α × β)),
    l.mapM (fun d => (f d).map (fun y => (d, y))) = some l' → l'.map (·.1) = l := by
  intro l
  induction l with
  | nil => intro l' h; simp at h; subst h; rfl
  | cons a l ih =>
    intro l' h
    rw [List.mapM_cons] at h
    cases hfa : f a with
    | none => simp [hfa] at h
    | some b =>
      cases hl : l.mapM (fun d => (f d).map (fun y => (d, y))) with
      | none => simp [hfa, hl] at h
      | some bs =>
        simp [hfa, hl] at h
        subst h
        simp [ih bs hl]

theorem getD_fst {α β} [Inhabited α] [Inhabited β] (l : List (α × β)) (i : Nat) :
    (l.getD i default).1 = (l.map (·.1)).getD i default := by
  simp only [List.getD_eq_getElem?_getD, List.getElem?_map]
  cases l[i]? <;> rfl

/-- **What C02's `linkedProblems` stacks**: the aligned axis is C09's `alignedAxis`, there is one
    problem per aligned point (in axis order), and the data vector of the problem at `v` is the
    weighted data columns of C09's `members` of `v`, concatenated in member order. -/
theorem c02_linkedProblems_tables (mi : C02.ModelItems) (g : C02.Group) (axis : List Rat)
    (ps : List C02.IndexProblem) (h : C02.linkedProblems mi g = some (axis, ps)) :
    ∃ aligned, C02.alignAxes (g.datasets.map (·.globalAxis)) g.tol g.method = some aligned ∧
      aligned.length = g.datasets.length ∧ axis = alignedAxis aligned ∧ ps.map (·.x) = axis ∧
      ps.map (·.data) = axis.map (fun v => (members aligned v).flatMap
        (fun p => col (g.datasets.getD p.1 default).weightedData p.2)) := by
  unfold C02.linkedProblems at h
  cases hal : C02.alignAxes (g.datasets.map (·.globalAxis)) g.tol g.method with
  | none => simp [hal] at h
  | some aligned =>
    cases hdms : g.datasets.mapM (fun d => (C02.datasetMatrix d.mcs).map (fun lm => (d, lm))) with
    | none => simp [hal, hdms] at h
    | some dms =>
      simp only [hal, hdms, Option.some.injEq, Prod.mk.injEq] at h
      obtain ⟨hax, hps⟩ := h
      have hfst : dms.map (·.1) = g.datasets := mapM_pair_fst _ _ _ hdms
      have hlen : aligned.length = g.datasets.length := by
        rw [c02_alignAxes_eq_c09'] at hal
        have := (createAlignedAxes_spec _ _ _ _ hal).1
        simpa using this
      have hdl : dms.length = aligned.length := by
        rw [hlen, ← hfst]; simp
      have haxis : axis = alignedAxis aligned := by
        rw [← hax, ← c02_alignedAxisOf_eq]; rfl
      refine ⟨aligned, rfl, hlen, haxis, ?_, ?_⟩
      · rw [← hps, List.map_map]
        simp [Function.comp_def, hax]
      · rw [← hps, List.map_map, hax]
        apply List.map_congr_left
        intro v _
        simp only [Function.comp]
        rw [c02_members_general v aligned dms 0 hdl]
        have hsome : ∀ p ∈ membersFrom v 0 aligned,
            (dms[p.1 - 0]?).map (fun d => (d, p.2)) = some (dms.getD p.1 default, p.2) := by
          intro p hp
          obtain ⟨_, a, ha, _⟩ := (mem_membersFrom v aligned 0 p.1 p.2).mp hp
          have hlt : p.1 < dms.length := by
            have := (List.getElem?_eq_some_iff.mp ha).1
            omega
          simp [List.getD_eq_getElem?_getD, List.getElem?_eq_getElem hlt]
        rw [List.filterMap_congr hsome]
        have hmap : (membersFrom v 0 aligned).filterMap (fun p => some (dms.getD p.1 default, p.2)) =
            (membersFrom v 0 aligned).map (fun p => (dms.getD p.1 default, p.2)) := by
          rw [← List.filterMap_eq_map]; rfl
        rw [hmap, List.flatMap_map]
        unfold members
        apply List.flatMap_congr
        intro p _
        rw [getD_fst, hfst]

end Glotaran.C09
