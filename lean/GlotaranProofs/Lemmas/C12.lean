/-
C12 — specification vocabulary and helper lemmas for the expression-parameter theorems.
-/
import GlotaranModel.C12
namespace Glotaran.C12

/-! ### vocabulary of the statements -/

def labels (ps : List Param) : List String := ps.map (·.label)

/-- labels are unique (a `Parameters` object keeps its parameters in a dict keyed by label) -/
def WF (ps : List Param) : Prop := (labels ps).Nodup

/-- `l` is the label of a parameter that has an expression -/
def IsExprLabel (ps : List Param) (l : String) : Prop := ∃ p ∈ ps, p.label = l ∧ p.expr.isSome

/-- every expression parameter holds the value of its expression on the current values -/
def Consistent (F : Funs) (ps : List Param) : Prop :=
  ∀ p ∈ ps, ∀ e, p.expr = some e → eval F ps e = .ok p.value

/-- `order` enumerates the expression parameters such that every expression parameter comes
    after all expression parameters it references (a topological order of the dependency
    graph; nothing is said about the *declaration* order) -/
def TopoOrder (ps : List Param) (order : List String) : Prop :=
  order.length ≤ exprCount ps ∧
  (∀ p ∈ ps, p.expr.isSome → p.label ∈ order) ∧
  ∀ p ∈ ps, ∀ e, p.expr = some e → ∀ l ∈ e.refs, IsExprLabel ps l →
    order.idxOf l < order.idxOf p.label

/-- the dependency graph of the expressions has no cycle -/
def Acyclic (ps : List Param) : Prop := ∃ order, TopoOrder ps order

/-- what never changes in an update: label and expression, in declaration order -/
def sk (p : Param) : String × Option Expr := (p.label, p.expr)
def Same (a b : List Param) : Prop := a.map sk = b.map sk

/-- everything but the value -/
def skel (p : Param) : Param := { p with value := none }

/-! ### lookups -/

theorem valueOf_setValue (env : List Param) (l l' : String) (v : Val) :
    valueOf (setValue env l v) l' =
      if l' = l then (valueOf env l').map (fun _ => v) else valueOf env l' := by
  induction env with
  | nil => simp [setValue, valueOf]
  | cons p rest ih =>
    simp only [setValue, List.map_cons] at ih ⊢
    by_cases hp : p.label = l <;> by_cases h2 : p.label = l' <;> by_cases hl : l' = l <;>
      simp_all [valueOf]

theorem valueOf_isSome_iff (env : List Param) (l : String) :
    (valueOf env l).isSome ↔ l ∈ labels env := by
  induction env with
  | nil => simp [valueOf, labels]
  | cons p rest ih =>
    by_cases h : p.label = l
    · simp [valueOf, labels, h]
    · have h' : l ≠ p.label := fun e => h e.symm
      simp only [valueOf, h, if_false, labels, List.map_cons, List.mem_cons, h', false_or]
      exact ih

theorem valueOf_of_mem {ps : List Param} (h : WF ps) {p : Param} (hp : p ∈ ps) :
    valueOf ps p.label = some p.value := by
  induction ps with
  | nil => cases hp
  | cons q rest ih =>
    have hn := List.nodup_cons.mp (show (q.label :: labels rest).Nodup from h)
    rcases List.mem_cons.mp hp with rfl | hr
    · simp [valueOf]
    · have : q.label ≠ p.label := by
        intro e; apply hn.1; rw [e]; exact List.mem_map.mpr ⟨p, hr, rfl⟩
      simp only [valueOf, this, if_false]
      exact ih hn.2 hr

theorem setValue_of_not_mem (env : List Param) (l : String) (v : Val) (h : l ∉ labels env) :
    setValue env l v = env := by
  induction env with
  | nil => rfl
  | cons p rest ih =>
    have h1 : p.label ≠ l := fun e => h (by simp [labels, e])
    have h2 : l ∉ labels rest := fun e => h (by simp [labels] at e ⊢; exact Or.inr e)
    simp only [setValue, List.map_cons, h1, if_false]
    congr 1
    exact ih h2

theorem setValue_same_value {env : List Param} (h : WF env) {l : String} {v : Val}
    (hv : valueOf env l = some v) : setValue env l v = env := by
  induction env with
  | nil => rfl
  | cons p rest ih =>
    have hn := List.nodup_cons.mp (show (p.label :: labels rest).Nodup from h)
    by_cases hp : p.label = l
    · simp only [valueOf, hp, if_true, Option.some.injEq] at hv
      have hnot : l ∉ labels rest := by rw [← hp]; exact hn.1
      have := setValue_of_not_mem rest l v hnot
      simp only [setValue, List.map_cons, hp, if_true] at this ⊢
      rw [this]
      cases p; simp_all
    · simp only [valueOf, hp, if_false] at hv
      simp only [setValue, List.map_cons, hp, if_false]
      congr 1
      exact ih hn.2 hv

/-! ### what `setValue` keeps -/

theorem setValue_sk (env : List Param) (l : String) (v : Val) :
    (setValue env l v).map sk = env.map sk := by
  simp only [setValue, List.map_map]
  apply List.map_congr_left
  intro p _
  by_cases h : p.label = l <;> simp [sk, h]

theorem setValue_skel (env : List Param) (l : String) (v : Val) :
    (setValue env l v).map skel = env.map skel := by
  simp only [setValue, List.map_map]
  apply List.map_congr_left
  intro p _
  by_cases h : p.label = l <;> simp [skel, h]

theorem same_refl (a : List Param) : Same a a := rfl
theorem same_symm {a b : List Param} (h : Same a b) : Same b a := Eq.symm h
theorem same_trans {a b c : List Param} (h : Same a b) (h' : Same b c) : Same a c := Eq.trans h h'

theorem same_labels {a b : List Param} (h : Same a b) : labels a = labels b := by
  have := congrArg (List.map Prod.fst) h
  simpa [labels, sk, List.map_map, Function.comp_def] using this

theorem same_wf {a b : List Param} (h : Same a b) (hb : WF b) : WF a := by
  unfold WF; rw [same_labels h]; exact hb

theorem same_mem {a b : List Param} (h : Same a b) {p : Param} (hp : p ∈ a) :
    ∃ q ∈ b, q.label = p.label ∧ q.expr = p.expr := by
  have : sk p ∈ b.map sk := by rw [← h]; exact List.mem_map.mpr ⟨p, hp, rfl⟩
  obtain ⟨q, hq, hs⟩ := List.mem_map.mp this
  simp only [sk, Prod.mk.injEq] at hs
  exact ⟨q, hq, hs.1, hs.2⟩

theorem same_isExprLabel {a b : List Param} (h : Same a b) {l : String} (hl : IsExprLabel a l) :
    IsExprLabel b l := by
  obtain ⟨p, hp, hl, he⟩ := hl
  obtain ⟨q, hq, h1, h2⟩ := same_mem h hp
  exact ⟨q, hq, h1.trans hl, by rw [h2]; exact he⟩

theorem same_exprCount {a b : List Param} (h : Same a b) : exprCount a = exprCount b := by
  have h1 : ∀ ps : List Param, exprCount ps = (ps.map sk).countP (fun s => s.2.isSome) := by
    intro ps
    simp only [exprCount, List.countP_map, ← List.countP_eq_length_filter]
    rfl
  rw [h1, h1, h]

theorem same_topo {a b : List Param} (h : Same a b) {order : List String}
    (hb : TopoOrder b order) : TopoOrder a order := by
  obtain ⟨h1, h2, h3⟩ := hb
  refine ⟨by rw [same_exprCount h]; exact h1, ?_, ?_⟩
  · intro p hp he
    obtain ⟨q, hq, hl, hx⟩ := same_mem h hp
    rw [← hl]; exact h2 q hq (by rw [hx]; exact he)
  · intro p hp e he l hl hil
    obtain ⟨q, hq, hlab, hx⟩ := same_mem h hp
    rw [← hlab]
    exact h3 q hq e (by rw [hx]; exact he) l hl (same_isExprLabel h hil)

/-! ### evaluation only looks at the referenced values -/

theorem eval_congr (F : Funs) (env env' : List Param) (e : Expr)
    (h : ∀ l ∈ e.refs, valueOf env l = valueOf env' l) : eval F env e = eval F env' e := by
  induction e with
  | lit q => rfl
  | ref l => simp [eval, h l (by simp [Expr.refs])]
  | neg a ih => simp [eval, ih (by simpa [Expr.refs] using h)]
  | add a b iha ihb | sub a b iha ihb | mul a b iha ihb | div a b iha ihb =>
    have ha := iha (fun l hl => h l (by simp [Expr.refs, hl]))
    have hb := ihb (fun l hl => h l (by simp [Expr.refs, hl]))
    simp [eval, ha, hb]
  | call1 f a ih => simp [eval, ih (by simpa [Expr.refs] using h)]
  | call2 f a b iha ihb =>
    have ha := iha (fun l hl => h l (by simp [Expr.refs, hl]))
    have hb := ihb (fun l hl => h l (by simp [Expr.refs, hl]))
    simp [eval, ha, hb]

theorem valNe_false {v : Val} {o : Option Val} (h : valNe v o = false) : o = some v := by
  cases v with
  | none => simp [valNe] at h
  | some a =>
    cases o with
    | none => simp [valNe] at h
    | some w =>
      cases w with
      | none => simp [valNe] at h
      | some b =>
        have : a = b := by simpa [valNe] using h
        rw [this]

/-! ### one pass -/

theorem passAux_same (F : Funs) : ∀ (todo env : List Param) (ch : Bool) (env' : List Param) (ch' : Bool),
    passAux F todo env ch = .ok (env', ch') → Same env' env ∧ env'.map skel = env.map skel := by
  intro todo
  induction todo with
  | nil =>
    intro env ch env' ch' h
    simp only [passAux, Except.ok.injEq, Prod.mk.injEq] at h
    rw [← h.1]; exact ⟨rfl, rfl⟩
  | cons q rest ih =>
    intro env ch env' ch' h
    unfold passAux at h
    split at h
    · exact ih _ _ _ _ h
    · split at h
      · cases h
      · obtain ⟨h1, h2⟩ := ih _ _ _ _ h
        exact ⟨h1.trans (setValue_sk _ _ _), h2.trans (setValue_skel _ _ _)⟩

/-- labels that no expression parameter of `todo` carries keep their value -/
theorem passAux_untouched (F : Funs) : ∀ (todo env : List Param) (ch : Bool) (env' : List Param)
    (ch' : Bool), passAux F todo env ch = .ok (env', ch') →
    ∀ l, (∀ p ∈ todo, p.expr.isSome → p.label ≠ l) → valueOf env' l = valueOf env l := by
  intro todo
  induction todo with
  | nil =>
    intro env ch env' ch' h l _
    simp only [passAux, Except.ok.injEq, Prod.mk.injEq] at h
    rw [← h.1]
  | cons q rest ih =>
    intro env ch env' ch' h l hl
    unfold passAux at h
    split at h
    · exact ih _ _ _ _ h l (fun p hp => hl p (List.mem_cons_of_mem _ hp))
    · rename_i e he
      split at h
      · cases h
      · have hq : q.label ≠ l := hl q (List.mem_cons_self) (by simp [he])
        rw [ih _ _ _ _ h l (fun p hp => hl p (List.mem_cons_of_mem _ hp)), valueOf_setValue]
        have hq' : ¬ l = q.label := fun e => hq e.symm
        simp [hq']

/-- every expression of the pass was evaluated on an environment that is, label by label,
    either the one before the pass or the one after it -/
theorem passAux_mix (F : Funs) : ∀ (todo env : List Param) (ch : Bool) (env' : List Param)
    (ch' : Bool), passAux F todo env ch = .ok (env', ch') → (labels todo).Nodup →
    ∀ p ∈ todo, ∀ e, p.expr = some e → (valueOf env p.label).isSome →
    ∃ envm v, eval F envm e = .ok v ∧ valueOf env' p.label = some v ∧
      ∀ l, valueOf envm l = valueOf env l ∨ valueOf envm l = valueOf env' l := by
  intro todo
  induction todo with
  | nil => intro env ch env' ch' _ _ p hp; cases hp
  | cons q rest ih =>
    intro env ch env' ch' h hnd p hp e he hsome
    have hn := List.nodup_cons.mp (show (q.label :: labels rest).Nodup from hnd)
    unfold passAux at h
    split at h
    · rename_i hq
      rcases List.mem_cons.mp hp with rfl | hr
      · rw [hq] at he; cases he
      · exact ih _ _ _ _ h hn.2 p hr e he hsome
    · rename_i eq hq
      split at h
      · cases h
      · rename_i vq hev
        have hrest : ∀ r ∈ rest, r.expr.isSome → r.label ≠ q.label := by
          intro r hr _ e'
          apply hn.1; rw [← e']; exact List.mem_map.mpr ⟨r, hr, rfl⟩
        have hq' : valueOf env' q.label = (valueOf env q.label).map (fun _ => vq) := by
          rw [passAux_untouched F _ _ _ _ _ h q.label hrest, valueOf_setValue]; simp
        rcases List.mem_cons.mp hp with rfl | hr
        · rw [hq] at he; cases he
          refine ⟨env, vq, hev, ?_, fun l => Or.inl rfl⟩
          rw [hq']
          cases hv : valueOf env p.label with
          | none => simp [hv] at hsome
          | some w => rfl
        · have hsome' : (valueOf (setValue env q.label vq) p.label).isSome := by
            rw [valueOf_setValue]; split <;> simp [hsome]
          obtain ⟨envm, v, h1, h2, h3⟩ := ih _ _ _ _ h hn.2 p hr e he hsome'
          refine ⟨envm, v, h1, h2, ?_⟩
          intro l
          rcases h3 l with h4 | h4
          · rw [valueOf_setValue] at h4
            by_cases hl : l = q.label
            · subst hl
              right; rw [h4, hq']; simp
            · left; simpa [hl] using h4
          · exact Or.inr h4

/-- a pass that reports "nothing changed" changed nothing, and every expression evaluates to
    the value its parameter already has -/
theorem passAux_quiet (F : Funs) : ∀ (todo env : List Param) (ch : Bool) (env' : List Param),
    passAux F todo env ch = .ok (env', false) → WF env →
    ch = false ∧ env' = env ∧
      ∀ p ∈ todo, ∀ e, p.expr = some e → ∃ v, eval F env e = .ok v ∧ valueOf env p.label = some v := by
  intro todo
  induction todo with
  | nil =>
    intro env ch env' h _
    simp only [passAux, Except.ok.injEq, Prod.mk.injEq] at h
    exact ⟨h.2, h.1.symm, fun p hp => by cases hp⟩
  | cons q rest ih =>
    intro env ch env' h hwf
    unfold passAux at h
    split at h
    · rename_i hq
      obtain ⟨h1, h2, h3⟩ := ih _ _ _ h hwf
      refine ⟨h1, h2, ?_⟩
      intro p hp e he
      rcases List.mem_cons.mp hp with rfl | hr
      · rw [hq] at he; cases he
      · exact h3 p hr e he
    · rename_i eq hq
      split at h
      · cases h
      · rename_i vq hev
        have hwf' : WF (setValue env q.label vq) := same_wf (setValue_sk _ _ _) hwf
        obtain ⟨h1, h2, h3⟩ := ih _ _ _ h hwf'
        have hch : ch = false ∧ valNe vq (valueOf env q.label) = false := by
          simpa [Bool.or_eq_false_iff] using h1
        have hval := valNe_false hch.2
        have hset : setValue env q.label vq = env := setValue_same_value hwf hval
        rw [hset] at h2 h3
        refine ⟨hch.1, h2, ?_⟩
        intro p hp e he
        rcases List.mem_cons.mp hp with rfl | hr
        · rw [hq] at he; cases he
          exact ⟨vq, hev, hval⟩
        · exact h3 p hr e he

/-- on a consistent state a pass stores every value again and leaves the state as it is -/
theorem passAux_of_consistent (F : Funs) (env : List Param) (hwf : WF env) :
    ∀ (todo : List Param) (ch : Bool),
    (∀ p ∈ todo, ∀ e, p.expr = some e → ∃ v, eval F env e = .ok v ∧ valueOf env p.label = some v) →
    ∃ ch', passAux F todo env ch = .ok (env, ch') := by
  intro todo
  induction todo with
  | nil => intro ch _; exact ⟨ch, rfl⟩
  | cons q rest ih =>
    intro ch h
    have hrest := fun p hp => h p (List.mem_cons_of_mem _ hp)
    unfold passAux
    split
    · exact ih ch hrest
    · rename_i eq hq
      obtain ⟨v, hev, hval⟩ := h q List.mem_cons_self eq hq
      rw [hev]
      simp only
      rw [setValue_same_value hwf hval]
      exact ih _ hrest

/-- a parameter whose label no expression parameter of `todo` carries survives the pass -/
theorem passAux_keeps (F : Funs) : ∀ (todo env : List Param) (ch : Bool) (env' : List Param)
    (ch' : Bool), passAux F todo env ch = .ok (env', ch') →
    ∀ p ∈ env, (∀ q ∈ todo, q.expr.isSome → q.label ≠ p.label) → p ∈ env' := by
  intro todo
  induction todo with
  | nil =>
    intro env ch env' ch' h p hp _
    simp only [passAux, Except.ok.injEq, Prod.mk.injEq] at h
    rw [← h.1]; exact hp
  | cons q rest ih =>
    intro env ch env' ch' h p hp hl
    unfold passAux at h
    split at h
    · exact ih _ _ _ _ h p hp (fun r hr => hl r (List.mem_cons_of_mem _ hr))
    · rename_i e he
      split at h
      · cases h
      · have hq : q.label ≠ p.label := hl q List.mem_cons_self (by simp [he])
        refine ih _ _ _ _ h p ?_ (fun r hr => hl r (List.mem_cons_of_mem _ hr))
        simp only [setValue]
        have hq' : ¬ p.label = q.label := fun e => hq e.symm
        exact List.mem_map.mpr ⟨p, hp, by simp [hq']⟩

/-! ### repeated passes: after `k` passes the expression parameters of depth `< k` are settled -/

/-- consistency restricted to the expression parameters that come before position `k` of the
    topological order -/
def InvK (F : Funs) (order : List String) (k : Nat) (ps : List Param) : Prop :=
  ∀ p ∈ ps, ∀ e, p.expr = some e → order.idxOf p.label < k → eval F ps e = .ok p.value

theorem pass_nonexpr (F : Funs) {ps ps' : List Param} {ch : Bool}
    (hp : pass F ps = .ok (ps', ch)) (l : String) (hl : ¬ IsExprLabel ps l) :
    valueOf ps' l = valueOf ps l :=
  passAux_untouched F ps ps false ps' ch hp l (fun p hpm he e => hl ⟨p, hpm, e, he⟩)

/-- settled parameters (and everything that is not an expression parameter) are not changed by
    a further pass -/
theorem pass_frozen (F : Funs) {ps ps' : List Param} {ch : Bool} {order : List String} {k : Nat}
    (hwf : WF ps) (ht : TopoOrder ps order) (hinv : InvK F order k ps)
    (hp : pass F ps = .ok (ps', ch)) :
    ∀ n l, order.idxOf l = n → order.idxOf l < k → IsExprLabel ps l →
      valueOf ps' l = valueOf ps l := by
  intro n
  induction n using Nat.strongRecOn with
  | _ n ih =>
    intro l hn hk hx
    obtain ⟨p, hpm, hpl, hpe⟩ := hx
    obtain ⟨e, he⟩ := Option.isSome_iff_exists.mp hpe
    have hval := valueOf_of_mem hwf hpm
    have hsome : (valueOf ps p.label).isSome := by rw [hval]; rfl
    obtain ⟨envm, v, h1, h2, h3⟩ := passAux_mix F ps ps false ps' ch hp hwf p hpm e he hsome
    have hcongr : eval F envm e = eval F ps e := by
      apply eval_congr
      intro r hr
      rcases h3 r with h4 | h4
      · exact h4
      · rw [h4]
        by_cases hrx : IsExprLabel ps r
        · have hlt := ht.2.2 p hpm e he r hr hrx
          rw [hpl, hn] at hlt
          exact ih _ hlt r rfl (by omega) hrx
        · exact pass_nonexpr F hp r hrx
    have hev := hinv p hpm e he (by rw [hpl]; exact hk)
    rw [hcongr, hev] at h1
    cases h1
    rw [← hpl, h2, hval]

theorem pass_frozen' (F : Funs) {ps ps' : List Param} {ch : Bool} {order : List String} {k : Nat}
    (hwf : WF ps) (ht : TopoOrder ps order) (hinv : InvK F order k ps)
    (hp : pass F ps = .ok (ps', ch)) (l : String)
    (hl : ¬ IsExprLabel ps l ∨ order.idxOf l < k) : valueOf ps' l = valueOf ps l := by
  by_cases hx : IsExprLabel ps l
  · rcases hl with h | h
    · exact absurd hx h
    · exact pass_frozen F hwf ht hinv hp _ l rfl h hx
  · exact pass_nonexpr F hp l hx

/-- one more pass settles one more level -/
theorem pass_inv (F : Funs) {ps ps' : List Param} {ch : Bool} {order : List String} {k : Nat}
    (hwf : WF ps) (ht : TopoOrder ps order) (hinv : InvK F order k ps)
    (hp : pass F ps = .ok (ps', ch)) : InvK F order (k + 1) ps' := by
  intro p' hp' e he hk
  have hsame := (passAux_same F ps ps false ps' ch hp).1
  have hwf' : WF ps' := same_wf hsame hwf
  obtain ⟨p, hpm, hlab, hexp⟩ := same_mem hsame hp'
  have he' : p.expr = some e := by rw [hexp]; exact he
  have hsome : (valueOf ps p.label).isSome := by rw [valueOf_of_mem hwf hpm]; rfl
  obtain ⟨envm, v, h1, h2, h3⟩ := passAux_mix F ps ps false ps' ch hp hwf p hpm e he' hsome
  have hv : p'.value = v := by
    have := valueOf_of_mem hwf' hp'
    rw [← hlab, h2] at this
    exact (Option.some.inj this).symm
  have hcongr : eval F ps' e = eval F envm e := by
    apply eval_congr
    intro r hr
    rcases h3 r with h4 | h4
    · rw [h4]
      apply pass_frozen' F hwf ht hinv hp
      by_cases hrx : IsExprLabel ps r
      · right
        have hlt := ht.2.2 p hpm e he' r hr hrx
        rw [hlab] at hlt
        omega
      · exact Or.inl hrx
    · exact h4.symm
  rw [hcongr, h1, hv]

theorem loop_same (F : Funs) : ∀ (n : Nat) (ps ps' : List Param), loop F n ps = .ok ps' →
    Same ps' ps ∧ ps'.map skel = ps.map skel := by
  intro n
  induction n with
  | zero => intro ps ps' h; simp only [loop, Except.ok.injEq] at h; rw [← h]; exact ⟨rfl, rfl⟩
  | succ n ih =>
    intro ps ps' h
    unfold loop at h
    split at h
    · cases h
    · rename_i env1 ch hp
      have h1 := passAux_same F ps ps false env1 ch hp
      split at h
      · obtain ⟨h2, h3⟩ := ih _ _ h
        exact ⟨h2.trans h1.1, h3.trans h1.2⟩
      · simp only [Except.ok.injEq] at h; rw [← h]; exact h1

theorem loop_consistent (F : Funs) (order : List String) : ∀ (n k : Nat) (ps ps' : List Param),
    WF ps → TopoOrder ps order → InvK F order k ps → order.length ≤ k + n →
    loop F n ps = .ok ps' → Consistent F ps' := by
  intro n
  induction n with
  | zero =>
    intro k ps ps' _ ht hinv hlen h
    simp only [loop, Except.ok.injEq] at h
    rw [← h]
    intro p hp e he
    apply hinv p hp e he
    have : p.label ∈ order := ht.2.1 p hp (by simp [he])
    have := List.idxOf_lt_length_of_mem this
    omega
  | succ n ih =>
    intro k ps ps' hwf ht hinv hlen h
    unfold loop at h
    split at h
    · cases h
    · rename_i env1 ch hp
      have hsame := (passAux_same F ps ps false env1 ch hp).1
      split at h
      · exact ih (k + 1) env1 ps' (same_wf hsame hwf) (same_topo hsame ht)
          (pass_inv F hwf ht hinv hp) (by omega) h
      · rename_i hch
        simp only [Except.ok.injEq] at h
        have hch' : ch = false := by simpa using hch
        subst hch'
        obtain ⟨_, h2, h3⟩ := passAux_quiet F ps ps false env1 hp hwf
        rw [← h, h2]
        intro p hpm e he
        obtain ⟨v, hv1, hv2⟩ := h3 p hpm e he
        rw [valueOf_of_mem hwf hpm] at hv2
        rw [hv1, Option.some.inj hv2]

/-- on a consistent state every further pass is the identity -/
theorem loop_of_consistent (F : Funs) {ps : List Param} (hwf : WF ps) (hc : Consistent F ps) :
    ∀ n, loop F n ps = .ok ps := by
  intro n
  induction n with
  | zero => rfl
  | succ n ih =>
    obtain ⟨ch', h⟩ := passAux_of_consistent F ps hwf ps false
      (fun p hp e he => ⟨p.value, hc p hp e he, valueOf_of_mem hwf hp⟩)
    unfold loop pass
    rw [h]
    simp only
    split
    · exact ih
    · rfl

theorem loop_keeps (F : Funs) : ∀ (n : Nat) (ps ps' : List Param), loop F n ps = .ok ps' →
    ∀ p ∈ ps, (∀ q ∈ ps, q.expr.isSome → q.label ≠ p.label) → p ∈ ps' := by
  intro n
  induction n with
  | zero => intro ps ps' h p hp _; simp only [loop, Except.ok.injEq] at h; rw [← h]; exact hp
  | succ n ih =>
    intro ps ps' h p hp hl
    unfold loop at h
    split at h
    · cases h
    · rename_i env1 ch hpass
      have hk := passAux_keeps F ps ps false env1 ch hpass p hp hl
      have hsame := (passAux_same F ps ps false env1 ch hpass).1
      split at h
      · refine ih _ _ h p hk ?_
        intro q hq he
        obtain ⟨q0, hq0, h1, h2⟩ := same_mem hsame hq
        rw [← h1]; exact hl q0 hq0 (by rw [h2]; exact he)
      · simp only [Except.ok.injEq] at h; rw [← h]; exact hk

theorem loop_nonexpr (F : Funs) : ∀ (n : Nat) (ps ps' : List Param), loop F n ps = .ok ps' →
    ∀ l, ¬ IsExprLabel ps l → valueOf ps' l = valueOf ps l := by
  intro n
  induction n with
  | zero => intro ps ps' h l _; simp only [loop, Except.ok.injEq] at h; rw [← h]
  | succ n ih =>
    intro ps ps' h l hl
    unfold loop at h
    split at h
    · cases h
    · rename_i env1 ch hpass
      have h1 := pass_nonexpr F hpass l hl
      have hsame := (passAux_same F ps ps false env1 ch hpass).1
      split at h
      · rw [ih _ _ h l (fun hx => hl (same_isExprLabel hsame hx)), h1]
      · simp only [Except.ok.injEq] at h; rw [← h]; exact h1

/-! ### labels identify parameters -/

theorem eq_of_label_eq {ps : List Param} (h : WF ps) {p q : Param} (hq : q ∈ ps) (hp : p ∈ ps)
    (hl : q.label = p.label) : q = p := by
  induction ps with
  | nil => cases hp
  | cons r rest ih =>
    have hn := List.nodup_cons.mp (show (r.label :: labels rest).Nodup from h)
    rcases List.mem_cons.mp hq with rfl | hq' <;> rcases List.mem_cons.mp hp with rfl | hp'
    · rfl
    · exact absurd (List.mem_map.mpr ⟨p, hp', hl.symm⟩) hn.1
    · exact absurd (List.mem_map.mpr ⟨q, hq', hl⟩) hn.1
    · exact ih hn.2 hq' hp'

theorem find_some {env : List Param} {l : String} {p : Param} (h : find env l = some p) :
    p ∈ env ∧ p.label = l := by
  induction env with
  | nil => simp [find] at h
  | cons q rest ih =>
    unfold find at h
    split at h
    · rename_i hq
      cases h
      exact ⟨List.mem_cons_self, hq⟩
    · obtain ⟨h1, h2⟩ := ih h
      exact ⟨List.mem_cons_of_mem _ h1, h2⟩

theorem mem_of_skel {a b : List Param} (h : a.map skel = b.map skel) {p : Param} (hp : p ∈ a) :
    ∃ q ∈ b, skel q = skel p := by
  have : skel p ∈ b.map skel := by rw [← h]; exact List.mem_map.mpr ⟨p, hp, rfl⟩
  obtain ⟨q, hq, hs⟩ := List.mem_map.mp this
  exact ⟨q, hq, hs⟩

/-! ### `set_from_label_and_value_arrays` -/

theorem setAll_same (F : Funs) : ∀ (pairs : List (String × Val)) (env env' : List Param),
    setAll F env pairs = .ok env' → Same env' env := by
  intro pairs
  induction pairs with
  | nil => intro env env' h; simp only [setAll, Except.ok.injEq] at h; rw [← h]; exact rfl
  | cons lv rest ih =>
    intro env env' h
    obtain ⟨l, v⟩ := lv
    unfold setAll at h
    split at h
    · cases h
    · split at h
      · cases h
      · exact (ih _ _ h).trans (setValue_sk _ _ _)

theorem setAll_untouched (F : Funs) : ∀ (pairs : List (String × Val)) (env env' : List Param),
    setAll F env pairs = .ok env' → ∀ l, l ∉ pairs.map Prod.fst → valueOf env' l = valueOf env l := by
  intro pairs
  induction pairs with
  | nil => intro env env' h l _; simp only [setAll, Except.ok.injEq] at h; rw [← h]
  | cons lv rest ih =>
    intro env env' h l hl
    obtain ⟨l0, v0⟩ := lv
    have h0 : ¬ l = l0 := fun e => hl (by simp [e])
    have hr : l ∉ rest.map Prod.fst := fun e => hl (by simp only [List.map_cons, List.mem_cons]; exact Or.inr e)
    unfold setAll at h
    split at h
    · cases h
    · split at h
      · cases h
      · rw [ih _ _ h l hr, valueOf_setValue]; simp [h0]

theorem setAll_value (F : Funs) : ∀ (pairs : List (String × Val)) (env env' : List Param),
    setAll F env pairs = .ok env' → WF env → (pairs.map Prod.fst).Nodup →
    ∀ l v, (l, v) ∈ pairs →
      ∃ p ∈ env, p.label = l ∧ ∃ v', fromOptimization F p v = some v' ∧ valueOf env' l = some v' := by
  intro pairs
  induction pairs with
  | nil => intro env env' _ _ _ l v hm; cases hm
  | cons lv rest ih =>
    intro env env' h hwf hnd l v hm
    obtain ⟨l0, v0⟩ := lv
    have hn := List.nodup_cons.mp (show (l0 :: rest.map Prod.fst).Nodup from hnd)
    unfold setAll at h
    split at h
    · cases h
    · rename_i p0 hfind
      split at h
      · cases h
      · rename_i v0' hopt
        obtain ⟨hp0, hl0⟩ := find_some hfind
        rcases List.mem_cons.mp hm with heq | hr
        · cases heq
          refine ⟨p0, hp0, hl0, v0', hopt, ?_⟩
          rw [setAll_untouched F _ _ _ h l hn.1, valueOf_setValue]
          have : valueOf env l = some p0.value := by rw [← hl0]; exact valueOf_of_mem hwf hp0
          simp [this]
        · have hwf1 : WF (setValue env l0 v0') := same_wf (setValue_sk _ _ _) hwf
          obtain ⟨p1, hp1, hl1, v', hv', hval⟩ := ih _ _ h hwf1 hn.2 l v hr
          obtain ⟨q, hq, hs⟩ := mem_of_skel (setValue_skel env l0 v0') hp1
          have hlab : q.label = p1.label := by have := congrArg Param.label hs; simpa [skel] using this
          have hnn : q.nonNeg = p1.nonNeg := by have := congrArg Param.nonNeg hs; simpa [skel] using this
          refine ⟨q, hq, hlab.trans hl1, v', ?_, hval⟩
          simpa [fromOptimization, hnn] using hv'

/-! ### the constructor -/

theorem normalize_label (p : Param) : (normalize p).label = p.label := by
  unfold normalize; split <;> rfl

theorem normalize_sk (p : Param) : sk (normalize p) = sk p := by
  unfold normalize; split <;> rfl

theorem map_normalize_same (ps : List Param) : Same (ps.map normalize) ps := by
  simp only [Same, List.map_map]
  apply List.map_congr_left
  intro p _
  exact normalize_sk p

theorem dictInsert_wf (d : List Param) (p : Param) (h : WF d) : WF (dictInsert d p) := by
  unfold dictInsert
  split
  · have : labels (d.map (fun q => if q.label = p.label then p else q)) = labels d := by
      simp only [labels, List.map_map]
      apply List.map_congr_left
      intro q _
      by_cases hq : q.label = p.label <;> simp [hq]
    unfold WF; rw [this]; exact h
  · rename_i hany
    have hnot : ∀ a ∈ labels d, a ≠ p.label := by
      intro a ha e
      obtain ⟨q, hq, hql⟩ := List.mem_map.mp ha
      apply hany
      simp only [List.any_eq_true, decide_eq_true_eq]
      exact ⟨q, hq, hql.trans e⟩
    show (labels (d ++ [p])).Nodup
    simp only [labels, List.map_append, List.map_cons, List.map_nil]
    refine List.nodup_append.mpr ⟨h, by simp, ?_⟩
    intro a ha b hb
    simp only [List.mem_cons, List.not_mem_nil, or_false] at hb
    rw [hb]; exact hnot a ha

theorem foldl_dictInsert_wf : ∀ (items acc : List Param), WF acc →
    WF (items.foldl (fun d p => dictInsert d (normalize p)) acc) := by
  intro items
  induction items with
  | nil => intro acc h; exact h
  | cons p rest ih => intro acc h; exact ih _ (dictInsert_wf acc (normalize p) h)

theorem ofList_wf (items : List Param) : WF (ofList items) :=
  foldl_dictInsert_wf items [] (by simp [WF, labels])

theorem foldl_dictInsert_of_nodup : ∀ (items acc : List Param), (labels (acc ++ items)).Nodup →
    items.foldl (fun d p => dictInsert d (normalize p)) acc = acc ++ items.map normalize := by
  intro items
  induction items with
  | nil => intro acc _; simp
  | cons p rest ih =>
    intro acc h
    have hsplit : labels (acc ++ p :: rest) = labels acc ++ p.label :: labels rest := by
      simp [labels]
    rw [hsplit] at h
    obtain ⟨h1, h2, h3⟩ := List.nodup_append.mp h
    have hins : dictInsert acc (normalize p) = acc ++ [normalize p] := by
      unfold dictInsert
      split
      · rename_i hany
        simp only [List.any_eq_true, decide_eq_true_eq, normalize_label] at hany
        obtain ⟨q, hq, hql⟩ := hany
        exact absurd hql (h3 q.label (List.mem_map.mpr ⟨q, hq, rfl⟩) p.label (by simp))
      · rfl
    simp only [List.foldl_cons, hins]
    rw [ih (acc ++ [normalize p])]
    · simp
    · have : labels ((acc ++ [normalize p]) ++ rest) = labels acc ++ p.label :: labels rest := by
        simp [labels, normalize_label]
      rw [this]; exact h

theorem ofList_of_wf (ps : List Param) (h : WF ps) : ofList ps = ps.map normalize := by
  have := foldl_dictInsert_of_nodup ps [] (by rw [List.nil_append]; exact h)
  simpa [ofList] using this

/-! ### topological order from a rank function -/

theorem rank_le_of_idxOf_le (r : String → Nat) : ∀ (L : List String),
    L.Pairwise (fun a b => r a ≤ r b) → ∀ x y, x ∈ L → y ∈ L → L.idxOf x ≤ L.idxOf y → r x ≤ r y := by
  intro L
  induction L with
  | nil => intro _ x y hx; cases hx
  | cons h t ih =>
    intro hp x y hx hy hidx
    obtain ⟨h1, h2⟩ := List.pairwise_cons.mp hp
    by_cases hxh : h = x
    · subst hxh
      rcases List.mem_cons.mp hy with rfl | hy'
      · exact Nat.le_refl _
      · exact h1 y hy'
    · by_cases hyh : h = y
      · subst hyh
        have bx : (h == x) = false := by simpa using hxh
        simp [List.idxOf_cons, bx] at hidx
      · have hx' : x ∈ t := by
          rcases List.mem_cons.mp hx with rfl | h'
          · exact absurd rfl hxh
          · exact h'
        have hy' : y ∈ t := by
          rcases List.mem_cons.mp hy with rfl | h'
          · exact absurd rfl hyh
          · exact h'
        have bx : (h == x) = false := by simpa using hxh
        have by' : (h == y) = false := by simpa using hyh
        simp [List.idxOf_cons, bx, by'] at hidx
        exact ih h2 x y hx' hy' hidx

end Glotaran.C12
