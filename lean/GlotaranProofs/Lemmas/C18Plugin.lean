/-
C18 — helper lemmas for the builtin result plugins after entry (`runResultPlugin`, `resultFiles`):
what a plugin call can change, and where the files it writes lie.
-/
import GlotaranProofs.Lemmas.C18FS
namespace Glotaran.C18

/-- every entry is unchanged, a newly created folder, or lies in `S` -/
def ChangedIn (S : Path → Prop) (fs fs' : FS) : Prop :=
  ∀ q, get fs' q = get fs q ∨ (get fs q = none ∧ get fs' q = some .dir) ∨ S q

theorem ChangedIn.refl (S : Path → Prop) (fs : FS) : ChangedIn S fs fs := fun _ => Or.inl rfl

theorem ChangedIn.of_grew {S : Path → Prop} {fs fs' : FS} (h : Grew fs fs') : ChangedIn S fs fs' := by
  intro q
  rcases h q with h | h
  · exact Or.inl h
  · exact Or.inr (Or.inl h)

theorem ChangedIn.mono {S T : Path → Prop} {fs fs' : FS} (h : ChangedIn S fs fs') (hst : ∀ q, S q → T q) :
    ChangedIn T fs fs' := by
  intro q
  rcases h q with h | h | h
  · exact Or.inl h
  · exact Or.inr (Or.inl h)
  · exact Or.inr (Or.inr (hst q h))

theorem ChangedIn.trans {S : Path → Prop} {a b c : FS} (h1 : ChangedIn S a b) (h2 : ChangedIn S b c) :
    ChangedIn S a c := by
  intro q
  rcases h2 q with h | ⟨hn, hd⟩ | h
  · rcases h1 q with h' | ⟨hn', hd'⟩ | h'
    · exact Or.inl (h.trans h')
    · exact Or.inr (Or.inl ⟨hn', h.trans hd'⟩)
    · exact Or.inr (Or.inr h')
  · rcases h1 q with h' | ⟨_, hd'⟩ | h'
    · exact Or.inr (Or.inl ⟨h' ▸ hn, hd⟩)
    · rw [hd'] at hn; cases hn
    · exact Or.inr (Or.inr h')
  · exact Or.inr (Or.inr h)

/-- outside `S` no file is created, removed or changed -/
theorem ChangedIn.file_iff {S : Path → Prop} {fs fs' : FS} (h : ChangedIn S fs fs') (q : Path) (hq : ¬ S q)
    (c : String) : get fs' q = some (.file c) ↔ get fs q = some (.file c) := by
  rcases h q with h | ⟨hn, hd⟩ | h
  · rw [h]
  · rw [hn, hd]; simp
  · exact absurd h hq

theorem writeAt_changed (w : World) (fs : FS) (q : Path) : ChangedIn (· = q) fs (writeAt w fs q).1 := by
  have hset : ChangedIn (· = q) fs (set fs q (.file (w.content q))) := by
    intro q'
    rw [get_set]
    by_cases h : q = q'
    · exact Or.inr (Or.inr h.symm)
    · simp [h]
  unfold writeAt
  split
  · exact ChangedIn.refl _ _
  · split
    · exact ChangedIn.refl _ _
    · split
      · exact ChangedIn.refl _ _
      · exact hset
      · exact hset

def PEffect.isKnown : PEffect → Bool
  | .unknownCall _ => false
  | _ => true

theorem runPEffect_changed (delegate : String → Path → FS → FS × Option Err) (inner : String → Path → List Path)
    (pl : ResultPlugin) (o : SaveOpts) (w : World) (p : Path) (eff : PEffect) (label : String) (fs : FS)
    (hk : eff.isKnown = true)
    (hdel : ∀ fmt t allow, eff = .delegate fmt t allow →
      ∀ q fs, ChangedIn (· ∈ inner fmt q) fs (delegate fmt q fs).1) :
    ChangedIn (· ∈ effTargets inner pl o p eff label) fs (runPEffect delegate pl o w p eff label fs).1 := by
  cases eff with
  | refuseIfFile t =>
    simp only [runPEffect]
    split <;> exact ChangedIn.refl _ _
  | mkdir t =>
    simp only [runPEffect]
    cases hm : mkdirP fs [] (targetPath pl o p label t) with
    | error e => exact ChangedIn.refl _ _
    | ok fs1 => exact ChangedIn.of_grew (mkdirP_grew fs [] _ fs1 hm)
  | write via t allow =>
    simp only [runPEffect, effTargets]
    have hw : ∀ fs0, ChangedIn (· ∈ [targetPath pl o p label t]) fs0 (writeAt w fs0 (targetPath pl o p label t)).1 :=
      fun fs0 => (writeAt_changed w fs0 _).mono (fun q h => by simp [h])
    split
    · have hg := protect_grew fs (targetPath pl o p label t) (allowOf allow)
      cases hp : protect fs (targetPath pl o p label t) (allowOf allow) with
      | mk fs1 e =>
        rw [hp] at hg
        cases e with
        | some e => exact ChangedIn.of_grew hg
        | none => exact (ChangedIn.of_grew hg).trans (hw fs1)
    · exact hw fs
  | delegate fmt t allow =>
    simp only [runPEffect, effTargets]
    have hg := protect_grew fs (targetPath pl o p label t) (allowOf allow)
    cases hp : protect fs (targetPath pl o p label t) (allowOf allow) with
    | mk fs1 e =>
      rw [hp] at hg
      cases e with
      | some e => exact ChangedIn.of_grew hg
      | none => exact (ChangedIn.of_grew hg).trans (hdel fmt t allow rfl _ fs1)
  | unknownCall n => simp [PEffect.isKnown] at hk

theorem runPSteps_changed (delegate : String → Path → FS → FS × Option Err) (inner : String → Path → List Path)
    (pl : ResultPlugin) (o : SaveOpts) (w : World) (p : Path) :
    ∀ (steps : List (PEffect × String)) (fs : FS), (∀ s ∈ steps, s.1.isKnown = true) →
      (∀ s ∈ steps, ∀ fmt t allow, s.1 = .delegate fmt t allow →
        ∀ q fs, ChangedIn (· ∈ inner fmt q) fs (delegate fmt q fs).1) →
      ChangedIn (· ∈ stepTargets inner pl o p steps) fs (runPSteps delegate pl o w p steps fs).1
  | [], fs, _, _ => ChangedIn.refl _ _
  | (eff, label) :: rest, fs, hk, hdel => by
    have h1 := (runPEffect_changed delegate inner pl o w p eff label fs (hk (eff, label) (by simp))
      (hdel (eff, label) (by simp))).mono
      (T := (· ∈ stepTargets inner pl o p ((eff, label) :: rest))) (fun q h => by simp [stepTargets, h])
    simp only [runPSteps]
    cases hr : runPEffect delegate pl o w p eff label fs with
    | mk fs' e =>
      rw [hr] at h1
      cases e with
      | some e => exact h1
      | none =>
        have h2 := (runPSteps_changed delegate inner pl o w p rest fs'
          (fun s hs => hk s (List.mem_cons_of_mem _ hs)) (fun s hs => hdel s (List.mem_cons_of_mem _ hs))).mono
          (T := (· ∈ stepTargets inner pl o p ((eff, label) :: rest))) (fun q h => by simp [stepTargets, h])
        exact h1.trans h2

/-! ### the expanded steps come from the table -/

theorem mem_flushBody (o : SaveOpts) (body : List PEffect) (e : PEffect) (l : String)
    (h : (e, l) ∈ flushBody o body) : e ∈ body := by
  simp only [flushBody, List.mem_flatMap, List.mem_map] at h
  obtain ⟨_, _, e', he', heq⟩ := h
  cases heq; exact he'

theorem mem_expandAux (o : SaveOpts) (steps : List PStep) (body : List PEffect) (e : PEffect) (l : String)
    (h : (e, l) ∈ expandAux o steps body) : e ∈ body ∨ ∃ s ∈ steps, s.eff = e := by
  induction steps generalizing body with
  | nil => exact Or.inl (mem_flushBody o body e l h)
  | cons s rest ih =>
    have key : ∀ (h' : (e, l) ∈ flushBody o body ++ (s.eff, "") :: expandAux o rest []),
        e ∈ body ∨ ∃ s' ∈ s :: rest, s'.eff = e := by
      intro h'
      rcases List.mem_append.mp h' with h1 | h1
      · exact Or.inl (mem_flushBody o body e l h1)
      · rcases List.mem_cons.mp h1 with h2 | h2
        · cases h2; exact Or.inr ⟨s, by simp, rfl⟩
        · rcases ih [] h2 with h3 | ⟨s', hs', he'⟩
          · cases h3
          · exact Or.inr ⟨s', List.mem_cons_of_mem _ hs', he'⟩
    cases hc : s.cond with
    | forEachLabel =>
      simp only [expandAux, hc] at h
      rcases ih (body ++ [s.eff]) h with h1 | ⟨s', hs', he'⟩
      · rcases List.mem_append.mp h1 with h2 | h2
        · exact Or.inl h2
        · simp at h2; exact Or.inr ⟨s, by simp, h2.symm⟩
      · exact Or.inr ⟨s', List.mem_cons_of_mem _ hs', he'⟩
    | ifReport =>
      simp only [expandAux, hc] at h
      by_cases hr : o.report = true
      · simp only [hr, if_true, List.append_assoc, List.singleton_append] at h
        exact key h
      · simp only [hr, Bool.false_eq_true, if_false, List.append_nil] at h
        rcases List.mem_append.mp h with h1 | h1
        · exact Or.inl (mem_flushBody o body e l h1)
        · rcases ih [] h1 with h3 | ⟨s', hs', he'⟩
          · cases h3
          · exact Or.inr ⟨s', List.mem_cons_of_mem _ hs', he'⟩
    | always => simp only [expandAux, hc] at h; exact key h
    | maybe i => simp only [expandAux, hc] at h; exact key h

theorem mem_expandSteps (o : SaveOpts) (steps : List PStep) (e : PEffect) (l : String)
    (h : (e, l) ∈ expandSteps o steps) : ∃ s ∈ steps, s.eff = e := by
  rcases mem_expandAux o steps [] e l h with h | h
  · cases h
  · exact h

/-! ### what a whole plugin call can change -/

theorem leafOk_isKnown (pl : ResultPlugin) (e : PEffect) (h : e.leafOk pl = true) : e.isKnown = true := by
  cases e <;> simp_all [PEffect.leafOk, PEffect.isKnown]

theorem stepOk_isKnown (table : List ResultPlugin) (pl : ResultPlugin) (e : PEffect) (h : stepOk table pl e = true) :
    e.isKnown = true := by
  cases e <;> simp_all [stepOk, PEffect.leafOk, PEffect.isKnown]

theorem runInner_changed (table : List ResultPlugin) (o : SaveOpts) (w : World) (fmt : String) (p : Path) (fs : FS)
    (hok : ∀ pl, findPlugin table fmt = some pl → innerOk pl = true) :
    ChangedIn (· ∈ innerFiles table o fmt p) fs (runInner table o w fmt p fs).1 := by
  unfold runInner innerFiles
  cases hf : findPlugin table fmt with
  | none => exact ChangedIn.refl _ _
  | some pl =>
    have hpl := hok pl hf
    simp only [innerOk, Bool.and_eq_true, List.all_eq_true] at hpl
    have hleaf : ∀ s ∈ expandSteps o pl.steps, s.1.leafOk pl = true := by
      intro s hs
      obtain ⟨s', hs', he'⟩ := mem_expandSteps o pl.steps s.1 s.2 hs
      exact he' ▸ (hpl.2 s' hs').1
    show ChangedIn (· ∈ stepTargets (fun _ _ => []) pl o p (expandSteps o pl.steps)) fs
      (runPSteps (fun _ _ fs => (fs, some .valueError)) pl o w p (expandSteps o pl.steps) fs).1
    apply runPSteps_changed
    · intro s hs
      exact leafOk_isKnown pl _ (hleaf s hs)
    · intro s hs fmt' t allow he
      have := hleaf s hs
      rw [he] at this
      simp [PEffect.leafOk] at this

theorem runResultPlugin_changed (table : List ResultPlugin) (o : SaveOpts) (w : World) (fmt : String) (p : Path) (fs : FS)
    (hok : ∀ pl, findPlugin table fmt = some pl → wellPlaced table pl = true) :
    ChangedIn (· ∈ resultFiles table o fmt p) fs (runResultPlugin table o w fmt p fs).1 := by
  unfold runResultPlugin resultFiles
  cases hf : findPlugin table fmt with
  | none => exact ChangedIn.refl _ _
  | some pl =>
    have hpl := hok pl hf
    simp only [wellPlaced, List.all_eq_true, Bool.and_eq_true] at hpl
    have hmem : ∀ s ∈ expandSteps o pl.steps, stepOk table pl s.1 = true := by
      intro s hs
      obtain ⟨s', hs', he'⟩ := mem_expandSteps o pl.steps s.1 s.2 hs
      exact he' ▸ (hpl.1 s' hs').1
    show ChangedIn (· ∈ stepTargets (innerFiles table o) pl o p (expandSteps o pl.steps)) fs
      (runPSteps (runInner table o w) pl o w p (expandSteps o pl.steps) fs).1
    apply runPSteps_changed
    · intro s hs
      exact stepOk_isKnown table pl _ (hmem s hs)
    · intro s hs fmt' t allow he q fs'
      -- a nested call goes to a plugin without further nesting
      have h := hmem s hs
      rw [he] at h
      simp only [stepOk, Bool.and_eq_true, decide_eq_true_eq] at h
      apply runInner_changed
      intro pl' hpl'
      have := h.2
      rw [hpl'] at this
      exact this

/-! ### where the files lie: direct children of the result folder -/

theorem extOf_empty : extOf "" = "" := by decide

theorem resultFile_child (pl : ResultPlugin) (p : Path) (hs : pl.fileSuffixes.isEmpty = false)
    (hne : pl.fileSuffixes.contains "" = false) :
    ∃ x, resultFileOf pl p = resultFolderOf pl p ++ [x] := by
  unfold resultFileOf resultFolderOf
  simp only [hs, Bool.false_eq_true, if_false]
  by_cases hn : namesFile pl p = true
  · simp only [hn, if_true]
    cases hl : p.getLast? with
    | none =>
      -- the empty path has no suffix
      have : p = [] := List.getLast?_eq_none_iff.mp hl
      subst this
      simp only [namesFile, List.getLast?_nil, Option.getD_none, extOf_empty] at hn
      rw [hne] at hn; cases hn
    | some x =>
      have hp : p ≠ [] := by intro h; subst h; cases hl
      exact ⟨p.getLast hp, (List.dropLast_concat_getLast hp).symm⟩
  · simp only [hn, Bool.false_eq_true, if_false]
    exact ⟨_, rfl⟩

/-- a target that `isInside` is a direct child of the result folder -/
theorem targetPath_child (pl : ResultPlugin) (o : SaveOpts) (p : Path) (label : String) (t : Target)
    (hin : t.isInside pl = true) (hne : pl.fileSuffixes.contains "" = false) :
    ∃ x, targetPath pl o p label t = resultFolderOf pl p ++ [x] := by
  cases t with
  | inFolder name => exact ⟨_, rfl⟩
  | resultFile =>
    simp only [Target.isInside, Bool.not_eq_true'] at hin
    exact resultFile_child pl p hin hne
  | folder => simp [Target.isInside] at hin
  | other s => simp [Target.isInside] at hin

theorem stepTargets_children (inner : String → Path → List Path) (pl : ResultPlugin) (o : SaveOpts) (p : Path)
    (hne : pl.fileSuffixes.contains "" = false) :
    ∀ (steps : List (PEffect × String)),
      (∀ s ∈ steps, ∀ via t allow, s.1 = .write via t allow → t.isInside pl = true) →
      (∀ s ∈ steps, ∀ fmt t allow, s.1 = .delegate fmt t allow →
        t = .folder ∧ ∀ q ∈ inner fmt (resultFolderOf pl p), ∃ x, q = resultFolderOf pl p ++ [x]) →
      ∀ q ∈ stepTargets inner pl o p steps, ∃ x, q = resultFolderOf pl p ++ [x]
  | [], _, _, q, hq => by simp [stepTargets] at hq
  | (eff, label) :: rest, hw, hd, q, hq => by
    simp only [stepTargets, List.mem_append] at hq
    rcases hq with hq | hq
    · cases eff with
      | write via t allow =>
        simp only [effTargets, List.mem_singleton] at hq
        rw [hq]
        exact targetPath_child pl o p label t (hw (.write via t allow, label) (by simp) via t allow rfl) hne
      | delegate fmt t allow =>
        obtain ⟨ht, hin⟩ := hd (.delegate fmt t allow, label) (by simp) fmt t allow rfl
        subst ht
        simp only [effTargets, targetPath] at hq
        exact hin q hq
      | refuseIfFile t => simp [effTargets] at hq
      | mkdir t => simp [effTargets] at hq
      | unknownCall n => simp [effTargets] at hq
    · exact stepTargets_children inner pl o p hne rest (fun s hs => hw s (List.mem_cons_of_mem _ hs))
        (fun s hs => hd s (List.mem_cons_of_mem _ hs)) q hq

/-- the files of a nested plugin call are direct children of the folder it is given -/
theorem innerFiles_children (table : List ResultPlugin) (o : SaveOpts) (fmt : String) (p : Path)
    (hok : ∀ pl, findPlugin table fmt = some pl → innerOk pl = true) :
    ∀ q ∈ innerFiles table o fmt p, ∃ x, q = p ++ [x] := by
  unfold innerFiles
  cases hf : findPlugin table fmt with
  | none => simp
  | some pl =>
    have hpl := hok pl hf
    simp only [innerOk, Bool.and_eq_true, List.all_eq_true] at hpl
    have hfold : resultFolderOf pl p = p := by simp [resultFolderOf, hpl.1]
    have hne : pl.fileSuffixes.contains "" = false := by
      have : pl.fileSuffixes = [] := List.isEmpty_iff.mp hpl.1
      simp [this]
    have hleaf : ∀ s ∈ expandSteps o pl.steps, s.1.leafOk pl = true := by
      intro s hs
      obtain ⟨s', hs', he'⟩ := mem_expandSteps o pl.steps s.1 s.2 hs
      exact he' ▸ (hpl.2 s' hs').1
    intro q hq
    have := stepTargets_children (fun _ _ => []) pl o p hne (expandSteps o pl.steps)
      (fun s hs via t allow he => by have := hleaf s hs; rw [he] at this; simpa [PEffect.leafOk] using this)
      (fun s hs fmt' t allow he => by have := hleaf s hs; rw [he] at this; simp [PEffect.leafOk] at this)
      q hq
    rwa [hfold] at this

/-- **every file a well-placed plugin is meant to write is a direct child of the result folder** -/
theorem resultFiles_children (table : List ResultPlugin) (o : SaveOpts) (fmt : String) (p : Path) (pl : ResultPlugin)
    (hf : findPlugin table fmt = some pl) (hok : wellPlaced table pl = true) :
    ∀ q ∈ resultFiles table o fmt p, ∃ x, q = resultFolderOf pl p ++ [x] := by
  unfold resultFiles
  rw [hf]
  simp only [wellPlaced, List.all_eq_true, Bool.and_eq_true, Bool.not_eq_true'] at hok
  have hmem : ∀ s ∈ expandSteps o pl.steps, stepOk table pl s.1 = true := by
    intro s hs
    obtain ⟨s', hs', he'⟩ := mem_expandSteps o pl.steps s.1 s.2 hs
    exact he' ▸ (hok.1 s' hs').1
  apply stepTargets_children (innerFiles table o) pl o p hok.2 (expandSteps o pl.steps)
  · intro s hs via t allow he
    have := hmem s hs
    rw [he] at this
    simpa [stepOk, PEffect.leafOk] using this
  · intro s hs fmt' t allow he
    have h := hmem s hs
    rw [he] at h
    simp only [stepOk, Bool.and_eq_true, decide_eq_true_eq] at h
    refine ⟨h.1, innerFiles_children table o fmt' _ ?_⟩
    intro pl' hpl'
    have := h.2
    rw [hpl'] at this
    exact this

/-! ### the `save_*` entry in front of a plugin that changes only `S` -/

/-- generalisation of `runSteps_grew`: when the plugin (and any unclassified call) changes entries in `S` only,
    so does the whole `save_*` call — the rest of it can only create the parent folders -/
theorem runSteps_changedIn (f : SaveFn) (env : Env) (S : Path → Prop)
    (hplugin : ∀ m fs, ChangedIn S fs (env.plugin m fs).1) (hunknown : ∀ n fs, ChangedIn S fs (env.unknown n fs).1) :
    ∀ (steps : List Step) (fs : FS) (inf : Option String), ChangedIn S fs (runSteps f env steps fs inf).1
  | [], fs, _ => ChangedIn.refl S fs
  | ⟨eff, cond⟩ :: rest, fs, inf => by
    by_cases hc : condHolds f env cond = true
    · cases eff with
      | protect a b =>
        simp only [runSteps, hc]
        have hg := protect_grew fs (resolvePath f env a) (resolveBool f env b)
        cases hp : protect fs (resolvePath f env a) (resolveBool f env b) with
        | mk fs' e =>
          rw [hp] at hg
          cases e with
          | some e => simpa using ChangedIn.of_grew hg
          | none => simpa using (ChangedIn.of_grew hg).trans (runSteps_changedIn f env S hplugin hunknown rest fs' inf)
      | inferFormat a b c =>
        simp only [runSteps, hc]
        cases inferFormat fs (resolvePath f env a) b c with
        | error e => exact ChangedIn.refl S fs
        | ok fmt => exact runSteps_changedIn f env S hplugin hunknown rest fs (some fmt)
      | getPlugin a =>
        simp only [runSteps, hc]
        generalize env.known.contains _ = b
        cases b
        · exact ChangedIn.refl S fs
        · exact runSteps_changedIn f env S hplugin hunknown rest fs inf
      | pluginCall m =>
        simp only [runSteps, hc]
        have h1 := hplugin m fs
        cases hp : env.plugin m fs with
        | mk fs' e =>
          rw [hp] at h1
          cases e with
          | some e => exact h1
          | none => exact h1.trans (runSteps_changedIn f env S hplugin hunknown rest _ inf)
      | unknownCall m =>
        simp only [runSteps, hc]
        have h1 := hunknown m fs
        cases hp : env.unknown m fs with
        | mk fs' e =>
          rw [hp] at h1
          cases e with
          | some e => exact h1
          | none => exact h1.trans (runSteps_changedIn f env S hplugin hunknown rest _ inf)
      | mutateArg a => rw [runSteps_mutate]; exact runSteps_changedIn f env S hplugin hunknown rest fs inf
      | pureCall a => rw [runSteps_pure]; exact runSteps_changedIn f env S hplugin hunknown rest fs inf
      | raises a => simp only [runSteps, hc]; exact ChangedIn.refl S fs
    · rw [runSteps_skip f env _ rest fs inf (by simpa using hc)]
      exact runSteps_changedIn f env S hplugin hunknown rest fs inf

/-- in a well-formed tree nothing exists below a missing folder -/
theorem WF.nothing_below_missing {fs : FS} (hwf : WF fs) (folder : Path) (x : String) (hne : folder ≠ [])
    (habs : get fs folder = none) : get fs (folder ++ [x]) = none := by
  cases h : get fs (folder ++ [x]) with
  | none => rfl
  | some n =>
    exfalso
    have hpos : 0 < folder.length := List.length_pos_iff.mpr hne
    have := hwf (folder ++ [x]) (by rw [h]; simp) folder.length hpos (by simp)
    rw [List.take_left] at this
    rw [habs] at this
    cases this

end Glotaran.C18
