/-
C14 — the per-index problems of a dataset whose data were simulated (clp-driven, no noise) are
consistent: data = prepared matrix · (generating clps / dataset scale).
-/
import GlotaranProofs.Lemmas.C14Sim
namespace Glotaran.C14
open Glotaran.LinAlg Glotaran.C02

/-- a clp-driven simulated dataset: no global megacomplexes, a labelled clp table, a dataset matrix
    with one row per model-axis point and one column per label at every global index, a non-zero
    dataset scale, and as many global points as the global axis has -/
structure SimOK (sd : SimDataset) (lm : LMat) (ls : List String) (rows : List Vec) : Prop where
  noGlobal : sd.inp.gmcs = []
  clp : sd.inp.clp = some ⟨some ls, rows⟩
  matrix : datasetMatrix sd.inp.mcs = some lm
  axis : sd.inp.nGlobal = sd.globalAxis.length
  nrows : ∀ i, i < sd.inp.nGlobal → (sliceM lm sd.inp.nGlobal i).length = sd.inp.nModel
  width : ∀ i, i < sd.inp.nGlobal → ∀ r ∈ sliceM lm sd.inp.nGlobal i, r.length = lm.labels.length
  scale : sd.scale.getD 1 ≠ 0

/-- the matrix the fit uses at global index `i`: dataset scale, then weight -/
def prepared (sd : SimDataset) (lm : LMat) (i : Nat) : Mat :=
  match sd.weight with
  | some w => weightRows (mscale (sd.scale.getD 1) (sliceM lm sd.inp.nGlobal i)) (col w i)
  | none => mscale (sd.scale.getD 1) (sliceM lm sd.inp.nGlobal i)

/-- generating clps (selected by label) divided by the dataset scale -/
def truthAt (sd : SimDataset) (lm : LMat) (ls : List String) (rows : List Vec) (i : Nat) : Vec :=
  vscale (1 / sd.scale.getD 1) (sel lm ls rows i)

theorem truthAt_length (sd : SimDataset) (lm : LMat) (ls : List String) (rows : List Vec) (i : Nat) :
    (truthAt sd lm ls rows i).length = lm.labels.length := by
  simp [truthAt, vscale, sel_length]

theorem prepared_width (sd : SimDataset) (lm : LMat) (ls : List String) (rows : List Vec)
    (ok : SimOK sd lm ls rows) (i : Nat) (hi : i < sd.inp.nGlobal) :
    ∀ r ∈ prepared sd lm i, r.length = lm.labels.length := by
  have h1 := rows_mscale_width (sd.scale.getD 1) _ _ (ok.width i hi)
  unfold prepared
  cases sd.weight with
  | none => exact h1
  | some w => exact rows_weightRows_width _ _ _ h1

theorem noiseless_ok (sd : SimDataset) (lm : LMat) (ls : List String) (rows : List Vec)
    (ok : SimOK sd lm ls rows) (data : Mat) (h : noiseless sd.inp = .ok data) :
    data = C03.ofColumns sd.inp.nModel (simCols lm sd.inp.nGlobal ls rows) := by
  unfold noiseless at h
  simp only [ok.noGlobal, List.isEmpty_nil, Bool.not_true, Bool.false_eq_true, if_false, ok.clp] at h
  unfold simulateFromClp at h
  simp only [ok.matrix] at h
  split at h
  · cases h
  · rename_i cols hc
    cases h
    rw [(simulateColumns_ok lm _ ls rows cols hc).1]

theorem simCols_getElem (lm : LMat) (nGlobal : Nat) (ls : List String) (rows : List Vec) (i : Nat)
    (hi : i < nGlobal) :
    (simCols lm nGlobal ls rows)[i]'(by simpa [simCols] using hi) =
      mulVec (sliceM lm nGlobal i) (sel lm ls rows i) := by
  simp [simCols]

/-- **data column `i` of the simulated dataset is the prepared matrix times the generating clps over
    the scale** — the per-index problem of the fit is consistent -/
theorem data_column (sd : SimDataset) (lm : LMat) (ls : List String) (rows : List Vec)
    (ok : SimOK sd lm ls rows) (data : Mat) (hsim : noiseless sd.inp = .ok data) (i : Nat)
    (hi : i < sd.inp.nGlobal) :
    col (sd.toDataset data).weightedData i = mulVec (prepared sd lm i) (truthAt sd lm ls rows i) := by
  have hdata := noiseless_ok sd lm ls rows ok data hsim
  have hcol : col data i = mulVec (sliceM lm sd.inp.nGlobal i) (sel lm ls rows i) := by
    rw [hdata]
    have hlen : i < (simCols lm sd.inp.nGlobal ls rows).length := by simpa [simCols] using hi
    rw [col_ofColumns _ _ i hlen (by rw [simCols_getElem _ _ _ _ _ hi, mulVec_length]; exact ok.nrows i hi)]
    exact simCols_getElem _ _ _ _ _ hi
  have hinv := mulVec_mscale_inv (sd.scale.getD 1) ok.scale (sliceM lm sd.inp.nGlobal i) (sel lm ls rows i)
  unfold Dataset.weightedData prepared truthAt SimDataset.toDataset
  cases hw : sd.weight with
  | none => simp only; rw [hinv, hcol]
  | some w => simp only; rw [col_hadamard, mulVec_weightRows, hinv, hcol]

/-- the per-index problems of the fit on the simulated data -/
theorem problems_sim (sd : SimDataset) (lm : LMat) (ls : List String) (rows : List Vec)
    (ok : SimOK sd lm ls rows) (data : Mat) (hsim : noiseless sd.inp = .ok data)
    (ps : List IndexProblem) (hps : unlinkedProblems {} (sd.toDataset data) = some ps) :
    ps.length = sd.inp.nGlobal ∧ ∀ i (hi : i < ps.length),
      ps[i].reduced.m = prepared sd lm i ∧
      ps[i].data = mulVec (prepared sd lm i) (truthAt sd lm ls rows i) ∧
      ps[i].fullLabels = lm.labels := by
  have hcolumn := data_column sd lm ls rows ok data hsim
  unfold unlinkedProblems at hps
  have hm : datasetMatrix (sd.toDataset data).mcs = some lm := ok.matrix
  simp only [hm, Option.some.injEq] at hps
  subst hps
  have hng : (sd.toDataset data).nGlobal = sd.inp.nGlobal := by
    simp [Dataset.nGlobal, SimDataset.toDataset, ok.axis]
  refine ⟨by simp [hng], ?_⟩
  intro i hi
  have hi' : i < sd.inp.nGlobal := by simpa [hng] using hi
  simp only [List.getElem_map, List.getElem_range]
  refine ⟨?_, ?_, trivial⟩
  · have hs : ((slices ⟨lm.labels, lm.body.scale ((sd.toDataset data).scale.getD 1)⟩ (sd.toDataset data).nGlobal).getD i default).m
        = mscale (sd.scale.getD 1) (sliceM lm sd.inp.nGlobal i) := by
      have := sliceM_scale lm (sd.scale.getD 1) sd.inp.nGlobal i
      rw [hng]
      simpa [sliceM, SimDataset.toDataset] using this
    unfold prepared
    have hwt : (sd.toDataset data).weight = sd.weight := rfl
    rw [hwt]
    cases hw : sd.weight with
    | none => simp only [reduceAt_empty]; exact hs
    | some w => simp only [reduceAt_empty]; rw [hs]
  · exact hcolumn i hi'

/-- **the residual part of a simulated dataset's penalty vanishes and there are no clp penalties** -/
theorem unlinkedDataset_sim (sd : SimDataset) (lm : LMat) (ls : List String) (rows : List Vec)
    (ok : SimOK sd lm ls rows) (data : Mat) (hsim : noiseless sd.inp = .ok data) (sv : Solver)
    (hnn : sv = .nnls → ∀ i, i < sd.inp.nGlobal → ∀ x ∈ truthAt sd lm ls rows i, 0 ≤ x)
    (res pens : Vec) (h : unlinkedDataset {} sv (sd.toDataset data) = some (res, pens)) :
    (∀ x ∈ res, x = 0) ∧ pens = [] := by
  unfold unlinkedDataset at h
  have hg : (sd.toDataset data).gmcs = [] := ok.noGlobal
  simp only [hg, List.isEmpty_nil, Bool.not_true, Bool.false_eq_true, if_false] at h
  split at h
  · cases h
  · rename_i ps hps
    obtain ⟨hlen, hprob⟩ := problems_sim sd lm ls rows ok data hsim ps hps
    split at h
    · cases h
    · rename_i sols hsols
      simp only [Option.some.injEq, Prod.mk.injEq] at h
      obtain ⟨hres, hpens⟩ := h
      refine ⟨?_, by rw [← hpens]; simp [clpPenalties]⟩
      intro x hx
      rw [← hres] at hx
      simp only [List.mem_flatMap] at hx
      obtain ⟨pc, hpc, hxr⟩ := hx
      obtain ⟨p, hp, hfp⟩ := mapM_some_mem _ ps sols hsols pc hpc
      obtain ⟨i, hi, rfl⟩ := List.getElem_of_mem hp
      obtain ⟨hm, hd, _⟩ := hprob i hi
      cases hsol : solveLS sv ps[i].reduced.m ps[i].data with
      | none => simp [hsol] at hfp
      | some cr =>
        simp only [hsol, Option.map_some, Option.some.injEq] at hfp
        subst hfp
        rw [hm, hd] at hsol
        have hi' : i < sd.inp.nGlobal := by omega
        have := (consistent_problem sv (prepared sd lm i) lm.labels.length
          (prepared_width sd lm ls rows ok i hi') (truthAt sd lm ls rows i) (truthAt_length _ _ _ _ _)
          (fun hs => hnn hs i hi') cr.1 cr.2 hsol).1
        exact this x hxr

/-- **the estimated clps of a simulated dataset are the generating clps over the dataset scale** at
    every index where the prepared matrix has full column rank -/
theorem unlinkedResult_sim (sd : SimDataset) (lm : LMat) (ls : List String) (rows : List Vec)
    (ok : SimOK sd lm ls rows) (data : Mat) (hsim : noiseless sd.inp = .ok data) (sv : Solver)
    (hnn : sv = .nnls → ∀ i, i < sd.inp.nGlobal → ∀ x ∈ truthAt sd lm ls rows i, 0 ≤ x)
    (r : C03.DsResult) (h : C03.unlinkedResult {} sv (sd.toDataset data) = some r) :
    r.clpLabels = lm.labels ∧ r.clps.length = sd.inp.nGlobal ∧
    ∀ i (hi : i < r.clps.length), FullColRank (prepared sd lm i) lm.labels.length →
      r.clps[i] = truthAt sd lm ls rows i := by
  unfold C03.unlinkedResult at h
  have hg : (sd.toDataset data).gmcs = [] := ok.noGlobal
  simp only [hg, List.isEmpty_nil, Bool.not_true, Bool.false_eq_true, if_false] at h
  split at h
  · cases h
  · rename_i ps hps
    obtain ⟨hlen, hprob⟩ := problems_sim sd lm ls rows ok data hsim ps hps
    cases hsols : ps.mapM (fun p => (solveLS sv p.reduced.m p.data).map (fun cr => (p, cr))) with
    | none => simp [hsols] at h
    | some sols =>
      simp only [hsols, Option.map_some, Option.some.injEq] at h
      subst h
      obtain ⟨hl, hget⟩ := mapM_some_getElem _ ps sols hsols
      have hm : datasetMatrix (sd.toDataset data).mcs = some lm := ok.matrix
      refine ⟨by simp [C03.finish_clpLabels, hm], by simp [C03.finish_clps, hl, hlen], ?_⟩
      intro i hi hrank
      have hi2 : i < sols.length := by simpa [C03.finish_clps] using hi
      have hi1 : i < ps.length := by omega
      have hi' : i < sd.inp.nGlobal := by omega
      have hfi := hget i hi1 hi2
      obtain ⟨hmm, hd, _⟩ := hprob i hi1
      cases hsol : solveLS sv ps[i].reduced.m ps[i].data with
      | none => simp [hsol] at hfi
      | some cr =>
        simp only [hsol, Option.map_some, Option.some.injEq] at hfi
        rw [hmm, hd] at hsol
        have hc := (consistent_problem sv (prepared sd lm i) lm.labels.length
          (prepared_width sd lm ls rows ok i hi') (truthAt sd lm ls rows i) (truthAt_length _ _ _ _ _)
          (fun hs => hnn hs i hi') cr.1 cr.2 hsol).2 hrank
        simp only [C03.finish_clps, List.getElem_map]
        rw [← hfi]
        simp only [retrieveClps]
        simpa using hc

end Glotaran.C14
