/-
C03 — helper lemmas for `fitted = dataset scale × matrix × clp` in linked groups:
the stacked problem of one aligned index (`linked_index`), the position of a dataset's block in the
stacked residual, the order of a dataset's columns (`hits`), and the assembly (`linked_point`).
-/
import GlotaranProofs.Lemmas.C03Fit
import GlotaranProofs.Lemmas.C02Bij
namespace Glotaran.C03
open Glotaran.LinAlg Glotaran.C02

/-! ### generic list facts -/

theorem drop_take_getElem? {α} (l : List α) (s n m : Nat) (hm : m < n) : ((l.drop s).take n)[m]? = l[s + m]? := by
  rw [List.getElem?_take_of_lt hm, List.getElem?_drop]

theorem takeWhile_bne_of_nodup {α β} [DecidableEq β] (f : α → β) (l : List α) (hn : (l.map f).Nodup)
    (k : Nat) (hk : k < l.length) : l.takeWhile (fun e => f e != f l[k]) = l.take k := by
  induction l generalizing k with
  | nil => simp at hk
  | cons a l ih =>
    have hn' : f a ∉ l.map f ∧ (l.map f).Nodup := List.nodup_cons.mp (by rw [List.map_cons] at hn; exact hn)
    cases k with
    | zero => simp
    | succ k =>
      have hk' : k < l.length := by simpa using hk
      have hne : f a ≠ f l[k] := by
        intro h
        apply hn'.1
        rw [h]
        exact List.mem_map.mpr ⟨l[k], List.getElem_mem hk', rfl⟩
      simp only [List.getElem_cons_succ, List.takeWhile_cons, bne_iff_ne.mpr hne, if_true, List.take_succ_cons]
      rw [ih hn'.2 k hk']

theorem idxOf?_isSome_iff_contains (l : List Rat) (v : Rat) : (l.idxOf? v).isSome = l.contains v := by
  induction l with
  | nil => simp [List.idxOf?]
  | cons a l ih =>
    simp only [List.idxOf?, List.findIdx?_cons, List.contains_cons] at ih ⊢
    by_cases h : a = v
    · subst h; simp
    · have h1 : (a == v) = false := by simpa using h
      have h2 : (v == a) = false := by simpa using (fun hh : v = a => h hh.symm)
      simp only [h1, h2, Bool.false_or, Bool.false_eq_true, if_false]
      rw [← ih]
      cases List.findIdx? (fun x => x == v) l <;> simp

theorem idxOf?_getElem_of_nodup (l : List Rat) (hn : l.Nodup) (t : Nat) (ht : t < l.length) :
    l.idxOf? l[t] = some t := by
  unfold List.idxOf?
  rw [List.findIdx?_eq_some_iff_getElem]
  refine ⟨ht, by simp, ?_⟩
  intro j hj
  have hjl : j < l.length := by omega
  have : l[j] ≠ l[t] := by
    intro h
    have := (List.getElem_inj hn).mp h
    omega
  simpa using this

/-! ### membership in `insertSorted`, `sortedUnion` -/

theorem mem_insertSorted (x : Rat) (l : List Rat) (y : Rat) : y ∈ insertSorted x l ↔ y = x ∨ y ∈ l := by
  induction l with
  | nil => simp [insertSorted]
  | cons z zs ih =>
    simp only [insertSorted]
    split
    · simp
    · split
      · rename_i h; subst h; simp
      · simp only [List.mem_cons, ih]
        constructor
        · rintro (h | h | h) <;> simp [h]
        · rintro (h | h | h) <;> simp [h]

theorem mem_sortedUnion (a b : List Rat) (y : Rat) : y ∈ sortedUnion a b ↔ y ∈ a ∨ y ∈ b := by
  unfold sortedUnion
  induction b generalizing a with
  | nil => simp
  | cons x b ih =>
    simp only [List.foldl_cons]
    rw [ih, mem_insertSorted]
    simp only [List.mem_cons]
    constructor
    · rintro ((h | h) | h) <;> simp [h]
    · rintro (h | h | h) <;> simp [h]

theorem mem_foldl_sortedUnion (ls : List (List Rat)) (acc : List Rat) (y : Rat) :
    y ∈ ls.foldl sortedUnion acc ↔ y ∈ acc ∨ ∃ l ∈ ls, y ∈ l := by
  induction ls generalizing acc with
  | nil => simp
  | cons l ls ih =>
    simp only [List.foldl_cons]
    rw [ih, mem_sortedUnion]
    simp only [List.mem_cons, exists_eq_or_imp]
    constructor
    · rintro ((h | h) | h)
      · exact Or.inl h
      · exact Or.inr (Or.inl h)
      · exact Or.inr (Or.inr h)
    · rintro (h | h | h)
      · exact Or.inl (Or.inl h)
      · exact Or.inl (Or.inr h)
      · exact Or.inr h

/-! ### `alignAxes` keeps the number and the lengths of the axes -/

theorem alignStep_none (tol : Rat) (m : Method) (rest : List (List Rat)) :
    rest.foldl (fun (acc : Option (List Rat × List (List Rat))) ax =>
      match acc with
      | none => none
      | some (vals, done) =>
        let al := ax.map (fun x => alignIndex x vals tol m)
        if hasDup al then none
        else some (sortedUnion [] (vals ++ al), done ++ [al])) none = none := by
  induction rest with
  | nil => rfl
  | cons a rest ih => simpa using ih

theorem alignStep_lengths (tol : Rat) (m : Method) (rest : List (List Rat)) (vals : List Rat)
    (done : List (List Rat)) (out : List Rat × List (List Rat))
    (h : rest.foldl (fun (acc : Option (List Rat × List (List Rat))) ax =>
      match acc with
      | none => none
      | some (vals, done) =>
        let al := ax.map (fun x => alignIndex x vals tol m)
        if hasDup al then none
        else some (sortedUnion [] (vals ++ al), done ++ [al])) (some (vals, done)) = some out) :
    out.2.map List.length = done.map List.length ++ rest.map List.length := by
  induction rest generalizing vals done with
  | nil =>
    simp only [List.foldl_nil, Option.some.injEq] at h
    subst h; simp
  | cons ax rest ih =>
    simp only [List.foldl_cons] at h
    split at h
    · rw [alignStep_none] at h; cases h
    · have := ih _ _ h
      rw [this]; simp

theorem alignAxes_lengths (axes : List (List Rat)) (tol : Rat) (m : Method) (aligned : List (List Rat))
    (h : alignAxes axes tol m = some aligned) : aligned.map List.length = axes.map List.length := by
  unfold alignAxes at h
  cases axes with
  | nil => simp only [Option.some.injEq] at h; subst h; rfl
  | cons first rest =>
    simp only at h
    obtain ⟨out, hout, rfl⟩ := Option.map_eq_some_iff.mp h
    have := alignStep_lengths tol m rest first [first] out hout
    simpa using this

/-! ### the members and the stacked problem of one aligned value -/

abbrev Member := (Dataset × LMat) × Nat

def memberOf (v : Rat) (da : (Dataset × LMat) × List Rat) : Option Member :=
  (da.2.idxOf? v).map (fun i => (da.1, i))

def membersOf (dms : List (Dataset × LMat)) (aligned : List (List Rat)) (v : Rat) : List Member :=
  (dms.zip aligned).filterMap (memberOf v)

def blocksOf (mem : List Member) : List (LMat2 × Rat) :=
  mem.map (fun di => ((slices di.1.2 di.1.1.nGlobal).getD di.2 default, di.1.1.scale.getD 1))

def weightOf (mem : List Member) : Vec :=
  mem.flatMap (fun di =>
    match di.1.1.weight with
    | some w => col w di.2
    | none => List.replicate di.1.1.nModel 1)

def dataOf (mem : List Member) : Vec := mem.flatMap (fun di => col di.1.1.weightedData di.2)

def hasWeight (anyWeight : Bool) (mem : List Member) : Bool :=
  anyWeight && mem.any (fun di => di.1.1.weight.isSome)

/-- the problem `linkedProblems` builds for the aligned value `v` -/
def problemAt (mi : ModelItems) (anyWeight : Bool) (mem : List Member) (v : Rat) : IndexProblem :=
  let stacked := alignMatrices (blocksOf mem)
  let red := reduceAt mi v stacked
  let red := if hasWeight anyWeight mem then { red with m := weightRows red.m (weightOf mem) } else red
  { fullLabels := stacked.labels, reduced := red, data := dataOf mem, x := v }

theorem linkedProblems_eq (mi : ModelItems) (g : Group) :
    linkedProblems mi g =
      match alignAxes (g.datasets.map (·.globalAxis)) g.tol g.method with
      | none => none
      | some aligned =>
        match g.datasets.mapM (fun d => (datasetMatrix d.mcs).map (fun lm => (d, lm))) with
        | none => none
        | some dms =>
          some (aligned.foldl sortedUnion [], (aligned.foldl sortedUnion []).map (fun v =>
            problemAt mi (g.datasets.any (·.weight.isSome)) (membersOf dms aligned v) v)) := rfl

theorem problemAt_fullLabels (mi : ModelItems) (aw : Bool) (mem : List Member) (v : Rat) :
    (problemAt mi aw mem v).fullLabels = (alignMatrices (blocksOf mem)).labels := rfl

theorem problemAt_x (mi : ModelItems) (aw : Bool) (mem : List Member) (v : Rat) : (problemAt mi aw mem v).x = v := rfl

theorem problemAt_data (mi : ModelItems) (aw : Bool) (mem : List Member) (v : Rat) :
    (problemAt mi aw mem v).data = dataOf mem := rfl

theorem problemAt_reduced_labels (mi : ModelItems) (aw : Bool) (mem : List Member) (v : Rat) :
    (problemAt mi aw mem v).reduced.labels = (reduceAt mi v (alignMatrices (blocksOf mem))).labels := by
  unfold problemAt
  simp only
  split <;> rfl

theorem problemAt_reduced_m (mi : ModelItems) (aw : Bool) (mem : List Member) (v : Rat) :
    (problemAt mi aw mem v).reduced.m =
      match (if hasWeight aw mem then some (weightOf mem) else none : Option Vec) with
      | some w => weightRows (reduceAt mi v (alignMatrices (blocksOf mem))).m w
      | none => (reduceAt mi v (alignMatrices (blocksOf mem))).m := by
  unfold problemAt
  simp only
  split <;> rfl

/-- a member is well formed: matrix and data are rectangular of matching sizes, the local index exists -/
def MemberOK (e : Member) : Prop :=
  LMatOK e.1.1.nModel e.1.1.nGlobal e.1.2 ∧ DataOK e.1.1 ∧ e.2 < e.1.1.nGlobal

theorem blocksOf_getElem (mem : List Member) (hok : ∀ e ∈ mem, MemberOK e) (j : Nat) (hj : j < mem.length) :
    ((slices mem[j].1.2 mem[j].1.1.nGlobal).getD mem[j].2 default, mem[j].1.1.scale.getD 1) =
      ((⟨mem[j].1.2.labels, matrixAt mem[j].1.2 mem[j].1.1.nGlobal mem[j].2⟩ : LMat2), mem[j].1.1.scale.getD 1) := by
  obtain ⟨h1, _, h3⟩ := hok _ (List.getElem_mem hj)
  rw [slices_getD, slices_labels _ _ _ _ h1 h3]

theorem weightedData_length (d : Dataset) (hd : DataOK d) : d.weightedData.length = d.nModel := by
  unfold Dataset.weightedData
  cases hw : d.weight with
  | none => rfl
  | some w =>
    simp only [Length.rows_hadamard, (hd.2 w hw).1]
    unfold Dataset.nModel; omega

/-- **One aligned index of a linked group.**  `mem` are the member datasets (with their local global
    index) in dataset order, the solver is given `problemAt`; `full` are the reported clps on the stacked
    labels.  For member `j` and model index `m`, the stacked residual at the offset of the member's block
    is `ω·(y − k·row·clp)` with `clp` the member's own labels picked from `full`. -/
theorem linked_index (mi : ModelItems) (s : Solver) (aw : Bool) (mem : List Member) (v : Rat)
    (hok : ∀ e ∈ mem, MemberOK e)
    (hany : mem.any (fun di => di.1.1.weight.isSome) = true → aw = true)
    (hnc : NoChain mi.relations (problemAt mi aw mem v).fullLabels v)
    (c res : Vec)
    (hsol : solveLS s (problemAt mi aw mem v).reduced.m (problemAt mi aw mem v).data = some (c, res))
    (j : Nat) (hj : j < mem.length) (m : Nat) (hm : m < mem[j].1.1.nModel) :
    (baseOf mem[j].1.2.labels (problemAt mi aw mem v).fullLabels
        (retrieveClps mi (problemAt mi aw mem v).fullLabels (problemAt mi aw mem v).reduced.labels c v)).length
      = mem[j].1.2.labels.length ∧
    ∃ row y ω, (matrixAt mem[j].1.2 mem[j].1.1.nGlobal mem[j].2)[m]? = some row ∧
      entry? mem[j].1.1.data m mem[j].2 = some y ∧
      (match mem[j].1.1.weight with | none => ω = 1 | some w => entry? w m mem[j].2 = some ω) ∧
      res[((mem.take j).map (fun e => e.1.1.nModel)).sum + m]? =
        some (ω * (y - mem[j].1.1.scale.getD 1 * dot row
          (baseOf mem[j].1.2.labels (problemAt mi aw mem v).fullLabels
            (retrieveClps mi (problemAt mi aw mem v).fullLabels (problemAt mi aw mem v).reduced.labels c v)))) := by
  refine ⟨baseOf_length _ _ _, ?_⟩
  set S := alignMatrices (blocksOf mem) with hS
  have hmemj := hok _ (List.getElem_mem hj)
  obtain ⟨hlmok, hdok, hij⟩ := hmemj
  -- blocks are well formed
  have hblk : ∀ b ∈ blocksOf mem, b.1.labels.Nodup ∧ ∀ r ∈ b.1.m, r.length = b.1.labels.length := by
    intro b hb
    simp only [blocksOf, List.mem_map] at hb
    obtain ⟨e, he, rfl⟩ := hb
    obtain ⟨t, ht, rfl⟩ := List.getElem_of_mem he
    rw [blocksOf_getElem mem hok t ht]
    obtain ⟨h1, _, h3⟩ := hok _ (List.getElem_mem ht)
    exact ⟨h1.1, (matrixAt_ok _ _ _ _ h1 h3).2⟩
  have hnd : ∀ b ∈ blocksOf mem, b.1.labels.Nodup := fun b hb => (hblk b hb).1
  have hwd : ∀ b ∈ blocksOf mem, ∀ r ∈ b.1.m, r.length = b.1.labels.length := fun b hb => (hblk b hb).2
  have hwfS : WF ⟨S.labels, S.m⟩ := by
    refine ⟨alignMatrices_nodup _ hnd, ?_⟩
    exact (C14.mulVec_alignMatrices (blocksOf mem) (fun _ => 0) hnd hwd).2
  -- the row, the data point, the weight
  obtain ⟨hAlen, hAw⟩ := matrixAt_ok _ _ _ _ hlmok hij
  have hmA : m < (matrixAt mem[j].1.2 mem[j].1.1.nGlobal mem[j].2).length := by rw [hAlen]; exact hm
  obtain ⟨y, hy⟩ := entry?_of_rect mem[j].1.1.data mem[j].1.1.nGlobal m mem[j].2 hdok.1 hm hij
  have hω : ∃ ω, (match mem[j].1.1.weight with | none => ω = 1 | some w => entry? w m mem[j].2 = some ω) := by
    cases hw : mem[j].1.1.weight with
    | none => exact ⟨1, rfl⟩
    | some w =>
      exact entry?_of_rect w mem[j].1.1.nGlobal m mem[j].2 (hdok.2 w hw).2 (by rw [(hdok.2 w hw).1]; exact hm) hij
  obtain ⟨ω, hω⟩ := hω
  refine ⟨(matrixAt mem[j].1.2 mem[j].1.1.nGlobal mem[j].2)[m], y, ω, List.getElem?_eq_getElem hmA, hy, hω, ?_⟩
  -- the stacked data at the offset
  have hyw : (dataOf mem)[((mem.take j).map (fun e => e.1.1.nModel)).sum + m]? = some (ω * y) := by
    unfold dataOf
    rw [flatMap_getElem?_offset mem _ (fun e => e.1.1.nModel)
      (fun e he => by rw [Length.len_col, weightedData_length _ (hok e he).2.1]) j hj m hm]
    cases hw : mem[j].1.1.weight with
    | none =>
      rw [hw] at hω; simp only at hω; subst hω
      rw [C02.unweighted_data' _ hw, col_getElem? _ _ _ _ hy]; simp
    | some w =>
      rw [hw] at hω; simp only at hω
      rw [C02.weighted_data' _ w hw, C14.col_hadamard,
        zipWith_mul_getElem? _ _ m _ _ (col_getElem? _ _ _ _ hy) (col_getElem? _ _ _ _ hω), mul_comm]
  -- the weight
  have hwo : match (generalizing := false)
      (if hasWeight aw mem then some (weightOf mem) else none : Option Vec) with
      | some w => w[((mem.take j).map (fun e => e.1.1.nModel)).sum + m]? = some ω
      | none => ω = 1 := by
    by_cases hh : hasWeight aw mem = true
    · simp only [hh, if_true]
      unfold weightOf
      rw [flatMap_getElem?_offset mem _ (fun e => e.1.1.nModel) (fun e he => by
        cases hw : e.1.1.weight with
        | none => simp
        | some w => simp only [Length.len_col]; exact ((hok e he).2.1.2 w hw).1) j hj m hm]
      cases hw : mem[j].1.1.weight with
      | none =>
        rw [hw] at hω; simp only at hω; subst hω
        simp [hm]
      | some w =>
        rw [hw] at hω; simp only at hω
        exact col_getElem? _ _ _ _ hω
    · simp only [hh, Bool.false_eq_true, if_false]
      cases hw : mem[j].1.1.weight with
      | none => rw [hw] at hω; exact hω
      | some w =>
        exfalso
        apply hh
        have hanyT : mem.any (fun di => di.1.1.weight.isSome) = true := by
          rw [List.any_eq_true]
          exact ⟨mem[j], List.getElem_mem hj, by simp [hw]⟩
        simp [hasWeight, hany hanyT, hanyT]
  -- the solver
  have hsol' := hsol
  rw [problemAt_reduced_m, problemAt_data] at hsol'
  have hnc' : NoChain mi.relations S.labels v := hnc
  -- the position is inside the stacked matrix
  have hmul := (C14.mulVec_alignMatrices (blocksOf mem)
    (fun l => match S.labels.idxOf? l with
      | some t => (retrieveClps mi S.labels (reduceAt mi v ⟨S.labels, S.m⟩).labels c v).getD t 0
      | none => 0) hnd hwd).1
  have hblocklen : ∀ e ∈ mem, (mulVec (mscale (e.1.1.scale.getD 1)
      ((slices e.1.2 e.1.1.nGlobal).getD e.2 default).m) (((slices e.1.2 e.1.1.nGlobal).getD e.2 default).labels.map
      (fun l => match S.labels.idxOf? l with
      | some t => (retrieveClps mi S.labels (reduceAt mi v ⟨S.labels, S.m⟩).labels c v).getD t 0
      | none => 0))).length = e.1.1.nModel := by
    intro e he
    obtain ⟨h1, _, h3⟩ := hok e he
    rw [C14.mulVec_length]
    simp only [mscale, List.length_map]
    exact (matrixAt_ok _ _ _ _ h1 h3).1
  have hSlen : ((mem.take j).map (fun e => e.1.1.nModel)).sum + m < S.m.length := by
    have h1 := congrArg List.length hmul
    rw [C14.mulVec_length] at h1
    rw [h1]
    simp only [blocksOf, List.flatMap_map]
    have h2 := flatMap_getElem?_offset mem (fun e => mulVec (mscale (e.1.1.scale.getD 1)
      ((slices e.1.2 e.1.1.nGlobal).getD e.2 default).m) (((slices e.1.2 e.1.1.nGlobal).getD e.2 default).labels.map
      (fun l => match S.labels.idxOf? l with
      | some t => (retrieveClps mi S.labels (reduceAt mi v ⟨S.labels, S.m⟩).labels c v).getD t 0
      | none => 0))) (fun e => e.1.1.nModel) hblocklen j hj m hm
    have h3 : m < (mulVec (mscale (mem[j].1.1.scale.getD 1)
      ((slices mem[j].1.2 mem[j].1.1.nGlobal).getD mem[j].2 default).m)
      (((slices mem[j].1.2 mem[j].1.1.nGlobal).getD mem[j].2 default).labels.map
      (fun l => match S.labels.idxOf? l with
      | some t => (retrieveClps mi S.labels (reduceAt mi v ⟨S.labels, S.m⟩).labels c v).getD t 0
      | none => 0))).length := by
      rw [hblocklen _ (List.getElem_mem hj)]; exact hm
    rw [List.getElem?_eq_getElem h3] at h2
    exact (List.getElem?_eq_some_iff.mp h2).1
  obtain ⟨hlen, hres⟩ := index_fit_gen mi s v S.labels S.m (dataOf mem) _ c res hwfS hnc' hsol'
    _ hSlen y ω hyw hwo
  -- (S · full) at the offset
  have hfull : S.labels.map (fun l => match S.labels.idxOf? l with
      | some t => (retrieveClps mi S.labels (reduceAt mi v ⟨S.labels, S.m⟩).labels c v).getD t 0
      | none => 0) = retrieveClps mi S.labels (reduceAt mi v ⟨S.labels, S.m⟩).labels c v :=
    baseOf_self S.labels _ hwfS.1 hlen
  rw [hfull] at hmul
  have hrl : (problemAt mi aw mem v).reduced.labels = (reduceAt mi v ⟨S.labels, S.m⟩).labels :=
    problemAt_reduced_labels mi aw mem v
  rw [problemAt_fullLabels, hrl]
  apply hres
  rw [hmul]
  simp only [blocksOf, List.flatMap_map]
  rw [flatMap_getElem?_offset mem _ (fun e => e.1.1.nModel) hblocklen j hj m hm]
  have hb := blocksOf_getElem mem hok j hj
  have hb1 := congrArg (fun p => p.1) hb
  simp only at hb1
  rw [hb1]
  simp only
  rw [mulVec_getElem?, mscale_getElem?, List.getElem?_eq_getElem hmA]
  simp only [Option.map_some, dot_vscale]
  rfl

/-! ### `alignAxes`: no repeated aligned values -/

theorem hasDup_false_nodup (l : List Rat) (h : hasDup l = false) : l.Nodup := by
  induction l with
  | nil => simp
  | cons x xs ih =>
    simp only [hasDup, Bool.or_eq_false_iff] at h
    refine List.nodup_cons.mpr ⟨?_, ih h.2⟩
    intro hx
    have := h.1
    simp [hx] at this

theorem alignStep_nodup (tol : Rat) (m : Method) (rest : List (List Rat)) (vals : List Rat)
    (done : List (List Rat)) (out : List Rat × List (List Rat)) (hd : ∀ al ∈ done, al.Nodup)
    (h : rest.foldl (fun (acc : Option (List Rat × List (List Rat))) ax =>
      match acc with
      | none => none
      | some (vals, done) =>
        let al := ax.map (fun x => alignIndex x vals tol m)
        if hasDup al then none
        else some (sortedUnion [] (vals ++ al), done ++ [al])) (some (vals, done)) = some out) :
    ∀ al ∈ out.2, al.Nodup := by
  induction rest generalizing vals done with
  | nil =>
    simp only [List.foldl_nil, Option.some.injEq] at h
    subst h; exact hd
  | cons ax rest ih =>
    simp only [List.foldl_cons] at h
    split at h
    · rw [alignStep_none] at h; cases h
    · rename_i hdup
      apply ih _ _ _ h
      intro al hal
      rcases List.mem_append.mp hal with h1 | h1
      · exact hd al h1
      · simp only [List.mem_singleton] at h1
        subst h1
        exact hasDup_false_nodup _ (by simpa using hdup)

theorem alignAxes_nodup (axes : List (List Rat)) (tol : Rat) (m : Method) (aligned : List (List Rat))
    (h : alignAxes axes tol m = some aligned) (hfirst : ∀ a ∈ axes, a.Nodup) : ∀ al ∈ aligned, al.Nodup := by
  unfold alignAxes at h
  cases axes with
  | nil => simp only [Option.some.injEq] at h; subst h; simp
  | cons first rest =>
    simp only at h
    obtain ⟨out, hout, rfl⟩ := Option.map_eq_some_iff.mp h
    exact alignStep_nodup tol m rest first [first] out
      (by intro al hal; simp only [List.mem_singleton] at hal; subst hal; exact hfirst _ List.mem_cons_self) hout

theorem length_getElem_of_map_length_eq (a b : List (List Rat)) (h : a.map List.length = b.map List.length)
    (k : Nat) (h1 : k < a.length) (h2 : k < b.length) : a[k].length = b[k].length := by
  have := congrArg (fun l => l[k]?) h
  simpa [List.getElem?_map, List.getElem?_eq_getElem h1, List.getElem?_eq_getElem h2] using this

/-! ### finding the solution of an aligned value -/

theorem find?_zip_fst {β} (l : List Rat) (r : List β) (v : Rat) (hv : v ∈ l) (hlen : l.length ≤ r.length) :
    ∃ t, ∃ (h1 : t < l.length) (h2 : t < r.length), l[t] = v ∧
      (l.zip r).find? (fun e => e.1 == v) = some (l[t], r[t]) := by
  induction l generalizing r with
  | nil => simp at hv
  | cons a l ih =>
    cases r with
    | nil => simp at hlen
    | cons b r =>
      by_cases ha : a = v
      · refine ⟨0, by simp, by simp, by simpa using ha, ?_⟩
        simp [ha]
      · have hv' : v ∈ l := by
          rcases List.mem_cons.mp hv with h | h
          · exact absurd h.symm ha
          · exact h
        obtain ⟨t, h1, h2, h3, h4⟩ := ih r hv' (by simpa using hlen)
        refine ⟨t + 1, by simpa using h1, by simpa using h2, by simpa using h3, ?_⟩
        have hav : (a == v) = false := by simpa using ha
        simp only [List.zip_cons_cons, List.find?_cons, hav, List.getElem_cons_succ]
        exact h4

theorem filterMap_getElem?_of_isSome {α β} (f : α → Option β) (l : List α) (h : ∀ a ∈ l, (f a).isSome = true)
    (i : Nat) : (l.filterMap f)[i]? = (l[i]?).bind f := by
  induction l generalizing i with
  | nil => simp
  | cons a l ih =>
    obtain ⟨b, hb⟩ := Option.isSome_iff_exists.mp (h a List.mem_cons_self)
    rw [List.filterMap_cons_some hb]
    cases i with
    | zero => simp [hb]
    | succ i => simpa using ih (fun x hx => h x (List.mem_cons_of_mem _ hx)) i

theorem sols_getElem (s : Solver) (ps : List IndexProblem) (sols : List (IndexProblem × (Vec × Vec)))
    (h : ps.mapM (fun p => (solveLS s p.reduced.m p.data).map (fun cr => (p, cr))) = some sols) :
    sols.length = ps.length ∧ ∀ t (h1 : t < ps.length) (h2 : t < sols.length),
      sols[t].1 = ps[t] ∧ solveLS s ps[t].reduced.m ps[t].data = some sols[t].2 := by
  obtain ⟨hl, hg⟩ := C14.mapM_some_getElem _ _ _ h
  refine ⟨hl, ?_⟩
  intro t h1 h2
  have := hg t h1 h2
  cases hs : solveLS s ps[t].reduced.m ps[t].data with
  | none => simp [hs] at this
  | some cr =>
    simp only [hs, Option.map_some, Option.some.injEq] at this
    rw [← this]; exact ⟨rfl, rfl⟩

/-! ### the position of a dataset's block -/

theorem filterMap_position_aux {α β} (f : α → Option β) (A R : List α) (x : α) (b : β) (hb : f x = some b) :
    ((A ++ x :: R).filterMap f)[(A.filterMap f).length]? = some b ∧
    ((A ++ x :: R).filterMap f).take (A.filterMap f).length = A.filterMap f := by
  rw [List.filterMap_append, List.filterMap_cons_some hb]
  exact ⟨by simp, by simp⟩

theorem filterMap_position {α β} (f : α → Option β) (Z : List α) (k : Nat) (hk : k < Z.length) (b : β)
    (hb : f Z[k] = some b) :
    (Z.filterMap f)[((Z.take k).filterMap f).length]? = some b ∧
    (Z.filterMap f).take ((Z.take k).filterMap f).length = (Z.take k).filterMap f := by
  have hZ : Z.filterMap f = (Z.take k ++ Z[k] :: Z.drop (k + 1)).filterMap f := by
    rw [← List.drop_eq_getElem_cons hk, List.take_append_drop]
  rw [hZ]
  exact filterMap_position_aux f _ _ _ b hb

theorem before_sum (Z : List ((Dataset × LMat) × List Rat)) (v : Rat) :
    ((Z.map (fun z => (z.1.1, z.2))).filter (fun e => e.2.contains v)).map (fun e => e.1.nModel) =
    (Z.filterMap (memberOf v)).map (fun e => e.1.1.nModel) := by
  induction Z with
  | nil => rfl
  | cons z Z ih =>
    have hc := idxOf?_isSome_iff_contains z.2 v
    cases hidx : z.2.idxOf? v with
    | none =>
      rw [hidx] at hc
      have hc' : z.2.contains v = false := by simpa using hc.symm
      have hm : memberOf v z = none := by simp [memberOf, hidx]
      simp only [List.map_cons, List.filter_cons, hc', Bool.false_eq_true, if_false,
        List.filterMap_cons_none hm]
      exact ih
    | some i =>
      rw [hidx] at hc
      have hc' : z.2.contains v = true := by simpa using hc.symm
      have hm : memberOf v z = some (z.1, i) := by simp [memberOf, hidx]
      simp only [List.map_cons, List.filter_cons, hc', if_true, List.filterMap_cons_some hm]
      rw [ih]

theorem mem_membersOf (dms : List (Dataset × LMat)) (aligned : List (List Rat)) (v : Rat) (e : Member)
    (he : e ∈ membersOf dms aligned v) :
    ∃ k, ∃ (h1 : k < dms.length) (h2 : k < aligned.length), e.1 = dms[k] ∧ aligned[k].idxOf? v = some e.2 := by
  simp only [membersOf, List.mem_filterMap] at he
  obtain ⟨da, hda, hf⟩ := he
  obtain ⟨k, hk, rfl⟩ := List.getElem_of_mem hda
  have h1 : k < dms.length := by simp only [List.length_zip] at hk; omega
  have h2 : k < aligned.length := by simp only [List.length_zip] at hk; omega
  refine ⟨k, h1, h2, ?_⟩
  simp only [memberOf, List.getElem_zip] at hf
  cases hidx : aligned[k].idxOf? v with
  | none => simp [hidx] at hf
  | some i =>
    simp only [hidx, Option.map_some, Option.some.injEq] at hf
    subst hf
    exact ⟨rfl, rfl⟩

theorem dms_spec (ds : List Dataset) (dms : List (Dataset × LMat))
    (h : ds.mapM (fun d => (datasetMatrix d.mcs).map (fun lm => (d, lm))) = some dms) :
    dms.length = ds.length ∧ dms.map (·.1) = ds ∧
    ∀ k (h1 : k < ds.length) (h2 : k < dms.length),
      dms[k].1 = ds[k] ∧ datasetMatrix ds[k].mcs = some dms[k].2 := by
  obtain ⟨hl, hg⟩ := C14.mapM_some_getElem _ _ _ h
  have hk : ∀ k (h1 : k < ds.length) (h2 : k < dms.length),
      dms[k].1 = ds[k] ∧ datasetMatrix ds[k].mcs = some dms[k].2 := by
    intro k h1 h2
    have := hg k h1 h2
    cases hm : datasetMatrix ds[k].mcs with
    | none => simp [hm] at this
    | some lm =>
      simp only [hm, Option.map_some, Option.some.injEq] at this
      rw [← this]; exact ⟨rfl, rfl⟩
  refine ⟨hl, ?_, hk⟩
  apply List.ext_getElem (by simpa using hl)
  intro k h1 h2
  simp only [List.getElem_map]
  exact (hk k h2 (by simpa using h1)).1

/-! ### the assembly -/

/-- hypotheses on a linked group -/
structure LinkedOK (mi : ModelItems) (g : Group) : Prop where
  /-- dataset labels are pairwise distinct -/
  labels : (g.datasets.map (·.label)).Nodup
  /-- data and weights are rectangular -/
  data : ∀ d ∈ g.datasets, DataOK d
  /-- every dataset's combined matrix is well formed -/
  matrix : ∀ d ∈ g.datasets, ∀ lm, datasetMatrix d.mcs = some lm → LMatOK d.nModel d.nGlobal lm
  /-- no global axis repeats a value -/
  axes : ∀ d ∈ g.datasets, d.globalAxis.Nodup
  /-- no chained relations on the stacked labels of any aligned index -/
  nochain : ∀ axis ps, linkedProblems mi g = some (axis, ps) → ∀ p ∈ ps, NoChain mi.relations p.fullLabels p.x

theorem linked_point (mi : ModelItems) (g : Group) (rs : List DsResult) (h : linkedResultsOwn mi g = some rs)
    (hok : LinkedOK mi g) (k : Nat) (hk : k < g.datasets.length) (lm : LMat)
    (hlm : datasetMatrix g.datasets[k].mcs = some lm) (i m : Nat) (hi : i < g.datasets[k].nGlobal)
    (hm : m < g.datasets[k].nModel) :
    ∃ r, rs[k]? = some r ∧ r.label = g.datasets[k].label ∧ r.clpLabels = lm.labels ∧
      PointSpec g.datasets[k] lm r i m := by
  rw [linkedResultsOwn_eq] at h
  have hlp := linkedProblems_eq mi g
  cases hal : alignAxes (g.datasets.map (·.globalAxis)) g.tol g.method with
  | none => rw [hal] at h; simp at h
  | some aligned =>
    rw [hal] at hlp
    cases hdms : g.datasets.mapM (fun d => (datasetMatrix d.mcs).map (fun lm => (d, lm))) with
    | none => rw [hdms] at hlp; rw [hal, hlp] at h; simp at h
    | some dms =>
      rw [hdms] at hlp
      simp only at hlp
      rw [hal, hlp] at h
      simp only at h
      generalize haxis : aligned.foldl sortedUnion [] = axis at h hlp
      generalize haw : g.datasets.any (·.weight.isSome) = aw at h hlp
      cases hsols : (axis.map (fun v => problemAt mi aw (membersOf dms aligned v) v)).mapM
          (fun (p : IndexProblem) => (solveLS g.solver p.reduced.m p.data).map (fun cr => (p, cr))) with
      | none => rw [hsols] at h; simp at h
      | some sols =>
        rw [hsols] at h
        simp only [Option.some.injEq] at h
        subst h
        -- sizes
        have hlens := alignAxes_lengths _ _ _ _ hal
        have hlenA : aligned.length = g.datasets.length := by
          have := congrArg List.length hlens; simpa using this
        have hk2 : k < aligned.length := by omega
        have halk : aligned[k].length = g.datasets[k].nGlobal := by
          have := length_getElem_of_map_length_eq _ _ hlens k hk2 (by simpa using hk)
          simpa [Dataset.nGlobal] using this
        have hnodup : ∀ al ∈ aligned, al.Nodup := alignAxes_nodup _ _ _ _ hal (by
          intro a ha
          obtain ⟨d, hd, rfl⟩ := List.mem_map.mp ha
          exact hok.axes d hd)
        obtain ⟨hdl, hdfst, hdk⟩ := dms_spec _ _ hdms
        have hk3 : k < dms.length := by omega
        obtain ⟨hdk1, hdk2⟩ := hdk k hk hk3
        rw [hlm] at hdk2
        have hdmsk : dms[k] = (g.datasets[k], lm) := by
          rw [← hdk1]; simp only [Option.some.injEq] at hdk2; rw [hdk2]
        obtain ⟨hsl, hsget⟩ := sols_getElem _ _ _ hsols
        have hsl' : sols.length = axis.length := by simpa using hsl
        -- the result of dataset k
        have hzk : k < (g.datasets.zip aligned).length := by simp; omega
        refine ⟨linkedOneOwn mi (g.datasets.zip aligned) axis sols (g.datasets[k], aligned[k]), ?_, ?_, ?_, ?_⟩
        · rw [List.getElem?_map, List.getElem?_eq_getElem hzk]; simp [List.getElem_zip]
        · exact finish_label ..
        · unfold linkedOneOwn; simp only [finish_clpLabels, hlm]
        · -- the point
          have hi' : i < aligned[k].length := by rw [halk]; exact hi
          have hvax : ∀ v ∈ aligned[k], v ∈ axis := by
            intro v hv
            rw [← haxis, mem_foldl_sortedUnion]
            exact Or.inr ⟨aligned[k], List.getElem_mem hk2, hv⟩
          obtain ⟨t, ht1, ht2, ht3, ht4⟩ := find?_zip_fst axis sols aligned[k][i]
            (hvax _ (List.getElem_mem hi')) (by omega)
          have hall : ∀ v ∈ aligned[k], ((axis.zip sols).find? (fun vs => vs.1 == v)).isSome = true := by
            intro v hv
            obtain ⟨t', _, _, _, h4⟩ := find?_zip_fst axis sols v (hvax v hv) (by omega)
            rw [h4]; rfl
          have hhit : (aligned[k].filterMap (fun v => (axis.zip sols).find? (fun vs => vs.1 == v)))[i]? =
              some (axis[t], sols[t]) := by
            rw [filterMap_getElem?_of_isSome _ _ hall, List.getElem?_eq_getElem hi']
            exact ht4
          -- the problem and its solution
          have htp : t < (axis.map (fun v => problemAt mi aw (membersOf dms aligned v) v)).length := by
            simpa using ht1
          obtain ⟨hs1, hs2⟩ := hsget t htp ht2
          simp only [List.getElem_map] at hs1 hs2
          rw [ht3] at hs1 hs2
          generalize hv : aligned[k][i] = v at hs1 hs2 ht3 ht4 hhit
          generalize hmem : membersOf dms aligned v = mem at hs1 hs2
          generalize hst : sols[t] = st at hs1 hs2 hhit ht4
          obtain ⟨p, c, res⟩ := st
          simp only at hs1 hs2
          subst hs1
          -- the members
          have hokmem : ∀ e ∈ mem, MemberOK e := by
            intro e he
            rw [← hmem] at he
            obtain ⟨k', h1, h2, he1, he2⟩ := mem_membersOf _ _ _ _ he
            have h1' : k' < g.datasets.length := by omega
            obtain ⟨hd1, hd2⟩ := hdk k' h1' h1
            have hdin : e.1.1 ∈ g.datasets := by rw [he1, hd1]; exact List.getElem_mem h1'
            refine ⟨hok.matrix _ hdin _ (by rw [he1, hd1]; exact hd2), hok.data _ hdin, ?_⟩
            obtain ⟨hlt, _⟩ := C14.idxOf?_some_getElem _ _ _ he2
            have hlen' := length_getElem_of_map_length_eq _ _ hlens k' h2 (by simpa using h1')
            simp only [List.getElem_map] at hlen'
            rw [he1, hd1]
            show e.2 < g.datasets[k'].globalAxis.length
            rw [← hlen']; exact hlt
          have hany : mem.any (fun di => di.1.1.weight.isSome) = true → aw = true := by
            intro ha
            rw [List.any_eq_true] at ha
            obtain ⟨e, he, hw⟩ := ha
            rw [← hmem] at he
            obtain ⟨k', h1, h2, he1, _⟩ := mem_membersOf _ _ _ _ he
            have h1' : k' < g.datasets.length := by omega
            rw [← haw, List.any_eq_true]
            refine ⟨g.datasets[k'], List.getElem_mem h1', ?_⟩
            rw [← (hdk k' h1' h1).1, ← he1]; exact hw
          have hnc : NoChain mi.relations (problemAt mi aw mem v).fullLabels v := by
            have := hok.nochain _ _ hlp (problemAt mi aw mem v) (by
              rw [List.mem_map]
              exact ⟨v, by rw [← ht3]; exact List.getElem_mem ht1, by rw [hmem]⟩)
            exact this
          -- position of the dataset's block
          have hZk : k < (dms.zip aligned).length := by simp; omega
          have hZget : (dms.zip aligned)[k] = ((g.datasets[k], lm), aligned[k]) := by
            simp [List.getElem_zip, hdmsk]
          have hidx : aligned[k].idxOf? v = some i := by
            rw [← hv]; exact idxOf?_getElem_of_nodup _ (hnodup _ (List.getElem_mem hk2)) i hi'
          have hmemk : memberOf v (dms.zip aligned)[k] = some ((g.datasets[k], lm), i) := by
            rw [hZget]; simp [memberOf, hidx]
          obtain ⟨hpos1, hpos2⟩ := filterMap_position (memberOf v) (dms.zip aligned) k hZk _ hmemk
          have hmem' : (dms.zip aligned).filterMap (memberOf v) = mem := hmem
          rw [hmem'] at hpos1 hpos2
          generalize hj : ((dms.zip aligned).take k).filterMap (memberOf v) = pre at hpos1 hpos2
          have hjlt : pre.length < mem.length := (List.getElem?_eq_some_iff.mp hpos1).1
          have hmj : mem[pre.length] = ((g.datasets[k], lm), i) := (List.getElem?_eq_some_iff.mp hpos1).2
          have hm' : m < mem[pre.length].1.1.nModel := by rw [hmj]; exact hm
          obtain ⟨hclplen, row, y, ω, hrow, hy, hω, hres⟩ :=
            linked_index mi g.solver aw mem v hokmem hany hnc c res hs2 pre.length hjlt m hm'
          rw [hpos2] at hres
          simp only [hmj] at hclplen hrow hy hω hres
          -- the start offset used by `linkedOneOwn`
          have hstart : ((((g.datasets.zip aligned).takeWhile (fun e => e.1.label != g.datasets[k].label)).filter
              (fun e => e.2.contains v)).map (fun e => e.1.nModel)).foldl (· + ·) 0 =
              (pre.map (fun e => e.1.1.nModel)).sum := by
            rw [foldl_add_eq_sum]
            have hda : g.datasets.zip aligned = (dms.zip aligned).map (fun z => (z.1.1, z.2)) := by
              rw [← hdfst, List.zip_map_left]
              rfl
            have htw : (g.datasets.zip aligned).takeWhile (fun e => e.1.label != g.datasets[k].label) =
                (g.datasets.zip aligned).take k := by
              have hget : (g.datasets.zip aligned)[k] = (g.datasets[k], aligned[k]) := by simp [List.getElem_zip]
              have := takeWhile_bne_of_nodup (fun e : Dataset × List Rat => e.1.label) (g.datasets.zip aligned)
                (by
                  have : (g.datasets.zip aligned).map (fun e => e.1.label) = g.datasets.map (·.label) := by
                    rw [show (fun e : Dataset × List Rat => e.1.label) = (fun d : Dataset => d.label) ∘ Prod.fst from rfl,
                      ← List.map_map, List.map_fst_zip (by omega)]
                  rw [this]; exact hok.labels) k hzk
              rw [hget] at this
              exact this
            rw [htw, hda, ← List.map_take, before_sum, hj]
          -- assemble
          unfold linkedOneOwn
          simp only
          rw [hlm]
          apply pointSpec_of_column g.datasets[k] lm _ _ _ i m hm
            (baseOf lm.labels (problemAt mi aw mem v).fullLabels
              (retrieveClps mi (problemAt mi aw mem v).fullLabels (problemAt mi aw mem v).reduced.labels c v))
            row ((res.drop ((pre.map (fun e => e.1.1.nModel)).sum)).take g.datasets[k].nModel) y ω
          · rw [List.getElem?_map, List.getElem?_map, hhit]; rfl
          · exact hclplen
          · exact hrow
          · exact hy
          · exact hω
          · rw [List.getElem?_map, List.getElem?_map, hhit]
            simp only [Option.map_some, ht3, hstart]
          · rw [drop_take_getElem? _ _ _ _ hm]
            exact hres

/-! ### any group -/

/-- hypotheses on a dataset group (linked or not) under which `fitted = scale × matrix × clp` is proved -/
structure GroupOK (mi : ModelItems) (g : Group) : Prop where
  /-- data and weights are rectangular -/
  data : ∀ d ∈ g.datasets, DataOK d
  /-- every dataset's combined matrix is well formed -/
  matrix : ∀ d ∈ g.datasets, ∀ lm, datasetMatrix d.mcs = some lm → LMatOK d.nModel d.nGlobal lm
  /-- unlinked: no global model (see `full_model_…` for those), no chained relations at any global index -/
  unlinked : g.linked = false →
    (∀ d ∈ g.datasets, d.gmcs = []) ∧
    ∀ d ∈ g.datasets, ∀ lm, datasetMatrix d.mcs = some lm → ∀ x ∈ d.globalAxis, NoChain mi.relations lm.labels x
  /-- linked: distinct dataset labels, no repeated global axis values, no chained relations on the stacked
      labels of any aligned index -/
  linked : g.linked = true →
    (g.datasets.map (·.label)).Nodup ∧ (∀ d ∈ g.datasets, d.globalAxis.Nodup) ∧
    ∀ axis ps, linkedProblems mi g = some (axis, ps) → ∀ p ∈ ps, NoChain mi.relations p.fullLabels p.x

theorem group_point (mi : ModelItems) (g : Group) (rs : List DsResult) (h : groupResultsOwn mi g = some rs)
    (hok : GroupOK mi g) (k : Nat) (hk : k < g.datasets.length) (lm : LMat)
    (hlm : datasetMatrix g.datasets[k].mcs = some lm) (i m : Nat) (hi : i < g.datasets[k].nGlobal)
    (hm : m < g.datasets[k].nModel) :
    ∃ r, rs[k]? = some r ∧ r.label = g.datasets[k].label ∧ r.clpLabels = lm.labels ∧
      PointSpec g.datasets[k] lm r i m := by
  unfold groupResultsOwn at h
  cases hl : g.linked with
  | true =>
    simp only [hl, if_true] at h
    obtain ⟨h1, h2, h3⟩ := hok.linked hl
    exact linked_point mi g rs h ⟨h1, hok.data, hok.matrix, h2, h3⟩ k hk lm hlm i m hi hm
  | false =>
    simp only [hl, Bool.false_eq_true, if_false] at h
    obtain ⟨h1, h2⟩ := hok.unlinked hl
    obtain ⟨hlen, hget⟩ := C14.mapM_some_getElem _ _ _ h
    have hk' : k < rs.length := by omega
    have hr := hget k hk hk'
    have hd := List.getElem_mem hk
    obtain ⟨hc, hp⟩ := unlinked_pointSpec mi g.solver g.datasets[k] lm rs[k] hr (h1 _ hd) hlm
      (hok.matrix _ hd lm hlm) (hok.data _ hd) (h2 _ hd lm hlm) i m hi hm
    exact ⟨rs[k], List.getElem?_eq_getElem hk', (unlinkedResult_shape mi g.solver _ _ (h1 _ hd) hr).1, hc, hp⟩

/-- where the weight (if any) is non-zero, the point statement gives `fitted = scale · row · clp` -/
theorem PointSpec.fitted {d : Dataset} {lm : LMat} {r : DsResult} {i m : Nat} (h : PointSpec d lm r i m)
    (hw : ∀ w, d.weight = some w → entry? w m i ≠ some 0) :
    ∃ clp row, r.clps[i]? = some clp ∧ clp.length = lm.labels.length ∧
      (matrixAt lm d.nGlobal i)[m]? = some row ∧
      entry? r.fitted m i = some (d.scale.getD 1 * dot row clp) := by
  obtain ⟨clp, row, y, h1, h2, h3, _, h5⟩ := h
  refine ⟨clp, row, h1, h2, h3, ?_⟩
  cases hwt : d.weight with
  | none =>
    rw [hwt] at h5
    simp only at h5
    rw [h5.2.2]; congr 1; ring
  | some w =>
    rw [hwt] at h5
    simp only at h5
    obtain ⟨ω, wres, hω, _, _, _, hf⟩ := h5
    have hne : ω ≠ 0 := by
      intro h0; subst h0; exact hw w hwt hω
    rw [hf]; congr 1; field_simp; ring

/-- a global condition on the relations that excludes chains for every label list and index: the
    targets are pairwise distinct and no relation's source is a relation's target -/
def RelationsFlat (rels : List Relation) : Prop :=
  (rels.map (·.target)).Nodup ∧ ∀ r ∈ rels, ∀ r' ∈ rels, r.source ≠ r'.target

theorem noChain_of_flat (rels : List Relation) (h : RelationsFlat rels) (L : List String) (x : Rat) :
    NoChain rels L x := by
  refine ⟨?_, fun r hr r' hr' _ _ => h.2 r hr r' hr'⟩
  exact (List.Sublist.map _ List.filter_sublist).nodup h.1

end Glotaran.C03
