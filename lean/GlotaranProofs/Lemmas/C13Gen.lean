/-
C13 — lemmas about the translator's vocabulary (GlotaranModel/C13Py.lean): every Python / numpy operation in terms of
the operations the hand-written model uses, the covariance pipeline, the real-number instance of `SNum`.
-/
import GlotaranModel.C13Py
import GlotaranProofs.Lemmas.C13
import GlotaranProofs.Lemmas.C11
import Mathlib.Analysis.Real.Sqrt
namespace Glotaran.C13.Py
open Glotaran.LinAlg Glotaran.C02 Glotaran.C13

/-! ### scalars and 1-D arrays -/

theorem foldl_add_int (l : List Int) (a : Int) : l.foldl (· + ·) a = a + l.sum := by
  induction l generalizing a with
  | nil => simp
  | cons x xs ih => simp only [List.foldl_cons, List.sum_cons, ih]; omega

theorem sumInt_eq (l : List Int) : sumInt l = l.sum := by
  unfold sumInt; rw [foldl_add_int]; omega

theorem sumVec_powVec_two (v : Vec) : sumVec (powVec v 2) = sumOfSquares v := by
  unfold sumVec powVec sumOfSquares
  congr 1
  apply List.map_congr_left
  intro x _
  ring

theorem foldl_add_rat (l : List Rat) (a : Rat) : l.foldl (· + ·) a = a + l.sum := by
  induction l generalizing a with
  | nil => simp
  | cons x xs ih => simp only [List.foldl_cons, List.sum_cons, ih]; ring

theorem npdot_eq_dot (a b : Vec) : npdot a b = dot a b := by
  unfold npdot dot
  rw [foldl_add_rat]; ring

theorem npdot_self (v : Vec) : npdot v v = sumOfSquares v := by
  rw [npdot_eq_dot, dot_self_eq]

theorem sumMat_powMat_two (m : Mat) : sumMat (powMat m 2) = matSumSq m := by
  unfold sumMat powMat matSumSq sumOfSquares
  rw [← List.map_flatten]
  congr 1
  apply List.map_congr_left
  intro x _
  ring

theorem maxInt_pair (m n : Nat) : maxInt [(m : Int), (n : Int)] = ((max m n : Nat) : Int) := by
  simp only [maxInt, List.foldl_cons, List.foldl_nil]
  split <;> omega

theorem maxInitial_zero (sv : Vec) : maxInitial sv 0 = svMax sv := rfl

theorem finfoEps_eq : finfoEps = machEps := rfl

theorem gtScalar_threshold (sv : Vec) (m n : Nat) : gtScalar sv (threshold sv m n) = svMask sv m n := rfl

theorem powVec_two (v : Vec) : powVec v 2 = v.map (fun s => s * s) := by
  unfold powVec
  apply List.map_congr_left
  intro x _
  ring

theorem pydiv_intCast (a : Rat) (d : Int) : pydiv a (d : Rat) = if d = 0 then none else some (a / (d : Rat)) := by
  unfold pydiv
  by_cases h : d = 0
  · simp [h]
  · have : (d : Rat) ≠ 0 := by exact_mod_cast h
    simp [h, this]

theorem size_eq (v : Vec) : size v = (v.length : Int) := rfl

theorem len_eq {β : Type} (l : List β) : len l = (l.length : Int) := rfl

theorem idx_shapeMat_zero (m : Mat) : idx (shapeMat m) 0 = (m.length : Int) := rfl

theorem idx_shapeMat_one (m : Mat) : idx (shapeMat m) 1 = (ncols m : Int) := rfl

/-- `sum(f(index) for index in range(len(l)))` with `f(index) = g(l[index])` is `sum(g(x) for x in l)` -/
theorem sum_range_len {β : Type} (l : List β) (f : Int → Int) (g : β → Int)
    (h : ∀ (k : Nat) (hk : k < l.length), f (k : Int) = g l[k]) :
    ((range (len l)).map f).sum = (l.map g).sum := by
  unfold range len
  rw [List.map_map]
  congr 1
  apply List.ext_getElem
  · simp
  · intro k h1 h2
    simp only [List.getElem_map, List.getElem_range, Function.comp, Int.toNat_natCast]
    have hk : k < l.length := by simpa using h1
    exact h k hk

/-! ### the covariance pipeline -/

theorem maskList_map_right {β : Type} (keep : Rat → Bool) (g : Vec → β) (sv : Vec) (vt : Mat) :
    maskList (sv.map keep) (vt.map g) = (keptRows keep sv vt).map (fun p => g p.2) := by
  unfold maskList keptRows
  induction sv generalizing vt with
  | nil => cases vt <;> simp
  | cons s ss ih =>
    cases vt with
    | nil => simp
    | cons r rs =>
      simp only [List.map_cons, List.zip_cons_cons, List.filter_cons]
      by_cases h : keep s = true
      · simp only [h, if_true, List.map_cons, ih]
      · simp only [h]
        exact ih rs

theorem maskList_map_left (keep : Rat → Bool) (g : Rat → Rat) (sv : Vec) (vt : Mat) (hlen : vt.length = sv.length) :
    maskList (sv.map keep) (sv.map g) = (keptRows keep sv vt).map (fun p => g p.1) := by
  unfold maskList keptRows
  induction sv generalizing vt with
  | nil => simp
  | cons s ss ih =>
    cases vt with
    | nil => simp at hlen
    | cons r rs =>
      have hl : rs.length = ss.length := by simpa using hlen
      simp only [List.map_cons, List.zip_cons_cons, List.filter_cons]
      by_cases h : keep s = true
      · simp only [h, if_true, List.map_cons, ih rs hl]
      · simp only [h]
        exact ih rs hl

theorem range_map_getD_pair {β γ₁ γ₂ δ : Type} (l : List β) (a : β → γ₁) (b : β → γ₂) (da : γ₁) (db : γ₂)
    (F : γ₁ → γ₂ → δ) :
    (List.range l.length).map (fun k => F ((l.map a).getD k da) ((l.map b).getD k db)) = l.map (fun p => F (a p) (b p)) := by
  apply List.ext_getElem
  · simp
  · intro k h1 h2
    have hk : k < l.length := by simpa using h2
    simp [List.getD_eq_getElem?_getD, hk]

/-- **the array expression of the code is the entry-wise sum of the model**: for a mask computed from the singular
    values, `(Vt[mask].T / s²[mask]) @ Vt[mask]` read as a matrix is `covarianceWith` (`Vt` has one row per singular
    value — numpy refuses a boolean index of another length) -/
theorem covariance_pipeline (sv : Vec) (vt : Mat) (n : Nat) (keep : Rat → Bool) (hlen : vt.length = sv.length) :
    (Arr.matmul (Arr.divVec (Arr.T (Arr.mask (Arr.ofMat n vt) (sv.map keep))) (maskList (sv.map keep) (sv.map (fun s => s * s))))
      (Arr.mask (Arr.ofMat n vt) (sv.map keep))).toMat = covarianceWith keep sv vt n := by
  unfold covarianceWith
  simp only [Arr.matmul, Arr.divVec, Arr.T, Arr.mask, Arr.ofMat, Arr.toMat, List.map_map, List.length_map]
  rw [maskList_map_right keep (fun r j => r.getD j 0) sv vt, maskList_map_left keep (fun s => s * s) sv vt hlen]
  simp only [List.length_map]
  apply List.map_congr_left
  intro i _
  simp only [Function.comp]
  apply List.map_congr_left
  intro j _
  congr 1
  exact range_map_getD_pair (keptRows keep sv vt) (fun p => (fun j => p.2.getD j 0)) (fun p => p.1 * p.1) zeroRow 0
    (fun r q => r i / q * r j)

theorem covarianceWith_length (keep : Rat → Bool) (sv : Vec) (vt : Mat) (n : Nat) :
    (covarianceWith keep sv vt n).length = n := by
  simp [covarianceWith]

/-- the diagonal of an `n × n` array is the diagonal of the matrix it reads as -/
theorem diag_of_toMat (a : Arr) (n : Nat) (hr : a.rows.length = n) (hc : a.cols = n) :
    a.diag = (List.range a.toMat.length).map (fun i => (a.toMat.getD i []).getD i 0) := by
  unfold Arr.diag Arr.toMat
  simp only [hr, hc, Nat.min_self, List.length_map]
  apply List.map_congr_left
  intro i hi
  have hi' : i < n := List.mem_range.mp hi
  have hi'' : i < a.rows.length := by omega
  simp [List.getD_eq_getElem?_getD, hi', hi'']

theorem pipeline_shape (vt : Mat) (n : Nat) (mask : List Bool) (q : Vec) :
    (Arr.matmul (Arr.divVec (Arr.T (Arr.mask (Arr.ofMat n vt) mask)) q) (Arr.mask (Arr.ofMat n vt) mask)).rows.length = n ∧
    (Arr.matmul (Arr.divVec (Arr.T (Arr.mask (Arr.ofMat n vt) mask)) q) (Arr.mask (Arr.ofMat n vt) mask)).cols = n := by
  simp [Arr.matmul, Arr.divVec, Arr.T, Arr.mask, Arr.ofMat]

end Glotaran.C13.Py

namespace Glotaran.C13

/-! ### the real-number instance of `SNum` -/

noncomputable instance realSNum : SNum ℝ where
  toNum := C11.realNum
  sqrt := Real.sqrt

theorem sqrtOfRat_real (r : ℚ) : (sqrtOfRat r : ℝ) = Real.sqrt (r : ℝ) := rfl

theorem sqrtRat_eq {α : Type} [SNum α] (r : Rat) : (Py.sqrtRat r : α) = sqrtOfRat r := rfl

end Glotaran.C13
